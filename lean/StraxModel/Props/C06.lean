import StraxModel.Lemmas.Kill
import StraxModel.Lemmas.PostOffice
import StraxModel.Lemmas.NetMeasure
import StraxModel.Lemmas.NetLive
import StraxModel.Lemmas.NetOutcome
/-
  C06 — failures reach the caller and never hang the pipeline.

  Three levels.
  * Mailbox level (this section): the kill protocol of ONE `strax.Mailbox`, for every configuration and every
    reachable state of the transition system of Model/Mailbox.lean (flags, explicit notifications), i.e. for every
    schedule: `kill_wakes_all`, `killed_reader_raises`, `force_killed_sender_raises`, `send_rechecks_after_wait`.
    These are what makes the guard semantics of Model/Net.lean sound for kills.
  * PostOffice level: the single-thread bus + `SingleThreadProcessor.iter` for ALL producer scripts; the two statements
    about the epilogue are `_partial` (hypothesis: no saver closed yet / no failing close) because of the open finding D7,
    with `decide` witnesses of the masking.
  * Net level: `ThreadedMailboxProcessor` as a net (Model/Net.lean; divider kills its source first, consumer kills the
    target first — both tied to the real code by the end-state correspondence `net/dynamics`).  `executions_finite` /
    `schedule_length_bounded` for every net; everything else is `_partial`: proved under `Net.TreeNet` (no multi-output
    plugin, no reconvergent graph — also no lag-free diamond —, every reader drains its inputs).  `wire ⇒ TreeNet` is
    proved for finite families only (`wire_treeNet_partial`, `wire_treeNet_merge_partial`, by `decide +kernel`); the
    general lemma is unproved, the driver evaluates `TreeNet` on every real wiring of the check instead.
  27 theorems: 13 full, 10 `_partial`, 4 witnesses (`_counterexample`: D7 twice, D10, the divider before D28's fix).
-/
namespace Strax.C06
open Strax Strax.Mailbox

/-! ## mailbox level -/

/-- in every reachable state of a killed mailbox nobody sleeps on a condition without having been notified -/
theorem killed_no_blocked_waiter (c : Config) (s : Sys) (h : Reachable c s) (hk : s.mb.killed = true) :
    (∀ (i : Nat) (sub : Sub), s.mb.subs[i]? = some sub → sub.flag ≠ some false) ∧
    s.mb.writeFlag ≠ some false ∧ s.mb.fetchFlag ≠ some false :=
  Kill.no_blocked_of_killed (Inv.reachable h).mb hk

/-- `kill(upstream)` in any reachable state: the mailbox is killed (force-killed if `upstream`), and every waiter of
the three conditions has been notified — readers (`_read_condition`), the sender waiting for room
(`_write_condition`) and the lazy sender waiting for demand (`_fetch_new_condition`).  Also for a second kill,
which notifies nobody: then nobody was blocked. -/
theorem kill_wakes_all (c : Config) (s : Sys) (h : Reachable c s) (up : Bool) :
    (s.mb.kill up).killed = true ∧ (up = true → (s.mb.kill up).forceKilled = true) ∧
    (∀ (i : Nat) (sub : Sub), (s.mb.kill up).subs[i]? = some sub → sub.flag ≠ some false) ∧
    (s.mb.kill up).writeFlag ≠ some false ∧ (s.mb.kill up).fetchFlag ≠ some false := by
  have hk := kill_killed s.mb up
  have hinv := (Inv.reachable h).mb.kill up
  refine ⟨hk, ?_, Kill.no_blocked_of_killed hinv hk⟩
  intro hu; subst hu
  simp only [MB.kill]
  by_cases hkk : s.mb.killed = true <;> simp [hkk, MB.notifyFetch, MB.notifyWrite, MB.notifyRead]

/-- the killer thread's step is exactly that -/
theorem kill_step_wakes_all (c : Config) (s s' : Sys) (h : Reachable c s) (k : Nat) (hs : step s (.killer k) = some s') :
    s'.mb.killed = true ∧ (∀ (i : Nat) (sub : Sub), s'.mb.subs[i]? = some sub → sub.flag ≠ some false) ∧
    s'.mb.writeFlag ≠ some false ∧ s'.mb.fetchFlag ≠ some false := by
  have h' : Reachable c s' := Reachable.step h hs
  have hk : s'.mb.killed = true := by
    simp only [Mailbox.step, stepKiller] at hs
    split at hs
    · simp only [Option.some.injEq] at hs; subst hs; exact kill_killed _ _
    · simp at hs
  exact ⟨hk, killed_no_blocked_waiter c s' h' hk⟩

/-- a reader that enters or resumes its critical section on a killed mailbox raises `MailboxKilled`: it is
enabled (not blocked), it takes nothing more, and the messages it already handed over are untouched -/
theorem killed_reader_raises (c : Config) (s : Sys) (h : Reachable c s) (hk : s.mb.killed = true)
    (i : Nat) (r : Reader) (hr : s.readers[i]? = some r) (hpc : r.pc = .read) :
    ∃ s', step s (.reader i) = some s' ∧ s'.readers[i]? = some { r with pc := .dead .mailboxKilled } ∧
      s'.mb.heap = s.mb.heap ∧ s'.sent = s.sent := by
  have hinv := Inv.reachable h
  have hlen := hinv.rd.len
  have hi : i < s.readers.length := (List.getElem?_eq_some_iff.mp hr).1
  have hsub : ∃ sub, s.mb.subs[i]? = some sub := ⟨s.mb.subs[i]'(by omega), List.getElem?_eq_getElem (by omega)⟩
  obtain ⟨sub, hsub⟩ := hsub
  have hnb := (killed_no_blocked_waiter c s h hk).1 i sub hsub
  simp only [Mailbox.step, stepReader, hr, hpc, MB.readStep, hsub]
  cases hf : sub.flag with
  | none =>
    simp [hk, MB.readKilled, hi]
  | some b =>
    cases b with
    | false => exact absurd hf hnb
    | true => simp [hk, MB.readKilled, hi]

/-- a sender that calls or resumes `send` on a force-killed mailbox raises `MailboxKilled` and pushes nothing;
in `_send_from` that becomes `kill_from_exception` (pc `exc`), in the final `close()` it ends the thread -/
theorem force_killed_sender_raises (c : Config) (s : Sys) (h : Reachable c s) (hfk : s.mb.forceKilled = true) :
    (∀ num m, s.spc = .send num m →
      ∃ s', step s .sender = some s' ∧ s'.spc = .exc .mailboxKilled ∧ s'.sent = s.sent ∧ s'.mb.heap = s.mb.heap) ∧
    (s.spc = .close →
      ∃ s', step s .sender = some s' ∧ s'.spc = .dead .mailboxKilled ∧ s'.sent = s.sent ∧ s'.mb.heap = s.mb.heap) := by
  have hinv := Inv.reachable h
  have hk : s.mb.killed = true := hinv.mb.fk hfk
  have hnw := (killed_no_blocked_waiter c s h hk).2.1
  have hcw := Kill.canWrite_of_killed hk
  have hcd := Kill.ClosedDone.reachable h
  have key0 : ∀ n m, s.spc ≠ .done → ∃ mb', s.mb.sendCore n m = some (.raised .mailboxKilled, mb') ∧ mb'.heap = s.mb.heap := by
    intro n m hnd
    have hcl : s.mb.closed = false := by
      cases hc : s.mb.closed with
      | false => rfl
      | true => exact absurd (hcd hc) hnd
    simp only [MB.sendCore]
    cases hw : s.mb.writeFlag with
    | none => simp [hcl, hfk]
    | some b =>
      cases b with
      | false => exact absurd hw hnw
      | true => simp [hcw, hk, hfk]
  have key : ∀ num m, s.spc ≠ .done →
      ∃ mb', s.mb.sendStep num m = some (.raised .mailboxKilled, mb') ∧ mb'.heap = s.mb.heap := by
    intro num m hnd; unfold MB.sendStep; exact key0 _ m hnd
  constructor
  · intro num m hpc
    obtain ⟨mb', hsc, hh⟩ := key num m (by rw [hpc]; simp)
    refine ⟨{ s with mb := mb', spc := .exc .mailboxKilled }, ?_, rfl, rfl, hh⟩
    simp only [Mailbox.step, stepSender, hpc, hsc]
  · intro hpc
    obtain ⟨mb', hsc, hh⟩ := key none .stop (by rw [hpc]; simp)
    refine ⟨{ s with mb := mb', spc := .dead .mailboxKilled }, ?_, rfl, rfl, hh⟩
    simp only [Mailbox.step, stepSender, hpc, hsc]

/-- `send` re-checks the kill flags after it has waited for room: a sender woken from `_write_condition`
(flag `some true`) on a mailbox that was killed meanwhile does NOT push its message — it raises `MailboxKilled`
if the kill was `upstream`, otherwise the message is dropped.  Holds for every mailbox state. -/
theorem send_rechecks_after_wait (mb mb' : MB) (n : Nat) (m : Msg) (out : SendOut)
    (hw : mb.writeFlag = some true) (hk : mb.killed = true) (hs : mb.sendCore n m = some (out, mb')) :
    (out = if mb.forceKilled then .raised .mailboxKilled else .dropped) ∧
    mb'.heap = mb.heap ∧ mb'.nSent = mb.nSent ∧ mb'.writeFlag = none := by
  simp only [MB.sendCore, hw, Kill.canWrite_of_killed hk, hk] at hs
  cases hf : mb.forceKilled <;> simp [hf] at hs <;> obtain ⟨rfl, rfl⟩ := hs <;> simp

/-- the same for the sender thread of a system, auto-numbered (`num = none`, every send inside a pipeline) or explicitly
numbered: after the wake-up nothing is added to the log of pushed messages -/
theorem woken_sender_does_not_push (s s' : Sys) (hk : s.mb.killed = true)
    (num : Option Nat) (m : Msg) (hpc : s.spc = .send num m) (hw : s.mb.writeFlag = some true)
    (hs : step s .sender = some s') : s'.sent = s.sent ∧ s'.mb.heap = s.mb.heap := by
  simp only [Mailbox.step, stepSender, hpc] at hs
  cases hsc : s.mb.sendStep num m with
  | none => simp [hsc] at hs
  | some r =>
    obtain ⟨out, mb'⟩ := r
    have hsc' : s.mb.sendCore (resolveNum num s.mb.nSent) m = some (out, mb') := by
      unfold MB.sendStep at hsc; exact hsc
    obtain ⟨ho, hh, _, _⟩ := send_rechecks_after_wait s.mb mb' _ m out hw hk hsc'
    simp only [hsc] at hs
    cases hf : s.mb.forceKilled <;> simp [hf] at ho <;> subst ho <;>
      (simp only [Option.some.injEq] at hs; subst hs; exact ⟨rfl, hh⟩)

/-! ### non-vacuity of the mailbox-level statements -/

/-- eager, capacity 1, one subscriber, two messages, one killer calling `kill(upstream=True)` -/
def exKill : Config :=
  { cap := some 1, lazy := false, gateRule := .hasMsg, drive := [true],
    prog := [.item none (.plain 10), .item none (.plain 20)], workers := [], killers := [true] }

/-- the sender is blocked on the full mailbox (flag `some false`) … -/
example : (run? (init exKill) [.sender, .sender, .sender, .sender]).map (fun s => (s.mb.writeFlag, s.spc)) =
    some (some false, .send (some 1) (.plain 20)) := by decide

/-- … the kill notifies it (flag `some true`) and force-kills the mailbox: the hypotheses of
`send_rechecks_after_wait` / `force_killed_sender_raises` / `woken_sender_does_not_push` occur together … -/
example : (run? (init exKill) [.sender, .sender, .sender, .sender, .killer 0]).map
    (fun s => (s.mb.writeFlag, s.mb.killed, s.mb.forceKilled, s.sent.length)) = some (some true, true, true, 1) := by decide

/-- … and its next step raises MailboxKilled without pushing -/
example : (run? (init exKill) [.sender, .sender, .sender, .sender, .killer 0, .sender]).map
    (fun s => (s.spc, s.sent.length, s.mb.heap.length)) = some (.exc .mailboxKilled, 1, 1) := by decide

/-- a reader waiting for a message that never comes is blocked, woken by the kill, and raises -/
example : (run? (init exKill) [.reader 0]).map (fun s => s.mb.subs.map (·.flag)) = some [some false] := by decide
example : (run? (init exKill) [.reader 0, .killer 0]).map (fun s => s.mb.subs.map (·.flag)) = some [some true] := by decide
example : (run? (init exKill) [.reader 0, .killer 0, .reader 0]).map (fun s => s.readers.map (·.pc)) =
    some [.dead .mailboxKilled] := by decide

/-! ## PostOffice level (single-thread processor), for ALL producer scripts, spies and consumers -/

/-- `next()` on any reader of the bus, at any nesting depth of producers pulling from readers: whatever exception is
raised anywhere below it (a producer script, `saver.save` inside a spy, `saver.close` when a topic is exhausted, an
assertion of the bus itself) IS the result of that `next()`: nothing else is raised on the way up through the nested
generators, and nothing that was raised is swallowed (`log` = ghost list of every exception raised) -/
theorem exception_passes_through (fuel : Nat) (po po' : PostOffice.PO) (g : Nat) (r : PostOffice.Res)
    (h : PostOffice.readNext fuel po g = (po', r)) :
    (∀ e, r = .raised e → po'.log = po.log ++ [e]) ∧ ((∀ e, r ≠ .raised e) → po'.log = po.log) := by
  have := (PostOffice.pull_log fuel).2.2 po g po' r h
  constructor
  · intro e he; subst he; exact this
  · intro hne
    cases r with
    | raised e => exact absurd rfl (hne e)
    | msg v => exact this
    | stop => exact this
    | fuel => exact this

/-- `kill_spies` appends exactly the exception it raises -/
theorem killSpies_log (po po' : PostOffice.PO) (e : Option PostOffice.Exc) (h : po.killSpies = (po', e)) :
    PostOffice.LogRel po po' e := by
  unfold PostOffice.PO.killSpies at h
  split at h <;> (simp only [Prod.mk.injEq] at h; obtain ⟨rfl, rfl⟩ := h; simp [PostOffice.LogRel])

/-- `SingleThreadProcessor.iter()` with any consumer (draining, throwing into the generator, closing it): if it ends
normally — exhausted or closed — then NO exception was raised anywhere during the whole run.  Contrapositive: any
failure of a producer, loader or saver at any chunk prevents a normal end; the caller never gets silently truncated data. -/
theorem normal_end_means_no_failure (fuel : Nat) (g : Nat) (c : PostOffice.Consumer) (k : Nat) :
    ∀ (po po' : PostOffice.PO) (got got' : List Nat) (out : PostOffice.Outcome),
    PostOffice.procIter fuel po g c k got = (po', out) → (out = .finished got' ∨ out = .closed got') → po'.log = po.log := by
  induction k with
  | zero => intro po po' got got' out h hn; simp [PostOffice.procIter] at h; rcases hn with hn | hn <;> simp [← h.2] at hn
  | succ k ih =>
    intro po po' got got' out h hn
    simp only [PostOffice.procIter] at h
    split at h
    · -- the consumer throws or closes
      rename_i r hstop
      subst h
      cases c with
      | drain => simp at hstop
      | throwAt n e =>
        simp only at hstop
        split at hstop
        · simp only [Option.some.injEq] at hstop
          unfold PostOffice.PO.epilogue at hstop
          split at hstop <;> (simp only [Prod.mk.injEq] at hstop; obtain ⟨_, rfl⟩ := hstop; simp at hn)
        · simp at hstop
      | closeAt n =>
        simp only at hstop
        split at hstop
        · simp only [Option.some.injEq] at hstop
          split at hstop
          · simp only [Prod.mk.injEq] at hstop; obtain ⟨_, rfl⟩ := hstop; simp at hn
          · rename_i po1 hk
            have := killSpies_log po po1 none hk
            simp only [Prod.mk.injEq] at hstop; obtain ⟨rfl, _⟩ := hstop; exact this
        · simp at hstop
    · split at h
      · rename_i po1 v h1
        have h1' := (exception_passes_through fuel po po1 g _ h1).2 (by intro e; simp)
        rw [← h1']; exact ih po1 po' _ got' out h hn
      · rename_i po1 h1
        have h1' := (exception_passes_through fuel po po1 g _ h1).2 (by intro e; simp)
        simp only [Prod.mk.injEq] at h; obtain ⟨rfl, _⟩ := h; exact h1'
      · rename_i po1 e h1
        unfold PostOffice.PO.epilogue at h
        split at h <;> (simp only [Prod.mk.injEq] at h; obtain ⟨_, rfl⟩ := h; simp at hn)
      · simp only [Prod.mk.injEq] at h; obtain ⟨_, rfl⟩ := h; simp at hn

/-- after the `except Exception: kill_spies(); raise` handler has run WITHOUT raising itself, every spy (saver) is
closed and the caller gets the original exception.  (Full statement "after a failure every saver is closed" is false:
`kill_spies` is a plain loop and stops at the first spy whose `kill` raises — see the counterexample below.) -/
theorem spies_killed_on_failure_partial (po po' : PostOffice.PO) (e : PostOffice.Exc)
    (h : po.epilogue e = (po', .raised e none)) : ∀ s ∈ po'.allSpies, s.closed = true := by
  unfold PostOffice.PO.epilogue at h
  split at h
  · simp at h
  · rename_i po1 hk
    simp only [Prod.mk.injEq] at h; obtain ⟨rfl, _⟩ := h
    unfold PostOffice.PO.killSpies at hk
    split at hk
    · simp at hk
    · rename_i ts hts
      simp only [Prod.mk.injEq] at hk; obtain ⟨rfl, _⟩ := hk
      intro s hs
      simp only [PostOffice.PO.allSpies, List.mem_flatMap] at hs
      obtain ⟨t, ht, hst⟩ := hs
      exact PostOffice.killTopics_closed hts t ht s hst

/-- every saver still open and able to close -/
def AllSpiesHealthy (po : PostOffice.PO) : Prop := ∀ s ∈ po.allSpies, s.closed = false ∧ s.failClose = false

instance (po : PostOffice.PO) : Decidable (AllSpiesHealthy po) := by unfold AllSpiesHealthy; infer_instance

/-- the caller of `SingleThreadProcessor.iter()` receives the ORIGINAL exception, provided no saver was closed before
the failure and no `saver.close()` fails.  Full statement (without the hypothesis) is false: D7, next theorem. -/
theorem original_exception_preserved_partial (po : PostOffice.PO) (e : PostOffice.Exc) (hh : AllSpiesHealthy po) :
    (po.epilogue e).2 = .raised e none ∧ ∀ s ∈ (po.epilogue e).1.allSpies, s.closed = true := by
  have hk : (PostOffice.killTopics po.topics).2 = none := by
    apply PostOffice.killTopics_ok
    intro t ht s hs
    exact hh s (by simp only [PostOffice.PO.allSpies, List.mem_flatMap]; exact ⟨t, ht, hs⟩)
  have he : (po.epilogue e).2 = .raised e none := by
    unfold PostOffice.PO.epilogue PostOffice.PO.killSpies
    cases hkt : PostOffice.killTopics po.topics with
    | mk ts x => rw [hkt] at hk; simp only at hk; subst hk; rfl
  refine ⟨he, ?_⟩
  apply spies_killed_on_failure_partial po _ e
  cases hep : po.epilogue e with
  | mk p o => rw [hep] at he; simp only at he; subst he; rfl

/-- build a bus from registration calls -/
def mkBus (ops : List (PostOffice.PO → Except PostOffice.Exc PostOffice.PO)) : PostOffice.PO :=
  ops.foldl (fun po f => match f po with
    | .ok p => p
    | .error _ => po) {}

/-- D7 witness: topic 0 = a source with one chunk and a healthy saver; topic 1 = a plugin reading topic 0 (generator 0)
whose saver fails in `close` (the final rename); generator 1 is the processor's FINAL reader of topic 1 -/
def d7Bus : PostOffice.PO := mkBus [
  fun po => po.registerProducer [.yield] [0] [],
  fun po => .ok (po.registerSpy 0 {}),
  fun po => .ok (po.getIter 0 1),
  fun po => po.registerProducer [.pull 0, .yield, .pull 0] [1] [],
  fun po => .ok (po.registerSpy 1 { failClose := true, exc := 7 }),
  fun po => .ok (po.getIter 1 99)]

/-- D7 (open finding): the saver of topic 0 was closed when its topic was exhausted; the saver of topic 1 then fails in
`close`; `kill_spies` re-closes the closed saver of topic 0, `Saver.close` raises RuntimeError(already closed): the
caller gets THAT, the injected exception 7 only as `__context__` -/
theorem original_exception_masked_counterexample :
    (PostOffice.procIter 50 d7Bus 1 .drain 50 []).2 = .raised .alreadyClosed (some (.inj 7)) := by decide

/-- the same bus with a producer failure (exception 5) after topic 0 was exhausted: masked as well, and the saver of
topic 1 is left OPEN (so `spies_killed_on_failure` without its hypothesis is false too) -/
def d7Bus' : PostOffice.PO := mkBus [
  fun po => po.registerProducer [.yield] [0] [],
  fun po => .ok (po.registerSpy 0 {}),
  fun po => .ok (po.getIter 0 1),
  fun po => po.registerProducer [.pull 0, .yield, .pull 0, .raise 5] [1] [],
  fun po => .ok (po.registerSpy 1 {}),
  fun po => .ok (po.getIter 1 99)]

theorem spies_left_open_counterexample :
    (PostOffice.procIter 50 d7Bus' 1 .drain 50 []).2 = .raised .alreadyClosed (some (.inj 5)) ∧
    ((PostOffice.procIter 50 d7Bus' 1 .drain 50 []).1.allSpies.map (·.closed)) = [true, false] := by decide

/-- non-vacuity of `original_exception_preserved_partial`: a failure at the second chunk while every saver is open -/
def okBus : PostOffice.PO := mkBus [
  fun po => po.registerProducer [.yield, .yield, .yield] [0] [],
  fun po => .ok (po.registerSpy 0 {}),
  fun po => .ok (po.getIter 0 1),
  fun po => po.registerProducer [.pull 0, .yield, .pull 0, .raise 5] [1] [],
  fun po => .ok (po.registerSpy 1 {}),
  fun po => .ok (po.getIter 1 99)]

example : (PostOffice.readNext 50 (PostOffice.readNext 50 okBus 1).1 1).2 = .raised (.inj 5) ∧
    AllSpiesHealthy (PostOffice.readNext 50 (PostOffice.readNext 50 okBus 1).1 1).1 := by decide

example : (PostOffice.procIter 50 okBus 1 .drain 50 []).2 = .raised (.inj 5) none := by decide

/-! ## net level (ThreadedMailboxProcessor): Model/Net.lean, every net, every schedule -/

/-- every maximal execution of every net is finite: the step relation is well-founded (no structural hypothesis;
`Net.NState.measure` decreases with every step) -/
theorem executions_finite (net : Net.Net) :
    WellFounded (fun (s' s : Net.NState) => ∃ t, Net.step net s t = some s') := by
  apply Subrelation.wf (r := InvImage (· < ·) Net.NState.measure)
  · intro s' s ⟨t, h⟩
    exact Net.step_decreases net s s' t h
  · exact InvImage.wf _ Nat.lt_wfRel.wf

/-- … with an explicit bound: no schedule is longer than the measure of the state it starts from -/
theorem schedule_length_bounded (net : Net.Net) (sched : List Nat) (s s' : Net.NState)
    (h : Net.run? net s sched = some s') : sched.length ≤ s.measure := by
  have := Net.run_length_le net sched s s' h
  omega

/-- chunk lag of a stage program with respect to its k-th dependency: the largest excess of chunks fetched from it
over results emitted, over all prefixes of the program -/
def lagDep (k : Nat) : List Net.SInstr → Nat → Nat → Nat
  | [], _, _ => 0
  | .read j :: r, reads, emits =>
    if j = k then max (reads + 1 - emits) (lagDep k r (reads + 1) emits) else lagDep k r reads emits
  | .emit :: r, reads, emits => lagDep k r reads (emits + 1)
  | .fail _ :: r, reads, emits => lagDep k r reads emits

def lagOf (p : Net.PluginD) : Nat := ((List.range p.dependsOn.length).map fun k => lagDep k p.prog 0 0).foldl max 0

/-- a stage that withholds `w` results: `w + 1` reads before its first result, then one result per read, the last `w`
results after its input ended (an overlap-window plugin) -/
def lagProg (n w : Nat) : List Net.SInstr :=
  List.replicate (w + 1) (Net.SInstr.read 0) ++ (List.replicate (n - w) [Net.SInstr.emit, Net.SInstr.read 0]).flatten ++
    List.replicate w Net.SInstr.emit

/-- D10's shape: `cc` depends on the source `ss` and on `b2 ← b1 ← ss`; `n` chunks, both `b` plugins withhold `w` -/
def d10 (n w : Nat) : Net.Components :=
  { plugins := [("cc", 3), ("ss", 0), ("b2", 2), ("b1", 1)],
    defs := [{ cls := "Src", provides := ["ss"], dependsOn := [], prog := List.replicate n .emit },
             { cls := "B1", provides := ["b1"], dependsOn := ["ss"], prog := lagProg n w },
             { cls := "B2", provides := ["b2"], dependsOn := ["b1"], prog := lagProg n w },
             { cls := "CC", provides := ["cc"], dependsOn := ["ss", "b2"],
               prog := (List.replicate n [Net.SInstr.read 0, .read 1, .emit]).flatten ++ [.read 0, .read 1] }],
    loaders := [], savers := [], targets := ["cc"] }

def d10Net (cap : Nat) : Net.Net := Net.wire (d10 8 3) { allowLazy := false, maxMessages := cap } .drain

/-- threads of `d10Net`: 0 = build:cc, 1 = build:ss, 2 = build:b2, 3 = build:b1, 4 = main -/
def d10Sched : List Nat := [1, 2, 3, 4, 0, 1, 3, 0, 1, 3, 1, 3, 1, 3, 1, 2, 3, 2, 3, 2, 3, 2, 3, 2, 3, 2]

/-- D10 (open finding): `terminates_without_failure` with the property's own hypothesis — the capacity (5) exceeds
the largest chunk lag of ANY plugin (4) — is false: no stage fails, yet after 26 steps no thread can move, nothing has
ended and the consumer has no result.  (The `ss` mailbox is full of chunks `cc` has not read, `b1` waits for the
next `ss` chunk, `b2` for `b1`, `cc` for `b2`.)  The lags add up along the branch `b1 → b2`: 4 + 4 > 5. -/
theorem reconvergent_deadlock_counterexample :
    (∀ p ∈ (d10 8 3).defs, lagOf p < 5) ∧
    (Net.run? (d10Net 5) (Net.init (d10Net 5)) d10Sched).map
      (fun s => (s.terminal (d10Net 5), s.allEnded, s.outcome)) = some (true, false, none) := by
  decide +kernel

/-- the same net with capacity 6 runs to completion (this schedule; `terminates_without_failure_partial` is about
trees, where every capacity ≥ 1 is enough) -/
example : (Net.run? (d10Net 6) (Net.init (d10Net 6))
    [1, 2, 3, 4, 0, 1, 3, 0, 1, 3, 1, 3, 1, 3, 1, 2, 3, 1, 2, 3, 2, 3, 2, 3, 2, 3, 2, 3, 2, 3, 2, 0, 2, 0, 4, 0, 1, 3, 4, 0, 1, 3,
     2, 3, 2, 3, 0, 2, 3, 0, 2, 3, 4, 0, 2, 3, 4, 0, 2, 0, 2, 4, 0, 2, 4, 0, 2, 0, 2, 4, 0, 2, 4, 0, 2, 0, 2, 4, 0, 4, 0, 0, 4, 0,
     4, 0, 0, 4, 0, 4, 0, 0, 4, 0, 4, 0, 0, 4, 4, 4, 4, 4, 4, 4, 4, 4, 4, 4]).map
    (fun s => (s.terminal (d10Net 6), s.allEnded, s.outcome)) = some (true, true, some .returned) := by
  decide +kernel

/-- a multi-output plugin `MO` (outputs xx → target plugin, yy saved, zz discarded) whose saver of `yy` fails at chunk `k` -/
def d28 (n k : Nat) : Net.Components :=
  { plugins := [("tt", 2), ("xx", 1), ("ss", 0)],
    defs := [{ cls := "Src", provides := ["ss"], dependsOn := [], prog := List.replicate n .emit },
             { cls := "MO", provides := ["xx", "yy", "zz"], dependsOn := ["ss"],
               prog := (List.replicate n [Net.SInstr.read 0, .emit]).flatten ++ [.read 0] },
             { cls := "TT", provides := ["tt"], dependsOn := ["xx"],
               prog := (List.replicate n [Net.SInstr.read 0, .emit]).flatten ++ [.read 0] }],
    loaders := [], savers := [("yy", [{ failAt := some k, exc := 7 }])], targets := ["tt"] }

def d28Net (guarded : Bool) : Net.Net :=
  Net.wire (d28 1 0) { allowLazy := false, maxMessages := 2, guardedClose := guarded } .drain

/-- D28 as it was before the fix (86c4ce9): `divide_outputs` closed its outputs outside its exception handler.
The saver of `yy` fails on the last chunk and kills `yy`; `yy.close()` raises in the divider, `zz` is neither closed
nor killed: `discard_zz` waits forever, the consumer waits in `join` — a deadlock although a failure occurred.
Threads: 0 build:tt, 1 divide_outputs:xx, 2 the divider, 3 build:ss, 4 save_0:yy, 5 discard_zz, 6 main. -/
theorem divider_close_loop_old_counterexample :
    (Net.run? (d28Net false) (Net.init (d28Net false))
      [0, 1, 2, 4, 3, 1, 1, 1, 2, 2, 0, 0, 0, 2, 2, 2, 4, 4, 4, 3, 1, 1, 2, 2, 2, 0, 0, 2, 5, 5, 6, 6, 6, 6, 6, 6, 6, 6, 6,
       6, 6, 6, 6, 6]).map (fun s => (s.terminal (d28Net false), s.allEnded, s.outcome)) = some (true, false, none) := by
  decide +kernel

/-- with the handler around the closing loop (the code today) the same schedule prefix ends with every thread finished
and the consumer raising the saver's exception 7 -/
example : ∃ sched, (Net.run? (d28Net true) (Net.init (d28Net true)) sched).map
    (fun s => (s.terminal (d28Net true), s.allEnded, s.outcome)) = some (true, true, some (.raised (.inj 7))) :=
  ⟨[0, 1, 2, 4, 3, 1, 1, 1, 2, 2, 0, 0, 0, 2, 2, 2, 4, 4, 4, 3, 1, 1, 2, 2, 2, 0, 0, 2, 5, 5, 6, 6, 6, 6, 6, 6, 6, 6, 6,
    6, 6, 2, 2, 2, 5, 6, 6, 6, 6, 6], by decide +kernel⟩

/-! ### tree-shaped nets: no deadlock, with or without failures -/

/-- `terminal` (no thread enabled) as a statement about `step` -/
theorem terminal_iff_stuck (net : Net.Net) (s : Net.NState) (h : s.terminal net = true) (t : Nat) : Net.step net s t = none :=
  Net.terminal_none h t

/-- **No thread is left behind.**  For every net of the shape `Net.TreeNet` — every mailbox has one reader that is a
stage or the consumer, all its other readers are savers; every stage has one output and reads mailboxes of lower rank;
every reader is programmed to read its inputs to exhaustion; i.e. chains and trees of single-output plugins and loaders
with any savers, any lags between reads and results, any capacity ≥ 1, lazy or eager, with `fail` instructions anywhere:
in sources, mid plugins, savers (`save` of any chunk, `close`) and in the consumer, also several at once — and every
schedule: a state in which no thread can move is a state in which EVERY thread has ended.  Together with
`executions_finite`: every maximal execution is finite and ends with all threads — stages, savers, the consumer —
terminated.  This is `failure_propagates` / `abandon_stops_all` / `terminates_without_failure` as far as termination goes.
`_partial`: `TreeNet` EXCLUDES multi-output plugins (no divider thread satisfies it), EVERY reconvergent graph (also a
lag-free diamond), stages that stop reading an input before its end, and non-driving pipe readers (see the docstring of
`Net.TreeNet`); for those nets there is no theorem (for reconvergent ones the statement is false without a capacity
hypothesis: `reconvergent_deadlock_counterexample`), only the sampled runs of the real code and the end-state tie
`net/dynamics`.  That `wire` yields a `TreeNet` for chains and merge trees: `wire_treeNet_partial`,
`wire_treeNet_merge_partial` (finite families) and the `tree=` field of `c06.run` on every real wiring of the check. -/
theorem all_threads_end_partial (net : Net.Net) (c : Net.Cert) (hT : Net.TreeNet net c) (s : Net.NState)
    (hr : Net.Reachable net s) (hterm : s.terminal net = true) : s.allEnded = true := by
  have x : Net.Term net c s := ⟨hT, Net.TInv.reachable hT hr, Net.terminal_none hterm⟩
  unfold Net.NState.allEnded
  rw [List.all_eq_true]
  intro ts hts
  obtain ⟨t, ht⟩ := List.getElem?_of_mem hts
  simp [Net.TSt.ended, x.all_ended t ts ht]

/-- `abandon_stops_all`: the consumer gives up after `k` chunks (raises in its loop body, or closes the iterator, which
`get_iter` turns into an exception thrown into the processor).  Nothing but the instance `.failAt k e` of
`all_threads_end_partial` (the consumer's program has a `fail` after `k` reads): every pipeline thread ends, in every
schedule — under the same `TreeNet` hypothesis and with the same exclusions. -/
theorem abandon_stops_all_partial (comps : Net.Components) (o : Net.Opts) (k e : Nat) (c : Net.Cert)
    (hT : Net.TreeNet (Net.wire comps o (.failAt k e)) c) (s : Net.NState)
    (hr : Net.Reachable (Net.wire comps o (.failAt k e)) s) (hterm : s.terminal (Net.wire comps o (.failAt k e)) = true) :
    s.allEnded = true :=
  all_threads_end_partial _ c hT s hr hterm

/-- non-vacuity: a lazy chain `ss → mm → tt` wired by `wire` (capacity 1, two chunks), with a saver of `mm` failing at
chunk 1, a saver of `tt` failing in `close`, and a consumer that gives up after one chunk, is tree-shaped -/
def exChain : Net.Components :=
  { plugins := [("tt", 2), ("mm", 1), ("ss", 0)],
    defs := [{ cls := "Src", provides := ["ss"], dependsOn := [], prog := List.replicate 2 .emit },
             { cls := "Mid", provides := ["mm"], dependsOn := ["ss"],
               prog := (List.replicate 2 [Net.SInstr.read 0, .emit]).flatten ++ [.read 0] },
             { cls := "Top", provides := ["tt"], dependsOn := ["mm"],
               prog := (List.replicate 2 [Net.SInstr.read 0, .emit]).flatten ++ [.read 0] }],
    loaders := [], savers := [("mm", [{ failAt := some 1, exc := 7 }]), ("tt", [{ failClose := true, exc := 9 }])],
    targets := ["tt"] }

def exChainNet : Net.Net := Net.wire exChain { allowLazy := true, maxMessages := 1 } (.failAt 1 5)

example : Net.TreeNet exChainNet (Net.certOf exChainNet) := by decide +kernel

/-- a tree: the target merges two sources, one of them with a lag of two chunks, eager, a source failing at its second chunk -/
def exTree : Net.Components :=
  { plugins := [("tt", 2), ("sa", 0), ("sb", 1)],
    defs := [{ cls := "SA", provides := ["sa"], dependsOn := [], prog := [.emit, .fail 3, .emit] },
             { cls := "SB", provides := ["sb"], dependsOn := [], prog := [.emit, .emit] },
             { cls := "TT", provides := ["tt"], dependsOn := ["sa", "sb"],
               prog := [.read 0, .read 1, .read 1, .emit, .read 0, .emit, .read 0, .read 1] }],
    loaders := [], savers := [("sb", [{}]), ("tt", [{}])], targets := ["tt"] }

def exTreeNet : Net.Net := Net.wire exTree { allowLazy := false, maxMessages := 2 } .drain

example : Net.TreeNet exTreeNet (Net.certOf exTreeNet) := by decide +kernel

/-- the D10 net is NOT tree-shaped (`ss` has two pipe readers) -/
example : ¬ Net.TreeNet (d10Net 5) (Net.certOf (d10Net 5)) := by decide +kernel

/-! ### tree-shaped nets: what the caller of `iter()` gets -/

/-- `failure_propagates` for tree-shaped nets, every failure position(s), every schedule, lazy and eager: when nothing
can move any more (and by `executions_finite` that happens after finitely many steps) all threads have ended, the
consumer's `iter()` has ended with an outcome, and
* if it raised, it raised an exception that a `fail` / `die` instruction of some stage, saver or the consumer injected —
  never a timeout, never an exception made up on the way (`MailBoxAlreadyClosed`, a missing kill reason);
* it returned normally only if NO thread ever raised anything, and then it has taken every message of the target and the
  end marker: never silently truncated data.
"The original exception" is proved as "SOME injected exception": with several faults in one net it may be any of them
(the real code has the same freedom: whichever kill arrives first); for a net with ONE injected identity it is that one:
`failure_propagates_single_fault_partial`.
`_partial`: `TreeNet` (no multi-output plugin, no reconvergence of any kind, every reader drains its inputs — see
`Net.TreeNet`); the second item needs `SinksListed` (every saver is in the list `iter()` checks — `wire` guarantees it,
see the examples and `wire_treeNet_partial`). -/
theorem failure_propagates_partial (net : Net.Net) (c : Net.Cert) (hT : Net.TreeNet net c) (s : Net.NState)
    (hr : Net.Reachable net s) (hterm : s.terminal net = true) :
    s.allEnded = true ∧ ∃ out, s.outcome = some out ∧
      (∀ e, out = .raised e → ∃ id, e = .inj id ∧ Net.Injected net id) ∧
      (Net.SinksListed net c → out = .returned →
        (∀ (t : Nat) (ts : Net.TSt), s.thr[t]? = some ts → ts.exc = none) ∧
        ∃ (a : Net.AMB) (sb : Net.ASub), s.mbs[(c.src (net.threads.length - 1)).1]? = some a ∧
          a.subs[(c.src (net.threads.length - 1)).2]? = some sb ∧ a.closed = true ∧
          sb.next - sb.buffered = Net.tot net c (c.src (net.threads.length - 1)).1 ∧
          a.nSent = Net.tot net c (c.src (net.threads.length - 1)).1) := by
  refine ⟨all_threads_end_partial net c hT s hr hterm, ?_⟩
  obtain ⟨_, out, hout⟩ := Net.final_outcome hT hr (Net.terminal_none hterm)
  refine ⟨out, hout, ?_, ?_⟩
  · intro e he; subst he; exact Net.raised_is_injected hT hr hout
  · intro hSL he; subst he; exact Net.returned_means_clean hT hSL hr hout

/-- contrapositive reading: if ANY thread holds an exception at the end — some plugin, loader or saver failed, at any
chunk, or the consumer gave up — the caller does not get a normal return but one of the injected exceptions -/
theorem failure_reaches_caller_partial (net : Net.Net) (c : Net.Cert) (hT : Net.TreeNet net c) (hSL : Net.SinksListed net c)
    (s : Net.NState) (hr : Net.Reachable net s) (hterm : s.terminal net = true)
    (t : Nat) (ts : Net.TSt) (hts : s.thr[t]? = some ts) (hexc : ts.exc ≠ none) :
    ∃ id, s.outcome = some (.raised (.inj id)) ∧ Net.Injected net id := by
  obtain ⟨_, out, hout, h1, h2⟩ := failure_propagates_partial net c hT s hr hterm
  cases out with
  | returned => exact absurd ((h2 hSL rfl).1 t ts hts) hexc
  | raised e => obtain ⟨id, rfl, hinj⟩ := h1 e rfl; exact ⟨id, hout, hinj⟩

/-- single-fault reading of `failure_propagates_partial` ("the ORIGINAL exception"): if `id` is the only exception
identity injected anywhere in the net and the consumer's `iter()` raised, it raised exactly `id` -/
theorem failure_propagates_single_fault_partial (net : Net.Net) (c : Net.Cert) (hT : Net.TreeNet net c) (id : Nat)
    (honly : ∀ id', Net.Injected net id' → id' = id) (s : Net.NState) (hr : Net.Reachable net s)
    (hterm : s.terminal net = true) (e : Net.Exc) (hout : s.outcome = some (.raised e)) : e = .inj id := by
  obtain ⟨_, out, hout', h1, _⟩ := failure_propagates_partial net c hT s hr hterm
  rw [hout] at hout'
  cases hout'
  obtain ⟨id', rfl, hinj⟩ := h1 e rfl
  rw [honly id' hinj]

/-- `terminates_without_failure` for tree-shaped nets: no `fail` / `die` anywhere ⇒ every maximal execution ends with
all threads finished and the consumer returning normally with everything — for EVERY capacity ≥ 1 and every lag of
every plugin (in a tree the cumulative-lag hypothesis is vacuous).  `_partial`: for reconvergent graphs the hypothesis
"capacity exceeds the cumulative lag of every branch" is needed and that theorem is not proved; with the property's own
hypothesis (largest single lag) it is false: `reconvergent_deadlock_counterexample`. -/
theorem terminates_without_failure_partial (net : Net.Net) (c : Net.Cert) (hT : Net.TreeNet net c)
    (hclean : ∀ id, ¬ Net.Injected net id) (s : Net.NState) (hr : Net.Reachable net s) (hterm : s.terminal net = true) :
    s.allEnded = true ∧ s.outcome = some .returned := by
  obtain ⟨h0, out, hout, h1, _⟩ := failure_propagates_partial net c hT s hr hterm
  refine ⟨h0, ?_⟩
  cases out with
  | returned => exact hout
  | raised e => obtain ⟨id, _, hinj⟩ := h1 e rfl; exact absurd hinj (hclean id)

/-- non-vacuity: the hypotheses hold for wired nets, and the conclusions are the interesting ones on concrete runs -/
example : Net.SinksListed exChainNet (Net.certOf exChainNet) := by decide +kernel
example : Net.SinksListed exTreeNet (Net.certOf exTreeNet) := by decide +kernel

/-- the lazy chain with a failing saver, a saver failing in close and a consumer giving up: this schedule ends with every
thread finished and the consumer raising its own exception 5 (threads: 0 build:tt, 1 save_0:tt, 2 build:mm, 3 save_0:mm,
4 build:ss, 5 main) -/
example : (Net.run? exChainNet (Net.init exChainNet)
    [1, 3, 5, 0, 0, 2, 2, 4, 4, 2, 2, 3, 0, 3, 0, 1, 5, 1, 5, 5, 0, 1, 5, 0, 1, 2, 5, 0, 2, 3, 4, 5, 2, 4, 4, 0, 2, 3, 5, 5, 5, 5,
     5, 5]).map
    (fun s => (s.terminal exChainNet, s.allEnded, s.outcome)) = some (true, true, some (.raised (.inj 5))) := by
  decide +kernel

/-- the tree whose source `sa` fails at its second chunk: the consumer raises exception 3 -/
example : (Net.run? exTreeNet (Net.init exTreeNet)
    [1, 2, 3, 4, 5, 0, 2, 3, 4, 0, 2, 3, 4, 0, 0, 1, 5, 0, 1, 5, 0, 1, 5, 1, 5, 5, 5, 5, 5, 5, 5, 5, 5, 5]).map
    (fun s => (s.terminal exTreeNet, s.allEnded, s.outcome)) = some (true, true, some (.raised (.inj 3))) := by
  decide +kernel

/-- the same chain without any fault: returns normally -/
def exCleanNet : Net.Net :=
  Net.wire { exChain with savers := [("mm", [{}]), ("tt", [{}])] } { allowLazy := true, maxMessages := 1 } .drain

example : Net.TreeNet exCleanNet (Net.certOf exCleanNet) ∧ Net.SinksListed exCleanNet (Net.certOf exCleanNet) := by
  decide +kernel

example : (Net.run? exCleanNet (Net.init exCleanNet)
    [1, 3, 5, 0, 0, 2, 2, 4, 4, 2, 2, 3, 0, 3, 0, 1, 5, 1, 5, 0, 0, 2, 2, 4, 4, 2, 2, 3, 0, 3, 0, 1, 5, 1, 5, 0, 0, 2, 2, 4, 4, 2,
     2, 3, 0, 0, 1, 5, 5, 5, 5, 5, 5, 5, 5, 5, 5, 5]).map
    (fun s => (s.terminal exCleanNet, s.allEnded, s.outcome)) = some (true, true, some .returned) := by
  decide +kernel

/-! ### `wire` yields tree-shaped nets (finite families) -/

def famOk (c : Net.Components) (lz : Bool) (cap : Nat) (cons : Net.Consumer) : Prop :=
  Net.TreeNet (Net.wire c { allowLazy := lz, maxMessages := cap } cons)
      (Net.certOf (Net.wire c { allowLazy := lz, maxMessages := cap } cons)) ∧
    Net.SinksListed (Net.wire c { allowLazy := lz, maxMessages := cap } cons)
      (Net.certOf (Net.wire c { allowLazy := lz, maxMessages := cap } cons))

instance (c lz cap cons) : Decidable (famOk c lz cap cons) := by unfold famOk; infer_instance

def famName (i : Nat) : String := ["pa", "pb", "pc"].getD i "px"

/-- chain of `k` one-to-one plugins (`pa` the source) over `n` chunks; bit `i` of `mask`: type `i` has a saver -/
def famChain (k n mask : Nat) : Net.Components :=
  { plugins := (List.range k).reverse.map fun i => (famName i, i),
    defs := (List.range k).map fun i =>
      { cls := famName i, provides := [famName i], dependsOn := if i = 0 then [] else [famName (i - 1)],
        prog := if i = 0 then List.replicate n .emit
                else (List.replicate n [Net.SInstr.read 0, .emit]).flatten ++ [.read 0] },
    loaders := [],
    savers := ((List.range k).filter fun i => mask.testBit i).map fun i => (famName i, [{}]),
    targets := [famName (k - 1)] }

/-- the hypotheses `TreeNet` and `SinksListed` of the net theorems hold for `wire` of every chain of 1–3 single-output
plugins over 1–2 chunks with every subset of savers, lazy and eager, capacity 1 and 3, consumer draining or giving up
after one chunk (384 nets).  `_partial`: a finite family checked by evaluation; the general statement "tree-shaped
components ⇒ `TreeNet (wire …)`" is NOT proved.  The check evaluates the same decision procedure on the wiring of every
real run (`c06.run`, `tree=`). -/
theorem wire_treeNet_partial : ∀ k ∈ [1, 2, 3], ∀ n ∈ [1, 2], ∀ mask ∈ List.range 8, ∀ lz ∈ [true, false], ∀ cap ∈ [1, 3],
    ∀ cons ∈ [Net.Consumer.drain, .failAt 1 5], famOk (famChain k n mask) lz cap cons := by
  decide +kernel

/-- merge tree `tt ← (sa, sb)`: source `sa` with a `fail` before its chunk `fpos` (none if `fpos > n`), every subset of
savers, each saver of kind `sv` -/
def famMerge (n mask fpos : Nat) (sv : Net.SaverD) : Net.Components :=
  { plugins := [("tt", 2), ("sa", 0), ("sb", 1)],
    defs := [{ cls := "SA", provides := ["sa"], dependsOn := [],
               prog := if fpos ≤ n then List.replicate fpos .emit ++ [.fail 3] ++ List.replicate (n - fpos) .emit
                       else List.replicate n .emit },
             { cls := "SB", provides := ["sb"], dependsOn := [], prog := List.replicate n .emit },
             { cls := "TT", provides := ["tt"], dependsOn := ["sa", "sb"],
               prog := (List.replicate n [Net.SInstr.read 0, .read 1, .emit]).flatten ++ [.read 0, .read 1] }],
    loaders := [],
    savers := ((List.range 3).filter fun i => mask.testBit i).map fun i => (["sa", "sb", "tt"].getD i "", [sv]),
    targets := ["tt"] }

/-- … and for the merge tree with a failing source at every position, healthy savers / savers failing in `save` /
savers failing in `close`, every subset of savers, lazy and eager (288 nets).  `_partial` as above. -/
theorem wire_treeNet_merge_partial : ∀ n ∈ [1, 2], ∀ mask ∈ List.range 8, ∀ fpos ∈ [0, 1, 3],
    ∀ sv ∈ [({} : Net.SaverD), { failAt := some 0, exc := 7 }, { failClose := true, exc := 9 }], ∀ lz ∈ [true, false],
    famOk (famMerge n mask fpos sv) lz 1 .drain := by
  decide +kernel

/-- multi-output plugins and diamonds are outside `TreeNet` (so the `_partial` theorems say nothing about them) -/
example : ¬ Net.TreeNet (d28Net true) (Net.certOf (d28Net true)) := by decide +kernel

end Strax.C06
