import StraxModel.Model.Basic
namespace Strax.C06
open Strax

end Strax.C06
