import StraxModel.Lemmas.FSStep
import StraxModel.Model.StorePolicy
import StraxModel.Generated.StorePolicy
/-
  C04 — a crash or I/O failure never leaves wrong data visible as valid.

  Model: `Model/FS.lean` (abstract crashing file system; the FileSaver protocol as a small-step machine: saver
  thread + chunk writers, three variants serial / executor / forked, faults as scheduler actions).
  Invariant and its preservation by every step: `Lemmas/FS*.lean`.

  `Reach cs fs`: `fs` is reachable from the empty file system by ANY number of `make` attempts for the chunk list
  `cs`, each under ANY of the three variants (serial, executor, forked = inlined savers), any handler behaviour (extra
  chunks flushed by the single-thread processor's SaverSpy, abandoned savers), any schedule of saver thread / chunk
  writers / writes the handler does not wait for / rmtree order, any faults (any operation raising, exceptions thrown
  in from elsewhere) and stopped at ANY point (process death).
  All statements are for the protocol as it is in /repo now (D3, D12, D26 fixed); the three old behaviours are
  kept as switches of the model and refuted by `decide` on concrete witnesses (`…_old_counterexample`).

  Round 5: the forked variant (savers inlined into a ParallelSourcePlugin, chunk + per-chunk metadata written inside
  `do_compute` in a pool task, first-chunk flush of the forked copy's own metadata) is inside every universally
  quantified theorem below: the invariant of `Lemmas/FS*.lean` was re-established for the protocol as it is since the
  D35 fix (`cleanup` waits for the pool tasks, looks at their results and closes the inlined savers inside a failed
  task's exception: `waitAll` before the close).  What makes it go through: a forked saver is never driven by
  `save_from`, so it never has a chunk write that "has not reached `pending`" (`Side.nmu`); hence every write the
  handler does not wait for is an executor-variant data-file write and leaves the metadata file alone, and the forked
  copies, which DO write the metadata file, are all waited for before the final flush.  The unfixed cleanup stays
  refuted by `…_forked_old_counterexample`.
  Still partial: `retry_heals_partial` (the half "a fault-free retry always ends in success" is witnessed, not proved).
-/
namespace Strax.C04
open Strax Strax.FS

/-! ## the central invariant -/

/-- Whenever the final directory exists its metadata file exists and parses, and if that metadata says "writing
ended, no exception" then it lists exactly the chunks `cs` and every chunk file it names is in place with the right
rows.  (In the machine the final name appears only through `renameDir temp final` after a metadata flush; this is
what that buys.) -/
theorem final_dir_consistent {cs : List Chunk} (hcs : cs ≠ []) {fs : FS} (h : Reach cs fs) :
    ∀ d, fs.final = some d → ∃ m, d.get .md = some (.json m) ∧
      (m.good = true → m.chunks.isEmpty = false ∧ loadChunks d m.chunks = .ok cs) := by
  intro d hd
  have hs := reach_safe hcs h d hd
  unfold SafeDir at hs
  split at hs
  · rename_i m hm; exact ⟨m, hm, hs⟩
  · exact absurd hs id

/-! ## crash safety (all three variants) -/

/-- After any fault sequence, at any point of death: what `find` (hence `is_stored`) reports available loads
completely and equals the correct chunks; everything else is reported unavailable by `DataNotAvailable` — never by
another exception. -/
theorem crash_safe {cs : List Chunk} (hcs : cs ≠ []) {fs : FS} (h : Reach cs fs) :
    (visible fs = true → loads fs = .ok cs) ∧ (visible fs = false → find fs = .error .dataNotAvailable) := by
  rcases safe_visible (reach_safe hcs h) with ⟨hf, hl⟩ | hf
  · exact ⟨fun _ => hl, fun hv => by simp [visible, hf, Except.toBool] at hv⟩
  · exact ⟨fun hv => by simp [visible, hf, Except.toBool] at hv, fun _ => hf⟩

/-- The same for a configuration in the middle of an attempt (the process may die right there). -/
theorem crash_safe_midway {cs : List Chunk} (hcs : cs ≠ []) {fs : FS} (h : Reach cs fs) (hst : start fs = .save)
    (v : Variant) (hs : HandlerSpec) (acts : List Act) {c : Cfg}
    (hrun : run (initCfg fs v {} cs hs) acts = some c) :
    (visible c.fs = true → loads c.fs = .ok cs) ∧ (visible c.fs = false → find c.fs = .error .dataNotAvailable) :=
  crash_safe hcs (Reach.attempt h hst hrun)

/-- No reachable state makes a later request fail up front: the state "final directory without metadata"
(D12) is unreachable, `find` never raises `DataCorrupted`, so an identical request either finds the data or
recomputes it — no manual cleanup. -/
theorem retry_never_refused {cs : List Chunk} (hcs : cs ≠ []) {fs : FS} (h : Reach cs fs) :
    D12 fs = false ∧ start fs ≠ .corrupted := by
  refine ⟨?_, ?_⟩
  · unfold D12
    cases hf : fs.final with
    | none => rfl
    | some d =>
      obtain ⟨m, hm, _⟩ := final_dir_consistent hcs h d hf
      simp [hm]
  · rcases safe_visible (reach_safe hcs h) with ⟨hf, _⟩ | hf <;> simp [start, hf]

/-! ## failures are reported (all three variants) -/

/-- If any FS operation of the protocol raised — on the saver thread or in a chunk write on the executor, waited for
or not — the saver's part of the attempt (`save_from` + `close`, `Cfg.out`) never ends in "success": the exception
leaves `save_from` / `close`.  (Includes the D3 statement: a failed executor write is never swallowed.)  That the
processor hands that exception to the caller of `make` is the one boolean `lostClose = false`: both processors look
at an exception of the final `close` since the D26 fix; tied by the check's oracle, not proved about the processors.
Inlined (forked) savers are included: a failed pool task is seen by `cleanup` (`waitAll`), which closes the saver inside
that exception; `failure_unrecorded_forked_old_counterexample` is the behaviour before the D35 fix.
Hypothesis `hl` excludes only the pre-D26 processor (`close_failure_lost_old_counterexample`). -/
theorem failure_reported {cs : List Chunk} (hcs : cs ≠ []) {fs : FS} (h : Reach cs fs) (v : Variant)
    (hs : HandlerSpec)
    (hl : hs.lostClose = false) (acts : List Act) {c : Cfg} (hrun : run (initCfg fs v {} cs hs) acts = some c)
    (hf : c.failed = true) : c.out ≠ .success := by
  have hI := inv_init (reach_safe hcs h) v hs
  have hR := rep_run hcs acts hI hl (rep_init fs v cs hs) hrun
  intro hsu
  obtain ⟨hh, _, hok⟩ := hR.f2 hsu
  rcases hR.f1 hf with h1 | h1 | ⟨w, hw, hwf⟩
  · rw [hh] at h1; cases h1
  · rw [hsu] at h1; cases h1
  · have := hok w hw; rw [hwf] at this; cases this

/-! ## a retry heals -/

/- Full statement: from any state reachable by any fault sequence, a full fault-free run of the protocol (any
   schedule) terminates in "success" with the data stored completely and correctly.
   Proved: (1) `retry_never_refused` — the retry is never refused and starts (or finds the data already stored and
   correct, `crash_safe`); (2) `retry_heals_partial` — whenever the retry ends in "success" (any schedule, any of the
   three variants) the data is visible, loads completely and equals the correct chunks; (3) `failure_reported` — it can
   only end otherwise if an operation raised or an exception was thrown in.
   Missing: that a fault-free run cannot hit an operation that fails for a reason of the file-system state
   (e.g. `mkdir` of an existing directory) and that every schedule terminates.  Both are exercised by the check
   (every fault run is followed by a clean retry on the real code and in the model) and witnessed below by `decide`
   for the three variants from the empty directory, a stale temp directory and broken final data. -/
theorem retry_heals_partial {cs : List Chunk} (hcs : cs ≠ []) {fs : FS} (h : Reach cs fs) (v : Variant) (hs : HandlerSpec)
    (hl : hs.lostClose = false) (acts : List Act) {c : Cfg} (hrun : run (initCfg fs v {} cs hs) acts = some c)
    (hsu : c.out = .success) : visible c.fs = true ∧ loads c.fs = .ok cs := by
  have hI := inv_init (reach_safe hcs h) v hs
  have hR := rep_run hcs acts hI hl (rep_init fs v cs hs) hrun
  obtain ⟨d, m, hd, hm, hg⟩ := hR.succ hsu
  have hsafe := (inv_run hcs acts hI hrun).safe
  have hdir := hsafe d hd
  unfold SafeDir at hdir
  rw [hm] at hdir
  obtain ⟨hne, hload⟩ := hdir hg
  have hgm : getMetadata c.fs = .ok m := by simp [getMetadata, hd, hm]
  simp only [Meta.good, Bool.and_eq_true, Bool.not_eq_true'] at hg
  have hfind : find c.fs = .ok () := by simp [find, hd, hgm, hg.1, hg.2]
  exact ⟨by simp [visible, hfind, Except.toBool], by simp [loads, hfind, hgm, hne, hd, hload]⟩

/-! ## which data counts as broken and may be replaced: the decision logic, regenerated from the Python source

`Generated.canOverwrite` / `brokenCheck` / `writeRefused` are re-derived from the AST of `StorageFrontend._can_overwrite`,
the `check_broken` block of `StorageFrontend.find` and the write branch of `DataDirectory._find` on every run of the
check (`checks/props/c04.py:regen`); a change of that source changes the generated text and breaks a proof below. -/

theorem gen_canOverwrite_eq_model (p : Overwrite) (m : Meta) :
    Generated.canOverwrite p.name m.ended m.exc = canOverwrite p m := by
  cases p <;> cases hm : m.ended <;> cases he : m.exc <;>
    simp [Generated.canOverwrite, canOverwrite, Overwrite.name, Meta.good, hm, he]

theorem gen_brokenCheck_eq_model (allowIncomplete : Bool) (m : Meta) :
    Generated.brokenCheck allowIncomplete m.ended m.exc = brokenCheck allowIncomplete m := by
  cases allowIncomplete <;> cases hm : m.ended <;> cases he : m.exc <;>
    simp [Generated.brokenCheck, brokenCheck, hm, he]

theorem gen_writeRefused_eq_model (dirExists : Bool) (p : Overwrite) (m : Meta) :
    Generated.writeRefused dirExists (Generated.canOverwrite p.name m.ended m.exc) = writeRefused dirExists p m := by
  rw [gen_canOverwrite_eq_model]; rfl

/-- the reader of the machine model (`find`, the default options) IS that check applied to the metadata of the final
directory: what the theorems above say about `find` / `visible` they say about the generated function -/
theorem find_eq_generated {fs : FS} {d : Dir} {m : Meta} (hd : fs.final = some d) (hm : getMetadata fs = .ok m) :
    find fs = Generated.brokenCheck false m.ended m.exc := by
  rw [gen_brokenCheck_eq_model]
  cases hx : m.exc <;> cases hn : m.ended <;> simp [find, hd, hm, brokenCheck, hx, hn]

/-- Broken data never blocks a retry (default policy `if_broken`): whenever the reader reports existing data as not
available, the writer's `_find(write=True)` does not raise `DataExistsError` — stated of the generated functions, for
every combination of "writing_ended" / "exception" in the metadata -/
theorem generated_broken_is_replaceable (dirExists ended exc : Bool)
    (h : Generated.brokenCheck false ended exc = .error .dataNotAvailable) :
    Generated.writeRefused dirExists (Generated.canOverwrite "if_broken" ended exc) = false := by
  revert h; cases dirExists <;> cases ended <;> cases exc <;> simp [Generated.brokenCheck, Generated.writeRefused, Generated.canOverwrite]

/-- … and data the reader accepts as valid is never replaced under the default policy, nor under `never` -/
theorem generated_valid_is_kept (ended exc : Bool) (h : Generated.brokenCheck false ended exc = .ok ()) :
    Generated.canOverwrite "if_broken" ended exc = false ∧ Generated.canOverwrite "never" ended exc = false ∧
      Generated.writeRefused true (Generated.canOverwrite "if_broken" ended exc) = true := by
  revert h; cases ended <;> cases exc <;> simp [Generated.brokenCheck, Generated.writeRefused, Generated.canOverwrite]

/-- the check never raises anything but `DataNotAvailable` (an `is_stored` built on it cannot escape with another error) -/
theorem generated_check_only_unavailable (a ended exc : Bool) :
    Generated.brokenCheck a ended exc = .ok () ∨ Generated.brokenCheck a ended exc = .error .dataNotAvailable := by
  cases a <;> cases ended <;> cases exc <;> simp [Generated.brokenCheck]

/-- non-vacuity: both hypotheses are met (complete metadata; metadata with an exception) -/
example : Generated.brokenCheck false true false = .ok () ∧
    Generated.brokenCheck false true true = .error .dataNotAvailable ∧
    Generated.brokenCheck false false false = .error .dataNotAvailable := by simp [Generated.brokenCheck]

/-! ## witnesses (`decide`), non-vacuity -/

def c1 : Chunk := { dataType := "d", kind := "k", runId := some "0", start := 0, stop := 10, rows := [⟨1, 3, 0⟩],
                    subruns := none, superrun := [], target := 0 }
def c2 : Chunk := { c1 with start := 10, stop := 20, rows := [] }

def specOf (v : Variant) : HandlerSpec := ⟨v, [], 0, false, false⟩

example : [c1, c2] ≠ [] := by decide
example : (specOf .executor).lostClose = false := rfl

/-- error kind of `find`, as a decidable value -/
def findErr (fs : FS) : Option Err :=
  match find fs with
  | .ok _ => none
  | .error e => some e

def loadErr (fs : FS) : Option Err :=
  match loads fs with
  | .ok _ => none
  | .error e => some e

/-- the outcome of two attempts in a row under the eager scheduler -/
def twoAttempts (v : Variant) (pr : Proto) (hs : HandlerSpec) (o : RmOrder) (f1 f2 : List Fault) : Cfg × Result :=
  let r1 := (attempt FS.empty v pr [c1, c2] hs o f1).1
  let r2 := attempt r1.cfg.fs v pr [c1, c2] hs o f2
  (r2.1.cfg, r2.2)

/-- `Reach` is inhabited beyond the empty file system: everything the driver's scheduler produces is reachable, e.g.
broken data left behind by an I/O error followed by a death in the middle of its removal -/
example : Reach [c1, c2] (twoAttempts .serial {} (specOf .serial) .metaFirst [⟨9, .exc⟩] [⟨4, .dieAfter⟩]).1.fs :=
  attempt_reach (attempt_reach Reach.empty _ _ _ _) _ _ _ _

/-- … and what a forked (inlined) saver leaves behind when the write of a per-chunk metadata file raises, followed by an
second forked attempt during which the process dies -/
example : Reach [c1, c2] (twoAttempts .forked {} (specOf .forked) .metaLast [⟨11, .exc⟩] [⟨7, .dieAfter⟩]).1.fs :=
  attempt_reach (attempt_reach Reach.empty _ _ _ _) _ _ _ _

/-- a retry heals: serial variant, after an exception that left broken data (final directory with "exception") -/
theorem retry_heals_serial_example :
    let r := twoAttempts .serial {} (specOf .serial) .metaFirst [⟨9, .exc⟩] []
    r.2 = .success ∧ visible r.1.fs = true ∧ (loads r.1.fs).toBool = true := by decide

/-- … executor variant, after the process died in the middle of a chunk write (stale temp directory) -/
theorem retry_heals_executor_example :
    let r := twoAttempts .executor {} (specOf .executor) .sorted [⟨7, .dieAfter⟩] []
    r.2 = .success ∧ visible r.1.fs = true ∧ (loads r.1.fs).toBool = true := by decide

/-- … forked variant, after an I/O error while a per-chunk metadata file was being written (the truncated file makes
`_close` fail, the temp directory stays) -/
theorem retry_heals_forked_example :
    let r := twoAttempts .forked {} (specOf .forked) .metaLast [⟨11, .exc⟩] []
    r.2 = .success ∧ visible r.1.fs = true ∧ (loads r.1.fs).toOption = some [c1, c2] := by decide

/-! ## the forked variant (inlined savers): the unfixed cleanup refuted (D35); the fixed behaviour on the same faults -/

def c3 : Chunk := { c1 with start := 20, stop := 30, rows := [⟨21, 22, 5⟩] }

/-- the protocol before the D35 fix: `ParallelSourcePlugin.cleanup` only waited for the pool tasks -/
def preD35 : Proto := { cleanupChecks := false }

/-- D35, last chunk, BEFORE the fix: the rename of the last chunk file fails inside the pool task.  The caller gets
the exception (through the mailbox reader), but the saver — closed by a `cleanup` that only waits — records nothing:
the data is visible as valid with the last chunk silently missing. -/
theorem crash_safe_forked_old_counterexample :
    let r := attempt FS.empty .forked preD35 [c1, c2, c3] (specOf .forked) .sorted [⟨22, .exc⟩]
    r.2 = .raised ∧ visible r.1.cfg.fs = true ∧ (loads r.1.cfg.fs).toOption = some [c1, c2] := by decide

/-- D35, any chunk, BEFORE the fix: an operation of the protocol raised and the caller saw it, yet the metadata stored
says "writing ended, no exception" (the per-chunk metadata of the middle chunk could not be created: a hole) -/
theorem failure_unrecorded_forked_old_counterexample :
    let r := (attempt FS.empty .forked preD35 [c1, c2, c3] (specOf .forked) .sorted [⟨16, .exc⟩]).1
    r.cfg.failed = true ∧ r.cfg.out = .raised ∧ (getMetadata r.cfg.fs).toOption.map Meta.good = some true ∧
      (loads r.cfg.fs).toOption = some [c1, c3] := by decide

/-- D35 BEFORE the fix: a retry does not heal — the broken data counts as stored, the identical request does nothing -/
theorem retry_refused_forked_old_counterexample :
    let r := twoAttempts .forked preD35 (specOf .forked) .sorted [⟨9, .exc⟩] []
    r.2 = .stored ∧ (loads r.1.fs).toOption = some [c2] := by decide

/-- the same three faults with the cleanup as it is now (it looks at the results of the pool tasks and closes the
inlined savers inside the failed task's exception): the failure is recorded, nothing is visible, a retry heals -/
theorem forked_failure_recorded_example :
    (∀ k ∈ [22, 16, 9],
      let r := attempt FS.empty .forked {} [c1, c2, c3] (specOf .forked) .sorted [⟨k, .exc⟩]
      r.2 = .raised ∧ r.1.cfg.handling = true ∧ visible r.1.cfg.fs = false ∧ findErr r.1.cfg.fs = some .dataNotAvailable) ∧
    (let r := twoAttempts .forked {} (specOf .forked) .sorted [⟨9, .exc⟩] []
     r.2 = .success ∧ visible r.1.fs = true ∧ (loads r.1.fs).toOption = some [c1, c2]) := by decide

/-- D12 is gone: death inside the removal of broken data (after its metadata file was unlinked) now leaves a temp
directory; the data is reported unavailable … -/
theorem rmtree_death_fixed_example :
    let r := twoAttempts .serial {} (specOf .serial) .metaFirst [⟨9, .exc⟩] [⟨4, .dieAfter⟩]
    r.2 = .died ∧ findErr r.1.fs = some .dataNotAvailable ∧ D12 r.1.fs = false := by decide

/-- … whereas the OLD protocol (broken data deleted in place) reaches the state "final directory without
metadata", in which `find` / `is_stored` raise `DataCorrupted` and every later request is refused -/
theorem rmtree_death_old_counterexample :
    let r := twoAttempts .serial { atomicRemove := false } (specOf .serial) .metaFirst [⟨9, .exc⟩] [⟨2, .dieAfter⟩]
    r.2 = .died ∧ findErr r.1.fs = some .dataCorrupted ∧ D12 r.1.fs = true ∧ start r.1.fs = .corrupted := by decide

/-- D3: the OLD protocol (done futures dropped unchecked, `close` only waits) admits a run that ends in "success"
although a chunk write on the executor failed: the data is visible, the chunk file is missing, loading fails -/
theorem executor_failure_swallowed_old_counterexample :
    let r := (attempt FS.empty .executor { recheck := false } [c1, c2] (specOf .executor) .sorted [⟨7, .exc⟩]).1
    r.cfg.out = .success ∧ r.cfg.failed = true ∧ visible r.cfg.fs = true ∧ loadErr r.cfg.fs = some .osError := by decide

/-- D26: a processor that does not look at an exception of the final `close` (threaded processor before the fix)
reports success although the last metadata flush failed and nothing was stored -/
theorem close_failure_lost_old_counterexample :
    let r := (attempt FS.empty .serial {} [c1, c2] ⟨.serial, [], 0, false, true⟩ .sorted [⟨19, .exc⟩]).1
    r.cfg.out = .success ∧ r.cfg.failed = true ∧ r.cfg.lost = true ∧ visible r.cfg.fs = false := by decide

/-- the same fault under the current behaviour is reported -/
example :
    let r := (attempt FS.empty .serial {} [c1, c2] (specOf .serial) .sorted [⟨19, .exc⟩]).1
    r.cfg.out = .raised ∧ r.cfg.failed = true ∧ visible r.cfg.fs = false := by decide

end Strax.C04
