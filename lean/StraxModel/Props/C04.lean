import StraxModel.Model.Basic
namespace Strax.C04
open Strax

end Strax.C04
