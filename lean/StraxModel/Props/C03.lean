import StraxModel.Model.Basic
namespace Strax.C03
open Strax

end Strax.C03
