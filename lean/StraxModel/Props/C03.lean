import StraxModel.Lemmas.StorageRechunk
import StraxModel.Props.C07
/-
  Property C03 — saving then loading returns the same rows, ranges and consistent metadata.

  Model: `Model/Storage.lean` (`saveAll` = `Saver.save_from/save/close` + `FileSaver`, `loadAll` =
  `StorageBackend.loader/_read_and_format_chunk` + `FileSytemBackend._read_chunk`), on top of the
  chunk algebra and rechunker of C07.  All theorems except `roundtrip_rechunk_partial` hold for every
  initial `argmin` constant `a0` of `Rechunker.get_splits` (the driver uses
  `Generated.getSplitsArgmin0`, which is what `roundtrip_rechunk_partial` is about), every metadata
  header and every run id.  Byte sizes (`nbytes`, `filesize` via the uninterpreted `blobSize`), the
  executor variant (`saveAllExec`, any completion order; `loadAllExec`, futures in chunk order) and
  annotated super-run chunks are part of the model.

  Scope of the rechunking round trip: `roundtrip_rechunk_partial` covers PLAIN streams only (C07's
  `Strax.LawAbiding` excludes run annotations; it composes with `Strax.C07.rechunk_stream_partial`);
  annotated super-run streams saved with rechunking are covered relative to the rechunker by
  `loaded_is_rechunker_output`, and without rechunking in full by `roundtrip_plain_superrun`.

  What the loader cannot restore is explicit: `restore hdr rid c` is `c` with `data_type`,
  `data_kind`, `target_size_mb` taken from the metadata header and `superrun` reset to the
  constructor default `{run_id: (start, end)}`; rows, start, end, run id and subruns are untouched
  (`restore_keeps`).

  Hypotheses (decidable, evaluated by the driver on every correspondence case):
  * `lawAbidingB s`  — the laws of chunking: adjacent, `start ≤ end`, rows `start ≤ time < endt ≤ end`,
                        all rows sorted by time;
  * `runOkB rid c`   — conventions of a stored run: `0 ≤ start`, run id `rid`, subruns that survive
                        json (`sort_keys`) + the constructor's stable sort by (start, end), present
                        for a super-run id;
  * `spansOkB` / `annotatedOkB` — sub-run spans in time order, not overlapping, pairwise different in
                        (start, end) (zero-length spans allowed), ids in any order;
  * `storableB rid c` — what the plain round trip really needs of ONE chunk (no adjacency, no
                        sortedness): a valid `strax.Chunk` of run `rid`.
-/
namespace Strax.C03
open Strax Strax.Storage

/-! ### structure of `save_from` (all inputs) -/

/-- Saving with rechunking is: run the rechunker over the whole source, then save its output
plainly — same metadata, same files, same exception when the rechunker fails.  Holds for every
input stream, law-abiding or not. -/
theorem save_rechunk_factors (a0 : Int) (hdr : Header) (s : List Chunk) :
    saveAll a0 true hdr s =
      (rechunkAll a0 ⟨true, hdr.runId.startsWith "_", none⟩ s) >>= saveAll a0 false hdr := by
  rw [saveAll_eq]
  cases h : rechunkAll a0 ⟨true, hdr.runId.startsWith "_", none⟩ s with
  | error e => rfl
  | ok out =>
    simp only [Except.map, bind, Except.bind]
    rw [saveAll_eq, rechunkAll_off]
    rfl

/-- Without faults the saver itself never fails: `save_from` raises iff the rechunker raises. -/
theorem save_fails_iff_rechunker_fails (a0 : Int) (re : Bool) (hdr : Header) (s : List Chunk) (e : Err) :
    saveAll a0 re hdr s = .error e ↔ rechunkAll a0 ⟨re, hdr.runId.startsWith "_", none⟩ s = .error e := by
  rw [saveAll_eq]
  cases rechunkAll a0 ⟨re, hdr.runId.startsWith "_", none⟩ s <;> simp [Except.map]

/-! ### round trip without rechunking -/

/-- the fields the loader does restore -/
theorem restore_keeps (hdr : Header) (rid : String) (c : Chunk) :
    (restore hdr rid c).rows = c.rows ∧ (restore hdr rid c).start = c.start ∧
    (restore hdr rid c).stop = c.stop ∧ (restore hdr rid c).runId = c.runId ∧
    (restore hdr rid c).subruns = c.subruns :=
  restore_fields hdr rid c

/-- Strongest form: ANY non-empty list of valid chunks of run `rid` (adjacent or not, sorted or
not) written without rechunking is read back chunk by chunk: same number of chunks, same
boundaries, same rows, same run id and subruns. -/
theorem roundtrip_plain_storable (a0 : Int) (hdr : Header) (rid : String) (s : List Chunk)
    (hne : s ≠ []) (hs : s.all (storableB rid) = true) :
    ∃ md files, saveAll a0 false hdr s = .ok (md, files) ∧
      loadAll md files = .ok (s.map (restore hdr rid)) := by
  refine ⟨metaOf hdr s, filesFrom hdr.pfx 0 s, ?_, ?_⟩
  · rw [saveAll_eq, rechunkAll_off]; rfl
  · exact loadAll_saved hdr rid s hne (fun c hc => List.all_eq_true.1 hs c hc)

/-- `roundtrip_plain`: a law-abiding stream of run `rid` saved without rechunking loads back as
itself (modulo `restore`). -/
theorem roundtrip_plain (a0 : Int) (hdr : Header) (rid : String) (s : List Chunk)
    (hne : s ≠ []) (hl : lawAbidingB s = true) (hr : s.all (runOkB rid) = true) :
    ∃ md files, saveAll a0 false hdr s = .ok (md, files) ∧
      loadAll md files = .ok (s.map (restore hdr rid)) :=
  roundtrip_plain_storable a0 hdr rid s hne
    (List.all_eq_true.2 (storable_of_law rid s hl hr))

/-- The empty source is the one law-abiding stream that does NOT round-trip: `save_from` succeeds
and leaves metadata without chunks, start or end, and the loader refuses it with ValueError
("it has no chunks"). -/
theorem roundtrip_empty_source (a0 : Int) (re : Bool) (hdr : Header) :
    ∃ md files, saveAll a0 re hdr [] = .ok (md, files) ∧ md.chunks = [] ∧ files = [] ∧
      md.start = none ∧ md.stop = none ∧ md.writingEnded = true ∧
      loadAll md files = .error Err.valueError := by
  refine ⟨metaOf hdr [], [], ?_, rfl, rfl, rfl, rfl, rfl, ?_⟩
  · rw [saveAll_eq]; rfl
  · rfl

/-! ### round trip with rechunking -/

/-- For EVERY input on which the rechunker succeeds with valid output chunks, the loader returns
exactly the rechunker's output stream (modulo `restore`): rows, boundaries, lawfulness and the
boundary rule of what is loaded are those of `rechunkAll a0 ⟨true, _, none⟩ s`.  This is the whole
storage part of the rechunking round trip, for any run (super-runs included). -/
theorem loaded_is_rechunker_output (a0 : Int) (hdr : Header) (rid : String) (s out : List Chunk)
    (hre : rechunkAll a0 ⟨true, hdr.runId.startsWith "_", none⟩ s = .ok out)
    (hne : out ≠ []) (hst : out.all (storableB rid) = true) :
    ∃ md files loaded, saveAll a0 true hdr s = .ok (md, files) ∧ loadAll md files = .ok loaded ∧
      loaded = out.map (restore hdr rid) ∧
      loaded.flatMap (·.rows) = out.flatMap (·.rows) ∧
      boundaries loaded = boundaries out ∧
      lawAbidingB loaded = lawAbidingB out ∧
      boundaryRuleB s loaded = boundaryRuleB s out := by
  refine ⟨metaOf hdr out, filesFrom hdr.pfx 0 out, out.map (restore hdr rid), ?_, ?_, rfl,
    flatMap_rows_restore hdr rid out, boundaries_restore hdr rid out, lawAbidingB_restore hdr rid out,
    boundaryRuleB_restore hdr rid s out⟩
  · rw [saveAll_eq, hre]; rfl
  · exact loadAll_saved hdr rid out hne (fun c hc => List.all_eq_true.1 hst c hc)

/-- `roundtrip_rechunk` (DESIGN.md §6 C03) for PLAIN streams — hence `_partial`: the hypothesis
`Strax.LawAbiding s` (C07) excludes chunks carrying `subruns` annotations, so annotated super-run
streams saved with rechunking are NOT covered here; for them `loaded_is_rechunker_output` shows that
the loader returns exactly the rechunker's output, and `roundtrip_plain_superrun` gives the full round
trip without rechunking.  Within plain streams nothing is missing: every conjunct of the full
statement is proved.  By composing the storage theorems with the C07 stream
theorem `Strax.C07.rechunk_stream_partial`: a C07-law-abiding stream (`Strax.LawAbiding`: every chunk
well-formed — non-negative start, rows sorted, of positive duration and inside the chunk — without
run annotations, adjacent ranges, one data type and one run) of a plain run, with targets of at
least one row, saved WITH rechunking (the `argmin` constant being the one in the source today)
and loaded back: both steps succeed, the rows are the rows written in the same order, the
overall range is the one written, the loaded stream obeys the laws of chunking and carries the
run id, and every boundary of the loaded stream is a boundary of the written one or lies
where no row covers it (`boundaryRuleB`).  Super-run ids are outside (C07's `LawAbiding` excludes run
annotations); `loaded_is_rechunker_output` covers them relative to the rechunker. -/
theorem roundtrip_rechunk_partial (hdr : Header) (rid : String) (s : List Chunk)
    (hne : s ≠ []) (hl : Strax.LawAbiding s = true) (ht : ∀ c ∈ s, 1 ≤ c.target)
    (hrid : s.head?.bind (·.runId) = some rid) (hplain : rid.startsWith "_" = false)
    (hmd : hdr.runId.startsWith "_" = false) :
    ∃ md files loaded,
      saveAll Generated.getSplitsArgmin0 true hdr s = .ok (md, files) ∧ loadAll md files = .ok loaded ∧
      loaded.flatMap (·.rows) = s.flatMap (·.rows) ∧
      loaded.head?.map (·.start) = s.head?.map (·.start) ∧
      loaded.getLast?.map (·.stop) = s.getLast?.map (·.stop) ∧
      lawAbidingB loaded = true ∧ (∀ c ∈ loaded, c.runId = some rid) ∧
      boundaryRuleB s loaded = true := by
  obtain ⟨out, hre, hrows, hstart, hstop, hlaw, hrun, _, hb⟩ := Strax.C07.rechunk_stream_partial s hl ht
  obtain ⟨a, l, rfl⟩ : ∃ a l, s = a :: l := by
    cases s with
    | nil => exact absurd rfl hne
    | cons a l => exact ⟨a, l, rfl⟩
  simp only [List.head?_cons, Option.bind_some] at hrid
  obtain ⟨b, m, rfl⟩ : ∃ b m, out = b :: m := by
    cases out with
    | nil => simp at hstart
    | cons b m => exact ⟨b, m, rfl⟩
  simp only [List.head?_cons, Option.map_some, Option.some.injEq] at hstart hrun
  have hall := lawAbiding_all b m hlaw
  have hst : (b :: m).all (storableB rid) = true := by
    rw [List.all_eq_true]
    intro c hc
    have := hall c hc
    exact storable_of_good this.1 (by rw [this.2, hrun, hrid]) hplain
  obtain ⟨md, files, loaded, h1, h2, h3, h4, _, h6, h7⟩ :=
    loaded_is_rechunker_output Generated.getSplitsArgmin0 hdr rid (a :: l) (b :: m)
      (by rw [hmd]; exact hre) (by simp) hst
  refine ⟨md, files, loaded, h1, h2, by rw [h4, hrows], ?_, ?_, ?_, ?_, ?_⟩
  · subst h3; simp [restore, hstart]
  · subst h3
    rw [List.getLast?_map, ← hstop]
    cases (b :: m).getLast? <;> simp [restore]
  · rw [h6]; exact lawAbidingB_of_LawAbiding _ hlaw
  · subst h3
    intro c hc
    simp only [List.mem_map] at hc
    obtain ⟨c0, hc0, rfl⟩ := hc
    have := hall c0 hc0
    simp [restore, this.2, hrun, hrid]
  · rw [h7]; exact boundaryRuleB_of_prop _ _ hb

/-! ### metadata agrees with the files (all inputs, rechunking on or off) -/

/-- Whenever `save_from` returns normally there is a list `out` of chunks actually written (the
source itself without rechunking, the rechunker's output with it) such that the metadata has
exactly one entry per written chunk, in order, with `chunk_i` = position, `n` = number of rows,
`start`/`end`/`run_id`/`subruns` of the chunk, first/last row times of its rows, a file name iff
the chunk has rows and then that file holds exactly those rows; every file in the directory is
named by an entry; overall `start`/`end` are those of the first/last written chunk;
`writing_ended` is set; there is no `exception`; the header is untouched. -/
theorem meta_consistent (a0 : Int) (re : Bool) (hdr : Header) (s : List Chunk) (md : Meta) (files : Files)
    (h : saveAll a0 re hdr s = .ok (md, files)) :
    ∃ out, rechunkAll a0 ⟨re, hdr.runId.startsWith "_", none⟩ s = .ok out ∧ (re = false → out = s) ∧
      md.chunks.length = out.length ∧
      (∀ (k : Nat) (c : Chunk), out[k]? = some c → ∃ info : ChunkInfo, md.chunks[k]? = some info ∧
          info.i = k ∧ info.n = c.rows.length ∧ info.start = c.start ∧ info.stop = c.stop ∧
          info.runId = c.runId ∧ info.subruns = c.subruns ∧
          info.firstTime = c.rows.head?.map (·.time) ∧ info.firstEnd = c.rows.head?.map (·.endt) ∧
          info.lastTime = c.rows.getLast?.map (·.time) ∧ info.lastEnd = c.rows.getLast?.map (·.endt) ∧
          (c.rows = [] → info.filename = none) ∧
          (c.rows ≠ [] → ∃ fn, info.filename = some fn ∧ readFile files fn = some c.rows)) ∧
      (∀ p ∈ files, ∃ info ∈ md.chunks, info.filename = some p.1 ∧ info.n = p.2.length ∧ info.n ≠ 0) ∧
      md.start = out.head?.map (·.start) ∧ md.stop = out.getLast?.map (·.stop) ∧
      md.writingEnded = true ∧ md.exception = false ∧ md.hdr = hdr := by
  rw [saveAll_eq] at h
  cases hre : rechunkAll a0 ⟨re, hdr.runId.startsWith "_", none⟩ s with
  | error e => simp [hre, Except.map] at h
  | ok out =>
    simp only [hre, Except.map, Except.ok.injEq, Prod.mk.injEq] at h
    obtain ⟨hmd, hfiles⟩ := h
    subst hmd hfiles
    refine ⟨out, rfl, ?_, ?_, ?_, ?_, rfl, rfl, rfl, rfl, rfl⟩
    · intro hf
      subst hf
      rw [rechunkAll_off] at hre
      exact (Except.ok.inj hre).symm
    · simp [metaOf, infosFrom_length]
    · intro k c hk
      refine ⟨infoFor hdr false k c, ?_, ?_⟩
      · simp [metaOf, infosFrom_getElem?, hk]
      · obtain ⟨h1, h2, h3, h4, h5, h6, h7, h8, h9⟩ := infoFor_fields hdr false k c
        refine ⟨h1, h2, infoFor_start _ _ _ _, infoFor_stop _ _ _ _, h3, h4, h5, h6, h7, h8, ?_, ?_⟩
        · intro he; simp [h9, he]
        · intro hne
          refine ⟨chunkFilename hdr.pfx k, by simp [h9, hne], ?_⟩
          have := readFile_filesFrom hdr.pfx out 0 k c hk hne
          simpa using this
    · intro p hp
      obtain ⟨k, c, hk, hne, hpe⟩ := mem_filesFrom hdr.pfx out 0 p hp
      refine ⟨infoFor hdr false k c, ?_, ?_⟩
      · have : (metaOf hdr out).chunks[k]? = some (infoFor hdr false k c) := by
          simp [metaOf, infosFrom_getElem?, hk]
        exact List.mem_of_getElem? this
      · obtain ⟨_, h2, _, _, _, _, _, _, h9⟩ := infoFor_fields hdr false k c
        subst hpe
        refine ⟨by simp [h9, hne], by simpa using h2, ?_⟩
        rw [h2]
        simpa using hne

/-! ### byte sizes -/

/-- `meta_sizes_consistent` (serial saver, rechunking on or off, all inputs): in every chunk_info
`nbytes = n · itemsize`; an entry without rows has neither file name nor `filesize`; an entry with
rows names a file that exists, holds exactly `n` rows, and whose size on disk (`blobSize`, the
codec's output length, > 0) is the recorded `filesize`. -/
theorem meta_sizes_consistent (a0 : Int) (re : Bool) (hdr : Header) (s : List Chunk) (md : Meta) (files : Files)
    (h : saveAll a0 re hdr s = .ok (md, files)) :
    ∀ info ∈ md.chunks,
      info.nbytes = info.n * hdr.itemsize ∧
      (info.n = 0 → info.filename = none ∧ info.filesize = none) ∧
      (info.n ≠ 0 → ∃ fn rows, info.filename = some fn ∧ readFile files fn = some rows ∧
          rows.length = info.n ∧ info.filesize = some (blobSize rows).val ∧ 0 < (blobSize rows).val) := by
  rw [saveAll_eq] at h
  cases hre : rechunkAll a0 ⟨re, hdr.runId.startsWith "_", none⟩ s with
  | error e => simp [hre, Except.map] at h
  | ok out =>
    simp only [hre, Except.map, Except.ok.injEq, Prod.mk.injEq] at h
    obtain ⟨hmd, hfiles⟩ := h
    subst hmd hfiles
    intro info hi
    obtain ⟨k, c, hk, rfl⟩ := mem_infosFrom (by simpa [metaOf] using hi)
    obtain ⟨_, hn, _, _, _, _, _, _, hfn⟩ := infoFor_fields hdr false k c
    obtain ⟨hnb, hfs⟩ := infoFor_sizes hdr false k c
    refine ⟨by rw [hnb, hn], ?_, ?_⟩
    · intro h0
      have he : c.rows = [] := by rw [hn] at h0; exact List.length_eq_zero_iff.1 h0
      simp [hfn, hfs, he]
    · intro h0
      have he : c.rows ≠ [] := by rw [hn] at h0; intro hc; exact h0 (by simp [hc])
      refine ⟨chunkFilename hdr.pfx k, c.rows, by simp [hfn, he], ?_, hn.symm, by simp [hfs, he], (blobSize c.rows).property⟩
      simpa using readFile_filesFrom hdr.pfx out 0 k c hk he

/-- … and with an executor: same `nbytes`, no `filesize` anywhere (the chunk_info is written before
the pool has produced the file), every entry with rows still names an existing file with `n` rows
once all writes have completed, in whatever order. -/
theorem meta_sizes_consistent_executor (a0 : Int) (re : Bool) (hdr : Header) (s : List Chunk) (order : List Nat)
    (md : Meta) (files : Files) (h : saveAllExec a0 re hdr s order = .ok (md, files))
    (ho : ∀ out, rechunkAll a0 ⟨re, hdr.runId.startsWith "_", none⟩ s = .ok out →
      order.Perm (List.range (out.filter (fun c => !c.rows.isEmpty)).length)) :
    ∀ info ∈ md.chunks,
      info.nbytes = info.n * hdr.itemsize ∧ info.filesize = none ∧
      (info.n = 0 → info.filename = none) ∧
      (info.n ≠ 0 → ∃ fn rows, info.filename = some fn ∧ readFile files fn = some rows ∧ rows.length = info.n) := by
  rw [saveAllExec_eq] at h
  cases hre : rechunkAll a0 ⟨re, hdr.runId.startsWith "_", none⟩ s with
  | error e => simp [hre, Except.map] at h
  | ok out =>
    simp only [hre, Except.map, Except.ok.injEq, Prod.mk.injEq] at h
    obtain ⟨hmd, hfiles⟩ := h
    subst hmd hfiles
    have hperm := completed_perm order (filesFrom hdr.pfx 0 out)
      (by rw [filesFrom_length]; exact ho out hre) (names_filesFrom_nodup hdr.pfx out 0)
    have hnd : (names (completed order (filesFrom hdr.pfx 0 out))).Nodup :=
      (hperm.map (fun (p : String × List Row) => p.1)).symm.nodup (names_filesFrom_nodup hdr.pfx out 0)
    intro info hi
    obtain ⟨k, c, hk, rfl⟩ := mem_infosFrom (by simpa [metaOfExec] using hi)
    obtain ⟨_, hn, _, _, _, _, _, _, hfn⟩ := infoFor_fields hdr true k c
    obtain ⟨hnb, hfs⟩ := infoFor_sizes hdr true k c
    refine ⟨by rw [hnb, hn], by simp [hfs], ?_, ?_⟩
    · intro h0
      have he : c.rows = [] := by rw [hn] at h0; exact List.length_eq_zero_iff.1 h0
      simp [hfn, he]
    · intro h0
      have he : c.rows ≠ [] := by rw [hn] at h0; intro hc; exact h0 (by simp [hc])
      refine ⟨chunkFilename hdr.pfx k, c.rows, by simp [hfn, he], ?_, hn.symm⟩
      rw [readFile_perm hperm hnd]
      simpa using readFile_filesFrom hdr.pfx out 0 k c hk he

/-! ### executor: completion order, futures -/

/-- For EVERY input and every completion order the executor saver does what the serial saver does,
except that no `filesize` is recorded and the files appear in completion order. -/
theorem exec_save_eq_serial (a0 : Int) (re : Bool) (hdr : Header) (s : List Chunk) (order : List Nat) :
    saveAllExec a0 re hdr s order =
      (saveAll a0 re hdr s).map (fun p => (p.1.withoutFilesize, completed order p.2)) := by
  rw [saveAllExec_eq, saveAll_eq]
  cases rechunkAll a0 ⟨re, hdr.runId.startsWith "_", none⟩ s with
  | error e => rfl
  | ok out => simp [Except.map, metaOfExec_eq]

/-- `roundtrip_any_completion_order`: valid chunks saved through a thread pool, the chunk files
completing in ANY order (`order` a permutation of the pending writes) before `close`: the metadata
does not depend on the order, the directory is the serial saver's directory up to the order of its
entries (it reads the same under every name), and loading — serially or with futures resolved in
chunk order — gives back every chunk. -/
theorem roundtrip_any_completion_order (a0 : Int) (hdr : Header) (rid : String) (s : List Chunk) (order : List Nat)
    (hne : s ≠ []) (hs : s.all (storableB rid) = true)
    (ho : order.Perm (List.range (s.filter (fun c => !c.rows.isEmpty)).length)) :
    ∃ md files md0 files0,
      saveAllExec a0 false hdr s order = .ok (md, files) ∧ saveAll a0 false hdr s = .ok (md0, files0) ∧
      md = md0.withoutFilesize ∧ files.Perm files0 ∧ (∀ fn, readFile files fn = readFile files0 fn) ∧
      loadAll md files = .ok (s.map (restore hdr rid)) ∧
      loadAllExec md files = .ok (s.map (restore hdr rid)) := by
  have hperm := completed_perm order (filesFrom hdr.pfx 0 s)
    (by rw [filesFrom_length]; exact ho) (names_filesFrom_nodup hdr.pfx s 0)
  have hnd : (names (completed order (filesFrom hdr.pfx 0 s))).Nodup :=
    (hperm.map (fun (p : String × List Row) => p.1)).symm.nodup (names_filesFrom_nodup hdr.pfx s 0)
  have hload : loadAll (metaOfExec hdr s) (completed order (filesFrom hdr.pfx 0 s)) = .ok (s.map (restore hdr rid)) :=
    loadAll_of_readable hdr rid true s _ hne (fun c hc => List.all_eq_true.1 hs c hc) (by
      intro k c hk hr
      rw [readFile_perm hperm hnd]
      simpa using readFile_filesFrom hdr.pfx s 0 k c hk hr)
  refine ⟨metaOfExec hdr s, completed order (filesFrom hdr.pfx 0 s), metaOf hdr s, filesFrom hdr.pfx 0 s,
    ?_, ?_, metaOfExec_eq hdr s, hperm, fun fn => readFile_perm hperm hnd fn, hload, ?_⟩
  · rw [saveAllExec_eq, rechunkAll_off]; rfl
  · rw [saveAll_eq, rechunkAll_off]; rfl
  · rw [loadAllExec_eq]; exact hload

/-- thread-pool loading: one future per chunk info, resolved in chunk order, is the serial loader -/
theorem load_futures_in_order (md : Meta) (files : Files) : loadAllExec md files = loadAll md files :=
  loadAllExec_eq md files

/-! ### super-run streams -/

/-- sub-run spans in time order, not overlapping, pairwise different in (start, end) — zero-length
spans included (what `superrun_transformation`, `split` and `concatenate` produce; ids in ANY
order) — survive the metadata json (`sort_keys=True`) and the constructor's stable sort by
(start, end) -/
theorem subruns_survive_json (sub : Runs) (h : spansOkB sub = true) :
    sortRuns (jsonRuns sub) = sub ∧ runsOverlap sub = false := by
  have := restorable_of_spansOk sub h
  simpa [restorableRuns] using this

/-- `roundtrip_plain` for annotated chunks: any non-empty list of valid chunks of (super-)run `rid`
each carrying such sub-run spans, saved without rechunking: every chunk_info records the chunk's
run id and `subruns`, and the loader gives every chunk back with its run id and `subruns`. -/
theorem roundtrip_plain_superrun (a0 : Int) (hdr : Header) (rid : String) (s : List Chunk)
    (hne : s ≠ []) (hs : s.all (annotatedOkB rid) = true) :
    ∃ md files loaded, saveAll a0 false hdr s = .ok (md, files) ∧ loadAll md files = .ok loaded ∧
      loaded = s.map (restore hdr rid) ∧
      loaded.map (fun c => (c.start, c.stop, c.rows, c.runId, c.subruns)) =
        s.map (fun c => (c.start, c.stop, c.rows, c.runId, c.subruns)) ∧
      md.chunks.map (fun i => (i.runId, i.subruns)) = s.map (fun c => (some rid, c.subruns)) := by
  have hst : ∀ c ∈ s, storableB rid c = true := fun c hc => storable_of_annotated (List.all_eq_true.1 hs c hc)
  refine ⟨metaOf hdr s, filesFrom hdr.pfx 0 s, s.map (restore hdr rid), ?_, loadAll_saved hdr rid s hne hst, rfl, ?_, ?_⟩
  · rw [saveAll_eq, rechunkAll_off]; rfl
  · simp [List.map_map, Function.comp_def, restore]
  · have hrid : ∀ c ∈ s, c.runId = some rid := by
      intro c hc
      have := List.all_eq_true.1 hs c hc
      simp only [annotatedOkB, Bool.and_eq_true, beq_iff_eq] at this
      exact this.1.2
    have : ∀ (l : List Chunk) (i : Nat), (∀ c ∈ l, c.runId = some rid) →
        (infosFrom hdr false i l).map (fun i => (i.runId, i.subruns)) = l.map (fun c => (some rid, c.subruns)) := by
      intro l
      induction l with
      | nil => intro i _; rfl
      | cons c l ih =>
        intro i hl
        obtain ⟨_, _, h3, h4, _⟩ := infoFor_fields hdr false i c
        simp [infosFrom, h3, h4, hl c (by simp), ih (i + 1) (fun c' hc' => hl c' (by simp [hc']))]
    simpa [metaOf] using this s 0 hrid

/-! ### fixed finding C03-zero-length-subrun (D31, /repo a608e2e) -/

def exZero : Chunk :=
  { dataType := "d", kind := "k", runId := some "_s", start := 0, stop := 5, rows := [⟨1, 2, 0⟩],
    subruns := some [⟨"b", 0, 0⟩, ⟨"a", 0, 5⟩], superrun := [⟨"_s", 0, 5⟩], target := 1 }

def exHdr : Header := { runId := "_s", dataType := "d", kind := "k", target := 1, pfx := "d-h" }

/-- the `subruns` / `superrun` setters before the D31 fix: stable sort by start alone -/
def sortRunsOld (rs : Runs) : Runs := rs.mergeSort (fun a b => decide (a.start ≤ b.start))

/-- The OLD key: the annotation `{"b": [0,0), "a": [0,5)}` (what the rechunker builds from a
zero-duration chunk of sub-run `b` followed by a chunk of sub-run `a`) was kept by the setter, but
after the metadata json (`sort_keys`: `a` first) the stable sort by start alone left `a:[0,5)` before
`b:[0,0)`, which `_sorted_subruns_check` rejects — saved data that could not be loaded.  The NEW key
(start, end) puts the zero-length span first again whatever the ids. -/
theorem zero_length_subrun_old_counterexample :
    (sortRunsOld [⟨"b", 0, 0⟩, ⟨"a", 0, 5⟩] = [⟨"b", 0, 0⟩, ⟨"a", 0, 5⟩] ∧ runsOverlap [⟨"b", 0, 0⟩, ⟨"a", 0, 5⟩] = false) ∧
    sortRunsOld (jsonRuns [⟨"b", 0, 0⟩, ⟨"a", 0, 5⟩]) = [⟨"a", 0, 5⟩, ⟨"b", 0, 0⟩] ∧
    runsOverlap (sortRunsOld (jsonRuns [⟨"b", 0, 0⟩, ⟨"a", 0, 5⟩])) = true ∧
    sortRuns (jsonRuns [⟨"b", 0, 0⟩, ⟨"a", 0, 5⟩]) = [⟨"b", 0, 0⟩, ⟨"a", 0, 5⟩] := by
  simp [sortRunsOld, sortRuns, runLe, jsonRuns, runsOverlap, mergeSort_pair]

/-- … and with the code as it is now the witness chunk round-trips -/
theorem zero_length_subrun_roundtrip_example (a0 : Int) :
    ∃ md files, saveAll a0 false exHdr [exZero] = .ok (md, files) ∧
      loadAll md files = .ok [restore exHdr "_s" exZero] := by
  have hs : spansOkB [⟨"b", 0, 0⟩, ⟨"a", 0, 5⟩] = true := by decide
  have hst : storableB "_s" exZero = true :=
    storable_of_annotated (by simp [annotatedOkB, exZero, rowsInside, hs])
  refine ⟨metaOf exHdr [exZero], filesFrom exHdr.pfx 0 [exZero], ?_, ?_⟩
  · rw [saveAll_eq, rechunkAll_off]; rfl
  · simpa using loadAll_saved exHdr "_s" [exZero] (by simp) (by simpa using hst)

/-! ### the rejecting branch the round trip relies on -/

/-- A chunk whose file does not hold exactly `n` rows (`n ≠ 0`) is refused with DataCorrupted,
never returned. -/
theorem load_rejects_wrong_n (md : Meta) (files : Files) (info : ChunkInfo) (fn : String) (rows : List Row)
    (hn : info.n ≠ 0) (hfn : info.filename = some fn) (hf : readFile files fn = some rows)
    (hlen : rows.length ≠ info.n) :
    loadChunk md files info = .error Err.dataCorrupted := by
  unfold loadChunk
  simp [hn, hfn, hf, hlen, bind, Except.bind, pure, Except.pure, throw, throwThe, MonadExceptOf.throw]

/-- `n == 0` ⇒ no file is opened: the entry loads (as an empty chunk) whatever the directory holds. -/
theorem load_empty_needs_no_file (md : Meta) (files files' : Files) (info : ChunkInfo) (hn : info.n = 0) :
    loadChunk md files info = loadChunk md files' info := by
  unfold loadChunk
  simp [hn]

/-! ### non-vacuity -/

/-- a law-abiding stream of run "r": an empty zero-duration chunk, two overlapping rows, an empty
chunk, a row after a long gap -/
def exStream : List Chunk :=
  [ { dataType := "d", kind := "k", runId := some "r", start := 0, stop := 0, rows := [],
      subruns := none, superrun := [⟨"r", 0, 0⟩], target := 2 },
    { dataType := "d", kind := "k", runId := some "r", start := 0, stop := 10,
      rows := [⟨1, 6, 0⟩, ⟨4, 9, 1⟩], subruns := none, superrun := [⟨"r", 0, 10⟩], target := 2 },
    { dataType := "d", kind := "k", runId := some "r", start := 10, stop := 10, rows := [],
      subruns := none, superrun := [⟨"r", 10, 10⟩], target := 2 },
    { dataType := "d", kind := "k", runId := some "r", start := 10, stop := 5000,
      rows := [⟨4000, 4001, 2⟩], subruns := none, superrun := [⟨"r", 10, 5000⟩], target := 2 } ]

example : exStream ≠ [] := by decide
example : lawAbidingB exStream = true := by decide +kernel
example : exStream.all (runOkB "r") = true := by decide +kernel
example : exStream.all (storableB "r") = true := by decide +kernel
/-- a chunk list that is storable but not law-abiding (gap and overlap between chunks):
`roundtrip_plain_storable` still applies -/
example : lawAbidingB (exStream.reverse) = false ∧ exStream.reverse.all (storableB "r") = true := by
  decide +kernel
/-- a super-run chunk carrying subruns -/
def exSuper : Chunk :=
  { dataType := "d", kind := "k", runId := some "_s", start := 0, stop := 9,
    rows := [⟨1, 2, 0⟩], subruns := some [⟨"b", 0, 9⟩], superrun := [⟨"_s", 0, 9⟩], target := 1 }
example : storableB "_s" exSuper = true := by
  simp [exSuper, storableB, rowsInside, restorableRuns, jsonRuns, sortRuns, runsOverlap]
/-- … and a zero-length subrun whose id sorts after its neighbour is restorable since D31; two spans
with the same (start, end) are the remaining tie -/
example : restorableRuns (some [⟨"b", 0, 0⟩, ⟨"a", 0, 5⟩]) = true := restorable_of_spansOk _ (by decide)
example : restorableRuns (some [⟨"b", 3, 3⟩, ⟨"a", 3, 3⟩]) = false := by
  simp [restorableRuns, jsonRuns, sortRuns, runLe, runsOverlap, mergeSort_pair]

/-- the hypotheses of `loaded_is_rechunker_output` on a concrete stream: two chunks with a gap of
3991 ns between their rows, target one row — the rechunker moves the boundary from 10 to 3500,
strictly inside the row-free gap -/
def exS : List Chunk :=
  [ { dataType := "d", kind := "k", runId := some "r", start := 0, stop := 10,
      rows := [⟨1, 6, 0⟩, ⟨4, 9, 1⟩], subruns := none, superrun := [⟨"r", 0, 10⟩], target := 1 },
    { dataType := "d", kind := "k", runId := some "r", start := 10, stop := 5000,
      rows := [⟨4000, 4001, 2⟩], subruns := none, superrun := [⟨"r", 10, 5000⟩], target := 1 } ]
def exOut : List Chunk :=
  [ { dataType := "d", kind := "k", runId := some "r", start := 0, stop := 3500,
      rows := [⟨1, 6, 0⟩, ⟨4, 9, 1⟩], subruns := none, superrun := [⟨"r", 0, 3500⟩], target := 1 },
    { dataType := "d", kind := "k", runId := some "r", start := 3500, stop := 5000,
      rows := [⟨4000, 4001, 2⟩], subruns := none, superrun := [⟨"r", 3500, 5000⟩], target := 1 } ]
example : lawAbidingB exS = true ∧ exS.all (runOkB "r") = true := by decide +kernel
/-- … and those of `roundtrip_rechunk_partial` -/
example : exS ≠ [] ∧ Strax.LawAbiding exS = true ∧ (∀ c ∈ exS, 1 ≤ c.target) ∧
    exS.head?.bind (·.runId) = some "r" ∧ ("r" : String).startsWith "_" = false := by decide +kernel
example : rechunkAll (-1) ⟨true, ("r" : String).startsWith "_", none⟩ exS = .ok exOut :=
  ok_of_toOption (by decide +kernel)
example : exOut ≠ [] ∧ exOut.all (storableB "r") = true ∧ lawAbidingB exOut = true ∧
    boundaryRuleB exS exOut = true ∧ (boundaries exOut).contains 3500 = true ∧
    (boundaries exS).contains 3500 = false := by decide +kernel

/-- hypotheses of `roundtrip_any_completion_order`: the three files of a four-chunk stream complete in
the order 2, 0, 1 -/
example : exStream.all (storableB "r") = true ∧
    (exStream.filter (fun c => !c.rows.isEmpty)).length = 2 ∧ [1, 0].Perm (List.range 2) := by
  refine ⟨by decide +kernel, by decide +kernel, ?_⟩
  exact List.Perm.swap 0 1 []
/-- hypotheses of `roundtrip_plain_superrun`: sub-run ids in reverse alphabetical order -/
def exAnnotated : Chunk :=
  { dataType := "d", kind := "k", runId := some "_s", start := 0, stop := 9, rows := [⟨1, 2, 0⟩, ⟨6, 8, 1⟩],
    subruns := some [⟨"z", 0, 4⟩, ⟨"a", 4, 9⟩], superrun := [⟨"_s", 0, 9⟩], target := 1 }
example : [exAnnotated].all (annotatedOkB "_s") = true := by decide +kernel
example : spansOkB [⟨"z", 0, 4⟩, ⟨"a", 4, 9⟩] = true ∧ spansOkB [⟨"b", 0, 0⟩, ⟨"a", 0, 5⟩] = true ∧
    spansOkB [⟨"b", 3, 3⟩, ⟨"a", 3, 3⟩] = false := by decide

end Strax.C03
