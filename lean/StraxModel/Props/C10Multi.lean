import StraxModel.Model.SelectionMulti
import StraxModel.Lemmas.Selection
/-
  Property C10, part 2: several same-kind targets requested together (needs Model/Align.lean, the
  `Plugin.iter` model of property C08).  Only property theorems and examples.
-/
namespace Strax.C10
open Strax Strax.Selection

/-
  Full statement (DESIGN §6 `multi_same_kind`): for law-abiding stored layouts `s₁ … sₙ` of the same rows
  (same kind) and a proper range `r`,
      getArrayMulti fields [(d₁, s₁), …, (dₙ, sₙ)] {timeRange := r} sel = getArray fields s₁ {timeRange := r} sel.
  Proved here: the reduction of the multi-target request to the single-target one GIVEN the row accounting of
  `Plugin.iter` — the merged calls hand over the rows loaded for the first target, in order, except for a
  tail that starts at/after `t1` (the tolerant NEVER policy of the temporary merge plugin may leave such a
  tail in the input buffer when the other target's last chunk ends earlier because its right-edge split was
  swallowed).  Missing: deriving `hrows` / `htail` from C08's `rows_once_in_order` for `Align.iterModel` and
  from the end bound of `loadRange` (every loaded stream ends at or after `min t1 E`).  The correspondence
  check compares `getArrayMulti` with the real `get_array((src, dep))` on differently chunked directories.
-/
theorem multi_same_kind_partial (fields : List String) (d0 : Align.Dep) (s0 : List Chunk)
    (rest : List (Align.Dep × List Chunk)) (r : Range) (sel : Sel) (lists : List (List Chunk))
    (calls : List Align.Call) (cs : List Chunk) (tail : List Row)
    (hs : LawAbiding s0) (hne : s0 ≠ []) (hm : RealMode sel.mode)
    (hload0 : loadRange s0 r = .ok cs) (hcs : cs ≠ [])
    (hloads : mapE (fun (p : Align.Dep × List Chunk) => loader p.2 (some r)) ((d0, s0) :: rest) = .ok lists)
    (hiter : Align.iterModel (((d0, s0) :: rest).map (·.1)) lists false = .ok calls) (hcalls : calls ≠ [])
    (hrows : (calls.map mergedRows).flatten ++ tail = cs.flatMap (·.rows))
    (htail : ∀ x ∈ tail, r.2 ≤ x.time ∧ x.time < x.endt) :
    getArrayMulti fields ((d0, s0) :: rest) { timeRange := some r } sel
      = getArray fields s0 { timeRange := some r } sel := by
  obtain ⟨cs', hload, hsel, hnil⟩ := loadRange_spec s0 r (chunks_of_lawAbiding hs)
  rw [hload0] at hload
  injection hload with hload
  subst hload
  rw [getArray_range hs hne hm (r := r) rfl]
  have hnot : ¬ (s0.all (fun c => pruned c r) = true) := by
    intro hall
    exact hcs (hnil.2 (by simpa [List.all_eq_true] using hall))
  simp only [hnot, Bool.false_eq_true, if_false]
  unfold getArrayMulti
  have habs : toAbsolute s0 { timeRange := some r } = .ok (some r) := rfl
  simp only [habs, hloads, hiter]
  cases calls with
  | nil => exact absurd rfl hcalls
  | cons c calls =>
    rw [List.map_cons, collect_eq, ← List.map_cons]
    rcases applySelection_shape fields sel (some r) with herr | ⟨cols, hok⟩
    · rw [herr, herr]
    · rw [hok, hok, keepFn_eq_select, keepFn_eq_select, ← hsel sel.mode sel.predFn hm]
      congr 2
      have h1 : cs.flatMap (fun c => select sel.mode r sel.predFn c.rows)
          = select sel.mode r sel.predFn (cs.flatMap (·.rows)) := by
        have := filter_flatten_rows (fun x => inRange sel.mode r x && sel.predFn x) cs
        simp only [select]
        rw [← this]
        simp [List.flatMap]
      rw [h1, ← hrows, select_append,
        select_nil_of (fun x hx => inRange_right_false hm (htail x hx).2 (htail x hx).1)]
      simp

-- Non-vacuity of the hypotheses on a concrete instance (one stored target, range (17, 21), early left split at
-- 16, right split swallowed).  With two or more targets `Align.iterModel` goes through `Chunk.merge`, which the
-- kernel cannot evaluate by `decide`; those instances are exercised by the correspondence check
-- (`c10.multi` ops against the real `get_array((src, dep))`).
example :
    let s0 : List Chunk := [⟨"src", "things", some "0", 8, 26,
      [⟨10, 14, 0⟩, ⟨12, 16, 1⟩, ⟨16, 18, 2⟩, ⟨20, 22, 3⟩, ⟨20, 24, 4⟩], none, [⟨"0", 8, 26⟩], 1000⟩]
    let cs : List Chunk := [⟨"src", "things", some "0", 16, 26,
      [⟨16, 18, 2⟩, ⟨20, 22, 3⟩, ⟨20, 24, 4⟩], none, [⟨"0", 16, 26⟩], 1000⟩]
    let calls : List Align.Call := [⟨16, 26, [[⟨16, 18, 2⟩, ⟨20, 22, 3⟩, ⟨20, 24, 4⟩]], [(16, 26)]⟩]
    LawAbiding s0 ∧ RealMode Mode.touching ∧ loadRange s0 (17, 21) = .ok cs ∧
    mapE (fun (p : Align.Dep × List Chunk) => loader p.2 (some (17, 21))) [(⟨"src", "things"⟩, s0)] = .ok [cs] ∧
    Align.iterModel [⟨"src", "things"⟩] [cs] false = .ok calls ∧
    (calls.map mergedRows).flatten ++ [] = cs.flatMap (·.rows) := by
  decide +kernel

end Strax.C10
