import StraxModel.Lemmas.SelectionMulti
import StraxModel.Props.C08
/-
  Property C10, part 2: several same-kind targets requested together (`getArrayMulti`,
  Model/SelectionMulti.lean: one loader per target with the same range, aligned by `Plugin.iter` of the
  temporary merge plugin = `Strax.Align.iterModel`, property C08).  Only property theorems and examples.
-/
namespace Strax.C10
open Strax Strax.Selection Strax.Align

/-
  Full statement (`multi_same_kind`): for law-abiding stored layouts `s₀ … sₙ` of the same rows (one data kind)
  and a proper range `r`,
      getArrayMulti fields [(d₀, s₀), …, (dₙ, sₙ)] {timeRange := r} sel = getArray fields s₀ {timeRange := r} sel.

  Proved below (`multi_same_kind_partial`): the same conclusion when
    * the loaders and `Plugin.iter` succeed (`hloads`, `hiter`: partial-correctness form — C08 proves totality of
      `Plugin.iter` only for dependencies of pairwise different kinds), and
    * the LOADED streams are aligned — decidable predicates of C08 evaluated on what the loaders returned:
      `StartAt T0` (all start at the same time: the early left split lands on the same latest admissible time),
      `endAtB T1` (all end at the same time), `validInputsB` (law-abiding streams of one run) and `kindAlignedB`
      (interval-equal rows).
  The row accounting that the previous version took as a hypothesis (`hrows` / `htail`) is now derived from
  C08 (`rows_once_in_order`, `calls_aligned`, `calls_row_aligned`, `last_call_ends_at_run_end`).

  Still excluded (hence `_partial`): loaded streams whose RIGHT edges differ — the strict right-edge split is
  swallowed (`CannotSplit`) in one layout but not in the other, so one stream carries extra rows starting at/after
  `t1`; `Plugin.iter` (policy NEVER) leaves them in the buffer and the result is still right, but C08's accounting
  is stated for interval-equal streams only.  That region is exercised by the correspondence check
  (`c10.multi` on the mixed directories giant/tiny, tiny/giant, orig/giant vs the real `get_array((src, dep))`).
-/
theorem multi_same_kind_partial (fields : List String) (d0 : Dep) (s0 : List Chunk)
    (rest : List (Dep × List Chunk)) (r : Range) (sel : Sel) (lists : List (List Chunk))
    (calls : List Call) (rid : String) (T0 T1 : Int)
    (hs : Selection.LawAbiding s0) (hne : s0 ≠ []) (hm : RealMode sel.mode)
    (hsame : ∀ p ∈ rest, p.1.kind = d0.kind)
    (hloads : Selection.mapE (fun (p : Dep × List Chunk) => loader p.2 (some r)) ((d0, s0) :: rest) = .ok lists)
    (hiter : iterModel (((d0, s0) :: rest).map (·.1)) lists false = .ok calls)
    (hv : validInputsB rid lists = true) (hT : StartAt T0 lists) (he : endAtB T1 lists = true)
    (hk : kindAlignedB (((d0, s0) :: rest).map (·.1)) lists = true) :
    getArrayMulti fields ((d0, s0) :: rest) { timeRange := some r } sel
      = getArray fields s0 { timeRange := some r } sel := by
  -- the first loaded stream
  obtain ⟨cs0, lists', hl0, -, hlists⟩ := mapE_cons_ok hloads
  have hlen : lists.length = (((d0, s0) :: rest).map (·.1)).length := by
    rw [mapE_length hloads]; simp
  have hload0 : loadRange s0 r = .ok cs0 := by
    unfold loader at hl0
    have : s0.isEmpty = false := by cases s0 <;> simp_all
    simpa [this] using hl0
  have hget0 : lists[0]? = some cs0 := by rw [hlists]; rfl
  have hcs0 : cs0 ≠ [] := by
    intro h0
    unfold StartAt startAtB at hT
    rw [hlists, h0] at hT
    simp at hT
  -- the run behind `iterModel`
  unfold iterModel at hiter
  split at hiter
  · cases hiter
  · rename_i res hres
    injection hiter with hiter
    subst hiter
    have hres' : iterRun (((d0, s0) :: rest).map (·.1)) lists false = .ok res := hres
    have hcalls := (C08.calls_adjacent hlen hT hres').1
    obtain ⟨left, hleft, hrows⟩ := C08.rows_once_in_order hlen hres' 0 cs0 hget0
    have hleft0 : left = [] :=
      (C08.last_call_ends_at_run_end hv hT he hres').2 left (List.mem_of_getElem? hleft)
    have hmerged : ∀ c ∈ res.calls, mergedRows c = c.rowsOf 0 := by
      intro c hc
      rw [mergedRows_eq_align]
      have hal := C08.calls_aligned hlen hT hres' c hc
      apply mergedRowsOf_eq (n := rest.length) (by rw [hal.1]; simp)
      have hlast : ((d0 :: rest.map (·.1)))[rest.length]? = some ((d0 :: rest.map (·.1))[rest.length]'(by simp)) :=
        List.getElem?_eq_getElem (by simp)
      apply C08.calls_row_aligned hlen hT hk hres' c hc 0 rest.length d0 _ rfl hlast
      have hmem : (d0 :: rest.map (·.1))[rest.length]'(by simp) ∈ d0 :: rest.map (·.1) := List.getElem_mem _
      rcases List.mem_cons.mp hmem with e1 | e1
      · rw [e1]
      · obtain ⟨p, hp, hpe⟩ := List.mem_map.mp e1
        rw [← hpe]
        exact (hsame p hp).symm
    apply multi_of_accounting fields d0 s0 rest r sel lists res.calls cs0 [] hs hne hm hload0 hcs0 hloads
      (by unfold iterModel; rw [hres]) hcalls
    · have hrows' : res.calls.flatMap (fun c => c.rowsOf 0) ++ left = cs0.flatMap (·.rows) := hrows
      rw [List.append_nil, ← hrows', hleft0, List.append_nil, List.flatMap_def]
      congr 1
      exact List.map_congr_left hmerged
    · intro x hx; cases hx

/-! ### non-vacuity with TWO targets stored in different layouts

`src` is stored as one chunk `[8, 26)`, `dep` (same rows) as `[8, 16) [16, 26)`; range `(17, 21)`.  Both loaders
return the single chunk `[16, 26)` with rows 2, 3, 4 (early left split at 16; right split swallowed because rows 3
and 4 straddle 21).  `Chunk.merge` sorts run spans with `List.mergeSort`, whose well-founded recursion the kernel
does not unfold, so `iterModel` is evaluated stage by stage (`decide +kernel` for every stage except the merge,
which is rewritten with `mergeSort_pair`). -/

private def dS : Dep := ⟨"src", "things"⟩
private def dD : Dep := ⟨"dep", "things"⟩
private def rows5 : List Row := [⟨10, 14, 0⟩, ⟨12, 16, 1⟩, ⟨16, 18, 2⟩, ⟨20, 22, 3⟩, ⟨20, 24, 4⟩]
private def rows3 : List Row := [⟨16, 18, 2⟩, ⟨20, 22, 3⟩, ⟨20, 24, 4⟩]
private def sS : List Chunk := [⟨"src", "things", some "0", 8, 26, rows5, none, [⟨"0", 8, 26⟩], 1000⟩]
private def sD : List Chunk := [
  ⟨"dep", "things", some "0", 8, 16, [⟨10, 14, 0⟩, ⟨12, 16, 1⟩], none, [⟨"0", 8, 16⟩], 1000⟩,
  ⟨"dep", "things", some "0", 16, 26, rows3, none, [⟨"0", 16, 26⟩], 1000⟩]
private def lS : Chunk := ⟨"src", "things", some "0", 16, 26, rows3, none, [⟨"0", 16, 26⟩], 1000⟩
private def lD : Chunk := ⟨"dep", "things", some "0", 16, 26, rows3, none, [⟨"0", 16, 26⟩], 1000⟩
private def bS : Chunk := ⟨"src", "things", some "0", 26, 26, [], none, [⟨"0", 26, 26⟩], 1000⟩
private def bD : Chunk := ⟨"dep", "things", some "0", 26, 26, [], none, [⟨"0", 26, 26⟩], 1000⟩
private def z0 : Zip DepState := ⟨[], ⟨dS, [], lS⟩, [⟨dD, [], lD⟩]⟩
private def zi : Zip (Chunk × DepState) := ⟨[], (lS, ⟨dS, [], bS⟩), [(lD, ⟨dD, [], bD⟩)]⟩
private def mM : Chunk := ⟨"<UNKNOWN>", "things", some "0", 16, 26, rows3, none, [⟨"0", 16, 26⟩], 1000⟩
private def call0 : Call := ⟨16, 26, [rows3, rows3], [(16, 26), (16, 26)]⟩

/-- `Plugin.iter` on the two loaded streams: one call `[16, 26)` with the three rows from both -/
theorem two_target_iter_witness : iterModel [dS, dD] [[lS], [lD]] false = .ok [call0] := by
  have hprep : z0.mapE (prepDep 26) = .ok zi := by decide +kernel
  have hretrim : retrim maxPasses 26 zi = .ok zi := by decide +kernel
  have hsup : mergeSuperrun [lS, lD] true = .ok [⟨"0", 16, 26⟩] := by
    simp [mergeSuperrun, mergableCheck, collectRuns, addRun, lS, lD, mergeSort_pair]
    rfl
  have hsub : mergeSubruns [lS, lD] true = .ok none := by decide +kernel
  have hmc : mergeChunks [lS, lD] "<UNKNOWN>" = .ok mM := by
    unfold mergeChunks
    simp only [bind, Except.bind, throw, throwThe, MonadExceptOf.throw, hsub, hsup]
    decide +kernel
  have hmerge : mergeByKind zi.toList = .ok [mM] := by
    have e1 : kindsOf [] (zi.toList.map (·.2.dep.kind)) = ["things"] := by decide +kernel
    have e2 : (zi.toList.filter (fun p => p.2.dep.kind == "things")).map (·.1) = [lS, lD] := by decide +kernel
    unfold mergeByKind
    rw [e1]
    simp only [Align.mapE, e2, hmc]
  have hrange : computeRange false [mM] = .ok (16, 26) := by decide +kernel
  have hbody : iterBody maxPasses false z0 = .ok (call0, ⟨[], ⟨dS, [], bS⟩, [⟨dD, [], bD⟩]⟩) := by
    unfold iterBody
    have : z0.pm.buf.stop = 26 := rfl
    simp only [this, hprep, hretrim, hmerge, hrange]
    decide +kernel
  have h1 : Align.mapE initFetch ([dS, dD].zip [[lS], [lD]]) = Except.ok [⟨dS, [], lS⟩, ⟨dD, [], lD⟩] := by
    decide +kernel
  have h2 : choosePm none [⟨dS, [], lS⟩, ⟨dD, [], lD⟩] = some z0 := by decide +kernel
  unfold iterModel iterRun iterRunP
  rw [h1]
  simp only [h2]
  unfold iterFrom
  rw [hbody]
  decide +kernel

/-- every other hypothesis of `multi_same_kind_partial` on that instance -/
example : Selection.LawAbiding sS ∧ Selection.LawAbiding sD ∧ RealMode Mode.touching ∧ (∀ p ∈ [(dD, sD)], p.1.kind = dS.kind) ∧
    Selection.mapE (fun (p : Dep × List Chunk) => loader p.2 (some (17, 21))) [(dS, sS), (dD, sD)] = .ok [[lS], [lD]] ∧
    validInputsB "0" [[lS], [lD]] = true ∧ StartAt 16 [[lS], [lD]] ∧ endAtB 26 [[lS], [lD]] = true ∧
    kindAlignedB [dS, dD] [[lS], [lD]] = true := by decide +kernel

/-- … and the theorem applied to it: the two-target request equals the single-target one -/
example : getArrayMulti ["time", "endtime", "id"] [(dS, sS), (dD, sD)] { timeRange := some (17, 21) } { mode := .touching }
    = getArray ["time", "endtime", "id"] sS { timeRange := some (17, 21) } { mode := .touching } :=
  multi_same_kind_partial _ dS sS [(dD, sD)] (17, 21) { mode := .touching } [[lS], [lD]] [call0] "0" 16 26
    (by decide +kernel) (by decide) (Or.inr rfl) (by decide +kernel) (by decide +kernel) two_target_iter_witness
    (by decide +kernel) (by decide +kernel) (by decide +kernel) (by decide +kernel)

end Strax.C10
