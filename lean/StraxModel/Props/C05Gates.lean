import StraxModel.Lemmas.MailboxAbs
/-
  C05 — translator obligations.  `Generated/MailboxGates.lean` is re-generated on every run from the Python AST of
  /repo/strax/mailbox.py (checks/lib/mailbox_translate.py, called by checks/props/c05.py:regen).  The theorems below say
  that every predicate the delivery part of the mailbox model (Model/Mailbox.lean: `readStep`, `readTake`/`gc`,
  `sendCore`) decides with IS the predicate the source has today, for every model mailbox `mb` (through the abstraction
  `MailboxAbs.absSt`).  A changed comparison in the source (`>=` -> `>` in the clean-up, a dropped `len(...) and`
  guard, `<=` -> `<` in the number check of `send`, a changed `_has_msg`) changes the generated definition and breaks
  one of these proofs; C05's exactly-once / in-order / deadlock theorems (Props/C05.lean) are then no longer statements
  about the code.  The back-pressure predicates (`can_write`, `_can_fetch`) are in Props/C13Gates.lean.
  All full strength: every `mb`, every number; the one hypothesis (`subs ≠ []`) is where Python's `min([])` would raise,
  and `Mailbox._read` only runs for a subscriber.
-/
namespace Strax.C05
open Strax Strax.Mailbox Strax.MailboxAbs
open Strax.Generated.MailboxGates

/-- `Mailbox._has_msg(n)` as the source has it = the model's `killed ∨ hasNum heap n` -/
theorem generated_hasMsg_eq_model (mb : MB) (n : Nat) :
    hasMsg (absSt mb) (some n) = (mb.killed || hasNum mb.heap n) := hasMsg_some mb n

/-- `_has_msg(None)` (what `_can_fetch` would evaluate without its `x is not None` guard) is just `killed` -/
theorem generated_hasMsg_none (mb : MB) : hasMsg (absSt mb) none = mb.killed := hasMsg_none mb

/-- `next_ready()` of `_read` as the source has it = the condition `MB.readStep` branches on
(`hasNum mb.heap sub.next || mb.killed`): a reader waits exactly when this is false -/
theorem generated_nextReady_eq_model (mb : MB) (n : Nat) :
    nextReady (absSt mb) n = (hasNum mb.heap n || mb.killed) := by
  unfold nextReady
  rw [hasMsg_some]
  show (mb.killed || hasNum mb.heap n || mb.killed) = _
  cases mb.killed <;> cases hasNum mb.heap n <;> rfl

/-- … restated on the step function: subscriber `i` enters / re-enters `Condition.wait` in `readStep` iff the
generated `next_ready` is false -/
theorem readStep_waits_iff_not_nextReady (mb mb' : MB) (i : Nat) (sub : Sub) (hs : mb.subs[i]? = some sub)
    (hf : sub.flag ≠ some false) (out : ReadOut) (h : mb.readStep i = some (out, mb')) :
    out = .waiting ↔ nextReady (absSt mb) sub.next = false := by
  rw [generated_nextReady_eq_model]
  cases hc : (hasNum mb.heap sub.next || mb.killed) <;> rcases hfl : sub.flag with _ | (_ | _)
  all_goals first
    | exact absurd hfl hf
    | (simp [MB.readStep, hs, hfl, hc] at h
       first
         | (split at h <;> simp at h <;> simp [← h.1])
         | simp [← h.1])

/-- the number check of `send` (`read_until = min(have_read, default=-1); if msg_number <= read_until: raise
InvalidMessageNumber`) as the source has it = the model's `n < minNext subs` in `MB.sendCore` -/
theorem generated_sendNumberStale_eq_model (mb : MB) (n : Nat) :
    sendNumberStale (absSt mb) n = decide (n < minNext mb.subs) := by
  simp only [sendNumberStale, absSt, pyMinD_haveRead]
  by_cases h : n < minNext mb.subs
  · simp only [h, decide_true, decide_eq_true_eq]; omega
  · simp only [h, decide_false, decide_eq_false_iff_not]; omega

/-- the test of the clean-up loop of `_read` as the source has it never raises (for a mailbox with a subscriber)
and says "the smallest buffered number is below `min(next)`", i.e. every subscriber has read it -/
theorem generated_cleanupTest_eq_model (mb : MB) (hs : mb.subs ≠ []) (heap : List Nat) :
    cleanupTest { absSt mb with heap := heap } =
      some (match lowest? heap with | none => false | some l => decide (l < minNext mb.subs)) := by
  rw [cleanupTest_eq _ ((minNext mb.subs : Int) - 1) (by simpa [absSt] using pyMin?_haveRead mb.subs hs)]
  cases lowest? heap with
  | none => rfl
  | some l =>
    simp only [Option.some.injEq]
    by_cases h : l < minNext mb.subs
    · simp only [h, decide_true, decide_eq_true_eq]; omega
    · simp only [h, decide_false, decide_eq_false_iff_not]; omega

/-- **the clean-up loop** `while <test>: heapq.heappop(self._mailbox)` with the test the source has today, run on the
numbers of the model's buffer, leaves exactly the numbers the model's garbage collection `gc` keeps
(`heap.filter (minNext subs ≤ ·)`) — so `MB.readTake` frees the slots the code frees, no more (no message lost
before every subscriber has read it) and no fewer (no slot held for ever: capacity deadlock) -/
theorem generated_cleanup_eq_gc (mb : MB) (hs : mb.subs ≠ []) :
    popWhile (fun h => cleanupTest { absSt mb with heap := h }) mb.heap.length (mb.heap.map (·.1)) =
      (gc mb.heap mb.subs).map (·.1) := by
  rw [popWhile_eq_filter _ (minNext mb.subs) (fun h => generated_cleanupTest_eq_model mb hs h) _ _ (by simp)]
  simp [gc, List.filter_map, Function.comp_def]

/-! ### non-vacuity -/

/-- a mailbox with two subscribers (one lagging), three buffered messages, the middle one out of heap order -/
def gatesDemo : MB :=
  { cap := some 3, lazy := false, gateRule := .hasMsg, heap := [(2, .plain 7), (0, .plain 5), (1, .plain 6)],
    subs := [⟨2, none, true, none⟩, ⟨3, some 3, true, some false⟩], nSent := 3, closed := false, killed := false,
    forceKilled := false, writeFlag := none, fetchFlag := none }

/-- the hypothesis `subs ≠ []` holds, the loop really pops (0 and 1 go, 2 stays), the test is `some true` first -/
example : gatesDemo.subs ≠ [] ∧
    cleanupTest (absSt gatesDemo) = some true ∧
    popWhile (fun h => cleanupTest { absSt gatesDemo with heap := h }) 3 [2, 0, 1] = [2] ∧
    nextReady (absSt gatesDemo) 2 = true ∧ nextReady (absSt gatesDemo) 3 = false ∧
    sendNumberStale (absSt gatesDemo) 1 = true ∧ sendNumberStale (absSt gatesDemo) 2 = false := by decide

/-- without the `len(self._mailbox) and` guard the test would raise on an empty buffer: `lowestMsgNumber` is partial -/
example : lowestMsgNumber { absSt gatesDemo with heap := [] } = none ∧
    cleanupTest { absSt gatesDemo with heap := [] } = some false := by decide

end Strax.C05
