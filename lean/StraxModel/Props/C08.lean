import StraxModel.Model.Basic
namespace Strax.C08
open Strax

end Strax.C08
