import StraxModel.Lemmas.AlignStruct
/-
  C08 — plugins see time-aligned inputs and receive each input row exactly once.

  Model: `Strax.Align.iterRun` / `iterModel` (Model/Align.lean), a line-by-line model of
  `Plugin.iter` + the range check of `Plugin.do_compute`.  `iterRun deps chunks strict` returns
  the list of `compute` calls and, per dependency, the rows still buffered at the end;
  `strict` = "saved by default" (`save_when > EXPLICIT`).

  `strict` is decided by `saveWhenStrict` from the `save_when` values (max over a dict-valued one).

  Part 1 (`calls_aligned` … `ok_passes_suffice`): PARTIAL-CORRECTNESS statements over ALL inputs: any
  number of dependencies and kinds, any chunk lists (law-abiding or not), any number of rows.  The only
  hypotheses are `chunks.length = deps.length` (one iterator per dependency) and, where a statement
  talks about time, `StartAt T0 chunks` (all dependencies start at `T0`).  "The re-trim loop does not
  run out of its ten passes" is implied by the hypothesis `… = .ok r` (running out is the
  `RuntimeError` of D9), see `ok_passes_suffice`.

  Naming: a theorem whose hypotheses cut out part of the property's quantifier ends in `_partial`
  (`converges_partial`, `converges_no_straddle_partial`, `converges_few_rows_partial`); concrete `decide`
  witnesses end in `_counterexample` / `_witness`.  `rows_inside_call*`, `last_call_ends_at_run_end`,
  `calls_tile_run`, `merged_rows_accounting` keep their names (other layers import them): their extra
  hypotheses are the property's OWN premises made precise, not a restriction of its quantifier —
  `validInputsB` = "each dependency in a law-abiding chunking" (valid chunks of one run; superrun-annotated
  chunks are outside this model, see notes), `endAtB` = the property's own case split ("dependencies ending
  at different times … raise": the same-end case is the one where the run must reach the end),
  `kindAlignedB` = "same-kind inputs" describe the same rows.  Each docstring says so.

  Round 2 (Lemmas/AlignTotal.lean, Lemmas/AlignRun.lean, on top of C07's chunk algebra): validity of
  every intermediate chunk (`rows_inside_call`), the end of the run (`last_call_ends_at_run_end`,
  `calls_tile_run`) and TOTALITY (`converges_partial`, `converges_few_rows_partial`, `retrim_terminates`);
  round 4 (Lemmas/AlignStruct.lean): `converges_no_straddle_partial`.  "Valid law-abiding input" is C07's `Strax.LawAbiding` (good chunks, adjacent,
  one data type and run) as `validInputsB rid chunks`; `endAtB T1 chunks` = all dependencies end at
  `T1`, none with a zero-duration last chunk after other chunks (that chunk is a loud `RuntimeError`, D16).

  Full totality statement (NOT proved for dependencies of EQUAL kind):
    converges : chunks.length = deps.length → deps ≠ [] → validInputsB rid chunks → StartAt T0 chunks →
                endAtB T1 chunks → kindAlignedB deps chunks → passesSufficeB deps chunks strict →
                ∃ r, iterRun deps chunks strict = .ok r
  Proved: `converges_no_straddle_partial` (the full statement on the sub-domain `noStraddleB`: no row straddles a
  chunk end — then `passesSufficeB` is not needed and several dependencies of one kind are covered) and
  `converges_partial` with `(deps.map (·.kind)).Nodup` in place of `kindAlignedB`.  Missing for the full
  statement: with early splits AND several dependencies of one kind, "same-kind inputs split identically"
  (equal row counts per call).  `passesSufficeB` is the model's own run, not a condition on the input shape:
  `converges_partial` says "total except for the literal 10".  A bound of the number of passes by the
  longest chain of mutually straddling rows at one boundary (`StaggerDepth ≤ 10`) is not proved; proved is
  the bound (rows in the inputs of the iteration) + 2 (`retrim_terminates`).
  False without `passesSufficeB` (`ten_pass_counterexample`, D9).
-/
namespace Strax.C08
open Strax Strax.Align

variable {deps : List Dep} {chunks : List (List Chunk)} {strict : Bool} {r : Result}

/-- every call has one row list and one input range per dependency; every dependency's input chunk
covers exactly `[start, stop)` of the call; same-kind dependencies hand over equally many rows
(`Chunk.merge` zips them column-wise). -/
theorem calls_aligned {T0 : Int} (hlen : chunks.length = deps.length) (hT : StartAt T0 chunks)
    (h : iterRun deps chunks strict = .ok r) : ∀ c ∈ r.calls, c.Aligned deps :=
  ((iterRunP_ok hlen h).timing T0 hT).2

/-- the first call starts at `T0`, every next call starts where the previous one ended, and
there is at least one call. -/
theorem calls_adjacent {T0 : Int} (hlen : chunks.length = deps.length) (hT : StartAt T0 chunks)
    (h : iterRun deps chunks strict = .ok r) : r.calls ≠ [] ∧ adjacentFrom T0 r.calls :=
  ⟨(iterRunP_ok hlen h).nonempty, ((iterRunP_ok hlen h).timing T0 hT).1⟩

/-- list form: per dependency, the rows handed over call after call, followed by the leftover,
are exactly the rows of that dependency's chunks, in order. -/
theorem rows_once_in_order_all (hlen : chunks.length = deps.length)
    (h : iterRun deps chunks strict = .ok r) : handedOver r.calls r.leftover = chunks.map allRows :=
  (iterRunP_ok hlen h).conserve

/-- for every dependency `i`: the concatenation of the rows handed over in the successive calls,
followed by the leftover of `i`, is the list of all rows of `i`'s chunks — every row exactly
once and in the original (time) order. -/
theorem rows_once_in_order (hlen : chunks.length = deps.length)
    (h : iterRun deps chunks strict = .ok r) :
    ∀ (i : Nat) cs, chunks[i]? = some cs →
      ∃ left, r.leftover[i]? = some left ∧ r.calls.flatMap (fun c => c.rowsOf i) ++ left = allRows cs := by
  intro i cs hi
  apply handedOver_index (rows_once_in_order_all hlen h) i (allRows cs)
  simp [hi]

/-- same-kind inputs are row-aligned: if same-kind dependencies carry interval-equal rows over the
whole run (`kindAlignedB`, what `Chunk.merge` takes for granted), then in every call their inputs
are interval-equal row by row, whatever the chunkings. -/
theorem calls_row_aligned {T0 : Int} (hlen : chunks.length = deps.length) (hT : StartAt T0 chunks)
    (hk : kindAlignedB deps chunks = true) (h : iterRun deps chunks strict = .ok r) :
    ∀ c ∈ r.calls, ∀ (i j : Nat) di dj, deps[i]? = some di → deps[j]? = some dj → di.kind = dj.kind →
      (c.rowsOf i).map iv = (c.rowsOf j).map iv := by
  intro c hc i j di dj hi hj hkind
  have hi' : i < chunks.length := by rw [hlen]; exact (List.getElem?_eq_some_iff.mp hi).1
  have hj' : j < chunks.length := by rw [hlen]; exact (List.getElem?_eq_some_iff.mp hj).1
  have hci : chunks[i]? = some chunks[i] := List.getElem?_eq_getElem hi'
  have hcj : chunks[j]? = some chunks[j] := List.getElem?_eq_getElem hj'
  obtain ⟨li, _, ei⟩ := rows_once_in_order hlen h i _ hci
  obtain ⟨lj, _, ej⟩ := rows_once_in_order hlen h j _ hcj
  have hl : ∀ c ∈ r.calls, (c.rowsOf i).length = (c.rowsOf j).length :=
    fun c hc => (calls_aligned hlen hT h c hc).2.2.2 i j di dj hi hj hkind
  apply flatMap_aligned (fun c => c.rowsOf i) (fun c => c.rowsOf j) r.calls li lj hl _ c hc
  rw [ei, ej]
  exact kindAligned_get hk hi hj hci hcj hkind

/-- a plugin that is saved by default never ends normally with rows left in a buffer: every row
of every dependency was handed to `compute` (exactly once, in order). -/
theorem saved_plugins_drop_nothing (hlen : chunks.length = deps.length)
    (h : iterRun deps chunks true = .ok r) :
    (∀ l ∈ r.leftover, l = []) ∧
      ∀ (i : Nat) cs, chunks[i]? = some cs → r.calls.flatMap (fun c => c.rowsOf i) = allRows cs := by
  have hs := (iterRunP_ok hlen h).strictLeft rfl
  refine ⟨hs, ?_⟩
  intro i cs hi
  obtain ⟨left, hl, e⟩ := rows_once_in_order hlen h i cs hi
  have : left = [] := hs left (List.mem_of_getElem? hl)
  subst this
  simpa using e

/-- a successful run has asked every iterator for its `StopIteration`: no chunk is left unfetched
(either policy).  This is the `for d in iters: if self._fetch_chunk(d, iters): raise` check. -/
theorem ok_means_exhausted {fin : List DepState} {left : List (List Row)}
    (h : finish strict fin = .ok left) : ∀ s ∈ fin, s.rem = [] :=
  (finish_ok h).2.1

/-- no silent drop: for a plugin saved by default, either the run raises or every input row of
every dependency is handed to `compute`.  (Dependencies that end at different times with rows
beyond the common part, and rows left over at the end, therefore raise.) -/
theorem no_silent_drop (hlen : chunks.length = deps.length) :
    match iterRun deps chunks true with
    | .error _ => True
    | .ok r => ∀ (i : Nat) cs, chunks[i]? = some cs → ∀ row ∈ allRows cs, row ∈ r.calls.flatMap (fun c => c.rowsOf i) := by
  split
  · trivial
  · rename_i r h
    intro i cs hi row hrow
    rw [(saved_plugins_drop_nothing hlen h).2 i cs hi]
    exact hrow

/-- for a plugin that is not saved by default the rows that were not handed over are exactly the
reported leftover — they come after everything that was handed over. -/
theorem tolerant_drop_is_suffix (hlen : chunks.length = deps.length)
    (h : iterRun deps chunks false = .ok r) :
    ∀ (i : Nat) cs, chunks[i]? = some cs →
      ∃ left, allRows cs = r.calls.flatMap (fun c => c.rowsOf i) ++ left :=
  fun i cs hi => by
    obtain ⟨left, _, e⟩ := rows_once_in_order hlen h i cs hi
    exact ⟨left, e.symm⟩

/-- whatever is left in a buffer at the end starts at or after the end of the last call … -/
theorem leftover_starts_after_last_call {T0 : Int} (hlen : chunks.length = deps.length)
    (hT : StartAt T0 chunks) (h : iterRun deps chunks strict = .ok r) :
    ∀ left ∈ r.leftover, ∀ r0, left.head? = some r0 → lastStop T0 r.calls ≤ r0.time :=
  (iterRunP_ok hlen h).after T0 hT

/-- … so with time-sorted inputs every row that was not handed over starts at or after the end of
the last call: no row inside the covered time range is ever skipped (either policy). -/
theorem undelivered_rows_lie_after_last_call {T0 : Int} (hlen : chunks.length = deps.length)
    (hT : StartAt T0 chunks) (h : iterRun deps chunks strict = .ok r) :
    ∀ (i : Nat) cs, chunks[i]? = some cs → sortedByTimeB (allRows cs) = true →
      ∀ left, r.leftover[i]? = some left → ∀ row ∈ left, lastStop T0 r.calls ≤ row.time := by
  intro i cs hi hs left hl row hrow
  obtain ⟨left', hl', e⟩ := rows_once_in_order hlen h i cs hi
  rw [hl] at hl'
  injection hl' with hl'
  subst hl'
  rw [← e] at hs
  have hsuf := sortedB_suffix _ _ hs
  match left, hrow, hl, hsuf with
  | r0 :: rest, hrow, hl, hsuf =>
    have h0 := leftover_starts_after_last_call hlen hT h (r0 :: rest) (List.mem_of_getElem? hl) r0 rfl
    rcases List.mem_cons.mp hrow with e1 | e1
    · subst e1; exact h0
    · exact Int.le_trans h0 (sortedB_head_le r0 rest hsuf row e1)

/-- an `ok` result means the re-trim loop never ran out of its ten passes: giving it more passes
yields the same result.  This is why the theorems above need no `StaggerDepth ≤ 10` hypothesis. -/
theorem ok_passes_suffice (h : iterRun deps chunks strict = .ok r) (k : Nat) :
    iterRunP (maxPasses + k) deps chunks strict = .ok r :=
  iterRunP_mono k h

/-! ## Round 2: validity of what is handed over, the end of the run, totality -/

/-- **rows inside their call** (bridge for C01 `iter_aligner_partial`): with valid law-abiding
inputs (C07's sense) that start together, every row handed to `compute` has positive duration
and lies inside `[call.start, call.stop]`, and `call.start ≤ call.stop`.  Any policy, any kinds,
the dependencies may end at different times.  (`validInputsB` is the property's premise "each dependency
in its own law-abiding chunking" made precise — well-formed un-annotated chunks of one run — not a
restriction of its quantifier; without it the constructor checks only the first row and the last 500.) -/
theorem rows_inside_call {rid : String} {T0 : Int} (hv : validInputsB rid chunks = true)
    (hT : StartAt T0 chunks) (h : iterRun deps chunks strict = .ok r) :
    ∀ c ∈ r.calls, c.start ≤ c.stop ∧
      ∀ rows ∈ c.rows, ∀ row ∈ rows, c.start ≤ row.time ∧ row.time < row.endt ∧ row.endt ≤ c.stop :=
  iterRunP_inside hv hT h

/-- the same, per dependency index -/
theorem rows_inside_call_dep {rid : String} {T0 : Int} (hv : validInputsB rid chunks = true)
    (hT : StartAt T0 chunks) (h : iterRun deps chunks strict = .ok r) :
    ∀ c ∈ r.calls, ∀ (i : Nat), ∀ row ∈ c.rowsOf i,
      c.start ≤ row.time ∧ row.time < row.endt ∧ row.endt ≤ c.stop := by
  intro c hc i row hrow
  unfold Call.rowsOf at hrow
  split at hrow
  · rename_i rows hrows
    exact (rows_inside_call hv hT h c hc).2 rows (List.mem_of_getElem? hrows) row hrow
  · simp at hrow

/-- **the last call ends at the run end**: if all dependencies end at `T1` (`endAtB`), the last call
ends at `T1` and no buffer keeps a row — under EITHER policy.  The same-end hypothesis is the property's
own case split, not a restriction: C08 says that dependencies ending at different times (with
undeliverable rows) RAISE — that half is `no_silent_drop` / `saved_plugins_drop_nothing`, which need no
such hypothesis; this theorem is the other half.  (Without the hypothesis the statement is false of the
code and not demanded by the property, see the `longEmptyB` example below.) -/
theorem last_call_ends_at_run_end {rid : String} {T0 T1 : Int} (hv : validInputsB rid chunks = true)
    (hT : StartAt T0 chunks) (he : endAtB T1 chunks = true) (h : iterRun deps chunks strict = .ok r) :
    lastStop T0 r.calls = T1 ∧ ∀ l ∈ r.leftover, l = [] :=
  iterRunP_tile hv hT he h

/-- **the calls tile the run** `[T0, T1]`: at least one call, the first starts at `T0`, each next one
where the previous ended, none has negative length, the last ends at `T1`; and (with
`rows_once_in_order`, leftover empty) every input row is in exactly one of them.  Hypotheses as in
`last_call_ends_at_run_end`: the property's premises (law-abiding chunkings, same start) and its own
same-end case; holds for every successful run, any kinds, either policy.  (Name frozen: C01 imports it.) -/
theorem calls_tile_run {rid : String} {T0 T1 : Int} (hlen : chunks.length = deps.length)
    (hv : validInputsB rid chunks = true) (hT : StartAt T0 chunks) (he : endAtB T1 chunks = true)
    (h : iterRun deps chunks strict = .ok r) :
    r.calls ≠ [] ∧ adjacentFrom T0 r.calls ∧ (∀ c ∈ r.calls, c.start ≤ c.stop) ∧
      lastStop T0 r.calls = T1 ∧
      ∀ (i : Nat) cs, chunks[i]? = some cs → r.calls.flatMap (fun c => c.rowsOf i) = allRows cs := by
  obtain ⟨h1, h2⟩ := calls_adjacent hlen hT h
  obtain ⟨h3, h4⟩ := last_call_ends_at_run_end hv hT he h
  refine ⟨h1, h2, fun c hc => (rows_inside_call hv hT h c hc).1, h3, ?_⟩
  intro i cs hi
  obtain ⟨left, hl, e⟩ := rows_once_in_order hlen h i cs hi
  have : left = [] := h4 left (List.mem_of_getElem? hl)
  subst this
  simpa using e

/-- the re-trim loop terminates: on valid inputs with a common start, (number of rows in the
inputs + 2) passes always suffice — each pass that does not end the loop takes at least one row
out of the inputs.  The code's literal bound is ten (D9). -/
theorem retrim_terminates {rid : String} {T : Int} {n : Nat} {t : Int} {z : Zip (Chunk × DepState)}
    (hg : ∀ p ∈ z.toList, GoodPair rid p) (hs : ∀ p ∈ z.toList, p.1.start = T) (ht : T ≤ t)
    (hn : inRows z + 2 ≤ n) : ∃ z', retrim n t z = .ok z' :=
  retrim_total hg hs ht hn

/-- **totality of `Plugin.iter` modulo the literal ten** (dependencies of pairwise different kinds): valid
law-abiding inputs (C07's sense, one run id) that start at `T0` and end at `T1`: the run succeeds under
either policy, the calls tile `[T0, T1]` and every row is handed over — PROVIDED `passesSufficeB`.
Read that hypothesis for what it is: it is NOT a condition on the shape of the input but the model's own
run ("ten passes give the same outcome as a pass budget that always suffices"); since the large-budget
run is total (`Strax.Align.iterRunP_total`), the content of this theorem is "the algorithm is total
except for the literal 10" (D9).  Structural sufficient conditions: `converges_no_straddle_partial` (no row
straddles a chunk end: the loop never runs; also covers several dependencies of ONE kind) and
`converges_few_rows_partial` (≤ 8 rows).  Excluded by the hypotheses: dependencies of one kind (`hk`), runs that
end at different times or with a zero-duration last chunk (`he`, D16), annotated (superrun) chunks (`hv`). -/
theorem converges_partial {rid : String} {T0 T1 : Int} (hlen : chunks.length = deps.length)
    (hdeps : deps ≠ []) (hv : validInputsB rid chunks = true) (hT : StartAt T0 chunks)
    (he : endAtB T1 chunks = true) (hk : (deps.map (fun d => d.kind)).Nodup)
    (hp : passesSufficeB deps chunks strict = true) :
    ∃ r, iterRun deps chunks strict = .ok r ∧ iterModel deps chunks strict = .ok r.calls ∧
      lastStop T0 r.calls = T1 ∧ ∀ l ∈ r.leftover, l = [] := by
  obtain ⟨r, hr⟩ := iterRunP_total (strict := strict)
    (n := maxPasses + (chunks.map allRows).flatten.length + 2) hlen hdeps hv hT he hk (by omega)
  unfold passesSufficeB at hp
  rw [hr] at hp
  have hrun : iterRun deps chunks strict = .ok r := by
    unfold iterRun
    cases h10 : iterRunP maxPasses deps chunks strict with
    | error e => rw [h10] at hp; simp [sameOutcome] at hp
    | ok a =>
      rw [h10] at hp
      simp only [sameOutcome, beq_iff_eq] at hp
      rw [hp]
  obtain ⟨t1, t2⟩ := last_call_ends_at_run_end hv hT he hrun
  exact ⟨r, hrun, by unfold iterModel; rw [hrun], t1, t2⟩

/-- **totality from a structural condition on the input — `_partial`: `noStraddleB` cuts the property's
"rows of one kind straddling chunk boundaries of another" out of the quantifier** (any kinds, several dependencies of one kind
included): valid law-abiding inputs that start at `T0` and end at `T1`, every chunk of the kind of its
dependency, same-kind dependencies interval-equal (`kindAlignedB`), and no row of any dependency
straddling the end of a chunk of any dependency (`noStraddleB`, e.g. dependencies that share their
cuts, or rows that never cross a cut).  Then no early split ever happens, the re-trim loop exits at its
first check (ten passes are nine more than needed), `Chunk.merge` succeeds on the same-kind inputs, the
run succeeds under either policy, the calls tile `[T0, T1]` and nothing is left over. -/
theorem converges_no_straddle_partial {rid : String} {T0 T1 : Int} (hlen : chunks.length = deps.length)
    (hdeps : deps ≠ []) (hv : validInputsB rid chunks = true) (hT : StartAt T0 chunks)
    (he : endAtB T1 chunks = true) (hns : noStraddleB chunks = true)
    (hck : chunkKindsB deps chunks = true) (hka : kindAlignedB deps chunks = true) :
    ∃ r, iterRun deps chunks strict = .ok r ∧ iterModel deps chunks strict = .ok r.calls ∧
      lastStop T0 r.calls = T1 ∧ ∀ l ∈ r.leftover, l = [] := by
  obtain ⟨r, hr⟩ := iterRunP_total_nostraddle (strict := strict) (n := maxPasses) hlen hdeps hv hT he hns hck hka
    (by decide)
  have hrun : iterRun deps chunks strict = .ok r := hr
  obtain ⟨t1, t2⟩ := last_call_ends_at_run_end hv hT he hrun
  exact ⟨r, hrun, by unfold iterModel; rw [hrun], t1, t2⟩

/-- a (weak) structural sufficient condition for the ten passes: at most eight input rows in total
(`_partial`: small inputs only, pairwise different kinds) -/
theorem converges_few_rows_partial {rid : String} {T0 T1 : Int} (hlen : chunks.length = deps.length)
    (hdeps : deps ≠ []) (hv : validInputsB rid chunks = true) (hT : StartAt T0 chunks)
    (he : endAtB T1 chunks = true) (hk : (deps.map (fun d => d.kind)).Nodup)
    (hfew : (chunks.map allRows).flatten.length + 2 ≤ maxPasses) :
    ∃ r, iterRun deps chunks strict = .ok r :=
  iterRunP_total hlen hdeps hv hT he hk hfew

/-- **row accounting for several dependencies of ONE kind** (bridge for C10 `multi_same_kind_partial`,
its hypotheses `hrows` / `htail`): if all dependencies carry interval-equal rows (`kindAlignedB`),
the merged rows (`mergedRowsOf` = C10's `mergedRows`) handed over call after call, followed by a
tail, are exactly the rows of the FIRST dependency's chunks; with time-sorted rows every row of the
tail starts at or after the end of the last call. -/
theorem merged_rows_accounting {T0 : Int} {d0 : Dep} {rest : List Dep} {calls : List Call}
    (hlen : chunks.length = (d0 :: rest).length) (hT : StartAt T0 chunks)
    (hsame : ∀ d ∈ rest, d.kind = d0.kind) (hk : kindAlignedB (d0 :: rest) chunks = true)
    (h : iterModel (d0 :: rest) chunks strict = .ok calls) :
    ∀ cs0, chunks[0]? = some cs0 →
      ∃ tail, (calls.map mergedRowsOf).flatten ++ tail = allRows cs0 ∧
        (sortedByTimeB (allRows cs0) = true → ∀ x ∈ tail, lastStop T0 calls ≤ x.time) := by
  intro cs0 hcs0
  -- recover the full result
  unfold iterModel at h
  split at h
  · cases h
  · rename_i r hr
    injection h with h
    subst h
    have hr' : iterRun (d0 :: rest) chunks strict = .ok r := hr
    obtain ⟨left, hl, e⟩ := rows_once_in_order hlen hr' 0 cs0 hcs0
    refine ⟨left, ?_, fun hs => undelivered_rows_lie_after_last_call hlen hT hr' 0 cs0 hcs0 hs left hl⟩
    rw [← e]
    congr 1
    have hmerged : ∀ c ∈ r.calls, mergedRowsOf c = c.rowsOf 0 := by
      intro c hc
      have hal := calls_aligned hlen hT hr' c hc
      apply mergedRowsOf_eq (n := rest.length) (by rw [hal.1]; simp)
      have hlast : (d0 :: rest)[rest.length]? = some ((d0 :: rest)[rest.length]'(by simp)) :=
        List.getElem?_eq_getElem (by simp)
      apply calls_row_aligned hlen hT hk hr' c hc 0 rest.length d0 _ rfl hlast
      have hm : (d0 :: rest)[rest.length]'(by simp) ∈ d0 :: rest := List.getElem_mem _
      rcases List.mem_cons.mp hm with e1 | e1
      · rw [e1]
      · exact (hsame _ e1).symm
    rw [List.flatMap_def]
    congr 1
    exact List.map_congr_left hmerged

/-- D9 in small (C08 is NOT violated: an error is raised, nothing is dropped; C01's totality is):
brick-pattern rows of two kinds, both chunkings law-abiding, both starting at 0 and ending at 13;
the code gives up with `RuntimeError` after ten passes … -/
theorem ten_pass_counterexample :
    LawAbiding brickA ∧ LawAbiding brickB ∧ StartAt 0 [brickA, brickB] ∧
      iterModel witnessDeps [brickA, brickB] true = .error .runtimeError ∧
      iterModel witnessDeps [brickA, brickB] false = .error .runtimeError := by
  decide +kernel

/-- … although four more passes would have delivered every row in two aligned, adjacent calls
(concrete witness by evaluation). -/
theorem ten_pass_would_converge_witness :
    passesSufficeB witnessDeps [brickA, brickB] true = false ∧
      (iterRunP 14 witnessDeps [brickA, brickB] true).toOption.map (fun r => r.calls.map (fun c => (c.start, c.stop)))
        = some [(0, 0), (0, 13)] := by
  decide +kernel

/-! ### non-vacuity: concrete non-trivial instances of the hypotheses and of an `ok` run -/

example : LawAbiding plainA ∧ LawAbiding plainB ∧ StartAt 0 [plainA, plainB] ∧
    [plainA, plainB].length = witnessDeps.length := by decide +kernel

/-- the hypotheses of `converges_partial` / `calls_tile_run` / `rows_inside_call` on that instance -/
example : validInputsB "0" [plainA, plainB] = true ∧ endAtB 10 [plainA, plainB] = true ∧
    (witnessDeps.map (fun d => d.kind)).Nodup ∧ witnessDeps ≠ [] ∧
    passesSufficeB witnessDeps [plainA, plainB] true = true ∧
    kindAlignedB witnessDeps [plainA, plainB] = true := by decide +kernel

/-- `converges_no_straddle_partial` on a two-kind, three-dependency instance (two dependencies of one kind in
different chunkings; cuts at 5 / none / 3 and 5; no row crosses 3 or 5): the hypotheses hold by evaluation,
the outcome follows from the theorem (the kernel cannot evaluate `Chunk.merge`'s merge sort itself) -/
example :
    let a1 : List Chunk := [plainChunk "a1" "ka" 0 5 [⟨0, 2, 0⟩, ⟨3, 5, 1⟩], plainChunk "a1" "ka" 5 10 [⟨6, 8, 2⟩]]
    let a2 : List Chunk := [plainChunk "a2" "ka" 0 10 [⟨0, 2, 7⟩, ⟨3, 5, 8⟩, ⟨6, 8, 9⟩]]
    let b : List Chunk := [plainChunk "b" "kb" 0 3 [⟨1, 3, 0⟩], plainChunk "b" "kb" 3 5 [], plainChunk "b" "kb" 5 10 [⟨5, 9, 1⟩]]
    let ds : List Dep := [⟨"a1", "ka"⟩, ⟨"a2", "ka"⟩, ⟨"b", "kb"⟩]
    ∃ r, iterRun ds [a1, a2, b] true = .ok r ∧ lastStop 0 r.calls = 10 := by
  intro a1 a2 b ds
  obtain ⟨r, h1, _, h3, _⟩ := converges_no_straddle_partial (rid := "0") (T0 := 0) (T1 := 10) (deps := ds)
    (chunks := [a1, a2, b]) (strict := true) (by decide +kernel) (by decide +kernel) (by decide +kernel)
    (by decide +kernel) (by decide +kernel) (by decide +kernel) (by decide +kernel) (by decide +kernel)
  exact ⟨r, h1, h3⟩

/-- the brick pattern satisfies every hypothesis of `converges_partial` except `passesSufficeB` -/
example : validInputsB "0" [brickA, brickB] = true ∧ endAtB 13 [brickA, brickB] = true ∧
    StartAt 0 [brickA, brickB] ∧ passesSufficeB witnessDeps [brickA, brickB] true = false := by
  decide +kernel

/-- Translation by a real epoch time (1.7e18 ns > 2^53): the model computes in unbounded `Int`, so the
shifted inputs give exactly the shifted calls / the same error — here on the ordinary witness and on the
brick pattern.  (General statement, not proved: for valid inputs and `0 ≤ d`,
`iterModel deps (chunks.map (·.map (shiftChunk d))) strict = (iterModel deps chunks strict).map (·.map (shiftCall d))`;
it needs translation invariance of the whole chunk model — `split_array` starts from `latest_end_seen = -1`
and the constructor rejects negative starts, hence the sign condition.  The correspondence component
`iter/epoch-scale` compares the real code with the model at these times.) -/
example :
    iterModel witnessDeps [plainA.map (shiftChunk epochT0), plainB.map (shiftChunk epochT0)] true
      = (match iterModel witnessDeps [plainA, plainB] true with
         | .ok calls => .ok (calls.map (shiftCall epochT0))
         | .error e => .error e) ∧
    iterModel witnessDeps [brickA.map (shiftChunk epochT0), brickB.map (shiftChunk epochT0)] true
      = .error .runtimeError := by decide +kernel

/-- strict policy, a row of `b` straddles the chunk boundary of `a`: two calls, everything delivered -/
example :
    (iterRun witnessDeps [plainA, plainB] true).toOption.map (fun r => r.calls.map (fun c => (c.start, c.stop)))
      = some [(0, 0), (0, 10)] ∧
    (iterRun witnessDeps [plainA, plainB] true).toOption.map (fun r => r.calls.map (fun c => c.rows.map ids))
      = some [[[], []], [[0, 1, 2], [0, 1]]] ∧
    (iterRun witnessDeps [plainA, plainB] true).toOption.map (fun r => r.leftover.map ids) = some [[], []] := by
  decide +kernel

/-- dependencies ending at different times with a row beyond the common part: strict raises … -/
example : iterModel witnessDeps [plainA, longB] true = .error .runtimeError := by decide +kernel
/-- … the tolerant policy ends normally and reports the undelivered row as leftover -/
example : (iterRun witnessDeps [plainA, longB] false).toOption.map (fun r => r.leftover.map ids)
    = some [[], [2]] := by decide +kernel
/-- dependencies ending at different times WITHOUT rows beyond the common part: nothing to drop,
no error — the last call ends at 10 although `b`'s last chunk ends at 14 (so "the last call ends
at the run end" is not a theorem about this code, and is not part of C08's wording). -/
example :
    (iterRun witnessDeps [plainA, longEmptyB] true).toOption.map (fun r => lastStop 0 r.calls) = some 10 ∧
    (iterRun witnessDeps [plainA, longEmptyB] true).toOption.map (fun r => r.leftover.map ids) = some [[], []] := by
  decide +kernel

end Strax.C08
