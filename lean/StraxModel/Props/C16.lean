import StraxModel.Lemmas.CopySafe
import StraxModel.Generated.RechunkDecisions
/-
  Property C16 — copying, rechunking, recompressing and per-chunk merging preserve the data.

  Model: `Model/Copy.lean` (`copyData` = `Context.copy_to_frontend`; `rechunkPlan` / `runOps` /
  `standaloneRechunk` = `strax.rechunker` as a sequence of directory-level operations on a store
  {source, dest_temp, dest}; `rechunkOnLoad` = the loader with `rechunk=True`; `perChunkJob` /
  `perChunkMerge` / `perChunkPipeline` = `make(chunk_number=…)` + `merge_per_chunk_storage`;
  `tagLineage` / `keyFor` = `chunk_number` in the lineage), on top of the saver / loader of C03
  (`Model/Storage.lean`) and the chunk algebra / rechunker of C07.

  Every preservation theorem is a composition of `Strax.C03.loaded_is_rechunker_output` /
  `Strax.C03.roundtrip_plain_storable` / `Strax.C03.meta_consistent` with
  `Strax.C07.rechunk_stream_partial` (through `Strax.Copy.roundtrip_strong`, Lemmas/Copy.lean), for ALL
  stored layouts: the hypothesis on the stored data is only that it LOADS (`loadDir src = .ok s`)
  to a C07-law-abiding stream (`Strax.LawAbiding s`: every chunk well-formed and un-annotated,
  adjacent ranges, one data type and run) of a plain run.  `rows s` is the concatenation of the row
  lists; rows carry opaque identities, so `rows a = rows b` is "bit-identical rows in the same order".

  SCOPE — why most preservation theorems are named `…_partial`.  The property quantifies over "all
  stored layouts".  The theorems below cover every stored layout of an ORDINARY run: the hypotheses
  `Strax.LawAbiding s` (C07: chunks without `subruns` annotations), `rid.startsWith "_" = false` and
  `hdr.runId.startsWith "_" = false` exclude super-run data (run id `_…`, chunks carrying `subruns`),
  because the theorems they are composed of do: `Strax.C07.rechunk_stream_partial` and
  `Strax.C03.roundtrip_rechunk_partial` are proved for plain streams only.  Full statement of each
  `…_partial` theorem: the same conclusion with `Strax.LawAbiding s` replaced by C03's `lawAbidingB s`
  + `runOkB rid` (annotated chunks and super-run ids admitted).  What is missing: the full-strength
  stream theorem of the rechunker on annotated chunks (C07 has `rechunk_stream_annotated_partial`) and
  "restore keeps an annotated stream law-abiding".  Without rechunking the C03 theorem
  `roundtrip_plain_storable` already covers super-run chunks, and `loaded_is_rechunker_output` covers
  them relative to the rechunker.  `per_chunk_merge_partial` is additionally restricted to ONE
  per-chunked dependency and a stateless chunk-wise plugin (strax itself refuses per-chunk processing
  of super-runs, so the plain-run hypothesis is the property's scope there).  The check generates
  ordinary-run data only (checks/props/c16.py ASSUMPTIONS).  The remaining theorems (D24 / D25
  behaviour, key tagging, merge key) have no such restriction.

  Compressors are the identity on rows in the model (validated by the byte-level oracle of the
  check); the compressor / target-size fields of the metadata are checked by the oracle.
-/
namespace Strax.C16
open Strax Strax.Storage Strax.Copy

/-! ## 1. `copy_to_frontend` -/

/-- Copying stored data to another frontend — with or without rechunking (then to any target of
at least one row) — succeeds; what the destination loads to has exactly the rows of the source in
the same order, the same overall range and run, obeys the laws of chunking (both readings), every
chunk carries the target size and data type of the destination metadata, every boundary is a
boundary of the source or lies strictly inside a row-free gap; without rechunking the copy is
chunk for chunk; and the destination metadata agrees with the destination files
(`MetaConsistent`, the statement of `Strax.C03.meta_consistent`). -/
theorem copy_preserves_partial (src : Dir) (s : List Chunk) (rid : String) (rechunk : Bool) (rechunkTo : Nat)
    (hload : loadDir src = .ok s) (hl : Strax.LawAbiding s = true)
    (hrid : s.head?.bind (·.runId) = some rid) (hplain : rid.startsWith "_" = false)
    (hmd : src.1.hdr.runId.startsWith "_" = false) (ht : rechunk = true → 1 ≤ rechunkTo) :
    ∃ dst loaded out, copyData Generated.getSplitsArgmin0 src rechunk rechunkTo = .ok dst ∧
      loadDir dst = .ok loaded ∧
      rows loaded = rows s ∧
      loaded.head?.map (·.start) = s.head?.map (·.start) ∧
      loaded.getLast?.map (·.stop) = s.getLast?.map (·.stop) ∧
      Strax.LawAbiding loaded = true ∧ lawAbidingB loaded = true ∧
      (∀ c ∈ loaded, c.runId = some rid ∧ c.target = (copyHeader src.1.hdr rechunk rechunkTo).target ∧
        c.dataType = src.1.hdr.dataType) ∧
      boundaryRuleB s loaded = true ∧
      (rechunk = false → loaded.map (fun c => (c.start, c.stop, c.rows)) = s.map (fun c => (c.start, c.stop, c.rows))) ∧
      MetaConsistent (copyHeader src.1.hdr rechunk rechunkTo) dst.1 dst.2 out ∧ rows out = rows s := by
  obtain ⟨dst, loaded, h1, h2, hp⟩ := copy_core src s rid rechunk rechunkTo hload hl hrid hplain hmd ht
  have hsave : saveAll Generated.getSplitsArgmin0 rechunk (copyHeader src.1.hdr rechunk rechunkTo)
      (s.map (setTarget (copyHeader src.1.hdr rechunk rechunkTo).target)) = .ok (dst.1, dst.2) := by
    have := h1
    unfold copyData at this
    simpa [hload, bind, Except.bind] using this
  obtain ⟨out, hre, _, hmc⟩ := metaConsistent_of_save _ _ _ _ _ _ hsave
  have hrows_out : rows out = rows s := by
    -- what is loaded is what was written
    have hl2 : loadAll dst.1 dst.2 = .ok loaded := h2
    rw [saveAll_eq, hre] at hsave
    simp only [Except.map, Except.ok.injEq, Prod.mk.injEq] at hsave
    have hr := hp.rows_eq
    rw [rows_map_setTarget] at hr
    -- loaded = out.map restore whenever the load succeeds on the closed form: use the rows of the files
    have hst : ∀ c ∈ out, True := fun _ _ => trivial
    clear hst
    -- via C03: rows of loaded equal rows of out
    cases rechunk with
    | false =>
      have := rechunkAll_off Generated.getSplitsArgmin0 ((copyHeader src.1.hdr false rechunkTo).runId.startsWith "_")
        (s.map (setTarget (copyHeader src.1.hdr false rechunkTo).target))
      rw [this] at hre
      cases hre
      exact rows_map_setTarget _ s
    | true =>
      have hmd' : (copyHeader src.1.hdr true rechunkTo).runId.startsWith "_" = false := by simpa using hmd
      rw [hmd'] at hre
      obtain ⟨out', hre', hrows', _⟩ := Strax.C07.rechunk_stream_partial
        (s.map (setTarget (copyHeader src.1.hdr true rechunkTo).target)) (lawAbiding_map_setTarget _ s hl)
        (by
          intro c hc
          simp only [List.mem_map] at hc
          obtain ⟨c0, _, rfl⟩ := hc
          simpa [setTarget, copyHeader] using ht rfl)
      rw [hre'] at hre
      cases hre
      exact hrows'.trans (rows_map_setTarget _ s)
  refine ⟨dst, loaded, out, h1, h2, ?_, ?_, ?_, hp.law, hp.lawB, ?_, ?_, ?_, hmc, hrows_out⟩
  · rw [hp.rows_eq, rows_map_setTarget]
  · rw [hp.start_eq, head_map_start (setTarget _) (fun _ => rfl)]
  · rw [hp.stop_eq, last_map_stop (setTarget _) (fun _ => rfl)]
  · intro c hc
    have := hp.hdr_fields c hc
    refine ⟨hp.runs c hc, this.1, ?_⟩
    rw [this.2.1]
    unfold copyHeader; split <;> rfl
  · rw [← boundaryRuleB_congr (boundaries_map (setTarget _) (fun _ => rfl) (fun _ => rfl) s) (rows_map_setTarget _ s)]
    exact hp.boundary
  · intro hre
    rw [hp.plain hre]
    simp [List.map_map, Function.comp_def, restore, setTarget]

/-- Copying to SEVERAL destination frontends in one call (`target_frontend_id=None`), with the loop
as the code has it (`copyLoop`: a loader generator created per target INSIDE the loop and consumed
by that target's saver, `loaderPerTarget = true`): every one of the `nTargets` destinations — not
only the first — receives data that loads to exactly the rows of the source, over the same range,
law-abiding, with metadata that agrees with its files.  The variant with ONE loader created before
the loop is a different model (`fresh = false`) for which this is false:
`copy_shared_loader_counterexample`. -/
theorem copy_to_all_preserves_partial (src : Dir) (s : List Chunk) (rid : String) (rechunk : Bool) (rechunkTo nTargets : Nat)
    (hload : loadDir src = .ok s) (hl : Strax.LawAbiding s = true)
    (hrid : s.head?.bind (·.runId) = some rid) (hplain : rid.startsWith "_" = false)
    (hmd : src.1.hdr.runId.startsWith "_" = false) (ht : rechunk = true → 1 ≤ rechunkTo) :
    (copyToAll Generated.getSplitsArgmin0 loaderPerTarget src rechunk rechunkTo nTargets).length = nTargets ∧
    ∀ r ∈ copyToAll Generated.getSplitsArgmin0 loaderPerTarget src rechunk rechunkTo nTargets,
      ∃ dst loaded out, r = .ok dst ∧ loadDir dst = .ok loaded ∧ rows loaded = rows s ∧
        loaded.head?.map (·.start) = s.head?.map (·.start) ∧
        loaded.getLast?.map (·.stop) = s.getLast?.map (·.stop) ∧
        Strax.LawAbiding loaded = true ∧ boundaryRuleB s loaded = true ∧
        MetaConsistent (copyHeader src.1.hdr rechunk rechunkTo) dst.1 dst.2 out ∧ rows out = rows s := by
  obtain ⟨dst, loaded, out, h1, h2, h3, h4, h5, h6, _, _, h9, _, h11, h12⟩ :=
    copy_preserves_partial src s rid rechunk rechunkTo hload hl hrid hplain hmd ht
  have hall : copyToAll Generated.getSplitsArgmin0 loaderPerTarget src rechunk rechunkTo nTargets =
      List.replicate nTargets (.ok dst) := by
    simp only [copyToAll, loaderPerTarget, if_true]
    exact copyLoop_fresh _ src rechunk rechunkTo dst h1 nTargets []
  rw [hall]
  refine ⟨by simp, ?_⟩
  intro r hr
  have hr' : r = .ok dst := List.eq_of_mem_replicate hr
  exact ⟨dst, loaded, out, hr', h2, h3, h4, h5, h6, h9, h11, h12⟩

/-! ## 2. the stand-alone rechunker -/

/-- Rewriting stored data with the stand-alone rechunker — any target size of at least one row
(or the stored one), rechunking on or off, to a new location or in place (`replace`) — returns
normally; the rewritten data sits where it belongs (the destination without `replace`, the source
path with it, the destination then being gone; never a temp directory left), loads to exactly the
rows of the source in the same order, with the same range, run and laws of chunking, every new
boundary an old one or strictly inside a row-free gap; its metadata agrees with its files; and
without `replace` the source directory is what it was. -/
theorem standalone_rechunk_preserves_partial (st : Store) (src : Dir) (s : List Chunk) (rid : String)
    (replace rechunk : Bool) (target : Option Nat)
    (hsrc : st.src = some src) (hal : st.aliased = false)
    (hload : loadDir src = .ok s) (hl : Strax.LawAbiding s = true)
    (hrid : s.head?.bind (·.runId) = some rid) (hplain : rid.startsWith "_" = false)
    (hmd : src.1.hdr.runId.startsWith "_" = false)
    (ht : rechunk = true → ∀ c ∈ s, 1 ≤ (stamp target c).target) :
    ∃ st' new loaded out, standaloneRechunk Generated.getSplitsArgmin0 destGuard st replace rechunk target = (st', none) ∧
      (if replace then st'.src = some new ∧ st'.dst = none else st'.dst = some new ∧ st'.src = some src) ∧
      st'.tmp = none ∧
      loadDir new = .ok loaded ∧
      rows loaded = rows s ∧
      loaded.head?.map (·.start) = s.head?.map (·.start) ∧
      loaded.getLast?.map (·.stop) = s.getLast?.map (·.stop) ∧
      Strax.LawAbiding loaded = true ∧ lawAbidingB loaded = true ∧
      (∀ c ∈ loaded, c.runId = some rid ∧ c.target = (rechunkHeader src.1.hdr target).target) ∧
      boundaryRuleB s loaded = true ∧
      (rechunk = false → loaded.map (fun c => (c.start, c.stop, c.rows)) = s.map (fun c => (c.start, c.stop, c.rows))) ∧
      MetaConsistent (rechunkHeader src.1.hdr target) new.1 new.2 out := by
  obtain ⟨md, out0, loaded, hplan, hsave, hld, hp⟩ :=
    plan_ok destGuard st src s rid replace rechunk target hsrc hal hload hl hrid hplain hmd ht
  obtain ⟨out, _, _, hmc⟩ := metaConsistent_of_save _ _ _ _ _ _ hsave
  have hrun := runOps_writePlan st hal (rechunkHeader src.1.hdr target) md out0
  have hstamp_st : ∀ c, (stamp target c).start = c.start := fun c => by cases target <;> rfl
  have hstamp_sp : ∀ c, (stamp target c).stop = c.stop := fun c => by cases target <;> rfl
  refine ⟨runOps st (writePlan (rechunkHeader src.1.hdr target) md (filesFrom (rechunkHeader src.1.hdr target).pfx 0 out0) ++
      (if replace then [.rmSrc, .moveDst] else [])),
    (md, filesFrom (rechunkHeader src.1.hdr target).pfx 0 out0), loaded, out, ?_, ?_, ?_, hld, ?_, ?_, ?_,
    hp.law, hp.lawB, ?_, ?_, ?_, hmc⟩
  · unfold standaloneRechunk
    rw [hplan]
  · rw [runOps_append, hrun]
    cases replace with
    | false => simp [runOps, hsrc]
    | true => simp [runOps, applyOp, Store.getDst, Store.setDst, hal]
  · rw [runOps_append, hrun]
    cases replace with
    | false => simp [runOps]
    | true => simp [runOps, applyOp, Store.getDst, Store.setDst, hal]
  · rw [hp.rows_eq, rows_map_stamp]
  · rw [hp.start_eq, head_map_start (stamp target) hstamp_st]
  · rw [hp.stop_eq, last_map_stop (stamp target) hstamp_sp]
  · intro c hc
    exact ⟨hp.runs c hc, (hp.hdr_fields c hc).1⟩
  · rw [← boundaryRuleB_congr (boundaries_map (stamp target) hstamp_st hstamp_sp s) (rows_map_stamp target s)]
    exact hp.boundary
  · intro hre
    rw [hp.plain hre]
    cases target <;> simp [List.map_map, Function.comp_def, restore, stamp, setTarget]

/-! ## 3. the source is left intact unless replacement is requested -/

/-- For EVERY prefix of the sequence of directory-level operations the rechunker issues on loadable
data: the source directory is exactly what it was — or, only when `replace` was requested and only
after every write and the closing rename of the destination happened, it has been removed while
the complete new data `new` sits in the destination, or it already is `new`.  `new` loads to the
rows of the source (`standalone_rechunk_preserves_partial`).  Without `replace` the source is untouched
at every prefix. -/
theorem source_intact_unless_replace_partial (st : Store) (src : Dir) (s : List Chunk) (rid : String)
    (replace rechunk : Bool) (target : Option Nat)
    (hsrc : st.src = some src) (hal : st.aliased = false)
    (hload : loadDir src = .ok s) (hl : Strax.LawAbiding s = true)
    (hrid : s.head?.bind (·.runId) = some rid) (hplain : rid.startsWith "_" = false)
    (hmd : src.1.hdr.runId.startsWith "_" = false)
    (ht : rechunk = true → ∀ c ∈ s, 1 ≤ (stamp target c).target) :
    ∃ ops new loaded nWrites, rechunkPlan Generated.getSplitsArgmin0 destGuard st replace rechunk target = (ops, none) ∧
      loadDir new = .ok loaded ∧ rows loaded = rows s ∧ new.1.writingEnded = true ∧ new.1.exception = false ∧
      ∀ k, (runOps st (ops.take k)).src = some src ∨
        (replace = true ∧ nWrites + 2 < k ∧
          (((runOps st (ops.take k)).src = none ∧ (runOps st (ops.take k)).dst = some new) ∨
           ((runOps st (ops.take k)).src = some new ∧ (runOps st (ops.take k)).dst = none))) := by
  obtain ⟨md, out0, loaded, hplan, hsave, hld, hp⟩ :=
    plan_ok destGuard st src s rid replace rechunk target hsrc hal hload hl hrid hplain hmd ht
  obtain ⟨out, _, _, hmc⟩ := metaConsistent_of_save _ _ _ _ _ _ hsave
  refine ⟨_, (md, filesFrom (rechunkHeader src.1.hdr target).pfx 0 out0), loaded,
    (filesFrom (rechunkHeader src.1.hdr target).pfx 0 out0).length, hplan, hld, ?_, hmc.2.2.2.2.2.1, hmc.2.2.2.2.2.2.1, ?_⟩
  · rw [hp.rows_eq, rows_map_stamp]
  · intro k
    have := plan_prefix st src (md, filesFrom (rechunkHeader src.1.hdr target).pfx 0 out0)
      (writePlan (rechunkHeader src.1.hdr target) md (filesFrom (rechunkHeader src.1.hdr target).pfx 0 out0)) replace
      hsrc hal (writePlan_safe _ _ _)
      (by rw [runOps_writePlan st hal]) k
    rcases this with h | ⟨h1, h2, h3⟩
    · exact Or.inl h
    · refine Or.inr ⟨h1, ?_, h3⟩
      simp only [writePlan, List.cons_append, List.length_cons, List.length_append, List.length_map,
        List.length_nil] at h2
      omega

/-- the operations that precede the removal of the source are: create the temp directory, write
every chunk file, close (metadata flush + rename) — the destination is complete before `rm` -/
theorem replace_removes_last_partial (st : Store) (src : Dir) (s : List Chunk) (rid : String) (rechunk : Bool)
    (target : Option Nat) (hsrc : st.src = some src) (hal : st.aliased = false)
    (hload : loadDir src = .ok s) (hl : Strax.LawAbiding s = true)
    (hrid : s.head?.bind (·.runId) = some rid) (hplain : rid.startsWith "_" = false)
    (hmd : src.1.hdr.runId.startsWith "_" = false)
    (ht : rechunk = true → ∀ c ∈ s, 1 ≤ (stamp target c).target) :
    ∃ safe, (rechunkPlan Generated.getSplitsArgmin0 destGuard st true rechunk target).1 = safe ++ [.rmSrc, .moveDst] ∧
      (∀ o ∈ safe, safeOp o = true) ∧ (safe.getLast?.map FsOp.kind = some "close") := by
  obtain ⟨md, out0, loaded, hplan, _⟩ :=
    plan_ok destGuard st src s rid true rechunk target hsrc hal hload hl hrid hplain hmd ht
  refine ⟨writePlan (rechunkHeader src.1.hdr target) md (filesFrom (rechunkHeader src.1.hdr target).pfx 0 out0), ?_,
    writePlan_safe _ _ _, ?_⟩
  · rw [hplan]; simp
  · unfold writePlan
    rw [List.getLast?_append]
    simp [FsOp.kind]

/-- since fix D24: a destination that resolves to the source directory is refused before anything
is touched -/
theorem dest_is_source_refused (a0 : Int) (st : Store) (src : Dir) (replace rechunk : Bool) (target : Option Nat)
    (hsrc : st.src = some src) (hal : st.aliased = true) :
    standaloneRechunk a0 destGuard st replace rechunk target = (st, some Err.valueError) := by
  simp [standaloneRechunk, rechunkPlan, hsrc, hal, destGuard, runOps]

/-- a tiny stored data type: two chunks, rows 0 and 1 separated by more than 1000 ns -/
def exDir : Dir :=
  ({ hdr := { runId := "r", dataType := "src", kind := "things", target := 1, pfx := "src-h" },
     chunks := [⟨0, 1, 0, 10, some "r", none, some 1, some 4, some 1, some 4, some "src-h-000000", 0, none⟩,
                ⟨1, 1, 10, 5000, some "r", none, some 4000, some 4001, some 4000, some 4001, some "src-h-000001", 0, none⟩],
     start := some 0, stop := some 5000, writingEnded := true, exception := false },
   [("src-h-000000", [⟨1, 4, 0⟩]), ("src-h-000001", [⟨4000, 4001, 1⟩])])

def exStream : List Chunk :=
  [ { dataType := "src", kind := "things", runId := some "r", start := 0, stop := 10, rows := [⟨1, 4, 0⟩],
      subruns := none, superrun := [⟨"r", 0, 10⟩], target := 1 },
    { dataType := "src", kind := "things", runId := some "r", start := 10, stop := 5000, rows := [⟨4000, 4001, 1⟩],
      subruns := none, superrun := [⟨"r", 10, 5000⟩], target := 1 } ]

/-- the hypotheses of the theorems above on a concrete directory -/
example : loadDir exDir = .ok exStream ∧ Strax.LawAbiding exStream = true ∧
    exStream.head?.bind (·.runId) = some "r" ∧ ("r" : String).startsWith "_" = false ∧
    exDir.1.hdr.runId.startsWith "_" = false ∧ (∀ c ∈ exStream, 1 ≤ (stamp (some 2) c).target) :=
  ⟨ok_of_toOption (by decide +kernel), by decide +kernel, by decide +kernel, by decide +kernel, by decide +kernel,
   by decide +kernel⟩

/-- **the old behaviour (before fix D24)**: with the destination resolving to the source directory
and NO replacement requested, the rechunker destroyed the source — the caller got ValueError, the
source path held a directory without any chunk file whose metadata records an exception, and
nothing could be loaded from it any more. -/
theorem source_destroyed_old_counterexample :
    let st : Store := { src := some exDir, tmp := none, dst := none, aliased := true }
    let r := standaloneRechunk (-1) false st false true (some 2)
    r.2 = some Err.valueError ∧ r.1.src ≠ some exDir ∧
    (r.1.src.map fun d => (d.2, d.1.chunks, d.1.exception)) = some ([], [], true) ∧
    (r.1.src.map fun d => (loadDir d).toOption) = some none := by
  decide +kernel

/-- **a loader shared by all targets** (`fresh = false`: created once before the loop — the
mistake the code comment warns about): the first destination gets the data, the second is written
"successfully" but holds no chunk at all and cannot be loaded; with a loader per target both hold
the rows of the source. -/
theorem copy_shared_loader_counterexample :
    ((copyToAll (-1) false exDir false 1 2).map fun r => r.toOption.map fun d => (d.1.chunks.length, (loadDir d).toOption.map rows))
      = [some (2, some [⟨1, 4, 0⟩, ⟨4000, 4001, 1⟩]), some (0, none)] ∧
    ((copyToAll (-1) true exDir false 1 2).map fun r => r.toOption.map fun d => (d.1.chunks.length, (loadDir d).toOption.map rows))
      = [some (2, some [⟨1, 4, 0⟩, ⟨4000, 4001, 1⟩]), some (2, some [⟨1, 4, 0⟩, ⟨4000, 4001, 1⟩])] := by
  decide +kernel

/-! ## 4. rechunk on load -/

/-- Loading stored data with `rechunk_on_load` (any source size of at least one row) succeeds and
yields a law-abiding stream with exactly the stored rows in order, the same overall range, data
type and run; chunks are only ever split: every stored chunk start is still a chunk start. -/
theorem rechunk_on_load_preserves_partial (d : Dir) (s : List Chunk) (sourceSize : Nat) (hs : 1 ≤ sourceSize)
    (hload : loadDir d = .ok s) (hl : Strax.LawAbiding s = true) :
    ∃ out, rechunkOnLoad Generated.getSplitsArgmin0 sourceSize d = .ok out ∧
      rows out = rows s ∧ Strax.LawAbiding out = true ∧
      out.head?.map (fun c => (c.start, c.dataType, c.runId)) = s.head?.map (fun c => (c.start, c.dataType, c.runId)) ∧
      out.getLast?.map (·.stop) = s.getLast?.map (·.stop) ∧
      (∀ t ∈ s.map (·.start), t ∈ out.map (·.start)) := by
  obtain ⟨out, h1, h2, h3, h4, h5, h6⟩ := rechunkStream_good sourceSize hs s hl
  refine ⟨out, ?_, h3, h2, h4, h5, h6⟩
  simp only [rechunkOnLoad, hload, bind, Except.bind]
  exact h1

/-- every piece of a chunk split on load starts strictly inside the chunk at a time no row of the
chunk touches, and the pieces keep the chunk's data type, run and target size -/
theorem rechunk_on_load_cuts_in_gaps_partial (sourceSize : Nat) (hs : 1 ≤ sourceSize) (c : Chunk) (hg : c.good = true) :
    ∃ ps, splitLoaded Generated.getSplitsArgmin0 sourceSize c = .ok ps ∧ rows ps = c.rows ∧
      (∀ x ∈ ps, x.dataType = c.dataType ∧ x.runId = c.runId ∧ x.target = c.target) ∧
      ∀ t ∈ (ps.map (·.start)).tail, c.start < t ∧ t < c.stop ∧ ∀ r ∈ c.rows, ¬ (r.time ≤ t ∧ t ≤ r.endt) := by
  obtain ⟨ps, h1, _, h3, _, _, h6, h7⟩ := splitLoaded_good sourceSize hs c hg
  exact ⟨ps, h1, h3, h6, h7⟩

/-- since fix D25 the loader behaves the same whether or not it is handed an executor -/
theorem rechunk_on_load_executor (executor : Bool) (a0 : Int) (sourceSize : Nat) (d : Dir) :
    rechunkOnLoadExec true executor a0 sourceSize d = rechunkOnLoad a0 sourceSize d := by
  cases executor <;> simp [rechunkOnLoadExec]

/-- **the old behaviour (before fix D25)**: a loader that was handed an executor (threaded
processor, `max_workers ≥ 2`) failed on loadable data as soon as `rechunk_on_load` was set -/
theorem rechunk_on_load_old_counterexample :
    rechunkOnLoadExec false true (-1) 1 exDir = .error Err.other ∧
    (rechunkOnLoadExec true true (-1) 1 exDir).toOption.map (fun out => out.map fun c => (c.start, c.stop, ids c.rows))
      = some [(0, 10, [0]), (10, 5000, [1])] := by
  decide +kernel

/-- one stored chunk with two gaps > 1000 ns, source size one row: split 500 ns before row 1 -/
example : (rechunkOnLoad (-1) 1 ({ exDir.1 with chunks := [⟨0, 3, 0, 5000, some "r", none, some 1, some 4, some 4000, some 4001,
      some "src-h-000000", 0, none⟩] }, [("src-h-000000", [⟨1, 4, 0⟩, ⟨2000, 2001, 1⟩, ⟨4000, 4001, 2⟩])])).toOption.map
      (fun out => out.map fun c => (c.start, c.stop, ids c.rows)) = some [(0, 1500, [0]), (1500, 5000, [1, 2])] := by
  decide +kernel

/-! ## 5. per-chunk processing followed by merging -/

/-- For a chunk-wise computation `f` (`ChunkWise`: every good input chunk is answered with a good
chunk over the same range, of the plugin's data type and target size; no state between chunks) that
is a chunk homomorphism (`ChunkHomRows f whole`: applied to ANY law-abiding chunking it yields the
rows `whole (all rows)`), and for EVERY grouping `groups` of the dependency's chunks into
non-empty consecutive jobs: running the jobs (each saved under its own header, with or without
rechunk-on-save), then merging the stored results (with or without rechunking, to any target of at
least one row) succeeds, and the merged data loads to exactly `whole (rows dependency)` — the rows
of computing on all chunks at once (`direct`) — over the range of the dependency, law-abiding, with
metadata that agrees with the files.
Restriction of the property's quantifier: ONE per-chunked dependency and a stateless chunk-wise
plugin (`ChunkWise`); plugins with several dependencies (the connector checks of
`__assign_chunk_number_to_plugin`) and plugin kinds that carry state between chunks (refused by
strax: LoopPlugin, OverlapWindowPlugin) are outside; `per_chunk_keys_distinct` likewise tags a
single data type. -/
theorem per_chunk_merge_partial {f : Chunk → Except Err Chunk} {dt : String} {tt : Nat} {whole : List Row → List Row}
    (hf : ChunkWise f dt tt) (hhom : ChunkHomRows f whole)
    (groups : List (List Chunk)) (jobHdrs : List Header) (hdr : Header) (rid : String)
    (rechunkOnSave rechunk : Bool) (rechunkTo : Nat)
    (hlen : jobHdrs.length = groups.length) (hgne : groups ≠ []) (hne : ∀ g ∈ groups, g ≠ [])
    (hl : Strax.LawAbiding groups.flatten = true) (hrun : ∀ c ∈ groups.flatten, c.runId = some rid)
    (hplain : rid.startsWith "_" = false)
    (hjh : ∀ h ∈ jobHdrs, h.runId.startsWith "_" = false ∧ h.dataType = dt)
    (hmd : hdr.runId.startsWith "_" = false)
    (htt : rechunkOnSave = true → 1 ≤ tt) (hrt : rechunk = true → 1 ≤ rechunkTo) :
    ∃ dst loaded direct out,
      perChunkPipeline Generated.getSplitsArgmin0 f jobHdrs rechunkOnSave groups rechunk rechunkTo hdr = .ok dst ∧
      loadDir dst = .ok loaded ∧
      mapChunks f groups.flatten = .ok direct ∧
      rows loaded = rows direct ∧ rows loaded = whole (rows groups.flatten) ∧
      loaded.head?.map (·.start) = groups.flatten.head?.map (·.start) ∧
      loaded.getLast?.map (·.stop) = groups.flatten.getLast?.map (·.stop) ∧
      Strax.LawAbiding loaded = true ∧ (∀ c ∈ loaded, c.runId = some rid) ∧
      MetaConsistent hdr dst.1 dst.2 out := by
  obtain ⟨ds, L, direct, hjobs, hloads, hdirect, hLlaw, hLrows, hLhead, hLlast, hLall, hLne⟩ :=
    jobs_core hf rechunkOnSave rechunk rechunkTo rid hplain htt groups jobHdrs hlen hne hl hrun hjh
  have hL := hLne hgne
  have hLrid : L.head?.bind (·.runId) = some rid := by
    cases L with
    | nil => exact absurd rfl hL
    | cons a l => simpa using (hLall a (by simp)).1
  obtain ⟨md, files, loaded, hsave, hld, hp⟩ := roundtrip_strong rechunk hdr rid L hL hLlaw
    (fun hre c hc => by rw [(hLall c hc).2.2 hre]; exact hrt hre) hLrid hplain hmd
  obtain ⟨out, _, _, hmc⟩ := metaConsistent_of_save _ _ _ _ _ _ hsave
  refine ⟨(md, files), loaded, direct, out, ?_, hld, hdirect, ?_, ?_, ?_, ?_, hp.law, hp.runs, hmc⟩
  · simp only [perChunkPipeline, perChunkMerge, hjobs, hloads, bind, Except.bind]
    exact hsave
  · rw [hp.rows_eq, hLrows]
  · rw [hp.rows_eq, hLrows]
    exact hhom _ _ hl hdirect
  · rw [hp.start_eq, hLhead]
  · rw [hp.stop_eq, hLlast]

/-- the grouping does not matter: two groupings of the same dependency give the same rows -/
theorem per_chunk_merge_grouping_independent_partial {f : Chunk → Except Err Chunk} {dt : String} {tt : Nat}
    {whole : List Row → List Row} (hf : ChunkWise f dt tt) (hhom : ChunkHomRows f whole)
    (g1 g2 : List (List Chunk)) (h1 h2 : List Header) (hdr : Header) (rid : String)
    (ros re : Bool) (rt : Nat) (hsame : g1.flatten = g2.flatten)
    (hl1 : h1.length = g1.length) (hl2 : h2.length = g2.length) (hg1 : g1 ≠ []) (hg2 : g2 ≠ [])
    (hn1 : ∀ g ∈ g1, g ≠ []) (hn2 : ∀ g ∈ g2, g ≠ [])
    (hl : Strax.LawAbiding g1.flatten = true) (hrun : ∀ c ∈ g1.flatten, c.runId = some rid)
    (hplain : rid.startsWith "_" = false)
    (hj1 : ∀ h ∈ h1, h.runId.startsWith "_" = false ∧ h.dataType = dt)
    (hj2 : ∀ h ∈ h2, h.runId.startsWith "_" = false ∧ h.dataType = dt)
    (hmd : hdr.runId.startsWith "_" = false) (htt : ros = true → 1 ≤ tt) (hrt : re = true → 1 ≤ rt) :
    ∃ d1 d2 l1 l2, perChunkPipeline Generated.getSplitsArgmin0 f h1 ros g1 re rt hdr = .ok d1 ∧
      perChunkPipeline Generated.getSplitsArgmin0 f h2 ros g2 re rt hdr = .ok d2 ∧
      loadDir d1 = .ok l1 ∧ loadDir d2 = .ok l2 ∧ rows l1 = rows l2 := by
  obtain ⟨d1, l1, _, _, a1, a2, _, _, a5, _⟩ :=
    per_chunk_merge_partial hf hhom g1 h1 hdr rid ros re rt hl1 hg1 hn1 hl hrun hplain hj1 hmd htt hrt
  obtain ⟨d2, l2, _, _, b1, b2, _, _, b5, _⟩ :=
    per_chunk_merge_partial hf hhom g2 h2 hdr rid ros re rt hl2 hg2 hn2 (hsame ▸ hl) (hsame ▸ hrun) hplain hj2 hmd htt hrt
  exact ⟨d1, d2, l1, l2, a1, b1, a2, b2, by rw [a5, b5, hsame]⟩

/-- non-vacuity: a row-wise filter (the harness plugin `Tgt`) is such a computation -/
theorem filterChunk_chunkWise (dt : String) (tt : Nat) (p : Row → Bool) :
    ChunkWise (fun c => pure (filterChunk dt tt p c)) dt tt ∧
    ChunkHomRows (fun c => pure (filterChunk dt tt p c)) (fun rs => rs.filter p) := by
  refine ⟨⟨fun c _ => ⟨_, rfl⟩, ?_⟩, ?_⟩
  · intro c c' hg hc
    simp only [pure, Except.pure, Except.ok.injEq] at hc
    subst hc
    refine ⟨?_, rfl, rfl, rfl, rfl, rfl⟩
    simp only [Chunk.good, Bool.and_eq_true] at hg ⊢
    obtain ⟨hwf, hs⟩ := hg
    refine ⟨?_, ?_⟩
    · rw [Chunk.wf_iff] at hwf ⊢
      obtain ⟨h0, h1, h2, h3, h4⟩ := hwf
      refine ⟨h0, h1, ?_, ?_, ?_⟩
      · rw [sortedByTime_iff_pairwise] at h2 ⊢
        exact h2.sublist List.filter_sublist
      · intro r hr; exact h3 r (List.mem_filter.1 hr).1
      · intro r hr; exact h4 r (List.mem_filter.1 hr).1
    · rw [Chunk.simple_iff] at hs ⊢
      simpa [filterChunk] using hs
  · intro s out _ h
    have hmap : ∀ (s : List Chunk), mapChunks (fun c => (pure (filterChunk dt tt p c) : Except Err Chunk)) s =
        .ok (s.map (filterChunk dt tt p)) := by
      intro s
      induction s with
      | nil => rfl
      | cons c cs ih =>
        simp only [pure, Except.pure] at ih
        simp only [mapChunks, bind, Except.bind, pure, Except.pure, ih, List.map_cons]
    have hrows : ∀ (s : List Chunk), rows (s.map (filterChunk dt tt p)) = (rows s).filter p := by
      intro s
      induction s with
      | nil => rfl
      | cons c cs ih =>
        simp only [rows, List.map_cons, List.flatMap_cons, List.filter_append] at ih ⊢
        rw [ih]
        rfl
    rw [hmap s] at h
    cases h
    exact hrows s

/-! ## 6. per-chunk keys -/

/-- With `chunk_number = {d: g}` for a data type `d` that some plugin in the lineage depends on
directly: the key (under ANY injective lineage hash) differs from the plain key of the target, and
two different chunk lists give different keys.  `lin` is the lineage of the target as the context
builds it: no `chunk_number` assigned yet, `depends_on` without repetitions. -/
theorem per_chunk_keys_distinct {H : Type} (hash : Lineage → H) (hinj : Function.Injective hash)
    (lin : Lineage) (d : String) (g1 g2 : List Nat)
    (hun : ∀ e ∈ lin, e.deps.Nodup ∧ e.chunkNumber = []) (hdep : ∃ e ∈ lin, d ∈ e.deps)
    (hc1 : consecutive g1 = true) (hc2 : consecutive g2 = true) :
    ∃ k0 k1 k2, keyFor hash lin none = .ok k0 ∧ keyFor hash lin (some [(d, g1)]) = .ok k1 ∧
      keyFor hash lin (some [(d, g2)]) = .ok k2 ∧ k1 ≠ k0 ∧ k2 ≠ k0 ∧ (g1 ≠ g2 → k1 ≠ k2) := by
  refine ⟨hash lin, hash (tagged d g1 lin), hash (tagged d g2 lin), rfl, ?_, ?_, ?_, ?_, ?_⟩
  · simp [keyFor, tagLineage_single d g1 hc1 lin hun, Except.map]
  · simp [keyFor, tagLineage_single d g2 hc2 lin hun, Except.map]
  · exact fun h => tagged_ne d g1 lin hdep (fun e he => (hun e he).2) (hinj h)
  · exact fun h => tagged_ne d g2 lin hdep (fun e he => (hun e he).2) (hinj h)
  · exact fun hne h => hne (tagged_inj d g1 g2 lin hdep (hinj h))

/-- the keys of the jobs of one grouping are pairwise distinct: distinct groups are distinct lists -/
theorem per_chunk_job_keys_pairwise_distinct {H : Type} (hash : Lineage → H) (hinj : Function.Injective hash)
    (lin : Lineage) (d : String) (groups : List (List Nat))
    (hun : ∀ e ∈ lin, e.deps.Nodup ∧ e.chunkNumber = []) (hdep : ∃ e ∈ lin, d ∈ e.deps)
    (hc : ∀ g ∈ groups, consecutive g = true) (hnd : groups.Nodup) :
    (groups.map fun g => keyFor hash lin (some [(d, g)])).Nodup := by
  rw [List.Nodup, List.pairwise_map]
  refine List.Pairwise.imp_of_mem ?_ hnd
  intro g1 g2 h1 h2 hne heq
  obtain ⟨_, k1, k2, _, e1, e2, _, _, hk⟩ := per_chunk_keys_distinct hash hinj lin d g1 g2 hun hdep (hc g1 h1) (hc g2 h2)
  rw [e1, e2] at heq
  exact hk hne (Except.ok.inj heq)

/-- conversely (strax's own `test_per_chunk_storage`): when no plugin in the lineage depends on
`d`, the key does not change -/
theorem per_chunk_key_unchanged_without_dependent {H : Type} (hash : Lineage → H) (lin : Lineage) (d : String)
    (g : List Nat) (hun : ∀ e ∈ lin, e.deps.Nodup ∧ e.chunkNumber = []) (hno : ∀ e ∈ lin, d ∉ e.deps)
    (hc : consecutive g = true) : keyFor hash lin (some [(d, g)]) = keyFor hash lin none := by
  simp [keyFor, tagLineage_single d g hc lin hun, Except.map, tagged_of_no_dependent d g lin hno, pure, Except.pure]

/-- a list that is not made of consecutive integers is refused -/
theorem per_chunk_key_rejects_gaps {H : Type} (hash : Lineage → H) :
    keyFor hash [⟨"tgt", ["src"], [], []⟩, ⟨"src", [], [], []⟩] (some [("src", [0, 2])]) = .error Err.valueError := by
  rfl

/-- non-vacuity of the hypotheses: the lineage of `tgt ← src`, groups `[0,1]` and `[2]` -/
example : (∀ e ∈ ([⟨"tgt", ["src"], [], []⟩, ⟨"src", [], [], []⟩] : Lineage), e.deps.Nodup ∧ e.chunkNumber = []) ∧
    (∃ e ∈ ([⟨"tgt", ["src"], [], []⟩, ⟨"src", [], [], []⟩] : Lineage), "src" ∈ e.deps) ∧
    consecutive [0, 1] = true ∧ consecutive [2] = true ∧ Function.Injective (id : Lineage → Lineage) :=
  ⟨by decide, by decide, by decide, by decide, fun _ _ h => h⟩

/-- which key the merged data gets: the plain key as soon as the smallest number is 0 and the
largest is `#chunks - 1`.  For the grouping `[[0,1],[2]]` of three chunks that is right … -/
example : mergeChunkNumber 3 [[0, 1], [2]] = .ok none := by decide

/-- For every proper grouping — the chunk numbers of the groups, read in order, are `0 … n-1` — the
merged data is stored under the plain key of the target. -/
theorem merge_key_plain_for_partition (n : Nat) (groups : List (List Nat)) (hn : 1 ≤ n)
    (h : groups.flatten = List.range n) : mergeChunkNumber n groups = .ok none :=
  mergeChunkNumber_partition n groups hn h

/-- … but completeness and order are not looked at (observation, outside the property's quantifier
"groupings of the dependency chunks"): `[[0],[2]]` of three chunks is stored under the plain key
although chunk 1 is missing, and so is `[[1],[0]]` of two chunks, out of order. -/
theorem merge_key_ignores_completeness_and_order :
    mergeChunkNumber 3 [[0], [2]] = .ok none ∧ mergeChunkNumber 2 [[1], [0]] = .ok none ∧
    mergeChunkNumber 3 [[0], [1]] = .ok (some [0, 1]) ∧ mergeChunkNumber 3 [[0], [0]] = .error Err.valueError := by
  decide

/-! ## 7. never altered: the safety half of the property at its FULL quantifier (round 5)

The `…_partial` theorems above say "it succeeds AND the data is preserved" and inherit the restriction to
ordinary runs from the totality theorem of the rechunker.  The theorems of this section are their
siblings for the half that needs no such restriction — stated for EVERY stored layout that loads at all
(any run id, super-runs and annotated chunks included, law-abiding or not), every target size (0
included), every `argmin` constant, every grouping: WHENEVER the operation returns normally and its
result loads, the rows are exactly the stored rows in the same order.  Nothing is assumed that the real
code could violate on stored data; the only premises are the observations "returned normally" and
"loads".  What the partial siblings add is totality (+ laws, range, boundary rule) on ordinary runs. -/

/-- `copy_to_frontend`, any loadable source, any flags: a copy that was written and loads has the rows of
the source in order, chunk for chunk (ranges included) without rechunking, and its metadata agrees with
its files (`MetaConsistent` for the list `out` of chunks written, which has the rows of the source). -/
theorem copy_never_alters_rows (a0 : Int) (src dst : Dir) (s loaded : List Chunk) (rechunk : Bool) (rechunkTo : Nat)
    (hload : loadDir src = .ok s) (hcopy : copyData a0 src rechunk rechunkTo = .ok dst)
    (hld : loadDir dst = .ok loaded) :
    rows loaded = rows s ∧ (rechunk = false → loaded.map shape = s.map shape) ∧
    ∃ out, MetaConsistent (copyHeader src.1.hdr rechunk rechunkTo) dst.1 dst.2 out ∧ loaded.map shape = out.map shape := by
  obtain ⟨h1, h2⟩ := copyData_rows_of_ok a0 src dst s loaded rechunk rechunkTo hload hcopy hld
  refine ⟨h1, h2, ?_⟩
  have hsave := hcopy
  unfold copyData at hsave
  simp only [hload, bind, Except.bind] at hsave
  obtain ⟨out, hre, -, hmc⟩ := metaConsistent_of_save _ _ _ _ dst.1 dst.2 hsave
  refine ⟨out, hmc, ?_⟩
  rw [saveAll_eq, hre] at hsave
  simp only [Except.map, Except.ok.injEq] at hsave
  subst hsave
  exact loadAll_saved_ok _ out loaded hld

/-- the same for EVERY destination of the loop over several frontends as the code has it (a loader per
target): no destination that was written and loads differs from the source in its rows -/
theorem copy_to_all_never_alters_rows (a0 : Int) (src : Dir) (s : List Chunk) (rechunk : Bool) (rechunkTo nTargets : Nat)
    (hload : loadDir src = .ok s) :
    ∀ r ∈ copyToAll a0 loaderPerTarget src rechunk rechunkTo nTargets, ∀ dst loaded, r = .ok dst →
      loadDir dst = .ok loaded → rows loaded = rows s ∧ (rechunk = false → loaded.map shape = s.map shape) := by
  intro r hr dst loaded hrd hld
  simp only [copyToAll, loaderPerTarget, if_true] at hr
  have hc := copyLoop_fresh_ok a0 src rechunk rechunkTo nTargets [] r hr dst hrd
  exact copyData_rows_of_ok a0 src dst s loaded rechunk rechunkTo hload hc hld

/-- the stand-alone rechunker on ANY loadable source (destination another directory), any target size,
rechunk / replace on or off: if it returns normally, the rewritten data `new` sits where it belongs (in
place of the source with `replace`, the destination being gone; in the destination otherwise, the
source being EXACTLY what it was), no temp directory is left, and if `new` loads it has the rows of
the source in order — chunk for chunk without rechunking. -/
theorem standalone_rechunk_never_alters_rows (a0 : Int) (guard : Bool) (st st' : Store) (src : Dir) (s : List Chunk)
    (replace rechunk : Bool) (target : Option Nat)
    (hsrc : st.src = some src) (hal : st.aliased = false) (hload : loadDir src = .ok s)
    (hrun : standaloneRechunk a0 guard st replace rechunk target = (st', none)) :
    ∃ new, (if replace then st'.src = some new ∧ st'.dst = none else st'.dst = some new ∧ st'.src = some src) ∧
      st'.tmp = none ∧
      ∀ loaded, loadDir new = .ok loaded →
        rows loaded = rows s ∧ (rechunk = false → loaded.map shape = s.map shape) := by
  obtain ⟨new, hsave, htmp, hwhere⟩ := standalone_ok_inv a0 guard st st' src s replace rechunk target hsrc hal hload hrun
  refine ⟨new, hwhere, htmp, ?_⟩
  intro loaded hld
  have hr := loadAll_ranges hload
  obtain ⟨h1, h2⟩ := saveAll_rows_of_ok a0 rechunk _ _ loaded new (by
    intro c hc
    simp only [List.mem_map] at hc
    obtain ⟨c0, hc0, rfl⟩ := hc
    have : (stamp target c0).start = c0.start ∧ (stamp target c0).stop = c0.stop := by cases target <;> exact ⟨rfl, rfl⟩
    rw [this.1, this.2]
    exact (hr c0 hc0).2) hsave hld
  exact ⟨h1.trans (rows_map_stamp target s), fun h => (h2 h).trans (shape_map_stamp target s)⟩

/-- rechunk on load, ANY loadable directory, ANY source size (0 included), any `argmin` constant: if the
loader returns, it returns the stored rows in order -/
theorem rechunk_on_load_never_alters_rows (a0 : Int) (sourceSize : Nat) (d : Dir) (s out : List Chunk)
    (hload : loadDir d = .ok s) (hrol : rechunkOnLoad a0 sourceSize d = .ok out) : rows out = rows s := by
  simp only [rechunkOnLoad, hload, bind, Except.bind] at hrol
  exact rechunkStream_rows_of_ok a0 sourceSize s out (fun c hc => (loadAll_ranges hload c hc).2) hrol

/-- per-chunk processing followed by merging, for ANY per-chunk computation `f` whose answers are chunks
(`hf`: `start ≤ end` — the `Chunk` constructor refuses anything else, so this excludes nothing strax can
produce), ANY grouping whatsoever of ANY dependency stream of chunks (`hdep`: `start ≤ end`, true of
everything a loader yields: `Strax.Copy.loadAll_ranges`), any job headers, any flags and targets: if
the jobs and the merge returned normally and the merged data loads, then the chunk-wise computation on
the whole dependency at once succeeds as well (`direct`) and the merged data has exactly its rows. -/
theorem per_chunk_merge_never_alters_rows (a0 : Int) {f : Chunk → Except Err Chunk}
    (hf : ∀ c c', c.start ≤ c.stop → f c = .ok c' → c'.start ≤ c'.stop)
    (groups : List (List Chunk)) (jobHdrs : List Header) (hdr : Header) (rechunkOnSave rechunk : Bool) (rechunkTo : Nat)
    (dst : Dir) (loaded : List Chunk) (hdep : ∀ c ∈ groups.flatten, c.start ≤ c.stop)
    (hlen : jobHdrs.length = groups.length)
    (hrun : perChunkPipeline a0 f jobHdrs rechunkOnSave groups rechunk rechunkTo hdr = .ok dst)
    (hld : loadDir dst = .ok loaded) :
    ∃ direct, mapChunks f groups.flatten = .ok direct ∧ rows loaded = rows direct := by
  unfold perChunkPipeline at hrun
  obtain ⟨ds, hds, hrun⟩ := bind_eq_ok.1 hrun
  unfold perChunkMerge at hrun
  obtain ⟨L, hL, hsave⟩ := bind_eq_ok.1 hrun
  obtain ⟨direct, hdirect, hrows, hse⟩ := jobs_rows_of_ok a0 hf rechunkOnSave rechunk rechunkTo groups jobHdrs ds L hdep hlen hds hL
  obtain ⟨h1, -⟩ := saveAll_rows_of_ok a0 rechunk hdr L loaded dst hse hsave hld
  exact ⟨direct, hdirect, h1.trans hrows⟩

/-- the grouping does not matter, at the full quantifier: ANY two groupings of the same dependency chunks
(empty, single-chunk, uneven groups …) whose pipelines return normally and load give the same rows -/
theorem per_chunk_merge_grouping_independent (a0 : Int) {f : Chunk → Except Err Chunk}
    (hf : ∀ c c', c.start ≤ c.stop → f c = .ok c' → c'.start ≤ c'.stop)
    (g1 g2 : List (List Chunk)) (h1 h2 : List Header) (hdr : Header) (ros re : Bool) (rt : Nat)
    (d1 d2 : Dir) (l1 l2 : List Chunk) (hdep : ∀ c ∈ g1.flatten, c.start ≤ c.stop) (hsame : g1.flatten = g2.flatten)
    (hl1 : h1.length = g1.length) (hl2 : h2.length = g2.length)
    (hr1 : perChunkPipeline a0 f h1 ros g1 re rt hdr = .ok d1) (hr2 : perChunkPipeline a0 f h2 ros g2 re rt hdr = .ok d2)
    (hd1 : loadDir d1 = .ok l1) (hd2 : loadDir d2 = .ok l2) : rows l1 = rows l2 := by
  obtain ⟨x1, hx1, e1⟩ := per_chunk_merge_never_alters_rows a0 hf g1 h1 hdr ros re rt d1 l1 hdep hl1 hr1 hd1
  obtain ⟨x2, hx2, e2⟩ := per_chunk_merge_never_alters_rows a0 hf g2 h2 hdr ros re rt d2 l2 (hsame ▸ hdep) hl2 hr2 hd2
  rw [hsame, hx2] at hx1
  cases hx1
  rw [e1, e2]

/-- non-vacuity of the premises of this section on SUPER-RUN data (outside every `…_partial` theorem):
a stored super-run directory holding an annotated chunk loads, is copied, and the copy loads. -/
def exSuperChunk : Chunk :=
  ⟨"src", "things", some "_sr", 0, 5000, [⟨1, 4, 0⟩, ⟨4000, 4001, 1⟩], some [⟨"a", 0, 10⟩, ⟨"b", 10, 5000⟩],
    [⟨"_sr", 0, 5000⟩], 1⟩
def exSuperHdr : Header := { runId := "_sr", dataType := "src", kind := "things", target := 1, pfx := "src-h" }
def exSuperDir : Dir := (metaOf exSuperHdr [exSuperChunk], filesFrom exSuperHdr.pfx 0 [exSuperChunk])

example (a0 : Int) : loadDir exSuperDir = .ok [restore exSuperHdr "_sr" exSuperChunk] ∧
    ∃ dst loaded, copyData a0 exSuperDir false 7 = .ok dst ∧ loadDir dst = .ok loaded := by
  have hs : spansOkB [⟨"a", 0, 10⟩, ⟨"b", 10, 5000⟩] = true := by decide
  have hst : storableB "_sr" exSuperChunk = true :=
    storable_of_annotated (by simp [annotatedOkB, exSuperChunk, rowsInside, hs])
  have hld : loadDir exSuperDir = .ok [restore exSuperHdr "_sr" exSuperChunk] := by
    have := loadAll_saved exSuperHdr "_sr" [exSuperChunk] (by simp) (by simpa using hst)
    simpa [loadDir, exSuperDir] using this
  refine ⟨hld, ?_⟩
  have hst2 : storableB "_sr" (setTarget 1 (restore exSuperHdr "_sr" exSuperChunk)) = true := by
    have : storableB "_sr" (setTarget 1 (restore exSuperHdr "_sr" exSuperChunk)) = storableB "_sr" exSuperChunk := rfl
    rw [this]; exact hst
  obtain ⟨md, files, h1, h2⟩ := Strax.C03.roundtrip_plain_storable a0 exSuperHdr "_sr"
    [setTarget 1 (restore exSuperHdr "_sr" exSuperChunk)] (by simp) (by simpa using hst2)
  refine ⟨(md, files), _, ?_, h2⟩
  unfold copyData
  simp only [hld, bind, Except.bind]
  exact h1

/-- … and `hf` holds of the harness plugin (a row filter keeps the range of its input chunk) -/
example (dt : String) (tt : Nat) (p : Row → Bool) :
    ∀ c c', c.start ≤ c.stop → (pure (filterChunk dt tt p c) : Except Err Chunk) = .ok c' → c'.start ≤ c'.stop := by
  intro c c' hc h
  simp only [pure, Except.pure, Except.ok.injEq] at h
  subst h; exact hc

/-- `hdep` holds of every stream a loader yields -/
example (d : Dir) (s : List Chunk) (h : loadDir d = .ok s) : ∀ c ∈ s, c.start ≤ c.stop :=
  fun c hc => (loadAll_ranges h c hc).2

/-! ## 8. the decisions in the source today are the model's (translator, round 5)

`Strax.Generated.{mergeDropsChunkNumber, moveDirectories, destGuardBeforeSaver, moveAfterSave}` are regenerated from
the Python AST of `/repo/strax/context.py` (`merge_per_chunk_storage`) and `/repo/strax/storage/file_rechunker.py`
(`_move_directories`, `rechunker`) on every run of the check (`checks/props/c16.py:regen`).  A change of one of these
decisions in the source changes the generated definition and breaks the proof here. -/

/-- the plain-key test of `merge_per_chunk_storage` as it stands in the source
(`min(...) == 0 and max(...) == len(chunks) - 1`) is the model's `lo = 0 && hi + 1 = nChunks`, for all naturals -/
theorem generated_merge_test_eq_model (lo hi n : Nat) :
    Generated.mergeDropsChunkNumber lo hi n = (decide (lo = 0) && decide (hi + 1 = n)) := by
  simp only [Generated.mergeDropsChunkNumber]
  by_cases h1 : lo = 0 <;> by_cases h2 : hi + 1 = n <;> simp [h1, h2] <;> omega

/-- `mergeChunkNumber` (the model of `_chunk_number` in `merge_per_chunk_storage`) decides with the GENERATED test:
every theorem about the merged key (`merge_key_plain_for_partition`, `merge_key_ignores_completeness_and_order`) is a
theorem about the test in today's source -/
theorem generated_merge_key (nChunks : Nat) (groups : List (List Nat)) :
    mergeChunkNumber nChunks groups =
      (if hasDup groups.flatten then throw Err.valueError
       else match listMin groups.flatten, listMax groups.flatten with
        | some lo, some hi =>
          if Generated.mergeDropsChunkNumber lo hi nChunks then pure none else pure (some groups.flatten)
        | _, _ => throw Err.valueError) := by
  simp only [mergeChunkNumber, generated_merge_test_eq_model]
  rfl

/-- hence, with the test of today's source: every proper grouping is stored under the plain key … -/
theorem generated_merge_test_partition (n : Nat) (hn : 1 ≤ n) : Generated.mergeDropsChunkNumber 0 ((n - 1 : Nat) : Int) n = true := by
  have h : ((n - 1 : Nat) : Int) = (n : Int) - 1 := by omega
  simp [Generated.mergeDropsChunkNumber, h]

/-- … and a selection that does not start at chunk 0 or does not reach the last chunk never is (the shape of seeded
change C16-2: dropping `chunk_number` as soon as the last chunk is reached) -/
theorem generated_merge_test_truncated (lo hi n : Nat) (h : lo ≠ 0 ∨ hi + 1 ≠ n) :
    Generated.mergeDropsChunkNumber lo hi n = false := by
  rw [generated_merge_test_eq_model]
  rcases h with h | h <;> simp [h]

/-- `_move_directories` as it stands in the source issues exactly the tail of the model's plan: with `replace`,
`rmtree(source)` then `move(dest, source)`; nothing otherwise -/
theorem generated_move_eq_model (replace : Bool) :
    Generated.moveDirectories replace = (if replace then [FsOp.rmSrc, FsOp.moveDst] else []).map FsOp.kind := by
  cases replace <;> rfl

/-- the plan of EVERY successful run (any loadable or unloadable source, any store) ends with the operations of
today's `_move_directories`, and everything before them leaves the source alone (`safeOp`: init / write / close) -/
theorem generated_move_is_plan_tail (a0 : Int) (guard : Bool) (st : Store) (replace rechunk : Bool) (target : Option Nat)
    (ops : List FsOp) (h : rechunkPlan a0 guard st replace rechunk target = (ops, none)) :
    ∃ safe tail, ops = safe ++ tail ∧ tail.map FsOp.kind = Generated.moveDirectories replace ∧
      ∀ o ∈ safe, safeOp o = true := by
  unfold rechunkPlan at h
  split at h
  · cases h
  · rename_i d hd
    split at h
    · cases h
    · simp only at h
      split at h
      · cases h
      · rename_i cs hcs
        generalize saveFrom a0 rechunk (rechunkHeader d.1.hdr target) (cs.map (stamp target)) = r at h
        obtain ⟨sv, e⟩ := r
        simp only [Prod.mk.injEq] at h
        obtain ⟨hops, he⟩ := h
        subst he
        simp only [Option.isNone_none, Bool.true_and] at hops
        have hsafe := writePlan_safe (rechunkHeader d.1.hdr target) sv.md sv.files
        cases replace with
        | false =>
          simp only [Bool.false_eq_true, if_false] at hops
          exact ⟨writePlan (rechunkHeader d.1.hdr target) sv.md sv.files, [], by rw [← hops]; simp [writePlan], rfl, hsafe⟩
        | true =>
          simp only [if_true] at hops
          exact ⟨writePlan (rechunkHeader d.1.hdr target) sv.md sv.files, [.rmSrc, .moveDst], hops.symm, rfl, hsafe⟩

/-- the guard of fix D24 stands in the source where the model has it (after the destination is resolved, before the
saver — whose constructor removes an existing destination — is created), and the directories are moved only after
the saver was created and the loader exhausted.  `dest_is_source_refused` is therefore about today's source. -/
theorem generated_dest_guard : Generated.destGuardBeforeSaver = destGuard ∧ Generated.moveAfterSave = true :=
  ⟨rfl, rfl⟩

end Strax.C16
