import StraxModel.Model.Basic
namespace Strax.C16
open Strax

end Strax.C16
