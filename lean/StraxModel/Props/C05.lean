import StraxModel.Model.Basic
namespace Strax.C05
open Strax

end Strax.C05
