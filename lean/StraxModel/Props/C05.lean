import StraxModel.Lemmas.MailboxTerm
import StraxModel.Lemmas.DividerTerm
/-
  C05 — a mailbox delivers every message exactly once, in order, to every subscriber.

  All theorems quantify over every configuration `c` (any number of subscribers, any program of the
  source, any capacity, lazy or eager, any driver mask, workers, killers) and every state reachable in the
  transition system of Model/Mailbox.lean (one mailbox) or Model/Divider.lean (`divide_outputs` feeding several
  mailboxes), i.e. every schedule.  Invariants: `Inv`, `ProgInv`, `LiveInv`, `measure` (Lemmas/Mailbox*.lean),
  `DInv`, `DProgInv`, `DLiveInv`, `dmeasure` (Lemmas/Divider*.lean).

  On the hypotheses (why no theorem here carries `_partial`): the decidable predicates are the property's own
  conditions, not restrictions of its quantifier.  `Config.valid` / `DConfig.valid` = "the messages that were sent":
  a source that neither fails nor yields the end marker, nobody calls `kill` (failures are C06's property), message
  numbers exactly `0 … n-1`.  `Config.live` = "capacity of at least one", "at least one driver" in lazy mode, "futures
  completed by concurrent workers", in-order sends; `Config.liveOoo` = "the capacity exceeds their largest
  displacement" for explicitly numbered sends (eager: strax has no gate in front of a direct `send(msg, msg_number)`,
  so lazy + explicit numbers is not a configuration of the real code).  `DConfig.live` is the same for dividers
  (a driver for every gated output).  The safety theorems (`capacity_inv`, `delivery_prefix`, `no_lost_wakeup`,
  `divide_delivery_prefix`) have no hypothesis at all.  `lazy_out_of_order_old_rule_counterexample` is a witness.
-/
namespace Strax.C05
open Strax Strax.Mailbox

/-- `Reachable` (inductive) contains everything an explicit schedule reaches from `init` -/
theorem reachable_run (c : Config) (sched : List ThreadId) (s : Sys) (h : run? (init c) sched = some s) :
    Reachable c s := Reachable.of_run h

/-- the buffer never exceeds `max_messages` (eager mailboxes, and lazy ones given a finite capacity) -/
theorem capacity_inv (c : Config) (s : Sys) (h : Reachable c s) (k : Nat) (hc : c.cap = some k) :
    s.mb.heap.length ≤ k := by
  have hs := Static.reachable h
  have : s.mb.cap = c.cap := congrArg (fun x => x.1) hs
  exact (Inv.reachable h).mb.capOk k (by rw [this, hc])

/-- exactly-once, in-order delivery as a safety property of every reachable state: what subscriber `i`
has been handed (`got`), followed by what it has collected but not yet handed over (`tailOf pc`: messages
behind a future that is not done yet / the end marker and whatever followed it), is exactly the list of
the messages numbered `0 … have_read[i]` in number order; and the end marker is never handed over. -/
theorem delivery_prefix (c : Config) (s : Sys) (h : Reachable c s) (i : Nat) (sub : Sub) (r : Reader)
    (hs : s.mb.subs[i]? = some sub) (hr : s.readers[i]? = some r) :
    Msg.stop ∉ r.got ∧ r.got ++ tailOf r.pc = inOrder s.sent sub.next :=
  (Inv.reachable h).rd.deliv i sub r hs hr

/-- **exactly once, in order, and then the subscriber terminates**: for every configuration inside the domain
(`Config.valid`: the source neither raises nor yields the end marker, nobody calls `kill`, message numbers —
explicit or by position — are exactly `0 … n-1`), in every reachable state in which all threads have ended,
every subscriber has been handed exactly the messages of the program in number order (futures standing for
their results) and its iterator has ended normally on the end marker.  (That such a state is reached — no
deadlock — is `deadlock_free`.) -/
theorem delivery_exact (c : Config) (hv : c.valid = true) (s : Sys) (h : Reachable c s) (hf : s.final = true)
    (i : Nat) (r : Reader) (hr : s.readers[i]? = some r) :
    r.got = inOrder (numbered c.prog 0) c.prog.length ∧ ∃ rest, r.pc = .done rest :=
  delivery_exact_core hv h hf i r hr

/-- inside the domain nothing is ever dropped or killed and the sender's log is a prefix of the program -/
theorem sent_is_program_prefix (c : Config) (hv : c.valid = true) (s : Sys) (h : Reachable c s) :
    s.mb.killed = false ∧ (∀ e, s.spc ≠ .dead e) ∧
    (s.sent = (numbered c.prog 0).take s.sent.length ∨ s.sent = numbered c.prog 0 ++ [(c.prog.length, .stop)]) := by
  have hp := ProgInv.reachable hv h
  refine ⟨hp.killed, ?_, ?_⟩
  · intro e he; have := hp.pc; simp [progPc, he] at this
  · have := hp.pc
    unfold progPc at this
    cases hspc : s.spc <;> simp only [hspc] at this <;>
      first
        | exact Or.inl this.2.1
        | exact Or.inr this
        | (left; rw [this.2.1]; simp)

/-- **no deadlock**: inside the domain (`Config.valid`), every reachable state in which some thread has not
ended has an enabled thread, under either of the decidable liveness side conditions
* `Config.live`: ≥ 1 subscriber, `max_messages ≥ 1`, ≥ 1 driving subscriber in lazy mode, every future completed by
  some worker, messages sent in number order (eager or lazy, either gate rule), or
* `Config.liveOoo`: ≥ 1 subscriber, futures completed, EAGER mode, ANY numbering whose displacement `displ` (max
  over send positions of the number of already sent messages above the smallest unsent number) is below the
  capacity (or no capacity limit).
Together with `no_lost_wakeup` this is "no lost wake-up, no capacity deadlock" for every schedule.
What the hypotheses exclude: `valid` excludes kills / a failing source / duplicate or missing numbers (those runs are
covered by the safety theorems only); `live` excludes out-of-order numbering; `liveOoo` excludes lazy mode.  The
combination "lazy mailbox + explicit out-of-order numbers" is outside both on purpose: in strax the fetch gate is in
`_send_from` / `divide_outputs`, which number in order, and a direct `send(msg, msg_number=…)` passes no gate, so no real
configuration puts explicit numbers behind a lazy gate (the harness refuses it too).  In the model that combination
deadlocks under the gate rule as found (`lazy_out_of_order_old_rule_counterexample`, a witness) and not under the
repaired rule (`Strax.Mailbox.gate_contra_hasMsg`).  Termination is `bounded_runs` / `no_infinite_execution` /
`terminates` below. -/
theorem deadlock_free (c : Config) (hv : c.valid = true) (hl : c.live = true ∨ c.liveOoo = true) (s : Sys)
    (h : Reachable c s) (hnf : s.final = false) : ∃ t, (step s t).isSome = true := by
  apply Classical.byContradiction
  intro hcon
  have hstuck : ∀ t, step s t = none := by
    intro t
    cases hst : step s t with
    | none => rfl
    | some s' => exact absurd ⟨t, by simp [hst]⟩ hcon
  have hf : s.final = true := by
    rcases hl with hl | hl
    · exact deadlock_free_core hv hl h hstuck
    · exact deadlock_free_ooo_core hv hl h hstuck
  rw [hf] at hnf
  cases hnf

/-- every run that cannot be extended is a complete, successful one: all threads have ended and every
subscriber has been handed exactly the program's messages in number order -/
theorem stuck_is_success (c : Config) (hv : c.valid = true) (hl : c.live = true ∨ c.liveOoo = true) (s : Sys)
    (h : Reachable c s) (hstuck : ∀ t, step s t = none) :
    s.final = true ∧ ∀ (i : Nat) (r : Reader), s.readers[i]? = some r →
      r.got = inOrder (numbered c.prog 0) c.prog.length ∧ ∃ rest, r.pc = .done rest := by
  have hf : s.final = true := by
    rcases hl with hl | hl
    · exact deadlock_free_core hv hl h hstuck
    · exact deadlock_free_ooo_core hv hl h hstuck
  exact ⟨hf, fun i r hr => delivery_exact_core hv h hf i r hr⟩

/-- **every schedule is finite**, fairness-free: inside the domain, a schedule that can be executed from the
initial state has at most `stepBound c = (n+6)·(3·|prog| + 3 + 2·n·(|prog|+1) + Σ|worker lists|) + 2·n + 4` steps
(`n` subscribers).  Behind it: `Strax.Mailbox.measure` strictly decreases on every step (`measure_decreases`). -/
theorem bounded_runs (c : Config) (hv : c.valid = true) (sched : List ThreadId) (s : Sys)
    (h : run? (init c) sched = some s) : sched.length ≤ stepBound c := by
  have h1 := run_length_le hv sched s h
  have h2 := measure_init_le c
  omega

/-- … hence there is no infinite execution -/
theorem no_infinite_execution (c : Config) (hv : c.valid = true) (f : Nat → Sys) (t : Nat → ThreadId)
    (h0 : f 0 = init c) (hstep : ∀ n, step (f n) (t n) = some (f (n + 1))) : False := by
  have key : ∀ n, Reachable c (f n) ∧ n + measure c (f n) ≤ measure c (f 0) := by
    intro n
    induction n with
    | zero => exact ⟨by rw [h0]; exact Reachable.init, by simp⟩
    | succ k ih =>
      have hd := measure_decreases hv ih.1 (hstep k)
      exact ⟨Reachable.step ih.1 (hstep k), by omega⟩
  have := (key (measure c (f 0) + 1)).2
  omega

/-- **termination with exact delivery**: inside the domain and under either liveness side condition, every
executable schedule is bounded by `stepBound c`, and from wherever it has led, the run can only go on to — and
some continuation does reach — a state in which all threads have ended and every subscriber has been handed
exactly the program's messages in number order.  With `stuck_is_success` (every maximal execution ends in that
state) and `no_infinite_execution` (every execution is finite): every maximal execution is finite and successful. -/
theorem terminates (c : Config) (hv : c.valid = true) (hl : c.live = true ∨ c.liveOoo = true)
    (sched : List ThreadId) (s : Sys) (h : run? (init c) sched = some s) :
    sched.length ≤ stepBound c ∧
    ∃ ext s', run? s ext = some s' ∧ s'.final = true ∧
      ∀ (i : Nat) (r : Reader), s'.readers[i]? = some r →
        r.got = inOrder (numbered c.prog 0) c.prog.length ∧ ∃ rest, r.pc = .done rest := by
  refine ⟨bounded_runs c hv sched s h, ?_⟩
  have hr : Reachable c s := Reachable.of_run h
  obtain ⟨ext, s', hrun, hstuck⟩ := exists_completion hv (measure c s) s hr (Nat.le_refl _)
  have hr' : Reachable c s' := reachable_run_from hr ext hrun
  obtain ⟨hf, hd⟩ := stuck_is_success c hv hl s' hr' hstuck
  exact ⟨ext, s', hrun, hf, hd⟩

/-- lazy mailbox with the gate rule as found, one driving subscriber, message 1 sent before message 0 -/
def oooLazyOldCfg : Config :=
  { cap := none, lazy := true, gateRule := .lowest, drive := [true],
    prog := [.item (some 1) (.plain 10), .item (some 0) (.plain 20)], workers := [], killers := [] }

/-- the excluded combination is a real deadlock of the code as found: lazy mailbox, gate rule `lowest`,
messages 1 then 0 — after `1` is buffered, `waiting_for = 0 <= lowest = 1` makes `_can_fetch` refuse for ever -/
theorem lazy_out_of_order_old_rule_counterexample :
    ∃ s, Reachable oooLazyOldCfg s ∧ s.final = false ∧ s.enabled = [] := by
  have hrun : ∃ s, run? (init oooLazyOldCfg)
      [.sender, .reader 0, .sender, .sender, .sender, .sender, .reader 0] = some s ∧ s.final = false ∧ s.enabled = [] := by
    decide
  obtain ⟨s, h1, h2, h3⟩ := hrun
  exact ⟨s, Reachable.of_run h1, h2, h3⟩

/-- every number below `have_read[i] + 1` has really been sent (so `inOrder` skips nothing) -/
theorem delivery_no_gap (c : Config) (s : Sys) (h : Reachable c s) (i : Nat) (sub : Sub)
    (hs : s.mb.subs[i]? = some sub) (j : Nat) (hj : j < sub.next) : (getMsg s.sent j).isSome :=
  (Inv.reachable h).mb.found i sub hs j hj

/-- a subscriber that is inside `Condition.wait` (flag present) and whose predicate `next_ready` holds has
been notified — no lost wake-up on `_read_condition` -/
theorem no_lost_wakeup_read (c : Config) (s : Sys) (h : Reachable c s) (i : Nat) (sub : Sub)
    (hs : s.mb.subs[i]? = some sub) (hw : sub.flag ≠ none)
    (hp : hasNum s.mb.heap sub.next = true ∨ s.mb.killed = true) : sub.flag = some true := by
  cases hf : sub.flag with
  | none => exact absurd hf hw
  | some b =>
    cases b with
    | true => rfl
    | false =>
      have := (Inv.reachable h).mb.wakeR i sub hs hf
      rcases hp with hp | hp
      · rw [this.1] at hp; cases hp
      · rw [this.2] at hp; cases hp

/-- … on `_write_condition` (the sender waiting for room) -/
theorem no_lost_wakeup_write (c : Config) (s : Sys) (h : Reachable c s) (hw : s.mb.writeFlag ≠ none)
    (hp : s.mb.canWrite = true) : s.mb.writeFlag = some true := by
  cases hf : s.mb.writeFlag with
  | none => exact absurd hf hw
  | some b =>
    cases b with
    | true => rfl
    | false => have := (Inv.reachable h).mb.wakeW hf; rw [this] at hp; cases hp

/-- … on `_fetch_new_condition` (the lazy sender waiting for demand) -/
theorem no_lost_wakeup_fetch (c : Config) (s : Sys) (h : Reachable c s) (hw : s.mb.fetchFlag ≠ none)
    (hp : s.mb.canFetch = true) : s.mb.fetchFlag = some true := by
  cases hf : s.mb.fetchFlag with
  | none => exact absurd hf hw
  | some b =>
    cases b with
    | true => rfl
    | false => have := (Inv.reachable h).mb.wakeF hf; rw [this] at hp; cases hp

/-- the three wake-up statements together -/
theorem no_lost_wakeup (c : Config) (s : Sys) (h : Reachable c s) :
    (∀ (i : Nat) (sub : Sub), s.mb.subs[i]? = some sub → sub.flag ≠ none →
      (hasNum s.mb.heap sub.next = true ∨ s.mb.killed = true) → sub.flag = some true) ∧
    (s.mb.writeFlag ≠ none → s.mb.canWrite = true → s.mb.writeFlag = some true) ∧
    (s.mb.fetchFlag ≠ none → s.mb.canFetch = true → s.mb.fetchFlag = some true) :=
  ⟨fun i sub hs => no_lost_wakeup_read c s h i sub hs, no_lost_wakeup_write c s h, no_lost_wakeup_fetch c s h⟩

/-! ### multi-output dividers (`divide_outputs`, Model/Divider.lean) -/

/-- every output mailbox of a divider, in every reachable state of every configuration (any kills, failing
source, malformed dicts): the single-mailbox safety properties — capacity and exactly-once in-order delivery as
a prefix property — hold for it and its subscribers -/
theorem divide_delivery_prefix (c : DConfig) (s : DSys) (h : DReachable c s) (k : Nat) (o : Out)
    (hk : s.outs[k]? = some o) :
    (∀ cp, o.mb.cap = some cp → o.mb.heap.length ≤ cp) ∧
    ∀ (i : Nat) (sub : Sub) (r : Reader), o.mb.subs[i]? = some sub → o.readers[i]? = some r →
      Msg.stop ∉ r.got ∧ r.got ++ tailOf r.pc = inOrder o.sent sub.next := by
  have := (DInv.reachable h).out k o hk
  exact ⟨this.mb.capOk, this.rd.deliv⟩

/-- **divide_delivery**: for a divider configuration inside the domain (`DConfig.valid`: every dict has one
component per output and none is the end marker, the source does not raise, nobody calls `kill`, at least one
output), in every reachable state in which all threads have ended, every subscriber of every output mailbox has
been handed exactly that output's component of every dict, in order, and has ended on the end marker -/
theorem divide_delivery (c : DConfig) (hv : c.valid = true) (s : DSys) (h : DReachable c s) (hf : s.final = true)
    (k : Nat) (o : Out) (hk : s.outs[k]? = some o) (i : Nat) (r : Reader) (hr : o.readers[i]? = some r) :
    r.got = compOf k c.prog ∧ ∃ rest, r.pc = .done rest :=
  divide_delivery_core hv h hf k o hk i r hr

/-- **no deadlock in a divider network**: inside the domain (`DConfig.valid`) and under the decidable side
conditions `DConfig.live` — `max_messages ≥ 1`, every output has a subscriber, every future is completed by some
worker, and in lazy mode every output whose gate the divider passes (not in `flow_freely`) has a driving
subscriber — every reachable state of the network (divider thread, all output mailboxes, all their subscribers,
workers) in which some thread has not ended has an enabled thread.  Both gate rules.  `valid` excludes kills, a
failing source and dicts lacking an output (those runs are covered by `divide_delivery_prefix` only). -/
theorem divide_deadlock_free (c : DConfig) (hv : c.valid = true) (hl : c.live = true) (s : DSys)
    (h : DReachable c s) (hnf : s.final = false) : ∃ t, (dstep s t).isSome = true := by
  apply Classical.byContradiction
  intro hcon
  have hstuck : ∀ t, dstep s t = none := by
    intro t
    cases hst : dstep s t with
    | none => rfl
    | some s' => exact absurd ⟨t, by simp [hst]⟩ hcon
  rw [divide_deadlock_free_core hv hl h hstuck] at hnf
  cases hnf

/-- every schedule of a divider network is finite, fairness-free: at most `dstepBound c` steps -/
theorem divide_bounded_runs (c : DConfig) (hv : c.valid = true) (hl : c.live = true) (sched : List DThread) (s : DSys)
    (h : drun? (dinit c) sched = some s) : sched.length ≤ dstepBound c := by
  have h1 := drun_length_le hv hl sched s h
  have h2 := dmeasure_init_le c
  omega

/-- **a divider network terminates with exact delivery**: every executable schedule is bounded by `dstepBound c`,
a run that cannot be extended has all threads ended, and from wherever a schedule has led some continuation
reaches that state; in it every subscriber of every output has been handed exactly that output's component of
every dict, in order, and has ended on the end marker -/
theorem divide_terminates (c : DConfig) (hv : c.valid = true) (hl : c.live = true)
    (sched : List DThread) (s : DSys) (h : drun? (dinit c) sched = some s) :
    sched.length ≤ dstepBound c ∧
    ((∀ t, dstep s t = none) → s.final = true) ∧
    ∃ ext s', drun? s ext = some s' ∧ s'.final = true ∧
      ∀ (k : Nat) (o : Out), s'.outs[k]? = some o → ∀ (i : Nat) (r : Reader), o.readers[i]? = some r →
        r.got = compOf k c.prog ∧ ∃ rest, r.pc = .done rest := by
  have hr : DReachable c s := DReachable.of_run h
  refine ⟨divide_bounded_runs c hv hl sched s h, divide_deadlock_free_core hv hl hr, ?_⟩
  obtain ⟨ext, s', hrun, hstuck⟩ := dexists_completion hv hl (dmeasure c s) s hr (Nat.le_refl _)
  have hr' : DReachable c s' := dreachable_run_from hr ext hrun
  have hf := divide_deadlock_free_core hv hl hr' hstuck
  exact ⟨ext, s', hrun, hf, fun k o hk i r hri => divide_delivery_core hv hr' hf k o hk i r hri⟩

/-- two outputs (the second with two subscribers), two dicts, capacity 1, eager -/
def exDiv : DConfig :=
  { cap := some 1, lazy := false, gateRule := .hasMsg, outs := [([true], false), ([true, false], false)],
    prog := [.item [.plain 10, .plain 20], .item [.plain 11, .plain 21]], workers := [], killers := [] }

example : exDiv.valid = true ∧ exDiv.live = true ∧ dstepBound exDiv = 338 := by decide

/-- `divide_delivery` is not vacuous: a complete run of `exDiv` -/
example : ∃ s, drun? (dinit exDiv)
      [.divider, .divider, .divider, .reader 0 0, .reader 1 0, .reader 1 1, .divider, .divider, .divider,
       .reader 0 0, .reader 1 0, .reader 1 1, .divider, .divider, .divider, .reader 0 0, .reader 1 0, .reader 1 1] = some s ∧
    s.final = true ∧ s.outs.map (fun o => o.readers.map (·.got)) =
      [[[.plain 10, .plain 11]], [[.plain 20, .plain 21], [.plain 20, .plain 21]]] := by
  decide

/-! ### non-vacuity: concrete reachable states -/

/-- eager, capacity 1, two subscribers, messages `p10 p20` and a future; worker 0 completes the future -/
def exCfg : Config :=
  { cap := some 1, lazy := false, gateRule := .hasMsg, drive := [true, true],
    prog := [.item none (.plain 10), .item none (.fut 0 20)], workers := [[0]], killers := [] }

/-- sender fetches and sends 10, is blocked by the capacity, both readers take it, the sender goes on -/
def exSched : List ThreadId :=
  [.sender, .sender, .sender, .sender, .reader 0, .reader 1, .sender, .reader 0]

example : ∃ s, run? (init exCfg) exSched = some s ∧ s.mb.heap.length = 1 ∧ s.mb.subs.map (·.next) = [2, 1] ∧
    s.readers.map (·.pc) = [.futW [.fut 0 20], .read] := by
  decide

/-- out-of-order explicit numbers within the capacity: `1` is sent before `0` -/
def exCfg2 : Config :=
  { cap := some 2, lazy := false, gateRule := .hasMsg, drive := [true],
    prog := [.item (some 1) (.plain 10), .item (some 0) (.fut 0 20)], workers := [[0]], killers := [] }

example : exCfg.valid = true ∧ exCfg2.valid = true ∧ exCfg.live = true := by decide

/-- `exCfg2` sends 1 before 0 with capacity 2: outside `live` (in-order numbering) but inside `liveOoo`
(displacement 1 < 2); with capacity 1 it would be outside both — and does deadlock -/
example : exCfg2.live = false ∧ exCfg2.liveOoo = true ∧ ({ exCfg2 with cap := some 1 } : Config).liveOoo = false := by decide

/-- a lazy configuration with a non-driving subscriber next to a driver satisfies both hypotheses -/
def exCfg3 : Config :=
  { cap := some 1, lazy := true, gateRule := .hasMsg, drive := [false, true],
    prog := [.item none (.plain 10), .item none (.fut 3 20)], workers := [[], [3]], killers := [] }

example : exCfg3.valid = true ∧ exCfg3.live = true := by decide

/-- `delivery_exact` is not vacuous: a complete run of `exCfg2` (all threads ended); the subscriber got the
future's message (number 0) before the plain one (number 1) -/
example : ∃ s, run? (init exCfg2)
      [.sender, .sender, .sender, .sender, .sender, .sender, .reader 0, .worker 0, .reader 0, .reader 0,
       .sender, .reader 0] = some s ∧
    s.final = true ∧ s.readers.map (·.got) = [[.fut 0 20, .plain 10]] := by
  decide

/-- a state with a blocked sender whose predicate is false (flag `some false`), i.e. the hypothesis
`writeFlag ≠ none` of `no_lost_wakeup_write` is satisfiable -/
example : ∃ s, run? (init exCfg) [.sender, .sender, .sender, .sender] = some s ∧ s.mb.writeFlag = some false := by
  decide

end Strax.C05
