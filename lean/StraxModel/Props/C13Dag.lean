import StraxModel.Lemmas.NetBackpressure
import StraxModel.Lemmas.NetMeasure
/-
  C13 for ANY plugin graph — the networks of Model/Net.lean (c06's `wire : Components → Opts → Consumer → Net`; `wire` is
  tied to the real `ThreadedMailboxProcessor` by C06's wiring correspondence, the step relation by `c06.run` and by C13's
  `graph/net-dynamics`, see notes/C13.md): trees, diamonds (reconvergent paths),
  multi-output dividers with flow-freely side outputs, savers and discarders anywhere, several sources; eager and lazy;
  with or without failures.  Every theorem is about every reachable state of every net, i.e. every schedule and every
  run length.

  The bound is taken along a PATH of the wiring (`pathOk`, decidable, evaluated by the driver on the wired net): a list of
  links "thread t reads subscription (mi, si) and sends into mo" from the source's mailbox to the consumer's subscription.
      pathBound = Σ over the mailboxes m on the path of 2·cap(m)  +  Σ over the links of (lag - 1)
  where `lag` (read off the thread's program, 1 for a one-to-one plugin and for `divide_outputs`) is the largest number of
  messages the thread has taken from that input and not yet passed on.  The bound depends on the wiring and the capacities
  only.  Other branches of the graph (siblings of a diamond, side outputs, savers) do not enter: they can only slow the
  path down.  The tightest statement for a graph is the minimum over its paths (the harness takes the cheapest one).
  Naming: no theorem here is `_partial`.  `pathOk` / `soleReader` / `senderOk` are not restrictions of the property's
  quantifier but the statement that the wiring is a pipeline: every subscription has one reader (a subscription IS one
  generator), every mailbox one sender (strax wires one `_send_from` / divider per mailbox), stage bodies contain no `die`
  (only savers do), capacities ≥ 1 (the property's 1..4), and the declared `lag` of a link is at least what the thread's program
  has (it enters the BOUND, it excludes nothing); `senderOk` fails exactly for the flow-freely outputs of a divider, which the
  property's mechanism exempts from the gate.  They are decidable and evaluated by the driver (`c13.path`) on every graph the
  harness runs (all inside, 850 distinct graphs per quick run); a proof that EVERY output of `wire` satisfies them is not given.
  `sentInto s m0` counts the messages put into the source's mailbox (its end marker included), `delivered s mk sk` the
  messages handed to the consumer; the source has computed at most one chunk more than it has sent.
-/
namespace Strax.C13
open Strax Strax.Net Strax.NetBP

/-- CAPACITY in any pipeline: no mailbox ever buffers more than its `max_messages` (lazy mailboxes included: `wire` gives
every mailbox a finite capacity), its sender is never more than that ahead of any of its readers, and no reader holds
more than `max_messages - 1` undelivered messages in its batch -/
theorem dag_capacity_inv {net : Net} {s : NState} (h : Reachable net s) :
    ∀ (m : Nat) (sp : MBSpec) (a : AMB), net.mbs[m]? = some sp → s.mbs[m]? = some a →
      a.heapLen ≤ sp.cap ∧ ∀ (i : Nat) (sb : ASub), a.subs[i]? = some sb → a.nSent ≤ sb.next + sp.cap ∧ sb.buffered ≤ sp.cap - 1 := by
  intro m sp a hsp ha
  have hi := (reach_inv h).1.mb m sp a hsp ha
  refine ⟨by have := hi.back; simp only [AMB.heapLen]; omega, fun i sb hs => ⟨hi.backSub hs, (hi.sub i sb hs).2.1⟩⟩

/-- REST BOUND for any graph (trees, diamonds, dividers; nothing in the proof needs a tree), as an invariant: the sender of
the first mailbox of a path is never more than `pathBound` messages ahead of what the reader at the end of the path (the
consumer) has been handed.  Hypothesis `pathOk` (decidable, evaluated by the driver on every wired net the harness runs)
excludes: a declared `lag` smaller than the thread's program really has, subscriptions read by several threads, mailboxes with
several senders, threads with `die` in their body (savers), capacity 0.  Semantics: `Net.step` (guard level; futures and
worker pools are not in it). -/
theorem dag_rest_bound {net : Net} {s : NState} (h : Reachable net s) (m0 : Nat) (links : List Link) (mk sk : Nat)
    (hp : pathOk net m0 links mk sk = true) :
    sentInto s m0 + 1 ≤ delivered s mk sk + pathBound net m0 links := by
  obtain ⟨hb, hl⟩ := reach_inv h
  obtain ⟨a0, ak, sbk, ha0, hak, hsbk⟩ := path_exists hb links m0 mk sk hp
  have := (path_ahead hb hl links m0 mk sk hp a0 ak sbk ha0 hak hsbk).1
  simp only [sentInto, delivered, ha0, hak, hsbk]
  omega

/-- nothing reaches the consumer that has not been put into the first mailbox of the path (`pathLagR` = 0 for one-to-one
plugins and dividers) -/
theorem dag_delivered_le_sent {net : Net} {s : NState} (h : Reachable net s) (m0 : Nat) (links : List Link) (mk sk : Nat)
    (hp : pathOk net m0 links mk sk = true) :
    delivered s mk sk ≤ sentInto s m0 + pathLagR links := by
  obtain ⟨hb, hl⟩ := reach_inv h
  obtain ⟨a0, ak, sbk, ha0, hak, hsbk⟩ := path_exists hb links m0 mk sk hp
  have := (path_ahead hb hl links m0 mk sk hp a0 ak sbk ha0 hak hsbk).2
  simp only [sentInto, delivered, ha0, hak, hsbk]
  omega

/-- REST BOUND as the property states it: the consumer `c` (the only reader of subscription (mk, sk)) stops pulling in a
reachable state `s`; whatever the other threads do afterwards (any schedule `σ` without `c`, any length), the consumer's
count stays where it is and the source's mailbox receives at most `pathBound + pathLagR - 1` further messages -/
theorem dag_rest_bound_paused {net : Net} {s s' : NState} (h : Reachable net s) (m0 : Nat) (links : List Link) (mk sk c : Nat)
    (hp : pathOk net m0 links mk sk = true) (hc : soleReader net c mk sk = true)
    (σ : List Nat) (hσ : ∀ u ∈ σ, u ≠ c) (hr : run? net s σ = some s') :
    delivered s' mk sk = delivered s mk sk ∧ sentInto s' m0 + 1 ≤ sentInto s m0 + pathLagR links + pathBound net m0 links := by
  obtain ⟨hb, _⟩ := reach_inv h
  obtain ⟨_, ak, sbk, _, hak, hsbk⟩ := path_exists hb links m0 mk sk hp
  have hd := delivered_frozen hc h σ hσ hr ⟨ak, sbk, hak, hsbk⟩
  have h1 := dag_rest_bound (reachable_run h σ hr) m0 links mk sk hp
  have h2 := dag_delivered_le_sent h m0 links mk sk hp
  exact ⟨hd, by rw [hd] at h1; omega⟩

/-- THE GATE, any plugin graph, lazy mode (`senderOk net t m`, decidable: `t` is the only sender of mailbox `m` and
goes through `gate m` before every message): whenever `t` is past the gate and has not put its message into `m` yet —
that is, while it advances its source: reads its inputs, computes — and `m` has not been killed, some DRIVING
subscriber of `m` is waiting for exactly the message that comes next (a number that is not in the buffer).  Holds for
mailboxes with any number of driving and non-driving readers (the source mailbox of a diamond, saved types).
`killed = false` is the property's own exception (`_can_fetch` lets a killed mailbox through).  Tie: the `waiting` field this
theorem speaks about is NOT part of any model-vs-implementation comparison (`graph/net-dynamics` compares `n_sent` only); its
real counterpart `_subscriber_waiting_for` is examined by the ORACLE only — clause (c), evaluated at every fetch of every lazy
run — so this theorem is tied through the oracle, not through a correspondence. -/
theorem dag_lazy_gate {net : Net} {s : NState} (h : Reachable net s) (t m : Nat) (hok : senderOk net t m = true) :
    ∀ (ts : TSt) (sp : MBSpec) (a : AMB), s.thr[t]? = some ts → net.mbs[m]? = some sp → s.mbs[m]? = some a →
      ts.inEpi = false → armed m ts.prog = true → a.killed = false →
      ∃ (i : Nat) (sb : ASub), sp.drive[i]? = some true ∧ a.subs[i]? = some sb ∧ sb.waiting = some sb.next ∧ sb.next = a.nSent :=
  reach_gate h hok

/-- QUIESCENCE IS REACHED, for every net, from every state, without any fairness assumption: (i) every schedule that does
not run the consumer `c` is at most `s.measure` steps long (the measure of Lemmas/NetMeasure.lean decreases with every
step), so whoever keeps scheduling enabled threads other than `c` must stop after at most `s.measure` steps — in a state in
which no thread but `c` is enabled; (ii) such a continuation exists. -/
theorem dag_rest_reached (net : Net) (c : Nat) : ∀ (s : NState),
    (∀ σ s', run? net s σ = some s' → σ.length ≤ s.measure) ∧
    ∃ σ s', (∀ u ∈ σ, u ≠ c) ∧ run? net s σ = some s' ∧ (∀ u, u ≠ c → step net s' u = none) ∧ σ.length ≤ s.measure := by
  intro s
  refine ⟨fun σ s' hr => by have := run_length_le net σ s s' hr; omega, ?_⟩
  have key : ∀ n (s : NState), s.measure = n →
      ∃ σ s', (∀ u ∈ σ, u ≠ c) ∧ run? net s σ = some s' ∧ (∀ u, u ≠ c → step net s' u = none) ∧ σ.length ≤ s.measure := by
    intro n
    induction n using Nat.strongRecOn with
    | ind n ih =>
      intro s hn
      by_cases hq : ∀ u, u ≠ c → step net s u = none
      · exact ⟨[], s, by simp, rfl, hq, by simp⟩
      · have : ∃ u, u ≠ c ∧ step net s u ≠ none := by
          apply Classical.byContradiction
          intro hne
          apply hq
          intro u hu
          cases hs : step net s u with
          | none => rfl
          | some x => exact absurd ⟨u, hu, by simp [hs]⟩ hne
        obtain ⟨u, hu, hs⟩ := this
        cases hst : step net s u with
        | none => exact absurd hst hs
        | some s1 =>
          have hdec := step_decreases net s s1 u hst
          obtain ⟨σ, s', h1, h2, h3, h4⟩ := ih s1.measure (by omega) s1 rfl
          refine ⟨u :: σ, s', ?_, by simp [run?, hst, h2], h3, by simp only [List.length_cons]; omega⟩
          intro v hv
          rcases List.mem_cons.mp hv with rfl | hv
          · exact hu
          · exact h1 v hv
  exact key s.measure s rfl

/-! ### non-vacuity (anonymous `example`s over the witnesses `diamondNet` / `diamondPath`, `sideNet` / `sidePath`): wired nets
satisfy the hypotheses -/

def oneToOne (nd n : Nat) : List SInstr :=
  (List.replicate n ((List.range nd).map SInstr.read ++ [SInstr.emit])).flatten ++ (List.range nd).map SInstr.read

/-- a DIAMOND `ss → da, db → tt` with a saver on `da` -/
def diamond (n : Nat) : Components :=
  { plugins := [("tt", 3), ("da", 1), ("db", 2), ("ss", 0)],
    defs := [{ cls := "Src", provides := ["ss"], dependsOn := [], prog := List.replicate n .emit },
             { cls := "A", provides := ["da"], dependsOn := ["ss"], prog := oneToOne 1 n },
             { cls := "B", provides := ["db"], dependsOn := ["ss"], prog := oneToOne 1 n },
             { cls := "T", provides := ["tt"], dependsOn := ["da", "db"], prog := oneToOne 2 n }],
    loaders := [], savers := [("da", [{}])], targets := ["tt"] }

/-- a TREE with a multi-output plugin: `ss → MO(xx, yy, zz)`, `xx → tt`, `yy` saved (flows freely), `zz` discarded -/
def sideOutputs (n : Nat) : Components :=
  { plugins := [("tt", 2), ("xx", 1), ("ss", 0)],
    defs := [{ cls := "Src", provides := ["ss"], dependsOn := [], prog := List.replicate n .emit },
             { cls := "MO", provides := ["xx", "yy", "zz"], dependsOn := ["ss"], prog := oneToOne 1 n },
             { cls := "T", provides := ["tt"], dependsOn := ["xx"], prog := oneToOne 1 n }],
    loaders := [], savers := [("yy", [{}])], targets := ["tt"] }

def diamondNet : Net := wire (diamond 3) { allowLazy := false, maxMessages := 2 } .drain
def sideNet : Net := wire (sideOutputs 3) { allowLazy := true, maxMessages := 3 } .drain

/-- mailboxes tt, da, db, ss; threads build:tt, build:da, save_0:da, build:db, build:ss, main.  The path ss → da → tt -/
def diamondPath : List Link :=
  [{ t := 1, mi := 3, si := 0, mo := 1, lag := 1, lagR := 0 }, { t := 0, mi := 1, si := 0, mo := 0, lag := 1, lagR := 0 }]

example : pathOk diamondNet 3 diamondPath 0 0 = true ∧ soleReader diamondNet 5 0 0 = true ∧
    pathBound diamondNet 3 diamondPath = 12 := by decide +kernel

/-- mailboxes tt, xx, MO_divide_outputs, ss, yy, zz; threads build:tt, divide_outputs:xx, the divider, build:ss, save_0:yy,
discard_zz, main.  The path ss → MO_divide_outputs → xx → tt (lazy net) -/
def sidePath : List Link :=
  [{ t := 1, mi := 3, si := 0, mo := 2, lag := 1, lagR := 0 }, { t := 2, mi := 2, si := 0, mo := 1, lag := 1, lagR := 0 },
   { t := 0, mi := 1, si := 0, mo := 0, lag := 1, lagR := 0 }]

example : pathOk sideNet 3 sidePath 0 0 = true ∧ soleReader sideNet 6 0 0 = true ∧ pathBound sideNet 3 sidePath = 24 := by
  decide +kernel

/-- the senders of the lazy net satisfy `senderOk`: build:ss → ss, divide_outputs:xx → MO_divide_outputs, the divider → xx
(gated) — but not → yy (flow-freely: the divider does not gate on it) -/
example : senderOk sideNet 3 3 = true ∧ senderOk sideNet 1 2 = true ∧ senderOk sideNet 2 1 = true ∧ senderOk sideNet 0 0 = true ∧
    senderOk sideNet 2 4 = false := by decide +kernel

/-- states with traffic are reachable: the source of the diamond has sent two chunks, nothing has reached the consumer -/
example : (run? diamondNet (init diamondNet) [4, 4]).map (fun s => (sentInto s 3, delivered s 0 0)) = some (2, 0) := by
  decide +kernel

end Strax.C13
