import StraxModel.Lemmas.IntervalAlgos
import StraxModel.Generated.OverlapIndices
/-
  C17 — interval primitives agree with their set-theoretic definitions.

  Theorems have the form `algorithm = direct quadratic definition` under the documented precondition, for all inputs
  (no bound on sizes).  Models: `Model/IntervalAlgos.lean`; definitions (`fcInSpec`, `touchSpec`, `overlapSpec`,
  `findBreakSpec`, …) and helper lemmas: `Lemmas/IntervalAlgos.lean`.  Hypotheses are the Boolean deciders the model
  (and the real `_check_*` helpers) evaluate.  Everything is at full strength except the `sort_by_time` statements that
  end in `_partial`: they assume `sortRegular` (excludes the float-guard band, open finding
  C17-sort-guard-band-key-wrap) and / or the fast path (stability fails on the slow path, open finding
  C17-sort-slow-path-not-stable); each excluded region has a `…_counterexample` proved by `decide`.  `sort_by_time`
  is modelled as computed (float64 guard, wrapping int64 key, D33-fixed integer `np.ones`).
-/
namespace Strax.C17
open Strax Strax.IntervalAlgos

/-! ### fully_contained_in -/

/-- `fully_contained_in` returns, for every thing, the index of the first container that contains it as a subset
(`b.time ≤ a.time ∧ a.endt ≤ b.endt`), or `-1`: containers sorted and non-overlapping, things sorted and of
positive length. -/
theorem fcIn_spec (things containers : List Row)
    (ht : sortedByTimeB things = true) (hc : sortedByTimeB containers = true)
    (hn : nonOverlapB containers = true) (hpt : positiveRowsB things = true) (hnc : nonNegB containers = true) :
    fullyContainedIn things containers = .ok (fcInSpec subsetOf things containers) := by
  have hnt : nonNegB things = true :=
    nonNegB_iff.2 fun r hr => Int.le_of_lt (positiveRowsB_iff.1 hpt r hr)
  rw [fullyContainedIn_eq_spec ht hc hnt hnc hn, fcInSpec_congr hpt]

/-- the same for every input the wrapper accepts (zero-length things allowed): a zero-length thing `[t,t)` is
located like the instant `t`, i.e. `containedIn a b = b.time ≤ a.time ∧ a.endt ≤ b.endt ∧ a.time < b.endt`. -/
theorem fcIn_spec_instant (things containers : List Row)
    (ht : sortedByTimeB things = true) (hc : sortedByTimeB containers = true)
    (hn : nonOverlapB containers = true) (hnt : nonNegB things = true) (hnc : nonNegB containers = true) :
    fullyContainedIn things containers = .ok (fcInSpec containedIn things containers) :=
  fullyContainedIn_eq_spec ht hc hnt hnc hn

/-- the jitted core `_fully_contained_in` needs neither non-negative lengths nor the wrapper -/
theorem fcIn_core_spec (things containers : List Row)
    (ht : sortedByTimeB things = true) (hc : sortedByTimeB containers = true) (hn : nonOverlapB containers = true) :
    fcInCore things containers = fcInSpec containedIn things containers :=
  fcInCore_eq_spec ht hc hn

/-- The instant reading is forced by the code: with the plain subset relation the statement is false for a
zero-length thing that sits on the exclusive end of a container (`[5,5)` against `[0,5)` gives `-1`). -/
theorem fcIn_zero_length_counterexample :
    fullyContainedIn [⟨5, 5, 0⟩] [⟨0, 5, 0⟩] ≠ .ok (fcInSpec subsetOf [⟨5, 5, 0⟩] [⟨0, 5, 0⟩]) := by
  decide

example : sortedByTimeB [⟨0, 2, 0⟩, ⟨2, 3, 1⟩, ⟨6, 7, 2⟩] = true ∧ positiveRowsB [⟨0, 2, 0⟩, ⟨2, 3, 1⟩, ⟨6, 7, 2⟩] = true ∧
    sortedByTimeB [⟨0, 3, 0⟩, ⟨3, 5, 1⟩, ⟨6, 9, 2⟩] = true ∧ nonOverlapB [⟨0, 3, 0⟩, ⟨3, 5, 1⟩, ⟨6, 9, 2⟩] = true ∧
    nonNegB [⟨0, 3, 0⟩, ⟨3, 5, 1⟩, ⟨6, 9, 2⟩] = true ∧
    fullyContainedIn [⟨0, 2, 0⟩, ⟨2, 3, 1⟩, ⟨6, 7, 2⟩] [⟨0, 3, 0⟩, ⟨3, 5, 1⟩, ⟨6, 9, 2⟩] = .ok [0, 0, 2] := by decide

/-! ### split_by_containment -/

/-- `split_by_containment` returns one list per container holding, in order, exactly the things that container
contains — through `np.diff`, `_split`, `np.unique`, `_get_empty_container_ids` and the `insert` loop.  Same
precondition as `fcIn_spec`. -/
theorem split_by_containment_spec (things containers : List Row)
    (ht : sortedByTimeB things = true) (hc : sortedByTimeB containers = true)
    (hn : nonOverlapB containers = true) (hpt : positiveRowsB things = true) (hnc : nonNegB containers = true) :
    splitByContainment things containers = .ok (splitSpec subsetOf things containers) := by
  have hnt : nonNegB things = true :=
    nonNegB_iff.2 fun r hr => Int.le_of_lt (positiveRowsB_iff.1 hpt r hr)
  rw [splitByContainment_eq_spec ht hc hnt hnc hn, splitSpec_congr hpt]

/-- zero-length things allowed, with the instant reading of containment (see `fcIn_spec_instant`) -/
theorem split_by_containment_spec_instant (things containers : List Row)
    (ht : sortedByTimeB things = true) (hc : sortedByTimeB containers = true)
    (hn : nonOverlapB containers = true) (hnt : nonNegB things = true) (hnc : nonNegB containers = true) :
    splitByContainment things containers = .ok (splitSpec containedIn things containers) :=
  splitByContainment_eq_spec ht hc hnt hnc hn

example : splitByContainment [⟨0, 2, 0⟩, ⟨2, 3, 1⟩, ⟨4, 8, 2⟩, ⟨6, 7, 3⟩] [⟨0, 3, 0⟩, ⟨3, 5, 1⟩, ⟨6, 9, 2⟩] =
    .ok [[⟨0, 2, 0⟩, ⟨2, 3, 1⟩], [], [⟨6, 7, 3⟩]] := by decide

/-! ### diff -/

/-- `strax.diff`: entry `i` is the start of row `i+1` minus the running maximum of the ends of rows `0..i`; any input -/
theorem diff_spec (rows : List Row) : diffGaps rows = diffSpec rows :=
  diffGaps_eq_spec rows

/-! ### touching_windows -/

/-- `touching_windows` returns for every container `(l, r)` with `l` = number of things that end at or before
`c.time - window` and `r` = number of things that start before `c.endt + window`; any window, also negative.
Things sorted by time and by endtime, containers sorted by time (they may overlap), non-negative lengths. -/
theorem touching_windows_spec (things containers : List Row) (window : Int)
    (ht : sortedByTimeB things = true) (he : sortedByEndB things = true) (hc : sortedByTimeB containers = true)
    (hnt : nonNegB things = true) (hnc : nonNegB containers = true) :
    touchingWindows things containers window = .ok (touchSpec things containers window) :=
  touchingWindows_eq_spec window ht he hc hnt hnc

/-- … and the half-open index range `[l, r)` of that definition is exactly the set of things that reach to within
`window` of the container (`c.time - window < x.endt ∧ x.time < c.endt + window`). -/
theorem touching_windows_mem (things : List Row) (c : Row) (window : Int)
    (ht : sortedByTimeB things = true) (he : sortedByEndB things = true) (k : Nat) (hk : k < things.length) :
    (things.countP (fun x => decide (x.endt ≤ c.time - window)) ≤ k ∧
      k < things.countP (fun x => decide (x.time < c.endt + window))) ↔ touches things[k] c window :=
  touching_window_mem c window ht he k hk

/-- the jitted core `_touching_windows` -/
theorem touching_windows_core_spec (things containers : List Row) (window : Int)
    (ht : sortedByTimeB things = true) (he : sortedByEndB things = true) (hc : sortedByTimeB containers = true) :
    touchingWindowsCore things containers window = touchSpec things containers window :=
  touchingWindowsCore_eq_spec window hc ht he

/-- non-vacuity: the hypotheses hold on a concrete instance with overlapping containers and a negative window, and
the statement computes its answer (`mergeSort` does not reduce by `decide`, so the instance goes through it) -/
example : touchingWindows [⟨0, 2, 0⟩, ⟨1, 4, 1⟩, ⟨6, 7, 2⟩] [⟨2, 9, 0⟩, ⟨3, 5, 1⟩] (-1) = .ok [(1, 3), (2, 2)] := by
  rw [touching_windows_spec _ _ _ (by decide) (by decide) (by decide) (by decide) (by decide)]
  decide

/-! ### overlap_indices -/

/-- pure arithmetic: the returned index ranges are those of `[a1, a1+n_a) ∩ [b1, b1+n_b)`, zeros when it is empty -/
theorem overlap_indices_spec (a1 nA b1 nB : Int) (ha : 0 ≤ nA) (hb : 0 ≤ nB) :
    overlapIndices a1 nA b1 nB = .ok (overlapSpec a1 nA b1 nB) :=
  overlapIndices_eq_spec a1 nA b1 nB ha hb

theorem overlap_indices_rejects_negative (a1 nA b1 nB : Int) (h : nA < 0 ∨ nB < 0) :
    overlapIndices a1 nA b1 nB = .error Err.valueError := by
  simp [overlapIndices, h]; rfl

/-- translator tie: the definition regenerated from the current Python source of `overlap_indices` (step 0 of the
check, `Generated/OverlapIndices.lean`) is the hand-written model, so `overlap_indices_spec` holds of what the code says now -/
theorem overlap_generated_eq_model : Generated.overlapIndices = overlapIndices := by
  funext a1 nA b1 nB
  unfold Generated.overlapIndices overlapIndices
  try simp only [pure, Except.pure, throw, throwThe, MonadExceptOf.throw]
  all_goals grind

theorem overlap_indices_spec_generated (a1 nA b1 nB : Int) (ha : 0 ≤ nA) (hb : 0 ≤ nB) :
    Generated.overlapIndices a1 nA b1 nB = .ok (overlapSpec a1 nA b1 nB) := by
  rw [overlap_generated_eq_model]; exact overlapIndices_eq_spec a1 nA b1 nB ha hb

example : overlapIndices 0 5 3 5 = .ok ((3, 5), (0, 2)) := by decide

/-! ### _find_break_i -/

/-- `_find_break_i` returns the first index `i ≥ 1` whose row starts at least `safe_break` after the running maximum
of `not_before` and all earlier ends, and raises `NoBreakFound` iff there is none; any input with at least two rows. -/
theorem find_break_spec (data : List Row) (safeBreak notBefore : Int) (h : 2 ≤ data.length) :
    findBreakI data safeBreak notBefore = findBreakSpec data safeBreak notBefore :=
  findBreakI_eq_spec data safeBreak notBefore h

example : findBreakI [⟨0, 2, 0⟩, ⟨1, 5, 1⟩, ⟨6, 7, 2⟩, ⟨9, 10, 3⟩] 2 0 = .ok 3 ∧
    findBreakI [⟨0, 2, 0⟩, ⟨1, 5, 1⟩, ⟨6, 7, 2⟩, ⟨9, 10, 3⟩] 2 8 = .error Err.noBreakFound := by decide

/-- `from_break` (not tolerant, at least two rows) returns the rows on the requested side of that first break and
the start time of the row right of it, and fails exactly when `_find_break_i` does; the index is always in range. -/
theorem from_break_spec (x : List Row) (safeBreak notBefore : Int) (left : Bool) (h : 2 ≤ x.length) :
    (∀ i, findBreakSpec x safeBreak notBefore = .ok i → ∃ r, x[i]? = some r ∧
      fromBreak x safeBreak notBefore left false = .ok (if left then x.take i else x.drop i, r.time)) ∧
    (∀ e, findBreakSpec x safeBreak notBefore = .error e → fromBreak x safeBreak notBefore left false = .error e) :=
  fromBreak_eq x safeBreak notBefore left h

/-! ### abs_time_to_prev_next_interval -/

/-- `abs_time_to_prev_next_interval` returns for every thing the distance from its start back to the nearest interval
end at or before it and from its end forward to the nearest interval start at or after it (`-1` when there is none).
Intervals sorted, non-overlapping and of positive length; things sorted by time with non-negative length.  The proof
shows that the documented "things do not overlap" is not needed: `max(0, seen - 1)` already keeps the pointer at most
one interval behind for any time-sorted things. -/
theorem prev_next_spec (things intervals : List Row)
    (ht : sortedByTimeB things = true) (hnt : nonNegB things = true)
    (hs : sortedByTimeB intervals = true) (hn : nonOverlapB intervals = true) (hp : positiveRowsB intervals = true) :
    absTimeToPrevNext things intervals = .ok (prevNextSpec things intervals) :=
  absTimeToPrevNext_eq_spec ht hnt hs hn hp

example : sortedByTimeB [⟨4, 6, 0⟩, ⟨5, 9, 1⟩] = true ∧ nonNegB [⟨4, 6, 0⟩, ⟨5, 9, 1⟩] = true ∧
    sortedByTimeB [⟨0, 2, 0⟩, ⟨2, 4, 1⟩, ⟨8, 9, 2⟩, ⟨12, 13, 3⟩] = true ∧
    nonOverlapB [⟨0, 2, 0⟩, ⟨2, 4, 1⟩, ⟨8, 9, 2⟩, ⟨12, 13, 3⟩] = true ∧
    positiveRowsB [⟨0, 2, 0⟩, ⟨2, 4, 1⟩, ⟨8, 9, 2⟩, ⟨12, 13, 3⟩] = true ∧
    absTimeToPrevNext [⟨4, 6, 0⟩, ⟨5, 9, 1⟩] [⟨0, 2, 0⟩, ⟨2, 4, 1⟩, ⟨8, 9, 2⟩, ⟨12, 13, 3⟩] = .ok [(0, 2), (1, 3)] := by
  decide

/-! ### sort_by_time

The model `sortByTime` is what the code computes: guard in float64 (`sortTooLargeFloat`), composite key in int64
(`sortKeysW`, wraps), slow path `np.sort(order=…)`.  `sortRegular h x` (decidable) says that on `x` the float guard
decides like the exact one (`span * (maxChannel + 1) > 2^63 - 11`) and no int64 operation wraps.  It excludes only a
band of relative width ≈ 2⁻⁵² around `span * (maxChannel + 1) = 2^63` (and spans ≥ 2^63); inside the band the code
takes the fast path with a wrapped key and returns an unsorted array (`sort_guard_band_counterexample`), so the
statements below are `_partial` where they need it. -/

/-- every path, every input: the result is a permutation of the input -/
theorem sort_perm (hasChannel : Bool) (x : List CRow) : (sortByTime hasChannel x).Perm x :=
  sortByTime_perm hasChannel x

/-- outside the guard band, on the fast path (`sortSpanTooLarge = false`), the composite-key argsort *is* the stable
merge sort by (time, channel) — by time alone when the array has no channel field -/
theorem sort_eq_stable_lexicographic_partial (hasChannel : Bool) (x : List CRow)
    (hreg : sortRegular hasChannel x = true) (hok : sortSpanTooLarge hasChannel x = false) :
    sortByTime hasChannel x = x.mergeSort (lexLeB hasChannel) := by
  rw [sortByTime_eq_exact hreg]; exact sortByTimeExact_fast hok

/- Full statement (FALSE for the code as it is): ∀ x, the result is sorted by (time, channel).
   Missing part: the guard band excluded by `sortRegular` (see `sort_guard_band_counterexample`). -/
/-- outside the guard band, on both paths: the result is sorted by (time, channel) -/
theorem sort_sorted_partial (hasChannel : Bool) (x : List CRow) (hreg : sortRegular hasChannel x = true) :
    (sortByTime hasChannel x).Pairwise (fun a b => lexLeB hasChannel a b = true) := by
  rw [sortByTime_eq_exact hreg]; exact (sortByTimeExact_perm_sorted hasChannel x).2

/- Full statement (FALSE for the code as it is, see `sort_stable_counterexample`):
     ∀ x, perm ∧ sorted ∧ every already ordered subsequence of the input keeps its order in the output.
   Missing parts: stability on the slow path (`np.sort(order=…)` breaks ties with the remaining fields) and the
   guard band. -/
/-- … and on the fast path it is stable: every subsequence of the input that is already in order (in particular any
rows with equal time and channel) appears in the output in the same order. -/
theorem sort_stable_perm_sorted_partial (hasChannel : Bool) (x : List CRow)
    (hreg : sortRegular hasChannel x = true) (hok : sortSpanTooLarge hasChannel x = false) :
    (sortByTime hasChannel x).Perm x ∧
    (sortByTime hasChannel x).Pairwise (fun a b => lexLeB hasChannel a b = true) ∧
    (∀ ys : List CRow, ys.Pairwise (fun a b => lexLeB hasChannel a b = true) → ys.Sublist x →
      ys.Sublist (sortByTime hasChannel x)) := by
  rw [sortByTime_eq_exact hreg, sortByTimeExact_fast hok]
  exact ⟨List.mergeSort_perm _ _,
    List.pairwise_mergeSort (lexLeB_trans hasChannel) (lexLeB_total hasChannel) x,
    fun ys h1 h2 => List.sublist_mergeSort (lexLeB_trans hasChannel) (lexLeB_total hasChannel) h1 h2⟩

/-- outside the guard band, the slow path (`np.sort(x, kind="mergesort", order=("time", "channel"))`) orders by (time,
channel, remaining fields).  Missing part: inputs inside the float-guard band excluded by `sortRegular`, where the code
does not even take this path although the exact guard says it should (`sort_guard_band_counterexample`). -/
theorem sort_slow_path_spec_partial (hasChannel : Bool) (x : List CRow)
    (hreg : sortRegular hasChannel x = true) (hbig : sortSpanTooLarge hasChannel x = true) :
    sortByTime hasChannel x = isort (lexAllLeB hasChannel) x := by
  rw [sortByTime_eq_exact hreg]; exact sortByTimeExact_slow hbig

/-- negation witness of stability: with a time span of 5·10^18 ns and two channels the slow path is taken and two rows
with the same (time, channel) come out in the order of their other fields, not in input order (replayed on the real
code: known finding `C17-sort-slow-path-not-stable`). -/
theorem sort_stable_counterexample :
    sortRegular true [⟨0, 1, 3⟩, ⟨0, 1, 2⟩, ⟨5000000000000000000, 0, 1⟩] = true ∧
    sortSpanTooLarge true [⟨0, 1, 3⟩, ⟨0, 1, 2⟩, ⟨5000000000000000000, 0, 1⟩] = true ∧
    sortByTime true [⟨0, 1, 3⟩, ⟨0, 1, 2⟩, ⟨5000000000000000000, 0, 1⟩] =
      [⟨0, 1, 2⟩, ⟨0, 1, 3⟩, ⟨5000000000000000000, 0, 1⟩] ∧
    ¬ [(⟨0, 1, 3⟩ : CRow), ⟨0, 1, 2⟩].Sublist (sortByTime true [⟨0, 1, 3⟩, ⟨0, 1, 2⟩, ⟨5000000000000000000, 0, 1⟩]) := by
  decide

/-- negation witness of sortedness inside the guard band: span 2^62 + 100 with two channel values.  The float guard
(`2^62 + 100` rounds to `2^62`, not larger than `2^63 / 2`) keeps the fast path, the int64 key of the last row wraps to
`-2^63 + 201`, and the array is returned with time 4611686018427388004 in front of times 0 and 5 (same on the real
code; such spans are ≈ 146 years). -/
theorem sort_guard_band_counterexample :
    sortRegular true [⟨4611686018427388004, 1, 0⟩, ⟨0, 0, 1⟩, ⟨5, 1, 2⟩] = false ∧
    sortByTime true [⟨4611686018427388004, 1, 0⟩, ⟨0, 0, 1⟩, ⟨5, 1, 2⟩] =
      [⟨4611686018427388004, 1, 0⟩, ⟨0, 0, 1⟩, ⟨5, 1, 2⟩] ∧
    ¬ ([⟨4611686018427388004, 1, 0⟩, ⟨0, 0, 1⟩, ⟨5, 1, 2⟩] : List CRow).Pairwise (fun a b => lexLeB true a b = true) := by
  refine ⟨by decide, ?_, by decide⟩
  have hg : sortTooLargeFloat true [⟨4611686018427388004, 1, 0⟩, ⟨0, 0, 1⟩, ⟨5, 1, 2⟩] = false := by decide
  have hk : sortKeysW true [⟨4611686018427388004, 1, 0⟩, ⟨0, 0, 1⟩, ⟨5, 1, 2⟩] = [-9223372036854775607, 0, 11] := by decide
  simp only [sortByTime, hg, Bool.false_eq_true, ite_false, sortByTimeFastW, hk]
  rw [List.mergeSort_of_pairwise (by decide)]
  rfl

/-- the code before the D33 fix (`channel = np.ones(len(x))`, a float64 array, when there is no channel field): the key
`(time - tmin) * 2.0 + 1.0` collapses neighbouring times beyond 2^53 ns, so times `(2^53+1, 2^53, 0)` came back as
`(0, 2^53+1, 2^53)` — not sorted; the fixed code (int64 key, `sortByTime`) sorts them -/
theorem sort_no_channel_old_counterexample :
    sortByTimeOldNoChannel [⟨9007199254740993, 0, 0⟩, ⟨9007199254740992, 0, 1⟩, ⟨0, 0, 2⟩] =
      [⟨0, 0, 2⟩, ⟨9007199254740993, 0, 0⟩, ⟨9007199254740992, 0, 1⟩] ∧
    sortRegular false [⟨9007199254740993, 0, 0⟩, ⟨9007199254740992, 0, 1⟩, ⟨0, 0, 2⟩] = true ∧
    (sortByTime false [⟨9007199254740993, 0, 0⟩, ⟨9007199254740992, 0, 1⟩, ⟨0, 0, 2⟩]).Pairwise
      (fun a b => lexLeB false a b = true) :=
  ⟨by decide, by decide, sort_sorted_partial false _ (by decide)⟩

/-- two rows with the same (time, channel) keep their input order on the fast path (`mergeSort` does not reduce by
`decide`, so the instance goes through the statement above) -/
example : [(⟨5, 1, 0⟩ : CRow), ⟨5, 1, 3⟩].Sublist (sortByTime true [⟨5, 1, 0⟩, ⟨3, 2, 1⟩, ⟨3, -1, 2⟩, ⟨5, 1, 3⟩]) :=
  (sort_stable_perm_sorted_partial true _ (by decide) (by decide)).2.2 _ (by decide) (by decide)

/-! ### sort_enforcement.py -/

/-- any sort kind other than `"mergesort"` is rejected (`SortingError`) by `stable_sort`, `stable_argsort` and by the two
kernels that take a sort kind -/
theorem unstable_sort_kind_rejected (kind : String) (hk : kind ≠ "mergesort") (arr : List Int) (hasChannel : Bool)
    (x : List CRow) (things containers : List Row) (window : Int) :
    stableArgsort kind arr = none ∧ stableSort kind arr = none ∧ sortByTimeAndChannelKind kind hasChannel x = none ∧
    touchingWindowsCoreKind kind things containers window = none :=
  sort_kind_rejected hk arr hasChannel x things containers window

/-- with `"mergesort"`, `stable_sort` returns a sorted permutation and `stable_argsort` the indices of the stable merge
sort (a permutation of `0..n-1`; keys sorted; already ordered subsequences, in particular equal keys, keep their order) -/
theorem stable_sort_spec (arr : List Int) :
    (∃ out, stableSort "mergesort" arr = some out ∧ out.Perm arr ∧ out.Pairwise (· ≤ ·)) ∧
    (let sorted := arr.zipIdx.mergeSort fun p q => decide (p.1 ≤ q.1)
     stableArgsort "mergesort" arr = some (sorted.map (·.2)) ∧ (sorted.map (·.2)).Perm (List.range arr.length) ∧
      sorted.Pairwise (fun p q => p.1 ≤ q.1) ∧
      ∀ ys : List (Int × Nat), ys.Pairwise (fun p q => p.1 ≤ q.1) → ys.Sublist arr.zipIdx → ys.Sublist sorted) :=
  ⟨stableSort_mergesort arr, stableArgsort_mergesort arr⟩

/-! ### split_touching_windows -/

/-- `split_touching_windows` (pure slicing of the windows of `touching_windows`) returns for every container exactly
the things that reach to within `window` of it, in order; same precondition as `touching_windows_spec` -/
theorem split_touching_windows_spec (things containers : List Row) (window : Int)
    (ht : sortedByTimeB things = true) (he : sortedByEndB things = true) (hc : sortedByTimeB containers = true)
    (hnt : nonNegB things = true) (hnc : nonNegB containers = true) :
    splitTouchingWindows things containers window = .ok (splitTouchSpec things containers window) :=
  splitTouchingWindows_eq_spec window ht he hc hnt hnc

/-! ### translation invariance (why epoch-scale timestamps cannot change an answer of the model) -/

/-- shifting every time of both arrays by the same `d` (and `not_before`, `a1`/`b1` likewise) leaves every answer of
the model unchanged; the real code is compared with the model at `d = 1_700_000_000_000_000_137` by the check -/
theorem translation_invariant (d : Int) (things containers : List Row) (window safeBreak notBefore : Int) :
    fullyContainedIn (shiftRows d things) (shiftRows d containers) = fullyContainedIn things containers ∧
    touchingWindows (shiftRows d things) (shiftRows d containers) window = touchingWindows things containers window ∧
    absTimeToPrevNext (shiftRows d things) (shiftRows d containers) = absTimeToPrevNext things containers ∧
    diffGaps (shiftRows d things) = diffGaps things ∧
    findBreakI (shiftRows d things) safeBreak (notBefore + d) = findBreakI things safeBreak notBefore :=
  ⟨fullyContainedIn_shift d things containers, touchingWindows_shift d window things containers,
    absTimeToPrevNext_shift d things containers, diffGaps_shift d things, findBreakI_shift d safeBreak notBefore things⟩

theorem translation_invariant_overlap (d a1 nA b1 nB : Int) :
    overlapIndices (a1 + d) nA (b1 + d) nB = overlapIndices a1 nA b1 nB :=
  overlapIndices_shift d a1 nA b1 nB

/-- `sort_by_time` commutes with a shift of all times when both the input and the shifted input are outside the guard
band.  Missing part: the band excluded by `sortRegular` (there the wrapped int64 key is still shift-invariant over
unbounded `Int`, but this is not proved), and `sortRegular` of the shifted input is assumed rather than derived. -/
theorem translation_invariant_sort_partial (d : Int) (hasChannel : Bool) (x : List CRow)
    (hreg : sortRegular hasChannel x = true) (hreg' : sortRegular hasChannel (x.map (shiftC d)) = true) :
    sortByTime hasChannel (x.map (shiftC d)) = (sortByTime hasChannel x).map (shiftC d) := by
  rw [sortByTime_eq_exact hreg, sortByTime_eq_exact hreg']; exact sortByTimeExact_shift d hasChannel x

/-! ### inputs violating sortedness are rejected -/

/-- the checking wrappers answer `ValueError`, never a value, on an unsorted things / containers array or on a
negative length -/
theorem unsorted_rejected (things containers : List Row) (window : Int)
    (h : sortedByTimeB things = false ∨ sortedByTimeB containers = false ∨ nonNegB things = false ∨
      nonNegB containers = false) :
    fullyContainedIn things containers = .error Err.valueError ∧
    splitByContainment things containers = .error Err.valueError ∧
    touchingWindows things containers window = .error Err.valueError := by
  refine ⟨?_, ?_, touchingWindows_error window h⟩
  · simp only [fullyContainedIn, sanity_error h]
  · simp only [splitByContainment, sanity_error h]

/-- `abs_time_to_prev_next_interval` rejects unsorted things or intervals (it has no length check) -/
theorem unsorted_rejected_prev_next (things intervals : List Row)
    (h : sortedByTimeB things = false ∨ sortedByTimeB intervals = false) :
    absTimeToPrevNext things intervals = .error Err.valueError :=
  absTimeToPrevNext_error h

example : sortedByTimeB [⟨3, 4, 0⟩, ⟨2, 3, 1⟩] = false ∧ nonNegB [⟨3, 2, 0⟩] = false := by decide

end Strax.C17
