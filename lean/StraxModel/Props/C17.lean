import StraxModel.Lemmas.IntervalAlgos
/-
  C17 — interval primitives agree with their set-theoretic definitions.

  Every theorem has the form `algorithm = direct quadratic definition` under the documented precondition, for all
  inputs (no bound on sizes).  Models: `Model/IntervalAlgos.lean`; definitions (`fcInSpec`, `touchSpec`, `overlapSpec`,
  `findBreakSpec`, …) and helper lemmas: `Lemmas/IntervalAlgos.lean`.  Hypotheses are the Boolean deciders the model
  (and the real `_check_*` helpers) evaluate.
-/
namespace Strax.C17
open Strax Strax.IntervalAlgos

/-! ### fully_contained_in -/

/-- `fully_contained_in` returns, for every thing, the index of the first container that contains it as a subset
(`b.time ≤ a.time ∧ a.endt ≤ b.endt`), or `-1`: containers sorted and non-overlapping, things sorted and of
positive length. -/
theorem fcIn_spec (things containers : List Row)
    (ht : sortedByTimeB things = true) (hc : sortedByTimeB containers = true)
    (hn : nonOverlapB containers = true) (hpt : positiveRowsB things = true) (hnc : nonNegB containers = true) :
    fullyContainedIn things containers = .ok (fcInSpec subsetOf things containers) := by
  have hnt : nonNegB things = true :=
    nonNegB_iff.2 fun r hr => Int.le_of_lt (positiveRowsB_iff.1 hpt r hr)
  rw [fullyContainedIn_eq_spec ht hc hnt hnc hn, fcInSpec_congr hpt]

/-- the same for every input the wrapper accepts (zero-length things allowed): a zero-length thing `[t,t)` is
located like the instant `t`, i.e. `containedIn a b = b.time ≤ a.time ∧ a.endt ≤ b.endt ∧ a.time < b.endt`. -/
theorem fcIn_spec_instant (things containers : List Row)
    (ht : sortedByTimeB things = true) (hc : sortedByTimeB containers = true)
    (hn : nonOverlapB containers = true) (hnt : nonNegB things = true) (hnc : nonNegB containers = true) :
    fullyContainedIn things containers = .ok (fcInSpec containedIn things containers) :=
  fullyContainedIn_eq_spec ht hc hnt hnc hn

/-- the jitted core `_fully_contained_in` needs neither non-negative lengths nor the wrapper -/
theorem fcIn_core_spec (things containers : List Row)
    (ht : sortedByTimeB things = true) (hc : sortedByTimeB containers = true) (hn : nonOverlapB containers = true) :
    fcInCore things containers = fcInSpec containedIn things containers :=
  fcInCore_eq_spec ht hc hn

/-- The instant reading is forced by the code: with the plain subset relation the statement is false for a
zero-length thing that sits on the exclusive end of a container (`[5,5)` against `[0,5)` gives `-1`). -/
theorem fcIn_zero_length_counterexample :
    fullyContainedIn [⟨5, 5, 0⟩] [⟨0, 5, 0⟩] ≠ .ok (fcInSpec subsetOf [⟨5, 5, 0⟩] [⟨0, 5, 0⟩]) := by
  decide

example : sortedByTimeB [⟨0, 2, 0⟩, ⟨2, 3, 1⟩, ⟨6, 7, 2⟩] = true ∧ positiveRowsB [⟨0, 2, 0⟩, ⟨2, 3, 1⟩, ⟨6, 7, 2⟩] = true ∧
    sortedByTimeB [⟨0, 3, 0⟩, ⟨3, 5, 1⟩, ⟨6, 9, 2⟩] = true ∧ nonOverlapB [⟨0, 3, 0⟩, ⟨3, 5, 1⟩, ⟨6, 9, 2⟩] = true ∧
    nonNegB [⟨0, 3, 0⟩, ⟨3, 5, 1⟩, ⟨6, 9, 2⟩] = true ∧
    fullyContainedIn [⟨0, 2, 0⟩, ⟨2, 3, 1⟩, ⟨6, 7, 2⟩] [⟨0, 3, 0⟩, ⟨3, 5, 1⟩, ⟨6, 9, 2⟩] = .ok [0, 0, 2] := by decide

/-! ### touching_windows -/

/-- `touching_windows` returns for every container `(l, r)` with `l` = number of things that end at or before
`c.time - window` and `r` = number of things that start before `c.endt + window`; any window, also negative.
Things sorted by time and by endtime, containers sorted by time (they may overlap), non-negative lengths. -/
theorem touching_windows_spec (things containers : List Row) (window : Int)
    (ht : sortedByTimeB things = true) (he : sortedByEndB things = true) (hc : sortedByTimeB containers = true)
    (hnt : nonNegB things = true) (hnc : nonNegB containers = true) :
    touchingWindows things containers window = .ok (touchSpec things containers window) :=
  touchingWindows_eq_spec window ht he hc hnt hnc

/-- … and the half-open index range `[l, r)` of that definition is exactly the set of things that reach to within
`window` of the container (`c.time - window < x.endt ∧ x.time < c.endt + window`). -/
theorem touching_windows_mem (things : List Row) (c : Row) (window : Int)
    (ht : sortedByTimeB things = true) (he : sortedByEndB things = true) (k : Nat) (hk : k < things.length) :
    (things.countP (fun x => decide (x.endt ≤ c.time - window)) ≤ k ∧
      k < things.countP (fun x => decide (x.time < c.endt + window))) ↔ touches things[k] c window :=
  touching_window_mem c window ht he k hk

/-- the jitted core `_touching_windows` -/
theorem touching_windows_core_spec (things containers : List Row) (window : Int)
    (ht : sortedByTimeB things = true) (he : sortedByEndB things = true) (hc : sortedByTimeB containers = true) :
    touchingWindowsCore things containers window = touchSpec things containers window :=
  touchingWindowsCore_eq_spec window hc ht he

/-- non-vacuity: the hypotheses hold on a concrete instance with overlapping containers and a negative window, and the
theorem computes its answer (`mergeSort` does not reduce by `decide`, so the instance goes through the theorem) -/
example : touchingWindows [⟨0, 2, 0⟩, ⟨1, 4, 1⟩, ⟨6, 7, 2⟩] [⟨2, 9, 0⟩, ⟨3, 5, 1⟩] (-1) = .ok [(1, 3), (2, 2)] := by
  rw [touching_windows_spec _ _ _ (by decide) (by decide) (by decide) (by decide) (by decide)]
  decide

/-! ### overlap_indices -/

/-- pure arithmetic: the returned index ranges are those of `[a1, a1+n_a) ∩ [b1, b1+n_b)`, zeros when it is empty -/
theorem overlap_indices_spec (a1 nA b1 nB : Int) (ha : 0 ≤ nA) (hb : 0 ≤ nB) :
    overlapIndices a1 nA b1 nB = .ok (overlapSpec a1 nA b1 nB) :=
  overlapIndices_eq_spec a1 nA b1 nB ha hb

theorem overlap_indices_rejects_negative (a1 nA b1 nB : Int) (h : nA < 0 ∨ nB < 0) :
    overlapIndices a1 nA b1 nB = .error Err.valueError := by
  simp [overlapIndices, h]; rfl

example : overlapIndices 0 5 3 5 = .ok ((3, 5), (0, 2)) := by decide

/-! ### _find_break_i -/

/-- `_find_break_i` returns the first index `i ≥ 1` whose row starts at least `safe_break` after the running maximum
of `not_before` and all earlier ends, and raises `NoBreakFound` iff there is none; any input with at least two rows. -/
theorem find_break_spec (data : List Row) (safeBreak notBefore : Int) (h : 2 ≤ data.length) :
    findBreakI data safeBreak notBefore = findBreakSpec data safeBreak notBefore :=
  findBreakI_eq_spec data safeBreak notBefore h

example : findBreakI [⟨0, 2, 0⟩, ⟨1, 5, 1⟩, ⟨6, 7, 2⟩, ⟨9, 10, 3⟩] 2 0 = .ok 3 ∧
    findBreakI [⟨0, 2, 0⟩, ⟨1, 5, 1⟩, ⟨6, 7, 2⟩, ⟨9, 10, 3⟩] 2 8 = .error Err.noBreakFound := by decide

/-! ### inputs violating sortedness are rejected -/

/-- the checking wrappers answer `ValueError`, never a value, on an unsorted things / containers array or on a
negative length -/
theorem unsorted_rejected (things containers : List Row) (window : Int)
    (h : sortedByTimeB things = false ∨ sortedByTimeB containers = false ∨ nonNegB things = false ∨
      nonNegB containers = false) :
    fullyContainedIn things containers = .error Err.valueError ∧
    splitByContainment things containers = .error Err.valueError ∧
    touchingWindows things containers window = .error Err.valueError := by
  refine ⟨?_, ?_, touchingWindows_error window h⟩
  · simp only [fullyContainedIn, sanity_error h]
  · simp only [splitByContainment, sanity_error h]

example : sortedByTimeB [⟨3, 4, 0⟩, ⟨2, 3, 1⟩] = false ∧ nonNegB [⟨3, 2, 0⟩] = false := by decide

end Strax.C17
