import StraxModel.Model.Basic
namespace Strax.C17
open Strax

end Strax.C17
