import StraxModel.Model.Components
import StraxModel.Generated.CheckCache
/-
  C11, round 5 — the scalar decisions of `check_cache`, `StorageFrontend.find` / `_we_take` / `_support_superruns`
  and `Context._add_saver`, REGENERATED from the Python AST of the current source on every run
  (`checks/props/c11.py:regen_gates` → `Generated/CheckCache.lean`), are proved equal to what the model
  (`Model/Components.lean`) does at the same places.  A change of the order or of the condition of one of those
  branches in /repo changes the generated definition and breaks the matching theorem here.

  * `gen_weTake_*`            `_we_take`                              = `Frontend.weTake`
  * `gen_supportSuperruns_*`  `_support_superruns`                    (always true for a plain run id: why the model may ignore it)
  * `gen_findGate_*`          `find` before the lookup                = the `weTake &&` factor of `Frontend.finds`
  * `gen_addSaverTakes_*`, `writableFor_eq_generated`   `_add_saver`  = the filter of `writableFor`
  * `gen_subrunBranch_plain`  the sub-run collection branch is never entered for plain runs (outside the model, C14)
  * `gen_createGate_eq_model`, `checkCache_via_createGate`   the three "may not be created" tests, in order
  * `gen_saveGate_eq_model`, `saverStep_via_saveGate`        `_temp_` / loaded / write_superruns / policy × multi-output /
                                                              time_range / selection / columns / fuzzy / allow_incomplete, in order
  No theorem here has a hypothesis except `env.rules = Generated.rules` (the model is run with the generated rules; the
  driver does exactly that), which excludes nothing that is ever executed.
-/
namespace Strax.C11
open Strax Strax.Components

/-! ### `_we_take`, `_support_superruns`, `find` -/

theorem gen_weTake_table : ∀ e g k : Bool, Generated.weTake e g k = !(e || (g && !k)) := by decide

/-- the generated `_we_take`, read on a model frontend, is the model's `Frontend.weTake` -/
theorem gen_weTake_eq_model (f : Frontend) (t : String) :
    Generated.weTake (f.exclude.contains t) (!f.takeOnly.isEmpty) (f.takeOnly.contains t) = f.weTake t := by
  rw [gen_weTake_table]; rfl

theorem gen_supportSuperruns_table : ∀ s p : Bool, Generated.supportSuperruns s p = (!s || p) := by decide

/-- for a run id that does not start with `_` the test never rejects: the model (plain runs only) may ignore it -/
theorem gen_supportSuperruns_plain : ∀ p : Bool, Generated.supportSuperruns false p = true := by decide

/-- `find` reaches the lookup iff the frontend takes the type, supports the run and is not asked to write while readonly;
every other outcome is `DataNotAvailable` (which `_get_partial_loader_for` / `_add_saver` swallow) -/
theorem gen_findGate_table (wt ss w ro : Bool) :
    Generated.findGate wt ss w ro = if wt && ss && !(w && ro) then .ok () else .error .dataNotAvailable := by
  cases wt <;> cases ss <;> cases w <;> cases ro <;> rfl

/-- the model's `Frontend.finds` = the generated gate of `find(write=False)` passes ∧ the lookup sees the data -/
theorem finds_via_findGate (f : Frontend) (o : CtxOpts) (t : String) :
    f.finds o t =
      ((match Generated.findGate (Generated.weTake (f.exclude.contains t) (!f.takeOnly.isEmpty) (f.takeOnly.contains t))
                (Generated.supportSuperruns false true) false f.readonly with
        | .ok _ => true | .error _ => false)
       && (f.complete.contains t || (o.allowIncomplete && f.incomplete.contains t) || (o.fuzzy && f.stale.contains t))) := by
  rw [gen_weTake_eq_model, gen_findGate_table]
  unfold Frontend.finds
  cases f.weTake t <;> rfl

/-! ### `_add_saver` -/

theorem gen_addSaverTakes_table (ro wt ss : Bool) :
    Generated.addSaverTakes ro wt ss = .ok (!ro && wt && ss) := by
  cases ro <;> cases wt <;> cases ss <;> rfl

/-- a frontend gets a saver iff it is not readonly and takes the type (plain run) -/
theorem gen_addSaverTakes_eq_model (f : Frontend) (t : String) :
    Generated.addSaverTakes f.readonly (f.weTake t) (Generated.supportSuperruns false true) = .ok (!f.readonly && f.weTake t) := by
  rw [gen_addSaverTakes_table]; cases f.readonly <;> cases f.weTake t <;> rfl

/-- the model's `writableFor` (the frontends of a saver entry) is the generated loop body of `_add_saver` applied to the
sorted storage -/
theorem writableFor_eq_generated (env : Env) (t : String) :
    writableFor env t =
      ((sortedStorage env.fs).filter fun x =>
          match Generated.addSaverTakes x.2.readonly
                  (Generated.weTake (x.2.exclude.contains t) (!x.2.takeOnly.isEmpty) (x.2.takeOnly.contains t))
                  (Generated.supportSuperruns false true) with
          | .ok b => b | .error _ => false).map (·.1) := by
  unfold writableFor
  congr 2
  funext x
  rw [gen_weTake_eq_model, gen_addSaverTakes_eq_model]

/-! ### `check_cache` -/

/-- plain run, not combining: the sub-run collection branch (superruns, C14) is never entered -/
theorem gen_subrunBranch_plain : ∀ l a tmp : Bool, Generated.subrunBranch l false a false tmp = false := by decide

/-- the "may this type be created" checks of `check_cache`, in the order of the source, are the three tests of the model -/
theorem gen_createGate_eq_model (env : Env) (h : env.rules = Generated.rules) (t : String) (pol : SaveWhen) :
    Generated.createGate env.mods.timeRange pol (env.opts.forbid.contains "*") (isTemp t) (env.opts.forbid.contains t) =
      if env.mods.timeRange && decide (pol.toNat > SaveWhen.explicit.toNat) then .error .dataNotAvailable
      else if starForbids env t then .error .dataNotAvailable
      else if env.opts.forbid.contains t then .error .dataNotAvailable
      else .ok () := by
  unfold starForbids
  rw [h]
  cases pol <;> cases env.mods.timeRange <;> cases env.opts.forbid.contains "*" <;> cases isTemp t <;>
    cases env.opts.forbid.contains t <;> rfl

/-- one step of the model's `checkCache`, with the creation checks replaced by the generated gate -/
theorem checkCache_via_createGate (env : Env) (h : env.rules = Generated.rules) (fuel : Nat) (t : String) (st : St) :
    checkCache env (fuel + 1) t st =
      if st.seen.contains t then .ok st
      else
        let st := { st with seen := t :: st.seen }
        match pluginFor env.g t with
        | none => .error .keyError
        | some p =>
          match loaderFor env t with
          | some i => .ok { st with loaders := st.loaders ++ [(t, i)] }
          | none =>
            match p.policy t with
            | none => .error .keyError
            | some pol =>
              match Generated.createGate env.mods.timeRange pol (env.opts.forbid.contains "*") (isTemp t)
                      (env.opts.forbid.contains t) with
              | .error e => .error e
              | .ok () =>
                let st := { st with compute := st.compute ++ [t] }
                match foldDeps (checkCache env fuel) p.dependsOn st with
                | .error e => .error e
                | .ok st => saverStep env p t st := by
  rw [checkCache]
  simp only [gen_createGate_eq_model env h]
  generalize pluginFor env.g t = op
  generalize loaderFor env t = ol
  split
  · rfl
  · cases op with
    | none => rfl
    | some p =>
      cases ol with
      | some i => rfl
      | none =>
        dsimp only
        generalize p.policy t = opol
        cases opol with
        | none => rfl
        | some pol =>
          dsimp only
          generalize (env.mods.timeRange && decide (pol.toNat > SaveWhen.explicit.toNat)) = c1
          generalize starForbids env t = c2
          generalize env.opts.forbid.contains t = c3
          cases c1 <;> cases c2 <;> cases c3 <;> rfl

/-- the generated "is the saver loop reached" decision on the model's domain (plain run: no superrun; the type is not
loaded when `saverStep` is called) -/
theorem gen_saveGate_eq_model (tmp ws should mo tr sel kc dc fz inc : Bool) :
    Generated.saveGate tmp false false ws should mo tr sel kc dc fz inc =
      (!tmp && !(!should && !mo) && !(tr || sel || (kc || dc) || fz || inc)) := by
  cases tmp <;> cases ws <;> cases should <;> cases mo <;> cases tr <;> cases sel <;> cases kc <;> cases dc <;>
    cases fz <;> cases inc <;> rfl

/-- loaded data is never saved again, whatever else holds -/
theorem gen_saveGate_loaded : ∀ tmp s ws should mo tr sel kc dc fz inc : Bool,
    Generated.saveGate tmp true s ws should mo tr sel kc dc fz inc = false := by decide

/-- a partial / fuzzy / incomplete-tolerant request never reaches the saver loop -/
theorem gen_saveGate_partialRequest (tmp l s ws should mo tr sel kc dc fz inc : Bool)
    (h : (tr || sel || kc || dc || fz || inc) = true) :
    Generated.saveGate tmp l s ws should mo tr sel kc dc fz inc = false := by
  revert h
  cases tmp <;> cases l <;> cases s <;> cases ws <;> cases should <;> cases mo <;> cases tr <;> cases sel <;> cases kc <;>
    cases dc <;> cases fz <;> cases inc <;> decide

/-- the model's `saverStep`, with its early returns replaced by the generated gate (`columns` = keep_columns or
drop_columns given) -/
theorem saverStep_via_saveGate (env : Env) (p : Plugin) (t : String) (st : St) :
    saverStep env p t st =
      if isTemp t then .ok st
      else
        match shouldSaveFor env p t with
        | .error e => .error e
        | .ok should =>
          if Generated.saveGate (isTemp t) false false true should p.multiOutput env.mods.timeRange env.mods.selection
               env.mods.columns false env.opts.fuzzy env.opts.allowIncomplete then
            match saverLoop env p p.provides st.savers with
            | .error e => .error e
            | .ok sv => .ok { st with savers := sv }
          else .ok st := by
  unfold saverStep
  simp only [gen_saveGate_eq_model]
  unfold Env.partialReq
  generalize shouldSaveFor env p t = r
  cases isTemp t
  · cases r with
    | error e => rfl
    | ok should =>
      cases should <;> cases p.multiOutput <;> cases env.mods.timeRange <;> cases env.mods.selection <;>
        cases env.mods.columns <;> cases env.opts.fuzzy <;> cases env.opts.allowIncomplete <;> rfl
  · rfl

/-! ### non-vacuity: the generated definitions are not constant -/

example : Generated.weTake false true true = true ∧ Generated.weTake false true false = false ∧
    Generated.weTake true false false = false := by decide
example : Generated.supportSuperruns true false = false := by decide
example : Generated.findGate true true true false = .ok () ∧ Generated.findGate true true true true = .error .dataNotAvailable :=
  ⟨rfl, rfl⟩
example : Generated.createGate true .target false false false = .error .dataNotAvailable ∧
    Generated.createGate true .explicit false false false = .ok () ∧
    Generated.createGate false .always true true false = .ok () ∧
    Generated.createGate false .always true false false = .error .dataNotAvailable := ⟨rfl, rfl, rfl, rfl⟩
example : Generated.saveGate false false false true true false false false false false false false = true ∧
    Generated.saveGate false false false true false true false false false false false false = true ∧
    Generated.saveGate false false false true false false false false false false false false = false := by decide
example : Generated.subrunBranch false true false false false = true := by decide
/-- the hypothesis `env.rules = Generated.rules` is satisfiable (it is how the driver builds every environment) -/
example : ({ g := [], fs := [], targets := [], save := [], mods := {}, opts := {}, rules := Generated.rules } : Env).rules
    = Generated.rules := rfl

end Strax.C11
