import StraxModel.Model.Basic
namespace Strax.C01
open Strax

end Strax.C01
