import StraxModel.Lemmas.PipelineVocab
import StraxModel.Lemmas.PipelineIter
import StraxModel.Props.C09
/-
  Property C01 — results do not depend on chunking, processor, parallelism or what is stored.

  Theory T3 (Model/Pipeline.lean): a run is, per data type, a chunk stream; between producer and
  consumer sits a `Transport` (mailbox / post office / futures in order / save → rechunk → load),
  in front of a computation an `Aligner` (`Plugin.iter`), the computation is a `Kernel`.
  `Transport` and `Aligner` are structures that CARRY the layer theorems (content-, law-, range-
  preservation: C05, C07, C03, C08), `ChunkHom` is the statement a plugin kind owes.  The theorems
  below hold for ALL graphs, plans, chunkings and stored subsets (no bound on anything):

    pipeline_content   partial correctness: whatever `exec` returns is the whole-run computation
    pipeline_total     totality on a topologically ordered graph when every layer is total
    pipeline_correct   both together (the statement of DESIGN §6 C01)
    stored_of_earlier_run   the hypothesis about storage is discharged by any earlier run
    pipeline_independent    two runs (different chunkings, plans, stored subsets) agree

  `ChunkHom` instances from first principles: `map_hom`, `filter_hom`, `merge_hom`, `multi_hom`,
  `loop_hom`, `downchunk_hom`, `exhaust_hom`; proved FROM a layer theorem: `rechunk_is_transport` (C07),
  `overlap_hom` (C09), `iter_is_aligner` (C08); `iter_aligner_total_partial` (totality of `Plugin.iter`:
  different kinds, ten passes suffice).

  Full statement for the code as it stands (NOT provable: false at the two reproduced defects):
    ∀ g plan src, TopoOrdered g → LawAbiding sources →
      (every edge a mailbox / post office / storage round trip, every aligner `Plugin.iter`) →
      ∃ env, exec plan g src = .ok env ∧ ∀ d, rows (env d) = whole g src d ∧ LawAbiding (env d)
  Totality fails where `Plugin.iter` gives up after ten passes (D9, C08 `ten_pass_counterexample`),
  where a stream ends with a zero-duration chunk (D16) and — for the threaded wiring — where a
  multi-output plugin has a loader-fed sibling (D13, two senders on one mailbox: that edge is not a
  `Transport`).  Hence the split into `pipeline_content` (unconditional) and `pipeline_total`
  (hypotheses `Total`).
-/
namespace Strax.C01
open Strax Strax.Pipeline

/-! ## 1. composition: induction over the topological order -/

/-- **Partial correctness, all graphs / plans / chunkings / stored subsets.**  If the sources are
law-abiding streams over the run `R`, every node's kernel is a chunk homomorphism (its aligner and
every edge's transport carry their layer theorems by construction) and storage is consistent
with the whole-run computation, then WHATEVER `exec` returns has, for every data type, exactly the
rows of the whole-run computation, as a law-abiding stream tiling `R`. -/
theorem pipeline_content (g : Graph) (plan : Plan) (R : Int × Int) (src env : Env)
    (hsrc : EnvOK R src)
    (hhom : ∀ n ∈ g, ChunkHom n.kernel ∧ n.kernel.nIn = n.deps.length ∧ n.deps ≠ [])
    (hst : StoredOK plan.stored R g (wenvOf src))
    (h : exec plan g src = .ok env) :
    ∃ w, whole g (wenvOf src) = .ok w ∧
      ∀ d s, lookup d env = some s → lookup d w = some (rows s) ∧ Pipeline.LawAbiding s ∧ span s = some R := by
  obtain ⟨hw, henv⟩ := exec_rel hhom hsrc hst h
  refine ⟨wenvOf env, hw, ?_⟩
  intro d s hl
  have hmem := lookup_mem hl
  exact ⟨by simp [lookup_wenvOf, hl], henv (d, s) hmem⟩

/-- **Totality.**  On a topologically ordered graph (every dependency a source or provided earlier,
nothing provided twice, arities right) `exec` succeeds as soon as every transport, aligner and kernel
is total on law-abiding input.  (For the code as it stands the aligner `Plugin.iter` is not total:
D9, D16.) -/
theorem pipeline_total (g : Graph) (plan : Plan) (R : Int × Int) (src : Env)
    (htopo : TopoOrdered (keys src) g) (hsrc : EnvOK R src)
    (hedge : ∀ c d, (plan.edge c d).Total)
    (hnodes : ∀ n ∈ g, ChunkHom n.kernel ∧ n.kernel.Total ∧ n.aligner.Total n.deps.length)
    (hst : StoredOK plan.stored R g (wenvOf src)) :
    ∃ env, exec plan g src = .ok env :=
  exec_total hedge htopo hnodes hsrc hst

/-- **C01 as stated in DESIGN §6**: acyclic (topologically ordered) graph → every edge a transport
(by typing) → every node a chunk homomorphism → for every data type `d`:
`rows (exec g plan d) = whole g src d ∧ LawAbiding (exec g plan d)`, and the stream tiles the run. -/
theorem pipeline_correct (g : Graph) (plan : Plan) (R : Int × Int) (src : Env)
    (htopo : TopoOrdered (keys src) g) (hsrc : EnvOK R src)
    (hedge : ∀ c d, (plan.edge c d).Total)
    (hnodes : ∀ n ∈ g, ChunkHom n.kernel ∧ n.kernel.Total ∧ n.aligner.Total n.deps.length)
    (hst : StoredOK plan.stored R g (wenvOf src)) :
    ∃ env w, exec plan g src = .ok env ∧ whole g (wenvOf src) = .ok w ∧
      ∀ d s, lookup d env = some s → lookup d w = some (rows s) ∧ Pipeline.LawAbiding s ∧ span s = some R := by
  obtain ⟨env, he⟩ := pipeline_total g plan R src htopo hsrc hedge hnodes hst
  obtain ⟨w, hw, hall⟩ := pipeline_content g plan R src env hsrc
    (hom_of_topo htopo (fun n hn => (hnodes n hn).1)) hst he
  exact ⟨env, w, he, hw, hall⟩

/-! ## 2. what is stored -/

/-- **Storage filled by an earlier run is consistent.**  Run 1 (any plan, nothing stored, sources
`src1`) ends in `env1`; storage then holds, for some data types, what some transport (save →
rechunk → load, C03 ∘ C07) makes of run 1's stream.  Then a second run over ANY other chunking of
the same source rows (`wenvOf src2 = wenvOf src1`) satisfies the storage hypothesis of
`pipeline_content`. -/
theorem stored_of_earlier_run (g : Graph) (plan1 : Plan) (R : Int × Int) (src1 src2 env1 : Env)
    (stored : List (String × List Chunk))
    (htopo : TopoOrdered (keys src1) g) (hsrc1 : EnvOK R src1)
    (hhom : ∀ n ∈ g, ChunkHom n.kernel)
    (hempty : plan1.stored = [])
    (h1 : exec plan1 g src1 = .ok env1)
    (hsame : wenvOf src2 = wenvOf src1)
    (hstore : ∀ d s, lookup d stored = some s → ∃ s0, ∃ T : Transport, lookup d env1 = some s0 ∧ T.run s0 = .ok s) :
    StoredOK stored R g (wenvOf src2) := by
  obtain ⟨hw, henv1⟩ := exec_rel (hom_of_topo htopo hhom) hsrc1 (by rw [hempty]; exact storedOK_nil R g _) h1
  rw [hsame]
  apply storedOK_of_final (w' := wenvOf env1) (by rw [keys_wenvOf]; exact htopo) hw
  intro d s hs r hr
  obtain ⟨s0, T, hl0, hT⟩ := hstore d s hs
  obtain ⟨hlaw0, hspan0⟩ := henv1 (d, s0) (lookup_mem hl0)
  rw [lookup_wenvOf, hl0] at hr
  simp only [Option.map_some, Option.some.injEq] at hr
  exact ⟨T.law hlaw0 hT, by rw [T.range hlaw0 hT]; exact hspan0, by rw [T.content hlaw0 hT]; exact hr⟩

/-- **Independence.**  Two successful runs of the same graph over two chunkings of the same source
rows — different plans (processor, workers, lazy, capacity, rechunking) and different stored
subsets, each consistent — return the same rows for every data type. -/
theorem pipeline_independent (g : Graph) (planA planB : Plan) (R : Int × Int) (srcA srcB envA envB : Env)
    (hA : EnvOK R srcA) (hB : EnvOK R srcB) (hsame : wenvOf srcA = wenvOf srcB)
    (hhom : ∀ n ∈ g, ChunkHom n.kernel ∧ n.kernel.nIn = n.deps.length ∧ n.deps ≠ [])
    (hstA : StoredOK planA.stored R g (wenvOf srcA)) (hstB : StoredOK planB.stored R g (wenvOf srcB))
    (eA : exec planA g srcA = .ok envA) (eB : exec planB g srcB = .ok envB) :
    ∀ d sA sB, lookup d envA = some sA → lookup d envB = some sB → rows sA = rows sB := by
  obtain ⟨wA, hwA, allA⟩ := pipeline_content g planA R srcA envA hA hhom hstA eA
  obtain ⟨wB, hwB, allB⟩ := pipeline_content g planB R srcB envB hB hhom hstB eB
  rw [hsame] at hwA
  rw [hwA] at hwB
  cases hwB
  intro d sA sB hlA hlB
  have a := (allA d sA hlA).1
  have b := (allB d sB hlB).1
  rw [a] at b
  exact Option.some.inj b

/-! ## 3. closure of transports -/

/-- delivering the very stream that was sent is a transport (what C05 `delivery_exact` proves of a
mailbox for every schedule, T7 of the post office) -/
theorem transport_ident_run (s : List Chunk) : Transport.ident.run s = .ok s := rfl

/-- the composition of two transports is a transport (the structure `Transport.comp` carries the
three preservation proofs); it runs one after the other -/
theorem transport_comp_run (t1 t2 : Transport) (s : List Chunk) :
    (t1.comp t2).run s = (match t1.run s with
      | .error e => .error e
      | .ok m => t2.run m) := rfl

/-- any re-partitioning (`rechunkAll`, save ∘ load, a loader that re-splits) is a transport as soon
as its layer theorem gives content-, law- and range-preservation -/
theorem transport_of_spec (f : List Chunk → Except Err (List Chunk))
    (h : ∀ inp out, Pipeline.LawAbiding inp → f inp = .ok out → rows out = rows inp ∧ Pipeline.LawAbiding out ∧ span out = span inp) :
    ∃ T : Transport, T.run = f := ⟨Transport.ofSpec f h, rfl⟩

/-- the coarsest re-partitioning (one chunk for the whole run) is a transport, from first principles -/
theorem concat_is_transport : ∃ T : Transport, (∀ s, T.run s = .ok (concatAll s)) ∧ T.Total :=
  ⟨Transport.concat, fun _ => rfl, Transport.concat_total⟩

/-- **rechunk-on-save is a transport** on plain streams (one run and data type, targets ≥ 1 row):
proved from C07's stream theorem `Strax.rechunk_aux` (= `C07.rechunk_stream`); total there -/
theorem rechunk_is_transport :
    ∃ T : Transport, (∀ s, plainStreamB s = true → T.run s = rechunkAll (-1) ⟨true, false, none⟩ s) ∧
      ∀ s, plainStreamB s = true → ∃ out, T.run s = .ok out :=
  ⟨Transport.rechunk, fun s h => by simp [Transport.rechunk, Transport.ofSpec, rechunkRun, h],
    Transport.rechunk_total_on_plain⟩

theorem comp_total (t1 t2 : Transport) (h1 : t1.Total) (h2 : t2.Total) : (t1.comp t2).Total :=
  Transport.comp_total h1 h2

/-! ## 4. `ChunkHom` of the plugin kinds, from first principles -/

/-- row-wise plugins (one output row per input row, same interval): ANY law-abiding partition of the
input gives the whole-run rows -/
theorem map_hom (f : Row → Row) (hf : ∀ r, (f r).time = r.time ∧ (f r).endt = r.endt) (out : String) :
    ChunkHom (mapKernel (fun r => some (f r)) out) :=
  mapKernel_hom (fun r r' h => by simp only [Option.some.injEq] at h; subst h; exact hf r) out

/-- filtering plugins -/
theorem filter_hom (p : Row → Bool) (out : String) :
    ChunkHom (mapKernel (fun r => if p r then some r else none) out) :=
  mapKernel_hom (fun r r' h => by
    split at h
    · cases h; exact ⟨rfl, rfl⟩
    · cases h) out

/-- row-wise + filtering in one (`g r = none` drops the row) -/
theorem filterMap_hom (g : Row → Option Row) (hg : IntervalPreserving g) (out : String) :
    ChunkHom (mapKernel g out) := mapKernel_hom hg out

/-- same-kind merge of two data types followed by a row-wise computation -/
theorem merge_hom (h : Row → Row → Row) (hh : KeepsFirstInterval h) (out : String) :
    ChunkHom (mergeKernel h out) := mergeKernel_hom hh out

/-- multi-output plugins: component-wise -/
theorem multi_hom (k1 k2 : Kernel) (h1 : ChunkHom k1) (h2 : ChunkHom k2) (hn : k2.nIn = k1.nIn) :
    ChunkHom (pairKernel k1 k2) := pairKernel_hom h1 h2 hn

/-- loop plugins (`fully_contained`): for every base row the things inside it.  The proof uses
that an aligned partition of the things is determined by its boundaries (`LawAbiding.canonical`),
so the things contained in a base lie in the chunk that carries the base.  The selection is the
quadratic definition; that `split_by_containment` computes it is C17 `split_by_containment_spec`. -/
theorem loop_hom (F : Row → List Row → Row) (hF : KeepsBaseInterval F) (out : String) :
    ChunkHom (loopKernel F out) := loopKernel_hom hF out

/-- down-chunking plugins: whatever lawful pieces `compute` cuts every input chunk into -/
theorem downchunk_hom (sub : Chunk → List Chunk) (g : Row → Option Row) (hs : SubOK sub g) :
    ChunkHom (downKernel sub g) := downKernel_hom hs

/-- exhaust plugins: a single call on the concatenated run, for ANY whole-run computation `w` whose
result obeys the laws inside the run (no homomorphism property of `w` is needed) -/
theorem exhaust_hom (w : List Row → List Row) (hw : RangeLaw w) (out : String) :
    ChunkHom (exhaustKernel w out) := exhaustKernel_hom hw out

/-- the input side of a single-dependency plugin and of the exhaust plugin (everything concatenated)
are aligners from first principles, and total -/
theorem single_aligner_total : Aligner.single.Total 1 := by
  intro R ins hl _ _
  obtain ⟨s, rfl⟩ := List.length_eq_one_iff.mp hl
  exact ⟨_, rfl⟩

theorem exhaust_aligner_total : Aligner.exhaust.Total 1 := by
  intro R ins hl _ _
  obtain ⟨s, rfl⟩ := List.length_eq_one_iff.mp hl
  exact ⟨_, rfl⟩

/-! ## 5. instances that await a layer theorem -/

/-- a stateful plugin kind given by a model over the calls is a chunk homomorphism as soon as the
model's layer theorem (`StreamSpec`) holds -/
theorem stream_hom (ov : List Chunk → Except Err (List Chunk)) (f : List Row → List Row)
    (hspec : StreamSpec ov f) : ChunkHom (streamKernel ov f) :=
  streamKernel_hom hspec

/-- **overlap-window plugins** (C09 `overlap_whole_for_pipeline`): for every window-local computation
`f` (each output row is a function of its input row and of the rows within the window of it) the
state machine of `OverlapWindowPlugin` is a chunk homomorphism — any law-abiding partition of the
input, chunks shorter than the window included, gives the whole-run rows. -/
theorem overlap_hom (f : List Row → List Row) (wl wr : Int) (hf : C09.WindowLocal f wl wr) :
    ChunkHom (overlapKernel f (wl, wr)) :=
  streamKernel_hom (C09.overlap_whole_for_pipeline f wl wr hf)

/-- **`Plugin.iter` is an aligner** (C08 `calls_tile_run`, `rows_inside_call_dep`, with the round-1
`calls_aligned` / `calls_adjacent` / `rows_once_in_order`): on the inputs C08 speaks about — plain
law-abiding streams of run `rid`, one per dependency, all starting at `T0` and ending at `T1`, none
with a trailing zero-duration chunk (`iterGuardB`; the last condition is D16) — whatever
`Align.iterRun` returns is an aligned law-abiding partition of the same rows over `[T0, T1)`.
So `Plugin.iter` can be plugged into `pipeline_content` as the aligner of every node. -/
theorem iter_is_aligner (rid : String) (T0 T1 : Int) (deps : List Align.Dep) (strict : Bool) :
    ∃ A : Aligner, ∀ ins, A.run ins =
      (if iterGuardB rid T0 T1 deps ins then iterAligner deps strict ins else .error .other) :=
  ⟨Aligner.iter rid T0 T1 deps strict, fun _ => rfl⟩

/-- Totality of that aligner.  PARTIAL: proved (C08 `converges_partial`) for dependencies of pairwise
different kinds and under `passesSufficeB` ("the re-trim loop does not run out of its ten passes").
Full statement (false of the code as it stands, D9; same-kind totality not yet proved in C08):
  iterGuardB rid T0 T1 deps ins = true → deps ≠ [] → ∃ out, (Aligner.iter …).run ins = .ok out -/
theorem iter_aligner_total_partial (rid : String) (T0 T1 : Int) (deps : List Align.Dep) (strict : Bool)
    (ins : List (List Chunk)) (hg : iterGuardB rid T0 T1 deps ins = true) (hdeps : deps ≠ [])
    (hk : (deps.map (fun d => d.kind)).Nodup) (hp : Align.passesSufficeB deps ins strict = true) :
    ∃ out, (Aligner.iter rid T0 T1 deps strict).run ins = .ok out := by
  have hg' := hg
  simp only [iterGuardB, Bool.and_eq_true, beq_iff_eq] at hg'
  obtain ⟨⟨⟨hlen, hv⟩, hT⟩, he⟩ := hg'
  obtain ⟨r, hr, -⟩ := C08.converges_partial hlen hdeps hv hT he hk hp
  exact ⟨streamsOfCalls deps r.calls, by
    simp [Aligner.iter, Aligner.ofSpec, iterAlignerG, hg, iterAligner, hr]⟩

/-- the abstract form: any alignment function with the aligner layer theorem is an `Aligner` -/
theorem aligner_of_spec (f : List (List Chunk) → Except Err (List (List Chunk)))
    (hspec : ∀ R ins out, ins ≠ [] → StreamsOK R ins → f ins = .ok out →
      Aligned R out ∧ out.map rows = ins.map rows) :
    ∃ A : Aligner, A.run = f :=
  ⟨Aligner.ofSpec _ hspec, rfl⟩

/-- `n` touching rows of length 2 starting at `off` -/
def brick (off : Int) (idoff n : Nat) : List Row :=
  (List.range n).map fun (i : Nat) => ⟨2 * Int.ofNat i + off, 2 * Int.ofNat i + off + 2, i + idoff⟩

/-- the ten-pass limit is visible here: on the brick pattern of C08 `ten_pass_counterexample` the
aligner `Plugin.iter` returns an error, so no totality statement holds of it (D9) -/
theorem iter_aligner_not_total_witness :
    ∃ (deps : List Align.Dep) (ins : List (List Chunk)),
      (∀ s ∈ ins, Pipeline.LawAbiding s) ∧ iterAligner deps true ins = .error .runtimeError := by
  refine ⟨[⟨"aa", "ka"⟩, ⟨"bb", "kb"⟩],
    [[⟨"aa", "ka", some "0", 0, 30, brick 0 0 15, none, [⟨"0", 0, 30⟩], 0⟩,
      ⟨"aa", "ka", some "0", 30, 60, brick 30 15 15, none, [⟨"0", 30, 60⟩], 0⟩],
     [⟨"bb", "kb", some "0", 0, 31, brick 1 0 15, none, [⟨"0", 0, 31⟩], 0⟩,
      ⟨"bb", "kb", some "0", 31, 60, brick 31 15 14, none, [⟨"0", 31, 60⟩], 0⟩]],
    by decide +kernel, by decide +kernel⟩

/-! ## 6. the harness vocabulary: what the driver op `c01.whole` computes is what every successful
execution returns -/

/-- For a graph of the harness vocabulary (any plan, any aligner for the two-dependency kinds; the
overlap-window kinds by C09 `overlap_vocab_for_pipeline`): every successful execution returns, for
every data type, the rows the driver computes with `Vocab.wholeV`. -/
theorem vocab_content (vg : List Vocab.VNode) (a2 : Aligner) (plan : Plan) (R : Int × Int) (src env : Env)
    (hsrc : EnvOK R src) (htopo : TopoOrdered (keys src) (vg.map (Vocab.toNode a2)))
    (hst : StoredOK plan.stored R (vg.map (Vocab.toNode a2)) (wenvOf src))
    (h : exec plan (vg.map (Vocab.toNode a2)) src = .ok env) :
    ∃ w, Vocab.wholeV vg (wenvOf src) = .ok w ∧
      ∀ d s, lookup d env = some s → lookup d w = some (rows s) ∧ Pipeline.LawAbiding s ∧ span s = some R := by
  have hhom : ∀ n ∈ vg.map (Vocab.toNode a2), ChunkHom n.kernel := by
    intro n hn
    simp only [List.mem_map] at hn
    obtain ⟨v, hv, rfl⟩ := hn
    simp only [Vocab.toNode]
    cases hk : Vocab.isOverlap v.kind with
    | false => exact Vocab.kernelOf_hom _ _ hk
    | true =>
      cases hkind : v.kind with
      | overlap w => exact Vocab.kernelOf_hom_overlap w _ (C09.overlap_vocab_for_pipeline w)
      | _ => simp [hkind, Vocab.isOverlap] at hk
  obtain ⟨w, hw, hall⟩ := pipeline_content _ plan R src env hsrc (hom_of_topo htopo hhom) hst h
  refine ⟨w, ?_, hall⟩
  rw [← Vocab.whole_eq_wholeV a2 vg _ ?_]
  · exact hw
  · -- a node without outputs cannot be part of a topologically ordered graph that executes: its
    -- kernel has at least one output
    intro n hn hout
    have hmem : Vocab.toNode a2 n ∈ vg.map (Vocab.toNode a2) := List.mem_map.2 ⟨n, hn, rfl⟩
    have : ∀ {known : List String} {g : Graph}, TopoOrdered known g → ∀ m ∈ g, m.kernel.nOut = m.provides.length := by
      intro known g
      induction g generalizing known with
      | nil => intro _ m hm; simp at hm
      | cons x g ih =>
        intro ht m hm
        obtain ⟨-, -, -, -, -, h6, h7⟩ := topo_cons ht
        simp only [List.mem_cons] at hm
        rcases hm with rfl | hm
        · exact h6
        · exact ih h7 m hm
    have harity := this htopo _ hmem
    simp only [Vocab.toNode, hout, List.length_nil] at harity
    cases hk : n.kind <;> simp [hk, Vocab.kernelOf, mapKernel, mergeKernel, pairKernel, firstKernel, loopKernel,
      overlapKernel, streamKernel, downKernel, exhaustKernel] at harity

/-! ## 7. non-vacuity: concrete instances of every hypothesis -/

/-- a source chunked in two ways (with an empty and a zero-duration chunk) -/
def srcRows : List Row := [⟨1, 3, 100⟩, ⟨4, 6, 101⟩, ⟨6, 9, 102⟩, ⟨12, 13, 103⟩]
def mkC (a b : Int) (rs : List Row) : Chunk := ⟨"sa", "sa", some "0", a, b, rs, none, [⟨"0", a, b⟩], 1⟩
def chunkingA : List Chunk := [mkC 0 4 [⟨1, 3, 100⟩], mkC 4 4 [], mkC 4 10 [⟨4, 6, 101⟩, ⟨6, 9, 102⟩], mkC 10 11 [], mkC 11 14 [⟨12, 13, 103⟩]]
def chunkingB : List Chunk := [mkC 0 14 srcRows]

example : Pipeline.LawAbiding chunkingA ∧ Pipeline.LawAbiding chunkingB ∧ span chunkingA = some (0, 14) ∧ span chunkingB = some (0, 14) ∧
    rows chunkingA = rows chunkingB := by decide

/-- a three-node graph of the vocabulary: row-wise, multi-output (row-wise + filter), same-kind merge -/
def exGraph : List Vocab.VNode :=
  [⟨.map 3, ["sa"], ["t1"]⟩, ⟨.multi 1 2 0, ["t1"], ["t2", "t3"]⟩, ⟨.merge, ["sa", "t2"], ["t4"]⟩]

def idPlan : Plan := ⟨fun _ _ => Transport.ident, []⟩
/-- another plan: every edge re-partitions the stream into one chunk -/
def concatPlan : Plan := ⟨fun _ _ => Transport.concat, []⟩

/-- for the example the two-dependency aligner only ever sees identically chunked inputs -/
def exAligner : Aligner := Aligner.ofSpec
  (fun ins => match ins with
    | [a, b] => if lawAbidingB a && lawAbidingB b && (bounds a == bounds b) then .ok [a, b] else .error .runtimeError
    | _ => .error .other)
  (by
    intro R ins out _ hok h
    match ins, h with
    | [a, b], h =>
      simp only at h
      split at h
      · rename_i hc
        simp only [Bool.and_eq_true, beq_iff_eq] at hc
        cases h
        refine ⟨⟨hok, ?_⟩, rfl⟩
        intro s hs t ht
        simp only [List.mem_cons, List.not_mem_nil, or_false] at hs ht
        rcases hs with rfl | rfl <;> rcases ht with rfl | rfl <;> simp [hc.2]
      · cases h)

example : TopoOrdered ["sa"] (exGraph.map (Vocab.toNode exAligner)) := by decide

/-- the two chunkings and two plans give different streams … -/
example : (exec idPlan (exGraph.map (Vocab.toNode exAligner)) [("sa", chunkingA)]).toOption.map
      (fun env => (lookup "t4" env).map (·.length)) = some (some 5) ∧
    (exec concatPlan (exGraph.map (Vocab.toNode exAligner)) [("sa", chunkingA)]).toOption.map
      (fun env => (lookup "t4" env).map (·.length)) = some (some 1) := by decide +kernel

/-- … with the same rows, those of the whole-run computation the driver evaluates -/
example : (exec idPlan (exGraph.map (Vocab.toNode exAligner)) [("sa", chunkingA)]).toOption.map
      (fun env => (lookup "t4" env).map (fun s => ids (rows s))) = some (some [736200, 753546, 770892, 788238]) ∧
    (exec concatPlan (exGraph.map (Vocab.toNode exAligner)) [("sa", chunkingB)]).toOption.map
      (fun env => (lookup "t4" env).map (fun s => ids (rows s))) = some (some [736200, 753546, 770892, 788238]) ∧
    (Vocab.wholeV exGraph [("sa", srcRows)]).toOption.map (fun w => (lookup "t4" w).map ids)
      = some (some [736200, 753546, 770892, 788238]) := by decide +kernel

/-- storage consistent with the run: `t1` stored as ONE chunk (what a rechunking saver leaves) -/
def storedT1 : List (String × List Chunk) :=
  [("t1", [⟨"t1", "sa", some "0", 0, 14, srcRows.map (Vocab.mapId 3), none, [⟨"0", 0, 14⟩], 1⟩])]

example : storedOKB storedT1 (0, 14) (exGraph.map (Vocab.toNode exAligner)) [("sa", srcRows)] = true ∧
    envOKB (0, 14) [("sa", chunkingA)] = true := by decide +kernel

/-- the hypotheses of the kind instances hold of the vocabulary's functions -/
example : IntervalPreserving (Vocab.gMap 3) ∧ IntervalPreserving (Vocab.gFilter 2 0) ∧
    KeepsFirstInterval Vocab.mergeId ∧ KeepsBaseInterval Vocab.loopId :=
  ⟨Vocab.gMap_ip 3, Vocab.gFilter_ip 2 0, Vocab.mergeId_kfi, Vocab.loopId_kbi⟩

example : SubOK (onePiece (Vocab.gMap 3) "t9") (Vocab.gMap 3) := subOK_onePiece (Vocab.gMap_ip 3) _

example : RangeLaw (Vocab.exhaustWhole 2) :=
  rangeLaw_of_map (f := fun all r => Vocab.exhaustId 2 all.length r) (fun all r => by simp [Vocab.exhaustId])

/-- loop kernel on an aligned partition: bases and the things inside them, cut at the same times -/
example : (loopKernel Vocab.loopId "t5").chunked
      [[mkC 0 10 [⟨1, 5, 1⟩, ⟨6, 9, 2⟩], mkC 10 20 [⟨10, 15, 3⟩]],
       [mkC 0 10 [⟨1, 2, 10⟩, ⟨3, 5, 11⟩, ⟨5, 7, 12⟩, ⟨7, 9, 13⟩], mkC 10 20 [⟨11, 12, 14⟩]]]
    = .ok [[⟨"t5", "sa", some "0", 0, 10, [⟨1, 5, 66⟩, ⟨6, 9, 82⟩], none, [⟨"0", 0, 10⟩], 1⟩,
            ⟨"t5", "sa", some "0", 10, 20, [⟨10, 15, 114⟩], none, [⟨"0", 10, 20⟩], 1⟩]] := by decide +kernel

/-- `Plugin.iter` as an aligner on a concrete input: two dependencies of different kinds, one chunked
into five pieces (with an empty and a zero-duration chunk), one in a single chunk; the guard holds
and the result is the common partition of both, rows unchanged -/
example : iterGuardB "0" 0 14 [⟨"sa", "sa"⟩, ⟨"sb", "sb"⟩] [chunkingA, chunkingB] = true ∧
    ((Aligner.iter "0" 0 14 [⟨"sa", "sa"⟩, ⟨"sb", "sb"⟩] true).run [chunkingA, chunkingB]).toOption.map
        (fun o => o.map bounds)
      = some [[(0, 4), (4, 4), (4, 10), (10, 11), (11, 14)], [(0, 4), (4, 4), (4, 10), (10, 11), (11, 14)]] ∧
    ((Aligner.iter "0" 0 14 [⟨"sa", "sa"⟩, ⟨"sb", "sb"⟩] true).run [chunkingA, chunkingB]).toOption.map
        (fun o => o.map (fun s => ids (rows s)))
      = some [[100, 101, 102, 103], [100, 101, 102, 103]] := by decide +kernel

/-- the plain-stream guard of the rechunk transport holds of an ordinary stream -/
example : plainStreamB chunkingA = true := by decide +kernel

end Strax.C01
