import StraxModel.Lemmas.PipelineVocab
import StraxModel.Lemmas.PipelineIter
import StraxModel.Lemmas.PipelineStorage
import StraxModel.Lemmas.PipelineMailbox
import StraxModel.Props.C09
/-
  Property C01 — results do not depend on chunking, processor, parallelism or what is stored.

  Theory T3 (Model/Pipeline.lean): a run is, per data type, a chunk stream; between producer and consumer sits a
  `Transport`, in front of a computation an `Aligner` (`Plugin.iter`), the computation is a `Kernel`; `exec` runs a
  plugin graph in topological order, `whole` is the whole-run computation.  `Transport` / `Aligner` are structures
  that carry a content- / law- / range-preservation proof; `ChunkHom` is what a plugin kind owes.

  WHICH LAYERS ARE CONNECTED BY A PROVED BRIDGE (an instance built from the other property's model and theorem):
    C07  rechunk-on-save   `Transport.rechunk`  = `rechunkAll`, from `Strax.rechunk_aux`        (`rechunk_is_transport`)
    C03  save ∘ load       `Transport.storage`  = `Storage.saveAll` ∘ `loadAll`, from `C03.roundtrip_plain`
                                                                                                 (`storage_is_transport`)
    C08  Plugin.iter       `Aligner.iter`       = `Align.iterRun`, from `C08.calls_tile_run`, `rows_inside_call_dep`,
                           totality from `C08.converges_partial`   (`iter_aligner_spec`, `iter_aligner_total_partial`)
    C09  overlap window    `overlapKernel`      = `Overlap.runOverlap`, from `C09.overlap_whole_for_pipeline_partial` (`overlap_hom`)
    C05  ONE mailbox       partial correctness only: in every reachable final state of the mailbox transition system
                           every subscriber holds the sent stream = `Transport.ident`          (`mailbox_edge_is_ident`)
  NOT CONNECTED — carried by the end-to-end runs of checks/props/c01.py only: the single-thread PostOffice (C06 model),
  the wiring of several mailboxes / `divide_outputs` / savers by `ThreadedMailboxProcessor` and its deadlock freedom
  (C06 `Net`, C13), `max_workers` / executors, which origin feeds a type (`get_components`, C11).  For these the
  theorems say: IF the edge behaves as some `Transport` THEN …; that it does is tested, not proved.
  The chunked side (`exec`, the kernels, `Aligner.iter`, `override`) is tied to the code by the driver op `c01.exec`
  (per-data-type chunk streams of real single-thread runs), the whole-run side by `c01.whole`.

  Theorems (ALL graphs, plans, chunkings, stored subsets; no bound on anything):
    pipeline_content        partial correctness: whatever `exec` returns is the whole-run computation
    pipeline_total          totality on TYPED streams (`NodeTotalOn`: per data type a decidable stream type; the real
                            instances are total on their guards only, never on all law-abiding inputs)
    pipeline_correct        both together; instantiated in `example_correct` (Plugin.iter + rechunk edge + stored type)
    stored_of_earlier_run   the storage hypothesis is discharged by any earlier (itself consistent) run
    pipeline_independent    two runs (different chunkings, plans, stored subsets) agree
    vocab_content           for harness graphs every successful execution returns what `c01.whole` prints
  `ChunkHom` from first principles: `map_hom`, `filter_hom`, `merge_hom`, `multi_hom`, `loop_hom`, `downchunk_hom`,
  `exhaust_hom`; from a layer theorem: `overlap_hom` (C09).

  Full statement for the code as it stands (NOT provable, false at the reproduced defects):
    ∀ g plan src, TopoOrdered g → LawAbiding sources → (every edge a mailbox / post office / storage round trip,
      every aligner `Plugin.iter`) → ∃ env, exec plan g src = .ok env ∧ ∀ d, rows (env d) = whole g src d ∧ …
  Totality fails where `Plugin.iter` gives up after ten passes (D9, `iter_aligner_not_total_witness`), where a
  stream ends with a zero-duration chunk (D16; excluded by `iterGuardB`), and in lazy mode for a multi-output
  plugin whose outputs reconverge (open finding lazy-multi-output-lag-deadlock; not modelled here).  Partial:
  `iter_aligner_total_partial`, `iter_first_step_total_partial` (dependencies of different kinds, `passesSufficeB`).
-/
namespace Strax.C01
open Strax Strax.Pipeline

/-! ## 1. composition: induction over the topological order -/

/-- **Partial correctness, all graphs / plans / chunkings / stored subsets.**  If the sources are
law-abiding streams over the run `R`, every node's kernel is a chunk homomorphism (its aligner and
every edge's transport carry their layer theorems by construction) and storage is consistent
with the whole-run computation, then WHATEVER `exec` returns has, for every data type, exactly the
rows of the whole-run computation, as a law-abiding stream tiling `R`. -/
theorem pipeline_content (g : Graph) (plan : Plan) (R : Int × Int) (src env : Env)
    (hsrc : EnvOK R src)
    (hhom : ∀ n ∈ g, ChunkHom n.kernel ∧ n.kernel.nIn = n.deps.length ∧ n.deps ≠ [])
    (hst : StoredOK plan.stored R g (wenvOf src))
    (h : exec plan g src = .ok env) :
    ∃ w, whole g (wenvOf src) = .ok w ∧
      ∀ d s, lookup d env = some s → lookup d w = some (rows s) ∧ Pipeline.LawAbiding s ∧ span s = some R := by
  obtain ⟨hw, henv⟩ := exec_rel hhom hsrc hst h
  refine ⟨wenvOf env, hw, ?_⟩
  intro d s hl
  have hmem := lookup_mem hl
  exact ⟨by simp [lookup_wenvOf, hl], henv (d, s) hmem⟩

/-- **Totality on typed streams.**  `P d` is the (decidable) stream type of data type `d` — the domain in which the
layer theorems speak (`plainStreamB` for a rechunking edge, `iterGuardB` for `Plugin.iter`, …).  On a topologically
ordered graph whose sources and stored streams have their types and whose nodes are total on typed inputs
(`NodeTotalOn`: edge transports, aligner and kernel together; discharged per instance by `node_total_of_edges`,
`rechunk_totalOn_plain`, `storage_totalOn`, `iter_first_step_total_partial`, …) `exec` succeeds.
There is deliberately no hypothesis "total on ALL law-abiding inputs": that is false of `Plugin.iter` (D9, D16), of
`Chunk.merge` (unequal row counts), of the exhaust kernel (second call) and of the guarded transports. -/
theorem pipeline_total (g : Graph) (plan : Plan) (R : Int × Int) (P : String → List Chunk → Prop) (src : Env)
    (htopo : TopoOrdered (keys src) g) (hsrc : EnvOK R src) (hPsrc : ∀ p ∈ src, P p.1 p.2)
    (hPst : ∀ d s, lookup d plan.stored = some s → P d s)
    (hnodes : ∀ n ∈ g, ChunkHom n.kernel ∧ NodeTotalOn (plan.edge n.name) R P n)
    (hst : StoredOK plan.stored R g (wenvOf src)) :
    ∃ env, exec plan g src = .ok env ∧ ∀ p ∈ env, P p.1 p.2 :=
  exec_total_typed hPst htopo hnodes hsrc hPsrc hst

/-- **C01 as stated in DESIGN §6**, on typed streams: topologically ordered graph, every edge a transport (by
typing) that is total on its input type, every node a chunk homomorphism that is total on typed inputs ⇒ `exec`
succeeds and for every data type `d`: `rows (exec g plan d) = whole g src d ∧ LawAbiding (exec g plan d)`, tiling
the run.  Instantiated with `Plugin.iter`, a rechunking edge and a stored intermediate in `example_correct` below. -/
theorem pipeline_correct (g : Graph) (plan : Plan) (R : Int × Int) (P : String → List Chunk → Prop) (src : Env)
    (htopo : TopoOrdered (keys src) g) (hsrc : EnvOK R src) (hPsrc : ∀ p ∈ src, P p.1 p.2)
    (hPst : ∀ d s, lookup d plan.stored = some s → P d s)
    (hnodes : ∀ n ∈ g, ChunkHom n.kernel ∧ NodeTotalOn (plan.edge n.name) R P n)
    (hst : StoredOK plan.stored R g (wenvOf src)) :
    ∃ env w, exec plan g src = .ok env ∧ whole g (wenvOf src) = .ok w ∧
      ∀ d s, lookup d env = some s → lookup d w = some (rows s) ∧ Pipeline.LawAbiding s ∧ span s = some R := by
  obtain ⟨env, he, -⟩ := pipeline_total g plan R P src htopo hsrc hPsrc hPst hnodes hst
  obtain ⟨w, hw, hall⟩ := pipeline_content g plan R src env hsrc
    (hom_of_topo htopo (fun n hn => (hnodes n hn).1)) hst he
  exact ⟨env, w, he, hw, hall⟩

/-- a node is total on typed inputs as soon as each edge transport is total from the dependency's type to some
`E d` and the node's step is total on `E`-typed inputs with typed outputs -/
theorem node_total_of_edges (edge : String → Transport) (R : Int × Int) (P E : String → List Chunk → Prop) (n : Node)
    (hedge : ∀ d ∈ n.deps, (edge d).TotalOn (P d) (E d))
    (hstep : ∀ ins : List (List Chunk), ins.length = n.deps.length →
      (∀ p ∈ n.deps.zip ins, Pipeline.LawAbiding p.2 ∧ span p.2 = some R ∧ E p.1 p.2) →
      ∃ outs, n.step ins = .ok outs ∧ outs.length = n.provides.length ∧ ∀ p ∈ n.provides.zip outs, P p.1 p.2) :
    NodeTotalOn edge R P n :=
  nodeTotalOn_of hedge hstep

/-! ## 2. what is stored -/

/-- **Storage filled by an earlier run is consistent.**  Run 1 (any plan, storage consistent — e.g. empty, `storedOK_nil`, or itself
filled by earlier runs, as the twin context of the harness does cumulatively —, sources `src1`) ends in `env1`; storage then holds, for some data types, what some transport (save →
rechunk → load, C03 ∘ C07) makes of run 1's stream.  Then a second run over ANY other chunking of
the same source rows (`wenvOf src2 = wenvOf src1`) satisfies the storage hypothesis of
`pipeline_content`. -/
theorem stored_of_earlier_run (g : Graph) (plan1 : Plan) (R : Int × Int) (src1 src2 env1 : Env)
    (stored : List (String × List Chunk))
    (htopo : TopoOrdered (keys src1) g) (hsrc1 : EnvOK R src1)
    (hhom : ∀ n ∈ g, ChunkHom n.kernel)
    (hst1 : StoredOK plan1.stored R g (wenvOf src1))
    (h1 : exec plan1 g src1 = .ok env1)
    (hsame : wenvOf src2 = wenvOf src1)
    (hstore : ∀ d s, lookup d stored = some s → ∃ s0, ∃ T : Transport, lookup d env1 = some s0 ∧ T.run s0 = .ok s) :
    StoredOK stored R g (wenvOf src2) := by
  obtain ⟨hw, henv1⟩ := exec_rel (hom_of_topo htopo hhom) hsrc1 hst1 h1
  rw [hsame]
  apply storedOK_of_final (w' := wenvOf env1) (by rw [keys_wenvOf]; exact htopo) hw
  intro d s hs r hr
  obtain ⟨s0, T, hl0, hT⟩ := hstore d s hs
  obtain ⟨hlaw0, hspan0⟩ := henv1 (d, s0) (lookup_mem hl0)
  rw [lookup_wenvOf, hl0] at hr
  simp only [Option.map_some, Option.some.injEq] at hr
  exact ⟨T.law hlaw0 hT, by rw [T.range hlaw0 hT]; exact hspan0, by rw [T.content hlaw0 hT]; exact hr⟩

/-- **Independence.**  Two successful runs of the same graph over two chunkings of the same source
rows — different plans (processor, workers, lazy, capacity, rechunking) and different stored
subsets, each consistent — return the same rows for every data type. -/
theorem pipeline_independent (g : Graph) (planA planB : Plan) (R : Int × Int) (srcA srcB envA envB : Env)
    (hA : EnvOK R srcA) (hB : EnvOK R srcB) (hsame : wenvOf srcA = wenvOf srcB)
    (hhom : ∀ n ∈ g, ChunkHom n.kernel ∧ n.kernel.nIn = n.deps.length ∧ n.deps ≠ [])
    (hstA : StoredOK planA.stored R g (wenvOf srcA)) (hstB : StoredOK planB.stored R g (wenvOf srcB))
    (eA : exec planA g srcA = .ok envA) (eB : exec planB g srcB = .ok envB) :
    ∀ d sA sB, lookup d envA = some sA → lookup d envB = some sB → rows sA = rows sB := by
  obtain ⟨wA, hwA, allA⟩ := pipeline_content g planA R srcA envA hA hhom hstA eA
  obtain ⟨wB, hwB, allB⟩ := pipeline_content g planB R srcB envB hB hhom hstB eB
  rw [hsame] at hwA
  rw [hwA] at hwB
  cases hwB
  intro d sA sB hlA hlB
  have a := (allA d sA hlA).1
  have b := (allB d sB hlB).1
  rw [a] at b
  exact Option.some.inj b

/-! ## 3. closure of transports -/

/-- delivering the very stream that was sent is a transport (what C05 `delivery_exact` proves of a
mailbox for every schedule, T7 of the post office) -/
theorem transport_ident_run (s : List Chunk) : Transport.ident.run s = .ok s := rfl

/-- the composition of two transports is a transport (the structure `Transport.comp` carries the
three preservation proofs); it runs one after the other -/
theorem transport_comp_run (t1 t2 : Transport) (s : List Chunk) :
    (t1.comp t2).run s = (match t1.run s with
      | .error e => .error e
      | .ok m => t2.run m) := rfl

/-- any re-partitioning (`rechunkAll`, save ∘ load, a loader that re-splits) is a transport as soon
as its layer theorem gives content-, law- and range-preservation -/
theorem transport_of_spec (f : List Chunk → Except Err (List Chunk))
    (h : ∀ inp out, Pipeline.LawAbiding inp → f inp = .ok out → rows out = rows inp ∧ Pipeline.LawAbiding out ∧ span out = span inp) :
    ∃ T : Transport, T.run = f := ⟨Transport.ofSpec f h, rfl⟩

/-- the coarsest re-partitioning (one chunk for the whole run) is a transport, from first principles -/
theorem concat_is_transport : ∃ T : Transport, (∀ s, T.run s = .ok (concatAll s)) ∧ T.Total :=
  ⟨Transport.concat, fun _ => rfl, Transport.concat_total⟩

/-- **rechunk-on-save is a transport** on plain streams (one run and data type, targets ≥ 1 row):
proved from C07's stream theorem `Strax.rechunk_aux` (= `C07.rechunk_stream_partial`); total there -/
theorem rechunk_is_transport :
    ∃ T : Transport, (∀ s, plainStreamB s = true → T.run s = rechunkAll (-1) ⟨true, false, none⟩ s) ∧
      ∀ s, plainStreamB s = true → ∃ out, T.run s = .ok out :=
  ⟨Transport.rechunk, fun s h => by simp [Transport.rechunk, Transport.ofSpec, rechunkRun, h],
    Transport.rechunk_total_on_plain⟩

theorem comp_total (t1 t2 : Transport) (h1 : t1.Total) (h2 : t2.Total) : (t1.comp t2).Total :=
  Transport.comp_total h1 h2

/-- the identity transport is total between any equal types -/
theorem ident_totalOn (P : List Chunk → Prop) : Transport.ident.TotalOn P P :=
  fun inp _ hp => ⟨inp, rfl, hp⟩

/-- the rechunking transport is total exactly on C07's domain (plain streams of one run, targets ≥ 1 row) -/
theorem rechunk_totalOn_plain : Transport.rechunk.TotalOn (fun s => plainStreamB s = true) (fun _ => True) := by
  intro inp _ hp
  obtain ⟨out, h⟩ := Transport.rechunk_total_on_plain inp hp
  exact ⟨out, h, trivial⟩

/-- **A mailbox edge is the identity transport under EVERY schedule** (C05 `delivery_exact`): for the labelled
transition system of `strax.Mailbox` (any capacity, lazy or eager, any gate rule, any number of subscribers, plain
messages or futures resolved by worker threads), a producer that sends the chunks of `s` in order, and ANY reachable
final state, every subscriber has been handed exactly `s` — what `Transport.ident` returns.  (That a final state
is reached, i.e. no deadlock, is C05 `deadlock_free` / C06 for networks; the single-thread PostOffice and the
wiring of several mailboxes are exercised by the end-to-end runs only.) -/
theorem mailbox_edge_is_ident (s : List Chunk) (fut : Nat → Bool) (c : Mailbox.Config)
    (hprog : c.prog = streamProg fut s.length) (hv : c.valid = true)
    (st : Mailbox.Sys) (hreach : Mailbox.Reachable c st) (hfin : st.final = true)
    (i : Nat) (r : Mailbox.Reader) (hr : st.readers[i]? = some r) :
    Transport.ident.run s = .ok (decodeMsgs s r.got) :=
  mailbox_delivers s fut c hprog hv st hreach hfin i r hr

example : ({ cap := some 2, lazy := true, gateRule := .hasMsg, drive := [true, false],
             prog := streamProg (fun i => i % 2 == 0) 3, workers := [[0, 2]], killers := [] } : Mailbox.Config).valid = true := by
  decide

/-- **save ∘ load is a transport** (C03 `roundtrip_plain`): `Saver.save_from` without rechunking followed by the
loader keeps content, laws and range of every non-empty stream of run `rid`, and is total on that domain
(`storableStreamB`).  With rechunking the saver factors as rechunker ∘ plain save (C03 `save_rechunk_factors`), i.e.
`Transport.rechunk.comp (Transport.storage hdr rid)`. -/
theorem storage_is_transport (hdr : Storage.Header) (rid : String) :
    ∃ T : Transport, (∀ s, storableStreamB rid s = true → T.run s =
        (match Storage.saveAll (-1) false hdr s with
         | .error e => .error e
         | .ok (md, files) => Storage.loadAll md files)) ∧
      T.TotalOn (fun s => storableStreamB rid s = true) (fun _ => True) :=
  ⟨Transport.storage hdr rid, fun s h => by
      simp only [Transport.storage, Transport.ofSpec, storageRun, h, if_true]
      split <;> simp_all,
    Transport.storage_totalOn hdr rid⟩

/-! ## 4. `ChunkHom` of the plugin kinds, from first principles -/

/-- row-wise plugins (one output row per input row, same interval): ANY law-abiding partition of the
input gives the whole-run rows -/
theorem map_hom (f : Row → Row) (hf : ∀ r, (f r).time = r.time ∧ (f r).endt = r.endt) (out : String) :
    ChunkHom (mapKernel (fun r => some (f r)) out) :=
  mapKernel_hom (fun r r' h => by simp only [Option.some.injEq] at h; subst h; exact hf r) out

/-- filtering plugins -/
theorem filter_hom (p : Row → Bool) (out : String) :
    ChunkHom (mapKernel (fun r => if p r then some r else none) out) :=
  mapKernel_hom (fun r r' h => by
    split at h
    · cases h; exact ⟨rfl, rfl⟩
    · cases h) out

/-- row-wise + filtering in one (`g r = none` drops the row) -/
theorem filterMap_hom (g : Row → Option Row) (hg : IntervalPreserving g) (out : String) :
    ChunkHom (mapKernel g out) := mapKernel_hom hg out

/-- same-kind merge of two data types followed by a row-wise computation -/
theorem merge_hom (h : Row → Row → Row) (hh : KeepsFirstInterval h) (out : String) :
    ChunkHom (mergeKernel h out) := mergeKernel_hom hh out

/-- multi-output plugins: component-wise -/
theorem multi_hom (k1 k2 : Kernel) (h1 : ChunkHom k1) (h2 : ChunkHom k2) (hn : k2.nIn = k1.nIn) :
    ChunkHom (pairKernel k1 k2) := pairKernel_hom h1 h2 hn

/-- loop plugins (`fully_contained`): for every base row the things inside it.  The proof uses
that an aligned partition of the things is determined by its boundaries (`LawAbiding.canonical`),
so the things contained in a base lie in the chunk that carries the base.  The selection is the
quadratic definition; that `split_by_containment` computes it is C17 `split_by_containment_spec`. -/
theorem loop_hom (F : Row → List Row → Row) (hF : KeepsBaseInterval F) (out : String) :
    ChunkHom (loopKernel F out) := loopKernel_hom hF out

/-- down-chunking plugins: whatever lawful pieces `compute` cuts every input chunk into -/
theorem downchunk_hom (sub : Chunk → List Chunk) (g : Row → Option Row) (hs : SubOK sub g) :
    ChunkHom (downKernel sub g) := downKernel_hom hs

/-- exhaust plugins: a single call on the concatenated run, for ANY whole-run computation `w` whose
result obeys the laws inside the run (no homomorphism property of `w` is needed) -/
theorem exhaust_hom (w : List Row → List Row) (hw : RangeLaw w) (out : String) :
    ChunkHom (exhaustKernel w out) := exhaustKernel_hom hw out

/-- the input side of a single-dependency plugin and of the exhaust plugin (everything concatenated)
are aligners from first principles, and total -/
theorem single_aligner_total (s : List Chunk) : Aligner.single.run [s] = .ok [s] := rfl

theorem exhaust_aligner_total (s : List Chunk) : Aligner.exhaust.run [s] = .ok [concatAll s] := rfl

/-- a single-dependency row-wise / filtering node never fails, whatever stream arrives -/
theorem map_node_total (n : Node) (g : Row → Option Row) (out : String) (labels : List (String × Option String))
    (ha : n.aligner = Aligner.single) (hk : n.kernel = restamp labels (mapKernel g out)) (s : List Chunk) :
    ∃ o, n.step [s] = .ok [o] := by
  cases labels with
  | nil => exact ⟨perChunk (List.filterMap g) out s, by
      simp [Node.step, ha, hk, Aligner.single, singleRun, mapKernel, restamp, stampAll]⟩
  | cons p ps =>
    obtain ⟨a, b⟩ := p
    exact ⟨(perChunk (List.filterMap g) out s).map (restampChunk a (b.getD (kindOfIns [s]))), by
      simp [Node.step, ha, hk, Aligner.single, singleRun, mapKernel, restamp, stampAll]⟩

/-- an exhaust node never fails: its aligner hands over ONE chunk (the second call, `RuntimeError`, cannot happen);
NB the exhaust KERNEL alone is not total on all aligned inputs -/
theorem exhaust_node_total (n : Node) (w : List Row → List Row) (out : String) (ha : n.aligner = Aligner.exhaust)
    (hk : n.kernel = exhaustKernel w out) (c : Chunk) (cs : List Chunk) :
    ∃ o, n.step [c :: cs] = .ok [[o]] := by
  simp only [Node.step, ha, hk, Aligner.exhaust, exhaustRun, concatAll, exhaustKernel]
  exact ⟨_, rfl⟩

/-! ## 5. instances that await a layer theorem -/

/-- a stateful plugin kind given by a model over the calls is a chunk homomorphism as soon as the
model's layer theorem (`StreamSpec`) holds -/
theorem stream_hom (ov : List Chunk → Except Err (List Chunk)) (f : List Row → List Row)
    (hspec : StreamSpec ov f) : ChunkHom (streamKernel ov f) :=
  streamKernel_hom hspec

/-- **overlap-window plugins** (C09 `overlap_whole_for_pipeline_partial`): for every window-local computation
`f` (each output row is a function of its input row and of the rows within the window of it) the
state machine of `OverlapWindowPlugin` is a chunk homomorphism — any law-abiding partition of the
input, chunks shorter than the window included, gives the whole-run rows. -/
theorem overlap_hom (f : List Row → List Row) (wl wr : Int) (hf : C09.WindowLocal f wl wr) :
    ChunkHom (overlapKernel f (wl, wr)) :=
  streamKernel_hom (C09.overlap_whole_for_pipeline_partial f wl wr hf)

/-- **`Plugin.iter` is an aligner** (C08 `calls_tile_run`, `rows_inside_call_dep`, with the round-1
`calls_aligned` / `calls_adjacent` / `rows_once_in_order`): on the inputs C08 speaks about — plain
law-abiding streams of run `rid`, one per dependency, all starting at `T0` and ending at `T1`, none
with a trailing zero-duration chunk (`iterGuardB`; the last condition is D16) — whatever
`Align.iterRun` returns is an aligned law-abiding partition of the same rows over `[T0, T1)`.
So `Plugin.iter` can be plugged into `pipeline_content` as the aligner of every node. -/
theorem iter_is_aligner (rid : String) (T0 T1 : Int) (deps : List Align.Dep) (strict : Bool) :
    ∃ A : Aligner, ∀ ins, A.run ins =
      (if iterGuardB rid T0 T1 deps ins then iterAligner deps strict ins else .error .other) :=
  ⟨Aligner.iter rid T0 T1 deps strict, fun _ => rfl⟩

/-- the content of `iter_is_aligner`: on its guard, whatever `Align.iterRun` returns is an aligned law-abiding
partition of the same rows over the run -/
theorem iter_aligner_spec (rid : String) (T0 T1 : Int) (deps : List Align.Dep) (strict : Bool)
    (R : Int × Int) (ins out : List (List Chunk)) (hne : ins ≠ []) (hok : StreamsOK R ins)
    (h : iterAlignerG rid T0 T1 deps strict ins = .ok out) : Aligned R out ∧ out.map rows = ins.map rows :=
  iterAlignerG_spec rid T0 T1 deps strict R ins out hne hok h

/-- Totality of that aligner.  PARTIAL: proved (C08 `converges_partial`) for dependencies of pairwise
different kinds and under `passesSufficeB` ("the re-trim loop does not run out of its ten passes").
Full statement (false of the code as it stands, D9; same-kind totality not yet proved in C08):
  iterGuardB rid T0 T1 deps ins = true → deps ≠ [] → ∃ out, (Aligner.iter …).run ins = .ok out -/
theorem iter_aligner_total_partial (rid : String) (T0 T1 : Int) (deps : List Align.Dep) (strict : Bool)
    (ins : List (List Chunk)) (hg : iterGuardB rid T0 T1 deps ins = true) (hdeps : deps ≠ [])
    (hk : (deps.map (fun d => d.kind)).Nodup) (hp : Align.passesSufficeB deps ins strict = true) :
    ∃ out, (Aligner.iter rid T0 T1 deps strict).run ins = .ok out := by
  have hg' := hg
  simp only [iterGuardB, Bool.and_eq_true, beq_iff_eq] at hg'
  obtain ⟨⟨⟨hlen, hv⟩, hT⟩, he⟩ := hg'
  obtain ⟨r, hr, -⟩ := C08.converges_partial hlen hdeps hv hT he hk hp
  exact ⟨streamsOfCalls deps (ridOf ins) (targetsOf ins) r.calls, by
    simp [Aligner.iter, Aligner.ofSpec, iterAlignerG, hg, iterAligner, hr]⟩

/-- the abstract form: any alignment function with the aligner layer theorem is an `Aligner` -/
theorem aligner_of_spec (f : List (List Chunk) → Except Err (List (List Chunk)))
    (hspec : ∀ R ins out, ins ≠ [] → StreamsOK R ins → f ins = .ok out →
      Aligned R out ∧ out.map rows = ins.map rows) :
    ∃ A : Aligner, A.run = f :=
  ⟨Aligner.ofSpec _ hspec, rfl⟩

/-- `n` touching rows of length 2 starting at `off` -/
def brick (off : Int) (idoff n : Nat) : List Row :=
  (List.range n).map fun (i : Nat) => ⟨2 * Int.ofNat i + off, 2 * Int.ofNat i + off + 2, i + idoff⟩

/-- the ten-pass limit is visible here: on the brick pattern of C08 `ten_pass_counterexample` the
aligner `Plugin.iter` returns an error, so no totality statement holds of it (D9) -/
theorem iter_aligner_not_total_witness :
    ∃ (deps : List Align.Dep) (ins : List (List Chunk)),
      (∀ s ∈ ins, Pipeline.LawAbiding s) ∧ iterAligner deps true ins = .error .runtimeError := by
  refine ⟨[⟨"aa", "ka"⟩, ⟨"bb", "kb"⟩],
    [[⟨"aa", "ka", some "0", 0, 30, brick 0 0 15, none, [⟨"0", 0, 30⟩], 0⟩,
      ⟨"aa", "ka", some "0", 30, 60, brick 30 15 15, none, [⟨"0", 30, 60⟩], 0⟩],
     [⟨"bb", "kb", some "0", 0, 31, brick 1 0 15, none, [⟨"0", 0, 31⟩], 0⟩,
      ⟨"bb", "kb", some "0", 31, 60, brick 31 15 14, none, [⟨"0", 31, 60⟩], 0⟩]],
    by decide +kernel, by decide +kernel⟩

/-! ## 6. the harness vocabulary: what the driver op `c01.whole` computes is what every successful
execution returns -/

/-- For a graph of the harness vocabulary (any plan, any aligner for the two-dependency kinds; the
overlap-window kinds by C09 `overlap_vocab_for_pipeline_partial`): every successful execution returns, for
every data type, the rows the driver computes with `Vocab.wholeV`. -/
theorem vocab_content (vg : List Vocab.VNode) (a2 : Vocab.VNode → Aligner) (plan : Plan) (R : Int × Int) (src env : Env)
    (hsrc : EnvOK R src) (htopo : TopoOrdered (keys src) (vg.map (Vocab.toNode a2)))
    (hst : StoredOK plan.stored R (vg.map (Vocab.toNode a2)) (wenvOf src))
    (h : exec plan (vg.map (Vocab.toNode a2)) src = .ok env) :
    ∃ w, Vocab.wholeV vg (wenvOf src) = .ok w ∧
      ∀ d s, lookup d env = some s → lookup d w = some (rows s) ∧ Pipeline.LawAbiding s ∧ span s = some R := by
  have hhom : ∀ n ∈ vg.map (Vocab.toNode a2), ChunkHom n.kernel := by
    intro n hn
    simp only [List.mem_map] at hn
    obtain ⟨v, hv, rfl⟩ := hn
    simp only [Vocab.toNode]
    cases hk : Vocab.isOverlap v.kind with
    | false => exact Vocab.kernelOf_hom _ _ hk
    | true =>
      cases hkind : v.kind with
      | overlap w => exact Vocab.kernelOf_hom_overlap w _ (C09.overlap_vocab_for_pipeline_partial w)
      | overlap2 wl wr => exact Vocab.kernelOf_hom_overlap2 wl wr _ (overlap2_streamSpec wl wr)
      | _ => simp [hkind, Vocab.isOverlap] at hk
  obtain ⟨w, hw, hall⟩ := pipeline_content _ plan R src env hsrc (hom_of_topo htopo hhom) hst h
  refine ⟨w, ?_, hall⟩
  rw [← Vocab.whole_eq_wholeV a2 vg _ ?_]
  · exact hw
  · -- a node without outputs cannot be part of a topologically ordered graph that executes: its
    -- kernel has at least one output
    intro n hn hout
    have hmem : Vocab.toNode a2 n ∈ vg.map (Vocab.toNode a2) := List.mem_map.2 ⟨n, hn, rfl⟩
    have : ∀ {known : List String} {g : Graph}, TopoOrdered known g → ∀ m ∈ g, m.kernel.nOut = m.provides.length := by
      intro known g
      induction g generalizing known with
      | nil => intro _ m hm; simp at hm
      | cons x g ih =>
        intro ht m hm
        obtain ⟨-, -, -, -, -, h6, h7⟩ := topo_cons ht
        simp only [List.mem_cons] at hm
        rcases hm with rfl | hm
        · exact h6
        · exact ih h7 m hm
    have harity := this htopo _ hmem
    simp only [Vocab.toNode, hout, List.length_nil] at harity
    cases hk : n.kind <;> simp [hk, Vocab.kernelOf, mapKernel, mergeKernel, pairKernel, firstKernel, loopKernel,
      overlapKernel, streamKernel, downKernel, exhaustKernel, restamp, Vocab.rawKernelOf] at harity

/-! ## 7. non-vacuity: concrete instances of every hypothesis -/

/-- a source chunked in two ways (with an empty and a zero-duration chunk) -/
def srcRows : List Row := [⟨1, 3, 100⟩, ⟨4, 6, 101⟩, ⟨6, 9, 102⟩, ⟨12, 13, 103⟩]
def mkC (a b : Int) (rs : List Row) : Chunk := ⟨"sa", "sa", some "0", a, b, rs, none, [⟨"0", a, b⟩], 1⟩
def chunkingA : List Chunk := [mkC 0 4 [⟨1, 3, 100⟩], mkC 4 4 [], mkC 4 10 [⟨4, 6, 101⟩, ⟨6, 9, 102⟩], mkC 10 11 [], mkC 11 14 [⟨12, 13, 103⟩]]
def chunkingB : List Chunk := [mkC 0 14 srcRows]

example : Pipeline.LawAbiding chunkingA ∧ Pipeline.LawAbiding chunkingB ∧ span chunkingA = some (0, 14) ∧ span chunkingB = some (0, 14) ∧
    rows chunkingA = rows chunkingB := by decide

/-- a three-node graph of the vocabulary: row-wise, multi-output (row-wise + filter), same-kind merge -/
def exGraph : List Vocab.VNode :=
  [⟨.map 3, ["sa"], ["t1"]⟩, ⟨.multi 1 2 0, ["t1"], ["t2", "t3"]⟩, ⟨.merge, ["sa", "t2"], ["t4"]⟩]

def idPlan : Plan := ⟨fun _ _ => Transport.ident, []⟩
/-- another plan: every edge re-partitions the stream into one chunk -/
def concatPlan : Plan := ⟨fun _ _ => Transport.concat, []⟩

/-- for the example the two-dependency aligner only ever sees identically chunked inputs -/
def exAligner : Aligner := Aligner.ofSpec
  (fun ins => match ins with
    | [a, b] => if lawAbidingB a && lawAbidingB b && (bounds a == bounds b) then .ok [a, b] else .error .runtimeError
    | _ => .error .other)
  (by
    intro R ins out _ hok h
    match ins, h with
    | [a, b], h =>
      simp only at h
      split at h
      · rename_i hc
        simp only [Bool.and_eq_true, beq_iff_eq] at hc
        cases h
        refine ⟨⟨hok, ?_⟩, rfl⟩
        intro s hs t ht
        simp only [List.mem_cons, List.not_mem_nil, or_false] at hs ht
        rcases hs with rfl | rfl <;> rcases ht with rfl | rfl <;> simp [hc.2]
      · cases h)

example : TopoOrdered ["sa"] (exGraph.map (Vocab.toNode (fun _ => exAligner))) := by decide

/-- the two chunkings and two plans give different streams … -/
example : (exec idPlan (exGraph.map (Vocab.toNode (fun _ => exAligner))) [("sa", chunkingA)]).toOption.map
      (fun env => (lookup "t4" env).map (·.length)) = some (some 5) ∧
    (exec concatPlan (exGraph.map (Vocab.toNode (fun _ => exAligner))) [("sa", chunkingA)]).toOption.map
      (fun env => (lookup "t4" env).map (·.length)) = some (some 1) := by decide +kernel

/-- … with the same rows, those of the whole-run computation the driver evaluates -/
example : (exec idPlan (exGraph.map (Vocab.toNode (fun _ => exAligner))) [("sa", chunkingA)]).toOption.map
      (fun env => (lookup "t4" env).map (fun s => ids (rows s))) = some (some [736200, 753546, 770892, 788238]) ∧
    (exec concatPlan (exGraph.map (Vocab.toNode (fun _ => exAligner))) [("sa", chunkingB)]).toOption.map
      (fun env => (lookup "t4" env).map (fun s => ids (rows s))) = some (some [736200, 753546, 770892, 788238]) ∧
    (Vocab.wholeV exGraph [("sa", srcRows)]).toOption.map (fun w => (lookup "t4" w).map ids)
      = some (some [736200, 753546, 770892, 788238]) := by decide +kernel

/-- storage consistent with the run: `t1` stored as ONE chunk (what a rechunking saver leaves) -/
def storedT1 : List (String × List Chunk) :=
  [("t1", [⟨"t1", "sa", some "0", 0, 14, srcRows.map (Vocab.mapId 3), none, [⟨"0", 0, 14⟩], 1⟩])]

example : storedOKB storedT1 (0, 14) (exGraph.map (Vocab.toNode (fun _ => exAligner))) [("sa", srcRows)] = true ∧
    envOKB (0, 14) [("sa", chunkingA)] = true := by decide +kernel

/-- the hypotheses of the kind instances hold of the vocabulary's functions -/
example : IntervalPreserving (Vocab.gMap 3) ∧ IntervalPreserving (Vocab.gFilter 2 0) ∧
    KeepsFirstInterval Vocab.mergeId ∧ KeepsBaseInterval Vocab.loopId :=
  ⟨Vocab.gMap_ip 3, Vocab.gFilter_ip 2 0, Vocab.mergeId_kfi, Vocab.loopId_kbi⟩

example : SubOK (onePiece (Vocab.gMap 3) "t9") (Vocab.gMap 3) := subOK_onePiece (Vocab.gMap_ip 3) _

example : RangeLaw (Vocab.exhaustWhole 2) :=
  rangeLaw_of_map (f := fun all r => Vocab.exhaustId 2 all.length r) (fun all r => by simp [Vocab.exhaustId])

/-- loop kernel on an aligned partition: bases and the things inside them, cut at the same times -/
example : (loopKernel Vocab.loopId "t5").chunked
      [[mkC 0 10 [⟨1, 5, 1⟩, ⟨6, 9, 2⟩], mkC 10 20 [⟨10, 15, 3⟩]],
       [mkC 0 10 [⟨1, 2, 10⟩, ⟨3, 5, 11⟩, ⟨5, 7, 12⟩, ⟨7, 9, 13⟩], mkC 10 20 [⟨11, 12, 14⟩]]]
    = .ok [[⟨"t5", "sa", some "0", 0, 10, [⟨1, 5, 66⟩, ⟨6, 9, 82⟩], none, [⟨"0", 0, 10⟩], 1⟩,
            ⟨"t5", "sa", some "0", 10, 20, [⟨10, 15, 114⟩], none, [⟨"0", 10, 20⟩], 1⟩]] := by decide +kernel

/-- `Plugin.iter` as an aligner on a concrete input: two dependencies of different kinds, one chunked
into five pieces (with an empty and a zero-duration chunk), one in a single chunk; the guard holds
and the result is the common partition of both, rows unchanged -/
example : iterGuardB "0" 0 14 [⟨"sa", "sa"⟩, ⟨"sb", "sb"⟩] [chunkingA, chunkingB] = true ∧
    ((Aligner.iter "0" 0 14 [⟨"sa", "sa"⟩, ⟨"sb", "sb"⟩] true).run [chunkingA, chunkingB]).toOption.map
        (fun o => o.map bounds)
      = some [[(0, 4), (4, 4), (4, 10), (10, 11), (11, 14)], [(0, 4), (4, 4), (4, 10), (10, 11), (11, 14)]] ∧
    ((Aligner.iter "0" 0 14 [⟨"sa", "sa"⟩, ⟨"sb", "sb"⟩] true).run [chunkingA, chunkingB]).toOption.map
        (fun o => o.map (fun s => ids (rows s)))
      = some [[100, 101, 102, 103], [100, 101, 102, 103]] := by decide +kernel

/-- the plain-stream guard of the rechunk transport holds of an ordinary stream -/
example : plainStreamB chunkingA = true := by decide +kernel

/-! ## 8. `pipeline_correct` instantiated: `Plugin.iter` + a rechunking edge + a stored intermediate

`t1 = pairfirst(sa, sb)` aligned by `Aligner.iter` (C08), `t2 = map(t1)` behind a rechunking edge (C07), stored as one
chunk and therefore taken from storage, `t3 = filter(t2)`.  Every hypothesis of `pipeline_correct` is discharged by
the instance theorems (`iter_first_step_total_partial`, `rechunk_totalOn_plain`, `ident_totalOn`, `map_node_total`,
`Vocab.kernelOf_hom`, `storedOK_of_B`); `decide` only evaluates their decidable side conditions on the concrete
streams (guard, `passesSufficeB`, `plainStreamB`, topological order, `storedOKB`). -/

def exSb : List Chunk :=
  [⟨"sb", "sb", some "0", 0, 9, [⟨2, 3, 200⟩, ⟨5, 8, 201⟩], none, [⟨"0", 0, 9⟩], 1⟩,
   ⟨"sb", "sb", some "0", 9, 14, [⟨12, 14, 202⟩], none, [⟨"0", 9, 14⟩], 1⟩]
def exDeps : List Align.Dep := [⟨"sa", "sa"⟩, ⟨"sb", "sb"⟩]
def exIter : Vocab.VNode → Aligner := fun _ => Aligner.iter "0" 0 14 exDeps true
def exGraph2 : List Vocab.VNode :=
  [⟨.pairfirst 3, ["sa", "sb"], ["t1"]⟩, ⟨.map 1, ["t1"], ["t2"]⟩, ⟨.filter 2 0, ["t2"], ["t3"]⟩]
/-- what a rechunking saver left of `t2`: one chunk -/
def exStoredT2 : List Chunk :=
  [⟨"t2", "sa", some "0", 0, 14, (srcRows.map (Vocab.mapId 3)).map (Vocab.mapId 1), none, [⟨"0", 0, 14⟩], 1⟩]
def exPlan : Plan := ⟨fun c _ => if c = "t2" then Transport.rechunk else Transport.ident, [("t2", exStoredT2)]⟩
def exSrc : Env := [("sa", chunkingA), ("sb", exSb)]
/-- the stream types: the two sources are the given chunkings, `t1` must be a plain stream (it feeds the rechunker) -/
def exP (d : String) (s : List Chunk) : Prop :=
  if d = "sa" then s = chunkingA else if d = "sb" then s = exSb else if d = "t1" then plainStreamB s = true else True

theorem example_correct :
    ∃ env w, exec exPlan (exGraph2.map (Vocab.toNode exIter)) exSrc = .ok env ∧
      whole (exGraph2.map (Vocab.toNode exIter)) (wenvOf exSrc) = .ok w ∧
      ∀ d s, lookup d env = some s → lookup d w = some (rows s) ∧ Pipeline.LawAbiding s ∧ span s = some (0, 14) := by
  refine pipeline_correct _ exPlan (0, 14) exP exSrc (by decide) ((envOKB_iff _ _).1 (by decide +kernel)) ?_ ?_ ?_
    (storedOK_of_B (by decide +kernel))
  · intro p hp
    simp only [exSrc, List.mem_cons, List.not_mem_nil, or_false] at hp
    rcases hp with rfl | rfl <;> simp [exP]
  · intro d s hl
    simp only [exPlan, lookup] at hl
    split at hl
    · rename_i hd; subst hd; simp [exP]
    · cases hl
  · intro n hn
    simp only [exGraph2, List.map_cons, List.map_nil, List.mem_cons, List.not_mem_nil, or_false] at hn
    rcases hn with rfl | rfl | rfl
    · -- t1 = pairfirst(sa, sb) behind `Plugin.iter`
      refine ⟨Vocab.kernelOf_hom _ _ rfl, node_total_of_edges _ (0, 14) exP exP _ ?_ ?_⟩
      · intro d _
        exact ident_totalOn _
      · intro ins hlen hall
        obtain ⟨a, b, rfl⟩ := length_two (by simpa [Vocab.toNode] using hlen)
        have ha := hall ("sa", a) (by simp [Vocab.toNode])
        have hb := hall ("sb", b) (by simp [Vocab.toNode])
        have ea : a = chunkingA := by simpa [exP] using ha.2.2
        have eb : b = exSb := by simpa [exP] using hb.2.2
        subst ea; subst eb
        obtain ⟨o, ho, hplain, -, -⟩ := iter_first_step_total_partial "0" 0 14 exDeps true (Vocab.gMap 3) "t1"
          (Vocab.gMap_ip 3) (Vocab.toNode exIter ⟨.pairfirst 3, ["sa", "sb"], ["t1"]⟩) rfl rfl chunkingA exSb
          (by decide +kernel) (by decide +kernel)
          (by intro s hs; simp only [List.mem_cons, List.not_mem_nil, or_false] at hs
              rcases hs with rfl | rfl
              · exact ⟨ha.1, ha.2.1⟩
              · exact ⟨hb.1, hb.2.1⟩)
          (by decide) (by decide +kernel)
        exact ⟨[o], ho, rfl, by intro p hp; simp [Vocab.toNode] at hp; subst hp; simpa [exP] using hplain⟩
    · -- t2 = map(t1) behind a rechunking edge
      refine ⟨Vocab.kernelOf_hom _ _ rfl, node_total_of_edges _ (0, 14) exP (fun _ _ => True) _ ?_ ?_⟩
      · intro d hd
        simp only [Vocab.toNode, List.mem_cons, List.not_mem_nil, or_false] at hd
        subst hd
        have : exP "t1" = fun s => plainStreamB s = true := by funext s; simp [exP]
        simpa [exPlan, Vocab.toNode, Vocab.out0, this] using rechunk_totalOn_plain
      · intro ins hlen _
        obtain ⟨s, rfl⟩ := List.length_eq_one_iff.mp (by simpa [Vocab.toNode] using hlen)
        obtain ⟨o, ho⟩ := map_node_total (Vocab.toNode exIter ⟨.map 1, ["t1"], ["t2"]⟩) (Vocab.gMap 1) "t2" _ rfl rfl s
        exact ⟨[o], ho, rfl, by intro p hp; simp [Vocab.toNode] at hp; subst hp; simp [exP]⟩
    · -- t3 = filter(t2)
      refine ⟨Vocab.kernelOf_hom _ _ rfl, node_total_of_edges _ (0, 14) exP exP _ ?_ ?_⟩
      · intro d _
        exact ident_totalOn _
      · intro ins hlen _
        obtain ⟨s, rfl⟩ := List.length_eq_one_iff.mp (by simpa [Vocab.toNode] using hlen)
        obtain ⟨o, ho⟩ := map_node_total (Vocab.toNode exIter ⟨.filter 2 0, ["t2"], ["t3"]⟩) (Vocab.gFilter 2 0) "t3" _ rfl rfl s
        exact ⟨[o], ho, rfl, by intro p hp; simp [Vocab.toNode] at hp; subst hp; simp [exP]⟩

/-- … and its conclusion evaluated: whatever environment `exec` returns (the rechunker does not even have to be run
to know this), `t3` carries exactly the ids of the whole-run computation, which is what the driver's `c01.whole`
prints for this graph -/
example : ∀ env, exec exPlan (exGraph2.map (Vocab.toNode exIter)) exSrc = .ok env →
    ∀ s, lookup "t3" env = some s → ids (rows s) = [97155, 99077] ∧ Pipeline.LawAbiding s ∧ span s = some (0, 14) := by
  intro env he s hs
  obtain ⟨env', w, he', hw, hall⟩ := example_correct
  rw [he] at he'
  cases he'
  obtain ⟨h1, h2, h3⟩ := hall "t3" s hs
  have hev : ((whole (exGraph2.map (Vocab.toNode exIter)) (wenvOf exSrc)).toOption.bind (lookup "t3")).map ids
      = some [97155, 99077] := by decide +kernel
  rw [hw] at hev
  simp only [Except.toOption, Option.bind_some, h1, Option.map_some, Option.some.injEq] at hev
  exact ⟨hev, h2, h3⟩

example : (Vocab.wholeV exGraph2 [("sa", srcRows), ("sb", rows exSb)]).toOption.map (fun w => (lookup "t3" w).map ids)
    = some (some [97155, 99077]) := by decide +kernel

end Strax.C01
