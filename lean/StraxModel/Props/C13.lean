import StraxModel.Model.Basic
namespace Strax.C13
open Strax

end Strax.C13
