import StraxModel.Props.C05
/-
  C13 — production is limited by demand and buffer capacity: the mailbox-level theorems.
  (Pipeline-level statements — bound on the emissions after the consumer stops — live in Props/C13Net.lean.)

  `lazy_gate` is about the rule `_can_fetch` uses to decide that "nobody still has to wake up":
    * `GateRule.lowest`  `len(heap) and any(x is not None and x <= lowest …)`   — the code as found (defect D6)
    * `GateRule.hasMsg`  `any(x is not None and self._has_msg(x) …)`            — the repaired rule
  The model carries both; the check reads off `/repo`'s source which one is in force.
-/
namespace Strax.C13
open Strax Strax.Mailbox

/-- capacity, restated for pipeline mailboxes: `ThreadedMailboxProcessor` overwrites `max_messages` on every
mailbox, so a lazy mailbox inside a pipeline has a finite capacity too and never buffers more -/
theorem capacity_inv (c : Config) (s : Sys) (h : Reachable c s) (k : Nat) (hc : c.cap = some k) :
    s.mb.heap.length ≤ k :=
  Strax.C05.capacity_inv c s h k hc     -- one theorem: this is C05's, restated under C13's name for its evidence

/-- **the lazy gate** (repaired rule): in every reachable state of a lazy mailbox in which the sender is
about to advance the source (`spc = fetch`: its next action is `next(iterable)`) and the mailbox has not been
killed, some driving subscriber waits for a message number that is not in the buffer.
The hypothesis `killed = false` is necessary: `_can_fetch` answers `True` on a killed mailbox so that the
sender runs into `send` and finds out; after a kill without `upstream` every `send` is dropped and
`_send_from` drains the whole source without any demand. -/
theorem lazy_gate (c : Config) (s : Sys) (h : Reachable c s) (hr : c.gateRule = .hasMsg) (hl : c.lazy = true)
    (hpc : s.spc = .fetch) (hk : s.mb.killed = false) : GateOk s.mb := by
  have hs := Static.reachable h
  have e2 : s.mb.lazy = c.lazy := congrArg (fun x => x.2.1) hs
  have e3 : s.mb.gateRule = c.gateRule := congrArg (fun x => x.2.2.1) hs
  exact Gate.reachable h hpc (by rw [e2, hl]) hk (by rw [e3, hr])

/-- the same as a statement about transitions: every step of the sender that consumes an item of the source
starts in a state satisfying the gate condition -/
theorem lazy_gate_step (c : Config) (s s' : Sys) (h : Reachable c s) (hr : c.gateRule = .hasMsg) (hl : c.lazy = true)
    (hst : step s .sender = some s') (hadv : s'.prog ≠ s.prog) (hk : s.mb.killed = false) : GateOk s.mb := by
  have hpc : s.spc = .fetch := by
    simp only [step, stepSender] at hst
    split at hst
    · split at hst
      · simp at hst
      · simp only [Option.some.injEq] at hst; subst hst; exact absurd rfl hadv
    · assumption
    · split at hst
      · simp at hst
      all_goals (simp only [Option.some.injEq] at hst; subst hst; exact absurd rfl hadv)
    · split at hst
      · simp at hst
      all_goals (simp only [Option.some.injEq] at hst; subst hst; exact absurd rfl hadv)
    · simp only [Option.some.injEq] at hst; subst hst; exact absurd rfl hadv
    · simp at hst
    · simp at hst
  exact lazy_gate c s h hr hl hpc hk

/-! ### the rule as found (D6) -/

/-- a driving subscriber `R0` and a lagging non-driving one `R1`, two messages, no capacity limit -/
def d6Cfg : Config :=
  { cap := none, lazy := true, gateRule := .lowest, drive := [true, false],
    prog := [.item none (.plain 10), .item none (.plain 20)], workers := [], killers := [] }

/-- `R0` asks for 0, gets it, asks for 1; the sender sends 1 (notifying `R0`, which is not scheduled) and
passes the gate again: `waiting_for = [1, None]`, heap `{0, 1}`, and `1 <= lowest = 0` is false -/
def d6Sched : List ThreadId :=
  [.sender, .reader 0, .sender, .sender, .sender, .reader 0, .reader 0, .sender, .sender, .sender, .sender]

/-- with the rule as found, `lazy_gate` is false: a reachable state (by the schedule above) of a lazy,
un-killed mailbox whose sender is about to advance the source although the only driving subscriber waits
for message 1, which is already in the buffer -/
theorem lazy_gate_old_counterexample :
    ∃ s, Reachable d6Cfg s ∧ d6Cfg.lazy = true ∧ s.spc = .fetch ∧ s.mb.killed = false ∧ ¬ GateOk s.mb := by
  have hrun : ∃ s, run? (init d6Cfg) d6Sched = some s ∧ s.spc = .fetch ∧ s.mb.killed = false ∧ gateOkB s.mb = false := by
    decide
  obtain ⟨s, h1, h2, h3, h4⟩ := hrun
  refine ⟨s, Reachable.of_run h1, rfl, h2, h3, ?_⟩
  rw [← gateOkB_iff, h4]; simp

/-- what the rule as found does guarantee, at the moment the gate lets the sender through (un-killed
mailbox): a driving subscriber waits for a number `x` that is missing from the buffer OR some message with a
lower number is still buffered (some subscriber lags behind the driver: exactly the D6 situation) -/
theorem lazy_gate_old_partial (c : Config) (s : Sys) (mb' : MB) (h : Reachable c s) (hr : c.gateRule = .lowest)
    (hg : s.mb.gateStep = some (true, mb')) (hk : s.mb.killed = false) : GateWeak s.mb := by
  have hs := Static.reachable h
  have e3 : s.mb.gateRule = c.gateRule := congrArg (fun x => x.2.2.1) hs
  simp only [MB.gateStep] at hg
  split at hg
  · simp at hg
  · split at hg
    · rename_i hc; exact canFetch_gateWeak hc hk (by rw [e3, hr])
    · simp at hg

/-- … so the gate as found is right whenever no message below the awaited number is buffered (no lagging reader);
`_partial`: the extra hypothesis `hlag` excludes exactly the D6 situation (`lazy_gate_old_counterexample`) -/
theorem lazy_gate_old_no_lag_partial (c : Config) (s : Sys) (mb' : MB) (h : Reachable c s) (hr : c.gateRule = .lowest)
    (hg : s.mb.gateStep = some (true, mb')) (hk : s.mb.killed = false)
    (hlag : ∀ sub ∈ s.mb.subs, ∀ x, sub.waitingFor = some x → ∀ e ∈ s.mb.heap, x ≤ e.1) : GateOk s.mb := by
  obtain ⟨sub, hm, hd, x, hx, hor⟩ := lazy_gate_old_partial c s mb' h hr hg hk
  refine ⟨sub, hm, hd, x, hx, ?_⟩
  rcases hor with h1 | ⟨e, he, hlt⟩
  · exact h1
  · have := hlag sub hm x hx e he; omega

/-! ### non-vacuity -/

/-- the repaired rule on the D6 schedule: the second pass through the gate is refused — the sender blocks on
`_fetch_new_condition` instead of reaching `fetch` -/
example : ∃ s, run? (init { d6Cfg with gateRule := .hasMsg }) d6Sched = some s ∧
    s.spc = .gate ∧ s.mb.fetchFlag = some false := by decide

/-- a lazy run under the repaired rule in which the sender does reach `fetch` with live demand -/
example : ∃ s, run? (init { d6Cfg with gateRule := .hasMsg }) [.sender, .reader 0, .sender] = some s ∧
    s.spc = .fetch ∧ s.mb.killed = false ∧ gateOkB s.mb = true := by decide

end Strax.C13
