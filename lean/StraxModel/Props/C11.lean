import StraxModel.Lemmas.Components
import StraxModel.Generated.ShouldSave
/-
  C11 — only what is missing is computed, and only what policy allows is saved.

  Totality: `getComponents_ok_iff` / `errors_iff` say exactly when a request succeeds and when it ends in an
  explicit error (hypotheses: `topoOrdered g` and unique providers `(allTypes g).Nodup`, both decidable, both
  evaluated on every generated graph by the driver op `c11.topo`; they exclude cyclic graphs, where the real
  `_get_plugins` recursion never returns, and graphs in which two plugins claim the same data type).
  `request_succeeds_and_is_correct` combines both halves into the full-strength statement.
  The theorems stated with a hypothesis `getComponents env = .ok c` (`computed_iff`, `loaded_iff`, `plugin_runs_iff`,
  `one_origin`, `origins_unique`, `savers_iff_policy`, `savers_where`, `partial_never_saves`, `target_policy_saved`) are
  the partial-correctness half; WHEN that hypothesis holds is `getComponents_ok_iff`.  They are about
  `Strax.Components.getComponents` (model of `Context.get_components`) and hold for
  EVERY graph, stored state, target / save choice, modifier and context option for which the function returns
  normally — no hypothesis on the graph is needed for them: the `seen` guard makes the traversal well defined
  even on cyclic graphs.  Acyclicity (decidable witness `topoOrdered`: the list order is a topological order)
  is only needed for `acyclic_no_recursion_error`: the recursion bound of the model is never hit.
  `Reach env t` = "t lies on a path from a target down to the nearest stored (loadable) types".
-/
namespace Strax.C11
open Strax Strax.Components

/-! ### the translator output equals the model (re-proved on every run against the current source) -/

theorem gen_eq_model : Generated.shouldSave = Components.shouldSave := by
  funext pol t s
  cases pol <;> cases t <;> cases s <;> rfl

theorem gen_values_eq_model : Generated.saveWhenValue = SaveWhen.toNat := by
  funext p
  cases p <;> rfl

/-! ### the save policy table -/

/-- what the property says about the four policies -/
def policySays (pol : SaveWhen) (isTarget inSave : Bool) : Bool :=
  match pol with
  | .always => true
  | .target => isTarget
  | .explicit => inSave
  | .never => false

/-- `_target_should_be_saved` over its whole (finite) domain: NEVER × listed in `save` is an error,
everything else is the policy table -/
theorem shouldSave_table : ∀ (pol : SaveWhen) (isTarget inSave : Bool),
    shouldSave pol isTarget inSave =
      if pol = .never ∧ inSave = true then .error .valueError else .ok (policySays pol isTarget inSave) := by
  intro pol isTarget inSave
  cases pol <;> cases isTarget <;> cases inSave <;> rfl

/-- output `d` of plugin `p` is to be saved according to its policy, the targets and the `save` argument -/
def PolicySaves (env : Env) (p : Plugin) (d : String) : Prop :=
  ∃ pol, p.policy d = some pol ∧ policySays pol ((finalTargets env).contains d) (env.save.contains d) = true

/-- lifting lemma: the call made by the traversal says "save" exactly when the table does -/
theorem shouldSaveFor_true_iff (env : Env) (p : Plugin) (d : String) :
    shouldSaveFor env p d = .ok true ↔ PolicySaves env p d := by
  unfold shouldSaveFor PolicySaves
  cases hpol : p.policy d with
  | none => simp
  | some pol =>
    simp only [Option.some.injEq, exists_eq_left']
    rw [shouldSave_table]
    cases pol <;> cases (finalTargets env).contains d <;> cases env.save.contains d <;> simp [policySays]

/-! ### what is computed, what is loaded -/

/-- A data type is computed iff it is needed (on a path from the targets down to the nearest stored types)
and not itself stored.  (Partial correctness; when the call succeeds: `getComponents_ok_iff`.) -/
theorem computed_iff {env : Env} {c : Components} (h : getComponents env = .ok c) (t : String) :
    t ∈ c.plugins ↔ Reach env t ∧ loadable env t = false := by
  obtain ⟨st, _, hp, _, hinv, _, hseen⟩ := getComponents_spec h
  rw [hp, hinv.comp t, hseen t]

/-- Everything else that is needed is loaded, from the first frontend (fastest storage type first, then
context order) that has it.  (Partial correctness; totality: `getComponents_ok_iff`.) -/
theorem loaded_iff {env : Env} {c : Components} (h : getComponents env = .ok c) (t : String) (i : Nat) :
    (t, i) ∈ c.loaders ↔ Reach env t ∧ loaderFor env t = some i := by
  obtain ⟨st, hl, _, _, hinv, _, hseen⟩ := getComponents_spec h
  rw [hl, hinv.load t i, hseen t]

/-- plugin `p` has to run: one of the data types it is registered for is on the compute list -/
def Runs (env : Env) (c : Components) (p : Plugin) : Prop :=
  ∃ o ∈ p.provides, pluginFor env.g o = some p ∧ o ∈ c.plugins

/-- The property's wording at plugin level: a plugin runs iff one of its outputs lies on a path from the
targets down to the nearest stored types and is not itself stored. -/
theorem plugin_runs_iff {env : Env} {c : Components} (h : getComponents env = .ok c) (p : Plugin) :
    Runs env c p ↔ ∃ o ∈ p.provides, pluginFor env.g o = some p ∧ Reach env o ∧ loadable env o = false := by
  unfold Runs
  constructor
  · rintro ⟨o, ho, hp, hc⟩; exact ⟨o, ho, hp, (computed_iff h o).1 hc⟩
  · rintro ⟨o, ho, hp, hc⟩; exact ⟨o, ho, hp, (computed_iff h o).2 hc⟩

/-- Every needed data type has exactly one origin: either a loader or a plugin, never both, never none.
(About the returned components; partial correctness, totality: `getComponents_ok_iff`.) -/
theorem one_origin {env : Env} {c : Components} (h : getComponents env = .ok c) (t : String)
    (hr : Reach env t) :
    (t ∈ c.plugins ∧ t ∉ c.loaders.map (·.1)) ∨ (t ∉ c.plugins ∧ t ∈ c.loaders.map (·.1)) := by
  have hmem : ∀ t, t ∈ c.loaders.map (·.1) ↔ ∃ i, (t, i) ∈ c.loaders := by
    intro t
    simp only [List.mem_map]
    constructor
    · rintro ⟨⟨u, i⟩, he, rfl⟩; exact ⟨i, he⟩
    · rintro ⟨i, he⟩; exact ⟨(t, i), he, rfl⟩
  cases hl : loaderFor env t with
  | none =>
    left
    refine ⟨(computed_iff h t).2 ⟨hr, not_loadable_of_loaderFor hl⟩, fun hc => ?_⟩
    obtain ⟨i, hi⟩ := (hmem t).1 hc
    have := ((loaded_iff h t i).1 hi).2
    rw [hl] at this; cases this
  | some i =>
    right
    refine ⟨fun hc => ?_, (hmem t).2 ⟨i, (loaded_iff h t i).2 ⟨hr, hl⟩⟩⟩
    have := ((computed_iff h t).1 hc).2
    rw [loadable_of_loaderFor hl] at this; cases this

/-- ... and exactly once: no data type is listed twice among the plugins or among the loaders, and no data
type is listed in both (the `both computed and loaded?!` RuntimeError of `get_components` is unreachable). -/
theorem origins_unique {env : Env} {c : Components} (h : getComponents env = .ok c) :
    c.plugins.Nodup ∧ (c.loaders.map (·.1)).Nodup ∧ ∀ t, ¬ (t ∈ c.plugins ∧ t ∈ c.loaders.map (·.1)) := by
  obtain ⟨st, hl, hp, _, hinv, _, _⟩ := getComponents_spec h
  refine ⟨hp ▸ hinv.comp_nodup, hl ▸ hinv.load_nodup, ?_⟩
  rintro t ⟨hc, hld⟩
  rw [hp] at hc; rw [hl] at hld
  simp only [List.mem_map] at hld
  obtain ⟨⟨u, i⟩, he, rfl⟩ := hld
  have h1 := ((hinv.comp u).1 hc).2
  have h2 := ((hinv.load u i).1 he).2
  rw [loadable_of_loaderFor h2] at h1; cases h1

/-! ### what is saved -/

/-- For a complete (not partial / fuzzy / incomplete-tolerant) request, a data type gets a saver iff it is an
output of a plugin that runs for a non-temporary computed type, is not itself stored, its policy says so
(table over SaveWhen × is-target × in-save), and some writable frontend accepts it.
(Partial correctness; totality: `getComponents_ok_iff`; both together: `request_succeeds_and_is_correct`.) -/
theorem savers_iff_policy {env : Env} {c : Components} (h : getComponents env = .ok c)
    (hp : env.partialReq = false) (d : String) :
    d ∈ c.savers.map (·.1) ↔
      ∃ u ∈ c.plugins, isTemp u = false ∧ ∃ p, pluginFor env.g u = some p ∧ d ∈ p.provides ∧
        loadable env d = false ∧ PolicySaves env p d ∧ writableFor env d ≠ [] := by
  obtain ⟨st, _, hpl, hs, hinv, hstep, _⟩ := getComponents_spec h
  rw [hs, hstep.savers hp d, hpl]
  simp only [List.map_nil, List.not_mem_nil, false_or, not_false_eq_true, true_and]
  constructor
  · rintro ⟨u, hu, hl, ht, p, hpf, hd, hld, hsh, hw⟩
    exact ⟨u, (hinv.comp u).2 ⟨hu, hl⟩, ht, p, hpf, hd, hld, (shouldSaveFor_true_iff env p d).1 hsh, hw⟩
  · rintro ⟨u, hu, ht, p, hpf, hd, hld, hsh, hw⟩
    obtain ⟨hus, hl⟩ := (hinv.comp u).1 hu
    exact ⟨u, hus, hl, ht, p, hpf, hd, hld, (shouldSaveFor_true_iff env p d).2 hsh, hw⟩

/-- Where it is saved: in every writable frontend that accepts the type (fastest first), at most one entry
per data type. -/
theorem savers_where {env : Env} {c : Components} (h : getComponents env = .ok c) :
    (∀ e ∈ c.savers, e.2 = writableFor env e.1 ∧ e.2 ≠ []) ∧ (c.savers.map (·.1)).Nodup := by
  obtain ⟨st, _, _, hs, hinv, _, _⟩ := getComponents_spec h
  rw [hs]; exact hinv.sav

/-- A partial request (time range, selection, column projection), a fuzzy one or one tolerant of incomplete
data never saves anything.  (Partial correctness; totality: `getComponents_ok_iff`.) -/
theorem partial_never_saves {env : Env} {c : Components} (h : getComponents env = .ok c)
    (hp : env.partialReq = true) : c.savers = [] := by
  obtain ⟨st, _, _, hs, _, hstep, _⟩ := getComponents_spec h
  rw [hs, hstep.savers_partial hp]

/-! ### explicit errors -/

/-- (Sufficient condition; `errors_iff` below is the exact characterisation.  The error raised at `t` itself is
`DataNotAvailable`; the request may end in another kind only if an error raised earlier in the traversal wins: the
`ValueError` of a NEVER-policy type listed in `save=` scanned before `t`, or a `KeyError`/one-letter `ValueError`
raised before the traversal starts.)
A needed, not stored data type whose creation is forbidden by the context (`forbid_creation_of` lists it
or `*`; `starForbids` = `*` is listed and applies to this type), or that is always / as-target saved while a time range is requested, makes the request fail instead
of being computed. -/
theorem forbidden_raises {env : Env} {t : String} (hr : Reach env t) (hl : loadable env t = false)
    (hf : starForbids env t = true ∨ env.opts.forbid.contains t = true ∨
      (env.mods.timeRange = true ∧ ∃ p pol, pluginFor env.g t = some p ∧ p.policy t = some pol ∧
        pol.toNat > SaveWhen.explicit.toNat)) :
    ∃ e, getComponents env = .error e := by
  cases hc : getComponents env with
  | error e => exact ⟨e, rfl⟩
  | ok c =>
    exfalso
    obtain ⟨st, _, _, _, _, hstep, hseen⟩ := getComponents_spec hc
    obtain ⟨p, pol, hp, hpol, h1, h2, h3, _⟩ := hstep.good t ((hseen t).2 hr) (by simp) hl
    rcases hf with hf | hf | ⟨htr, p', pol', hp', hpol', hgt⟩
    · rw [h1] at hf; cases hf
    · rw [h2] at hf; cases hf
    · rw [hp] at hp'; cases hp'
      rw [hpol] at hpol'; cases hpol'
      exact h3 ⟨htr, hgt⟩

/-- Asking to save (`save=`) a needed, not stored, non-temporary data type whose policy is NEVER makes the
request fail. -/
theorem never_save_in_save_raises {env : Env} {t : String} {p : Plugin} (hr : Reach env t)
    (hl : loadable env t = false) (ht : isTemp t = false) (hp : pluginFor env.g t = some p)
    (hpol : p.policy t = some .never) (hs : env.save.contains t = true) :
    ∃ e, getComponents env = .error e := by
  cases hc : getComponents env with
  | error e => exact ⟨e, rfl⟩
  | ok c =>
    exfalso
    obtain ⟨st, _, _, _, _, hstep, hseen⟩ := getComponents_spec hc
    obtain ⟨p', pol, hp', _, _, _, _, hnev⟩ := hstep.good t ((hseen t).2 hr) (by simp) hl
    rw [hp] at hp'; cases hp'
    obtain ⟨b, hb⟩ := hnev.neverOk ht
    have hs' : t ∈ env.save := by simpa using hs
    simp [shouldSaveFor, hpol, shouldSave, hs'] at hb

/-- source `aa` (ALWAYS) ← multi-output (`bb` TARGET, `cc` EXPLICIT) ← `dd` (NEVER) -/
def exGraph : Graph :=
  [⟨[("aa", .always)], []⟩, ⟨[("bb", .target), ("cc", .explicit)], ["aa"]⟩, ⟨[("dd", .never)], ["bb"]⟩]

/-- `aa` is stored in the only frontend, `dd` is requested, `cc` is listed in `save=` -/
def exEnv : Env := ⟨exGraph, [{ complete := ["aa"] }], ["dd"], ["cc"], {}, {}, {}⟩

/-! ### exactly when a request succeeds and when it ends in an explicit error (totality) -/

/-- `_get_plugins` succeeds: every data type in the dependency closure of the targets has a registered provider -/
def Registered (env : Env) : Prop := resolveAll (resolve env.g (fuelFor env.g)) env.targets = .ok ()

/-- every needed type has a registered provider once `_get_plugins` succeeded -/
theorem registered_plugins {env : Env} (h : Registered env) {t : String} (hr : Reach env t) :
    ∃ p, pluginFor env.g t = some p :=
  res_plugin (reach_res h hr)

/-- output `d` of plugin `p` has policy NEVER and is listed in `save=` -/
def NeverListed (env : Env) (p : Plugin) (d : String) : Prop :=
  p.policy d = some .never ∧ env.save.contains d = true

/-- `_target_should_be_saved` raises exactly for a NEVER-policy type listed in `save=` -/
theorem shouldSaveFor_ok_iff (env : Env) {p : Plugin} {d : String} (hd : d ∈ p.provides) :
    (∃ b, shouldSaveFor env p d = .ok b) ↔ ¬ NeverListed env p d := by
  obtain ⟨pol, hpol⟩ := policy_of_provides hd
  unfold shouldSaveFor NeverListed
  rw [hpol]
  cases pol <;> cases hs : env.save.contains d <;> simp [shouldSave]

/-- The needed, not stored type `t` may be created and scanning it raises nothing:
  * the context does not forbid its creation (neither by name nor by `*`),
  * no time range is requested, or its policy is NEVER / EXPLICIT (an always- or target-saved type is expected to
    be stored when a time range is selected),
  * unless `t` is a temporary merge type: `t` is not a NEVER-policy type listed in `save=`, and — when the request
    is complete and the saver loop is reached (t is to be saved, or its plugin has several outputs) — none of the
    not stored outputs of its plugin is a NEVER-policy type listed in `save=`. -/
def Creatable (env : Env) (t : String) : Prop :=
  ∃ p pol, pluginFor env.g t = some p ∧ p.policy t = some pol ∧
    starForbids env t = false ∧ env.opts.forbid.contains t = false ∧
    ¬ (env.mods.timeRange = true ∧ pol.toNat > SaveWhen.explicit.toNat) ∧
    (isTemp t = false → ¬ NeverListed env p t ∧
      (env.partialReq = false → (PolicySaves env p t ∨ p.multiOutput = true) →
        ∀ d ∈ p.provides, loadable env d = false → ¬ NeverListed env p d))

/-- `Creatable` is exactly the set of checks the traversal makes (`Good`) -/
theorem creatable_iff_good (env : Env) (t : String) : Creatable env t ↔ Good env t := by
  unfold Creatable Good
  constructor
  · rintro ⟨p, pol, hp, hpol, h1, h2, h3, hc⟩
    refine ⟨p, pol, hp, hpol, h1, h2, h3, ?_⟩
    have htp := pluginFor_provides hp
    cases htemp : isTemp t with
    | true => exact .inl htemp
    | false =>
      obtain ⟨hnl, hloop⟩ := hc htemp
      obtain ⟨b, hb⟩ := (shouldSaveFor_ok_iff env htp).2 hnl
      refine .inr ⟨b, hb, ?_⟩
      cases hpart : env.partialReq with
      | true => exact .inr (.inl rfl)
      | false =>
        cases hm : p.multiOutput with
        | true =>
          exact .inr (.inr fun d hd hl => (shouldSaveFor_ok_iff env hd).2 (hloop hpart (.inr hm) d hd hl))
        | false =>
          cases b with
          | false => exact .inl ⟨rfl, rfl⟩
          | true =>
            exact .inr (.inr fun d hd hl => (shouldSaveFor_ok_iff env hd).2
              (hloop hpart (.inl ((shouldSaveFor_true_iff env p t).1 hb)) d hd hl))
  · rintro ⟨p, pol, hp, hpol, h1, h2, h3, hs⟩
    refine ⟨p, pol, hp, hpol, h1, h2, h3, fun htemp => ?_⟩
    have htp := pluginFor_provides hp
    rcases hs with h | ⟨b, hb, hrest⟩
    · rw [htemp] at h; cases h
    · refine ⟨(shouldSaveFor_ok_iff env htp).1 ⟨b, hb⟩, fun hpart hcond d hd hl => ?_⟩
      rcases hrest with ⟨hb0, hm0⟩ | hp1 | hall
      · subst hb0
        rcases hcond with hps | hm1
        · have := (shouldSaveFor_true_iff env p t).2 hps
          rw [hb] at this; cases this
        · rw [hm0] at hm1; cases hm1
      · rw [hpart] at hp1; cases hp1
      · exact (shouldSaveFor_ok_iff env hd).1 (hall d hd hl)

/-- **Totality.**  On an acyclic graph (topological order) with unique providers a request succeeds exactly when
no target is a single letter, every type below the targets is registered, and every needed, not stored type is
`Creatable`.  Together with `computed_iff` … this says: what is needed and missing is computed when nothing
forbids it, and otherwise — and only otherwise — the request ends in an explicit error. -/
theorem getComponents_ok_iff (env : Env) (htopo : topoOrdered env.g = true) (huniq : (allTypes env.g).Nodup) :
    (∃ c, getComponents env = .ok c) ↔
      (∀ t ∈ env.targets, t.length ≠ 1) ∧ Registered env ∧
        ∀ t, Reach env t → loadable env t = false → Creatable env t := by
  have hlen : env.targets.any (fun t => t.length == 1) = false ↔ ∀ t ∈ env.targets, t.length ≠ 1 := by
    simp [List.any_eq_false]
  constructor
  · rintro ⟨c, hc⟩
    obtain ⟨h1, h2, h3⟩ := getComponents_ok_conditions hc
    exact ⟨hlen.1 h1, h2, fun t hr hl => (creatable_iff_good env t).2 (h3 t hr hl)⟩
  · rintro ⟨h1, h2, h3⟩
    exact getComponents_total htopo huniq (hlen.2 h1) h2 (fun t hr hl => (creatable_iff_good env t).1 (h3 t hr hl))

/-- An explicit error is raised exactly when a target is a single letter, a type below the targets is not
registered, or a needed, not stored type may not be created (forbidden by the context, always/target-saved under a
time range) or makes `_target_should_be_saved` raise (NEVER policy × listed in `save=`). -/
theorem errors_iff (env : Env) (htopo : topoOrdered env.g = true) (huniq : (allTypes env.g).Nodup) :
    (∃ e, getComponents env = .error e) ↔
      (∃ t ∈ env.targets, t.length = 1) ∨ ¬ Registered env ∨
        ∃ t, Reach env t ∧ loadable env t = false ∧ ¬ Creatable env t := by
  have hok := getComponents_ok_iff env htopo huniq
  constructor
  · rintro ⟨e, he⟩
    by_cases h1 : ∃ t ∈ env.targets, t.length = 1
    · exact .inl h1
    by_cases h2 : Registered env
    · by_cases h3 : ∃ t, Reach env t ∧ loadable env t = false ∧ ¬ Creatable env t
      · exact .inr (.inr h3)
      · exfalso
        have : ∃ c, getComponents env = .ok c := hok.2 ⟨fun t ht hl => h1 ⟨t, ht, hl⟩, h2,
          fun t hr hl => Classical.byContradiction fun hc => h3 ⟨t, hr, hl, hc⟩⟩
        obtain ⟨c, hc⟩ := this
        rw [he] at hc; cases hc
    · exact .inr (.inl h2)
  · intro h
    cases hc : getComponents env with
    | error e => exact ⟨e, rfl⟩
    | ok c =>
      exfalso
      obtain ⟨h1, h2, h3⟩ := hok.1 ⟨c, hc⟩
      rcases h with ⟨t, ht, hl⟩ | h | ⟨t, hr, hl, hn⟩
      · exact h1 t ht hl
      · exact h h2
      · exact hn (h3 t hr hl)

/-- **Full-strength corollary** (totality + partial correctness in one statement).  On an acyclic graph with unique
providers, a request none of whose targets is a single letter, all of whose types are registered and all of whose
needed, not stored types are `Creatable` SUCCEEDS, and its result computes exactly the needed-and-not-stored types,
loads exactly the needed-and-stored ones from the fastest frontend that has them, saves nothing when it is partial /
fuzzy / incomplete-tolerant and otherwise saves exactly what the policy table dictates.  (Every other request ends
in an explicit error: `errors_iff`.) -/
theorem request_succeeds_and_is_correct (env : Env) (htopo : topoOrdered env.g = true)
    (huniq : (allTypes env.g).Nodup) (h1 : ∀ t ∈ env.targets, t.length ≠ 1) (h2 : Registered env)
    (h3 : ∀ t, Reach env t → loadable env t = false → Creatable env t) :
    ∃ c, getComponents env = .ok c ∧
      (∀ t, t ∈ c.plugins ↔ Reach env t ∧ loadable env t = false) ∧
      (∀ t i, (t, i) ∈ c.loaders ↔ Reach env t ∧ loaderFor env t = some i) ∧
      (∀ t, Reach env t →
        (t ∈ c.plugins ∧ t ∉ c.loaders.map (·.1)) ∨ (t ∉ c.plugins ∧ t ∈ c.loaders.map (·.1))) ∧
      (env.partialReq = true → c.savers = []) ∧
      (env.partialReq = false → ∀ d, d ∈ c.savers.map (·.1) ↔
        ∃ u ∈ c.plugins, isTemp u = false ∧ ∃ p, pluginFor env.g u = some p ∧ d ∈ p.provides ∧
          loadable env d = false ∧ PolicySaves env p d ∧ writableFor env d ≠ []) := by
  obtain ⟨c, hc⟩ := (getComponents_ok_iff env htopo huniq).2 ⟨h1, h2, h3⟩
  exact ⟨c, hc, computed_iff hc, loaded_iff hc, one_origin hc, partial_never_saves hc,
    fun hp => savers_iff_policy hc hp⟩

/-! ### several targets merged by the temporary plugin of `get_iter` (defects D22, D23 and their fixes) -/

/-- a requested non-temporary type counts as a target for its save policy (both rules) -/
theorem plain_targets_are_targets (env : Env) {t : String} (ht : t ∈ env.targets) (hn : isTemp t = false) :
    t ∈ finalTargets env := by
  unfold finalTargets
  split
  · simp only [List.mem_flatMap]
    exact ⟨t, ht, by simp [hn]⟩
  · exact ht

/-- fixed rule: the data types merged by a requested temporary plugin count as targets -/
theorem merged_targets_are_targets (env : Env) (h : env.rules.tempDepsAreTargets = true) {t d : String} {p : Plugin}
    (ht : t ∈ env.targets) (htemp : isTemp t = true) (hp : pluginFor env.g t = some p) (hd : d ∈ p.dependsOn) :
    d ∈ finalTargets env := by
  unfold finalTargets
  simp only [h, if_true, List.mem_flatMap]
  exact ⟨t, ht, by simp [htemp, hp, hd]⟩

/-- Full-strength statement for TARGET-policy types: a non-temporary type that counts as a target, is computed
in a complete request, has policy TARGET and is accepted by some writable frontend gets a saver. -/
theorem target_policy_saved {env : Env} {c : Components} (h : getComponents env = .ok c)
    (hp : env.partialReq = false) {d : String} {p : Plugin} (hd : d ∈ finalTargets env) (hc : d ∈ c.plugins)
    (ht : isTemp d = false) (hpf : pluginFor env.g d = some p) (hpol : p.policy d = some .target)
    (hw : writableFor env d ≠ []) : d ∈ c.savers.map (·.1) := by
  refine (savers_iff_policy h hp d).2 ⟨d, hc, ht, p, hpf, pluginFor_provides hpf, ((computed_iff h d).1 hc).2, ?_, hw⟩
  refine ⟨.target, hpol, ?_⟩
  simp only [policySays, List.contains_eq_mem, decide_eq_true_eq]
  exact hd

/-- the request `get_iter` makes for `get_array(run, ("bb", "dd"))`: `bb` (TARGET policy) and `dd` merged by
`_temp_x`, only the source `aa` is stored -/
def mergedEnv (rules : Rules) : Env :=
  ⟨exGraph ++ [⟨[("_temp_x", .explicit)], ["bb", "dd"]⟩], [{ complete := ["aa"] }], ["_temp_x"], [], {}, {}, rules⟩

/-- D22, old rule (`targets` handed to `_target_should_be_saved`): the requested TARGET-policy type `bb` is
computed in a complete request, a writable frontend accepts it, and it still gets no saver — the statement
`target_policy_saved` with "`d` is one of the requested types" in place of `d ∈ finalTargets env` fails. -/
theorem target_policy_old_counterexample :
    ∃ c, getComponents (mergedEnv { tempDepsAreTargets := false }) = .ok c ∧
      (mergedEnv { tempDepsAreTargets := false }).partialReq = false ∧ "bb" ∈ c.plugins ∧
      writableFor (mergedEnv { tempDepsAreTargets := false }) "bb" ≠ [] ∧ "bb" ∉ c.savers.map (·.1) :=
  ⟨⟨[("aa", 0)], ["_temp_x", "bb", "dd"], [], ["_temp_x"]⟩, by rfl, by decide, by decide, by decide, by decide⟩

/-- ... and with the fixed rule the same request saves it -/
example : getComponents (mergedEnv {}) = .ok ⟨[("aa", 0)], ["_temp_x", "bb", "dd"], [("bb", [0])], ["_temp_x"]⟩ := by rfl

/-- fixed rule: `*` in `forbid_creation_of` never applies to a temporary merge plugin -/
theorem star_spares_temp (env : Env) (h : env.rules.starSkipsTemp = true) {t : String} (ht : isTemp t = true) :
    starForbids env t = false := by
  simp [starForbids, h, ht]

/-- `bb` and `dd` are stored, creation of anything is forbidden -/
def starEnv (rules : Rules) : Env :=
  ⟨exGraph ++ [⟨[("_temp_x", .explicit)], ["bb", "dd"]⟩], [{ complete := ["bb", "dd"] }], ["_temp_x"], [], {},
   { forbid := ["*"] }, rules⟩

/-- D23, old rule: both merged types are stored, yet the request fails because the temporary plugin itself
"may not be created" -/
theorem forbid_star_old_counterexample :
    loadable (starEnv { starSkipsTemp := false }) "bb" = true ∧ loadable (starEnv { starSkipsTemp := false }) "dd" = true ∧
      getComponents (starEnv { starSkipsTemp := false }) = .error .dataNotAvailable :=
  ⟨by decide, by decide, by rfl⟩

/-- ... and with the fixed rule the two stored types are simply loaded -/
example : getComponents (starEnv {}) = .ok ⟨[("bb", 0), ("dd", 0)], ["_temp_x"], [], ["_temp_x"]⟩ := by rfl

/-! ### the recursion bound of the model -/

/-- On acyclic graphs (decidable witness: the list order is a topological order) the model never reports the
RecursionError that stands for an unbounded recursion, and the `both computed and loaded?!` RuntimeError is
unreachable: `getComponents` never ends in a RuntimeError. -/
theorem acyclic_no_recursion_error (env : Env) (h : topoOrdered env.g = true) :
    getComponents env ≠ .error .runtimeError :=
  getComponents_no_rt h

/-! ### non-vacuity: concrete instances of the hypotheses and of both outcomes -/

example : topoOrdered exGraph = true := by decide
example : (allTypes exGraph).Nodup := by decide
example : Registered exEnv := by rfl
example : ¬ Registered { exEnv with g := exGraph.drop 1 } := by
  intro h; unfold Registered at h; exact absurd h (by rw [show resolveAll _ _ = Except.error Err.keyError from rfl]; simp)
example : exEnv.partialReq = false := by decide
/-- `aa` is loaded, `dd` and `bb` are computed, the not needed sibling `cc` is saved because it is listed -/
example : getComponents exEnv = .ok ⟨[("aa", 0)], ["dd", "bb"], [("cc", [0])], ["dd"]⟩ := by rfl
example : Reach exEnv "aa" :=
  .dep (t := "bb") (p := ⟨[("bb", .target), ("cc", .explicit)], ["aa"]⟩)
    (.dep (t := "dd") (p := ⟨[("dd", .never)], ["bb"]⟩) (.target (by decide)) (by decide) (by decide) (by decide))
    (by decide) (by decide) (by decide)
example : loadable exEnv "bb" = false ∧ loadable exEnv "aa" = true := by decide
/-- a time-range request is partial: the same request saves nothing -/
example : getComponents { exEnv with mods := { selection := true } } = .ok ⟨[("aa", 0)], ["dd", "bb"], [], ["dd"]⟩ := by rfl
/-- hypotheses of `forbidden_raises` and the error it predicts -/
example : loadable exEnv "bb" = false ∧ ({ exEnv with opts := { forbid := ["bb"] } } : Env).opts.forbid.contains "bb" = true := by
  decide
example : getComponents { exEnv with opts := { forbid := ["bb"] } } = .error .dataNotAvailable := by rfl
/-- hypotheses of `never_save_in_save_raises` and the error it predicts -/
example : isTemp "dd" = false ∧ (⟨[("dd", .never)], ["bb"]⟩ : Plugin).policy "dd" = some .never := by decide
example : getComponents { exEnv with save := ["dd"] } = .error .valueError := by rfl
/-- two frontends: the faster storage type is asked first, the readonly one gets no saver -/
example : getComponents ⟨exGraph, [{ complete := ["aa"], storageType := 2 }, { complete := ["aa", "bb"], readonly := true }],
    ["dd"], ["cc"], {}, {}, {}⟩ = .ok ⟨[("bb", 1)], ["dd"], [], ["dd"]⟩ := by rfl
end Strax.C11
