import StraxModel.Model.Basic
namespace Strax.C11
open Strax

end Strax.C11
