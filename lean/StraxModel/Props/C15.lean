import StraxModel.Model.Basic
namespace Strax.C15
open Strax

end Strax.C15
