import StraxModel.Lemmas.MultiRun
/-
  Property C15 — loading many runs in parallel equals loading them one by one.

  Part 1 (`multi_run`): for every number of runs, every number of workers ≥ 1 and EVERY completion
  order, the result is the per-run results in sorted run-id order, each carrying the id of the run
  that produced it; a failing run raises its own error or, with `ignore_errors`, is left out
  without disturbing the others.
  Part 2 (plugin registry shared by the workers of one context): the code as it stands has
  two-thread interleavings that crash (open defects D8 / D8b, `registry_race_counterexample`,
  `cache_race_counterexample`): for the current code the clause "never corrupts or crashes" is
  REFUTED, not proved.  `readonly_workers_safe_partial` is the part that does hold for the code as
  it is (workers that only read the shared state — single target, warm cache).
  `registry_safe_if_serialized*` are conditional: IF every worker's block were made atomic by a lock
  (a repair that is NOT applied to /repo) — they say nothing about the current code.

  Only property theorems and non-vacuity examples live here; the work is in Lemmas/MultiRun.lean.
-/
namespace Strax.C15
open Strax Strax.MultiRun

/-! ## 1. `multi_run` -/

/-! **Scope of part 1.**  `results : Nat → Except Err Rows` makes the outcome of loading one run a
*function of its run id*: what a worker returns does not depend on what the other workers do.  Under
that premise "identical to sequential single-run calls for every interleaving of the workers" is a
statement about the bookkeeping of `multi_run` (submission window, handling order, run-id column,
`ignore_errors`, final sort), and that is what is proved here — for every completion order, worker
count and run list.  The premise itself is what the open defects D8 / D8b refute for several
same-kind targets (and for a cold plugin cache) on a shared context: there a worker's outcome does
depend on the interleaving (part 2, `registry_race_counterexample`).  The check states this
premise in its ASSUMPTIONS and validates it on the real code only up to those two findings. -/

/-- hypothesis of the order-independence law: nothing can make `multi_run` raise -/
def NoRaise (runs : List Nat) (results : Nat → Except Err Rows) (ignoreErrors : Bool) : Prop :=
  ignoreErrors = true ∨ ∀ r ∈ runs, ∃ rows, results r = .ok rows

/-- For all run lists, all worker counts ≥ 1 and ALL completion orders: the result is exactly what
sequential single-run calls give — one entry per (successful) run, in sorted run-id order. -/
theorem order_independent (runs order : List Nat) (results : Nat → Except Err Rows) (ig : Bool) (w : Nat)
    (hw : 0 < w) (h : NoRaise runs results ig) :
    multiRun runs order results ig w = .ok (sequential runs results) := by
  rcases multiRun_spec runs order results ig w hw with ⟨hok, _⟩ | ⟨hig, e, _, r, hr, hre⟩
  · exact hok
  · rcases h with h | h
    · rw [hig] at h; cases h
    · obtain ⟨rows, hrows⟩ := h r hr
      rw [hrows] at hre; cases hre

/-- two executions that differ in completion order and in the number of workers agree -/
theorem completion_order_irrelevant (runs o₁ o₂ : List Nat) (results : Nat → Except Err Rows) (ig : Bool)
    (w₁ w₂ : Nat) (h₁ : 0 < w₁) (h₂ : 0 < w₂) (h : NoRaise runs results ig) :
    multiRun runs o₁ results ig w₁ = multiRun runs o₂ results ig w₂ := by
  rw [order_independent runs o₁ results ig w₁ h₁ h, order_independent runs o₂ results ig w₂ h₂ h]

/-- what "the per-run results in run-id order" means: sorted by run id, and an entry `(r, rows)` is
present iff `r` was asked for and loading `r` alone returns `rows` -/
theorem sequential_characterisation (runs : List Nat) (results : Nat → Except Err Rows) :
    (sequential runs results).Pairwise (fun a b => a.1 ≤ b.1) ∧
    ∀ p : Nat × Rows, p ∈ sequential runs results ↔ (p.1 ∈ runs ∧ results p.1 = .ok p.2) := by
  constructor
  · rw [sequential_eq]
    refine List.Pairwise.filterMap (R := fun x y : Nat => x ≤ y) _ ?_ (sortBy_pairwise id runs)
    intro a a' haa' b hb b' hb'
    unfold entryOf at hb hb'
    split at hb <;> cases hb
    split at hb' <;> cases hb'
    exact haa'
  · intro p
    rw [sequential_eq]
    constructor
    · intro hp
      have := mem_filterMap_entryOf hp
      exact ⟨(sortBy_perm id runs).mem_iff.1 this.1, this.2⟩
    · rintro ⟨hr, hres⟩
      refine List.mem_filterMap.2 ⟨p.1, (sortBy_perm id runs).mem_iff.2 hr, ?_⟩
      simp [entryOf, hres]

-- non-vacuity: four runs given unsorted, two workers, the last-submitted run finishing first
example : NoRaise [3, 1, 2, 0] (fun r => .ok [10 * r, 10 * r + 1]) false := Or.inr fun _ _ => ⟨_, rfl⟩
example : multiRun [3, 1, 2, 0] [3, 2, 1, 0] (fun r => .ok [10 * r, 10 * r + 1]) false 2
    = .ok [(0, [0, 1]), (1, [10, 11]), (2, [20, 21]), (3, [30, 31])] := by rfl

/-- A failing run raises (its own error, not somebody else's) when errors are not ignored … -/
theorem failing_run_raises (runs order : List Nat) (results : Nat → Except Err Rows) (w : Nat) (hw : 0 < w)
    (hfail : ∃ r ∈ runs, ∃ e, results r = .error e) :
    ∃ e, multiRun runs order results false w = .error e ∧ ∃ r ∈ runs, results r = .error e := by
  rcases multiRun_spec runs order results false w hw with ⟨_, hall⟩ | ⟨_, e, he, r, hr, hre⟩
  · exfalso
    obtain ⟨r, hr, e, hre⟩ := hfail
    obtain ⟨rows, hrows⟩ := hall rfl r hr
    rw [hrows] at hre; cases hre
  · exact ⟨e, he, r, hr, hre⟩

/-- … and is left out, without disturbing any other run, when errors are ignored. -/
theorem failing_run_is_omitted (runs order : List Nat) (results : Nat → Except Err Rows) (w : Nat) (hw : 0 < w) :
    ∃ out, multiRun runs order results true w = .ok out ∧
      (∀ r e, results r = .error e → ∀ p ∈ out, p.1 ≠ r) ∧
      (∀ r ∈ runs, ∀ rows, results r = .ok rows → (r, rows) ∈ out) := by
  refine ⟨sequential runs results, order_independent runs order results true w hw (Or.inl rfl), ?_, ?_⟩
  · intro r e hre p hp hpr
    have := ((sequential_characterisation runs results).2 p).1 hp
    rw [hpr, hre] at this
    cases this.2
  · intro r hr rows hrows
    exact ((sequential_characterisation runs results).2 (r, rows)).2 ⟨hr, hrows⟩

/-- the two halves together -/
theorem failing_run_raises_or_is_omitted (runs order : List Nat) (results : Nat → Except Err Rows) (ig : Bool)
    (w : Nat) (hw : 0 < w) :
    (ig = false → (∃ r ∈ runs, ∃ e, results r = .error e) →
        ∃ e, multiRun runs order results ig w = .error e ∧ ∃ r ∈ runs, results r = .error e) ∧
    (ig = true → multiRun runs order results ig w = .ok (sequential runs results)) := by
  constructor
  · intro hig hfail; subst hig; exact failing_run_raises runs order results w hw hfail
  · intro hig; subst hig; exact order_independent runs order results true w hw (Or.inl rfl)

example : multiRun [3, 1, 2] [2, 0, 1] (fun r => if r = 2 then .error .osError else .ok [r]) false 2
    = .error .osError := by rfl
example : multiRun [3, 1, 2] [2, 0, 1] (fun r => if r = 2 then .error .osError else .ok [r]) true 2
    = .ok [(1, [1]), (3, [3])] := by rfl

/-- The run id attached to a result is the id of the run that produced it (whatever the order in
which futures complete), and only runs that were asked for appear. -/
theorem run_id_column_correct (runs order : List Nat) (results : Nat → Except Err Rows) (ig : Bool) (w : Nat)
    (hw : 0 < w) (out : List (Nat × Rows)) (h : multiRun runs order results ig w = .ok out) :
    ∀ p ∈ out, p.1 ∈ runs ∧ results p.1 = .ok p.2 := by
  rcases multiRun_spec runs order results ig w hw with ⟨hok, _⟩ | ⟨_, e, he, _⟩
  · rw [hok] at h; cases h
    intro p hp
    exact ((sequential_characterisation runs results).2 p).1 hp
  · rw [he] at h; cases h

/-- `max_workers = 0` is rejected before anything runs (ThreadPoolExecutor raises ValueError) -/
theorem zero_workers_rejected (runs order : List Nat) (results : Nat → Except Err Rows) (ig : Bool) :
    multiRun runs order results ig 0 = .error .valueError := by
  simp [multiRun, multiRunFull]

/-! ## 2. the plugin registry shared by the workers -/

/-- Open defect D8.  Two workers of one context, both asking for the same two same-kind targets
(hence the same `_temp_0` name), on a context with three registered plugins and a warm plugin
cache.  One preemption suffices for two of the failure kinds seen on the real code, two for the
third:
* worker 0 registers its temp plugin, worker 1 runs its whole `get_iter` (re-registers the name,
  resolves, deletes every `_temp*` key), worker 0 resumes: `KeyError` when it subscripts the name;
* worker 0 is inside `_context_hash` (iterator over 4 keys) while worker 1 does the same and
  removes the temp key: `RuntimeError: dictionary changed size during iteration`;
* worker 0 has tested `_fixed_plugin_cache is None` (it was not), worker 1 registers its own class
  under the name (a different class ⇒ the cache is invalidated), worker 0 subscripts `None`:
  `TypeError`. -/
theorem registry_race_counterexample :
    ((Sys.init 3 true [workerProg 0, workerProg 0]).run
        (List.replicate 7 0 ++ List.replicate 32 1 ++ List.replicate 10 0)).failures = [(0, .keyError)] ∧
    ((Sys.init 3 true [workerProg 0, workerProg 0]).run
        (List.replicate 8 0 ++ List.replicate 32 1 ++ [0])).failures = [(0, .runtimeError)] ∧
    ((Sys.init 3 true [workerProg 0, workerProg 0]).run
        (List.replicate 15 0 ++ List.replicate 8 1 ++ [0])).failures = [(0, .typeError)] := by
  decide +kernel

/-- … while the same two workers run one after the other are fine and leave the registry as it was -/
example : ((Sys.init 3 true [workerProg 0, workerProg 0]).run
      (List.replicate 26 0 ++ List.replicate 26 1)).allDone = true ∧
    ((Sys.init 3 true [workerProg 0, workerProg 0]).run
      (List.replicate 26 0 ++ List.replicate 26 1)).shared.reg = baseRegistry 3 := by decide +kernel

/-- the same race on the inner plugin-cache dict (open defect D8b): one worker iterates the dict
(`__get_requested_plugins_from_cache`), another inserts a plugin (`_plugins_to_cache`) -/
theorem cache_race_counterexample :
    ((Sys.init 1 true [[.contextHash], [.registerTemp 0]]).run [0, 0, 1, 1, 0]).failures
      = [(0, .runtimeError)] := by
  decide +kernel

/-- The part of "concurrent use of one context never crashes on its plugin registry and caches" that
holds for the code as it is — PARTIAL: it covers only workers that do not write the shared state
(`Instr.readOnly`: registry iterations, tests / uses of the cache attribute, iteration of and look-ups
in the existing inner cache dicts, the clean-up loop on a registry without temp plugins), which is
what a worker with a SINGLE target on a WARM plugin cache does (checked on every such real worker by
`registry/program`, program-shape).  For any number of plugins, inner cache dicts, workers and EVERY
schedule of their atomic steps: nobody fails and the shared state is untouched.  Excluded by the
hypothesis: several same-kind targets (`registerTemp` — open defect D8) and a cold cache
(`cacheInit` / `innerSet` — open defect D8b); the full statement is false there
(`registry_race_counterexample`, `cache_race_counterexample`). -/
theorem readonly_workers_safe_partial (nPlugins : Nat) (inner : List (List Key)) (progs : List (List Instr))
    (schedule : List Nat) (h : ∀ p ∈ progs, ∀ i ∈ p, i.readOnly inner = true) :
    ((Sys.initWith nPlugins true inner progs).run schedule).failures = [] ∧
    ((Sys.initWith nPlugins true inner progs).run schedule).shared =
      (Sys.initWith nPlugins true inner progs).shared :=
  readonly_safe nPlugins inner progs schedule h

-- non-vacuity: two single-target workers on a warm cache (events as read off the real code), interleaved
example : (∀ p ∈ [[Instr.contextHash, .cacheTest, .contextHash, .cacheUse, .innerIter 0, .innerGet 0 (.plugin 1), .deleteAllTemp],
                   [Instr.contextHash, .cacheUse, .innerIter 0, .deleteAllTemp, .contextHash]],
            ∀ i ∈ p, i.readOnly [[.plugin 0, .plugin 1]] = true) := by decide
example : ((Sys.initWith 3 true [[.plugin 0, .plugin 1]]
      [[.contextHash, .cacheTest, .contextHash, .cacheUse, .innerIter 0, .innerGet 0 (.plugin 1), .deleteAllTemp],
       [.contextHash, .cacheUse, .innerIter 0, .deleteAllTemp, .contextHash]]).run
      (List.replicate 20 [0, 1]).flatten).allDone = true := by
  decide +kernel

/-- **About a repair that is NOT applied to /repo** (the code as it stands is described by
`registry_race_counterexample`; this theorem contributes nothing to "never corrupts or crashes" for
the current code and must not be read as coverage of that clause).  It records what a lock buys:
if every worker's block `lockedProg k = [registerTemp; resolve; deleteAllTemp; contextHash]` runs
atomically (`Sys.runBlocks`: one block = one step), then for ALL numbers of registered plugins, ALL
numbers of workers, ALL temp names and ALL orders of the blocks no worker fails (in particular
every resolve succeeds), every scheduled worker has finished, and the registry and the cache flag
are what they were initially.  It says nothing about readers that do not take the lock
(single-target workers, `key_for` during processing): those need the snapshot iteration of the
suggested patch, which is validated on a scratch copy by the check, not proved. -/
theorem registry_safe_if_serialized (nPlugins : Nat) (cacheSet : Bool) (temps : List Nat) (schedule : List Nat) :
    let sys := (Sys.init nPlugins cacheSet (temps.map lockedProg)).runBlocks schedule
    sys.failures = [] ∧
    sys.shared.reg = baseRegistry nPlugins ∧
    sys.shared.cacheSet = cacheSet ∧
    (∀ i ∈ schedule, ∀ t : Thread, sys.threads[i]? = some t → t.done = true) :=
  runBlocks_safe nPlugins cacheSet temps schedule

/-- (same repair that is NOT applied to /repo) every worker scheduled at least once ⇒ all of them are done -/
theorem registry_safe_if_serialized_all_done (nPlugins : Nat) (cacheSet : Bool) (temps : List Nat)
    (schedule : List Nat) (hall : ∀ i, i < temps.length → i ∈ schedule) :
    ((Sys.init nPlugins cacheSet (temps.map lockedProg)).runBlocks schedule).allDone = true :=
  runBlocks_allDone nPlugins cacheSet temps schedule hall

example : ((Sys.init 3 true ([0, 0, 1].map lockedProg)).runBlocks [2, 0, 0, 1]).allDone = true ∧
    ((Sys.init 3 true ([0, 0, 1].map lockedProg)).runBlocks [2, 0, 0, 1]).shared.reg = baseRegistry 3 := by
  decide +kernel

end Strax.C15
