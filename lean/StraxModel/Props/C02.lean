import StraxModel.Lemmas.LineageFuzzy
import StraxModel.Lemmas.LineageJson
/-
  C02 — stored data is reused only under an identical lineage (no stale reads).

  Model: `StraxModel/Model/Lineage.lean` (namespace `Strax.Lineage`); helper lemmas:
  `StraxModel/Lemmas/Lineage*.lean`.  `H : String → K` stands for SHA-1 + base32 truncation applied
  to the JSON text `canonString (canon x)`; it is a parameter, and the only thing assumed about it
  is `Function.Injective H` (a hypothesis of the theorems that need it, not an axiom).  The JSON
  printer itself is proved injective (`json_text_injective`).

  All theorems below are about `Rules.fixed`, the rules of the code as it is now; the
  `…_counterexample_…` theorems show by evaluation that each of the five earlier rules (cache not
  reset on re-registration, merged context hash, sets in iteration order, fuzzy `==` on dicts,
  fuzzy `==` on hashablized dicts) breaks the corresponding statement.  Naming: the model's scope
  below holds for EVERY theorem and is stated once, here and in `ASSUMPTIONS` of checks/props/c02.py;
  a theorem with a further hypothesis that cuts into the property's quantifier ends in `_partial`
  (one: `tracked_option_change_changes_key_partial`); evaluated witnesses end in
  `_counterexample…` / `_example` / `_witness`.

  Scope of the model (hence of every theorem here; restrictions that cut into the property's
  quantifier are named in the docstrings): plugin graphs with single- and multi-output plugins,
  child plugins, tracked / untracked / shared / default-less options; two contexts on ONE
  DataDirectory, one run id, `save_when = ALWAYS` for every output, `set_config` in mode `update`,
  `new_context()` without arguments, no per-run defaults.  "The same" option value / provenance
  always means the same under `hashablize` (tuple = list, a dict = the tuple of its sorted items,
  `{}` = `()`): that is the identity strax's keys have (observation O1 in notes/C02.md).
  Provenance records tracked options only (assumption A-untracked).
-/
namespace Strax.C02
open Strax Strax.Lineage

variable {K : Type} [DecidableEq K]
set_option linter.unusedSectionVars false

/-! ## the hash -/

/-- The JSON printer is injective: the text fed to SHA-1 determines the canonical form. -/
theorem json_text_injective : Function.Injective canonString := canonString_injective

/-- so an injective hash of the text separates canonical forms -/
theorem hashInj_of_injective {H : String → K} (hH : Function.Injective H) : HashInj H :=
  fun _ _ h => canonString_injective (hH h)

/-- two lineages get the same key iff `hashablize` makes the same of them -/
theorem key_eq_iff {H : String → K} (hH : Function.Injective H) (L L' : Lineage) :
    keyOf H L = keyOf H L' ↔ lineageCanon L = lineageCanon L' :=
  ⟨fun h => canonString_injective (hH h), fun h => by unfold keyOf; rw [h]⟩

/-! ## keys do not depend on insertion orders or hash seeds -/

/-- The insertion order of a dict-valued option (or of any dict inside an option value) does not
change what is hashed. -/
theorem canon_perm {d₁ d₂ : List (String × Val)} (hp : d₁.Perm d₂) (hn : NodupKeys d₁) :
    canon (.dict d₁) = canon (.dict d₂) := canon_dict_perm hp hn

/-- The iteration order of a set-valued option (it depends on `PYTHONHASHSEED`) does not change
what is hashed. -/
theorem canon_set_perm {l₁ l₂ : List String} (hp : l₁.Perm l₂) : canon (.sset l₁) = canon (.sset l₂) := by
  simp only [canon, canonWith, if_true]
  rw [sortS_eq_of_perm hp]

/-- Before the fix (`hashablize` took sets in iteration order) it did. -/
theorem canon_set_order_counterexample_old :
    canonWith false (.sset ["alpha", "beta"]) ≠ canonWith false (.sset ["beta", "alpha"]) := by decide

/-- The order in which options were put into the context config does not change any key. -/
theorem key_config_perm (H : String → K) {r : Registry} {c c' : Config} (hp : c.Perm c') (hn : NodupKeys c)
    {n : Nat} {d : String} {L : Lineage} (h : lineage r c n d = .ok L) :
    ∃ L', lineage r c' n d = .ok L' ∧ keyOf H L = keyOf H L' := by
  obtain ⟨L', h1, h2⟩ := lineage_config_perm hp hn h
  exact ⟨L', h1, by unfold keyOf; rw [h2]⟩

theorem nodupKeys_example : NodupKeys ([("b", Val.int 1), ("a", .dict [("y", .int 2), ("x", .int 3)])] : Config) := by decide

/-! ## which keys change -/

/-- what data type `a` contributes to a lineage: class name, version and tracked options as
`hashablize` sees them (`none`: no registered class, or its configuration cannot be built) -/
def trackedPart (r : Registry) (c : Config) (a : String) : Option Canon := (ownEntryOf r c a).map centry

/-- Two lineages of `d` hash alike iff `d` has the same ancestors in both registries and every
ancestor-or-self contributes the same tracked part.  Hence a change of a tracked option, of the
version or of the providing class of `a` changes the key of `a` and of all its descendants, and
of nothing else (`tracked_change_hits_descendants`, `registration_only_hits_descendants`,
`option_change_only_hits_descendants_of_takers`). -/
theorem lineage_changes_iff {r r' : Registry} (hw : r.WF) (hw' : r'.WF) {c c' : Config}
    {n n' : Nat} {d : String} {L L' : Lineage}
    (h : lineage r c n d = .ok L) (h' : lineage r' c' n' d = .ok L') :
    lineageCanon L = lineageCanon L' ↔
      (∀ a, a ∈ ancestors r n d ↔ a ∈ ancestors r' n' d) ∧
      ∀ a ∈ ancestors r n d, trackedPart r c a = trackedPart r' c' a := by
  rw [lineageCanon_eq_iff (lineage_nodupKeys h) (lineage_nodupKeys h')]
  unfold LinEq trackedPart
  constructor
  · intro hl
    have key : ∀ a, (if a ∈ ancestors r n d then ownEntryOf r c a else none).map centry =
        (if a ∈ ancestors r' n' d then ownEntryOf r' c' a else none).map centry := by
      intro a; rw [← lineage_lookup hw h a, ← lineage_lookup hw' h' a]; exact hl a
    refine ⟨fun a => ⟨fun ha => ?_, fun ha => ?_⟩, fun a ha => ?_⟩
    · have := key a
      have hs := ownEntryOf_isSome_of_mem hw h ha
      by_cases hb : a ∈ ancestors r' n' d
      · exact hb
      · rw [if_pos ha, if_neg hb] at this
        cases e : ownEntryOf r c a with
        | none => simp [e] at hs
        | some v => simp [e] at this
    · have := key a
      have hs := ownEntryOf_isSome_of_mem hw' h' ha
      by_cases hb : a ∈ ancestors r n d
      · exact hb
      · rw [if_pos ha, if_neg hb] at this
        cases e : ownEntryOf r' c' a with
        | none => simp [e] at hs
        | some v => simp [e] at this
    · have := key a
      have hs := ownEntryOf_isSome_of_mem hw h ha
      by_cases hb : a ∈ ancestors r' n' d
      · rw [if_pos ha, if_pos hb] at this; exact this
      · rw [if_pos ha, if_neg hb] at this
        cases e : ownEntryOf r c a with
        | none => simp [e] at hs
        | some v => simp [e] at this
  · rintro ⟨hanc, htr⟩ a
    rw [lineage_lookup hw h a, lineage_lookup hw' h' a]
    by_cases ha : a ∈ ancestors r n d
    · rw [if_pos ha, if_pos ((hanc a).mp ha)]; exact htr a ha
    · rw [if_neg ha, if_neg (fun hb => ha ((hanc a).mpr hb))]

/-- the same statement about keys -/
theorem key_changes_iff {H : String → K} (hH : Function.Injective H) {r r' : Registry} (hw : r.WF) (hw' : r'.WF)
    {c c' : Config} {n n' : Nat} {d : String} {L L' : Lineage}
    (h : lineage r c n d = .ok L) (h' : lineage r' c' n' d = .ok L') :
    keyOf H L ≠ keyOf H L' ↔
      ¬ ((∀ a, a ∈ ancestors r n d ↔ a ∈ ancestors r' n' d) ∧
         ∀ a ∈ ancestors r n d, trackedPart r c a = trackedPart r' c' a) := by
  rw [← lineage_changes_iff hw hw' h h']
  constructor
  · intro hk he; exact hk (by unfold keyOf; rw [he])
  · intro hk he; exact hk (hashInj_of_injective hH _ _ he)

/-- A change in the tracked part of `a` (tracked option value, version, class name) changes the
key of every data type `d` that has `a` among its ancestors-or-self. -/
theorem tracked_change_hits_descendants {H : String → K} (hH : Function.Injective H) {r r' : Registry}
    (hw : r.WF) (hw' : r'.WF) {c c' : Config} {n n' : Nat} {d a : String} {L L' : Lineage}
    (h : lineage r c n d = .ok L) (h' : lineage r' c' n' d = .ok L')
    (ha : a ∈ ancestors r n d) (hdiff : trackedPart r c a ≠ trackedPart r' c' a) :
    keyOf H L ≠ keyOf H L' :=
  (key_changes_iff hH hw hw' h h').mpr fun hh => hdiff (hh.2 a ha)

/-- **A tracked option shows** (`_partial`: for a child plugin the hypotheses exclude an option the
child overwrites in its parent — by design that one is represented by the child option — and an
option *named like a base class*, whose lineage slot is taken by the base class version:
`tracked_option_named_like_base_counterexample`).  If the plugin behind lineage key `a` takes `o`
as a tracked option (for a child plugin: `o` is not an option it overwrites in its parent, nor the
name of a base class) and the two configs give `o` values that hash differently, then every data type that has
`a` among its lineage keys — the outputs of that plugin and all their descendants — gets a
different key. -/
theorem tracked_option_change_changes_key_partial {H : String → K} (hH : Function.Injective H) {r : Registry} (hw : r.WF)
    {c c' : Config} (hc : NodupKeys c) (hc' : NodupKeys c') {n n' : Nat} {d a o : String} {L L' : Lineage}
    {cls : PluginClass} {v v' : Val}
    (h : lineage r c n d = .ok L) (h' : lineage r c' n' d = .ok L') (ha : a ∈ ancestors r n d)
    (hcls : r.lookup a = some cls)
    (hk : (if cls.child then keptChild cls o else isTracked cls o) = true)
    (hb : cls.child = true → ∀ b ∈ cls.bases, b.1 ≠ o)
    (hv : c.lookup o = some v) (hv' : c'.lookup o = some v') (hne : canon v ≠ canon v') :
    keyOf H L ≠ keyOf H L' := by
  apply tracked_change_hits_descendants hH hw hw h h' ha
  intro heq
  have hs := ownEntryOf_isSome_of_mem hw h ha
  have ha' : a ∈ ancestors r n' d := by
    -- same registry: the lineage keys of `d` do not depend on the fuel once the lineage is defined
    have e1 : a ∈ ancestors r (fuelOf r) d := by
      have := lineage_lookup hw h a
      have h2 := lineage_lookup hw (lineage_fuel h) a
      rw [this] at h2
      by_cases hm : a ∈ ancestors r (fuelOf r) d
      · exact hm
      · rw [if_pos ha, if_neg hm] at h2
        cases e : ownEntryOf r c a with
        | none => simp [e] at hs
        | some x => simp [e] at h2
    have h3 := lineage_lookup hw h' a
    have h4 := lineage_lookup hw (lineage_fuel h') a
    rw [h3] at h4
    by_cases hm : a ∈ ancestors r n' d
    · exact hm
    · rw [if_neg hm, if_pos e1] at h4
      have hs' := ownEntryOf_isSome_of_mem hw (lineage_fuel h') e1
      cases e : ownEntryOf r c' a with
      | none => simp [e] at hs'
      | some x => simp [e] at h4
  have hs' := ownEntryOf_isSome_of_mem hw h' ha'
  unfold trackedPart ownEntryOf at heq
  unfold ownEntryOf at hs hs'
  simp only [hcls] at heq hs hs'
  cases hp : pluginConfig cls c with
  | error e => simp [hp] at hs
  | ok pc =>
    cases hp' : pluginConfig cls c' with
    | error e => simp [hp'] at hs'
    | ok pc' =>
      simp only [hp, hp', Option.map_some, Option.some.injEq] at heq
      rw [centry_eq_iff (entryConfig_nodup cls (pluginConfig_nodup hc hp))
        (entryConfig_nodup cls (pluginConfig_nodup hc' hp'))] at heq
      have := heq.2.2 o
      unfold CfgEqAt at this
      simp only at this
      rw [entryConfig_tracked_value hp hk hb, entryConfig_tracked_value hp' hk hb,
        lookup_withDefaults, lookup_withDefaults, hv, hv'] at this
      simp at this
      exact hne this

/-- The corner `tracked_option_change_changes_key_partial` excludes is real: a child plugin's tracked
option called like its base class never reaches the lineage (`configs[parent.__name__] =
parent.version()` overwrites it), so changing it changes no key. -/
theorem tracked_option_named_like_base_counterexample :
    let cls : PluginClass := ⟨"C", "1", "cc", [], [⟨"Par", some (.int 1), true, none⟩], true, [("Par", "0.1")], "blosc", 80, []⟩
    (lineage [cls] [("Par", .int 1)] 2 "cc").toOption = some [("cc", ⟨"C", "1", [("Par", .str "0.1")]⟩)] ∧
      (lineage [cls] [("Par", .int 2)] 2 "cc").toOption = some [("cc", ⟨"C", "1", [("Par", .str "0.1")]⟩)] := by decide

/-- **Version and providing class show.**  If the plugins behind lineage key `a` in the two
registries differ in version or in class name, every data type with `a` among its lineage keys
gets a different key. -/
theorem version_or_class_change_changes_key {H : String → K} (hH : Function.Injective H) {r r' : Registry}
    (hw : r.WF) (hw' : r'.WF) {c c' : Config} (hc : NodupKeys c) (hc' : NodupKeys c') {n n' : Nat} {d a : String}
    {L L' : Lineage} {cls cls' : PluginClass}
    (h : lineage r c n d = .ok L) (h' : lineage r' c' n' d = .ok L') (ha : a ∈ ancestors r n d)
    (hcls : r.lookup a = some cls) (hcls' : r'.lookup a = some cls')
    (hdiff : cls.version ≠ cls'.version ∨ cls.name ≠ cls'.name) : keyOf H L ≠ keyOf H L' := by
  rw [key_changes_iff hH hw hw' h h']
  rintro ⟨hanc, htr⟩
  have ha' := (hanc a).mp ha
  have hs := ownEntryOf_isSome_of_mem hw h ha
  have hs' := ownEntryOf_isSome_of_mem hw' h' ha'
  have heq := htr a ha
  unfold trackedPart ownEntryOf at heq
  unfold ownEntryOf at hs hs'
  simp only [hcls, hcls'] at heq hs hs'
  cases hp : pluginConfig cls c with
  | error e => simp [hp] at hs
  | ok pc =>
    cases hp' : pluginConfig cls' c' with
    | error e => simp [hp'] at hs'
    | ok pc' =>
      simp only [hp, hp', Option.map_some, Option.some.injEq] at heq
      rw [centry_eq_iff (entryConfig_nodup cls (pluginConfig_nodup hc hp))
        (entryConfig_nodup cls' (pluginConfig_nodup hc' hp'))] at heq
      rcases hdiff with e | e
      · exact e heq.2.1
      · exact e heq.1

/-- `register(cls)` leaves the lineage — hence the key — of `d` exactly as it was when neither `d`
nor any data type it (transitively) depends on is an output of `cls` or of a class that shares an
output with `cls` (the classes `register` deregisters): only the outputs of the registered /
deregistered plugins and their descendants can change. -/
theorem registration_only_hits_descendants {r : Registry} {c : Config} {n : Nat} {d : String} {L : Lineage}
    (cls : PluginClass) (h : lineage r c n d = .ok L)
    (ht : ∀ x ∈ visited r n d, cls.makes x = false ∧ ∀ k, r.lookup x = some k → k.overlaps cls = false) :
    lineage (r.set cls) c n d = .ok L :=
  lineage_agree (fun x hx => Registry.lookup_set_other (ht x hx).1 (fun k hk => Or.inl ((ht x hx).2 k hk))) h

/-- Changing the value of option `o` changes no key of a data type none of whose ancestors-or-self
takes `o` as a tracked option; in particular an option that is untracked everywhere changes no
key at all (`untracked_changes_no_key`). -/
theorem option_change_only_hits_descendants_of_takers (H : String → K) {r : Registry} (hw : r.WF) {c c' : Config}
    (hc : NodupKeys c) (hc' : NodupKeys c') {o : String} (hcc : ∀ k, k ≠ o → CfgEqAt c c' k)
    {n : Nat} {d : String} {L L' : Lineage}
    (h : lineage r c n d = .ok L) (h' : lineage r c' n d = .ok L')
    (hun : ∀ a ∈ ancestors r n d, ∀ cls, r.lookup a = some cls → ∀ opt ∈ cls.options, opt.name = o → opt.track = false) :
    keyOf H L = keyOf H L' := by
  have : lineageCanon L = lineageCanon L' := by
    rw [lineage_changes_iff hw hw h h']
    refine ⟨fun a => Iff.rfl, fun a ha => ?_⟩
    exact trackedPart_congr_off hc hc' hcc (ownEntryOf_isSome_of_mem hw h ha) (ownEntryOf_isSome_of_mem hw h' ha)
      (fun cls hcls => hun a ha cls hcls)
  unfold keyOf; rw [this]

theorem untracked_changes_no_key (H : String → K) {r : Registry} (hw : r.WF) {c : Config} (hc : NodupKeys c) (o : String) (v : Val)
    (hun : ∀ cls ∈ r, ∀ opt ∈ cls.options, opt.name = o → opt.track = false)
    {n : Nat} {d : String} {L L' : Lineage}
    (h : lineage r c n d = .ok L) (h' : lineage r (dictSet c o v) n d = .ok L') :
    keyOf H L = keyOf H L' :=
  option_change_only_hits_descendants_of_takers H hw hc (hc.dictSet o v)
    (fun k hk => by unfold CfgEqAt; rw [lookup_dictSet]; simp [hk]) h h'
    (fun _ _ cls hcls => hun cls (Registry.lookup_mem hcls).2)

/-! ## auto-inferred versions -/

/-- **Editing the code changes an auto-inferred version.**  `Plugin._auto_version` hashes the
hashes of the source texts of *all* attributes of the class; with an injective hash two classes
that differ in the source of any attribute (or in which attributes they have) get different
versions — and then `version_or_class_change_changes_key` applies. -/
theorem auto_version_changes {H : String → String} (hH : Function.Injective H) {attrs attrs' : List (String × String)}
    (hn : NodupKeys attrs) (hn' : NodupKeys attrs') {a : String} (hdiff : attrs.lookup a ≠ attrs'.lookup a) :
    autoVersion H attrs ≠ autoVersion H attrs' := by
  intro heq
  unfold autoVersion at heq
  have h1 := String.toList_inj.mpr heq
  rw [String.toList_append, String.toList_append] at h1
  have h2 := String.toList_inj.mp (List.append_cancel_left h1)
  have h3 := canonString_injective (hH h2)
  have n1 : NodupKeys (attrs.map fun a => (a.1, Val.str (H (canonString (.str a.2))))) := by
    unfold NodupKeys; rw [keys_map_val (fun s => Val.str (H (canonString (.str s))))]; exact hn
  have n2 : NodupKeys (attrs'.map fun a => (a.1, Val.str (H (canonString (.str a.2))))) := by
    unfold NodupKeys; rw [keys_map_val (fun s => Val.str (H (canonString (.str s))))]; exact hn'
  have h4 := (canon_dict_eq_iff n1 n2).mp h3 a
  rw [lookup_map_val (fun s => Val.str (H (canonString (.str s)))), lookup_map_val (fun s => Val.str (H (canonString (.str s)))),
    Option.map_map, Option.map_map] at h4
  apply hdiff
  cases e1 : attrs.lookup a <;> cases e2 : attrs'.lookup a <;> simp [e1, e2, canon, canonWith] at h4 ⊢
  have h5 := canonString_injective (hH h4)
  injection h5

/-! ## fuzzy matching -/

/-- a lineage as Python has it: a dict of entries whose configs are dicts (decidable) -/
def LineageOK (L : Lineage) : Prop := NodupKeys L ∧ ∀ ke ∈ L, NodupKeys ke.2.config

instance (L : Lineage) : Decidable (LineageOK L) := by unfold LineageOK; infer_instance

theorem LineageOK.wf {L : Lineage} (h : LineageOK L) : LineageWF L :=
  ⟨h.1, fun t e hl => h.2 (t, e) (lookup_mem hl)⟩

/-- every lineage the model builds from a dict-shaped config is of that form -/
theorem lineage_ok {r : Registry} (hw : r.WF) {c : Config} (hc : NodupKeys c) {n : Nat} {d : String} {L : Lineage}
    (h : lineage r c n d = .ok L) : LineageOK L := by
  refine ⟨lineage_nodupKeys h, ?_⟩
  intro ⟨a, e⟩ hm
  have hl := mem_lookup (lineage_nodupKeys h) hm
  rw [lineage_lookup hw h a] at hl
  split at hl
  · unfold ownEntryOf at hl
    split at hl
    · simp at hl
    · rename_i cls _
      split at hl
      · rename_i pc hp
        simp at hl; subst hl
        exact entryConfig_nodup cls (pluginConfig_nodup hc hp)
      · simp at hl
  · simp at hl

theorem lineageOK_example : LineageOK [("aa", ⟨"A", "1", [("x", .int 1), ("y", .seq true [.int 1, .int 2])]⟩),
    ("bb", ⟨"B", "2", []⟩)] := by decide

/-- `_matches` in fuzzy mode accepts a stored lineage exactly when, outside the data types named in
`fuzzy_for`, both lineages have the same data types with the same class and version, and outside
the options named in `fuzzy_for_options` the same option values (as `hashablize` sees them). -/
theorem fuzzy_match_iff {stored want : Lineage} {ff ffo : List String} (hs : LineageOK stored) (hw : LineageOK want) :
    fuzzyMatches .textEq stored want ff ffo = true ↔
      ∀ t, t ∉ ff →
        match stored.lookup t, want.lookup t with
        | none, none => True
        | some e, some e' => e.cls = e'.cls ∧ e.version = e'.version ∧ ∀ o, o ∉ ffo → CfgEqAt e.config e'.config o
        | _, _ => False :=
  fuzzyMatches_iff hs.wf hw.wf

/-- Before the fix the filtered lineages were compared with Python `==`: a stored lineage (read
back from JSON, tuples have become lists) never matched when any remaining option was a tuple. -/
theorem fuzzy_match_counterexample_old :
    let stored : Lineage := [("aa", ⟨"A", "1", [("x", .int 1), ("y", .seq true [.int 1, .int 2])]⟩)]
    let want : Lineage := [("aa", ⟨"A", "1", [("x", .int 2), ("y", .seq true [.int 1, .int 2])]⟩)]
    fuzzyMatches .pyEqVals stored want [] ["x"] = false ∧ fuzzyMatches .textEq stored want [] ["x"] = true := by decide

/-- After the first fix the `hashablize`d lineages were compared with Python `==`, under which
`1 == True == 1.0`: a stored `ax = 1` was accepted for a wanted `ax = True` although `ax` is not
among the ignored options and the two keys differ.  Now the `deterministic_hash`es are compared. -/
theorem fuzzy_match_counterexample_pyeq_canon :
    let stored : Lineage := [("aa", ⟨"A", "1", [("ax", .int 1), ("ay", .int 0)]⟩)]
    let want : Lineage := [("aa", ⟨"A", "1", [("ax", .bool true), ("ay", .int 0)]⟩)]
    fuzzyMatches .pyEqCanon stored want [] ["ay"] = true ∧ fuzzyMatches .textEq stored want [] ["ay"] = false ∧
      lineageCanon stored ≠ lineageCanon want := by decide

/-- What `_find` answers, at the level of the directory: some entry of that data type is found iff
one is filed under exactly the wanted key, or — with fuzzy matching on — one fuzzy-matches
(`fuzzy_match_iff` says when).  `is_stored` and the load-or-compute decision of `get_array` are
this test applied to the lineage of the (cached) plugin. -/
theorem find_iff (rules : Rules) (H : String → K) (s : List (Item K)) (d : String) (want : Lineage) (ff ffo : List String) :
    (findItem rules H s d want ff ffo).isSome = true ↔
      (∃ it ∈ s, it.dataType = d ∧ it.key = keyOf H want) ∨
      ((ff ≠ [] ∨ ffo ≠ []) ∧ ∃ it ∈ s, it.dataType = d ∧ fuzzyMatches rules.matchRule it.lineage want ff ffo = true) := by
  unfold findItem
  cases h1 : s.find? (fun it => it.dataType == d && decide (it.key = keyOf H want)) with
  | some it =>
    have hp := List.find?_some h1
    simp only [Bool.and_eq_true, beq_iff_eq, decide_eq_true_eq] at hp
    simp only [Option.isSome_some, true_iff]
    exact Or.inl ⟨it, List.mem_of_find?_eq_some h1, hp.1, hp.2⟩
  | none =>
    have hnone : ¬ ∃ it ∈ s, it.dataType = d ∧ it.key = keyOf H want := by
      rintro ⟨it, hm, e1, e2⟩
      have := List.find?_eq_none.mp h1 it hm
      simp [e1, e2] at this
    simp only
    by_cases hf : (ff.isEmpty && ffo.isEmpty) = true
    · have h2 := Bool.and_eq_true_iff.mp hf
      have e1 : ff = [] := List.isEmpty_iff.mp h2.1
      have e2 : ffo = [] := List.isEmpty_iff.mp h2.2
      simp [hnone, e1, e2]
    · have hne : ff ≠ [] ∨ ffo ≠ [] := by
        cases ff <;> cases ffo <;> simp at hf ⊢
      simp only [hf, Bool.false_eq_true, if_false, List.find?_isSome, Bool.and_eq_true, beq_iff_eq]
      constructor
      · rintro ⟨it, hm, e1, e2⟩
        exact Or.inr ⟨hne, it, hm, e1, e2⟩
      · rintro (hx | ⟨_, it, hm, e1, e2⟩)
        · exact absurd hx hnone
        · exact ⟨it, hm, e1, e2⟩

/-- A context with fuzzy matching switched on never writes to the directory, whatever it is
asked to do (any rules). -/
theorem fuzzy_never_saves (rules : Rules) (H : String → K) (ctx : Ctx K) (s : List (Item K)) (op : CtxOp)
    (h : ctx.fuzzy = true) : (stepCtx rules H ctx s op).2.2 = s :=
  stepCtx_fuzzy_storage rules H ctx s op h

/-! ## no stale read -/

/-- **No stale read.**  After any history of set_config / register / new_context / fuzzy settings /
lineage / is_stored / make / get_array issued to two contexts that share one directory, a context
whose fuzzy matching is off returns from `get_array d` rows of the same provenance as a brand-new
context with the same registry and config computes on an empty directory — whenever that
brand-new context can compute `d` at all (it cannot when a required option has neither value nor
default; then rows another context stored may still be served: observation O4 / assumption A-O4).
"The same provenance" = same class, version and tracked option values *as `hashablize` sees them*
(tuple = list, `{}` = `()`: O1) of the plugin and all its ancestors; untracked options are not
part of provenance (assumption A-untracked).  Scope: see the header (one directory, one run id,
`save_when = ALWAYS`, `set_config` mode `update`, `new_context()` without arguments); plugin
graphs may contain multi-output and child plugins. -/
theorem no_stale_read {H : String → K} (hH : Function.Injective H) (ops : List Op) (who : Bool) (d : String) :
    let s := (run Rules.fixed H State.init ops).2
    (s.ctx who).fuzzy = false →
    ∀ p fz, (step Rules.fixed H (freshState (s.ctx who).registry (s.ctx who).config) ⟨false, .get d⟩).1 = .data p fz →
      ∃ p', (step Rules.fixed H s ⟨who, .get d⟩).1 = .data p' false ∧ keyOf H p' = keyOf H p ∧
        lineageCanon p' = lineageCanon p := by
  intro s hfz p fz hfresh
  have hH := hashInj_of_injective hH
  have hinv : Inv H s := run_inv hH (inv_init H) ops
  have hctx : CtxInv H (s.ctx who) := by
    cases who
    · simpa [State.ctx] using hinv.1
    · simpa [State.ctx] using hinv.2.1
  have hf : (getCore Rules.fixed H (s.ctx who).fresh ([] : List (Item K)) d).1 = .data p fz := by
    have : (step Rules.fixed H (freshState (s.ctx who).registry (s.ctx who).config) ⟨false, .get d⟩).1 =
        (getCore Rules.fixed H (s.ctx who).fresh ([] : List (Item K)) d).1 := by
      simp only [step, stepCtx, freshState, State.ctx, Ctx.fresh]
      rfl
    rw [← this]; exact hfresh
  obtain ⟨p', hp', heq⟩ := getCore_no_stale hH hctx hfz hinv.2.2 d p fz hf
  refine ⟨p', ?_, by unfold keyOf; rw [heq], heq⟩
  have : (step Rules.fixed H s ⟨who, .get d⟩).1 = (getCore Rules.fixed H (s.ctx who) s.storage d).1 := by
    simp only [step, stepCtx]
  rw [this]; exact hp'

/-! ### non-vacuity: a concrete history inside the hypotheses -/

-- the driver's instance of the abstract hash: the identity on the JSON text
theorem injective_hash_example : Function.Injective (fun s : String => s) := fun _ _ h => h

def clsP (default : Int) : PluginClass :=
  ⟨"P", "1", "aa", [], [⟨"x", some (.int default), true, none⟩], false, [], "blosc", 80, []⟩
def clsQ : PluginClass :=
  ⟨"Q", "1", "bb", ["aa"], [⟨"y", some (.int 0), true, none⟩, ⟨"u", some (.int 0), false, none⟩], false, [], "blosc", 80, []⟩

/-- register P(default 1); make; register P'(default 2) — the history of defect D4 -/
def d4History : List Op :=
  [⟨false, .register (clsP 1)⟩, ⟨false, .make "aa"⟩, ⟨false, .register (clsP 2)⟩]

-- the fresh context computes the data, and the fixed rules return exactly that
theorem no_stale_read_fresh_witness :
    (step Rules.fixed id (freshState [clsP 2] []) ⟨false, .get "aa"⟩).1 =
      .data [("aa", ⟨"P", "1", [("x", .int 2)]⟩)] false := by decide
theorem no_stale_read_d4_witness :
    (step Rules.fixed id (run Rules.fixed id State.init d4History).2 ⟨false, .get "aa"⟩).1 =
      .data [("aa", ⟨"P", "1", [("x", .int 2)]⟩)] false := by decide

/-- **The old cache rule returns stale data.**  With the plugin cache guarded only by the context
hash of (config, versions, compressors, timeouts) and never reset on re-registration, the
4-op history *register P(default 1); make; register P'(default 2); get* returns the rows made
with default 1, although a brand-new context computes them with default 2. -/
theorem no_stale_read_counterexample_old :
    (step Rules.old id (run Rules.old id State.init d4History).2 ⟨false, .get "aa"⟩).1 =
      .data [("aa", ⟨"P", "1", [("x", .int 1)]⟩)] false ∧
    (step Rules.old id (freshState (run Rules.old id State.init d4History).2.main.registry
        (run Rules.old id State.init d4History).2.main.config) ⟨false, .get "aa"⟩).1 =
      .data [("aa", ⟨"P", "1", [("x", .int 2)]⟩)] false := by decide

/-- a plugin with two outputs (lineage key `bb`) and a consumer of its first output -/
def clsM (default : Int) : PluginClass :=
  ⟨"M", "1", "bb", [], [⟨"mx", some (.int default), true, none⟩], false, [], "blosc", 80, ["aa"]⟩
def clsQa : PluginClass := ⟨"Qa", "1", "qq", ["aa"], [], false, [], "blosc", 80, []⟩

theorem registry_wf_example : Registry.WF [clsM 1, clsQa] := by decide

-- multi-output version of the D4 history: register M(aa,bb) default 1; make qq(aa); re-register with default 2
theorem no_stale_read_multi_output_witness :
    (step Rules.fixed id (run Rules.fixed id State.init
        [⟨false, .register (clsM 1)⟩, ⟨false, .register clsQa⟩, ⟨false, .make "qq"⟩, ⟨false, .register (clsM 2)⟩]).2
      ⟨false, .get "qq"⟩).1 =
      .data [("qq", ⟨"Qa", "1", []⟩), ("bb", ⟨"M", "1", [("mx", .int 2)]⟩)] false := by decide

-- a class providing (bb, cc) takes `bb` over: `aa` is deregistered with it
theorem register_deregisters_overlap_example : Registry.lookup (Registry.set [clsM 1, clsQa]
    ⟨"N", "1", "cc", [], [], false, [], "blosc", 80, ["bb"]⟩) "aa" = none := by decide

/-- class of data type `aa` taking a tracked option that is itself called `aa` -/
def clsA : PluginClass := ⟨"A", "1", "aa", [], [⟨"aa", some (.int 1), true, none⟩], false, [], "blosc", 80, []⟩

def optNamedLikeTypeHistory : List Op :=
  [⟨false, .register clsA⟩, ⟨false, .get "aa"⟩, ⟨false, .setConfig [("aa", .int 2)]⟩]

/-- **The merged context hash loses an option that is named like a data type.**  Before the fix
`set_config(aa=2)` did not change the context hash when `aa` is also a registered data type, the
cached plugin was reused and `get_array` returned the rows made with `aa = 1`. -/
theorem no_stale_read_counterexample_mergedhash :
    (step Rules.mergedHash id (run Rules.mergedHash id State.init optNamedLikeTypeHistory).2 ⟨false, .get "aa"⟩).1 =
      .data [("aa", ⟨"A", "1", [("aa", .int 1)]⟩)] false ∧
    (step Rules.fixed id (run Rules.fixed id State.init optNamedLikeTypeHistory).2 ⟨false, .get "aa"⟩).1 =
      .data [("aa", ⟨"A", "1", [("aa", .int 2)]⟩)] false := by decide

end Strax.C02
