import StraxModel.Model.Basic
namespace Strax.C02
open Strax

end Strax.C02
