import StraxModel.Lemmas.Copy
namespace Strax.C16
open Strax Strax.Storage Strax.Copy
/-- a tiny stored data type: two chunks, rows 0 and 1 separated by more than 1000 ns -/
def exDir : Dir :=
  ({ hdr := { runId := "r", dataType := "src", kind := "things", target := 1, pfx := "src-h" },
     chunks := [⟨0, 1, 0, 10, some "r", none, some 1, some 4, some 1, some 4, some "src-h-000000"⟩,
                ⟨1, 1, 10, 5000, some "r", none, some 4000, some 4001, some 4000, some 4001, some "src-h-000001"⟩],
     start := some 0, stop := some 5000, writingEnded := true, exception := false },
   [("src-h-000000", [⟨1, 4, 0⟩]), ("src-h-000001", [⟨4000, 4001, 1⟩])])

def exStream : List Chunk :=
  [ { dataType := "src", kind := "things", runId := some "r", start := 0, stop := 10, rows := [⟨1, 4, 0⟩],
      subruns := none, superrun := [⟨"r", 0, 10⟩], target := 1 },
    { dataType := "src", kind := "things", runId := some "r", start := 10, stop := 5000, rows := [⟨4000, 4001, 1⟩],
      subruns := none, superrun := [⟨"r", 10, 5000⟩], target := 1 } ]

/-- non-vacuity of the hypotheses: the lineage of `tgt ← src`, groups `[0,1]` and `[2]` -/
example : (∀ e ∈ ([⟨"tgt", ["src"], [], []⟩, ⟨"src", [], [], []⟩] : Lineage), e.deps.Nodup ∧ e.chunkNumber = []) ∧
    (∃ e ∈ ([⟨"tgt", ["src"], [], []⟩, ⟨"src", [], [], []⟩] : Lineage), "src" ∈ e.deps) ∧
    consecutive [0, 1] = true ∧ consecutive [2] = true ∧ Function.Injective (id : Lineage → Lineage) :=
  ⟨by decide, by decide, by decide, by decide, fun _ _ h => h⟩


end Strax.C16
