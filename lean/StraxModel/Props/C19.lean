import StraxModel.Model.Basic
namespace Strax.C19
open Strax

end Strax.C19
