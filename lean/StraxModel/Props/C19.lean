import StraxModel.Lemmas.Peaks
/-
  C19 — peak clustering, summing, merging and splitting conserve hits, area and time.
  Property theorems over the model `Strax.Peaks` (Model/Peaks.lean); helper lemmas in Lemmas/Peaks.lean.
  Every theorem quantifies over ALL inputs of the modelled function (no size bound); hypotheses are
  decidable predicates and come with an `example` that a concrete non-trivial instance satisfies them.
  Naming: `…_partial` = holds only under a hypothesis that excludes part of the property's quantifier (the docstring
  says which part, and names the counterexample / open finding if the full statement is false); `…_counterexample`,
  `…_old_counterexample`, `…_witness` = concrete evaluations (`decide`). 43 theorems: 21 full, 11 partial, 11 witnesses.
  Open findings behind the partial ones: D11 (down-sampling tail / shortened split fragments), find_peaks duration cut
  (overlap, left_extension counted twice). Model parts without their own driver op: `naturalBreaksYields` (see
  `natural_breaks_tiles_partial`).
-/
namespace Strax.C19
open Strax Strax.Peaks

/-! ## find_peaks: peaks are the gap-threshold clusters of the hits -/

/-- **peaks_are_clusters.** Whenever `find_peaks` returns, there is a list of clusters (the closed
candidates of the hit loop, `members` = their hits) such that
* the clusters partition the hits, in order (no hit lost, none used twice);
* every cluster is a non-empty chain: each further hit starts less than `gap_threshold` after the running
  end of the cluster so far and does not make it exceed `max_duration` (`IsChain`), and the candidate's
  fields are the fold of its members (`buildCand`, closed forms in `cluster_fields`);
* consecutive clusters are separated: the first hit of the next one is `>= gap_threshold` behind the running
  end of the previous one, or would have made it too long (`Separated`);
* the peaks are exactly the clusters that pass the area and channel cuts, in order (`Cand.toPeak`,
  characterised in `cuts_spec`), and no cluster hit the "nonpositive length" error. -/
theorem peaks_are_clusters (P : FPParams) (toPe : List Rat) (nCh nS : Nat) (hits : List Hit) (peaks : List Peak)
    (h : findPeaks P toPe nCh nS hits = .ok peaks) :
    ∃ cs : List Cand,
      (cs.map (·.members)).flatten = hits ∧
      (∀ c ∈ cs, IsChain P toPe nCh c.members ∧ buildCand P toPe nCh c.members = some c) ∧
      Separated P cs ∧
      peaks = cs.filterMap (Cand.toPeak P nS) ∧
      (∀ c ∈ cs, ∃ r, c.finish P nS = .ok r) := by
  unfold findPeaks at h
  by_cases he : hits.isEmpty
  · simp only [he, if_true, Except.ok.injEq] at h
    subst h
    have : hits = [] := by simpa using he
    subst this
    exact ⟨[], by simp, by simp, by simp [Separated, sepBy], by simp, by simp⟩
  · simp only [he, if_false, Bool.false_eq_true] at h
    split at h
    · simp at h
    · have hne : hits ≠ [] := by simpa using he
      refine ⟨scanHits P toPe nCh none hits, ?_, ?_, scanHits_separated P toPe nCh hits none, ?_, ?_⟩
      · simpa [membersOf] using scanHits_flatten P toPe nCh hits none hne
      · intro c hc
        exact ⟨scanHits_chain P toPe nCh hits none trivial trivial (by intro c0 _ _ e; cases e) c hc,
               scanHits_inv P toPe nCh hits none trivial c hc⟩
      · exact (finishAll_ok P nS _ peaks h).1
      · exact (finishAll_ok P nS _ peaks h).2

/-- closed forms of a cluster's fields: start = first hit − left extension, running end = latest hit end,
`n_hits`, area and area per channel are the sums over its hits -/
theorem cluster_fields (P : FPParams) (toPe : List Rat) (nCh : Nat) (f : Hit) (t : List Hit) (c : Cand)
    (hb : buildCand P toPe nCh (f :: t) = some c) :
    c.time = f.time - P.left ∧ c.dt = f.dt ∧ c.endt = maxEndt (f :: t) ∧ c.nHits = ((f :: t).length : Int) ∧
    c.area = ((f :: t).map (hitPE toPe)).sum ∧ c.apc.length = nCh ∧
    ((∀ x ∈ f :: t, x.channel < nCh) →
      ∀ k, c.apc.getD k 0 = (((f :: t).filter (fun x => x.channel = k)).map (hitPE toPe)).sum) :=
  buildCand_spec P toPe nCh f t c hb

/-- **cluster_closed_form** — `peaks_are_clusters` without any model helper in the statement. For every cluster
(closed candidate) `c` of the hit loop, first hit `f`:
* inside: every later hit `h'` of the cluster, `pre` = the cluster's hits before it, starts less than `gap_threshold`
  after the latest end among `pre`, and `h'.end − f.time + 2·left_extension + right_extension ≤ max_duration`;
* between: the first hit `h` of the next cluster starts `≥ gap_threshold` after the latest end of `c`'s hits, or
  `h.end − f.time + 2·left_extension + right_extension > max_duration`.
The duration test is the one the code evaluates: it adds `left_extension` twice (`p["time"]` already contains it) and
looks at the END OF THE NEXT HIT, not at the latest end. The documented cut ("max duration time of merged peak",
i.e. `latest end − f.time + left + right ≤ max_duration`) is therefore NOT what separates clusters:
`duration_cut_double_left_counterexample` (open finding `find-peaks-duration-double-left`). -/
theorem cluster_closed_form (P : FPParams) (toPe : List Rat) (nCh : Nat) (hits : List Hit) :
    (∀ c ∈ scanHits P toPe nCh none hits, ∀ (f h' : Hit) (l1 l2 : List Hit), c.members = f :: l1 ++ h' :: l2 →
      h'.time - maxEndt (f :: l1) < P.gap ∧ h'.endt - f.time + 2 * P.left + P.right ≤ P.maxDuration) ∧
    (∀ (pre post : List Cand) (c c' : Cand) (f h : Hit) (t t' : List Hit),
      scanHits P toPe nCh none hits = pre ++ c :: c' :: post → c.members = f :: t → c'.members = h :: t' →
      h.time - maxEndt (f :: t) ≥ P.gap ∨ h.endt - f.time + 2 * P.left + P.right > P.maxDuration) := by
  constructor
  · intro c hc f h' l1 l2 hm
    have := scanHits_chain P toPe nCh hits none trivial trivial (by intro c0 _ _ e; cases e) c hc
    rw [hm] at this
    exact chain_closed_form P toPe nCh f h' l1 l2 this
  · intro pre post c c' f h t t' hsc hm hm'
    have hsep := scanHits_separated P toPe nCh hits none
    rw [hsc] at hsep
    have hsep' : ∀ (l : List Cand), Separated P (l ++ c :: c' :: post) → Separated P (c :: c' :: post) := by
      intro l
      induction l with
      | nil => intro h; exact h
      | cons a l ih =>
        intro h
        apply ih
        cases l with
        | nil => simp only [List.nil_append, List.cons_append, Separated, sepBy, Bool.and_eq_true] at h ⊢; exact h.2
        | cons b l => simp only [List.cons_append, Separated, sepBy, Bool.and_eq_true] at h ⊢; exact h.2
    have h1 := hsep' pre hsep
    simp only [Separated, sepBy, hm', Bool.and_eq_true, Bool.or_eq_true] at h1
    have hinv := scanHits_inv P toPe nCh hits none trivial c (by rw [hsc]; simp)
    unfold Peaks.Inv at hinv
    rw [hm] at hinv
    obtain ⟨s1, _, s3, _⟩ := buildCand_spec P toPe nCh f t c hinv
    rcases h1.1 with hf | hl
    · left; simp only [isFar, decide_eq_true_eq, s3] at hf; omega
    · right; simp only [tooLong, decide_eq_true_eq, s1] at hl; simp only [Hit.endt]; omega

/-- the code's duration test is stricter than the documented cut by `left_extension`: hits `[0,1)` and `[5,6)`,
`gap_threshold` 10, extensions 2 / 0, `max_duration` 8 are split into two peaks although the merged peak `[-2,6)`
would last exactly 8 (reproduced on the real code; with `max_duration` 10 they are merged) -/
theorem duration_cut_double_left_counterexample :
    (findPeaks ⟨10, 2, 0, 0, 1, 8⟩ [1, 1] 2 4 [⟨0, 1, 1, 0, 1, []⟩, ⟨5, 1, 1, 1, 1, []⟩]).toOption
      = some [⟨-2, 3, 1, 1, [1, 0], 1, 0, [0, 0, 0, 0]⟩, ⟨3, 3, 1, 1, [0, 1], 1, 0, [0, 0, 0, 0]⟩] ∧
    (findPeaks ⟨10, 2, 0, 0, 1, 10⟩ [1, 1] 2 4 [⟨0, 1, 1, 0, 1, []⟩, ⟨5, 1, 1, 1, 1, []⟩]).toOption
      = some [⟨-2, 8, 1, 2, [1, 1], 2, 4, [0, 0, 0, 0]⟩] := by decide +kernel

/-- **find_peaks_total**: no error whenever the assertions of `find_peaks` hold, all hits have one positive `dt` and at
least one sample, and the extensions are non-negative (the `ok` hypotheses of the other theorems are not vacuous) -/
theorem find_peaks_total (P : FPParams) (toPe : List Rat) (nCh nS : Nat) (hits : List Hit) (d : Int)
    (ha : fpAsserts P toPe hits = true) (hd : 0 < d) (hg : ∀ x ∈ hits, x.dt = d ∧ 1 ≤ x.length)
    (hl : 0 ≤ P.left) (hr : 0 ≤ P.right) : ∃ peaks, findPeaks P toPe nCh nS hits = .ok peaks :=
  findPeaks_total P toPe nCh nS hits d ha hd hg hl hr

/-- the cuts: a cluster becomes a peak iff its area is at least `min_area` and at least `min_channels`
channels contribute; the peak then carries the cluster's start, dt, area, per-channel areas and hit count -/
theorem cuts_spec (P : FPParams) (nS : Nat) (c : Cand) :
    (∀ p, c.toPeak P nS = some p →
      ¬ c.area < P.minArea ∧ ¬ nonzeroCount c.apc < P.minChannels ∧ p.time = c.time ∧ p.dt = c.dt ∧
      0 < p.length ∧ p.area = c.area ∧ p.apc = c.apc ∧ p.nHits = c.nHits) ∧
    ((c.area < P.minArea ∨ nonzeroCount c.apc < P.minChannels) → c.toPeak P nS = none) := by
  refine ⟨?_, toPeak_none_of_cut P nS c⟩
  intro p hp
  obtain ⟨h1, h2, h3, h4, _, h6, h7, h8, h9, _⟩ := toPeak_some P nS c p hp
  exact ⟨h1, h2, h3, h4, h6, h7, h8, h9⟩

/-- a peak spans its hits ± the extensions (hits of one sampling width on the sample grid): it starts
`left_extension` before its first hit, ends `right_extension` after its latest hit end, so every hit of a
time-sorted cluster lies inside `[time + left, endtime − right]` -/
theorem peak_spans_hits (P : FPParams) (toPe : List Rat) (nCh nS : Nat) (c : Cand) (p : Peak) (d : Int)
    (hb : buildCand P toPe nCh c.members = some c) (hd : 0 < d) (hg : OnGrid d c.members)
    (hl : d ∣ P.left) (hr : d ∣ P.right) (hsorted : c.members.Pairwise (fun a b => a.time ≤ b.time))
    (hp : c.toPeak P nS = some p) :
    ∀ x ∈ c.members, p.time + P.left ≤ x.time ∧ x.endt + P.right ≤ p.endt := by
  obtain ⟨f, t, hm, h1, h2, _⟩ := peak_span P toPe nCh nS c p d hb hd hg hl hr hp
  intro x hx
  refine ⟨?_, by have := le_maxEndt c.members x hx; omega⟩
  rw [hm] at hx hsorted
  rcases List.mem_cons.mp hx with rfl | hx
  · omega
  · have := (List.pairwise_cons.mp hsorted).1 x hx; omega

/-- **clusters_ordered_disjoint_partial** — partial: the disjointness half holds only without a `max_duration` cut
(`SeparatedFar`); with such a cut clusters overlap (`duration_cut_overlap_counterexample`, open finding). The ordering
half is unconditional. Time order and disjointness of ALL closed clusters for time-sorted hits: starts are ordered; and if no
`max_duration` cut happened (`SeparatedFar`), any later cluster starts at least `gap − left − right`
(> 0 by the assertion of `find_peaks`) after the extended end of any earlier one -/
theorem clusters_ordered_disjoint_partial (P : FPParams) (toPe : List Rat) (nCh : Nat) (hits : List Hit)
    (hsorted : hits.Pairwise (fun a b => a.time ≤ b.time)) (hne : hits ≠ []) :
    (scanHits P toPe nCh none hits).Pairwise (fun c c' => c.time ≤ c'.time) ∧
    (SeparatedFar P (scanHits P toPe nCh none hits) →
      (scanHits P toPe nCh none hits).Pairwise
        (fun c c' => (c.endt + P.right) + (P.gap - P.left - P.right) ≤ c'.time)) := by
  have hfl := scanHits_flatten P toPe nCh hits none hne
  simp only [membersOf, List.nil_append] at hfl
  have hinv := scanHits_inv P toPe nCh hits none trivial
  refine ⟨pairwise_time P toPe nCh _ hinv (by rw [hfl]; exact hsorted), ?_⟩
  intro hfar
  have := pairwise_far P toPe nCh _ hinv (by rw [hfl]; exact hsorted) hfar
  exact this.imp (by intro a b hab; omega)

/-- … and therefore of the returned peaks (a sub-list of the clusters): time-ordered, and without a
`max_duration` cut pairwise disjoint with at least `gap − left − right` between them.
FULL statement wanted by the property ("disjoint" unconditionally) is FALSE for the code as it is:
see `duration_cut_overlap_counterexample`. -/
theorem peaks_ordered_disjoint_partial (P : FPParams) (toPe : List Rat) (nCh nS : Nat) (hits : List Hit) (peaks : List Peak)
    (d : Int) (hd : 0 < d) (hg : OnGrid d hits) (hl : d ∣ P.left) (hr : d ∣ P.right)
    (hsorted : hits.Pairwise (fun a b => a.time ≤ b.time))
    (h : findPeaks P toPe nCh nS hits = .ok peaks) :
    peaks.Pairwise (fun p p' => p.time ≤ p'.time) ∧
    (SeparatedFar P (scanHits P toPe nCh none hits) →
      peaks.Pairwise (fun p p' => p.endt + (P.gap - P.left - P.right) ≤ p'.time)) := by
  unfold findPeaks at h
  by_cases he : hits.isEmpty
  · simp only [he, if_true, Except.ok.injEq] at h
    subst h; exact ⟨List.Pairwise.nil, fun _ => List.Pairwise.nil⟩
  · simp only [he, if_false, Bool.false_eq_true] at h
    split at h
    · simp at h
    · have hne : hits ≠ [] := by simpa using he
      obtain ⟨hp, _⟩ := finishAll_ok P nS _ peaks h
      obtain ⟨ho, hdj⟩ := clusters_ordered_disjoint_partial P toPe nCh hits hsorted hne
      have hfl := scanHits_flatten P toPe nCh hits none hne
      simp only [membersOf, List.nil_append] at hfl
      have hinv := scanHits_inv P toPe nCh hits none trivial
      have hmem : ∀ c ∈ scanHits P toPe nCh none hits, OnGrid d c.members := by
        intro c hc x hx
        apply hg
        rw [← hfl]
        exact List.mem_flatten.mpr ⟨c.members, List.mem_map.mpr ⟨c, hc, rfl⟩, hx⟩
      subst hp
      constructor
      · rw [List.pairwise_filterMap]
        refine ho.imp_of_mem ?_
        intro a b ha hb hab p hpa p' hpb
        have := (toPeak_some P nS a p hpa).2.2.1
        have := (toPeak_some P nS b p' hpb).2.2.1
        omega
      · intro hfar
        rw [List.pairwise_filterMap]
        refine (hdj hfar).imp_of_mem ?_
        intro a b ha hb hab p hpa p' hpb
        obtain ⟨f, t, hm, h1, h2, _⟩ := peak_span P toPe nCh nS a p d (hinv a ha) hd (hmem a ha) hl hr hpa
        have h3 := (toPeak_some P nS b p' hpb).2.2.1
        have h4 : a.endt = maxEndt a.members := by
          have := hinv a ha; unfold Peaks.Inv at this; rw [hm] at this ⊢
          exact (buildCand_spec P toPe nCh f t a this).2.2.1
        omega

/-- The code as it is does NOT make peaks disjoint when a peak is closed by the `max_duration` limit:
hits `[0,1)` and `[5,6)`, `gap_threshold` 10, extensions 2 / 3, `max_duration` 6 give the overlapping peaks
`[-2,4)` and `[3,9)` (reproduced on the real code; recorded as an open finding). -/
theorem duration_cut_overlap_counterexample :
    ∃ (P : FPParams) (hits : List Hit) (p q : Peak),
      (findPeaks P [1, 1] 2 4 hits).toOption = some [p, q] ∧ q.time < p.endt :=
  ⟨⟨10, 2, 3, 0, 1, 6⟩, [⟨0, 1, 1, 0, 1, []⟩, ⟨5, 1, 1, 1, 1, []⟩],
   ⟨-2, 6, 1, 1, [1, 0], 1, 0, [0, 0, 0, 0]⟩, ⟨3, 6, 1, 1, [0, 1], 1, 0, [0, 0, 0, 0]⟩, by decide +kernel, by decide +kernel⟩

/-! non-vacuity: a concrete three-hit input that satisfies all hypotheses above and gives two peaks -/
example : (findPeaks ⟨5, 1, 2, 0, 1, 100⟩ [1, 2] 2 4 [⟨0, 2, 1, 0, 3, []⟩, ⟨3, 1, 1, 1, 1, []⟩, ⟨20, 1, 1, 0, 2, []⟩]).toOption
    = some [⟨-1, 7, 1, 5, [3, 2], 2, 1, [0, 0, 0, 0]⟩, ⟨19, 4, 1, 2, [2, 0], 1, 0, [0, 0, 0, 0]⟩] := by decide +kernel
example : SeparatedFar ⟨5, 1, 2, 0, 1, 100⟩
    (scanHits ⟨5, 1, 2, 0, 1, 100⟩ [1, 2] 2 none [⟨0, 2, 1, 0, 3, []⟩, ⟨3, 1, 1, 1, 1, []⟩, ⟨20, 1, 1, 0, 2, []⟩]) := by
  decide +kernel
example : OnGrid 1 [⟨0, 2, 1, 0, 3, []⟩, ⟨3, 1, 1, 1, 1, []⟩, ⟨20, 1, 1, 0, 2, []⟩] := by
  intro x hx; simp at hx; rcases hx with rfl | rfl | rfl <;> exact ⟨rfl, Int.one_dvd _⟩

/-! ## _split_peaks: the fragments tile the parent -/

/-- **split_tiles_parent_partial** — partial: about `PeakSplitter._split_peaks` itself, i.e. the fragments BEFORE `split_peaks` re-sums
them (`sum_waveform` may down-sample a fragment again: `split_resummed_*` below). For every list of yielded split indices: if `_split_peaks` accepts it (no
"invalid peak" error) and the parent's `dt` is a multiple of the original `dt`, the fragments start at the
parent's start, follow each other without gap or overlap, are non-empty, and end at the last split index;
when the splitter closes with `len(w)` (as both strax splitters do now) they end at the parent's end. -/
theorem split_tiles_parent_partial (p : Peak) (origDt : Int) (splits : List Int) (frags : List Frag)
    (hdiv : origDt ∣ p.dt) (h : splitOne p.time p.dt origDt 0 splits = .ok frags) :
    Tiles frags p.time (p.time + lastSplit 0 splits * p.dt) ∧
    (lastSplit 0 splits = p.length → Tiles frags p.time p.endt) := by
  have := splitOne_tiles p.time p.dt origDt hdiv splits 0 frags h
  simp only [Int.zero_mul, Int.add_zero] at this
  refine ⟨this, ?_⟩
  intro hl
  rw [hl] at this
  simpa [Peak.endt, Int.mul_comm] using this

/-- without the divisibility assumption the fragments may leave gaps (the length is truncated) but they
never overlap and never start before the parent -/
theorem split_never_overlaps (p : Peak) (origDt : Int) (splits : List Int) (frags : List Frag)
    (hd : 0 < origDt) (h : splitOne p.time p.dt origDt 0 splits = .ok frags) : NoOverlap frags p.time := by
  simpa using splitOne_noOverlap p.time p.dt origDt hd splits 0 frags h

/-- **natural_breaks_tiles_partial** — partial twice over: one splitter, and the fragments BEFORE re-summing (see
`split_resummed_tiles_partial`). `naturalBreaksYields` has no driver op of its own: the position `maxI` of the split
(argmax of the goodness of split) is abstract; the yielded structure `[maxI, len(w), NO_MORE_SPLITS]` is tied to the code
only through the end-to-end component `split_peaks/real_splitters` (oracle: the fragments of the real
`NaturalBreaksSplitter` tile the parent). The natural-breaks splitter as it is now (closing index `len(w)`) tiles: -/
theorem natural_breaks_tiles_partial (p : Peak) (origDt maxI : Int) (frags : List Frag) (hdiv : origDt ∣ p.dt)
    (hm : 0 ≤ maxI) (hl : 0 ≤ p.length)
    (h : splitOne p.time p.dt origDt 0 (naturalBreaksYields true p.length maxI true) = .ok frags) :
    Tiles frags p.time p.endt := by
  refine (split_tiles_parent_partial p origDt _ frags hdiv h).2 ?_
  have h1 : maxI ≠ NO_MORE_SPLITS := by unfold NO_MORE_SPLITS; omega
  have h2 : p.length ≠ NO_MORE_SPLITS := by unfold NO_MORE_SPLITS; omega
  simp [naturalBreaksYields, lastSplit, h1, h2]

/-- **local_minimum_tiles_partial** — partial: one splitter, fragments BEFORE re-summing (`split_resummed_tiles_partial`);
`localMinimumYields` is tied by the correspondence component `local_minimum_split_points` (op `c19.lmsplit`).
The local-minimum splitter (`localMinimumYields` = everything `LocalMinimumSplitter.find_split_points` yields)
closes with `len(w)` whenever it yields a split at all, so its fragments tile the parent -/
theorem local_minimum_tiles_partial (p : Peak) (origDt' : Int) (w : List Rat) (minHeight minRatio : Rat)
    (frags : List Frag) (hdiv : origDt' ∣ p.dt) (hw : (w.length : Int) = p.length)
    (h : splitOne p.time p.dt origDt' 0 (localMinimumYields w minHeight minRatio) = .ok frags) :
    frags = [] ∨ Tiles frags p.time p.endt := by
  rcases localMinimumYields_close w minHeight minRatio with hno | hclose
  · left
    rw [hno] at h
    simpa [splitOne] using h.symm
  · right
    exact (split_tiles_parent_partial p origDt' _ frags hdiv h).2 (by rw [hclose, hw])

/-- **split_resummed_never_overlaps** — end-to-end reading of "splitting tiles the parent" (`split_peaks` re-sums every
fragment; `Frag.resummed nS` is what `store_downsampled_waveform` then does to its time span, `resummed_eq_store`):
the re-summed fragments never overlap and never start before the parent. -/
theorem split_resummed_never_overlaps (p : Peak) (origDt : Int) (nS : Nat) (splits : List Int) (frags : List Frag)
    (hd : 0 < origDt) (h : splitOne p.time p.dt origDt 0 splits = .ok frags) :
    Ordered (frags.map (Frag.resummed nS)) p.time := by
  have hn := split_never_overlaps p origDt splits frags hd h
  have hdt : ∀ f ∈ frags, 0 < f.dt := by
    have : ∀ (sp : List Int) (prev : Int) (fr : List Frag), splitOne p.time p.dt origDt prev sp = .ok fr → ∀ f ∈ fr, f.dt = origDt := by
      intro sp
      induction sp with
      | nil => intro prev fr h f hf; simp [splitOne] at h; subst h; simp at hf
      | cons s rest ih =>
        intro prev fr h f hf
        unfold splitOne at h
        split at h
        · exact ih prev fr h f hf
        · split at h
          · simp at h
          · simp only [] at h
            split at h
            · simp at h
            · split at h
              · simp at h
              · rename_i fr' hfr
                simp only [Except.ok.injEq] at h
                subst h
                rcases List.mem_cons.mp hf with rfl | hf
                · rfl
                · exact ih s fr' hfr f hf
    intro f hf; rw [this splits 0 frags h f hf]; exact hd
  exact NoOverlap_resummed nS frags p.time hdt hn

/-- **split_resummed_tiles_partial.** FULL statement wanted by the property: the fragments RETURNED by `split_peaks`
tile the parent. False for the code as it is when a fragment does not fit the buffer and its down-sampling factor
does not divide its length (`split_resum_gap_counterexample`, open finding `D11-split-fragment-shortened`, same floor
in `store_downsampled_waveform` as D11). Proved part: they tile whenever no fragment is shortened (`NoShortening`). -/
theorem split_resummed_tiles_partial (p : Peak) (origDt : Int) (nS : Nat) (splits : List Int) (frags : List Frag)
    (hdiv : origDt ∣ p.dt) (hl : lastSplit 0 splits = p.length) (hns : NoShortening nS frags)
    (h : splitOne p.time p.dt origDt 0 splits = .ok frags) :
    Tiles (frags.map (Frag.resummed nS)) p.time p.endt :=
  Tiles_resummed nS frags p.time p.endt hns ((split_tiles_parent_partial p origDt splits frags hdiv h).2 hl)

/-- a down-sampled parent (`8 × 3 ns` = `[0,24)`, digitizer dt 1, 8-sample buffer) split at sample 3: `_split_peaks`
makes fragments of 9 and 15 samples that tile `[0,24)`; re-summed they become `4 × 2 ns = [0,8)` and
`7 × 2 ns = [9,23)` — `[8,9)` and `[23,24)` are uncovered (reproduced with `strax.split_peaks`) -/
theorem split_resum_gap_counterexample :
    (splitOne 0 3 1 0 [3, 8, NO_MORE_SPLITS]).toOption = some [⟨0, 9, 1⟩, ⟨9, 15, 1⟩] ∧
    [(⟨0, 9, 1⟩ : Frag), ⟨9, 15, 1⟩].map (Frag.resummed 8) = [⟨0, 4, 2⟩, ⟨9, 7, 2⟩] ∧
    ¬ NoShortening 8 [⟨0, 9, 1⟩, ⟨9, 15, 1⟩] := by
  refine ⟨by decide +kernel, by decide +kernel, ?_⟩
  intro h
  have := h ⟨0, 9, 1⟩ (by simp)
  revert this; decide

example : NoShortening 8 [⟨0, 6, 1⟩, ⟨6, 10, 1⟩] := by
  intro f hf; simp at hf; rcases hf with rfl | rfl <;> decide

/-- the closing index before the fix of D15 (`len(w) - 1`) left the last sample of the parent uncovered:
parent `[0,16)`, best split at 3 → fragments `[0,3)`, `[3,15)` -/
theorem natural_breaks_old_counterexample :
    (splitOne 0 1 1 0 (naturalBreaksYields false 16 3 true)).toOption = some [⟨0, 3, 1⟩, ⟨3, 12, 1⟩] ∧
    ¬ Tiles [⟨0, 3, 1⟩, ⟨3, 12, 1⟩] 0 16 := by
  refine ⟨by decide +kernel, ?_⟩
  simp [Tiles, Frag.endt]

example : (splitOne 8 2 1 0 [2, 5, NO_MORE_SPLITS]).toOption = some [⟨8, 4, 1⟩, ⟨12, 6, 1⟩] := by decide +kernel

/-! ## symmetric_moving_average -/

/-- **moving_average_spec** (full strength, all waveforms, all wing widths): every output sample is the mean
of the input samples with index in `[i − w, i + w] ∩ [0, n)`. -/
theorem moving_average_spec (a : List Rat) (w : Nat) :
    symmetricMovingAverage a w = (List.range a.length).map (windowMean a w) :=
  symmetricMovingAverage_eq a w

/-- before the fix of D5 (`just_out > 0`) sample 0 never left the window: `[1,2,6]`, wing 1 gave `3` instead of
`4` for the last sample -/
theorem moving_average_old_counterexample :
    smaGen false true [1, 2, 6] 1 ≠ (List.range 3).map (windowMean [1, 2, 6] 1) := by decide +kernel

/-- before the fix of D14 (`count = wing_width`) a wing wider than the waveform gave a wrong divisor:
`[1,2]`, wing 3 gave `[1,1]` instead of `[3/2,3/2]` -/
theorem moving_average_wide_old_counterexample :
    smaGen true false [1, 2] 3 ≠ (List.range 2).map (windowMean [1, 2] 3) := by decide +kernel

example : symmetricMovingAverage [1, 2, 6] 1 = [3/2, 3, 4] := by decide +kernel

/-! ## sum_waveform + store_downsampled_waveform: the summed waveform integrates to the area -/

/-- decidable hypothesis of the partial theorem: down-sampling loses nothing — the factor divides the length,
or the samples behind the last full group are all zero -/
def NoTailLoss (p : Peak) (buf : List Rat) : Prop :=
  downsampleFactor p.length.toNat p.data.length ∣ p.length.toNat ∨ (droppedTail p buf).all (· = 0) = true

instance (p : Peak) (buf : List Rat) : Decidable (NoTailLoss p buf) := by unfold NoTailLoss; infer_instance

/-- **sum_conserves_area** in the form that IS true of the code for all inputs: for every peak summed by
`sum_waveform` (`sumOnePeak`; `buf` = its full-resolution waveform)
`Σ buf = area = Σ area_per_channel`, and `Σ data[:length] + Σ (samples dropped by down-sampling) = area`. -/
theorem sum_conserves_area (dt : Int) (toPe : List Rat) (nCh : Nat) (p q : Peak) (hits : List Hit) (buf : List Rat)
    (hn : 0 < p.data.length) (hch : ∀ x ∈ hits, x.channel < nCh)
    (h : sumOnePeak dt toPe nCh p hits = .ok (q, buf)) :
    buf.sum = q.area ∧ q.apc.sum = q.area ∧ q.wave.sum + (droppedTail p buf).sum = q.area := by
  obtain ⟨h1, h2, h3⟩ := sumOnePeak_conserves dt toPe nCh p q hits buf hn h
  exact ⟨h1, h3 hch, h2⟩

/-- **sum_conserves_area_partial.** FULL statement wanted by the property:
`∀ …, sumOnePeak … = ok (q, buf) → q.wave.sum = q.area` ("also after down-sampling") — FALSE for the code as
it is (`downsample_counterexample`, defect D11). Proved part: it holds whenever the down-sampling factor
divides the length or the dropped tail is zero (`NoTailLoss`). Missing: nothing else — the gap is exactly D11. -/
theorem sum_conserves_area_partial (dt : Int) (toPe : List Rat) (nCh : Nat) (p q : Peak) (hits : List Hit) (buf : List Rat)
    (hn : 0 < p.data.length) (hch : ∀ x ∈ hits, x.channel < nCh) (ht : NoTailLoss p buf)
    (h : sumOnePeak dt toPe nCh p hits = .ok (q, buf)) :
    q.wave.sum = q.area ∧ q.apc.sum = q.area := by
  obtain ⟨_, h2, h3⟩ := sum_conserves_area dt toPe nCh p q hits buf hn hch h
  refine ⟨?_, h2⟩
  have hz : (droppedTail p buf).sum = 0 := by
    rcases ht with hd | hz
    · rw [droppedTail_nil_of_dvd p buf hd]; rfl
    · exact sum_zero_of_all_zero _ hz
  rw [hz, Rat.add_zero] at h3
  exact h3

/-- every peak returned by `sum_waveform` went through `sumOnePeak` over a suffix of the hits — or the hits
were exhausted and the peak was left alone (possibly with its area reset; documented corner of the code) -/
theorem sum_waveform_peaks (dt : Int) (toPe : List Rat) (nCh : Nat) (peaks out : List Peak) (hits : List Hit)
    (h : sumWaveform dt toPe nCh peaks hits = .ok out) :
    AllPairs (fun p q =>
      (∃ hits' buf, sumOnePeak dt toPe nCh p hits' = .ok (q, buf) ∧ ∀ x ∈ hits', x ∈ hits) ∨ q = p ∨ q = { p with area := 0 })
      peaks out := by
  unfold sumWaveform at h
  by_cases he : peaks.isEmpty
  · have : peaks = [] := by simpa using he
    subst this
    simp at h; subst h; trivial
  · simp only [he, if_false, Bool.false_eq_true] at h
    exact sumLoop_forall dt toPe nCh peaks hits out h

/-- **area = Σ hit contributions.** For time-sorted hits on the sample grid of the peak (each carrying its
`length` samples) the area that `sum_waveform` assigns to a peak is the sum over ALL hits of their definitional
contribution — the samples lying inside `[time, time + length·dt)`, times `to_pe` of the channel
(`contribution`); hits before the first contributing one and behind the `break` contribute nothing. -/
theorem sum_equals_hit_contributions (dt : Int) (toPe : List Rat) (nCh : Nat) (p q : Peak) (hits hits' : List Hit)
    (buf : List Rat) (hdt : 0 < dt)
    (hal : ∀ h ∈ hits, ∃ s : Int, h.time = p.time + s * dt) (hwl : ∀ h ∈ hits, (h.wave.length : Int) = h.length)
    (hsort : hits.Pairwise (fun a b => a.time ≤ b.time))
    (hfc : firstContributing p dt hits = some hits') (h : sumOnePeak dt toPe nCh p hits' = .ok (q, buf)) :
    q.area = (hits.map (contribution p dt toPe)).sum :=
  sumOnePeak_contributions dt toPe nCh p q hits hits' buf hdt hal hwl hsort hfc h

example : contribution ⟨0, 6, 1, 0, [0, 0], 0, 0, [0, 0, 0, 0]⟩ 1 [1, 2] ⟨4, 3, 1, 1, 6, [1, 2, 3]⟩ = 6 := by decide +kernel

/-- **downsample_counterexample** (D11): a peak of 5 samples, 4-sample buffer, one hit of 7 in the last sample:
`sum_waveform` returns area 7 and an all-zero waveform of 2 samples. -/
theorem downsample_counterexample :
    ∃ (p q : Peak) (hits : List Hit) (buf : List Rat),
      (sumOnePeak 1 [1, 1] 2 p hits).toOption = some (q, buf) ∧ q.area = 7 ∧ q.wave.sum = 0 ∧ ¬ NoTailLoss p buf :=
  ⟨⟨0, 5, 1, 0, [0, 0], 0, 0, [0, 0, 0, 0]⟩, ⟨0, 2, 2, 7, [7, 0], 0, 0, [0, 0, 0, 0]⟩,
   [⟨4, 1, 1, 0, 7, [7]⟩], [0, 0, 0, 0, 7], by decide +kernel, by decide +kernel, by decide +kernel, by decide +kernel⟩

/-! non-vacuity of `NoTailLoss`: six samples into a four-sample buffer (factor 2 divides 6) -/
example : (sumOnePeak 1 [1, 2] 2 ⟨0, 6, 1, 0, [0, 0], 0, 0, [0, 0, 0, 0]⟩ [⟨1, 2, 1, 0, 5, [2, 3]⟩, ⟨4, 2, 1, 1, 2, [1, 1]⟩]).toOption
    = some (⟨0, 3, 2, 9, [5, 4], 0, 0, [2, 3, 4, 0]⟩, [0, 2, 3, 0, 2, 2]) := by decide +kernel
example : NoTailLoss ⟨0, 6, 1, 0, [0, 0], 0, 0, [0, 0, 0, 0]⟩ [0, 2, 3, 0, 2, 2] := by decide +kernel

/-! ## merge_peaks -/

/-- **merge_adds_and_spans** (all inputs): the merged peak starts at the first constituent, the collected end
time is the end of the last one, area / hit count / per-channel areas are the sums over the constituents, and
the stored `dt * length` never reaches beyond the last end. -/
theorem merge_adds_and_spans (nCh nS : Nat) (old : List Peak) (q : Peak) (e : Int)
    (h : mergeOne nCh nS old = .ok (q, e)) :
    ∃ first last, old.head? = some first ∧ old.getLast? = some last ∧
      q.time = first.time ∧ e = last.endt ∧
      q.area = (old.map (·.area)).sum ∧ q.nHits = (old.map (·.nHits)).sum ∧
      ((∀ p ∈ old, p.apc.length = nCh) → ∀ k, q.apc.getD k 0 = (old.map (·.apc.getD k 0)).sum) ∧
      ((∀ p ∈ old, 0 ≤ p.dt) → 0 < q.dt ∧ q.time + q.dt * q.length ≤ e) :=
  mergeOne_spec nCh nS old q e h

example : (mergeOne 2 4 [⟨0, 3, 1, 6, [1, 5], 1, 0, [1, 2, 3, 0]⟩, ⟨4, 2, 2, 12, [2, 10], 2, 0, [4, 8, 0, 0]⟩]).toOption
    = some (⟨0, 4, 2, 18, [3, 15], 3, -1, [3, 3, 4, 8]⟩, 8) := by decide +kernel

/-- **merge_conserves_waveform** (all time-sorted, non-overlapping constituents with positive `dt`): the merged
peak is `store_downsampled_waveform` of a full-resolution buffer that integrates to the sum of the constituents'
waveforms (each up-sampled to the common `dt`, zeros in the gaps); so the stored waveform PLUS the samples that
down-sampling drops (D11) integrate to `Σ_k Σ data_k[:length_k]`. -/
theorem merge_conserves_waveform (nCh nS : Nat) (old : List Peak) (q : Peak) (e : Int) (hnS : 0 < nS)
    (hd : DisjointSorted old) (hdt : ∀ p ∈ old, 0 < p.dt) (h : mergeOne nCh nS old = .ok (q, e)) :
    ∃ (p0 : Peak) (buf : List Rat), q = storeDownsampled p0 buf ∧ p0.data.length = nS ∧ buf.length = p0.length.toNat ∧
      buf.sum = (old.map (·.wave.sum)).sum ∧
      q.wave.sum + (droppedTail p0 buf).sum = (old.map (·.wave.sum)).sum :=
  mergeOne_wave nCh nS old q e hnS hd hdt h

/-- **merge_waveform_is_area_partial.** FULL statement wanted: the merged waveform integrates to the merged area
(= Σ constituent areas). Proved part: it does whenever every constituent's waveform integrates to its area and
down-sampling loses nothing (`NoTailLoss`: the factor divides the merged length or the dropped tail is zero).
Missing: exactly the D11 case, see `merge_downsample_counterexample`. -/
theorem merge_waveform_is_area_partial (nCh nS : Nat) (old : List Peak) (q : Peak) (e : Int) (hnS : 0 < nS)
    (hd : DisjointSorted old) (hdt : ∀ p ∈ old, 0 < p.dt) (hcons : ∀ p ∈ old, p.wave.sum = p.area)
    (h : mergeOne nCh nS old = .ok (q, e))
    (ht : ∀ p0 buf, q = storeDownsampled p0 buf → p0.data.length = nS → buf.length = p0.length.toNat →
            buf.sum = (old.map (·.wave.sum)).sum → NoTailLoss p0 buf) :
    q.wave.sum = q.area := by
  obtain ⟨p0, buf, h1, h2, h3, h4, h5⟩ := mergeOne_wave nCh nS old q e hnS hd hdt h
  obtain ⟨_, _, _, _, _, _, ha, _⟩ := mergeOne_spec nCh nS old q e h
  have hz : (droppedTail p0 buf).sum = 0 := by
    rcases ht p0 buf h1 h2 h3 h4 with hdv | hz
    · rw [droppedTail_nil_of_dvd p0 buf hdv]; rfl
    · exact sum_zero_of_all_zero _ hz
  rw [hz, Rat.add_zero] at h5
  rw [h5, ha]
  congr 1
  exact List.map_congr_left hcons

/-- D11 through `merge_peaks`: two adjacent peaks of 3 + 2 samples into a 4-sample buffer, 7 PE in the last
sample: merged area 11, merged waveform `[2, 2]` -/
theorem merge_downsample_counterexample :
    (mergeOne 2 4 [⟨0, 3, 1, 3, [3, 0], 1, 0, [1, 1, 1, 0]⟩, ⟨3, 2, 1, 8, [8, 0], 1, 0, [1, 7, 0, 0]⟩]).toOption
      = some (⟨0, 2, 2, 11, [11, 0], 2, -1, [2, 2, 0, 0]⟩, 5) := by decide +kernel

example : DisjointSorted [⟨0, 3, 1, 6, [1, 5], 1, 0, [1, 2, 3, 0]⟩, ⟨4, 2, 2, 12, [2, 10], 2, 0, [4, 8, 0, 0]⟩] := by
  simp [DisjointSorted, Peak.endt]

/-! ## add_lone_hits -/

/-- **add_lone_hits_spec.** If `add_lone_hits` returns: the lone hits are assigned by `_fc_in` (`fc`), which only
ever names a peak that fully contains the hit (`fcIn_sound`); every peak keeps its time span; its area grows by the
PE (`area · to_pe[channel]`) of exactly the hits assigned to it, `area_per_channel[c]` by those of channel `c`,
and waveform sample `(lh.time − time) // dt` receives each of them. -/
theorem add_lone_hits_spec (toPe : List Rat) (peaks out : List Peak) (lone : List Hit)
    (h : addLoneHits toPe peaks lone = .ok out) :
    let fc := fcIn (lone.map fun h => (h.time, h.endt)) (peaks.map fun p => (p.time, p.endt)) 0
    out.length = peaks.length ∧
    (∀ (n k : Nat), fc[n]? = some (some k) → ∃ (lh : Hit) (p : Peak), lone[n]? = some lh ∧ peaks[k]? = some p ∧ p.time ≤ lh.time ∧ lh.endt ≤ p.endt) ∧
    (∀ k p, peaks[k]? = some p → ∃ q, out[k]? = some q ∧
      q.time = p.time ∧ q.length = p.length ∧ q.dt = p.dt ∧
      q.area = p.area + loneArea toPe (fc.zip lone) k ∧
      (∀ c, q.apc.getD c 0 = p.apc.getD c 0 + loneApc toPe (fc.zip lone) k c p.apc.length) ∧
      (∀ m, q.data.getD m 0 = p.data.getD m 0 + loneData toPe (fc.zip lone) p k m)) := by
  intro fc
  obtain ⟨h1, h2⟩ := addLoneLoop_spec toPe _ peaks out (addLoneHits_ok toPe peaks out lone h)
  refine ⟨h1, ?_, ?_⟩
  · intro n k hn
    obtain ⟨a, c, e1, _, e3, e4, e5⟩ := fcIn_sound _ _ 0 n k hn
    simp only [Nat.sub_zero, List.getElem?_map] at e1 e3
    cases hl : lone[n]? with
    | none => rw [hl] at e1; simp at e1
    | some lh =>
      cases hp : peaks[k]? with
      | none => rw [hp] at e3; simp at e3
      | some p =>
        rw [hl] at e1; rw [hp] at e3
        simp only [Option.map_some, Option.some.injEq] at e1 e3
        subst e1; subst e3
        exact ⟨lh, p, rfl, rfl, e4, e5⟩
  · intro k p hp
    obtain ⟨q, e1, e2, e3, e4, _, _, e7, e8, e9⟩ := h2 k p hp
    exact ⟨q, e1, e2, e3, e4, e7, e8, e9⟩

example : (addLoneHits [1, 2] [⟨0, 4, 2, 5, [5, 0], 1, 0, [1, 4, 0, 0]⟩] [⟨4, 1, 1, 1, 3, []⟩, ⟨9, 1, 1, 0, 1, []⟩]).toOption
    = some [⟨0, 4, 2, 11, [5, 6], 1, 0, [1, 4, 6, 0]⟩] := by decide +kernel

/-! ## replace_merged -/

/-- **replace_merged_spec_partial.** FULL statement wanted: for time-sorted disjoint originals and merged rows that are
the spans of disjoint runs of originals, `replace_merged` returns the interleaving below. Proved part: the statement
under the hypothesis `WindowsOk` on the COMPUTED skip windows (`touchingWindows orig merge`); `_replace_merged` itself is
covered for all inputs with such windows (`replaceMergedCore_spec`). Missing: the derivation of `WindowsOk` (and of
`MergedStartAtWindow`) from conditions on `orig` / `merge` alone, i.e. the specification of `touching_windows` (C17);
the oracle `oracle_replace` states the clause independently on the real code. If `replace_merged` returns, then either nothing was to be merged and the array is
returned as it is, or — for skip windows that are non-empty, in order and non-overlapping (`WindowsOk`,
what `touching_windows` yields for disjoint merged peaks each covering at least one original) — the result is
`orig[0:s0] ++ [m0] ++ orig[e0:s1] ++ [m1] ++ … ++ orig[e_last:]`: every original row outside the windows is
kept untouched, in its place and order, and every window is replaced by its merged row. -/
theorem replace_merged_spec_partial (orig merge res : List Row) (h : replaceMerged orig merge = .ok res) :
    (merge = [] ∧ res = orig) ∨
    ∃ windows, touchingWindows orig merge = .ok windows ∧
      (WindowsOk orig.length 0 (merge.zip windows) → res = replaceSpec orig 0 (merge.zip windows)) := by
  unfold replaceMerged at h
  by_cases he : merge.isEmpty
  · left
    simp only [he, if_true, Except.ok.injEq] at h
    exact ⟨by simpa using he, h.symm⟩
  · right
    simp only [he, if_false, Bool.false_eq_true] at h
    split at h
    · simp at h
    · rename_i windows hw
      exact ⟨windows, hw, fun hok => replaceMergedCore_spec orig merge windows res hok h⟩

example : (replaceMerged [⟨0, 2, 0⟩, ⟨3, 5, 1⟩, ⟨5, 6, 2⟩, ⟨9, 10, 3⟩] [⟨3, 6, 100⟩]).toOption
    = some [⟨0, 2, 0⟩, ⟨3, 6, 100⟩, ⟨9, 10, 3⟩] := by decide +kernel
example : WindowsOk 4 0 ([(⟨3, 6, 100⟩ : Row)].zip [(1, 3)]) := by simp [WindowsOk]

/-- **replace_merged_sorted_partial** (partial for the same reason as `replace_merged_spec_partial`: hypotheses on the
computed windows). Under the preconditions of `replace_merged_spec_partial` (well-formed windows), time-sorted
originals and merged rows that start where the first original row of their window starts (what `merge_peaks`
produces: `time` of the first constituent), the result of `replace_merged` is sorted by time. -/
theorem replace_merged_sorted_partial (orig merge res : List Row) (windows : List (Nat × Nat))
    (hso : orig.Pairwise (fun a b => a.time ≤ b.time))
    (htw : touchingWindows orig merge = .ok windows) (hne : merge ≠ [])
    (hw : WindowsOk orig.length 0 (merge.zip windows)) (hm : MergedStartAtWindow orig (merge.zip windows))
    (h : replaceMerged orig merge = .ok res) :
    res.Pairwise (fun a b => a.time ≤ b.time) := by
  rcases replace_merged_spec_partial orig merge res h with ⟨he, _⟩ | ⟨w', hw', hres⟩
  · exact absurd he hne
  · rw [htw] at hw'
    have : w' = windows := by simpa using hw'.symm
    subst this
    rw [hres hw]
    exact replaceSpec_sorted orig hso _ 0 hw hm

example : MergedStartAtWindow [⟨0, 2, 0⟩, ⟨3, 5, 1⟩, ⟨5, 6, 2⟩, ⟨9, 10, 3⟩] ([(⟨3, 6, 100⟩ : Row)].zip [(1, 3)]) := by
  simp [MergedStartAtWindow]

/-! ## index_of_fraction -/

/-- **index_of_fraction_spec.** For a positive total area and ascending fractions the result of
`compute_index_of_fraction` is, fraction by fraction, the defining `reachIndex` (first crossing of the
cumulated area through `f·A`, linearly interpolated — `reach_index_is_first_crossing`); fractions that are never
reached stay 0; and, as in the code, the last slot is set to `length` when the fraction still open at the end
of the waveform (or, if none is open, the last fraction) equals 1. -/
theorem index_of_fraction_spec (wave : List Rat) (length : Int) (A : Rat) (fs : List Rat)
    (hA : 0 < A) (hs : fs.Pairwise (· ≤ ·)) :
    computeIndexOfFraction wave length A fs =
      (let reached := fs.filterMap (fun f => reachIndex A f wave 0 0)
       let open_ := fs.filter (fun f => (reachIndex A f wave 0 0).isNone)
       let res := reached ++ open_.map (fun _ => (0 : Rat))
       let needed := match open_ with
         | f :: _ => some f
         | [] => fs.getLast?
       if needed = some 1 then setLast res (length : Rat) else res) := by
  obtain ⟨h1, h2⟩ := iofLoop_spec A hA wave 0 0 fs hs
  unfold computeIndexOfFraction
  generalize iofLoop A wave 0 0 fs = r at h1 h2
  obtain ⟨rs, rem⟩ := r
  simp only [Rat.zero_mul] at h1 h2
  simp only [] at h1 h2 ⊢
  rw [h1, h2]
  rfl

/-- the defining property of `reachIndex` -/
theorem reach_index_is_first_crossing (A f : Rat) (xs : List Rat) (r : Rat) (h : reachIndex A f xs 0 0 = some r) :
    ∃ k, k < xs.length ∧ (∀ j < k, (xs.take (j+1)).sum < f * A) ∧ (xs.take (k+1)).sum ≥ f * A ∧
      (xs.getD k 0 ≠ 0 → (r - (k : Rat)) * xs.getD k 0 = f * A - (xs.take k).sum) ∧
      (xs.getD k 0 = 0 → r = (k : Rat)) := by
  obtain ⟨k, h1, h2, h3, h4, h5⟩ := reachIndex_spec A f xs 0 0 r h
  refine ⟨k, h1, ?_, ?_, ?_, ?_⟩
  · intro j hj; have := h2 j hj; rwa [Rat.zero_add] at this
  · rwa [Rat.zero_add] at h3
  · intro hx; have := h4 hx; simpa [Rat.zero_add] using this
  · intro hx; have := h5 hx; simpa using this

example : computeIndexOfFraction [1, 0, 3] 3 4 [1/4, 1/2, 1] = [1, 7/3, 3] := by decide +kernel

/-! ## compute_widths -/

/-- **compute_widths_spec_partial** — partial: under `hodd` (the fraction list has an odd number `2i+1` of entries), shown
for `n_widths` 5 and 11 by the witnesses below but not proved for every `n_widths`. With `fr = widthFractions n_widths` (ascending, `2i+1` entries, symmetric about 1/2:
`width_fractions_5_witness`, `width_fractions_11_witness`) and the area-fraction times `t_j = index_of_fraction(fr)[j]·dt` (each the
defining first crossing, `index_of_fraction_spec`): median time = `t_i`, width `k` = `t_{i+k} − t_{i−k}` (the time
between the `1/2 − w_k/2` and `1/2 + w_k/2` area fractions), area decile `k` from midpoint = `t_{2k} − t_i`. -/
theorem compute_widths_spec_partial (p : Peak) (nW i : Nat) (hodd : (widthFractions nW).length = 2 * i + 1) :
    let times := (indexOfFraction p (widthFractions nW)).map (· * (p.dt : Rat))
    (computeWidths p nW).1 = times.getD i 0 ∧
    (∀ k, k ≤ i → (computeWidths p nW).2.1[k]? = some (times.getD (i + k) 0 - times.getD (i - k) 0)) ∧
    (∀ k, (computeWidths p nW).2.2[k]? = (times[2 * k]?).map (· - times.getD i 0)) :=
  computeWidths_spec p nW i hodd

/-- the fractions for `n_widths = 5` (harness) and `11` (strax default): `k/8` resp. `k/20`, symmetric about 1/2 -/
theorem width_fractions_5_witness : widthFractions 5 = [0, 1/8, 1/4, 3/8, 1/2, 5/8, 3/4, 7/8, 1] := by decide +kernel
theorem width_fractions_11_witness : widthFractions 11 = (List.range 21).map (fun (k : Nat) => (k : Rat) / 20) := by decide +kernel

example : computeWidths ⟨0, 3, 10, 4, [], 0, 0, [1, 0, 3]⟩ 5
    = (70/3, [0, 10/3, 50/3, 70/3, 30], [-70/3, -40/3, 0, 10/3, 20/3]) := by decide +kernel

/-! ## highest_density_region -/

/-- **hdr_spec** (full defining formula, all distributions, all ascending fraction lists, both modes, every
buffer size). With the samples sorted from max to min (`maxToMin`, ties by descending index) and the level
boundaries `hdrLevels` (`1 ≤ j < n` with `j = 1` or a sample lower than its predecessor), the result row of
fraction `f` is that of the FIRST level `j` whose accumulated mass reaches it,
`f ≤ hdrSeen j = Σ_{k<j}(x_(k) − low_j) / Σdata`, `low_j = x_(j)` if `only_upper_part` else 0:
* intervals `hdrRow bufSize (sorted max_to_min[:j])` — the maximal runs of the selected sample set, or all `-1`
  when they do not fit (`hdr_intervals_spec`),
* amplitude `(1 − g)·mean(selection) + g·low_j`, `g = f / hdrSeen j` (`hdrRowAt`, exact rationals);
if no level reaches `f`: the whole range `[0, n)` with amplitude `(1 − f)·mean(data)` (`hdrWhole`).
A non-positive total is rejected with `ValueError`. -/
theorem hdr_spec (data fractions : List Rat) (upper : Bool) (bufSize : Nat) (hs : fractions.Pairwise (· ≤ ·)) :
    highestDensityRegion data fractions upper bufSize =
      if data.sum ≤ 0 then .error .valueError
      else .ok (fractions.map (hdrSpecOver data (maxToMin data) data.sum upper bufSize (hdrLevels data))) := by
  by_cases hp : data.sum ≤ 0
  · unfold highestDensityRegion; simp [hp]
  · simp only [hp, if_false]
    exact highestDensityRegion_eq data fractions upper bufSize hs (Rat.not_le.mp hp)

/-- the interval part of a row, for every selection `max_to_min[:j]`: exactly `_buffer_size` slots — the maximal
runs followed by zero slots when they fit, all `-1` when there are more runs than slots (code after the fix of
D30); the runs cover exactly the selected indices, are non-empty and maximal; no unselected sample is higher than
a selected one; selection + rest is a permutation of all indices -/
theorem hdr_intervals_spec (data : List Rat) (bufSize j : Nat) :
    let order := maxToMin data
    let ind := sortNat (order.take j)
    (hdrRow bufSize ind).length = bufSize ∧
    ((runsOf ind).length ≤ bufSize → hdrRow bufSize ind =
      ((runsOf ind).map fun r => ((r.1 : Int), (r.2 : Int))) ++ List.replicate (bufSize - (runsOf ind).length) (0, 0)) ∧
    (bufSize < (runsOf ind).length → hdrRow bufSize ind = List.replicate bufSize (-1, -1)) ∧
    runIndices (runsOf ind) = ind ∧ RunsSeparated (runsOf ind) ∧ ind.Perm (order.take j) ∧
    (∀ a ∈ order.take j, ∀ b ∈ order.drop j, data.getD b 0 ≤ data.getD a 0) ∧
    (order.take j ++ order.drop j).Perm (List.range data.length) := by
  intro order ind
  obtain ⟨r1, r2, r3, r4, r5⟩ := hdr_region data j
  obtain ⟨s1, s2, s3⟩ := hdrRow_spec bufSize (sortNat ((maxToMin data).take j))
  exact ⟨s1, s2, s3, r1, r2, r3, r4, r5⟩

/-- before the fix of D30 the buffer check was `len(gaps) > _buffer_size`: three intervals went into a
two-slot buffer (an out-of-bounds write in the real code) -/
theorem hdr_buffer_old_counterexample :
    (hdrRowGen false 2 [0, 2, 4]).length = 3 ∧ hdrRowGen true 2 [0, 2, 4] = [(-1, -1), (-1, -1)] := by decide

example : ((highestDensityRegion [1, 2, 6, 3, 1] [1/2, 4/5] false 3).toOption)
    = some [([(2, 4), (0, 0), (0, 0)], 5/4), ([(1, 4), (0, 0), (0, 0)], 1/5)] := by decide +kernel
example : hdrLevels [1, 2, 6, 3, 1] = [1, 2, 3] := by decide +kernel

/-! ## translation invariance (epoch-scale timestamps, ≈ 1.7e18 ns) -/

/-- **find_peaks_translation_invariant.** Moving every hit time by `T` moves every peak time by `T` and changes
nothing else (errors included) — the model computes over unbounded `Int`, like the exact int64 arithmetic of the
code; the harness re-runs its cases shifted by `T0 = 1_700_000_000_000_000_137` (component `epoch/*`). -/
theorem find_peaks_translation_invariant (P : FPParams) (toPe : List Rat) (nCh nS : Nat) (T : Int) (hits : List Hit) :
    findPeaks P toPe nCh nS (hits.map (Hit.shift T)) = (findPeaks P toPe nCh nS hits).map (List.map (Peak.shift T)) :=
  findPeaks_shift P toPe nCh nS T hits

/-- **merge_peaks_translation_invariant.** Moving every peak time by `T` moves the merged peaks and their collected
end times by `T` and changes nothing else. -/
theorem merge_peaks_translation_invariant (nCh nS : Nat) (T : Int) (peaks : List Peak) (merged : Option (List Bool))
    (ranges : List (Nat × Nat)) :
    mergePeaks nCh nS (peaks.map (Peak.shift T)) merged ranges
      = (mergePeaks nCh nS peaks merged ranges).map (List.map (fun qe => (qe.1.shift T, qe.2 + T))) :=
  mergePeaks_shift nCh nS T peaks merged ranges

end Strax.C19
