import StraxModel.Lemmas.Copy
namespace Strax.C16
open Strax Strax.Storage Strax.Copy
/-- a tiny stored data type: two chunks, rows 0 and 1 separated by more than 1000 ns -/
def exDir : Dir :=
  ({ hdr := { runId := "r", dataType := "src", kind := "things", target := 1, pfx := "src-h" },
     chunks := [⟨0, 1, 0, 10, some "r", none, some 1, some 4, some 1, some 4, some "src-h-000000"⟩,
                ⟨1, 1, 10, 5000, some "r", none, some 4000, some 4001, some 4000, some 4001, some "src-h-000001"⟩],
     start := some 0, stop := some 5000, writingEnded := true, exception := false },
   [("src-h-000000", [⟨1, 4, 0⟩]), ("src-h-000001", [⟨4000, 4001, 1⟩])])

def exStream : List Chunk :=
  [ { dataType := "src", kind := "things", runId := some "r", start := 0, stop := 10, rows := [⟨1, 4, 0⟩],
      subruns := none, superrun := [⟨"r", 0, 10⟩], target := 1 },
    { dataType := "src", kind := "things", runId := some "r", start := 10, stop := 5000, rows := [⟨4000, 4001, 1⟩],
      subruns := none, superrun := [⟨"r", 10, 5000⟩], target := 1 } ]

/-- which key the merged data gets: the plain key as soon as the smallest number is 0 and the
largest is `#chunks - 1`.  For the grouping `[[0,1],[2]]` of three chunks that is right … -/
example : mergeChunkNumber 3 [[0, 1], [2]] = .ok none := by decide

/-- … but completeness and order are not looked at (observation, outside the property's quantifier
"groupings of the dependency chunks"): `[[0],[2]]` of three chunks is stored under the plain key
although chunk 1 is missing, and so is `[[1],[0]]` of two chunks, out of order. -/
theorem merge_key_ignores_completeness_and_order :
    mergeChunkNumber 3 [[0], [2]] = .ok none ∧ mergeChunkNumber 2 [[1], [0]] = .ok none ∧
    mergeChunkNumber 3 [[0], [1]] = .ok (some [0, 1]) ∧ mergeChunkNumber 3 [[0], [0]] = .error Err.valueError := by
  decide


end Strax.C16
