import StraxModel.Lemmas.LineageSem
import StraxModel.Generated.LineageGates
/-
  C02, round 5 — the scalar / structural decisions of the lineage and key computation, REGENERATED from the Python AST
  of the current source on every run (`checks/props/c02.py:regen` → `Generated/LineageGates.lean`), are proved equal to
  what the model (`Model/Lineage.lean`) does at the same places:
    * which entries of `plugin.config` enter the lineage entry (`Context.__add_lineage_to_plugin`: `track`, child
      plugin: options overwritten in the parent are dropped)         — `gen_lineageKeeps_eq_model`, `entryConfig_via_generated`
    * what `_context_hash` hashes per registered type, which types it skips, pair vs merged dict
                                                                       — `gen_registryHashInput_eq_model`, `gen_rules_eq_fixed`
    * what `_filter_lineage` drops and when `_matches` is exact / how it compares in fuzzy mode
                                                                       — `gen_filterLineage_eq_model`, `gen_matchesExactMode_eq_model`, `gen_rules_eq_fixed`
  No theorem here has a hypothesis.  A change of one of those decisions in /repo changes the generated definition and
  breaks the matching theorem (every theorem of Props/C02.lean is about `Rules.fixed`; `gen_rules_eq_fixed` says the
  current source still has those rules, as far as `pairHash` and `matchRule` go).
-/
namespace Strax.C02
open Strax Strax.Lineage
open Strax.Generated

theorem gen_lineageKeeps_table : ∀ c p t : Bool, LineageGates.lineageKeeps c p t = (if c then (!p && t) else t) := by decide

/-- the generated keep/drop decision of `__add_lineage_to_plugin`, read on a model class, is the model's -/
theorem gen_lineageKeeps_eq_model (cls : PluginClass) (k : String) :
    LineageGates.lineageKeeps cls.child ((cls.options.filterMap (·.parent)).contains k) (isTracked cls k) =
      (if cls.child then keptChild cls k else isTracked cls k) := by
  rw [gen_lineageKeeps_table]; unfold keptChild; cases cls.child <;> rfl

/-- the model's lineage-entry config is `plugin.config` filtered by the generated decision (+ the base-class versions
of a child plugin) -/
theorem entryConfig_via_generated (cls : PluginClass) (pc : Config) :
    entryConfig cls pc =
      if cls.child then
        cls.bases.foldl (fun acc b => dictSet acc b.1 (.str b.2))
          (pc.filter fun kv => LineageGates.lineageKeeps cls.child ((cls.options.filterMap (·.parent)).contains kv.1) (isTracked cls kv.1))
      else pc.filter fun kv => LineageGates.lineageKeeps cls.child ((cls.options.filterMap (·.parent)).contains kv.1) (isTracked cls kv.1) := by
  simp only [gen_lineageKeeps_eq_model]
  rw [entryConfig_eq]
  cases cls.child <;> rfl

/-- the registry part of `_context_hash` -/
theorem gen_registryHashInput_eq_model (r : Registry) :
    registryHashInput r = r.flatMap fun cls =>
      (cls.outputs.filter fun d => LineageGates.hashKeepsType (d.startsWith "_temp_")).map fun d =>
        (d, LineageGates.registryHashEntry cls) := rfl

/-- `_filter_lineage` -/
theorem gen_filterLineage_eq_model (l : Lineage) (ff ffo : List String) :
    filterLineage l ff ffo =
      (l.filter fun ke => LineageGates.filterKeepsType (ff.contains ke.1)).map fun ke =>
        (ke.1, { ke.2 with config := ke.2.config.filter fun kv => LineageGates.filterKeepsOption (ffo.contains kv.1) }) := rfl

/-- `_matches` compares exactly iff neither fuzzy option is given — the model's `Ctx.fuzzy` / the test in `findItem` -/
theorem gen_matchesExactMode_eq_model (ff ffo : List String) :
    LineageGates.matchesExactMode (!ff.isEmpty) (!ffo.isEmpty) = (ff.isEmpty && ffo.isEmpty) := by
  cases ff.isEmpty <;> cases ffo.isEmpty <;> rfl

/-- the current source hashes the pair (config, registry part) and compares `deterministic_hash`es in fuzzy mode: the rules
all theorems of Props/C02.lean are about -/
theorem gen_rules_eq_fixed : LineageGates.rules = Rules.fixed := by decide

/-! non-vacuity: the generated decisions are not constant -/
example : LineageGates.lineageKeeps true true true = false ∧ LineageGates.lineageKeeps true false true = true ∧
    LineageGates.lineageKeeps false true false = false := by decide
example : LineageGates.matchesExactMode false false = true ∧ LineageGates.matchesExactMode true false = false := by decide
example : LineageGates.filterKeepsType true = false ∧ LineageGates.filterKeepsOption false = true ∧
    LineageGates.hashKeepsType true = false := by decide

end Strax.C02
