import StraxModel.Lemmas.Backpressure
/-
  Without a worker pool there are no futures anywhere in the chain, so the consumer's reader never holds an unresolved
  future (`Net.mainPend = 0`) and the rest bound is `B w`; with a pool it is `B w + 1` (Lemmas/Backpressure.lean).
-/
namespace Strax.Backpressure
open Strax Strax.Mailbox

def isFut : Msg → Bool
  | .fut _ _ => true
  | _ => false

theorem unresolved_isFut {done : List Nat} {m : Msg} (h : unresolved done m = true) : isFut m = true := by
  cases m <;> simp_all [unresolved, isFut]

structure NoFut (s : Net) : Prop where
  pool : s.pool = false
  heap : ∀ mb ∈ s.mbs, ∀ e ∈ mb.heap, isFut e.2 = false
  node : ∀ nd ∈ s.nodes, (∀ m ∈ nd.batch, isFut m = false) ∧ (∀ m, nd.pc = .send m → isFut m = false)

/-! ### what the critical sections do to the messages in the heap -/

theorem getMsg_mem {heap : List (Nat × Msg)} {n : Nat} {m : Msg} (h : getMsg heap n = some m) : (n, m) ∈ heap := by
  induction heap with
  | nil => simp [getMsg] at h
  | cons e r ih =>
    simp only [getMsg] at h
    split at h
    · rename_i he; cases h; rw [← he]; simp
    · exact List.mem_cons_of_mem _ (ih h)

theorem collect_mem {heap : List (Nat × Msg)} : ∀ (fuel n : Nat) (m : Msg), m ∈ collect heap fuel n → ∃ k, (k, m) ∈ heap := by
  intro fuel
  induction fuel with
  | zero => intro n m h; simp [collect] at h
  | succ f ih =>
    intro n m h
    simp only [collect] at h
    split at h
    · rename_i x hx
      rcases List.mem_cons.mp h with rfl | h
      · exact ⟨n, getMsg_mem hx⟩
      · exact ih (n + 1) m h
    · simp at h

theorem gateStep_heap {mb mb' : MB} {ok : Bool} (h : mb.gateStep = some (ok, mb')) : mb'.heap = mb.heap := by
  obtain ⟨f, rfl, _⟩ := gateStep_shape h; rfl

theorem sendStep_heap {mb mb' : MB} {x : Msg} {o : SendOut} (h : mb.sendStep none x = some (o, mb')) :
    ∀ e ∈ mb'.heap, e ∈ mb.heap ∨ e.2 = x := by
  unfold MB.sendStep at h
  simp only [MB.sendCore] at h
  repeat' split at h
  all_goals first
    | (simp at h; done)
    | (simp only [Option.some.injEq, Prod.mk.injEq] at h
       obtain ⟨_, rfl⟩ := h
       intro e he
       first
         | exact Or.inl he
         | (simp only [MB.push, MB.notifyRead, List.mem_append, List.mem_singleton] at he
            rcases he with he | he
            · exact Or.inl he
            · right; rw [he]))

@[simp] theorem nfic_heap'' (mb : MB) : mb.notifyFetchIfCan.heap = mb.heap := by unfold MB.notifyFetchIfCan; split <;> rfl

theorem readStep_heap {mb mb' : MB} {i : Nat} {o : ReadOut} (h : mb.readStep i = some (o, mb')) :
    (∀ e ∈ mb'.heap, e ∈ mb.heap) ∧ ∀ msgs, o = .took msgs → ∀ m ∈ msgs, ∃ k, (k, m) ∈ mb.heap := by
  simp only [MB.readStep] at h
  repeat' split at h
  all_goals first
    | (simp at h; done)
    | (simp only [Option.some.injEq, Prod.mk.injEq] at h
       obtain ⟨rfl, rfl⟩ := h
       refine ⟨?_, ?_⟩
       · intro e he
         first
           | (simpa [MB.readWaitEnter, MB.readWaitAgain, MB.readKilled] using he)
           | (simp only [MB.readTake, MB.notifyWrite, nfic_heap'', gc, List.mem_filter] at he; exact he.1)
       · intro msgs hm
         first
           | (cases hm; done)
           | (cases hm; intro m hmem; exact collect_mem _ _ m hmem))

/-! ### preservation -/

def NodeOk (nd : Node) : Prop := (∀ m ∈ nd.batch, isFut m = false) ∧ (∀ m, nd.pc = .send m → isFut m = false)
def HeapOk (mb : MB) : Prop := ∀ e ∈ mb.heap, isFut e.2 = false

theorem NoFut.of {s s' : Net} (h : NoFut s) (hp : s'.pool = s.pool)
    (hm : ∀ mb ∈ s'.mbs, mb ∈ s.mbs ∨ HeapOk mb) (hn : ∀ nd ∈ s'.nodes, nd ∈ s.nodes ∨ NodeOk nd) : NoFut s' := by
  refine ⟨by rw [hp]; exact h.pool, ?_, ?_⟩
  · intro mb hmb
    rcases hm mb hmb with h0 | h0
    · exact h.heap mb h0
    · exact h0
  · intro nd hnd
    rcases hn nd hnd with h0 | h0
    · exact h.node nd h0
    · exact h0

theorem NoFut.of' {s s' : Net} (h : NoFut s) (hp : s'.pool = s.pool)
    (hm : s'.mbs = s.mbs ∨ ∃ a mb', s'.mbs = s.mbs.set a mb' ∧ HeapOk mb')
    (hn : s'.nodes = s.nodes ∨ ∃ j nd', s'.nodes = s.nodes.set j nd' ∧ NodeOk nd') : NoFut s' := by
  refine h.of hp ?_ ?_
  · intro mb hmb
    rcases hm with h0 | ⟨a, mb', h0, hok⟩
    · rw [h0] at hmb; exact Or.inl hmb
    · rw [h0] at hmb
      rcases List.mem_or_eq_of_mem_set hmb with h1 | rfl
      · exact Or.inl h1
      · exact Or.inr hok
  · intro nd hnd
    rcases hn with h0 | ⟨j, nd', h0, hok⟩
    · rw [h0] at hnd; exact Or.inl hnd
    · rw [h0] at hnd
      rcases List.mem_or_eq_of_mem_set hnd with h1 | rfl
      · exact Or.inl h1
      · exact Or.inr hok

theorem advance_ok {nd : Node} (h : ∀ m ∈ nd.batch, isFut m = false) : NodeOk nd.advance := by
  unfold Node.advance
  cases hbt : nd.batch with
  | nil => exact ⟨by simp, by simp⟩
  | cons m r =>
    have hr : ∀ x ∈ r, isFut x = false := fun x hx => h x (by rw [hbt]; simp [hx])
    have hm : isFut m = false := h m (by rw [hbt]; simp)
    cases m with
    | stop => exact ⟨hr, by simp⟩
    | plain v => exact ⟨hr, by intro x hx; simp only [Pc.send.injEq] at hx; subst hx; rfl⟩
    | fut a b => simp [isFut] at hm

theorem afterPush_ok {nd : Node} (lazy : Bool) (j : Nat) (h : ∀ m ∈ nd.batch, isFut m = false) : NodeOk (afterPush lazy j nd) := by
  unfold afterPush
  split
  · exact ⟨h, by simp⟩
  · split
    · exact ⟨h, by simp⟩
    · exact advance_ok h

theorem afterGate_ok {nd : Node} (j : Nat) (h : ∀ m ∈ nd.batch, isFut m = false) : NodeOk (afterGate j nd) := by
  unfold afterGate
  split
  · exact ⟨h, by simp⟩
  · exact advance_ok h

theorem pull_ok {s s' : Net} (h : NoFut s) {j : Nat} {batch : List Msg} (hb : ∀ m ∈ batch, isFut m = false)
    (hs : s.pull j batch = some s') : NoFut s' := by
  unfold Net.pull at hs
  split at hs
  · simp at hs
  · simp only [Option.some.injEq] at hs; subst hs
    exact h.of' rfl (Or.inl rfl) (Or.inr ⟨_, _, rfl, ⟨fun m hm => hb m (by simp [hm]), by simp⟩⟩)
  · rename_i m r _
    split at hs
    · rename_i hu
      have h1 := unresolved_isFut hu
      have h2 := hb m (by simp)
      rw [h2] at h1; cases h1
    · simp only [Option.some.injEq] at hs; subst hs
      exact h.of' rfl (Or.inl rfl) (Or.inr ⟨_, _, rfl, ⟨fun x hx => hb x (by simp [hx]), by simp⟩⟩)

theorem NoFut.stepNode {s s' : Net} (h : NoFut s) {j : Nat} (hs : Backpressure.stepNode s j = some s') : NoFut s' := by
  unfold Backpressure.stepNode at hs
  dsimp only at hs
  split at hs
  · simp at hs
  · rename_i nd hn
    have hnd := h.node nd (List.mem_of_getElem? hn)
    split at hs
    · -- gate
      split at hs
      · simp at hs
      · rename_i out hm
        have hout := h.heap out (List.mem_of_getElem? hm)
        split at hs
        · simp at hs
        · rename_i ok mb hg
          simp only [Option.some.injEq] at hs; subst hs
          have hh : HeapOk mb := by intro e he; rw [gateStep_heap hg] at he; exact hout e he
          refine h.of' rfl (Or.inr ⟨_, _, rfl, hh⟩) (Or.inr ⟨_, _, rfl, ?_⟩)
          split
          · exact afterGate_ok j hnd.1
          · exact hnd
    · -- read
      rename_i hpc
      split at hs
      · split at hs
        · simp only [Option.some.injEq] at hs; subst hs
          exact h.of' rfl (Or.inl rfl) (Or.inr ⟨_, _, rfl, ⟨hnd.1, by simp⟩⟩)
        · simp only [Option.some.injEq] at hs; subst hs
          refine h.of' rfl (Or.inl rfl) (Or.inr ⟨_, _, rfl, ⟨hnd.1, ?_⟩⟩)
          intro m hm; simp only [Pc.send.injEq] at hm; subst hm; rfl
      · split at hs
        · rename_i m r hb
          split at hs
          · exact pull_ok h hnd.1 hs
          · simp only [Option.some.injEq] at hs; subst hs
            exact h.of' rfl (Or.inl rfl) (Or.inr ⟨_, _, rfl, advance_ok hnd.1⟩)
        · split at hs
          · simp at hs
          · rename_i inp hm
            have hinp := h.heap inp (List.mem_of_getElem? hm)
            split at hs
            · simp at hs
            all_goals
              rename_i hg
              obtain ⟨hsub, hmsgs⟩ := readStep_heap hg
            · simp only [Option.some.injEq] at hs; subst hs
              exact h.of' rfl (Or.inr ⟨_, _, rfl, fun e he => hinp e (hsub e he)⟩) (Or.inl rfl)
            · simp only [Option.some.injEq] at hs; subst hs
              exact h.of' rfl (Or.inr ⟨_, _, rfl, fun e he => hinp e (hsub e he)⟩) (Or.inr ⟨_, _, rfl, ⟨hnd.1, by simp⟩⟩)
            · rename_i msgs mb
              have hmm : ∀ m ∈ msgs, isFut m = false := by
                intro m hm
                obtain ⟨k, hk⟩ := hmsgs msgs rfl m hm
                exact hinp (k, m) hk
              have h1 : NoFut (s.setMb (j - 1) mb) := h.of' rfl (Or.inr ⟨_, _, rfl, fun e he => hinp e (hsub e he)⟩) (Or.inl rfl)
              split at hs
              · exact pull_ok h1 hmm hs
              · simp only [Option.some.injEq] at hs; subst hs
                exact h.of' rfl (Or.inr ⟨_, _, rfl, fun e he => hinp e (hsub e he)⟩) (Or.inr ⟨_, _, rfl, advance_ok hmm⟩)
    · -- send
      rename_i m hpc
      have hm0 : isFut m = false := hnd.2 m hpc
      split at hs
      · simp at hs
      · split at hs
        · simp only [Option.some.injEq] at hs; subst hs
          exact h.of' rfl (Or.inl rfl) (Or.inr ⟨_, _, rfl, ⟨hnd.1, by simp⟩⟩)
        · split at hs
          · simp at hs
          · rename_i out hm
            have hout := h.heap out (List.mem_of_getElem? hm)
            have hmsg : outMsg s.pool (s.mbs.length + 1) j out.nSent m = m := by simp [outMsg, h.pool]
            rw [hmsg] at hs
            split at hs
            · simp at hs
            all_goals
              rename_i hg
              have hheap := sendStep_heap hg
            · simp only [Option.some.injEq] at hs; subst hs
              refine h.of' rfl (Or.inr ⟨_, _, rfl, ?_⟩) (Or.inr ⟨_, _, rfl, afterPush_ok _ _ hnd.1⟩)
              intro e he; rcases hheap e he with h0 | h0
              · exact hout e h0
              · rw [h0]; exact hm0
            · simp only [Option.some.injEq] at hs; subst hs
              refine h.of' rfl (Or.inr ⟨_, _, rfl, ?_⟩) (Or.inr ⟨_, _, rfl, afterPush_ok _ _ hnd.1⟩)
              intro e he; rcases hheap e he with h0 | h0
              · exact hout e h0
              · rw [h0]; exact hm0
            · simp only [Option.some.injEq] at hs; subst hs
              refine h.of' rfl (Or.inr ⟨_, _, rfl, ?_⟩) (Or.inl rfl)
              intro e he; rcases hheap e he with h0 | h0
              · exact hout e h0
              · rw [h0]; exact hm0
            · simp only [Option.some.injEq] at hs; subst hs
              refine h.of' rfl (Or.inr ⟨_, _, rfl, ?_⟩) (Or.inr ⟨_, _, rfl, ⟨hnd.1, by simp⟩⟩)
              intro e he; rcases hheap e he with h0 | h0
              · exact hout e h0
              · rw [h0]; exact hm0
    · -- close
      split at hs
      · simp at hs
      · rename_i out hm
        have hout := h.heap out (List.mem_of_getElem? hm)
        split at hs
        · simp at hs
        all_goals
          rename_i hg
          have hheap := sendStep_heap hg
        · simp only [Option.some.injEq] at hs; subst hs
          refine h.of' rfl (Or.inr ⟨_, _, rfl, ?_⟩) (Or.inr ⟨_, _, rfl, ⟨hnd.1, by simp⟩⟩)
          intro e he; rcases hheap e he with h0 | h0
          · exact hout e h0
          · rw [h0]; rfl
        · simp only [Option.some.injEq] at hs; subst hs
          refine h.of' rfl (Or.inr ⟨_, _, rfl, ?_⟩) (Or.inr ⟨_, _, rfl, ⟨hnd.1, by simp⟩⟩)
          intro e he; rcases hheap e he with h0 | h0
          · exact hout e h0
          · rw [h0]; rfl
        · simp only [Option.some.injEq] at hs; subst hs
          refine h.of' rfl (Or.inr ⟨_, _, rfl, ?_⟩) (Or.inl rfl)
          intro e he; rcases hheap e he with h0 | h0
          · exact hout e h0
          · rw [h0]; rfl
        · simp only [Option.some.injEq] at hs; subst hs
          refine h.of' rfl (Or.inr ⟨_, _, rfl, ?_⟩) (Or.inr ⟨_, _, rfl, ⟨hnd.1, by simp⟩⟩)
          intro e he; rcases hheap e he with h0 | h0
          · exact hout e h0
          · rw [h0]; rfl
    · simp at hs
    · simp at hs

theorem NoFut.stepSide {s s' : Net} (h : NoFut s) {i : Nat} (hs : Backpressure.stepSide s i = some s') : NoFut s' := by
  unfold Backpressure.stepSide at hs
  split at hs
  · simp at hs
  · split at hs
    · simp at hs
    · split at hs
      · simp at hs
      · rename_i inp hm
        have hinp := h.heap inp (List.mem_of_getElem? hm)
        split at hs
        · simp at hs
        all_goals
          rename_i hg
          obtain ⟨hsub, _⟩ := readStep_heap hg
          simp only [Option.some.injEq] at hs; subst hs
          exact h.of' rfl (Or.inr ⟨_, _, rfl, fun e he => hinp e (hsub e he)⟩) (Or.inl rfl)

theorem NoFut.step {s s' : Net} (h : NoFut s) {t : Tid} (hs : Backpressure.step s t = some s') : NoFut s' := by
  cases t with
  | node j => exact h.stepNode hs
  | side i => exact h.stepSide hs
  | resolve id => simp [Backpressure.step, stepResolve, h.pool] at hs

theorem NoFut.init (w : Wiring) (n : Nat) (hp : w.pool = false) : NoFut (wire w n) := by
  refine ⟨hp, ?_, ?_⟩
  · intro mb hmb
    obtain ⟨j, hj⟩ := List.getElem?_of_mem hmb
    obtain ⟨c, _, rfl⟩ := wire_mbs hj
    intro e he; simp [mkMb] at he
  · intro nd hnd
    obtain ⟨j, hj⟩ := List.getElem?_of_mem hnd
    simp only [wire, List.getElem?_map, Option.map_eq_some_iff] at hj
    obtain ⟨a, _, rfl⟩ := hj
    refine ⟨by simp, ?_⟩
    intro m hm
    dsimp only at hm
    split at hm
    · cases hm
    · split at hm <;> cases hm

theorem NoFut.reachable {w : Wiring} {n : Nat} {s : Net} (hp : w.pool = false) (h : Reachable w n s) : NoFut s := by
  induction h with
  | init => exact NoFut.init w n hp
  | step _ hs ih => exact ih.step hs

/-! ### the consumer never holds anything without a pool -/

/-- the consumer's thread is in `read` or has finished -/
def MainIdle (s : Net) : Prop := ∀ nd, s.nodes[s.mbs.length]? = some nd → nd.pc = .read ∨ nd.pc = .done

theorem pull_nodes {s s' : Net} {j : Nat} {b : List Msg} (h : s.pull j b = some s') :
    ∀ k, k ≠ j → s'.nodes[k]? = s.nodes[k]? := by
  unfold Net.pull at h
  repeat' split at h
  all_goals first
    | (simp at h; done)
    | (simp only [Option.some.injEq] at h; subst h; intro k hk
       simp only [Net.setNode]; exact List.getElem?_set_ne (Ne.symm hk))

theorem stepNode_nodes {s s' : Net} {j : Nat} (h : stepNode s j = some s') : ∀ k, k ≠ j → s'.nodes[k]? = s.nodes[k]? := by
  unfold stepNode at h
  dsimp only at h
  repeat' split at h
  all_goals first
    | (simp at h; done)
    | (simp only [Option.some.injEq] at h; subst h; intro k hk; subst_vars
       first
         | rfl
         | (simp only [Net.setNode, Net.setMb]; done)
         | (simp only [Net.setNode, Net.setMb]; exact List.getElem?_set_ne (Ne.symm hk)))
    | (intro k hk; have := pull_nodes h k hk; rw [this]; try (simp only [Net.setMb]))

theorem MainIdle.step {w : Wiring} {s s' : Net} (hi : Inv w s) (hnf : NoFut s) (h : MainIdle s) {t : Tid}
    (hs : Backpressure.step s t = some s') : MainIdle s' := by
  have hlen : s'.mbs.length = s.mbs.length := step_len hs
  have hlenM := hi.lenM
  have hpos := hi.pos
  intro nd' hn'
  rw [hlen] at hn'
  cases t with
  | resolve id => simp [Backpressure.step, stepResolve, hnf.pool] at hs
  | side i =>
    simp only [Backpressure.step] at hs
    have : s'.nodes = s.nodes := by
      unfold stepSide at hs
      repeat' split at hs
      all_goals first
        | (simp at hs; done)
        | (simp only [Option.some.injEq] at hs; subst hs; rfl)
    rw [this] at hn'; exact h nd' hn'
  | node j =>
    simp only [Backpressure.step] at hs
    by_cases hj : j = s.mbs.length
    · subst hj
      -- the consumer's own step
      obtain ⟨nd, hn⟩ : ∃ nd, s.nodes[s.mbs.length]? = some nd := by
        have : s.mbs.length < s.nodes.length := by rw [hi.lenN]; omega
        exact ⟨_, List.getElem?_eq_getElem this⟩
      have hnd := hnf.node nd (List.mem_of_getElem? hn)
      have pullCase : ∀ (s1 : Net) (b : List Msg), (∀ m ∈ b, isFut m = false) → s1.futDone = s.futDone →
          s1.pull s.mbs.length b = some s' → nd'.pc = .read ∨ nd'.pc = .done := by
        intro s1 b hb hfd hp
        have hlen1 : s1.nodes.length = s'.nodes.length ∨ True := Or.inr trivial
        unfold Net.pull at hp
        split at hp
        · simp at hp
        · simp only [Option.some.injEq] at hp; subst hp
          simp only [Net.setNode] at hn'
          by_cases hlt : s.mbs.length < s1.nodes.length
          · rw [List.getElem?_set_self hlt] at hn'; cases hn'; exact Or.inr rfl
          · rw [List.getElem?_eq_none (by simp; omega)] at hn'; cases hn'
        · rename_i m r _
          split at hp
          · rename_i hu
            have h1 := unresolved_isFut hu
            rw [hb m (by simp)] at h1; cases h1
          · simp only [Option.some.injEq] at hp; subst hp
            simp only [Net.setNode] at hn'
            by_cases hlt : s.mbs.length < s1.nodes.length
            · rw [List.getElem?_set_self hlt] at hn'; cases hn'; exact Or.inl rfl
            · rw [List.getElem?_eq_none (by simp; omega)] at hn'; cases hn'
      rcases h nd hn with hpc | hpc
      · unfold stepNode at hs
        simp only [hn, hpc] at hs
        rw [if_neg (by omega)] at hs
        split at hs
        · simp only [if_true] at hs
          rename_i m r hb
          exact pullCase s _ hnd.1 rfl hs
        · split at hs
          · simp at hs
          · rename_i inp hm
            obtain ⟨c, hc, hok⟩ := hi.capAt hm
            have hinp := hnf.heap inp (List.mem_of_getElem? hm)
            split at hs
            · simp at hs
            · simp only [Option.some.injEq] at hs; subst hs
              simp only [Net.setMb] at hn'; rw [hn] at hn'; cases hn'; exact Or.inl hpc
            · rename_i mb hg
              obtain ⟨_, _, _, sub, _, _, heff⟩ := hok.readStep hg
              cases heff
            · rename_i msgs mb hg
              obtain ⟨_, hmsgs⟩ := readStep_heap hg
              simp only [if_true] at hs
              refine pullCase (s.setMb (s.mbs.length - 1) mb) msgs ?_ rfl hs
              intro m hm'
              obtain ⟨k, hk⟩ := hmsgs msgs rfl m hm'
              exact hinp (k, m) hk
      · unfold stepNode at hs
        simp [hn, hpc] at hs
    · have := stepNode_nodes hs s.mbs.length (Ne.symm hj)
      rw [this] at hn'; exact h nd' hn'

theorem MainIdle.init (w : Wiring) (n : Nat) : MainIdle (wire w n) := by
  intro nd hn
  simp only [wire, List.getElem?_map, Option.map_eq_some_iff, List.length_map, List.length_range] at hn
  obtain ⟨a, ha, rfl⟩ := hn
  obtain ⟨_, rfl⟩ := List.getElem?_eq_some_iff.mp ha
  simp

/-- without a worker pool the consumer's reader never holds a message it has not handed over -/
theorem mainPend_zero {w : Wiring} {n : Nat} {s : Net} (hpos : 0 < w.caps.length) (hp : w.pool = false) (h : Reachable w n s) :
    s.mainPend = 0 := by
  have key : Inv w s ∧ NoFut s ∧ MainIdle s := by
    induction h with
    | init => exact ⟨Inv.init w n hpos, NoFut.init w n hp, MainIdle.init w n⟩
    | step _ hs ih => exact ⟨ih.1.step hs, ih.2.1.step hs, ih.2.2.step ih.1 ih.2.1 hs⟩
  unfold Net.mainPend
  split
  · rename_i nd hn
    rcases key.2.2 nd hn with h0 | h0 <;> simp [h0, pend]
  · rfl

end Strax.Backpressure
