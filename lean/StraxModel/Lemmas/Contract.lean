import StraxModel.Model.Contract
/-
  Helper lemmas for property C12 (theory T11 Contract).  Core Lean only; self-contained (does not
  depend on the lemma files of other properties).
-/
namespace Strax.Contract
open Strax

/-! ### decidability (for the `decide` witnesses) -/

instance instDecEqExceptC {ε α} [DecidableEq ε] [DecidableEq α] : DecidableEq (Except ε α)
  | .ok a, .ok b => if h : a = b then isTrue (by rw [h]) else isFalse (by intro h'; cases h'; exact h rfl)
  | .error a, .error b => if h : a = b then isTrue (by rw [h]) else isFalse (by intro h'; cases h'; exact h rfl)
  | .ok _, .error _ => isFalse (by intro h; cases h)
  | .error _, .ok _ => isFalse (by intro h; cases h)

theorem sortedByTimeB_iff' (l : List Row) : sortedByTimeB l = true ↔ SortedByTime l := by
  induction l with
  | nil => simp [sortedByTimeB, SortedByTime]
  | cons a t ih =>
    cases t with
    | nil => simp [sortedByTimeB, SortedByTime]
    | cons b r => simp [sortedByTimeB, SortedByTime, ih]

instance instDecSortedC (l : List Row) : Decidable (SortedByTime l) := decidable_of_iff _ (sortedByTimeB_iff' l)

/-! ### `Except` plumbing -/

theorem map_eq_error {ε α β} {x : Except ε α} {f : α → β} {e : ε} :
    x.map f = .error e ↔ x = .error e := by
  cases x <;> simp [Except.map]

theorem map_eq_ok {ε α β} {x : Except ε α} {f : α → β} {b : β} :
    x.map f = .ok b ↔ ∃ a, x = .ok a ∧ f a = b := by
  cases x <;> simp [Except.map]

theorem bind_error {ε α β} (e : ε) (f : α → Except ε β) : ((Except.error e : Except ε α) >>= f) = .error e := rfl
theorem bind_ok {ε α β} (a : α) (f : α → Except ε β) : ((Except.ok a : Except ε α) >>= f) = f a := rfl

/-- if `f` fails on some element then `mapM f` fails -/
theorem mapM_error_of_mem {α β} (f : α → Except Err β) :
    ∀ (l : List α) (a : α), a ∈ l → (∃ e, f a = .error e) → ∃ e, l.mapM f = .error e := by
  intro l
  induction l with
  | nil => intro a h; simp at h
  | cons x xs ih =>
    intro a ha hf
    rw [List.mapM_cons]
    cases hx : f x with
    | error e => exact ⟨e, rfl⟩
    | ok b =>
      have hin : a ∈ xs ∨ a = x := by
        simp at ha; rcases ha with h | h
        · exact Or.inr h
        · exact Or.inl h
      rcases hin with h | h
      · obtain ⟨e, he⟩ := ih a h hf
        refine ⟨e, ?_⟩
        simp [he, bind, Except.bind]
      · subst h
        obtain ⟨e, he⟩ := hf
        rw [hx] at he; cases he

/-! ### rows: sortedness and the maximum end -/

theorem sorted_head_le : ∀ (r0 : Row) (rest : List Row), SortedByTime (r0 :: rest) → ∀ r ∈ rest, r0.time ≤ r.time := by
  intro r0 rest
  induction rest generalizing r0 with
  | nil => intro _ r hr; simp at hr
  | cons a t ih =>
    intro h r hr
    simp only [SortedByTime] at h
    simp at hr
    rcases hr with rfl | hr
    · exact h.1
    · exact Int.le_trans h.1 (ih a h.2 r hr)

theorem maxEnd_ge_default : ∀ (rs : List Row) (d : Int), d ≤ maxEnd d rs := by
  intro rs
  induction rs with
  | nil => intro d; simp [maxEnd]
  | cons r t ih =>
    intro d
    simp only [maxEnd]
    exact Int.le_trans (Int.le_max_left d r.endt) (ih _)

theorem maxEnd_ge_mem : ∀ (rs : List Row) (d : Int), ∀ r ∈ rs, r.endt ≤ maxEnd d rs := by
  intro rs
  induction rs with
  | nil => intro d r hr; simp at hr
  | cons a t ih =>
    intro d r hr
    simp only [maxEnd]
    simp at hr
    rcases hr with rfl | hr
    · exact Int.le_trans (Int.le_max_right d r.endt) (maxEnd_ge_default t _)
    · exact ih _ r hr

/-- with at most 500 rows the constructor's window is the whole array -/
theorem lastEndMax_short (r0 : Row) (rest : List Row) (h : (r0 :: rest).length ≤ 500) :
    lastEndMax (r0 :: rest) = some (maxEnd r0.endt rest) := by
  unfold lastEndMax
  have : (r0 :: rest).length - 500 = 0 := by omega
  rw [this]
  simp

/-- a long array: the first row is outside the inspected window -/
theorem lastEndMax_skip_head (r0 : Row) (rest : List Row) (h : 500 ≤ rest.length) :
    lastEndMax (r0 :: rest) = lastEndMax rest := by
  unfold lastEndMax
  have h1 : (r0 :: rest).length - 500 = (rest.length - 500) + 1 := by simp; omega
  rw [h1]
  simp

/-! ### `mkChunk` as a cascade of checks -/

def ctor4 (dt k : String) (rid : Option String) (s e : Int) (rows : List Row) (tg : Nat)
    (subruns : Option Runs) (x : Runs) : Except Err Chunk :=
  if x.isEmpty then .error .valueError
  else if x.length == 1 && rid.isNone then .error .valueError
  else if runsOverlap (sortRuns x) then .error .valueError
  else .ok ⟨dt, k, rid, s, e, rows, subruns, sortRuns x, tg⟩

def ctor3 (dt k : String) (rid : Option String) (s e : Int) (rows : List Row) (tg : Nat)
    (sup : Option Runs) (subruns : Option Runs) : Except Err Chunk :=
  match sup with
  | none =>
    match rid with
    | some r => ctor4 dt k rid s e rows tg subruns [Run.mk r s e]
    | none => .error .valueError
  | some x => ctor4 dt k rid s e rows tg subruns x

def ctor2 (dt k : String) (rid : Option String) (s e : Int) (rows : List Row) (tg : Nat)
    (sup : Option Runs) (subruns : Option Runs) : Except Err Chunk :=
  if s < 0 then .error .valueError
  else if s > e then .error .valueError
  else
    match rows with
    | [] => ctor3 dt k rid s e rows tg sup subruns
    | r0 :: _ =>
      if r0.time < s then .error .valueError
      else
        match lastEndMax rows with
        | some m => if m > e then .error .valueError else ctor3 dt k rid s e rows tg sup subruns
        | none => ctor3 dt k rid s e rows tg sup subruns

set_option maxRecDepth 8192 in
theorem mkChunk_eq (dt k : String) (rid : Option String) (s e : Int) (rows : List Row)
    (sub sup : Option Runs) (tg : Nat) :
    mkChunk dt k rid s e rows sub sup tg =
      match sub with
      | none => ctor2 dt k rid s e rows tg sup none
      | some x =>
        if runsOverlap (sortRuns x) then .error .valueError
        else ctor2 dt k rid s e rows tg sup (some (sortRuns x)) := by
  cases sub <;> cases rows <;> cases sup <;> cases rid <;> rfl

theorem ctor4_error {dt k rid s e rows tg subruns x er}
    (h : ctor4 dt k rid s e rows tg subruns x = .error er) : er = .valueError := by
  unfold ctor4 at h
  repeat' split at h
  all_goals first | (simp at h; exact h.symm) | (simp at h)

theorem ctor3_error {dt k rid s e rows tg sup subruns er}
    (h : ctor3 dt k rid s e rows tg sup subruns = .error er) : er = .valueError := by
  unfold ctor3 at h
  split at h
  · split at h
    · exact ctor4_error h
    · simp at h; exact h.symm
  · exact ctor4_error h

theorem ctor2_error {dt k rid s e rows tg sup subruns er}
    (h : ctor2 dt k rid s e rows tg sup subruns = .error er) : er = .valueError := by
  unfold ctor2 at h
  split at h; · simp at h; exact h.symm
  split at h; · simp at h; exact h.symm
  split at h
  · exact ctor3_error h
  · split at h; · simp at h; exact h.symm
    split at h
    · split at h
      · simp at h; exact h.symm
      · exact ctor3_error h
    · exact ctor3_error h

/-- the constructor only ever raises `ValueError` -/
theorem mkChunk_error {dt k : String} {rid : Option String} {s e : Int} {rows : List Row}
    {sub sup : Option Runs} {tg : Nat} {er : Err}
    (h : mkChunk dt k rid s e rows sub sup tg = .error er) : er = .valueError := by
  rw [mkChunk_eq] at h
  split at h
  · exact ctor2_error h
  · split at h
    · simp at h; exact h.symm
    · exact ctor2_error h

/-- a successful `ctor2` tells: first row not early, and the window maximum not late -/
theorem ctor2_ok {dt k rid s e rows tg sup subruns c}
    (h : ctor2 dt k rid s e rows tg sup subruns = .ok c) :
    0 ≤ s ∧ s ≤ e ∧ (∀ r0 rest, rows = r0 :: rest → s ≤ r0.time ∧ ∀ m, lastEndMax rows = some m → m ≤ e) := by
  unfold ctor2 at h
  split at h; · simp at h
  split at h; · simp at h
  refine ⟨by omega, by omega, ?_⟩
  split at h
  · intro r0 rest hr; simp at hr
  · rename_i r0 rest
    split at h; · simp at h
    intro r0' rest' hr
    simp at hr
    obtain ⟨rfl, rfl⟩ := hr
    refine ⟨by omega, ?_⟩
    intro m hm
    split at h
    · rename_i m' hm'
      rw [hm'] at hm
      simp at hm
      subst hm
      split at h
      · simp at h
      · omega
    · rename_i hnone
      rw [hnone] at hm
      simp at hm

theorem mkChunk_ok_window {dt k : String} {rid : Option String} {s e : Int} {rows : List Row}
    {sub sup : Option Runs} {tg : Nat} {c : Chunk}
    (h : mkChunk dt k rid s e rows sub sup tg = .ok c) :
    0 ≤ s ∧ s ≤ e ∧ (∀ r0 rest, rows = r0 :: rest → s ≤ r0.time ∧ ∀ m, lastEndMax rows = some m → m ≤ e) := by
  rw [mkChunk_eq] at h
  split at h
  · exact ctor2_ok h
  · split at h
    · simp at h
    · exact ctor2_ok h

/-- the row-range guarantee of the constructor within its scope (≤ 500 time-sorted rows) -/
theorem mkChunk_ok_rows_inside {dt k : String} {rid : Option String} {s e : Int} {rows : List Row}
    {sub sup : Option Runs} {tg : Nat} {c : Chunk}
    (h : mkChunk dt k rid s e rows sub sup tg = .ok c)
    (hlen : rows.length ≤ 500) (hsort : SortedByTime rows) :
    ∀ r ∈ rows, s ≤ r.time ∧ r.endt ≤ e := by
  obtain ⟨_, _, hw⟩ := mkChunk_ok_window h
  cases rows with
  | nil => intro r hr; simp at hr
  | cons r0 rest =>
    obtain ⟨h0, hm⟩ := hw r0 rest rfl
    have hmax := hm _ (lastEndMax_short r0 rest hlen)
    intro r hr
    simp at hr
    rcases hr with rfl | hr
    · exact ⟨h0, Int.le_trans (maxEnd_ge_default rest _) hmax⟩
    · exact ⟨Int.le_trans h0 (sorted_head_le r0 rest hsort r hr),
             Int.le_trans (maxEnd_ge_mem rest _ r hr) hmax⟩

theorem mkChunk_row_outside {dt k : String} {rid : Option String} {s e : Int} {rows : List Row}
    {sub sup : Option Runs} {tg : Nat}
    (hlen : rows.length ≤ 500) (hsort : SortedByTime rows)
    (hout : ∃ r ∈ rows, r.time < s ∨ r.endt > e) :
    mkChunk dt k rid s e rows sub sup tg = .error .valueError := by
  cases h : mkChunk dt k rid s e rows sub sup tg with
  | error er => rw [mkChunk_error h]
  | ok c =>
    obtain ⟨r, hr, ho⟩ := hout
    have := mkChunk_ok_rows_inside h hlen hsort r hr
    omega

theorem mkChunk_fields {dt k : String} {rid : Option String} {s e : Int} {rows : List Row}
    {sub sup : Option Runs} {tg : Nat} {c : Chunk}
    (h : mkChunk dt k rid s e rows sub sup tg = .ok c) :
    c.dataType = dt ∧ c.start = s ∧ c.stop = e ∧ c.rows = rows := by
  rw [mkChunk_eq] at h
  have key : ∀ subruns, ctor2 dt k rid s e rows tg sup subruns = .ok c →
      c.dataType = dt ∧ c.start = s ∧ c.stop = e ∧ c.rows = rows := by
    intro subruns h
    have k4 : ∀ x, ctor4 dt k rid s e rows tg subruns x = .ok c →
        c.dataType = dt ∧ c.start = s ∧ c.stop = e ∧ c.rows = rows := by
      intro x h4
      unfold ctor4 at h4
      split at h4; · simp at h4
      split at h4; · simp at h4
      split at h4; · simp at h4
      simp at h4; subst h4; exact ⟨rfl, rfl, rfl, rfl⟩
    have k3 : ctor3 dt k rid s e rows tg sup subruns = .ok c →
        c.dataType = dt ∧ c.start = s ∧ c.stop = e ∧ c.rows = rows := by
      intro h3
      unfold ctor3 at h3
      split at h3
      · split at h3
        · exact k4 _ h3
        · simp at h3
      · exact k4 _ h3
    unfold ctor2 at h
    split at h; · simp at h
    split at h; · simp at h
    split at h
    · exact k3 h
    · split at h; · simp at h
      split at h
      · split at h
        · simp at h
        · exact k3 h
      · exact k3 h
  split at h
  · exact key _ h
  · split at h
    · simp at h
    · exact key _ h

/-! ### `chunkInit` -/

theorem chunkInit_wrong_dtype (dataType kind : String) (runId : Option String) (declared dt : RDtype)
    (start stop : Int) (rows : List Row) (sub sup : Option Runs) (tg : Nat)
    (h : stripTitles declared ≠ stripTitles dt) :
    chunkInit dataType kind runId declared start stop (.array dt rows) sub sup tg = .error .valueError := by
  simp [chunkInit, h]

theorem chunkInit_array_error {dataType kind : String} {runId : Option String} {declared dt : RDtype}
    {start stop : Int} {rows : List Row} {sub sup : Option Runs} {tg : Nat} {er : Err}
    (h : chunkInit dataType kind runId declared start stop (.array dt rows) sub sup tg = .error er) :
    er = .valueError := by
  unfold chunkInit at h
  simp only at h
  split at h
  · simp at h; exact h.symm
  · exact mkChunk_error (map_eq_error.mp h)

theorem chunkInit_ok_array {dataType kind : String} {runId : Option String} {declared dt : RDtype}
    {start stop : Int} {rows : List Row} {sub sup : Option Runs} {tg : Nat} {cc : CChunk}
    (h : chunkInit dataType kind runId declared start stop (.array dt rows) sub sup tg = .ok cc) :
    stripTitles declared = stripTitles dt ∧ cc.dtype = declared ∧ cc.dataDtype = dt ∧
      mkChunk dataType kind runId start stop rows sub sup tg = .ok cc.c := by
  unfold chunkInit at h
  simp only at h
  split at h
  · simp at h
  · rename_i hne
    obtain ⟨c, hc, rfl⟩ := map_eq_ok.mp h
    refine ⟨?_, rfl, rfl, hc⟩
    simpa using hne

/-! ### `checkDtype` -/

theorem checkDtype_array_wrong (p : Plugin) (d : String) (dt decl : RDtype) (rows : List Row)
    (hd : p.dtypeFor d = .ok decl) (h : stripTitles dt ≠ stripTitles decl) :
    checkDtype p (.array dt rows) (some d) = .error .pluginGaveWrongOutput := by
  simp [checkDtype, hd, h, bind, Except.bind, pure, Except.pure, throw, throwThe, MonadExceptOf.throw]

theorem checkDtype_array_ok (p : Plugin) (d : String) (dt decl : RDtype) (rows : List Row)
    (hd : p.dtypeFor d = .ok decl) (h : stripTitles dt = stripTitles decl) :
    checkDtype p (.array dt rows) (some d) = .ok () := by
  simp [checkDtype, hd, h, bind, Except.bind, pure, Except.pure]

/-- `_check_dtype` accepts nothing but an array whose stripped dtype is the declared one -/
theorem checkDtype_ok_iff (p : Plugin) (d : String) (x : Leaf) :
    checkDtype p x (some d) = .ok () ↔
      ∃ dt rows decl, x = .array dt rows ∧ p.dtypeFor d = .ok decl ∧ stripTitles dt = stripTitles decl := by
  constructor
  · intro h
    cases x with
    | array dt rows =>
      cases hd : p.dtypeFor d with
      | error e => simp [checkDtype, hd, bind, Except.bind, pure, Except.pure] at h
      | ok decl =>
        refine ⟨dt, rows, decl, rfl, rfl, ?_⟩
        by_cases hs : stripTitles dt = stripTitles decl
        · exact hs
        · rw [checkDtype_array_wrong p d dt decl rows hd hs] at h; cases h
    | plain n =>
      cases hd : p.dtypeFor d <;>
        simp [checkDtype, hd, bind, Except.bind, pure, Except.pure, throw, throwThe, MonadExceptOf.throw] at h
    | chunk c => simp [checkDtype, bind, Except.bind, pure, Except.pure, throw, throwThe, MonadExceptOf.throw] at h
    | cols e => simp [checkDtype, bind, Except.bind, pure, Except.pure, throw, throwThe, MonadExceptOf.throw] at h
    | noneVal => simp [checkDtype, bind, Except.bind, pure, Except.pure, throw, throwThe, MonadExceptOf.throw] at h
    | seq n => simp [checkDtype, bind, Except.bind, pure, Except.pure, throw, throwThe, MonadExceptOf.throw] at h
  · rintro ⟨dt, rows, decl, rfl, hd, hs⟩
    exact checkDtype_array_ok p d dt decl rows hd hs

/-! ### continuity of a plain stream -/

theorem contStep_plain (s : ContState) (c : Chunk) (rid : String)
    (hr : c.runId = some rid) (hs : c.subruns = none) (hl : s.lastRun = some (some rid)) :
    contStep s c =
      match s.lastEnd with
      | some e => if c.start = e then .ok { lastEnd := some c.stop, lastRun := some (some rid), lastSubrun := none, lastSubIsNone := true }
                  else .error .valueError
      | none => .ok { lastEnd := some c.stop, lastRun := some (some rid), lastSubrun := none, lastSubIsNone := true } := by
  have hsup : c.isSuperrun = false := by simp [Chunk.isSuperrun, hs]
  have hpc : c.promisedContinuity = true := by simp [Chunk.promisedContinuity, hsup]
  have hls : c.lastSubrun = none := by simp [Chunk.lastSubrun, hsup]
  have hbad : c.isSuperrunBad = false := by simp [Chunk.isSuperrunBad, hs]
  obtain ⟨le, lr, ls, lsn⟩ := s
  simp only at hl
  subst hl
  unfold contStep contStepCore
  simp only [hr, hsup, hpc, hls, hbad]
  cases le <;> simp [bind, Except.bind, pure, Except.pure, throw, throwThe, MonadExceptOf.throw]

theorem contStep_first (c : Chunk) (rid : String) (hr : c.runId = some rid) (hs : c.subruns = none) :
    contStep {} c = .ok { lastEnd := some c.stop, lastRun := some (some rid), lastSubrun := none, lastSubIsNone := true } := by
  have hsup : c.isSuperrun = false := by simp [Chunk.isSuperrun, hs]
  have hls : c.lastSubrun = none := by simp [Chunk.lastSubrun, hsup]
  have hbad : c.isSuperrunBad = false := by simp [Chunk.isSuperrunBad, hs]
  unfold contStep contStepCore
  simp [hr, hsup, hls, hbad, pure, Except.pure, bind, Except.bind]

/-- a stream of one ordinary run, entered with the previous end `e` known -/
def breakFrom (e : Int) : List Chunk → Bool
  | [] => false
  | c :: rest => decide (c.start ≠ e) || breakFrom c.stop rest

theorem hasBreak_cons (c : Chunk) (rest : List Chunk) : hasBreak (c :: rest) = breakFrom c.stop rest := by
  induction rest generalizing c with
  | nil => simp [hasBreak, breakFrom]
  | cons b t ih =>
    have : (c.stop = b.start) ↔ (b.start = c.stop) := eq_comm
    simp [hasBreak, breakFrom, ih, this]

theorem targetStreamFrom_plain (rid : String) :
    ∀ (cs : List Chunk) (e : Int), plainStream rid cs = true →
      let st : ContState := { lastEnd := some e, lastRun := some (some rid), lastSubrun := none, lastSubIsNone := true }
      ((targetStreamFrom st cs).2 = if breakFrom e cs then some .valueError else none) ∧
      breakFrom e (targetStreamFrom st cs).1 = false ∧
      (targetStreamFrom st cs).1 <+: cs ∧
      (breakFrom e cs = false → (targetStreamFrom st cs).1 = cs) := by
  intro cs
  induction cs with
  | nil => intro e _; simp [targetStreamFrom, breakFrom]
  | cons c rest ih =>
    intro e hp
    simp only [plainStream, List.all_cons, Bool.and_eq_true, beq_iff_eq] at hp
    obtain ⟨⟨hr, hs⟩, hrest⟩ := hp
    have hs' : c.subruns = none := by simpa using hs
    have hstep := contStep_plain { lastEnd := some e, lastRun := some (some rid), lastSubrun := none, lastSubIsNone := true } c rid hr hs' rfl
    simp only at hstep
    by_cases hbe : c.start = e
    · have h2 : contStep { lastEnd := some e, lastRun := some (some rid), lastSubrun := none, lastSubIsNone := true } c
          = .ok { lastEnd := some c.stop, lastRun := some (some rid), lastSubrun := none, lastSubIsNone := true } := by
        rw [hstep]; simp [hbe]
      have ih' := ih c.stop (by simpa [plainStream] using hrest)
      simp only at ih'
      obtain ⟨i1, i2, i3, i4⟩ := ih'
      simp only [targetStreamFrom, h2, breakFrom, hbe]
      refine ⟨by simpa using i1, by simpa using i2, ?_, ?_⟩
      · exact List.prefix_cons_inj c |>.mpr i3
      · intro hb
        have := i4 (by simpa using hb)
        simp [this]
    · have h2 : contStep { lastEnd := some e, lastRun := some (some rid), lastSubrun := none, lastSubIsNone := true } c
          = .error .valueError := by
        rw [hstep]; simp [hbe]
      simp only [targetStreamFrom, h2, breakFrom]
      simp [hbe]

/-! ### savers -/

theorem process_error_not_visible {σ α} (check : σ → α → Except Err σ) :
    ∀ (outs : List (Except Err α)) (st : σ) (sv : Saver α) (e : Err),
      (process check st outs sv).2.2 = some e → (process check st outs sv).1.visible = false := by
  intro outs
  induction outs with
  | nil => intro st sv e h; simp [process] at h
  | cons o rest ih =>
    intro st sv e h
    cases o with
    | error e' => simp [process, Saver.visible, Saver.closeExc]
    | ok a =>
      simp only [process] at h ⊢
      cases hc : check st a with
      | error e' => simp [Saver.visible, Saver.closeExc]
      | ok st' =>
        simp only [hc] at h ⊢
        exact ih st' (sv.save a) e h

theorem process_error_of_rejected {σ α} (check : σ → α → Except Err σ) :
    ∀ (outs : List (Except Err α)) (st : σ) (sv : Saver α),
      (∃ e, Except.error e ∈ outs) → ∃ e, (process check st outs sv).2.2 = some e := by
  intro outs
  induction outs with
  | nil => intro st sv h; simp at h
  | cons o rest ih =>
    intro st sv h
    cases o with
    | error e' => exact ⟨e', by simp [process]⟩
    | ok a =>
      simp only [process]
      cases hc : check st a with
      | error e' => exact ⟨e', by simp⟩
      | ok st' =>
        simp only
        apply ih
        obtain ⟨e, he⟩ := h
        simp at he
        exact ⟨e, he⟩

/-- everything handed to the user was produced (and accepted) before the first rejection -/
theorem process_delivered_ok {σ α} (check : σ → α → Except Err σ) :
    ∀ (outs : List (Except Err α)) (st : σ) (sv : Saver α),
      (process check st outs sv).2.1.map Except.ok <+: outs := by
  intro outs
  induction outs with
  | nil => intro st sv; simp [process]
  | cons o rest ih =>
    intro st sv
    cases o with
    | error e' => simp [process]
    | ok a =>
      simp only [process]
      cases hc : check st a with
      | error e' => simp
      | ok st' =>
        simp only [List.map_cons]
        exact (List.prefix_cons_inj _).mpr (ih st' (sv.save a))

/-- with `continuity_check` as the consumer's check, what `process` delivers and the error it ends
with are exactly those of `targetStream` -/
theorem process_contStep_eq_targetStream :
    ∀ (cs : List Chunk) (st : ContState) (sv : Saver Chunk),
      (process contStep st (cs.map Except.ok) sv).2 = targetStreamFrom st cs := by
  intro cs
  induction cs with
  | nil => intro st sv; simp [process, targetStreamFrom]
  | cons c rest ih =>
    intro st sv
    simp only [List.map_cons, process, targetStreamFrom]
    cases hc : contStep st c with
    | error e => simp
    | ok st' =>
      simp only
      have := ih st' (sv.save c)
      rw [Prod.ext_iff] at this
      simp [this.1, this.2]

/-- non-empty data always has a last-rows window with a maximum end -/
theorem lastEndMax_isSome_of_ne_nil {rows : List Row} (h : rows ≠ []) : ∃ e, lastEndMax rows = some e := by
  unfold lastEndMax
  have hlt : rows.length - 500 < rows.length := by
    have : 0 < rows.length := List.length_pos_iff.mpr h
    omega
  cases hd : rows.drop (rows.length - 500) with
  | nil =>
    have := List.drop_eq_nil_iff.mp hd
    omega
  | cons r rs => exact ⟨_, rfl⟩

end Strax.Contract
