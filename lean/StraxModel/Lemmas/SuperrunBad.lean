import StraxModel.Model.Chunk
/-
  `Chunk.is_superrun` raises `AttributeError` on `run_id = None` with non-empty sub-runs (`Chunk.isSuperrunBad`).
  `Chunk.split` / `contStep` are wrappers around `Chunk.splitCore` / `contStepCore` (the former bodies); these
  lemmas let proofs about the cores be reused:  `rw [Chunk.split_of_not_bad h]` / `Chunk.split_ok_core`.
  Import-light (Model/Chunk only).
-/
namespace Strax

theorem Chunk.not_bad_of_runId {c : Chunk} {rid : String} (h : c.runId = some rid) : c.isSuperrunBad = false := by
  unfold Chunk.isSuperrunBad
  split
  · rename_i h2; rw [h] at h2; cases h2
  · rfl

theorem Chunk.not_bad_of_subruns_none {c : Chunk} (h : c.subruns = none) : c.isSuperrunBad = false := by
  unfold Chunk.isSuperrunBad
  split
  · rename_i h1 _; rw [h] at h1; cases h1
  · rfl

theorem Chunk.split_of_not_bad {c : Chunk} (h : c.isSuperrunBad = false) (t : Int) (early : Bool) :
    c.split t early = c.splitCore t early := by
  simp [Chunk.split, h]

/-- a successful `split` is a successful `splitCore` (and `is_superrun` did not raise) -/
theorem Chunk.split_ok_core {c : Chunk} {t : Int} {early : Bool} {p : Chunk × Chunk}
    (h : c.split t early = .ok p) : c.isSuperrunBad = false ∧ c.splitCore t early = .ok p := by
  unfold Chunk.split at h
  split at h
  · split at h <;> cases h
  · rename_i hb
    exact ⟨by simpa using hb, h⟩

/-- `CannotSplit` comes from the core (the data split) in either case -/
theorem Chunk.split_cannotSplit_iff {c : Chunk} {t : Int} {early : Bool} :
    c.split t early = .error .cannotSplit ↔ c.splitCore t early = .error .cannotSplit := by
  unfold Chunk.split
  split
  · constructor
    · intro h
      split at h
      · assumption
      · cases h
    · intro h; rw [h]
  · exact Iff.rfl

theorem contStep_of_not_bad {c : Chunk} (h : c.isSuperrunBad = false) (s : ContState) :
    contStep s c = contStepCore s c := by
  simp [contStep, h]

theorem contStep_ok_core {c : Chunk} {s s' : ContState} (h : contStep s c = .ok s') :
    c.isSuperrunBad = false ∧ contStepCore s c = .ok s' := by
  unfold contStep at h
  split at h
  · cases h
  · rename_i hb
    exact ⟨by simpa using hb, h⟩

end Strax
