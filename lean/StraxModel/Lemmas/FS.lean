import StraxModel.Model.FS
/-
  Lemmas about the abstract file system and the saver machine of Model/FS.lean (property C04).
-/
namespace Strax.FS
open Strax

/-! ## directories -/

@[simp] theorem Dir.get_nil (n : Name) : Dir.get [] n = none := rfl

theorem Dir.get_del (d : Dir) (n n' : Name) : (d.del n).get n' = if n' = n then none else d.get n' := by
  induction d with
  | nil => simp [Dir.del]
  | cons e rest ih =>
    obtain ⟨k, v⟩ := e
    by_cases h : k = n
    · subst h
      simp only [Dir.del, if_true, ih]
      by_cases h2 : n' = k
      · simp [h2]
      · have : ¬ k = n' := fun h => h2 h.symm
        simp [h2, Dir.get, this]
    · simp only [Dir.del, h, if_false, Dir.get]
      by_cases h3 : k = n'
      · subst h3; simp [h]
      · simp [h3, ih]

theorem Dir.get_set (d : Dir) (n n' : Name) (c : Content) :
    (d.set n c).get n' = if n' = n then some c else d.get n' := by
  unfold Dir.set
  by_cases h : n' = n
  · subst h; simp [Dir.get]
  · have h' : ¬ n = n' := fun e => h e.symm
    simp [Dir.get, h, h', Dir.get_del]

theorem Dir.eq_nil_of_get (d : Dir) (h : ∀ n, d.get n = none) : d = [] := by
  cases d with
  | nil => rfl
  | cons e rest =>
    obtain ⟨k, v⟩ := e
    have := h k
    simp [Dir.get] at this


/-! ## shape of saver programs: every item has a rank, programs are sorted by rank, milestones are never skipped -/

/-- position of an item in the (current) protocol: `__init__` 0–15, chunk phase 16, close 17–25.
Items of the old in-place removal of the final directory have no place in it (rank 100).  An `if exists: …` item
ranks just above the items it expands into, so that expanding it keeps a program sorted. -/
def rank : Item → Nat
  | .op (.existsDir .temp) => 0
  | .rmList .temp false => 1
  | .unlinks .temp false => 2
  | .rmRmdir .temp false => 3
  | .rmtreeIf .temp false => 4
  | .op (.existsDir .final) => 5
  | .op (.renameDir .final .temp) => 6
  | .rmList .temp true => 7
  | .unlinks .temp true => 8
  | .rmRmdir .temp true => 9
  | .moveFinalIf => 10
  | .op (.mkdir .temp) => 11
  | .flushOpen .init => 12
  | .flushWrite .init => 13
  | .flushClose .init => 14
  | .armed => 15
  | .append _ => 16
  | .submit _ _ => 16
  | .join => 16
  | .markUnreg => 16
  | .poll => 16
  | .waitAll => 16
  | .flushOpen .chunk => 16
  | .flushWrite .chunk => 16
  | .flushClose .chunk => 16
  | .waitQuiet => 17
  | .markClosed => 18
  | .checkTemp => 19
  | .collect => 20
  | .readInfo _ => 20
  | .op (.unlink .temp (.cmeta _)) => 20
  | .flushOpen .last => 21
  | .flushWrite .last => 22
  | .flushClose .last => 23
  | .op (.renameDir .temp .final) => 24
  | .finish => 25
  | _ => 100

/-- an operation that only touches entries of the temp directory -/
def tempOp : Op → Bool
  | .openTrunc .temp _ => true
  | .write .temp _ _ => true
  | .close .temp _ => true
  | .rename .temp _ _ => true
  | _ => false

/-- names an operation may change -/
def opNames : Op → List Name
  | .openTrunc _ n => [n]
  | .write _ n _ => [n]
  | .rename _ a b => [a, b]
  | .unlink _ n => [n]
  | _ => []

/-- the operation leaves the metadata file alone (true of every chunk write of the serial and executor variants) -/
def mdFree (o : Op) : Bool := !(opNames o).contains .md

def okItem : Item → Bool
  | .submit _ ops => ops.all tempOp
  | x => rank x ≤ 25

/-- rank of the head item; 26 when the program is exhausted -/
def hr (p : List Item) : Nat :=
  match p with
  | [] => 26
  | x :: _ => rank x

@[simp] theorem hr_nil : hr [] = 26 := rfl
@[simp] theorem hr_cons (x : Item) (p : List Item) : hr (x :: p) = rank x := rfl

/-- order of two items in a program: strictly increasing rank, except inside the chunk phase (16) and inside the
collection of per-chunk metadata (20), where many items share the rank -/
def rle (a b : Item) : Prop := rank a < rank b ∨ (rank a = rank b ∧ (rank a = 16 ∨ rank a = 20))

def Sorted (p : List Item) : Prop := p.Pairwise rle

theorem Sorted.tail {x : Item} {p : List Item} (h : Sorted (x :: p)) : Sorted p := (List.pairwise_cons.mp h).2

theorem Sorted.head_rle {x : Item} {p : List Item} (h : Sorted (x :: p)) : ∀ y ∈ p, rle x y :=
  (List.pairwise_cons.mp h).1

theorem Sorted.head_le {x : Item} {p : List Item} (h : Sorted (x :: p)) : ∀ y ∈ p, rank x ≤ rank y := by
  intro y hy
  rcases h.head_rle y hy with h | h <;> omega

theorem hr_tail_gt {x : Item} {p : List Item} (h : Sorted (x :: p)) (hx : rank x ≤ 25) (h16 : rank x ≠ 16)
    (h20 : rank x ≠ 20) : rank x < hr p := by
  cases p with
  | nil => simp; omega
  | cons y q =>
    rcases h.head_rle y (by simp) with h | h
    · simpa using h
    · omega

theorem hr_tail_ge {x : Item} {p : List Item} (h : Sorted (x :: p)) (hx : rank x ≤ 26) : rank x ≤ hr p := by
  cases p with
  | nil => simpa using hx
  | cons y q => exact h.head_le y (by simp)

theorem Sorted.hr_le_mem {p : List Item} (h : Sorted p) : ∀ y ∈ p, hr p ≤ rank y := by
  cases p with
  | nil => simp
  | cons x q =>
    intro y hy
    rcases List.mem_cons.mp hy with rfl | hy
    · simp
    · exact h.head_le y hy

/-- items that every program has to pass through, each with a rank of its own -/
def milestones : List Item :=
  [.op (.mkdir .temp), .armed, .waitQuiet, .markClosed, .flushWrite .last, .op (.renameDir .temp .final), .finish]

/-- a milestone not yet reached is still ahead -/
def Miles (p : List Item) : Prop := ∀ m ∈ milestones, hr p ≤ rank m → m ∈ p

theorem rank_milestone_unique {m y : Item} (hm : m ∈ milestones) (h : rank y = rank m) : y = m := by
  simp only [milestones, List.mem_cons, List.mem_nil_iff, or_false] at hm
  rcases hm with rfl | rfl | rfl | rfl | rfl | rfl | rfl
  all_goals
    simp only [rank] at h
    split at h <;> simp_all

theorem Miles.tail {x : Item} {p : List Item} (hs : Sorted (x :: p)) (hm : Miles (x :: p)) : Miles p := by
  intro m hmm hle
  cases p with
  | nil =>
    simp only [hr_nil] at hle
    simp only [milestones, List.mem_cons, List.mem_nil_iff, or_false] at hmm
    rcases hmm with rfl | rfl | rfl | rfl | rfl | rfl | rfl <;> simp [rank] at hle
  | cons y q =>
    simp only [hr_cons] at hle
    have hxy : rank x ≤ rank y := hs.head_le y (by simp)
    have hin : m ∈ x :: y :: q := hm m hmm (by simp only [hr_cons]; omega)
    rcases List.mem_cons.mp hin with rfl | hin
    · -- the milestone itself was popped; the next item has the same rank, hence is the milestone again
      have : y = m := rank_milestone_unique hmm (by omega)
      simp [this]
    · exact hin


/-! ## the programs of the protocol have the shape -/

theorem rank_chunkItems {v : Variant} {r : Bool} {i : Nat} {c : Chunk} : ∀ x ∈ chunkItems v r i c, rank x = 16 := by
  intro x hx
  cases v with
  | forked => simp only [chunkItems, List.mem_singleton] at hx; subst hx; rfl
  | serial =>
    simp only [chunkItems, flushItems] at hx
    split at hx <;> simp at hx
    all_goals (rcases hx with h | h | h | h | h | h | h <;> (try subst h) <;> simp_all [rank])
  | executor =>
    simp only [chunkItems, flushItems] at hx
    split at hx <;> split at hx <;> simp at hx
    all_goals (rcases hx with h | h | h | h | h | h | h | h <;> (try subst h) <;> simp_all [rank])


theorem rank_chunksItems {v : Variant} {r : Bool} : ∀ (cs : List Chunk) (i : Nat), ∀ x ∈ chunksItems v r i cs, rank x = 16 := by
  intro cs
  induction cs with
  | nil => intro i x hx; simp [chunksItems] at hx
  | cons c rest ih =>
    intro i x hx
    simp only [chunksItems, List.mem_append] at hx
    rcases hx with hx | hx
    · exact rank_chunkItems x hx
    · exact ih _ x hx

theorem tempOp_writeOps (i : Nat) (rs : List Row) : ∀ o ∈ writeOps i rs, tempOp o = true := by
  intro o ho
  simp only [writeOps, List.mem_cons, List.mem_nil_iff, or_false] at ho
  rcases ho with rfl | rfl | rfl | rfl <;> rfl

theorem mdFree_writeOps (i : Nat) (rs : List Row) : ∀ o ∈ writeOps i rs, mdFree o = true := by
  intro o ho
  simp only [writeOps, List.mem_cons, List.mem_nil_iff, or_false] at ho
  rcases ho with rfl | rfl | rfl | rfl <;> simp [mdFree, opNames]

theorem tempOp_forkOps (i : Nat) (c : Chunk) : ∀ o ∈ forkOps i c, tempOp o = true := by
  intro o ho
  simp only [forkOps, List.mem_append] at ho
  rcases ho with (ho | ho) | ho
  · split at ho
    · simp at ho
    · exact tempOp_writeOps _ _ o ho
  · simp only [List.mem_cons, List.mem_nil_iff, or_false] at ho
    rcases ho with rfl | rfl | rfl <;> rfl
  · split at ho
    · simp only [List.mem_cons, List.mem_nil_iff, or_false] at ho
      rcases ho with rfl | rfl | rfl <;> rfl
    · simp at ho

theorem ok_chunkItems {v : Variant} {r : Bool} {i : Nat} {c : Chunk} :
    ∀ x ∈ chunkItems v r i c, okItem x = true := by
  intro x hx
  have hr := rank_chunkItems x hx
  cases x with
  | submit j ops =>
    simp only [okItem, List.all_eq_true]
    cases v with
    | forked =>
      simp only [chunkItems, List.mem_singleton] at hx
      injection hx with _ hx; subst hx
      exact tempOp_forkOps _ _
    | serial =>
      simp only [chunkItems, flushItems] at hx
      split at hx <;> simp at hx
      obtain ⟨_, rfl⟩ := hx
      exact tempOp_writeOps _ _
    | executor =>
      simp only [chunkItems, flushItems] at hx
      split at hx <;> split at hx <;> simp at hx
      all_goals (obtain ⟨_, rfl⟩ := hx; exact tempOp_writeOps _ _)
  | _ => simp_all [okItem]

theorem ok_chunksItems {v : Variant} {r : Bool} :
    ∀ (cs : List Chunk) (i : Nat), ∀ x ∈ chunksItems v r i cs, okItem x = true := by
  intro cs
  induction cs with
  | nil => intro i x hx; simp [chunksItems] at hx
  | cons c rest ih =>
    intro i x hx
    simp only [chunksItems, List.mem_append] at hx
    rcases hx with hx | hx
    · exact ok_chunkItems x hx
    · exact ih _ x hx

/-- the three shape properties together -/
structure Shape (p : List Item) : Prop where
  sorted : Sorted p
  ok : ∀ x ∈ p, okItem x = true
  miles : Miles p

theorem Shape.tail {x : Item} {p : List Item} (h : Shape (x :: p)) : Shape p :=
  ⟨h.sorted.tail, fun y hy => h.ok y (by simp [hy]), Miles.tail h.sorted h.miles⟩

theorem sorted_closeItems : Sorted closeItems := by
  simp [Sorted, rle, closeItems, flushItems, rank]

theorem ok_closeItems : ∀ x ∈ closeItems, okItem x = true := by
  intro x hx
  simp only [closeItems, flushItems, List.cons_append, List.nil_append, List.mem_cons, List.mem_nil_iff, or_false] at hx
  rcases hx with rfl | rfl | rfl | rfl | rfl | rfl | rfl | rfl | rfl <;> simp [okItem, rank]

theorem rank_closeItems_ge : ∀ x ∈ closeItems, 17 ≤ rank x := by
  intro x hx
  simp only [closeItems, flushItems, List.cons_append, List.nil_append, List.mem_cons, List.mem_nil_iff, or_false] at hx
  rcases hx with rfl | rfl | rfl | rfl | rfl | rfl | rfl | rfl | rfl <;> simp [rank]

/-- a block of chunk-phase items followed by the close sequence -/
theorem shape_mid_close {mid : List Item} (hr16 : ∀ x ∈ mid, rank x = 16) (hok : ∀ x ∈ mid, okItem x = true) :
    Shape (mid ++ closeItems) := by
  refine ⟨?_, ?_, ?_⟩
  · refine List.pairwise_append.mpr ⟨?_, sorted_closeItems, ?_⟩
    · exact List.pairwise_of_forall_mem_list (fun a ha b hb => Or.inr ⟨by rw [hr16 a ha, hr16 b hb], Or.inl (hr16 a ha)⟩)
    · intro a ha b hb
      left; rw [hr16 a ha]; have := rank_closeItems_ge b hb; omega
  · intro x hx
    rcases List.mem_append.mp hx with h | h
    · exact hok x h
    · exact ok_closeItems x h
  · intro m hm hle
    have h16 : 16 ≤ hr (mid ++ closeItems) := by
      cases mid with
      | nil => simp [closeItems, rank]
      | cons y q => simp [hr16 y (by simp)]
    simp only [milestones, List.mem_cons, List.mem_nil_iff, or_false] at hm
    rcases hm with rfl | rfl | rfl | rfl | rfl | rfl | rfl
    all_goals first
      | (simp [rank] at hle; omega)
      | (apply List.mem_append_right; simp [closeItems, flushItems])

theorem shape_handlerItems (h : HandlerSpec) : Shape (handlerItems h) :=
  shape_mid_close (rank_chunksItems _ _) (ok_chunksItems _ _)

/-- chunk phase of the main program -/
def mainItems (v : Variant) (cs : List Chunk) : List Item :=
  chunksItems v true 0 cs ++ (if v == .executor || v == .forked then [.waitAll] else [])

theorem rank_mainItems {v : Variant} {cs : List Chunk} : ∀ x ∈ mainItems v cs, rank x = 16 := by
  intro x hx
  simp only [mainItems, List.mem_append] at hx
  rcases hx with hx | hx
  · exact rank_chunksItems _ _ x hx
  · split at hx <;> simp at hx
    subst hx; rfl

theorem ok_mainItems {v : Variant} {cs : List Chunk} : ∀ x ∈ mainItems v cs, okItem x = true := by
  intro x hx
  have hr := rank_mainItems x hx
  simp only [mainItems, List.mem_append] at hx
  rcases hx with hx | hx
  · exact ok_chunksItems _ _ x hx
  · split at hx <;> simp at hx
    subst hx; rfl

theorem saverProg_eq (v : Variant) (cs : List Chunk) :
    saverProg v {} cs = initItems ++ (mainItems v cs ++ closeItems) := by
  cases v <;> simp [saverProg, mainItems, List.append_assoc]

theorem shape_saverProg (v : Variant) (cs : List Chunk) : Shape (saverProg v {} cs) := by
  rw [saverProg_eq v]
  have hmc := shape_mid_close (mid := mainItems v cs) rank_mainItems ok_mainItems
  have hin : ∀ x ∈ initItems, rank x ≤ 15 ∧ okItem x = true := by
    intro x hx
    simp only [initItems, flushItems, List.cons_append, List.nil_append, List.mem_cons, List.mem_nil_iff, or_false] at hx
    rcases hx with rfl | rfl | rfl | rfl | rfl | rfl | rfl | rfl | rfl <;> simp [okItem, rank]
  have hge : ∀ y ∈ mainItems v cs ++ closeItems, 16 ≤ rank y := by
    intro y hy
    rcases List.mem_append.mp hy with h | h
    · rw [rank_mainItems y h]; exact Nat.le_refl _
    · have := rank_closeItems_ge y h; omega
  refine ⟨?_, ?_, ?_⟩
  · refine List.pairwise_append.mpr ⟨?_, hmc.sorted, ?_⟩
    · simp [rle, initItems, flushItems, rank]
    · intro a ha b hb
      left; have := (hin a ha).1; have := hge b hb; omega
  · intro x hx
    rcases List.mem_append.mp hx with h | h
    · exact (hin x h).2
    · exact hmc.ok x h
  · intro m hm _
    simp only [milestones, List.mem_cons, List.mem_nil_iff, or_false] at hm
    rcases hm with rfl | rfl | rfl | rfl | rfl | rfl | rfl
    · apply List.mem_append_left; simp [initItems, flushItems]
    · apply List.mem_append_left; simp [initItems, flushItems]
    all_goals (apply List.mem_append_right; apply List.mem_append_right; simp [closeItems, flushItems])

end Strax.FS
