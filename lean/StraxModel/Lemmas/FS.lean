import StraxModel.Model.FS
/-
  Lemmas about the abstract file system and the saver machine of Model/FS.lean (property C04).
-/
namespace Strax.FS
open Strax

/-! ## directories -/

@[simp] theorem Dir.get_nil (n : Name) : Dir.get [] n = none := rfl

theorem Dir.get_del (d : Dir) (n n' : Name) : (d.del n).get n' = if n' = n then none else d.get n' := by
  induction d with
  | nil => simp [Dir.del]
  | cons e rest ih =>
    obtain ⟨k, v⟩ := e
    by_cases h : k = n
    · subst h
      simp only [Dir.del, if_true, ih]
      by_cases h2 : n' = k
      · simp [h2]
      · have : ¬ k = n' := fun h => h2 h.symm
        simp [h2, Dir.get, this]
    · simp only [Dir.del, h, if_false, Dir.get]
      by_cases h3 : k = n'
      · subst h3; simp [h]
      · simp [h3, ih]

theorem Dir.get_set (d : Dir) (n n' : Name) (c : Content) :
    (d.set n c).get n' = if n' = n then some c else d.get n' := by
  unfold Dir.set
  by_cases h : n' = n
  · subst h; simp [Dir.get]
  · have h' : ¬ n = n' := fun e => h e.symm
    simp [Dir.get, h, h', Dir.get_del]

theorem Dir.eq_nil_of_get (d : Dir) (h : ∀ n, d.get n = none) : d = [] := by
  cases d with
  | nil => rfl
  | cons e rest =>
    obtain ⟨k, v⟩ := e
    have := h k
    simp [Dir.get] at this


/-! ## shape of saver programs: every item has a rank, programs are sorted by rank, milestones are never skipped -/

/-- position of an item in the protocol: `__init__` 0–14, chunk phase 15, close 16–24 -/
def rank : Item → Nat
  | .op (.existsDir .final) => 0
  | .rmtreeIf .final => 1
  | .op (.listdir .final) => 2
  | .unlinks .final => 3
  | .op (.rmdir .final) => 4
  | .op (.existsDir .temp) => 5
  | .rmtreeIf .temp => 6
  | .op (.listdir .temp) => 7
  | .unlinks .temp => 8
  | .op (.rmdir .temp) => 9
  | .op (.mkdir .temp) => 10
  | .flushOpen .init => 11
  | .flushWrite .init => 12
  | .flushClose .init => 13
  | .armed => 14
  | .append _ => 15
  | .submit _ _ => 15
  | .join => 15
  | .poll => 15
  | .waitAll => 15
  | .flushOpen .chunk => 15
  | .flushWrite .chunk => 15
  | .flushClose .chunk => 15
  | .waitQuiet => 16
  | .markClosed => 17
  | .checkTemp => 18
  | .collect => 19
  | .readInfo _ => 19
  | .op (.unlink .temp (.cmeta _)) => 19
  | .flushOpen .last => 20
  | .flushWrite .last => 21
  | .flushClose .last => 22
  | .op (.renameDir .temp .final) => 23
  | .finish => 24
  | .op _ => 100

/-- an operation that only touches entries of the temp directory -/
def tempOp : Op → Bool
  | .openTrunc .temp _ => true
  | .write .temp _ _ => true
  | .close .temp _ => true
  | .rename .temp _ _ => true
  | _ => false

def okItem : Item → Bool
  | .submit _ ops => ops.all tempOp
  | x => rank x ≤ 24

/-- rank of the head item; 25 when the program is exhausted -/
def hr (p : List Item) : Nat :=
  match p with
  | [] => 25
  | x :: _ => rank x

@[simp] theorem hr_nil : hr [] = 25 := rfl
@[simp] theorem hr_cons (x : Item) (p : List Item) : hr (x :: p) = rank x := rfl

def Sorted (p : List Item) : Prop := p.Pairwise (fun a b => rank a ≤ rank b)

theorem Sorted.tail {x : Item} {p : List Item} (h : Sorted (x :: p)) : Sorted p := (List.pairwise_cons.mp h).2

theorem Sorted.head_le {x : Item} {p : List Item} (h : Sorted (x :: p)) : ∀ y ∈ p, rank x ≤ rank y :=
  (List.pairwise_cons.mp h).1

theorem hr_tail_ge {x : Item} {p : List Item} (h : Sorted (x :: p)) (hx : rank x ≤ 25) : rank x ≤ hr p := by
  cases p with
  | nil => simpa using hx
  | cons y q => exact h.head_le y (by simp)

theorem Sorted.hr_le_mem {p : List Item} (h : Sorted p) : ∀ y ∈ p, hr p ≤ rank y := by
  cases p with
  | nil => simp
  | cons x q =>
    intro y hy
    rcases List.mem_cons.mp hy with rfl | hy
    · simp
    · exact h.head_le y hy

/-- items that every program has to pass through, each with a rank of its own -/
def milestones : List Item :=
  [.op (.mkdir .temp), .armed, .waitQuiet, .markClosed, .flushWrite .last, .op (.renameDir .temp .final), .finish]

/-- a milestone not yet reached is still ahead -/
def Miles (p : List Item) : Prop := ∀ m ∈ milestones, hr p ≤ rank m → m ∈ p

theorem rank_milestone_unique {m y : Item} (hm : m ∈ milestones) (h : rank y = rank m) : y = m := by
  simp only [milestones, List.mem_cons, List.mem_nil_iff, or_false] at hm
  rcases hm with rfl | rfl | rfl | rfl | rfl | rfl | rfl
  all_goals
    cases y <;> simp [rank] at h ⊢
  all_goals sorry

end Strax.FS
