import StraxModel.Model.Components
/-
  Helper lemmas for Props/C11: inversion of the traversal functions on their `ok` paths, a generic
  "relation along foldDeps" principle, and the invariants of `checkCache`.
-/
namespace Strax.Components
open Strax

/-! ### inversion lemmas -/

theorem foldDeps_nil (f : String → St → Except Err St) (st : St) : foldDeps f [] st = .ok st := rfl

theorem foldDeps_cons_ok {f : String → St → Except Err St} {d ds st st'}
    (h : foldDeps f (d :: ds) st = .ok st') : ∃ s1, f d st = .ok s1 ∧ foldDeps f ds s1 = .ok st' := by
  unfold foldDeps at h
  split at h
  · cases h
  · exact ⟨_, by assumption, h⟩

/-- a relation that is reflexive, transitive and established by every single step holds along `foldDeps` -/
theorem foldDeps_rel {f : String → St → Except Err St} {R : St → St → Prop}
    (refl : ∀ s, R s s) (trans : ∀ a b c, R a b → R b c → R a c) :
    ∀ (ds : List String) (st st' : St), (∀ d ∈ ds, ∀ s s', f d s = .ok s' → R s s') →
      foldDeps f ds st = .ok st' → R st st'
  | [], st, st', _, h => by
    simp only [foldDeps] at h; cases h; exact refl _
  | d :: ds, st, st', hstep, h => by
    obtain ⟨s1, h1, h2⟩ := foldDeps_cons_ok h
    exact trans _ _ _ (hstep d (by simp) _ _ h1)
      (foldDeps_rel refl trans ds s1 st' (fun d' hd' => hstep d' (by simp [hd'])) h2)

theorem saverStep_frame {env : Env} {p t st st'} (h : saverStep env p t st = .ok st') :
    st'.seen = st.seen ∧ st'.loaders = st.loaders ∧ st'.compute = st.compute := by
  unfold saverStep at h
  split at h
  · cases h; simp
  · split at h
    · cases h
    · split at h
      · cases h; simp
      · split at h
        · cases h; simp
        · split at h
          · cases h
          · cases h; simp

/-- the three ways `checkCache` can return normally -/
theorem checkCache_ok {env : Env} {fuel t st st'} (h : checkCache env (fuel + 1) t st = .ok st') :
    (t ∈ st.seen ∧ st' = st) ∨
    (t ∉ st.seen ∧ ∃ p i, pluginFor env.g t = some p ∧ loaderFor env t = some i ∧
        st' = { st with seen := t :: st.seen, loaders := st.loaders ++ [(t, i)] }) ∨
    (t ∉ st.seen ∧ ∃ p pol st3, pluginFor env.g t = some p ∧ loaderFor env t = none ∧ p.policy t = some pol ∧
        ¬ (env.mods.timeRange = true ∧ pol.toNat > SaveWhen.explicit.toNat) ∧
        starForbids env t = false ∧ env.opts.forbid.contains t = false ∧
        foldDeps (checkCache env fuel) p.dependsOn
          { st with seen := t :: st.seen, compute := st.compute ++ [t] } = .ok st3 ∧
        saverStep env p t st3 = .ok st') := by
  unfold checkCache at h
  split at h
  · left; simp_all
  · right
    rename_i hseen
    have hns : t ∉ st.seen := by simpa using hseen
    split at h
    · cases h
    · rename_i p hp
      split at h
      · rename_i i hi
        left; cases h; exact ⟨hns, p, i, hp, hi, rfl⟩
      · rename_i hl
        right
        split at h
        · cases h
        · rename_i pol hpol
          split at h
          · cases h
          · rename_i hg1
            split at h
            · cases h
            · rename_i hg2
              split at h
              · cases h
              · rename_i hg3
                dsimp only at h
                split at h
                · cases h
                · rename_i st3 hf
                  refine ⟨hns, p, pol, st3, hp, hl, hpol, ?_, ?_, ?_, hf, h⟩
                  · simpa using hg1
                  · simpa using hg2
                  · simpa using hg3


/-! ### small facts -/

theorem pluginFor_provides {g : Graph} {t p} (h : pluginFor g t = some p) : t ∈ p.provides := by
  unfold pluginFor at h
  have := List.find?_some h
  simpa using this

theorem hasSaver_iff (sv : Savers) (d : String) : hasSaver sv d = true ↔ d ∈ sv.map (·.1) := by
  unfold hasSaver
  simp only [List.any_eq_true, beq_iff_eq, List.mem_map]

theorem loadable_of_loaderFor {env : Env} {t i} (h : loaderFor env t = some i) : loadable env t = true := by
  simp [loadable, h]

theorem not_loadable_of_loaderFor {env : Env} {t} (h : loaderFor env t = none) : loadable env t = false := by
  simp [loadable, h]

theorem single_output_eq {p : Plugin} {t d} (hm : p.multiOutput = false) (ht : t ∈ p.provides) (hd : d ∈ p.provides) :
    d = t := by
  unfold Plugin.multiOutput at hm
  have hl : p.provides.length ≤ 1 := by simpa using hm
  match hp : p.provides, ht, hd, hl with
  | [x], ht, hd, _ => simp at ht hd; rw [ht, hd]
  | _ :: _ :: _, _, _, hl => simp at hl

/-! ### the saver loop -/

/-- what the policy part of the saver loop requires of an output `d` of plugin `p` -/
def Saved (env : Env) (p : Plugin) (d : String) : Prop :=
  loadable env d = false ∧ shouldSaveFor env p d = .ok true ∧ writableFor env d ≠ []

/-- savers are well formed: the frontends of an entry are exactly the writable accepting ones, no duplicates -/
def SaversWF (env : Env) (sv : Savers) : Prop :=
  (∀ e ∈ sv, e.2 = writableFor env e.1 ∧ e.2 ≠ []) ∧ (sv.map (·.1)).Nodup

theorem addSaver_keys (env : Env) (sv : Savers) (d : String) (x : String) :
    x ∈ (addSaver env sv d).map (·.1) ↔ x ∈ sv.map (·.1) ∨ (x = d ∧ writableFor env d ≠ []) := by
  unfold addSaver
  split
  · rename_i h; simp [h]
  · rename_i w ws h; simp [h]

theorem addSaver_wf {env : Env} {sv : Savers} {d : String} (h : SaversWF env sv) (hd : d ∉ sv.map (·.1)) :
    SaversWF env (addSaver env sv d) := by
  unfold addSaver
  split
  · exact h
  · rename_i w ws hw
    refine ⟨?_, ?_⟩
    · intro e he
      simp only [List.mem_append, List.mem_singleton] at he
      rcases he with he | rfl
      · exact h.1 e he
      · simp [hw]
    · simp only [List.map_append, List.map_cons, List.map_nil]
      rw [List.nodup_append]
      refine ⟨h.2, by simp, ?_⟩
      intro a ha b hb
      simp at hb
      rintro rfl
      exact hd (hb ▸ ha)

theorem saverLoop_ok {env : Env} {p : Plugin} : ∀ (ds : List String) (sv sv' : Savers),
    saverLoop env p ds sv = .ok sv' →
      (∀ x, x ∈ sv'.map (·.1) ↔ x ∈ sv.map (·.1) ∨ (x ∈ ds ∧ Saved env p x)) ∧
      (SaversWF env sv → SaversWF env sv')
  | [], sv, sv', h => by
    simp only [saverLoop] at h; cases h; simp
  | d :: ds, sv, sv', h => by
    unfold saverLoop at h
    split at h
    · rename_i hl
      obtain ⟨h1, h2⟩ := saverLoop_ok ds sv sv' h
      refine ⟨fun x => ?_, h2⟩
      rw [h1 x]
      constructor
      · rintro (h | ⟨h, hs⟩)
        · exact .inl h
        · exact .inr ⟨by simp [h], hs⟩
      · rintro (h | ⟨h, hs⟩)
        · exact .inl h
        · simp only [List.mem_cons] at h
          rcases h with rfl | h
          · exact absurd hs.1 (by simp [hl])
          · exact .inr ⟨h, hs⟩
    · rename_i hl
      have hl' : loadable env d = false := by simpa using hl
      split at h
      · cases h
      · rename_i should hsh
        split at h
        · rename_i hskip
          split at h
          · obtain ⟨h1, h2⟩ := saverLoop_ok ds sv sv' h
            refine ⟨fun x => ?_, h2⟩
            rw [h1 x]
            constructor
            · rintro (h | ⟨h, hs⟩)
              · exact .inl h
              · exact .inr ⟨by simp [h], hs⟩
            · rintro (h | ⟨h, hs⟩)
              · exact .inl h
              · simp only [List.mem_cons] at h
                rcases h with rfl | h
                · simp only [Bool.or_eq_true, Bool.not_eq_eq_eq_not, Bool.not_true] at hskip
                  rcases hskip with hno | hhas
                  · have := hs.2.1; rw [hsh] at this; cases this; cases hno
                  · exact .inl ((hasSaver_iff sv _).1 hhas)
                · exact .inr ⟨h, hs⟩
          · cases h
        · rename_i hskip
          simp only [Bool.or_eq_true, Bool.not_eq_eq_eq_not, Bool.not_true, not_or, Bool.not_eq_false,
            Bool.not_eq_true] at hskip
          obtain ⟨hsh', hno⟩ := hskip
          have hno' : d ∉ sv.map (·.1) := fun hc => by
            have := (hasSaver_iff sv d).2 hc; rw [this] at hno; cases hno
          obtain ⟨h1, h2⟩ := saverLoop_ok ds (addSaver env sv d) sv' h
          refine ⟨fun x => ?_, fun hw => h2 (addSaver_wf hw hno')⟩
          rw [h1 x, addSaver_keys]
          subst hsh'
          constructor
          · rintro ((h | ⟨rfl, hw⟩) | ⟨h, hs⟩)
            · exact .inl h
            · exact .inr ⟨by simp, hl', hsh, hw⟩
            · exact .inr ⟨by simp [h], hs⟩
          · rintro (h | ⟨h, hs⟩)
            · exact .inl (.inl h)
            · simp only [List.mem_cons] at h
              rcases h with rfl | h
              · exact .inl (.inr ⟨rfl, hs.2.2⟩)
              · exact .inr ⟨h, hs⟩


/-! ### the saver step of one computed type -/

/-- output `d` gets a saver because the computed type `u` was scanned -/
def Just (env : Env) (u d : String) : Prop :=
  isTemp u = false ∧ ∃ p, pluginFor env.g u = some p ∧ d ∈ p.provides ∧ Saved env p d

/-- the first `_target_should_be_saved(target_i)` call did not raise -/
def NeverOk (env : Env) (p : Plugin) (t : String) : Prop :=
  isTemp t = false → ∃ b, shouldSaveFor env p t = .ok b

/-- none of the `_target_should_be_saved` calls made while scanning the computed type `t` raises: the one for
`t` itself and, when the saver loop is reached, the ones for the not stored outputs of its plugin -/
def SaveOk (env : Env) (p : Plugin) (t : String) : Prop :=
  isTemp t = true ∨ ∃ b, shouldSaveFor env p t = .ok b ∧
    ((b = false ∧ p.multiOutput = false) ∨ env.partialReq = true ∨
      ∀ d ∈ p.provides, loadable env d = false → ∃ b', shouldSaveFor env p d = .ok b')

theorem SaveOk.neverOk {env : Env} {p t} (h : SaveOk env p t) : NeverOk env p t := by
  intro ht
  rcases h with h | ⟨b, hb, _⟩
  · rw [ht] at h; cases h
  · exact ⟨b, hb⟩

theorem saverLoop_calls {env : Env} {p : Plugin} : ∀ (ds : List String) (sv sv' : Savers),
    saverLoop env p ds sv = .ok sv' → ∀ d ∈ ds, loadable env d = false → ∃ b, shouldSaveFor env p d = .ok b
  | [], _, _, _, d, hd, _ => by simp at hd
  | x :: ds, sv, sv', h, d, hd, hl => by
    unfold saverLoop at h
    simp only [List.mem_cons] at hd
    split at h
    · rename_i hx
      rcases hd with rfl | hd
      · rw [hl] at hx; cases hx
      · exact saverLoop_calls ds sv sv' h d hd hl
    · split at h
      · cases h
      · rename_i should hsh
        split at h
        · split at h
          · rcases hd with rfl | hd
            · exact ⟨should, hsh⟩
            · exact saverLoop_calls ds sv sv' h d hd hl
          · cases h
        · rcases hd with rfl | hd
          · exact ⟨should, hsh⟩
          · exact saverLoop_calls ds _ sv' h d hd hl

theorem saverStep_ok {env : Env} {p t st st'} (hp : pluginFor env.g t = some p)
    (h : saverStep env p t st = .ok st') :
    (env.partialReq = false → ∀ d, d ∈ st'.savers.map (·.1) ↔ d ∈ st.savers.map (·.1) ∨ Just env t d) ∧
    (env.partialReq = true → st'.savers = st.savers) ∧
    (SaversWF env st.savers → SaversWF env st'.savers) ∧
    SaveOk env p t ∧
    (∀ d ∈ st'.savers.map (·.1), d ∈ st.savers.map (·.1) ∨ d ∈ p.provides) := by
  have htp := pluginFor_provides hp
  unfold saverStep at h
  split at h
  · rename_i htemp
    cases h
    refine ⟨fun _ d => ?_, fun _ => rfl, id, .inl htemp, fun d hd => .inl hd⟩
    simp [Just, htemp]
  · rename_i htemp
    have htemp' : isTemp t = false := by simpa using htemp
    split at h
    · cases h
    · rename_i should hsh
      split at h
      · rename_i hret
        cases h
        simp only [Bool.and_eq_true, Bool.not_eq_eq_eq_not, Bool.not_true] at hret
        refine ⟨fun _ d => ?_, fun _ => rfl, id,
          .inr ⟨should, hsh, .inl ⟨by simpa using hret.1, by simpa using hret.2⟩⟩, fun d hd => .inl hd⟩
        constructor
        · exact .inl
        · rintro (h | ⟨_, p', hp', hd, hs⟩)
          · exact h
          · rw [hp] at hp'; cases hp'
            have := single_output_eq hret.2 htp hd
            subst this
            have := hs.2.1; rw [hsh] at this; cases this; cases hret.1
      · split at h
        · rename_i hpart
          cases h
          exact ⟨fun hc => by simp [hpart] at hc, fun _ => rfl, id, .inr ⟨should, hsh, .inr (.inl hpart)⟩,
            fun d hd => .inl hd⟩
        · rename_i hpart
          split at h
          · cases h
          · rename_i sv hloop
            cases h
            obtain ⟨h1, h2⟩ := saverLoop_ok _ _ _ hloop
            refine ⟨fun _ d => ?_, fun hc => by simp [hc] at hpart, h2,
              .inr ⟨should, hsh, .inr (.inr (saverLoop_calls _ _ _ hloop))⟩, fun d hd => ?_⟩
            rotate_left
            · rcases (h1 d).1 hd with h | ⟨h, _⟩
              · exact .inl h
              · exact .inr h
            simp only
            rw [h1 d]
            constructor
            · rintro (h | ⟨hd, hs⟩)
              · exact .inl h
              · exact .inr ⟨htemp', p, hp, hd, hs⟩
            · rintro (h | ⟨_, p', hp', hd, hs⟩)
              · exact .inl h
              · rw [hp] at hp'; cases hp'; exact .inr ⟨hd, hs⟩

/-! ### the step relation of the traversal -/

/-- every dependency of the (not loadable) type `u` has been visited -/
def ClosedAt (env : Env) (seen : List String) (u : String) : Prop :=
  loadable env u = false → ∀ p, pluginFor env.g u = some p → ∀ d ∈ p.dependsOn, d ∈ seen

/-- the checks a type passes before it is put on the compute list, and after its dependencies were scanned -/
def Good (env : Env) (u : String) : Prop :=
  ∃ p pol, pluginFor env.g u = some p ∧ p.policy u = some pol ∧
    starForbids env u = false ∧ env.opts.forbid.contains u = false ∧
    ¬ (env.mods.timeRange = true ∧ pol.toNat > SaveWhen.explicit.toNat) ∧ SaveOk env p u

structure Step (env : Env) (s s' : St) : Prop where
  seen_mono : ∀ u ∈ s.seen, u ∈ s'.seen
  closed : ∀ u ∈ s'.seen, u ∉ s.seen → ClosedAt env s'.seen u
  good : ∀ u ∈ s'.seen, u ∉ s.seen → loadable env u = false → Good env u
  savers : env.partialReq = false → ∀ d, d ∈ s'.savers.map (·.1) ↔
      d ∈ s.savers.map (·.1) ∨ ∃ u ∈ s'.seen, u ∉ s.seen ∧ loadable env u = false ∧ Just env u d
  savers_partial : env.partialReq = true → s'.savers = s.savers

theorem Step.refl (env : Env) (s : St) : Step env s s :=
  ⟨fun _ h => h, fun _ h hn => absurd h hn, fun _ h hn => absurd h hn,
   fun _ _ => ⟨.inl, fun h => h.elim id (fun ⟨_, hu, hn, _⟩ => absurd hu hn)⟩, fun _ => rfl⟩

theorem ClosedAt.mono {env : Env} {a b : List String} {u} (hab : ∀ x ∈ a, x ∈ b) (h : ClosedAt env a u) :
    ClosedAt env b u := fun hl p hp d hd => hab _ (h hl p hp d hd)

theorem Step.trans {env : Env} {a b c : St} (h1 : Step env a b) (h2 : Step env b c) : Step env a c where
  seen_mono u hu := h2.seen_mono u (h1.seen_mono u hu)
  closed u hu hn := by
    by_cases hb : u ∈ b.seen
    · exact (h1.closed u hb hn).mono h2.seen_mono
    · exact h2.closed u hu hb
  good u hu hn hl := by
    by_cases hb : u ∈ b.seen
    · exact h1.good u hb hn hl
    · exact h2.good u hu hb hl
  savers hp d := by
    rw [h2.savers hp d, h1.savers hp d]
    constructor
    · rintro ((h | ⟨u, hu, hn, hl, hj⟩) | ⟨u, hu, hn, hl, hj⟩)
      · exact .inl h
      · exact .inr ⟨u, h2.seen_mono u hu, hn, hl, hj⟩
      · exact .inr ⟨u, hu, fun hc => hn (h1.seen_mono u hc), hl, hj⟩
    · rintro (h | ⟨u, hu, hn, hl, hj⟩)
      · exact .inl (.inl h)
      · by_cases hb : u ∈ b.seen
        · exact .inl (.inr ⟨u, hb, hn, hl, hj⟩)
        · exact .inr ⟨u, hu, hb, hl, hj⟩
  savers_partial hp := by rw [h2.savers_partial hp, h1.savers_partial hp]

theorem foldDeps_step {env : Env} {f : String → St → Except Err St} {ds : List String} {st st' : St}
    (hf : ∀ d ∈ ds, ∀ s s', f d s = .ok s' → Step env s s' ∧ d ∈ s'.seen)
    (h : foldDeps f ds st = .ok st') : Step env st st' ∧ ∀ d ∈ ds, d ∈ st'.seen := by
  induction ds generalizing st with
  | nil => simp only [foldDeps] at h; cases h; exact ⟨Step.refl _ _, by simp⟩
  | cons d ds ih =>
    obtain ⟨s1, h1, h2⟩ := foldDeps_cons_ok h
    obtain ⟨hs1, hd1⟩ := hf d (by simp) _ _ h1
    obtain ⟨hs2, hd2⟩ := ih (fun d' hd' => hf d' (by simp [hd'])) h2
    refine ⟨hs1.trans hs2, fun x hx => ?_⟩
    simp only [List.mem_cons] at hx
    rcases hx with rfl | hx
    · exact hs2.seen_mono _ hd1
    · exact hd2 x hx

theorem checkCache_step {env : Env} : ∀ (fuel : Nat) (t : String) (st st' : St),
    checkCache env fuel t st = .ok st' → Step env st st' ∧ t ∈ st'.seen
  | 0, t, st, st', h => by simp [checkCache] at h
  | fuel + 1, t, st, st', h => by
    rcases checkCache_ok h with ⟨hs, rfl⟩ | ⟨hns, p, i, hp, hl, rfl⟩ | ⟨hns, p, pol, st3, hp, hl, hpol, hg1, hg2, hg3, hf, hsv⟩
    · exact ⟨Step.refl _ _, hs⟩
    · have hld := loadable_of_loaderFor hl
      refine ⟨⟨fun u hu => by simp [hu], ?_, ?_, fun _ d => ?_, fun _ => rfl⟩, by simp⟩
      · intro u hu hn
        simp only [List.mem_cons] at hu
        rcases hu with rfl | hu
        · intro hc; rw [hld] at hc; cases hc
        · exact absurd hu hn
      · intro u hu hn hc
        simp only [List.mem_cons] at hu
        rcases hu with rfl | hu
        · rw [hld] at hc; cases hc
        · exact absurd hu hn
      · constructor
        · exact .inl
        · rintro (h | ⟨u, hu, hn, hc, _⟩)
          · exact h
          · simp only [List.mem_cons] at hu
            rcases hu with rfl | hu
            · rw [hld] at hc; cases hc
            · exact absurd hu hn
    · have hnl := not_loadable_of_loaderFor hl
      obtain ⟨hstep, hdeps⟩ := foldDeps_step (fun d _ s s' hd => checkCache_step fuel d s s' hd) hf
      obtain ⟨hfs, hfl, hfc⟩ := saverStep_frame hsv
      obtain ⟨hsav, hsavp, _, hnev, _⟩ := saverStep_ok hp hsv
      have hgood : Good env t := ⟨p, pol, hp, hpol, hg2, hg3, hg1, hnev⟩
      have ht3 : t ∈ st3.seen := hstep.seen_mono t (by simp)
      refine ⟨⟨fun u hu => ?_, ?_, ?_, fun hpart d => ?_, fun hpart => ?_⟩, by rw [hfs]; exact ht3⟩
      · rw [hfs]; exact hstep.seen_mono u (by simp [hu])
      · intro u hu hn
        rw [hfs] at hu ⊢
        by_cases hut : u = t
        · subst hut
          intro _ p' hp' d hd
          rw [hp] at hp'; cases hp'
          exact hdeps d hd
        · exact hstep.closed u hu (by simp [hut, hn])
      · intro u hu hn hc
        rw [hfs] at hu
        by_cases hut : u = t
        · subst hut; exact hgood
        · exact hstep.good u hu (by simp [hut, hn]) hc
      · rw [hsav hpart d, hstep.savers hpart d, hfs]
        constructor
        · rintro ((h | ⟨u, hu, hn, hc, hj⟩) | hj)
          · exact .inl h
          · simp only [List.mem_cons, not_or] at hn
            exact .inr ⟨u, hu, hn.2, hc, hj⟩
          · exact .inr ⟨t, ht3, hns, hnl, hj⟩
        · rintro (h | ⟨u, hu, hn, hc, hj⟩)
          · exact .inl (.inl h)
          · by_cases hut : u = t
            · subst hut; exact .inr hj
            · exact .inl (.inr ⟨u, hu, by simp [hut, hn], hc, hj⟩)
      · rw [hsavp hpart, hstep.savers_partial hpart]


/-! ### state invariant -/

structure Inv (env : Env) (s : St) : Prop where
  reach : ∀ u ∈ s.seen, Reach env u
  comp : ∀ u, u ∈ s.compute ↔ (u ∈ s.seen ∧ loadable env u = false)
  load : ∀ u i, (u, i) ∈ s.loaders ↔ (u ∈ s.seen ∧ loaderFor env u = some i)
  comp_nodup : s.compute.Nodup
  load_nodup : (s.loaders.map (·.1)).Nodup
  sav : SaversWF env s.savers
  sav_seen : ∀ d ∈ s.savers.map (·.1), ∃ u ∈ s.seen, ∃ p, pluginFor env.g u = some p ∧ d ∈ p.provides

theorem Inv.init (env : Env) : Inv env {} :=
  ⟨by simp, by simp, by simp, by simp, by simp, ⟨by simp, by simp⟩, by simp⟩

theorem checkCache_inv {env : Env} : ∀ (fuel : Nat) (t : String) (st st' : St),
    checkCache env fuel t st = .ok st' → Reach env t → Inv env st → Inv env st'
  | 0, t, st, st', h, _, _ => by simp [checkCache] at h
  | fuel + 1, t, st, st', h, hr, hi => by
    rcases checkCache_ok h with ⟨_, rfl⟩ | ⟨hns, p, i, hp, hl, rfl⟩ | ⟨hns, p, pol, st3, hp, hl, hpol, hg1, hg2, hg3, hf, hsv⟩
    · exact hi
    · have hld := loadable_of_loaderFor hl
      have htc : t ∉ st.compute := fun hc => hns ((hi.comp t).1 hc).1
      refine ⟨?_, fun u => ?_, fun u j => ?_, hi.comp_nodup, ?_, hi.sav, fun d hd => ?_⟩
      rotate_right
      · obtain ⟨u, hu, hrest⟩ := hi.sav_seen d hd
        exact ⟨u, by simp [hu], hrest⟩
      · intro u hu
        simp only [List.mem_cons] at hu
        rcases hu with rfl | hu
        · exact hr
        · exact hi.reach u hu
      · simp only [List.mem_cons]
        rw [hi.comp u]
        constructor
        · rintro ⟨h1, h2⟩; exact ⟨.inr h1, h2⟩
        · rintro ⟨rfl | h1, h2⟩
          · rw [hld] at h2; cases h2
          · exact ⟨h1, h2⟩
      · simp only [List.mem_append, List.mem_cons, Prod.mk.injEq, List.not_mem_nil, or_false]
        rw [hi.load u j]
        constructor
        · rintro (⟨h1, h2⟩ | ⟨rfl, rfl⟩)
          · exact ⟨.inr h1, h2⟩
          · exact ⟨.inl rfl, hl⟩
        · rintro ⟨rfl | h1, h2⟩
          · rw [hl] at h2; cases h2; exact .inr ⟨rfl, rfl⟩
          · exact .inl ⟨h1, h2⟩
      · simp only [List.map_append, List.map_cons, List.map_nil]
        rw [List.nodup_append]
        refine ⟨hi.load_nodup, by simp, ?_⟩
        intro a ha b hb
        simp only [List.mem_singleton] at hb
        rintro rfl
        subst hb
        simp only [List.mem_map] at ha
        obtain ⟨⟨u, j⟩, he, rfl⟩ := ha
        exact hns ((hi.load u j).1 he).1
    · have hnl := not_loadable_of_loaderFor hl
      have htc : t ∉ st.compute := fun hc => hns ((hi.comp t).1 hc).1
      have hi2 : Inv env { st with seen := t :: st.seen, compute := st.compute ++ [t] } := by
        refine ⟨?_, fun u => ?_, fun u j => ?_, ?_, hi.load_nodup, hi.sav, fun d hd => ?_⟩
        rotate_right
        · obtain ⟨u, hu, hrest⟩ := hi.sav_seen d hd
          exact ⟨u, by simp [hu], hrest⟩
        · intro u hu
          simp only [List.mem_cons] at hu
          rcases hu with rfl | hu
          · exact hr
          · exact hi.reach u hu
        · simp only [List.mem_append, List.mem_cons, List.not_mem_nil, or_false]
          rw [hi.comp u]
          constructor
          · rintro (⟨h1, h2⟩ | rfl)
            · exact ⟨.inr h1, h2⟩
            · exact ⟨.inl rfl, hnl⟩
          · rintro ⟨rfl | h1, h2⟩
            · exact .inr rfl
            · exact .inl ⟨h1, h2⟩
        · simp only [List.mem_cons]
          rw [hi.load u j]
          constructor
          · rintro ⟨h1, h2⟩; exact ⟨.inr h1, h2⟩
          · rintro ⟨rfl | h1, h2⟩
            · rw [hl] at h2; cases h2
            · exact ⟨h1, h2⟩
        · rw [List.nodup_append]
          refine ⟨hi.comp_nodup, by simp, ?_⟩
          intro a ha b hb
          simp only [List.mem_singleton] at hb
          rintro rfl
          subst hb
          exact htc ha
      have hi3 : Inv env st3 :=
        foldDeps_rel (R := fun s s' => Inv env s → Inv env s') (fun _ h => h) (fun _ _ _ h1 h2 h => h2 (h1 h))
          p.dependsOn _ _
          (fun d hd s s' hc => checkCache_inv fuel d s s' hc (Reach.dep hr hnl hp hd)) hf hi2
      obtain ⟨hfs, hfl, hfc⟩ := saverStep_frame hsv
      obtain ⟨_, _, hwf, _, hkeys⟩ := saverStep_ok hp hsv
      have ht3 : t ∈ st3.seen :=
        (foldDeps_step (fun d _ s s' hd => checkCache_step fuel d s s' hd) hf).1.seen_mono t (by simp)
      refine ⟨by rw [hfs]; exact hi3.reach, by rw [hfs, hfc]; exact hi3.comp, by rw [hfs, hfl]; exact hi3.load,
        by rw [hfc]; exact hi3.comp_nodup, by rw [hfl]; exact hi3.load_nodup, hwf hi3.sav, fun d hd => ?_⟩
      rw [hfs]
      rcases hkeys d hd with h | h
      · exact hi3.sav_seen d h
      · exact ⟨t, ht3, p, hp, h⟩

/-! ### the whole function -/

theorem getComponents_ok {env : Env} {c : Components} (h : getComponents env = .ok c) :
    ∃ st, foldDeps (checkCache env (fuelFor env.g)) env.targets {} = .ok st ∧
      c.loaders = st.loaders ∧ c.plugins = st.compute ∧ c.savers = st.savers := by
  unfold getComponents at h
  split at h
  · cases h
  · split at h
    · cases h
    · split at h
      · cases h
      · rename_i st hst
        unfold finish at h
        split at h
        · cases h
        · cases h
          exact ⟨st, hst, rfl, rfl, rfl⟩

/-- everything the theorems need to know about a successful `getComponents` -/
theorem getComponents_spec {env : Env} {c : Components} (h : getComponents env = .ok c) :
    ∃ st, c.loaders = st.loaders ∧ c.plugins = st.compute ∧ c.savers = st.savers ∧
      Inv env st ∧ Step env {} st ∧ (∀ u, u ∈ st.seen ↔ Reach env u) := by
  obtain ⟨st, hst, hl, hp, hs⟩ := getComponents_ok h
  obtain ⟨hstep, htg⟩ := foldDeps_step (fun d _ s s' hd => checkCache_step _ d s s' hd) hst
  have hinv : Inv env st :=
    foldDeps_rel (R := fun s s' => Inv env s → Inv env s') (fun _ h => h) (fun _ _ _ h1 h2 h => h2 (h1 h))
      env.targets _ _ (fun d hd s s' hc => checkCache_inv _ d s s' hc (Reach.target hd)) hst (Inv.init env)
  refine ⟨st, hl, hp, hs, hinv, hstep, fun u => ⟨hinv.reach u, fun hr => ?_⟩⟩
  induction hr with
  | target ht => exact htg _ ht
  | dep _ hnl hp hd ih => exact hstep.closed _ ih (by simp) hnl _ hp _ hd


/-! ### the recursion bound is never hit on topologically ordered graphs -/

/-- position of the plugin registered for `t` -/
def rank (g : Graph) (t : String) : Nat := g.findIdx (fun p => p.provides.contains t)

theorem rank_lt_length {g : Graph} {t p} (h : pluginFor g t = some p) : rank g t < g.length := by
  unfold pluginFor at h
  unfold rank
  have h1 := List.find?_some h
  exact List.findIdx_lt_length_of_exists ⟨p, List.mem_of_find?_eq_some h, h1⟩

theorem topo_rank_aux : ∀ (g : Graph) (earlier : List String), topoOrderedFrom earlier g = true →
    ∀ t p d, pluginFor g t = some p → d ∈ p.dependsOn → d ∈ earlier ∨ rank g d < rank g t
  | [], _, _, t, p, d, hp, _ => by simp [pluginFor] at hp
  | q :: rest, earlier, h, t, p, d, hp, hd => by
    simp only [topoOrderedFrom, Bool.and_eq_true, List.all_eq_true] at h
    obtain ⟨hq, hrest⟩ := h
    unfold pluginFor at hp
    rw [List.find?_cons] at hp
    cases hqt : q.provides.contains t with
    | true =>
      rw [hqt] at hp
      cases hp
      left
      simpa using hq d hd
    | false =>
      rw [hqt] at hp
      have ih := topo_rank_aux rest (earlier ++ q.provides) hrest t p d hp hd
      have hrt : rank (q :: rest) t = rank rest t + 1 := by
        simp only [rank, List.findIdx_cons, hqt, cond_false]
      rcases ih with hmem | hlt
      · simp only [List.mem_append] at hmem
        rcases hmem with h1 | h2
        · exact .inl h1
        · right
          have h2' : q.provides.contains d = true := by simpa using h2
          have : rank (q :: rest) d = 0 := by simp only [rank, List.findIdx_cons, h2', cond_true]
          omega
      · right
        have : rank (q :: rest) d ≤ rank rest d + 1 := by
          simp only [rank, List.findIdx_cons]
          cases q.provides.contains d <;> simp
        omega

theorem topo_rank {g : Graph} (h : topoOrdered g = true) {t p d} (hp : pluginFor g t = some p)
    (hd : d ∈ p.dependsOn) : rank g d < rank g t := by
  rcases topo_rank_aux g [] h t p d hp hd with h | h
  · simp at h
  · exact h

theorem shouldSaveFor_err {env : Env} {p d e} (h : shouldSaveFor env p d = .error e) :
    e = .keyError ∨ e = .valueError := by
  unfold shouldSaveFor at h
  split at h
  · cases h; exact .inl rfl
  · unfold shouldSave at h
    split at h
    · split at h
      · cases h; exact .inr rfl
      · cases h
    all_goals cases h

theorem saverLoop_err {env : Env} {p : Plugin} {e} : ∀ (ds : List String) (sv : Savers),
    saverLoop env p ds sv = .error e → e ≠ .runtimeError
  | [], sv, h => by simp [saverLoop] at h
  | d :: ds, sv, h => by
    unfold saverLoop at h
    split at h
    · exact saverLoop_err ds sv h
    · split at h
      · rename_i e' he
        cases h
        rcases shouldSaveFor_err he with rfl | rfl <;> simp
      · split at h
        · split at h
          · exact saverLoop_err ds sv h
          · cases h; simp
        · exact saverLoop_err ds _ h

theorem saverStep_err {env : Env} {p t st e} (h : saverStep env p t st = .error e) : e ≠ .runtimeError := by
  unfold saverStep at h
  split at h
  · cases h
  · split at h
    · rename_i e' he
      cases h
      rcases shouldSaveFor_err he with rfl | rfl <;> simp
    · split at h
      · cases h
      · split at h
        · cases h
        · split at h
          · rename_i e' he
            cases h
            exact saverLoop_err _ _ he
          · cases h

theorem foldDeps_err {f : String → St → Except Err St} {e} : ∀ (ds : List String) (st : St),
    foldDeps f ds st = .error e → ∃ d ∈ ds, ∃ s, f d s = .error e
  | [], st, h => by simp [foldDeps] at h
  | d :: ds, st, h => by
    unfold foldDeps at h
    split at h
    · rename_i e' he
      cases h
      exact ⟨d, by simp, st, he⟩
    · obtain ⟨d', hd', s, hs⟩ := foldDeps_err ds _ h
      exact ⟨d', by simp [hd'], s, hs⟩

theorem resolveAll_err {f : String → Except Err Unit} {e} : ∀ (ds : List String),
    resolveAll f ds = .error e → ∃ d ∈ ds, f d = .error e
  | [], h => by simp [resolveAll] at h
  | d :: ds, h => by
    unfold resolveAll at h
    split at h
    · rename_i e' he
      cases h
      exact ⟨d, by simp, he⟩
    · obtain ⟨d', hd', hs⟩ := resolveAll_err ds h
      exact ⟨d', by simp [hd'], hs⟩

theorem checkCache_no_rt {env : Env} (htopo : topoOrdered env.g = true) : ∀ (fuel : Nat) (t : String) (st : St),
    0 < fuel → (∀ p, pluginFor env.g t = some p → rank env.g t < fuel) →
    checkCache env fuel t st ≠ .error .runtimeError
  | 0, _, _, h0, _ => by omega
  | fuel + 1, t, st, _, hrk => by
    intro h
    unfold checkCache at h
    split at h
    · cases h
    · split at h
      · cases h
      · rename_i p hp
        split at h
        · cases h
        · split at h
          · cases h
          · split at h
            · cases h
            · split at h
              · cases h
              · split at h
                · cases h
                · dsimp only at h
                  split at h
                  · rename_i e he
                    cases h
                    obtain ⟨d, hd, s, hs⟩ := foldDeps_err _ _ he
                    have hlt := topo_rank htopo hp hd
                    have hr := hrk p hp
                    exact checkCache_no_rt htopo fuel d s (by omega)
                      (fun _ _ => by omega) hs
                  · rename_i st3 _
                    exact saverStep_err h rfl

theorem resolve_no_rt {g : Graph} (htopo : topoOrdered g = true) : ∀ (fuel : Nat) (t : String),
    0 < fuel → (∀ p, pluginFor g t = some p → rank g t < fuel) → resolve g fuel t ≠ .error .runtimeError
  | 0, _, h0, _ => by omega
  | fuel + 1, t, _, hrk => by
    intro h
    unfold resolve at h
    split at h
    · cases h
    · rename_i p hp
      obtain ⟨d, hd, hs⟩ := resolveAll_err _ h
      have hlt := topo_rank htopo hp hd
      have hr := hrk p hp
      exact resolve_no_rt htopo fuel d (by omega) (fun _ _ => by omega) hs

theorem finish_no_rt {env : Env} {st : St} (hi : Inv env st) : finish env st ≠ .error .runtimeError := by
  intro h
  unfold finish at h
  split at h
  · rename_i hany
    simp only [List.any_eq_true, beq_iff_eq] at hany
    obtain ⟨t, ht, ⟨u, i⟩, hl, rfl⟩ := hany
    have h1 := ((hi.comp u).1 ht).2
    have h2 := ((hi.load u i).1 hl).2
    rw [loadable_of_loaderFor h2] at h1; cases h1
  · cases h

theorem getComponents_no_rt {env : Env} (htopo : topoOrdered env.g = true) :
    getComponents env ≠ .error .runtimeError := by
  intro h
  have hfuel : ∀ t p, pluginFor env.g t = some p → rank env.g t < fuelFor env.g := fun t p hp => by
    have := rank_lt_length hp; unfold fuelFor; omega
  unfold getComponents at h
  split at h
  · cases h
  · split at h
    · rename_i e he
      cases h
      obtain ⟨d, _, hs⟩ := resolveAll_err _ he
      exact resolve_no_rt htopo _ d (by unfold fuelFor; omega) (hfuel d) hs
    · split at h
      · rename_i e he
        cases h
        obtain ⟨d, _, s, hs⟩ := foldDeps_err _ _ he
        exact checkCache_no_rt htopo _ d s (by unfold fuelFor; omega) (hfuel d) hs
      · rename_i st hst
        have hinv : Inv env st :=
          foldDeps_rel (R := fun s s' => Inv env s → Inv env s') (fun _ h => h) (fun _ _ _ h1 h2 h => h2 (h1 h))
            env.targets _ _ (fun d hd s s' hc => checkCache_inv _ d s s' hc (Reach.target hd)) hst (Inv.init env)
        exact finish_no_rt hinv h

/-! ### totality: when the traversal succeeds -/

theorem policy_of_provides {p : Plugin} {t : String} (h : t ∈ p.provides) : ∃ pol, p.policy t = some pol := by
  unfold Plugin.provides at h
  unfold Plugin.policy
  simp only [List.mem_map] at h
  obtain ⟨o, ho, rfl⟩ := h
  cases hf : p.outputs.find? (fun o' => o'.1 == o.1) with
  | none =>
    have := List.find?_eq_none.1 hf o ho
    simp at this
  | some x => exact ⟨x.2, rfl⟩

/-- with unique providers, the plugin registered for any output of the plugin registered for `u` is that plugin -/
theorem uniq_provider : ∀ (g : Graph), (allTypes g).Nodup → ∀ {u t : String} {p' : Plugin},
    pluginFor g u = some p' → t ∈ p'.provides → pluginFor g t = some p'
  | [], _, u, t, p', h, _ => by simp [pluginFor] at h
  | q :: rest, hnd, u, t, p', h, ht => by
    unfold allTypes at hnd
    simp only [List.flatMap_cons] at hnd
    rw [List.nodup_append] at hnd
    obtain ⟨_, hrest, hdisj⟩ := hnd
    unfold pluginFor at h ⊢
    rw [List.find?_cons] at h ⊢
    cases hqu : q.provides.contains u with
    | true =>
      rw [hqu] at h
      cases h
      have : q.provides.contains t = true := by simpa using ht
      rw [this]
    | false =>
      rw [hqu] at h
      have hmem : p' ∈ rest := List.mem_of_find?_eq_some h
      cases hqt : q.provides.contains t with
      | true =>
        exfalso
        have h1 : t ∈ q.provides := by simpa using hqt
        have h2 : t ∈ rest.flatMap (·.provides) := List.mem_flatMap.2 ⟨p', hmem, ht⟩
        exact hdisj t h1 t h2 rfl
      | false =>
        have := uniq_provider rest hrest (u := u) (t := t) (p' := p') (by unfold pluginFor; exact h) ht
        unfold pluginFor at this
        exact this

/-- `_get_plugins` finds a provider for `t` and for everything below it -/
def Res (g : Graph) (t : String) : Prop := ∃ fuel, resolve g fuel t = .ok ()

theorem resolveAll_ok_mem {f : String → Except Err Unit} : ∀ (ds : List String), resolveAll f ds = .ok () →
    ∀ d ∈ ds, f d = .ok ()
  | [], _, d, hd => by simp at hd
  | x :: ds, h, d, hd => by
    unfold resolveAll at h
    split at h
    · cases h
    · rename_i hx
      simp only [List.mem_cons] at hd
      rcases hd with rfl | hd
      · exact hx
      · exact resolveAll_ok_mem ds h d hd

theorem res_plugin {g : Graph} {t : String} (h : Res g t) : ∃ p, pluginFor g t = some p := by
  obtain ⟨fuel, hf⟩ := h
  cases fuel with
  | zero => simp [resolve] at hf
  | succ n =>
    unfold resolve at hf
    split at hf
    · cases hf
    · rename_i p hp; exact ⟨p, hp⟩

theorem res_dep {g : Graph} {t d : String} {p : Plugin} (h : Res g t) (hp : pluginFor g t = some p)
    (hd : d ∈ p.dependsOn) : Res g d := by
  obtain ⟨fuel, hf⟩ := h
  cases fuel with
  | zero => simp [resolve] at hf
  | succ n =>
    unfold resolve at hf
    rw [hp] at hf
    exact ⟨n, resolveAll_ok_mem _ hf d hd⟩

theorem reach_res {env : Env} {fuel : Nat} (hres : resolveAll (resolve env.g fuel) env.targets = .ok ()) {t : String}
    (hr : Reach env t) : Res env.g t := by
  induction hr with
  | target ht => exact ⟨fuel, resolveAll_ok_mem _ hres _ ht⟩
  | dep _ _ hp hd ih => exact res_dep ih hp hd

theorem foldDeps_total {f : String → St → Except Err St} {P : St → Prop} : ∀ (ds : List String) (st : St), P st →
    (∀ d ∈ ds, ∀ s, P s → ∃ s', f d s = .ok s' ∧ P s') → ∃ st', foldDeps f ds st = .ok st' ∧ P st'
  | [], st, hP, _ => ⟨st, rfl, hP⟩
  | d :: ds, st, hP, hstep => by
    obtain ⟨s1, h1, hP1⟩ := hstep d (by simp) st hP
    obtain ⟨st', h2, hP2⟩ := foldDeps_total ds s1 hP1 (fun d' hd' => hstep d' (by simp [hd']))
    exact ⟨st', by unfold foldDeps; rw [h1]; exact h2, hP2⟩

theorem saverLoop_total_multi {env : Env} {p : Plugin} (hm : p.multiOutput = true) : ∀ (ds : List String) (sv : Savers),
    (∀ d ∈ ds, loadable env d = false → ∃ b, shouldSaveFor env p d = .ok b) → ∃ sv', saverLoop env p ds sv = .ok sv'
  | [], sv, _ => ⟨sv, rfl⟩
  | d :: ds, sv, h => by
    have ih := fun sv => saverLoop_total_multi hm ds sv (fun d' hd' => h d' (by simp [hd']))
    unfold saverLoop
    split
    · exact ih sv
    · rename_i hl
      obtain ⟨b, hb⟩ := h d (by simp) (by simpa using hl)
      rw [hb]
      dsimp only
      split
      · exact ih sv
      · exact ih _

theorem saverStep_total {env : Env} {p : Plugin} {t : String} {st : St} (ht : t ∈ p.provides) (hok : SaveOk env p t)
    (hsingle : p.multiOutput = false → env.partialReq = false → hasSaver st.savers t = false) :
    ∃ st', saverStep env p t st = .ok st' := by
  unfold saverStep
  split
  · exact ⟨st, rfl⟩
  · rename_i htemp
    rcases hok with h | ⟨b, hb, hrest⟩
    · exact absurd h htemp
    · rw [hb]
      dsimp only
      split
      · exact ⟨st, rfl⟩
      · rename_i hcont
        split
        · exact ⟨st, rfl⟩
        · rename_i hpart
          have hpart' : env.partialReq = false := by simpa using hpart
          rcases hrest with ⟨hb0, hm0⟩ | hp1 | hall
          · simp [hb0, hm0] at hcont
          · rw [hp1] at hpart'; cases hpart'
          · cases hm : p.multiOutput with
            | true =>
              obtain ⟨sv', hsv⟩ := saverLoop_total_multi hm p.provides st.savers hall
              rw [hsv]; exact ⟨_, rfl⟩
            | false =>
              -- single output: provides = [t], the call for t said "save", and t has no saver yet
              have hb1 : b = true := by
                cases b with
                | true => rfl
                | false => simp [hm] at hcont
              subst hb1
              have hlen : p.provides.length ≤ 1 := by
                unfold Plugin.multiOutput at hm; simpa using hm
              have hprov : p.provides = [t] := by
                match hp : p.provides, ht, hlen with
                | [x], ht, _ => simp at ht; rw [ht]
                | _ :: _ :: _, _, hl => simp at hl
              have hloop : ∃ sv, saverLoop env p [t] st.savers = .ok sv := by
                unfold saverLoop
                split
                · exact ⟨st.savers, by simp only [saverLoop]⟩
                · rw [hb]
                  simp only [hsingle hm hpart', Bool.not_true, Bool.or_self, Bool.false_eq_true, if_false, saverLoop]
                  exact ⟨_, rfl⟩
              obtain ⟨sv, hsv⟩ := hloop
              rw [hprov, hsv]
              exact ⟨_, rfl⟩

theorem finish_err {env : Env} {st : St} {e : Err} (h : finish env st = .error e) : e = .runtimeError := by
  unfold finish at h
  split at h
  · cases h; rfl
  · cases h

/-- Progress: on a topologically ordered graph with unique providers, a needed type whose whole dependency
closure is registered is scanned successfully whenever every needed, not loadable type passes the creation and
saving checks (`Good`). -/
theorem checkCache_total {env : Env} (htopo : topoOrdered env.g = true) (huniq : (allTypes env.g).Nodup)
    (hgood : ∀ u, Reach env u → loadable env u = false → Good env u) : ∀ (fuel : Nat) (t : String) (st : St),
    rank env.g t < fuel → Reach env t → Res env.g t → Inv env st →
    ∃ st', checkCache env fuel t st = .ok st' ∧ Inv env st'
  | 0, _, _, h0, _, _, _ => by omega
  | fuel + 1, t, st, hrk, hr, hres, hi => by
    cases hcc : checkCache env (fuel + 1) t st with
    | ok st' => exact ⟨st', rfl, checkCache_inv _ _ _ _ hcc hr hi⟩
    | error e =>
      exfalso
      obtain ⟨p0, hp0⟩ := res_plugin hres
      unfold checkCache at hcc
      split at hcc
      · cases hcc
      · rename_i hseen
        have hns : t ∉ st.seen := by simpa using hseen
        split at hcc
        · rename_i hnone; rw [hp0] at hnone; cases hnone
        · rename_i p hp
          split at hcc
          · cases hcc
          · rename_i hl
            have hnl := not_loadable_of_loaderFor hl
            obtain ⟨p', pol', hp', hpol', hg2, hg3, hg1, hsave⟩ := hgood t hr hnl
            rw [hp] at hp'; cases hp'
            split at hcc
            · rename_i hpn; rw [hpol'] at hpn; cases hpn
            · rename_i pol hpol
              rw [hpol'] at hpol; cases hpol
              split at hcc
              · rename_i hc; simp only [Bool.and_eq_true, decide_eq_true_eq] at hc; exact hg1 hc
              · split at hcc
                · rename_i hc; rw [hg2] at hc; cases hc
                · split at hcc
                  · rename_i hc; rw [hg3] at hc; cases hc
                  · dsimp only at hcc
                    -- the state handed to the recursion satisfies the invariant
                    have htc : t ∉ st.compute := fun hc => hns ((hi.comp t).1 hc).1
                    have hi2 : Inv env { st with seen := t :: st.seen, compute := st.compute ++ [t] } := by
                      refine ⟨?_, fun u => ?_, fun u j => ?_, ?_, hi.load_nodup, hi.sav, fun d hd => ?_⟩
                      · intro u hu
                        simp only [List.mem_cons] at hu
                        rcases hu with rfl | hu
                        · exact hr
                        · exact hi.reach u hu
                      · simp only [List.mem_append, List.mem_cons, List.not_mem_nil, or_false]
                        rw [hi.comp u]
                        constructor
                        · rintro (⟨h1, h2⟩ | rfl)
                          · exact ⟨.inr h1, h2⟩
                          · exact ⟨.inl rfl, hnl⟩
                        · rintro ⟨rfl | h1, h2⟩
                          · exact .inr rfl
                          · exact .inl ⟨h1, h2⟩
                      · simp only [List.mem_cons]
                        rw [hi.load u j]
                        constructor
                        · rintro ⟨h1, h2⟩; exact ⟨.inr h1, h2⟩
                        · rintro ⟨rfl | h1, h2⟩
                          · rw [hl] at h2; cases h2
                          · exact ⟨h1, h2⟩
                      · rw [List.nodup_append]
                        refine ⟨hi.comp_nodup, by simp, ?_⟩
                        intro a ha b hb
                        simp only [List.mem_singleton] at hb
                        rintro rfl
                        subst hb
                        exact htc ha
                      · obtain ⟨u, hu, hrest⟩ := hi.sav_seen d hd
                        exact ⟨u, by simp [hu], hrest⟩
                    obtain ⟨st3, hf, hi3⟩ := foldDeps_total (P := Inv env) p.dependsOn _ hi2 (fun d hd s hs =>
                      checkCache_total htopo huniq hgood fuel d s (by have := topo_rank htopo hp hd; omega)
                        (Reach.dep hr hnl hp hd) (res_dep hres hp hd) hs)
                    rw [hf] at hcc
                    dsimp only at hcc
                    obtain ⟨hstep, _⟩ := foldDeps_step (fun d _ s s' hd => checkCache_step fuel d s s' hd) hf
                    have htp := pluginFor_provides hp
                    obtain ⟨st', hst'⟩ := saverStep_total (st := st3) htp hsave (by
                      intro hm hpart
                      cases hhas : hasSaver st3.savers t with
                      | false => rfl
                      | true =>
                        exfalso
                        have hk := (hasSaver_iff _ _).1 hhas
                        rcases (hstep.savers hpart t).1 hk with hold | ⟨u, hu, hnu, _, _, p', hp', hd', _⟩
                        · obtain ⟨u, hu, p', hp', hd'⟩ := hi.sav_seen t hold
                          have h1 := uniq_provider env.g huniq hp' hd'
                          rw [hp] at h1; cases h1
                          have := single_output_eq hm htp (pluginFor_provides hp')
                          subst this
                          exact hns hu
                        · have h1 := uniq_provider env.g huniq hp' hd'
                          rw [hp] at h1; cases h1
                          have := single_output_eq hm htp (pluginFor_provides hp')
                          subst this
                          exact hnu (by simp))
                    rw [hst'] at hcc
                    cases hcc

/-- exact characterisation of success (hypotheses: topological order, unique providers) -/
theorem getComponents_total {env : Env} (htopo : topoOrdered env.g = true) (huniq : (allTypes env.g).Nodup)
    (hlen : env.targets.any (fun t => t.length == 1) = false)
    (hres : resolveAll (resolve env.g (fuelFor env.g)) env.targets = .ok ())
    (hgood : ∀ u, Reach env u → loadable env u = false → Good env u) : ∃ c, getComponents env = .ok c := by
  have hfuel : ∀ t, Res env.g t → rank env.g t < fuelFor env.g := fun t ht => by
    obtain ⟨p, hp⟩ := res_plugin ht
    have := rank_lt_length hp; unfold fuelFor; omega
  obtain ⟨st, hst, hinv⟩ := foldDeps_total (P := Inv env) env.targets {} (Inv.init env) (fun d hd s hs =>
    checkCache_total htopo huniq hgood _ d s (hfuel d (reach_res hres (Reach.target hd))) (Reach.target hd)
      (reach_res hres (Reach.target hd)) hs)
  unfold getComponents
  rw [hlen, hres, hst]
  simp only [Bool.false_eq_true, if_false]
  cases hfin : finish env st with
  | ok c => exact ⟨c, rfl⟩
  | error e =>
    have := finish_err hfin
    subst this
    exact absurd hfin (finish_no_rt hinv)

/-- the converse: a successful call passed all those checks -/
theorem getComponents_ok_conditions {env : Env} {c : Components} (h : getComponents env = .ok c) :
    env.targets.any (fun t => t.length == 1) = false ∧
    resolveAll (resolve env.g (fuelFor env.g)) env.targets = .ok () ∧
    ∀ u, Reach env u → loadable env u = false → Good env u := by
  obtain ⟨st, _, _, _, _, hstep, hseen⟩ := getComponents_spec h
  refine ⟨?_, ?_, fun u hr hl => hstep.good u ((hseen u).2 hr) (by simp) hl⟩
  · unfold getComponents at h
    split at h
    · cases h
    · rename_i hc; simpa using hc
  · unfold getComponents at h
    split at h
    · cases h
    · split at h
      · cases h
      · rename_i hr; exact hr

end Strax.Components
