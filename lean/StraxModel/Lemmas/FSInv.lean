import StraxModel.Lemmas.FS
/-
  The invariant of the saver machine (current protocol) and its preservation by every step, faults included.
-/
namespace Strax.FS
open Strax

/-! ## what "safe" means for the final directory -/

/-- a data directory whose metadata, if it says "complete, no exception", describes exactly the chunks `cs` and
all their files are there -/
def SafeDir (cs : List Chunk) (d : Dir) : Prop :=
  match d.get .md with
  | some (.json m) => m.good = true → m.chunks.isEmpty = false ∧ loadChunks d m.chunks = .ok cs
  | _ => False

def SafeFS (cs : List Chunk) (fs : FS) : Prop := ∀ d, fs.final = some d → SafeDir cs d

/-! ## bookkeeping read off a program -/

def pendApp : List Item → List ChunkInfo
  | [] => []
  | .append ci :: r => ci :: pendApp r
  | _ :: r => pendApp r

def submitIdx : List Item → List Nat
  | [] => []
  | .submit i _ :: r => i :: submitIdx r
  | _ :: r => submitIdx r

/-- the operations of the chunk write for chunk `i` of the main path -/
def stdOps (v : Variant) (i : Nat) (c : Chunk) : List Op :=
  match v with
  | .forked => forkOps i c
  | _ => writeOps i c.rows

/-- does chunk `c` get a writer under variant `v`? (the forked saver writes per-chunk metadata for every chunk) -/
def needsW (v : Variant) (c : Chunk) : Bool :=
  match v with
  | .forked => true
  | _ => !c.rows.isEmpty

/-- position in `stdOps` after which the data file is in place (0 when there is none) -/
def dataLen (c : Chunk) : Nat := if c.rows.isEmpty then 0 else 4

/-- what holds in the temp directory `t` when the writer of chunk `i` has performed its first `k` operations;
`collecting` = `_close` has started to read and remove the per-chunk metadata files -/
def WFacts (v : Variant) (t : Dir) (i : Nat) (c : Chunk) (k : Nat) (collecting : Bool) : Prop :=
  (c.rows.isEmpty = false → 2 ≤ k → k ≤ 3 → t.get (.tmp i) = some (.rows c.rows)) ∧
  (c.rows.isEmpty = false → 4 ≤ k → t.get (.chunk i) = some (.rows c.rows)) ∧
  (v = .forked → collecting = false → dataLen c + 2 ≤ k → t.get (.cmeta i) = some (.info (infoOf i c)))


def readIdx : List Item → List Nat
  | [] => []
  | .readInfo i :: r => i :: readIdx r
  | _ :: r => readIdx r

/-- `_close` has not yet globbed the per-chunk metadata files -/
def notCollected (p : List Item) : Bool := p.contains .collect

/-- the chunk infos the metadata will still receive (main path) -/
def pending (v : Variant) (cs : List Chunk) (p : List Item) : List ChunkInfo :=
  match v with
  | .forked => if notCollected p then infos cs 0 else (readIdx p).filterMap fun i => (cs[i]?).map (infoOf i)
  | _ => pendApp p

/-- failures of chunk writes are still going to be noticed by the saver thread: in the serial variant the write
just started is joined at once; otherwise `waitAll` is still ahead (behind every submit), or it has been passed and
then every write has succeeded -/
def Awaited (v : Variant) (c : Cfg) : Prop :=
  match v with
  | .serial =>
    (∀ w ∈ c.workers.dropLast, w.st = .ok) ∧
    (∀ w, c.workers.getLast? = some w → w.st ≠ .ok → ∃ rest, c.prog = .join :: rest)
  | _ =>
    (.waitAll ∈ c.prog ∧ ∀ pre post, c.prog = pre ++ .waitAll :: post → submitIdx post = []) ∨
    (submitIdx c.prog = [] ∧ ∀ w ∈ c.workers, w.st = .ok)

/-- in the serial variant every chunk write is joined at once -/
def SubmitJoin (p : List Item) : Prop :=
  ∀ pre post i ops, p = pre ++ .submit i ops :: post → ∃ post', post = .join :: post'

/-- a per-chunk metadata file is only removed after it was read, and is not read again -/
def UnlinkOK (p : List Item) : Prop :=
  ∀ pre post i, p = pre ++ .op (.unlink .temp (.cmeta i)) :: post → i ∉ readIdx post

/-- the part of the invariant that only concerns the main path (no exception so far), chunk phase onwards -/
structure Main (cs : List Chunk) (v : Variant) (c : Cfg) : Prop where
  chunksMd : c.md.chunks ++ pending v cs c.prog = infos cs 0
  cover : ∀ j (hj : j < cs.length), needsW v cs[j] = true → j ∈ submitIdx c.prog ∨ ∃ w ∈ c.workers, w.i = j
  nodup : (c.workers.map (·.i) ++ submitIdx c.prog).Nodup
  substd : ∀ i ops, .submit i ops ∈ c.prog → ∃ hj : i < cs.length, ops = stdOps v i cs[i]
  wstd : ∀ w ∈ c.workers, w.st ≠ .failed →
    ∃ (hj : w.i < cs.length) (n : Nat), w.ops = (stdOps v w.i cs[w.i]).drop n ∧ n ≤ (stdOps v w.i cs[w.i]).length ∧
      (w.st = .ok ↔ w.ops = []) ∧ ∀ t, c.fs.temp = some t → WFacts v t w.i cs[w.i] n (!notCollected c.prog)
  awaited : Awaited v c
  reads : ∀ i ∈ readIdx c.prog, ∃ hj : i < cs.length, ∀ t, c.fs.temp = some t → t.get (.cmeta i) = some (.info (infoOf i cs[i]))
  names : notCollected c.prog = true → ∀ t, c.fs.temp = some t → ∀ j, t.get (.cmeta j) ≠ none → ∃ w ∈ c.workers, w.i = j
  mdOpen : hr c.prog ≤ 18 → c.md.ended = false ∧ c.md.exc = false
  sj : v = .serial → SubmitJoin c.prog
  noApp : v = .forked → pendApp c.prog = [] ∧ Item.markUnreg ∉ c.prog
  noRead : v ≠ .forked → readIdx c.prog = []
  nocmeta : v ≠ .forked → ∀ t, c.fs.temp = some t → ∀ j, t.get (.cmeta j) = none
  unl : UnlinkOK c.prog
  collectOnce : ∀ pre post, c.prog = pre ++ .collect :: post → notCollected post = false
  lateItems : (readIdx c.prog ≠ [] ∨ ∃ i, Item.op (.unlink .temp (.cmeta i)) ∈ c.prog) →
    20 ≤ hr c.prog ∧ notCollected c.prog = false

/-- side conditions on the chunk writers: on the main path of the serial and executor variants the chunk writes never
touch the metadata file (those of a forked copy do: first-chunk flush); a forked saver never has a write that is "not yet
registered" (`save_from` does not drive it), so the writes nobody waits for — which only exist once the handler has taken
over — are always writes of the executor variant and leave the metadata file alone -/
structure Side (v : Variant) (c : Cfg) : Prop where
  wmd : v ≠ .forked → c.handling = false → ∀ w ∈ c.workers, ∀ o ∈ w.ops, mdFree o = true
  nmu : v = .forked → c.handling = false → c.unreg = false
  orphOk : ∀ w ∈ c.orphans, ∀ o ∈ w.ops, tempOp o = true ∧ mdFree o = true
  orphMode : c.orphans ≠ [] → c.handling = true

theorem Side.congr {v : Variant} {c c' : Cfg} (h : Side v c) (hw : c'.workers = c.workers) (ho : c'.orphans = c.orphans)
    (hh : c'.handling = c.handling) (_hs : c'.spec = c.spec) (hu : c'.unreg = c.unreg) : Side v c' :=
  ⟨by rw [hw, hh]; exact h.wmd, by rw [hh, hu]; exact h.nmu, by rw [ho]; exact h.orphOk, by rw [ho, hh]; exact h.orphMode⟩

/-- the invariant of the saver machine running the current protocol for chunk list `cs` under variant `v` -/
structure Inv (cs : List Chunk) (v : Variant) (c : Cfg) : Prop where
  shape : Shape c.prog
  wtemp : ∀ w ∈ c.workers, ∀ o ∈ w.ops, tempOp o = true
  nowork : hr c.prog ≤ 15 → c.workers = []
  initFlags : hr c.prog ≤ 15 → c.term = true ∧ c.handling = false ∧ c.md = ⟨[], false, false⟩
  initProg : hr c.prog ≤ 15 → ∃ pre, c.prog = pre ++ (mainItems v cs ++ closeItems) ∧ ∀ x ∈ pre, rank x ≤ 15
  initTemp : 12 ≤ hr c.prog → hr c.prog ≤ 15 → ∃ t, c.fs.temp = some t ∧ ∀ x, x ≠ .md → t.get x = none
  quiet : 18 ≤ hr c.prog → hr c.prog ≤ 25 → ∀ w ∈ c.workers, w.st ≠ .running
  closedMd : 19 ≤ hr c.prog → hr c.prog ≤ 25 → c.md.ended = true ∧ c.md.exc = c.handling
  synced : 23 ≤ hr c.prog → hr c.prog ≤ 24 → ∃ t, c.fs.temp = some t ∧ t.get .md = some (.json c.md)
  safe : SafeFS cs c.fs
  handTerm : c.handling = true → c.term = true
  main : c.handling = false → 16 ≤ hr c.prog → hr c.prog ≤ 25 → Main cs v c
  tempSome : 12 ≤ hr c.prog → hr c.prog ≤ 24 → c.fs.temp ≠ none
  termLate : 19 ≤ hr c.prog → hr c.prog ≤ 25 → c.term = true
  renamed : hr c.prog = 25 → ∃ d, c.fs.final = some d ∧ d.get .md = some (.json c.md)
  side : Side v c


/-! ## helpers for steps that pop the head item -/

theorem rank_le_of_ok {x : Item} (h : okItem x = true) : rank x ≤ 25 := by
  cases x with
  | submit i ops => simp [rank]
  | _ => (simp only [okItem, decide_eq_true_eq] at h; exact h)

theorem Shape.hr_rest_ge {x : Item} {rest : List Item} (h : Shape (x :: rest)) : rank x ≤ hr rest :=
  hr_tail_ge h.sorted (by have := rank_le_of_ok (h.ok x (by simp)); omega)

theorem Shape.hr_rest_gt {x : Item} {rest : List Item} (h : Shape (x :: rest)) (h16 : rank x ≠ 16) (h20 : rank x ≠ 20) :
    rank x < hr rest :=
  hr_tail_gt h.sorted (rank_le_of_ok (h.ok x (by simp))) h16 h20

theorem Shape.no_cross {x m : Item} {rest : List Item} (h : Shape (x :: rest)) (hm : m ∈ milestones)
    (hle : rank x ≤ rank m) (hne : x ≠ m) : hr rest ≤ rank m := by
  have hin : m ∈ x :: rest := h.miles m hm (by simpa using hle)
  rcases List.mem_cons.mp hin with rfl | hin
  · exact absurd rfl hne
  · exact h.tail.sorted.hr_le_mem m hin

theorem pendApp_skip {x : Item} {rest : List Item} (h : ∀ ci, x ≠ .append ci) : pendApp (x :: rest) = pendApp rest := by
  cases x <;> simp_all [pendApp]

theorem submitIdx_skip {x : Item} {rest : List Item} (h : ∀ i ops, x ≠ .submit i ops) : submitIdx (x :: rest) = submitIdx rest := by
  cases x <;> simp_all [submitIdx]

theorem readIdx_skip {x : Item} {rest : List Item} (h : ∀ i, x ≠ .readInfo i) : readIdx (x :: rest) = readIdx rest := by
  cases x <;> simp_all [readIdx]


/-! ## generic state changes -/


theorem mem_milestones_mkdir : Item.op (.mkdir .temp) ∈ milestones := by simp [milestones]
theorem mem_milestones_armed : Item.armed ∈ milestones := by simp [milestones]
theorem mem_milestones_waitQuiet : Item.waitQuiet ∈ milestones := by simp [milestones]
theorem mem_milestones_markClosed : Item.markClosed ∈ milestones := by simp [milestones]
theorem mem_milestones_fwLast : Item.flushWrite .last ∈ milestones := by simp [milestones]
theorem mem_milestones_rename : Item.op (.renameDir .temp .final) ∈ milestones := by simp [milestones]
theorem mem_milestones_finish : Item.finish ∈ milestones := by simp [milestones]

/-- the init phase: the program is replaced by one that is still before `mkdir`, the final directory is kept or
removed, the temp directory is arbitrary -/
theorem inv_init_low {cs : List Chunk} {v : Variant} {c : Cfg} (h : Inv cs v c) (hk : hr c.prog ≤ 15)
    {p' : List Item} {fs' : FS} (hs : Shape p') (hk' : hr p' ≤ 11)
    (hpre : ∃ pre, p' = pre ++ (mainItems v cs ++ closeItems) ∧ ∀ x ∈ pre, rank x ≤ 15)
    (hfin : fs'.final = c.fs.final ∨ fs'.final = none) :
    Inv cs v { c with prog := p', fs := fs' } := by
  have hf := h.initFlags hk
  have hw := h.nowork hk
  constructor
  · exact hs
  · simp [hw]
  · intro _; exact hw
  · intro _; exact hf
  · intro _; exact hpre
  · intro h12 _; simp at h12; omega
  · intro h18 _; simp at h18; omega
  · intro h19 _; simp at h19; omega
  · intro h23 _; simp at h23; omega
  · intro d hd
    rcases hfin with hfin | hfin
    · exact h.safe d (by simpa [hfin] using hd)
    · simp [hfin] at hd
  · intro hh; exact h.handTerm hh
  · intro _ h16 _; simp at h16; omega
  · intro h12 _; simp at h12; omega
  · intro h19 _; simp at h19; omega
  · intro h25; simp at h25; omega
  · exact h.side.congr rfl rfl rfl rfl rfl

theorem shape_nil : Shape [] := by
  refine ⟨List.Pairwise.nil, by simp, ?_⟩
  intro m hm hle
  simp only [milestones, List.mem_cons, List.mem_nil_iff, or_false] at hm
  rcases hm with rfl | rfl | rfl | rfl | rfl | rfl | rfl <;> simp [rank] at hle

/-- the saver thread is through (exception propagated, or lost): nothing is asked of an empty program -/
theorem inv_terminal {cs : List Chunk} {v : Variant} {c : Cfg} (h : Inv cs v c) (o : Outcome) (f l : Bool) :
    Inv cs v { c with prog := [], out := o, failed := f, lost := l } := by
  constructor
  · exact shape_nil
  · exact h.wtemp
  · intro hk; simp at hk
  · intro hk; simp at hk
  · intro hk; simp at hk
  · intro _ hk; simp at hk
  · intro _ hk; simp at hk
  · intro _ hk; simp at hk
  · intro _ hk; simp at hk
  · exact h.safe
  · exact h.handTerm
  · intro _ _ hk; simp at hk
  · intro _ hk; simp at hk
  · intro _ hk; simp at hk
  · intro hk; simp at hk
  · exact h.side.congr rfl rfl rfl rfl rfl

theorem hr_handlerItems (hs : HandlerSpec) : 16 ≤ hr (handlerItems hs) ∧ hr (handlerItems hs) ≤ 17 := by
  unfold handlerItems
  cases hc : chunksItems hs.variant true hs.extraStart hs.extra with
  | nil => simp [closeItems, rank]
  | cons y q =>
    have := rank_chunksItems (v := hs.variant) (r := true) hs.extra hs.extraStart y (by rw [hc]; simp)
    simp [this]

/-- the processor's exception handler takes over; a chunk write that had not reached `pending` is left to itself -/
theorem inv_handler {cs : List Chunk} {v : Variant} {c : Cfg} (h : Inv cs v c) (ht : c.fs.temp ≠ none) (f b : Bool)
    (ws' os' : List Worker) (hws : ∀ w ∈ ws', w ∈ c.workers) (hos : ∀ w ∈ os', w ∈ c.orphans ∨ (w ∈ c.workers ∧ ∀ o ∈ w.ops, mdFree o = true)) :
    Inv cs v { c with prog := handlerItems c.spec, term := true, handling := true, failed := f, unreg := b,
                      workers := ws', orphans := os' } := by
  have hk := hr_handlerItems c.spec
  constructor
  · exact shape_handlerItems _
  · intro w hw; exact h.wtemp w (hws w hw)
  · intro hk'; simp only at hk'; omega
  · intro hk'; simp only at hk'; omega
  · intro hk'; simp only at hk'; omega
  · intro _ hk'; simp only at hk'; omega
  · intro hk' _; simp only at hk'; omega
  · intro hk' _; simp only at hk'; omega
  · intro hk' _; simp only at hk'; omega
  · exact h.safe
  · intro _; rfl
  · intro hh; simp at hh
  · intro _ _; exact ht
  · intro _ _; rfl
  · intro h25; simp only at h25; omega
  · refine ⟨fun _ hh => by simp at hh, fun _ hh => by simp at hh, ?_, fun _ => rfl⟩
    intro w hw o ho
    rcases hos w hw with h1 | h1
    · exact h.side.orphOk w h1 o ho
    · exact ⟨h.wtemp w h1.1 o ho, h1.2 o ho⟩

theorem inv_failedFlag {cs : List Chunk} {v : Variant} {c : Cfg} (h : Inv cs v c) (f : Bool) :
    Inv cs v { c with failed := f } := by
  constructor
  · exact h.shape
  · exact h.wtemp
  · exact h.nowork
  · exact h.initFlags
  · exact h.initProg
  · exact h.initTemp
  · exact h.quiet
  · exact h.closedMd
  · exact h.synced
  · exact h.safe
  · exact h.handTerm
  · intro hh h16 h25
    have m := h.main hh h16 h25
    exact ⟨m.chunksMd, m.cover, m.nodup, m.substd, m.wstd, m.awaited, m.reads, m.names, m.mdOpen, m.sj, m.noApp,
      m.noRead, m.nocmeta, m.unl, m.collectOnce, m.lateItems⟩
  · exact h.tempSome
  · exact h.termLate
  · exact h.renamed
  · exact h.side.congr rfl rfl rfl rfl rfl

/-- the saver thread gets an exception while it still has something to do -/
theorem inv_fail {cs : List Chunk} {v : Variant} {c : Cfg} (h : Inv cs v c) (hne : c.prog ≠ []) : Inv cs v c.fail := by
  unfold Cfg.fail
  split
  · split
    · exact inv_terminal h _ _ _
    · have := inv_terminal h .raised c.failed c.lost
      simpa using this
  · rename_i hterm
    simp only [Bool.or_eq_true, not_or, Bool.not_eq_true] at hterm
    -- only between `armed` and `markClosed` can a failure be handed to the handler: the temp directory is there
    have hk25 : hr c.prog ≤ 25 := by
      cases hp : c.prog with
      | nil => exact absurd hp hne
      | cons x rest => simpa using rank_le_of_ok (h.shape.ok x (by rw [hp]; simp))
    have hk16 : 16 ≤ hr c.prog := by
      by_cases hk : hr c.prog ≤ 15
      · have := (h.initFlags hk).1; rw [hterm.1] at this; cases this
      · omega
    have hk18 : hr c.prog ≤ 18 := by
      by_cases hk : 19 ≤ hr c.prog
      · have := h.termLate hk hk25; rw [hterm.1] at this; cases this
      · omega
    have hts := h.tempSome (by omega) (by omega)
    split
    · rename_i hun
      -- the saver is not inside a handler (its failures are not terminal), so it is not a forked one and its writers
      -- leave the metadata file alone
      have hh : c.handling = false := by
        cases hh : c.handling with
        | false => rfl
        | true => have := h.handTerm hh; rw [hterm.1] at this; cases this
      have hnf : v ≠ .forked := by
        intro hv; have := h.side.nmu hv hh; rw [this] at hun; cases hun
      have := inv_handler h hts c.failed false c.workers.dropLast (c.orphans ++ c.workers.getLast?.toList)
        (fun w hw => (List.dropLast_sublist _).subset hw)
        (fun w hw => by
          rcases List.mem_append.mp hw with h1 | h1
          · exact Or.inl h1
          · right
            cases hl : c.workers.getLast? with
            | none => simp [hl] at h1
            | some a =>
              simp [hl] at h1; subst h1
              exact ⟨List.mem_of_getLast? hl, h.side.wmd hnf hh _ (List.mem_of_getLast? hl)⟩)
      simpa using this
    · have := inv_handler h hts c.failed c.unreg c.workers c.orphans (fun _ hw => hw) (fun _ hw => Or.inl hw)
      simpa using this

theorem inv_opFail {cs : List Chunk} {v : Variant} {c : Cfg} (h : Inv cs v c) (hne : c.prog ≠ []) : Inv cs v c.opFail := by
  unfold Cfg.opFail
  exact inv_fail (inv_failedFlag h true) hne


/-! ## the `__init__` phase -/


theorem rank_main_close_ge {v : Variant} {cs : List Chunk} : ∀ y ∈ mainItems v cs ++ closeItems, 16 ≤ rank y := by
  intro y hy
  rcases List.mem_append.mp hy with h | h
  · rw [rank_mainItems y h]; exact Nat.le_refl _
  · have := rank_closeItems_ge y h; omega

/-- the still-to-run part of `__init__` shrinks by its head item -/
theorem initProg_tail {v : Variant} {cs : List Chunk} {x : Item} {rest : List Item} (hx : rank x ≤ 15)
    (h : ∃ pre, x :: rest = pre ++ (mainItems v cs ++ closeItems) ∧ ∀ y ∈ pre, rank y ≤ 15) :
    ∃ pre, rest = pre ++ (mainItems v cs ++ closeItems) ∧ ∀ y ∈ pre, rank y ≤ 15 := by
  obtain ⟨pre, he, hp⟩ := h
  cases pre with
  | nil =>
    simp only [List.nil_append] at he
    have : 16 ≤ rank x := rank_main_close_ge x (by rw [← he]; simp)
    omega
  | cons y q =>
    simp only [List.cons_append, List.cons.injEq] at he
    exact ⟨q, he.2, fun z hz => hp z (by simp [hz])⟩

theorem initProg_expand {v : Variant} {cs : List Chunk} {new rest : List Item} (hn : ∀ y ∈ new, rank y ≤ 15)
    (h : ∃ pre, rest = pre ++ (mainItems v cs ++ closeItems) ∧ ∀ y ∈ pre, rank y ≤ 15) :
    ∃ pre, new ++ rest = pre ++ (mainItems v cs ++ closeItems) ∧ ∀ y ∈ pre, rank y ≤ 15 := by
  obtain ⟨pre, he, hp⟩ := h
  refine ⟨new ++ pre, by simp [he], ?_⟩
  intro y hy
  rcases List.mem_append.mp hy with h | h
  · exact hn y h
  · exact hp y h

/-- putting items in front of a shaped program: they have to be sorted among themselves and below its head -/
theorem Shape.prepend {new rest : List Item} (hsr : Shape rest) (hs : Sorted new) (hok : ∀ y ∈ new, okItem y = true)
    (hlt : ∀ y ∈ new, ∀ z ∈ rest, rle y z) (hm : ∀ m ∈ milestones, hr (new ++ rest) ≤ rank m → m ∈ new ∨ hr rest ≤ rank m) :
    Shape (new ++ rest) := by
  refine ⟨List.pairwise_append.mpr ⟨hs, hsr.sorted, hlt⟩, ?_, ?_⟩
  · intro y hy
    rcases List.mem_append.mp hy with h | h
    · exact hok y h
    · exact hsr.ok y h
  · intro m hmm hle
    rcases hm m hmm hle with h | h
    · exact List.mem_append_left _ h
    · exact List.mem_append_right _ (hsr.miles m hmm h)



theorem rank_milestone_ge {m : Item} (hm : m ∈ milestones) : 11 ≤ rank m := by
  simp only [milestones, List.mem_cons, List.mem_nil_iff, or_false] at hm
  rcases hm with rfl | rfl | rfl | rfl | rfl | rfl | rfl <;> simp [rank]

/-- an item of `__init__` before `mkdir` is done: the rest of the program is still before (or at) `mkdir` -/
theorem inv_init_pop {cs : List Chunk} {v : Variant} {c : Cfg} {x : Item} {rest : List Item} (h : Inv cs v c)
    (hp : c.prog = x :: rest) (hx : rank x ≤ 10) {fs' : FS} (hfin : fs'.final = c.fs.final ∨ fs'.final = none) :
    Inv cs v { c with prog := rest, fs := fs' } := by
  have hs : Shape (x :: rest) := hp ▸ h.shape
  have hk : hr c.prog ≤ 15 := by rw [hp]; simp; omega
  refine inv_init_low h hk hs.tail ?_ ?_ hfin
  · have h11 : rank (Item.op (.mkdir .temp)) = 11 := rfl
    have := hs.no_cross mem_milestones_mkdir (by omega) (by intro e; subst e; omega)
    omega
  · exact initProg_tail (by omega) (hp ▸ h.initProg hk)

/-- an `if exists: …` item of `__init__` is replaced by the items of its body -/
theorem inv_init_expand {cs : List Chunk} {v : Variant} {c : Cfg} {x : Item} {rest new : List Item} (h : Inv cs v c)
    (hp : c.prog = x :: rest) (hx : rank x ≤ 10) (hx16 : rank x ≠ 16) (hne : new ≠ [])
    (hs : Sorted new) (hok : ∀ y ∈ new, okItem y = true) (hlt : ∀ y ∈ new, rank y < rank x) {fs' : FS}
    (hfin : fs'.final = c.fs.final ∨ fs'.final = none) :
    Inv cs v { c with prog := new ++ rest, fs := fs' } := by
  have hsx : Shape (x :: rest) := hp ▸ h.shape
  have hk : hr c.prog ≤ 15 := by rw [hp]; simp; omega
  have hrest : ∀ z ∈ rest, rank x < rank z := by
    intro z hz
    rcases hsx.sorted.head_rle z hz with h | h
    · exact h
    · omega
  have hhr : hr (new ++ rest) ≤ 10 := by
    cases new with
    | nil => exact absurd rfl hne
    | cons y q => have := hlt y (by simp); simp; omega
  refine inv_init_low h hk ?_ (by omega) ?_ hfin
  · refine hsx.tail.prepend hs hok ?_ ?_
    · intro y hy z hz
      left; have := hlt y hy; have := hrest z hz; omega
    · intro m hm _
      right
      have hge := rank_milestone_ge hm
      have hin : m ∈ x :: rest := hsx.miles m hm (by simp; omega)
      rcases List.mem_cons.mp hin with rfl | hin
      · omega
      · exact hsx.tail.sorted.hr_le_mem m hin
  · exact initProg_expand (fun y hy => by have := hlt y hy; omega) (initProg_tail (by omega) (hp ▸ h.initProg hk))



theorem doOp_eq (c : Cfg) (o : Op) (rest : List Item) :
    (∃ fs', apply c.fs o = .ok fs' ∧ c.doOp o rest = { c with fs := fs', prog := rest }) ∨ c.doOp o rest = c.opFail := by
  unfold Cfg.doOp
  cases apply c.fs o with
  | ok fs' => exact Or.inl ⟨fs', rfl, rfl⟩
  | error e => exact Or.inr rfl

/-- operations that leave the final directory alone -/
def finalSafe : Op → Bool
  | .existsDir _ | .glob _ | .listdir _ | .read _ _ => true
  | .mkdir .temp | .openTrunc .temp _ | .write .temp _ _ | .close .temp _ | .rename .temp _ _
  | .unlink .temp _ | .rmdir .temp => true
  | _ => false

theorem apply_finalSafe {fs fs' : FS} {o : Op} (hs : finalSafe o = true) (h : apply fs o = .ok fs') : fs'.final = fs.final := by
  cases o with
  | existsDir d => simp [apply] at h; subst h; rfl
  | glob d => simp [apply] at h; subst h; rfl
  | listdir d => simp only [apply] at h; split at h <;> simp at h; subst h; rfl
  | read d n =>
    simp only [apply] at h
    split at h
    · split at h <;> simp at h; subst h; rfl
    · simp at h
  | mkdir d =>
    cases d <;> simp [finalSafe] at hs
    simp only [apply] at h; split at h <;> simp at h; subst h; rfl
  | openTrunc d n =>
    cases d <;> simp [finalSafe] at hs
    simp only [apply, FS.dir] at h; split at h <;> simp at h; subst h; rfl
  | write d n c =>
    cases d <;> simp [finalSafe] at hs
    simp only [apply, FS.dir] at h
    split at h
    · split at h <;> simp at h; subst h; rfl
    · simp at h
  | close d n =>
    cases d <;> simp [finalSafe] at hs
    simp only [apply] at h; split at h <;> simp at h; subst h; rfl
  | rename d a b =>
    cases d <;> simp [finalSafe] at hs
    simp only [apply, FS.dir] at h
    split at h
    · split at h <;> simp at h; subst h; rfl
    · simp at h
  | renameDir a b => simp [finalSafe] at hs
  | unlink d n =>
    cases d <;> simp [finalSafe] at hs
    simp only [apply, FS.dir] at h
    split at h
    · split at h <;> simp at h; subst h; rfl
    · simp at h
  | rmdir d =>
    cases d <;> simp [finalSafe] at hs
    simp only [apply, FS.dir] at h
    split at h <;> simp at h; subst h; rfl

theorem apply_moveFinal {fs fs' : FS} (h : apply fs (.renameDir .final .temp) = .ok fs') : fs'.final = none := by
  simp only [apply, FS.dir] at h
  split at h
  · simp at h
  · split at h
    · split at h <;> simp at h <;> (subst h; rfl)
    · simp at h



theorem rank_le10_cases {x : Item} (h : rank x ≤ 10) :
    x = .op (.existsDir .temp) ∨ x = .rmList .temp false ∨ x = .unlinks .temp false ∨ x = .rmRmdir .temp false ∨
    x = .rmtreeIf .temp false ∨ x = .op (.existsDir .final) ∨ x = .op (.renameDir .final .temp) ∨
    x = .rmList .temp true ∨ x = .unlinks .temp true ∨ x = .rmRmdir .temp true ∨ x = .moveFinalIf := by
  unfold rank at h
  split at h <;> simp_all

/-- an FS operation of `__init__` before `mkdir` -/
theorem inv_init_doOp {cs : List Chunk} {v : Variant} {c : Cfg} {x : Item} {rest : List Item} (h : Inv cs v c)
    (hp : c.prog = x :: rest) (hx : rank x ≤ 10) (o : Op) (ho : finalSafe o = true ∨ o = .renameDir .final .temp) :
    Inv cs v (c.doOp o rest) := by
  rcases doOp_eq c o rest with ⟨fs', ha, he⟩ | he
  · rw [he]
    refine inv_init_pop h hp hx ?_
    rcases ho with ho | rfl
    · exact Or.inl (apply_finalSafe ho ha)
    · exact Or.inr (apply_moveFinal ha)
  · rw [he]; exact inv_opFail h (by rw [hp]; simp)

theorem inv_sav_low {cs : List Chunk} {v : Variant} {c c' : Cfg} (h : Inv cs v c) (hk : hr c.prog ≤ 10)
    (hs : step c .sav = some c') : Inv cs v c' := by
  cases hp : c.prog with
  | nil => simp [hp] at hk
  | cons x rest =>
    rw [hp] at hk; simp only [hr_cons] at hk
    rcases rank_le10_cases hk with rfl | rfl | rfl | rfl | rfl | rfl | rfl | rfl | rfl | rfl | rfl
    all_goals (unfold step at hs; simp only [hp] at hs)
    · injection hs with hs; subst hs; exact inv_init_doOp h hp hk _ (Or.inl rfl)
    · injection hs with hs; subst hs; exact inv_init_doOp h hp hk _ (Or.inl rfl)
    · -- unlinks temp (first rmtree): popped once the directory is empty
      split at hs
      · simp at hs
      · injection hs with hs; subst hs; exact inv_init_pop h hp hk (Or.inl rfl)
    · injection hs with hs; subst hs; exact inv_init_doOp h hp hk _ (Or.inl rfl)
    · -- rmtreeIf temp
      split at hs
      · injection hs with hs; subst hs; exact inv_init_pop h hp hk (Or.inl rfl)
      · injection hs with hs; subst hs
        have := inv_init_expand (new := [.rmList .temp false, .unlinks .temp false, .rmRmdir .temp false]) (fs' := c.fs)
          h hp hk (by simp [rank]) (by simp) (by simp [Sorted, rle, rank]) (by simp [okItem, rank]) (by simp [rank]) (Or.inl rfl)
        simpa using this
    · injection hs with hs; subst hs; exact inv_init_doOp h hp hk _ (Or.inl rfl)
    · injection hs with hs; subst hs; exact inv_init_doOp h hp hk _ (Or.inr rfl)
    · injection hs with hs; subst hs; exact inv_init_doOp h hp hk _ (Or.inl rfl)
    · split at hs
      · simp at hs
      · injection hs with hs; subst hs; exact inv_init_pop h hp hk (Or.inl rfl)
    · injection hs with hs; subst hs; exact inv_init_doOp h hp hk _ (Or.inl rfl)
    · -- moveFinalIf
      split at hs
      · injection hs with hs; subst hs; exact inv_init_pop h hp hk (Or.inl rfl)
      · injection hs with hs; subst hs
        have := inv_init_expand
          (new := [.op (.renameDir .final .temp), .rmList .temp true, .unlinks .temp true, .rmRmdir .temp true]) (fs' := c.fs)
          h hp hk (by simp [rank]) (by simp) (by simp [Sorted, rle, rank]) (by simp [okItem, rank]) (by simp [rank]) (Or.inl rfl)
        simpa using this



/-- `mkdir temp` and the first metadata flush: the temp directory exists and holds nothing but the metadata file -/
theorem inv_init_mid {cs : List Chunk} {v : Variant} {c : Cfg} {x : Item} {rest : List Item} (h : Inv cs v c)
    (hp : c.prog = x :: rest) (hx : 11 ≤ rank x) (hx' : rank x ≤ 14) {fs' : FS} (hfin : fs'.final = c.fs.final)
    (htemp : ∃ t, fs'.temp = some t ∧ ∀ y, y ≠ .md → t.get y = none) :
    Inv cs v { c with prog := rest, fs := fs' } := by
  have hs : Shape (x :: rest) := hp ▸ h.shape
  have hk : hr c.prog ≤ 15 := by rw [hp]; simp; omega
  have h15 : rank Item.armed = 15 := rfl
  have hlt : rank x < hr rest := hs.hr_rest_gt (by omega) (by omega)
  have hle : hr rest ≤ 15 := by
    have := hs.no_cross mem_milestones_armed (by omega) (by intro e; subst e; omega)
    omega
  have hf := h.initFlags hk
  have hw := h.nowork hk
  constructor
  · exact hs.tail
  · simp [hw]
  · intro _; exact hw
  · intro _; exact hf
  · intro _; exact initProg_tail (by omega) (hp ▸ h.initProg hk)
  · intro _ _; exact htemp
  · intro h18 _; simp only at h18; omega
  · intro h19 _; simp only at h19; omega
  · intro h23 _; simp only at h23; omega
  · intro d hd; exact h.safe d (by simpa [hfin] using hd)
  · intro hh; exact h.handTerm hh
  · intro _ h16 _; simp only at h16; omega
  · intro _ _
    obtain ⟨t, ht, _⟩ := htemp
    simp [ht]
  · intro h19 _; simp only at h19; omega
  · intro h25; simp only at h25; omega
  · exact h.side.congr rfl rfl rfl rfl rfl

theorem rank_11_14_cases {x : Item} (h : 11 ≤ rank x) (h' : rank x ≤ 14) :
    x = .op (.mkdir .temp) ∨ x = .flushOpen .init ∨ x = .flushWrite .init ∨ x = .flushClose .init := by
  unfold rank at h h'
  split at h <;> simp_all

theorem inv_sav_mid {cs : List Chunk} {v : Variant} {c c' : Cfg} (h : Inv cs v c) (hk : 11 ≤ hr c.prog) (hk' : hr c.prog ≤ 14)
    (hs : step c .sav = some c') : Inv cs v c' := by
  cases hp : c.prog with
  | nil => simp [hp] at hk'
  | cons x rest =>
    rw [hp] at hk hk'; simp only [hr_cons] at hk hk'
    rcases rank_11_14_cases hk hk' with rfl | rfl | rfl | rfl
    all_goals (unfold step at hs; simp only [hp] at hs; injection hs with hs; subst hs)
    · -- mkdir temp
      rcases doOp_eq c (.mkdir .temp) rest with ⟨fs', ha, he⟩ | he
      · rw [he]
        refine inv_init_mid h hp hk hk' (apply_finalSafe rfl ha) ?_
        simp only [apply] at ha
        split at ha <;> simp at ha
        subst ha
        exact ⟨[], rfl, fun y _ => rfl⟩
      · rw [he]; exact inv_opFail h (by rw [hp]; simp)
    · -- open(metadata, w)
      obtain ⟨t, ht, hnone⟩ := h.initTemp (by rw [hp]; simp [rank]) (by rw [hp]; simp [rank])
      rcases doOp_eq c (.openTrunc .temp .md) rest with ⟨fs', ha, he⟩ | he
      · rw [he]
        refine inv_init_mid h hp hk hk' (apply_finalSafe rfl ha) ?_
        simp only [apply, FS.dir, ht] at ha
        injection ha with ha; subst ha
        exact ⟨t.set .md .empty, rfl, fun y hy => by rw [Dir.get_set]; simp [hy, hnone y hy]⟩
      · rw [he]; exact inv_opFail h (by rw [hp]; simp)
    · -- write
      obtain ⟨t, ht, hnone⟩ := h.initTemp (by rw [hp]; simp [rank]) (by rw [hp]; simp [rank])
      rcases doOp_eq c (.write .temp .md (.json c.md)) rest with ⟨fs', ha, he⟩ | he
      · rw [he]
        refine inv_init_mid h hp hk hk' (apply_finalSafe rfl ha) ?_
        simp only [apply, FS.dir, ht] at ha
        split at ha <;> simp at ha
        subst ha
        exact ⟨t.set .md (.json c.md), rfl, fun y hy => by rw [Dir.get_set]; simp [hy, hnone y hy]⟩
      · rw [he]; exact inv_opFail h (by rw [hp]; simp)
    · -- close
      obtain ⟨t, ht, hnone⟩ := h.initTemp (by rw [hp]; simp [rank]) (by rw [hp]; simp [rank])
      rcases doOp_eq c (.close .temp .md) rest with ⟨fs', ha, he⟩ | he
      · rw [he]
        refine inv_init_mid h hp hk hk' (apply_finalSafe rfl ha) ?_
        simp only [apply, FS.dir, ht] at ha
        simp at ha; subst ha
        exact ⟨t, ht, hnone⟩
      · rw [he]; exact inv_opFail h (by rw [hp]; simp)



/-! ## what the main program contains -/

theorem pendApp_append (a b : List Item) : pendApp (a ++ b) = pendApp a ++ pendApp b := by
  induction a with
  | nil => rfl
  | cons x q ih => cases x <;> simp [pendApp, ih]

theorem submitIdx_append (a b : List Item) : submitIdx (a ++ b) = submitIdx a ++ submitIdx b := by
  induction a with
  | nil => rfl
  | cons x q ih => cases x <;> simp [submitIdx, ih]

theorem readIdx_append (a b : List Item) : readIdx (a ++ b) = readIdx a ++ readIdx b := by
  induction a with
  | nil => rfl
  | cons x q ih => cases x <;> simp [readIdx, ih]

theorem pendApp_closeItems : pendApp closeItems = [] := by simp [closeItems, flushItems, pendApp]
theorem submitIdx_closeItems : submitIdx closeItems = [] := by simp [closeItems, flushItems, submitIdx]
theorem readIdx_closeItems : readIdx closeItems = [] := by simp [closeItems, flushItems, readIdx]

theorem pendApp_chunkItems {v : Variant} (hv : v ≠ .forked) (r : Bool) (i : Nat) (c : Chunk) :
    pendApp (chunkItems v r i c) = [infoOf i c] := by
  cases v <;> simp only [chunkItems, flushItems] at * <;> (try exact absurd rfl hv)
  all_goals (split <;> (try split) <;> simp [pendApp])

theorem pendApp_chunksItems {v : Variant} (hv : v ≠ .forked) (r : Bool) :
    ∀ (cs : List Chunk) (s : Nat), pendApp (chunksItems v r s cs) = infos cs s := by
  intro cs
  induction cs with
  | nil => intro s; simp [chunksItems, pendApp, infos]
  | cons c rest ih => intro s; simp [chunksItems, pendApp_append, pendApp_chunkItems hv, ih, infos]

theorem readIdx_chunkItems (v : Variant) (r : Bool) (i : Nat) (c : Chunk) : readIdx (chunkItems v r i c) = [] := by
  cases v with
  | forked => simp [chunkItems, readIdx]
  | serial => simp only [chunkItems, flushItems]; split <;> simp [readIdx]
  | executor => simp only [chunkItems, flushItems]; split <;> split <;> simp [readIdx]

theorem readIdx_chunksItems (v : Variant) (r : Bool) : ∀ (cs : List Chunk) (s : Nat), readIdx (chunksItems v r s cs) = [] := by
  intro cs
  induction cs with
  | nil => intro s; simp [chunksItems, readIdx]
  | cons c rest ih => intro s; simp [chunksItems, readIdx_append, readIdx_chunkItems, ih]

theorem submitIdx_chunkItems (v : Variant) (r : Bool) (i : Nat) (c : Chunk) :
    submitIdx (chunkItems v r i c) = if needsW v c = true then [i] else [] := by
  cases v <;> simp only [chunkItems, flushItems, needsW]
  all_goals (split <;> (try split) <;> simp_all [submitIdx])

/-- the submit items of a block of chunks: exactly the chunks that need a writer, with increasing indices -/
theorem mem_submitIdx_chunksItems (v : Variant) (r : Bool) : ∀ (cs : List Chunk) (s j : Nat),
    j ∈ submitIdx (chunksItems v r s cs) ↔ ∃ k, ∃ hk : k < cs.length, j = s + k ∧ needsW v cs[k] = true := by
  intro cs
  induction cs with
  | nil => intro s j; simp [chunksItems, submitIdx]
  | cons c rest ih =>
    intro s j
    simp only [chunksItems, submitIdx_append, List.mem_append, submitIdx_chunkItems, ih]
    constructor
    · rintro (h | ⟨k, hk, rfl, hn⟩)
      · split at h <;> simp at h
        subst h
        exact ⟨0, by simp, by simp, by simpa using ‹needsW v c = true›⟩
      · exact ⟨k + 1, by simp; omega, by omega, by simpa using hn⟩
    · rintro ⟨k, hk, rfl, hn⟩
      cases k with
      | zero => left; simp at hn; simp [hn]
      | succ k => right; exact ⟨k, by simp at hk; omega, by omega, by simpa using hn⟩

theorem submitIdx_chunksItems_sorted (v : Variant) (r : Bool) : ∀ (cs : List Chunk) (s : Nat),
    (submitIdx (chunksItems v r s cs)).Pairwise (· < ·) ∧ ∀ j ∈ submitIdx (chunksItems v r s cs), s ≤ j := by
  intro cs
  induction cs with
  | nil => intro s; simp [chunksItems, submitIdx]
  | cons c rest ih =>
    intro s
    obtain ⟨ih1, ih2⟩ := ih (s + 1)
    simp only [chunksItems, submitIdx_append, submitIdx_chunkItems]
    constructor
    · refine List.pairwise_append.mpr ⟨?_, ih1, ?_⟩
      · split <;> simp
      · intro a ha b hb
        split at ha <;> simp at ha
        subst ha; have := ih2 b hb; omega
    · intro j hj
      rcases List.mem_append.mp hj with h | h
      · split at h <;> simp at h; omega
      · have := ih2 j h; omega

theorem submit_mem_chunkItems {v : Variant} {r : Bool} {i j : Nat} {c : Chunk} {ops : List Op}
    (h : Item.submit j ops ∈ chunkItems v r i c) : j = i ∧ ops = stdOps v i c := by
  cases v with
  | forked => simp only [chunkItems, stdOps, List.mem_singleton] at *; injection h with h1 h2; exact ⟨h1, h2⟩
  | serial => simp only [chunkItems, flushItems, stdOps] at *; split at h <;> simp at h <;> exact h
  | executor =>
    simp only [chunkItems, flushItems, stdOps] at *
    split at h <;> split at h <;> simp at h <;> exact h

theorem submit_mem_chunksItems (v : Variant) (r : Bool) : ∀ (cs : List Chunk) (s j : Nat) (ops : List Op),
    Item.submit j ops ∈ chunksItems v r s cs → ∃ k, ∃ hk : k < cs.length, j = s + k ∧ ops = stdOps v j cs[k] := by
  intro cs
  induction cs with
  | nil => intro s j ops h; simp [chunksItems] at h
  | cons c rest ih =>
    intro s j ops h
    simp only [chunksItems, List.mem_append] at h
    rcases h with h | h
    · obtain ⟨rfl, rfl⟩ := submit_mem_chunkItems h
      exact ⟨0, by simp, by simp, by simp⟩
    · obtain ⟨k, hk, rfl, ho⟩ := ih _ _ _ h
      exact ⟨k + 1, by simp; omega, by omega, by simpa using ho⟩



theorem notCollected_main_close (v : Variant) (cs : List Chunk) : notCollected (mainItems v cs ++ closeItems) = true := by
  simp [notCollected, closeItems]

theorem pendApp_mainItems {v : Variant} (hv : v ≠ .forked) (cs : List Chunk) :
    pendApp (mainItems v cs ++ closeItems) = infos cs 0 := by
  simp only [mainItems, pendApp_append, pendApp_chunksItems hv, pendApp_closeItems, List.append_nil]
  split <;> simp [pendApp]

theorem pending_main (v : Variant) (cs : List Chunk) : pending v cs (mainItems v cs ++ closeItems) = infos cs 0 := by
  cases v with
  | forked => simp [pending, notCollected_main_close]
  | serial => simpa [pending] using pendApp_mainItems (v := .serial) (by simp) cs
  | executor => simpa [pending] using pendApp_mainItems (v := .executor) (by simp) cs

theorem submitIdx_main (v : Variant) (cs : List Chunk) :
    submitIdx (mainItems v cs ++ closeItems) = submitIdx (chunksItems v true 0 cs) := by
  simp only [mainItems, submitIdx_append, submitIdx_closeItems, List.append_nil]
  split <;> simp [submitIdx]

theorem readIdx_main (v : Variant) (cs : List Chunk) : readIdx (mainItems v cs ++ closeItems) = [] := by
  simp only [mainItems, readIdx_append, readIdx_chunksItems, readIdx_closeItems, List.append_nil, List.nil_append]
  split <;> simp [readIdx]

theorem submit_mem_main {v : Variant} {cs : List Chunk} {i : Nat} {ops : List Op}
    (h : Item.submit i ops ∈ mainItems v cs ++ closeItems) : ∃ hj : i < cs.length, ops = stdOps v i cs[i] := by
  simp only [mainItems, List.mem_append] at h
  rcases h with (h | h) | h
  · obtain ⟨k, hk, rfl, ho⟩ := submit_mem_chunksItems v true cs 0 i ops h
    exact ⟨by omega, by simpa using ho⟩
  · split at h <;> simp at h
  · simp [closeItems, flushItems] at h

theorem SubmitJoin.tail {x : Item} {p : List Item} (h : SubmitJoin (x :: p)) : SubmitJoin p := by
  intro pre post i ops he
  exact h (x :: pre) post i ops (by simp [he])

theorem UnlinkOK.tail {x : Item} {p : List Item} (h : UnlinkOK (x :: p)) : UnlinkOK p := by
  intro pre post i he
  exact h (x :: pre) post i (by simp [he])

theorem submitJoin_chunksItems : ∀ (cs : List Chunk) (s : Nat) (tail : List Item), SubmitJoin tail →
    SubmitJoin (chunksItems .serial true s cs ++ tail) := by
  intro cs
  induction cs with
  | nil => intro s tail ht; simpa [chunksItems] using ht
  | cons c rest ih =>
    intro s tail ht
    have ih' := ih (s + 1) tail ht
    simp only [chunksItems, chunkItems, flushItems, List.append_assoc]
    intro pre post i ops he
    split at he
    · -- empty chunk: append, flush x3, then the rest
      simp only [List.nil_append, List.cons_append] at he
      rcases pre with _ | ⟨_, _ | ⟨_, _ | ⟨_, _ | ⟨_, pre⟩⟩⟩⟩ <;> simp at he
      exact ih' pre post i ops he.2.2.2.2
    · simp only [List.nil_append, List.cons_append] at he
      rcases pre with _ | ⟨_, _ | ⟨_, _ | ⟨_, _ | ⟨_, _ | ⟨_, _ | ⟨_, pre⟩⟩⟩⟩⟩⟩ <;> simp at he
      · exact ⟨_, he.2.symm⟩
      · exact ih' pre post i ops he.2.2.2.2.2.2

theorem submitJoin_main (cs : List Chunk) : SubmitJoin (mainItems .serial cs ++ closeItems) := by
  have : SubmitJoin closeItems := by
    intro pre post i ops he
    have : Item.submit i ops ∈ closeItems := by rw [he]; simp
    simp [closeItems, flushItems] at this
  simpa [mainItems] using submitJoin_chunksItems cs 0 closeItems this

theorem pendApp_forked_chunksItems : ∀ (cs : List Chunk) (s : Nat), pendApp (chunksItems .forked true s cs) = [] := by
  intro cs
  induction cs with
  | nil => intro s; simp [chunksItems, pendApp]
  | cons c rest ih => intro s; simp [chunksItems, chunkItems, pendApp, ih]

theorem markUnreg_not_forked_chunksItems : ∀ (cs : List Chunk) (s : Nat), Item.markUnreg ∉ chunksItems .forked true s cs := by
  intro cs
  induction cs with
  | nil => intro s; simp [chunksItems]
  | cons c rest ih => intro s; simp [chunksItems, chunkItems, ih]

theorem markUnreg_not_forked_main (cs : List Chunk) : Item.markUnreg ∉ mainItems .forked cs ++ closeItems := by
  simp [mainItems, markUnreg_not_forked_chunksItems, closeItems, flushItems]

theorem pendApp_forked_main (cs : List Chunk) : pendApp (mainItems .forked cs ++ closeItems) = [] := by
  simp [mainItems, pendApp_append, pendApp_forked_chunksItems, pendApp, closeItems, flushItems]

theorem unlinkOK_of_no_unlink {p : List Item} (h : ∀ i, Item.op (.unlink .temp (.cmeta i)) ∉ p) : UnlinkOK p := by
  intro pre post i he
  exact absurd (by rw [he]; simp) (h i)

theorem unlinkOK_main (v : Variant) (cs : List Chunk) : UnlinkOK (mainItems v cs ++ closeItems) := by
  apply unlinkOK_of_no_unlink
  intro i hm
  rcases List.mem_append.mp hm with h | h
  · have := rank_mainItems _ h; simp [rank] at this
  · simp [closeItems, flushItems] at h

/-- an element that occurs once splits a list in only one way -/
theorem split_unique {α : Type} {a b pre post : List α} {w : α} (ha : w ∉ a) (hb : w ∉ b)
    (he : a ++ w :: b = pre ++ w :: post) : pre = a ∧ post = b := by
  induction a generalizing pre with
  | nil =>
    cases pre with
    | nil => simp at he; exact ⟨rfl, he.symm⟩
    | cons y q =>
      simp at he
      exact absurd (by rw [he.2]; simp) hb
  | cons x a' ih =>
    cases pre with
    | nil => simp at he; exact absurd (by simp [he.1]) ha
    | cons y q =>
      simp at he
      obtain ⟨h1, h2⟩ := ih (fun hm => ha (by simp [hm])) he.2
      exact ⟨by rw [h1, he.1], h2⟩

theorem waitAll_main {v : Variant} (hv : v = .executor ∨ v = .forked) (cs : List Chunk) :
    Item.waitAll ∈ mainItems v cs ++ closeItems ∧
      ∀ pre post, mainItems v cs ++ closeItems = pre ++ Item.waitAll :: post → submitIdx post = [] := by
  have hm : mainItems v cs = chunksItems v true 0 cs ++ [.waitAll] := by rcases hv with rfl | rfl <;> simp [mainItems]
  refine ⟨by simp [hm], ?_⟩
  intro pre post he
  rw [hm, List.append_assoc] at he
  -- `waitAll` does not occur among the chunk items, so the split is at the end of them
  have hnot : Item.waitAll ∉ chunksItems v true 0 cs := by
    intro hin
    clear he hm
    generalize 0 = s at hin
    induction cs generalizing s with
    | nil => simp [chunksItems] at hin
    | cons c rest ih =>
      simp only [chunksItems, List.mem_append] at hin
      rcases hin with hin | hin
      · rcases hv with rfl | rfl
        · simp only [chunkItems, flushItems] at hin
          split at hin <;> simp at hin
        · simp [chunkItems] at hin
      · exact ih _ hin
  have hnc : Item.waitAll ∉ closeItems := by simp [closeItems, flushItems]
  obtain ⟨_, hpost⟩ := split_unique hnot hnc (by simpa using he)
  rw [hpost, submitIdx_closeItems]

/-- the main-path facts at the moment `FileSaver.__init__` returns -/
theorem main_start {cs : List Chunk} {v : Variant} {c : Cfg} (hprog : c.prog = mainItems v cs ++ closeItems)
    (hmd : c.md = ⟨[], false, false⟩) (hw : c.workers = [])
    (htemp : ∃ t, c.fs.temp = some t ∧ ∀ x, x ≠ .md → t.get x = none) : Main cs v c := by
  constructor
  · rw [hmd, hprog, pending_main]; rfl
  · intro j hj hn
    left
    rw [hprog, submitIdx_main]
    exact (mem_submitIdx_chunksItems v true cs 0 j).mpr ⟨j, hj, by omega, hn⟩
  · rw [hw, hprog, submitIdx_main]
    simp only [List.map_nil, List.nil_append]
    exact (submitIdx_chunksItems_sorted v true cs 0).1.imp (fun h => Nat.ne_of_lt h)
  · intro i ops hm
    rw [hprog] at hm
    exact submit_mem_main hm
  · intro w hwm; simp [hw] at hwm
  · cases v with
    | serial => simp [Awaited, hw]
    | executor => simp only [Awaited, hw]; left; rw [hprog]; exact waitAll_main (Or.inl rfl) cs
    | forked => simp only [Awaited, hw]; left; rw [hprog]; exact waitAll_main (Or.inr rfl) cs
  · rw [hprog, readIdx_main]; simp
  · intro _ t ht j hj
    obtain ⟨t', ht', hnone⟩ := htemp
    rw [ht] at ht'; injection ht' with ht'; subst ht'
    exact absurd (hnone _ (by simp)) hj
  · intro _; simp [hmd]
  · intro hv; subst hv; rw [hprog]; exact submitJoin_main cs
  · intro hv; subst hv; rw [hprog]; exact ⟨pendApp_forked_main cs, markUnreg_not_forked_main cs⟩
  · intro _; rw [hprog, readIdx_main]
  · intro _ t ht j
    obtain ⟨t', ht', hnone⟩ := htemp
    rw [ht] at ht'; injection ht' with ht'; subst ht'
    exact hnone _ (by simp)
  · rw [hprog]; exact unlinkOK_main v cs
  · intro pre post he
    rw [hprog] at he
    have hnm : Item.collect ∉ mainItems v cs := by
      intro hin; have := rank_mainItems _ hin; simp [rank] at this
    have hce : closeItems = [.waitQuiet, .markClosed, .checkTemp] ++ .collect :: (flushItems .last ++ [.op (.renameDir .temp .final), .finish]) := by
      simp [closeItems]
    rw [hce, ← List.append_assoc] at he
    have hna : Item.collect ∉ mainItems v cs ++ [.waitQuiet, .markClosed, .checkTemp] := by
      simp [hnm]
    obtain ⟨_, hpost⟩ := split_unique hna (by simp [flushItems]) he
    rw [hpost]; simp [notCollected, flushItems]
  · intro hl
    exfalso
    rcases hl with hl | ⟨i, hi⟩
    · rw [hprog, readIdx_main] at hl; exact hl rfl
    · rw [hprog] at hi
      rcases List.mem_append.mp hi with h | h
      · have := rank_mainItems _ h; simp [rank] at this
      · simp [closeItems, flushItems] at h



/-- assembling the invariant for a configuration past `__init__` -/
theorem inv_late {cs : List Chunk} {v : Variant} {c' : Cfg} (hshape : Shape c'.prog) (hk : 16 ≤ hr c'.prog)
    (hwtemp : ∀ w ∈ c'.workers, ∀ o ∈ w.ops, tempOp o = true)
    (hquiet : 18 ≤ hr c'.prog → hr c'.prog ≤ 25 → ∀ w ∈ c'.workers, w.st ≠ .running)
    (hclosed : 19 ≤ hr c'.prog → hr c'.prog ≤ 25 → c'.md.ended = true ∧ c'.md.exc = c'.handling)
    (hsynced : 23 ≤ hr c'.prog → hr c'.prog ≤ 24 → ∃ t, c'.fs.temp = some t ∧ t.get .md = some (.json c'.md))
    (hsafe : SafeFS cs c'.fs) (hhand : c'.handling = true → c'.term = true)
    (hmain : c'.handling = false → 16 ≤ hr c'.prog → hr c'.prog ≤ 25 → Main cs v c')
    (htemp : hr c'.prog ≤ 24 → c'.fs.temp ≠ none) (hterm : 19 ≤ hr c'.prog → hr c'.prog ≤ 25 → c'.term = true)
    (hren : hr c'.prog = 25 → ∃ d, c'.fs.final = some d ∧ d.get .md = some (.json c'.md)) (hside : Side v c') :
    Inv cs v c' := by
  constructor
  · exact hshape
  · exact hwtemp
  · intro h; omega
  · intro h; omega
  · intro h; omega
  · intro _ h; omega
  · exact hquiet
  · exact hclosed
  · exact hsynced
  · exact hsafe
  · exact hhand
  · exact hmain
  · intro _ h24; exact htemp h24
  · exact hterm
  · exact hren
  · exact hside

theorem rank_15_cases {x : Item} (h : rank x = 15) : x = .armed := rank_milestone_unique mem_milestones_armed h

theorem inv_sav_armed {cs : List Chunk} {v : Variant} {c c' : Cfg} (h : Inv cs v c) (hk : hr c.prog = 15)
    (hs : step c .sav = some c') : Inv cs v c' := by
  cases hp : c.prog with
  | nil => simp [hp] at hk
  | cons x rest =>
    rw [hp] at hk; simp only [hr_cons] at hk
    obtain rfl := rank_15_cases hk
    unfold step at hs; simp only [hp] at hs; injection hs with hs; subst hs
    have hsx : Shape (Item.armed :: rest) := hp ▸ h.shape
    have hk15 : hr c.prog ≤ 15 := by rw [hp]; simp [rank]
    have hgt : 15 < hr rest := by have := hsx.hr_rest_gt (by simp [rank]) (by simp [rank]); simpa [rank] using this
    have hle : hr rest ≤ 17 := by
      have := hsx.no_cross mem_milestones_waitQuiet (by simp [rank]) (by simp)
      simpa [rank] using this
    obtain ⟨hterm, hhand, hmd⟩ := h.initFlags hk15
    have hw := h.nowork hk15
    -- the rest of the program is exactly the main program
    have hrest : rest = mainItems v cs ++ closeItems := by
      obtain ⟨pre, he, hpre⟩ := initProg_tail (x := .armed) (by simp [rank]) (hp ▸ h.initProg hk15)
      cases pre with
      | nil => simpa using he
      | cons y q =>
        have : hr rest = rank y := by rw [he]; simp
        have := hpre y (by simp)
        omega
    refine inv_late hsx.tail (by simp only; omega) (by simp [hw]) ?_ ?_ ?_ h.safe ?_ ?_ ?_ ?_ ?_ (h.side.congr rfl rfl rfl rfl rfl)
    · intro h18 _; simp only at h18; omega
    · intro h19 _; simp only at h19; omega
    · intro h23 _; simp only at h23; omega
    · intro hh; simp only at hh; rw [hhand] at hh; simp at hh
    · intro _ _ _
      exact main_start (c := { c with prog := rest, term := false }) hrest hmd hw
        (h.initTemp (by rw [hp]; simp [rank]) (by rw [hp]; simp [rank]))
    · intro _
      obtain ⟨t, ht, _⟩ := h.initTemp (by rw [hp]; simp [rank]) (by rw [hp]; simp [rank])
      simp [ht]
    · intro h19 _; simp only at h19; omega
    · intro h25; simp only at h25; omega

end Strax.FS
