import StraxModel.Model.Selection
import StraxModel.Lemmas.ChunkAlgSplit
import StraxModel.Lemmas.SuperrunBad
/-
  Helper lemmas for property C10 (theory T10 Selection).  Core Lean only.

  Part 1: `mkChunk` / `Chunk.split` without the `do` sugar, and their behaviour on *plain* chunks
  (ordinary stored data: no sub-runs, one super-run entry carrying the run id).
  Part 2: `apply_time_range` on a law-abiding plain chunk: always succeeds, drops only rows that end
  at/before `t0` on the left and rows that start at/after `t1` on the right.
  Part 3: selections over chunk lists.
-/
namespace Strax.Selection
open Strax

/-- the data checks of `Chunk.__init__`: first row not before `start`, no end (of the last 500
rows) after `end` -/
def rowsOkB (rows : List Row) (start stop : Int) : Bool :=
  match rows with
  | [] => true
  | r0 :: _ => !decide (r0.time < start) && (match lastEndMax rows with
      | some e => !decide (e > stop)
      | none => true)

/-- `mkChunk` without the `do` sugar -/
def mkChunkSpec (dataType kind : String) (runId : Option String) (start stop : Int) (rows : List Row)
    (subruns : Option Runs) (superrun : Option Runs) (target : Nat) : Except Err Chunk :=
  let subOk : Bool := match subruns with
    | none => true
    | some s => !runsOverlap (sortRuns s)
  let rowsOk : Bool := rowsOkB rows start stop
  let sup : Option Runs := match superrun with
    | none => (match runId with
        | some rid => some [Run.mk rid start stop]
        | none => none)
    | some s => some s
  if !subOk || decide (start < 0) || decide (start > stop) || !rowsOk then .error .valueError
  else match sup with
    | none => .error .valueError
    | some sup =>
      if sup.isEmpty || (sup.length == 1 && runId.isNone) || runsOverlap (sortRuns sup) then .error .valueError
      else .ok { dataType, kind, runId, start, stop, rows, subruns := subruns.map sortRuns,
                 superrun := sortRuns sup, target }

set_option maxHeartbeats 1000000 in
theorem mkChunk_eq_spec (dt k : String) (rid : Option String) (s e : Int) (rows : List Row)
    (sub sup : Option Runs) (tg : Nat) :
    mkChunk dt k rid s e rows sub sup tg = mkChunkSpec dt k rid s e rows sub sup tg := by
  unfold mkChunk mkChunkSpec rowsOkB
  simp only [bind, Except.bind, pure, Except.pure, throw, throwThe, MonadExceptOf.throw]
  cases sub <;> cases sup <;> cases rid <;> cases rows <;> grind
def splitData (c : Chunk) (t : Int) (early : Bool) : Except Err (List Row × List Row × Int) :=
  if max (min t c.stop) c.start = c.stop then .ok (c.rows, [], max (min t c.stop) c.start)
  else if max (min t c.stop) c.start = c.start then .ok ([], c.rows, max (min t c.stop) c.start)
  else splitArray c.rows (max (min t c.stop) c.start) early

def singleRuns (s : Option Runs) : Bool :=
  match s with
  | none => true
  | some l => l.length == 1

def splitSpec (c : Chunk) (t : Int) (early : Bool) : Except Err (Chunk × Chunk) :=
  match splitData c t early with
  | .error e => .error e
  | .ok (d1, d2, t) =>
    let subs := if c.promisedContinuity then splitRuns c.subruns t else (c.subruns, c.subruns)
    let sups := splitRuns (some c.superrun) t
    let run1 := if singleRuns sups.1 then c.superrun.head?.map (·.id) else c.runId
    let run2 := if singleRuns sups.2 then c.superrun.getLast?.map (·.id) else c.runId
    match mkChunk c.dataType c.kind run1 c.start (max c.start t) d1 subs.1 sups.1 c.target with
    | .error e => .error e
    | .ok c1 =>
      match mkChunk c.dataType c.kind run2 (max c.start t) (max t c.stop) d2 subs.2 sups.2 c.target with
      | .error e => .error e
      | .ok c2 => .ok (c1, c2)

theorem splitCore_eq_spec (c : Chunk) (t : Int) (early : Bool) : c.splitCore t early = splitSpec c t early := by
  unfold Chunk.splitCore splitSpec splitData singleRuns
  simp only [bind, Except.bind, pure, Except.pure]
  split <;> split <;> (try split) <;> simp_all <;> grind

/-- for chunks without sub-runs `is_superrun` cannot raise, so `split` is its core -/
theorem split_eq_spec {c : Chunk} (hsub : c.subruns = none) (t : Int) (early : Bool) :
    c.split t early = splitSpec c t early := by
  rw [Chunk.split_of_not_bad (Chunk.not_bad_of_subruns_none hsub), splitCore_eq_spec]

def Plain (c : Chunk) : Prop :=
  c.subruns = none ∧ ∃ rid a b, c.runId = some rid ∧ c.superrun = [⟨rid, a, b⟩]

/-- an optional run list that is absent or a single entry of run `rid` -/
def SingleOf (rid : String) (s : Option Runs) : Prop := s = none ∨ ∃ x, s = some [x] ∧ x.id = rid

theorem lastEndMax_le {rows : List Row} {B e : Int} (h : ∀ x ∈ rows, x.endt ≤ B)
    (he : lastEndMax rows = some e) : e ≤ B := by
  unfold lastEndMax at he
  split at he
  · cases he
  · rename_i r rs hd
    injection he with he
    subst he
    have hsub : ∀ x ∈ r :: rs, x ∈ rows := by
      intro x hx
      rw [← hd] at hx
      exact List.mem_of_mem_drop hx
    apply maxEnd_le
    · exact h r (hsub r (by simp))
    · intro x hx
      exact h x (hsub x (by simp [hx]))

theorem sortRuns_single (x : Run) : sortRuns [x] = [x] := by
  simp [sortRuns]

theorem rowsOkB_of {rows : List Row} {s e : Int} (hrows : ∀ x ∈ rows, s ≤ x.time ∧ x.endt ≤ e) :
    rowsOkB rows s e = true := by
  unfold rowsOkB
  cases rows with
  | nil => rfl
  | cons r0 tl =>
    have h0 := (hrows r0 (by simp)).1
    simp only [Bool.and_eq_true, Bool.not_eq_true', decide_eq_false_iff_not]
    refine ⟨by omega, ?_⟩
    split
    · rename_i e' he'
      have := lastEndMax_le (fun x hx => (hrows x hx).2) he'
      simp; omega
    · rfl

theorem mkChunk_plain {dt k rid : String} {s e : Int} {rows : List Row} {sup : Option Runs} {tg : Nat}
    (hs : 0 ≤ s) (hse : s ≤ e) (hrows : ∀ x ∈ rows, s ≤ x.time ∧ x.endt ≤ e) (hsup : SingleOf rid sup) :
    ∃ c, mkChunk dt k (some rid) s e rows none sup tg = .ok c ∧ c.rows = rows ∧ c.start = s ∧ c.stop = e ∧
      c.dataType = dt ∧ c.kind = k ∧ c.target = tg ∧ Plain c := by
  rw [mkChunk_eq_spec]
  unfold mkChunkSpec
  have h1 : ¬ s < 0 := by omega
  have h2 : ¬ s > e := by omega
  rcases hsup with rfl | ⟨x, rfl, hx⟩
  · simp [rowsOkB_of hrows, sortRuns_single, runsOverlap, Plain, h1, h2]
  · simp [rowsOkB_of hrows, sortRuns_single, runsOverlap, Plain, ← hx, h1, h2]
    exact ⟨x.start, x.stop, rfl⟩

theorem popEmpty_single (rid : String) (l : Runs) (hl : l = [] ∨ ∃ x, l = [x] ∧ x.id = rid) :
    SingleOf rid (popEmpty l) := by
  unfold popEmpty SingleOf
  rcases hl with rfl | ⟨x, rfl, hx⟩
  · simp
  · by_cases h : (x.start != x.stop) = true
    · right; exact ⟨x, by simp [List.filter, h], hx⟩
    · left; simp [List.filter, h]

theorem splitRuns_single (rid : String) (a b t : Int) :
    SingleOf rid (splitRuns (some [⟨rid, a, b⟩]) t).1 ∧ SingleOf rid (splitRuns (some [⟨rid, a, b⟩]) t).2 := by
  simp only [splitRuns, splitRunsList]
  split <;> (try split) <;> exact ⟨popEmpty_single rid _ (by simp), popEmpty_single rid _ (by simp)⟩

theorem singleRuns_of {rid : String} {s : Option Runs} (h : SingleOf rid s) : singleRuns s = true := by
  rcases h with rfl | ⟨x, rfl, -⟩ <;> simp [singleRuns]

structure ChunkOK (c : Chunk) : Prop where
  start_nonneg : 0 ≤ c.start
  start_le : c.start ≤ c.stop
  rows_in : ∀ x ∈ c.rows, c.start ≤ x.time ∧ x.time < x.endt ∧ x.endt ≤ c.stop
  sorted : SortedByTime c.rows

/-- facts about the data split that `Chunk.split` is built on -/
theorem splitData_facts {c : Chunk} {t : Int} {early : Bool} {l r : List Row} {t' : Int} (hc : ChunkOK c)
    (h : splitData c t early = .ok (l, r, t')) :
    l ++ r = c.rows ∧ (∀ x ∈ l, x.endt ≤ t') ∧ (∀ x ∈ r, t' ≤ x.time) ∧ t' ≤ max (min t c.stop) c.start := by
  unfold splitData at h
  split at h
  · rename_i he
    injection h with h; injection h with h1 h; injection h with h2 h3
    subst h1 h2 h3
    refine ⟨by simp, ?_, by simp, by omega⟩
    intro x hx
    have := (hc.rows_in x hx).2.2
    omega
  · split at h
    · rename_i he
      injection h with h; injection h with h1 h; injection h with h2 h3
      subst h1 h2 h3
      refine ⟨by simp, by simp, ?_, by omega⟩
      intro x hx
      have := (hc.rows_in x hx).1
      omega
    · have hsep := splitArray_sep hc.sorted h
      exact ⟨splitArray_append h, hsep.1, hsep.2, splitArray_time_le h⟩

theorem promised_of_plain {c : Chunk} (hp : Plain c) : c.promisedContinuity = true := by
  unfold Chunk.promisedContinuity Chunk.isSuperrun
  simp [hp.1]

theorem split_plain {c : Chunk} {t : Int} {early : Bool} {l r : List Row} {t' : Int} (hc : ChunkOK c)
    (hp : Plain c) (h : splitData c t early = .ok (l, r, t')) :
    ∃ c1 c2, c.split t early = .ok (c1, c2) ∧ c1.rows = l ∧ c2.rows = r ∧ c1.start = c.start ∧
      c1.stop = max c.start t' ∧ c2.start = max c.start t' ∧ c2.stop = max t' c.stop ∧ Plain c1 ∧ Plain c2 := by
  obtain ⟨happ, hl, hr, ht⟩ := splitData_facts hc h
  have hprom := promised_of_plain hp
  obtain ⟨hsub, rid, a, b, hrid, hsup⟩ := hp
  have hsing := splitRuns_single rid a b t'
  have hrows1 : ∀ x ∈ l, c.start ≤ x.time ∧ x.endt ≤ max c.start t' := by
    intro x hx
    have h1 := hc.rows_in x (by rw [← happ]; simp [hx])
    have h2 := hl x hx
    omega
  have hrows2 : ∀ x ∈ r, max c.start t' ≤ x.time ∧ x.endt ≤ max t' c.stop := by
    intro x hx
    have h1 := hc.rows_in x (by rw [← happ]; simp [hx])
    have h2 := hr x hx
    omega
  have hs := hc.start_nonneg
  have hse := hc.start_le
  obtain ⟨c1, hc1, h1r, h1s, h1e, -, -, -, hp1⟩ := mkChunk_plain (dt := c.dataType) (k := c.kind) (rid := rid)
    (tg := c.target) hs (show c.start ≤ max c.start t' by omega) hrows1 hsing.1
  obtain ⟨c2, hc2, h2r, h2s, h2e, -, -, -, hp2⟩ := mkChunk_plain (dt := c.dataType) (k := c.kind) (rid := rid)
    (tg := c.target) (show 0 ≤ max c.start t' by omega) (show max c.start t' ≤ max t' c.stop by omega) hrows2 hsing.2
  refine ⟨c1, c2, ?_, h1r, h2r, h1s, h1e, h2s, h2e, hp1, hp2⟩
  rw [split_eq_spec hsub]
  unfold splitSpec
  rw [h]
  simp only [hprom, if_true, hsub, hsup]
  have e1 : splitRuns none t' = (none, none) := rfl
  rw [e1]
  simp only [singleRuns_of hsing.1, singleRuns_of hsing.2, if_true, List.head?_cons, List.getLast?_singleton,
    Option.map_some]
  rw [hc1, hc2]

theorem split_error_of_data {c : Chunk} {t : Int} {early : Bool} {e : Err} (hsub : c.subruns = none)
    (h : splitData c t early = .error e) : c.split t early = .error e := by
  rw [split_eq_spec hsub]
  unfold splitSpec
  rw [h]

theorem splitData_early_ok (c : Chunk) (t : Int) : ∃ res, splitData c t true = .ok res := by
  unfold splitData
  split
  · exact ⟨_, rfl⟩
  · split
    · exact ⟨_, rfl⟩
    · exact splitArray_early_ok _ _

theorem splitData_strict {c : Chunk} {t : Int} :
    (∃ l r, splitData c t false = .ok (l, r, max (min t c.stop) c.start)) ∨
      splitData c t false = .error .cannotSplit := by
  unfold splitData
  split
  · left; exact ⟨_, _, rfl⟩
  · split
    · left; exact ⟨_, _, rfl⟩
    · cases hres : splitArray c.rows (max (min t c.stop) c.start) false with
      | error e =>
        right
        rw [splitArray_strict_error hres]
      | ok v =>
        obtain ⟨l, r, t'⟩ := v
        have := splitArray_strict hres
        subst this
        left; exact ⟨l, r, rfl⟩

theorem trimLeft_ok {c : Chunk} (r : Range) (hc : ChunkOK c) (hp : Plain c) :
    ∃ c', trimLeft c r = .ok c' ∧ ChunkOK c' ∧ Plain c' ∧
      ∃ d, c.rows = d ++ c'.rows ∧ ∀ x ∈ d, x.endt ≤ r.1 := by
  unfold trimLeft
  split
  · rename_i hlt
    obtain ⟨⟨l, r', t'⟩, hd⟩ := splitData_early_ok c r.1
    obtain ⟨happ, hl, hr, ht⟩ := splitData_facts hc hd
    obtain ⟨c1, c2, hsplit, -, h2r, -, -, h2s, h2e, -, hp2⟩ := split_plain hc hp hd
    rw [hsplit]
    refine ⟨c2, rfl, ?_, hp2, l, by rw [h2r, happ], ?_⟩
    · have hs := hc.start_nonneg
      have hse := hc.start_le
      refine ⟨by omega, by omega, ?_, ?_⟩
      · intro x hx
        rw [h2r] at hx
        have h1 := hc.rows_in x (by rw [← happ]; simp [hx])
        have h2 := hr x hx
        omega
      · rw [h2r]
        have := hc.sorted
        rw [← happ] at this
        exact this.append_right
    · intro x hx
      have := hl x hx
      omega
  · exact ⟨c, rfl, hc, hp, [], by simp, by simp⟩

theorem trimRight_ok {c : Chunk} (r : Range) (hc : ChunkOK c) (hp : Plain c) :
    ∃ c', trimRight c r = .ok c' ∧ ∃ d, c.rows = c'.rows ++ d ∧ ∀ x ∈ d, r.2 ≤ x.time := by
  unfold trimRight
  split
  · rename_i hgt
    rcases splitData_strict (c := c) (t := r.2) with ⟨l, r', hd⟩ | herr
    · obtain ⟨happ, hl, hr, ht⟩ := splitData_facts hc hd
      obtain ⟨c1, c2, hsplit, h1r, -, -, -, -, -, -, -⟩ := split_plain hc hp hd
      rw [hsplit]
      refine ⟨c1, rfl, r', by rw [h1r, happ], ?_⟩
      intro x hx
      have := hr x hx
      omega
    · rw [split_error_of_data hp.1 herr]
      exact ⟨c, rfl, [], by simp, by simp⟩
  · exact ⟨c, rfl, [], by simp, by simp⟩

theorem applyTimeRange_ok {c : Chunk} (r : Range) (hc : ChunkOK c) (hp : Plain c) :
    ∃ c', applyTimeRange c r = .ok c' ∧ ∃ d1 d2, c.rows = d1 ++ c'.rows ++ d2 ∧
      (∀ x ∈ d1, x.endt ≤ r.1) ∧ (∀ x ∈ d2, r.2 ≤ x.time) := by
  obtain ⟨c1, h1, hc1, hp1, d1, hd1, hx1⟩ := trimLeft_ok r hc hp
  obtain ⟨c2, h2, d2, hd2, hx2⟩ := trimRight_ok r hc1 hp1
  unfold applyTimeRange
  rw [h1]
  simp only
  rw [h2]
  exact ⟨c2, rfl, d1, d2, by rw [hd1, hd2]; simp, hx1, hx2⟩
/-! ### Part 3: selections over chunk lists -/

def RealMode (m : Mode) : Prop := m = .fullyContained ∨ m = .touching
instance (m : Mode) : Decidable (RealMode m) := by unfold RealMode; infer_instance

theorem inRange_left_false {m : Mode} {r : Range} {x : Row} (hm : RealMode m) (hpos : x.time < x.endt)
    (h : x.endt ≤ r.1) : inRange m r x = false := by
  rcases hm with rfl | rfl <;> simp [inRange] <;> omega

theorem inRange_right_false {m : Mode} {r : Range} {x : Row} (hm : RealMode m) (hpos : x.time < x.endt)
    (h : r.2 ≤ x.time) : inRange m r x = false := by
  rcases hm with rfl | rfl <;> simp [inRange] <;> omega

theorem select_append (m : Mode) (r : Range) (p : Row → Bool) (a b : List Row) :
    select m r p (a ++ b) = select m r p a ++ select m r p b := by
  simp [select]

theorem select_nil_of {m : Mode} {r : Range} {p : Row → Bool} {l : List Row}
    (h : ∀ x ∈ l, inRange m r x = false) : select m r p l = [] := by
  simp only [select, List.filter_eq_nil_iff]
  intro x hx
  simp [h x hx]

theorem select_trim {m : Mode} {r : Range} {p : Row → Bool} {d1 mid d2 : List Row} (hm : RealMode m)
    (hpos : ∀ x ∈ d1 ++ mid ++ d2, x.time < x.endt)
    (h1 : ∀ x ∈ d1, x.endt ≤ r.1) (h2 : ∀ x ∈ d2, r.2 ≤ x.time) :
    select m r p (d1 ++ mid ++ d2) = select m r p mid := by
  rw [select_append, select_append,
    select_nil_of (fun x hx => inRange_left_false hm (hpos x (by simp [hx])) (h1 x hx)),
    select_nil_of (fun x hx => inRange_right_false hm (hpos x (by simp [hx])) (h2 x hx))]
  simp

theorem select_pruned {m : Mode} {r : Range} {p : Row → Bool} {c : Chunk} (hm : RealMode m)
    (hc : ChunkOK c) (hp : pruned c r = true) : select m r p c.rows = [] := by
  apply select_nil_of
  intro x hx
  have hin := hc.rows_in x hx
  simp only [pruned, Bool.or_eq_true, decide_eq_true_eq] at hp
  rcases hp with hp | hp
  · exact inRange_left_false hm hin.2.1 (by omega)
  · exact inRange_right_false hm hin.2.1 (by omega)

theorem select_applyTimeRange {m : Mode} {r : Range} {p : Row → Bool} {c : Chunk} (hm : RealMode m)
    (hc : ChunkOK c) (hp : Plain c) :
    ∃ c', applyTimeRange c r = .ok c' ∧ select m r p c'.rows = select m r p c.rows := by
  obtain ⟨c', h, d1, d2, hrows, h1, h2⟩ := applyTimeRange_ok r hc hp
  refine ⟨c', h, ?_⟩
  rw [hrows]
  symm
  apply select_trim hm _ h1 h2
  intro x hx
  rw [← hrows] at hx
  exact (hc.rows_in x hx).2.1

theorem mapE_cons {α β : Type} (f : α → Except Err β) (a : α) (l : List α) :
    mapE f (a :: l) = match f a with
      | .error e => .error e
      | .ok b => match mapE f l with
        | .error e => .error e
        | .ok bs => .ok (b :: bs) := rfl

theorem allRows_cons (c : Chunk) (cs : List Chunk) : allRows (c :: cs) = c.rows ++ allRows cs := by
  simp [allRows]

/-- the loader on a list of law-abiding plain chunks: total, keeps exactly the selected rows, and yields
no chunk iff every chunk was pruned -/
theorem loadRange_spec (s : List Chunk) (r : Range) (hs : ∀ c ∈ s, ChunkOK c ∧ Plain c) :
    ∃ cs, loadRange s r = .ok cs ∧
      (∀ m p, RealMode m → cs.flatMap (fun c => select m r p c.rows) = select m r p (allRows s)) ∧
      (cs = [] ↔ ∀ c ∈ s, pruned c r = true) := by
  induction s with
  | nil => exact ⟨[], rfl, by intro m p _; simp [allRows, select], by simp⟩
  | cons c rest ih =>
    obtain ⟨cs, hload, hsel, hnil⟩ := ih (fun c hc => hs c (by simp [hc]))
    obtain ⟨hc, hp⟩ := hs c (by simp)
    unfold loadRange at hload ⊢
    by_cases hpr : pruned c r = true
    · refine ⟨cs, ?_, ?_, ?_⟩
      · simpa [List.filter, hpr] using hload
      · intro m p hm
        rw [allRows_cons, select_append, select_pruned hm hc hpr, hsel m p hm]
        simp
      · rw [hnil]; simp [hpr]
    · obtain ⟨c', hc', -⟩ := select_applyTimeRange (m := .touching) (r := r) (p := fun _ => true) (Or.inr rfl) hc hp
      refine ⟨c' :: cs, ?_, ?_, ?_⟩
      · have : List.filter (fun c => !pruned c r) (c :: rest) = c :: List.filter (fun c => !pruned c r) rest := by
          simp [List.filter, hpr]
        rw [this, mapE_cons, hc']
        simp only
        rw [hload]
      · intro m p hm
        obtain ⟨c'', hc'', hsel'⟩ := select_applyTimeRange (m := m) (r := r) (p := p) hm hc hp
        rw [hc'] at hc''
        injection hc'' with hc''
        subst hc''
        rw [allRows_cons, select_append, ← hsel', ← hsel m p hm]
        simp
      · simp [hpr]


/-! ### from the decidable hypotheses to the `Prop` forms used above -/

theorem plain_of_plainB {c : Chunk} (h : plainB c = true) : Plain c := by
  unfold plainB at h
  simp only [Bool.and_eq_true, Option.isNone_iff_eq_none] at h
  refine ⟨h.1, ?_⟩
  have h2 := h.2
  split at h2
  · rename_i rid hr
    exact ⟨rid, c.start, c.stop, hr, by simpa using h2⟩
  · cases h2

theorem sorted_of_flatMap {cs : List Chunk} (h : SortedByTime (cs.flatMap (·.rows))) :
    ∀ c ∈ cs, SortedByTime c.rows := by
  induction cs with
  | nil => simp
  | cons c rest ih =>
    simp only [List.flatMap_cons] at h
    intro x hx
    simp at hx
    rcases hx with rfl | hx
    · exact h.append_left
    · exact ih h.append_right x hx

theorem chunks_of_lawAbiding {cs : List Chunk} (h : LawAbiding cs) : ∀ c ∈ cs, ChunkOK c ∧ Plain c := by
  unfold LawAbiding lawAbidingB at h
  simp only [Bool.and_eq_true, List.all_eq_true] at h
  obtain ⟨⟨⟨hok, -⟩, hsorted⟩, hplain⟩ := h
  have hsorted' := sorted_of_flatMap ((sortedByTimeB_iff _).1 hsorted)
  intro c hc
  refine ⟨?_, plain_of_plainB (hplain c hc)⟩
  have := hok c hc
  unfold chunkOKB at this
  simp only [Bool.and_eq_true, decide_eq_true_eq, List.all_eq_true] at this
  exact ⟨this.1.1, this.1.2, fun x hx => ⟨(this.2 x hx).1.1, (this.2 x hx).1.2, (this.2 x hx).2⟩, hsorted' c hc⟩

theorem adjacent_of_lawAbiding {cs : List Chunk} (h : LawAbiding cs) : adjacentB cs = true := by
  unfold LawAbiding lawAbidingB at h
  simp only [Bool.and_eq_true] at h
  exact h.1.1.2

/-! ### a proper range sees no chunk iff it is disjoint from the span of the layout -/

/-- end of the last chunk -/
def lastStop : Chunk → List Chunk → Int
  | c, [] => c.stop
  | _, c2 :: rest => lastStop c2 rest

theorem span_cons (c : Chunk) (rest : List Chunk) : span (c :: rest) = some (c.start, lastStop c rest) := by
  induction rest generalizing c with
  | nil => simp [span, lastStop]
  | cons c2 rest ih =>
    have := ih c2
    simp only [span, lastStop, Option.some.injEq, Prod.mk.injEq, true_and] at this ⊢
    rw [← this]
    simp

theorem exists_unpruned {c : Chunk} {rest : List Chunk} {r : Range} (hadj : adjacentB (c :: rest) = true)
    (hr : r.1 < r.2) (h1 : c.start < r.2) (h2 : r.1 < lastStop c rest) :
    ∃ x ∈ c :: rest, pruned x r = false := by
  induction rest generalizing c with
  | nil =>
    refine ⟨c, by simp, ?_⟩
    simp only [lastStop] at h2
    simp [pruned]; omega
  | cons c2 rest ih =>
    simp only [adjacentB, Bool.and_eq_true, decide_eq_true_eq] at hadj
    by_cases hp : pruned c r = false
    · exact ⟨c, by simp, hp⟩
    · have hp' : pruned c r = true := by
        cases hh : pruned c r
        · exact absurd hh hp
        · rfl
      simp only [pruned, Bool.or_eq_true, decide_eq_true_eq] at hp'
      have hstop : c.stop ≤ r.1 := by omega
      obtain ⟨x, hx, hpx⟩ := ih hadj.2 (by omega) (by simpa [lastStop] using h2)
      exact ⟨x, by simp at hx ⊢; right; exact hx, hpx⟩

theorem bounds_of_chunks {c : Chunk} {rest : List Chunk} (hadj : adjacentB (c :: rest) = true)
    (hok : ∀ x ∈ c :: rest, x.start ≤ x.stop) :
    ∀ x ∈ c :: rest, c.start ≤ x.start ∧ x.stop ≤ lastStop c rest := by
  induction rest generalizing c with
  | nil => intro x hx; simp at hx; subst hx; simp [lastStop]
  | cons c2 rest ih =>
    simp only [adjacentB, Bool.and_eq_true, decide_eq_true_eq] at hadj
    have hc := hok c (by simp)
    have hc2 := hok c2 (by simp)
    have := ih hadj.2 (fun x hx => hok x (by simp at hx ⊢; right; exact hx))
    intro x hx
    simp only [List.mem_cons] at hx
    rcases hx with rfl | hx
    · have h2 := this c2 (by simp)
      simp only [lastStop]
      omega
    · have h2 := this x (by simpa using hx)
      simp only [lastStop]
      omega

theorem all_pruned_iff {s : List Chunk} {r : Range} {S E : Int} (hs : LawAbiding s) (hspan : span s = some (S, E))
    (hr : r.1 < r.2) : (∀ c ∈ s, pruned c r = true) ↔ (r.2 ≤ S ∨ E ≤ r.1) := by
  cases s with
  | nil => simp [span] at hspan
  | cons c rest =>
    rw [span_cons] at hspan
    injection hspan with hspan
    injection hspan with hS hE
    subst hS hE
    have hadj := adjacent_of_lawAbiding hs
    have hchunks := chunks_of_lawAbiding hs
    constructor
    · intro hall
      apply Classical.byContradiction
      intro hno
      obtain ⟨x, hx, hpx⟩ := exists_unpruned hadj hr (by omega) (by omega)
      rw [hall x hx] at hpx
      cases hpx
    · intro h x hx
      have hb := bounds_of_chunks hadj (fun y hy => (hchunks y hy).1.start_le) x hx
      simp only [pruned, Bool.or_eq_true, decide_eq_true_eq]
      omega

/-! ### `apply_selection` is a fixed row filter plus a fixed column list, or a fixed error -/

/-- the row filter `apply_selection` applies (for the modes that do not raise) -/
def keepFn (s : Sel) (r : Option Range) : Row → Bool := fun x =>
  (match r with
   | none => true
   | some r => inRange s.mode r x) && s.predFn x

theorem projectCols_error {fields keep drop : List String} {e : Err}
    (h : projectCols fields keep drop = .error e) : e = .valueError := by
  unfold projectCols at h
  grind

theorem filter_flatten_map {α : Type} (f : Row → Bool) (cols : α) (l : List (List Row)) :
    (l.map (fun rows => (rows.filter f, cols))).flatMap (·.1) = l.flatten.filter f := by
  induction l with
  | nil => rfl
  | cons a l ih => simp [List.flatMap_cons, List.filter_append, ih]

theorem filter_flatten_rows (f : Row → Bool) (cs : List Chunk) :
    (cs.map (·.rows)).flatten.filter f = cs.flatMap (fun c => c.rows.filter f) := by
  induction cs with
  | nil => rfl
  | cons a l ih => simp [List.flatMap_cons, List.filter_append, ih]

theorem applySelection_shape (fields : List String) (s : Sel) (r : Option Range) :
    (∀ rows, applySelection fields s r rows = .error .valueError) ∨
    (∃ cols, ∀ rows, applySelection fields s r rows = .ok (rows.filter (keepFn s r), cols)) := by
  unfold applySelection keepFn Sel.predFn
  by_cases hb : (!s.drop.isEmpty && !s.keep.isEmpty) = true
  · left; intro rows; simp [hb]
  · cases hcols : projectCols fields s.keep s.drop with
    | error e =>
      left; intro rows
      have he : e = .valueError := projectCols_error hcols
      subst he
      simp only [hb]
      cases r with
      | none => simp
      | some r => cases hm : s.mode <;> simp
    | ok cols =>
      cases r with
      | none =>
        right; refine ⟨cols, ?_⟩; intro rows
        cases hp : s.pred
        · simp only [hb, Bool.false_eq_true, if_false]
          congr 2
          exact (List.filter_eq_self.2 (by simp)).symm
        · simp [hb]
      | some r =>
        cases hm : s.mode
        case unknown => left; intro rows; simp [hb]
        all_goals
          right; refine ⟨cols, ?_⟩; intro rows
          cases hp : s.pred <;> simp [hb, List.filter_filter, Bool.and_comm]

theorem mapE_ok_of {α β : Type} {f : α → Except Err β} {g : α → β} (h : ∀ a, f a = .ok (g a)) (l : List α) :
    mapE f l = .ok (l.map g) := by
  induction l with
  | nil => rfl
  | cons a l ih => rw [mapE_cons, h a]; simp only; rw [ih]; rfl

theorem mapE_error_of {α β : Type} {f : α → Except Err β} {e : Err} (h : ∀ a, f a = .error e) (a : α) (l : List α) :
    mapE f (a :: l) = .error e := by
  rw [mapE_cons, h a]

/-- selecting chunk by chunk and concatenating = selecting once on the concatenated rows: rows,
column list and error alike (`get_array` sees at least one chunk) -/
theorem collect_eq (fields : List String) (s : Sel) (r : Option Range) (c : List Row) (chunks : List (List Row)) :
    collect fields s r (c :: chunks) = applySelection fields s r (c :: chunks).flatten := by
  unfold collect
  rcases applySelection_shape fields s r with herr | ⟨cols, hok⟩
  · rw [mapE_error_of herr, herr]
  · rw [mapE_ok_of (g := fun rows => (rows.filter (keepFn s r), cols)) hok, hok]
    have := filter_flatten_map (keepFn s r) cols (c :: chunks)
    simp only [List.map_cons] at this ⊢
    rw [this]

theorem collect_nil (fields : List String) (s : Sel) (r : Range) :
    collect fields s (some r) [] = .error .valueError := rfl

theorem collect_nil_none (fields : List String) (s : Sel) :
    collect fields s none [] = .error .dataCorrupted := rfl

theorem keepFn_eq_select (s : Sel) (r : Range) (rows : List Row) :
    rows.filter (keepFn s (some r)) = select s.mode r s.predFn rows := rfl

/-- `get_array` of a law-abiding stored layout with a time range -/
theorem getArray_range {fields : List String} {s : List Chunk} {a : TimeArgs} {sel : Sel} {r : Range}
    (hs : LawAbiding s) (hne : s ≠ []) (hm : RealMode sel.mode) (ha : toAbsolute s a = .ok (some r)) :
    getArray fields s a sel =
      if s.all (fun c => pruned c r) then .error .valueError
      else applySelection fields sel (some r) (allRows s) := by
  obtain ⟨cs, hload, hsel, hnil⟩ := loadRange_spec s r (chunks_of_lawAbiding hs)
  unfold getArray loader
  rw [ha]
  have : s.isEmpty = false := by cases s <;> simp_all
  simp only [this, Bool.false_eq_true, if_false, hload]
  cases cs with
  | nil =>
    have hall := hnil.1 rfl
    have : s.all (fun c => pruned c r) = true := by simpa [List.all_eq_true] using hall
    simp [this, collect_nil]
  | cons c cs =>
    have hnot : ¬ (s.all (fun c => pruned c r) = true) := by
      intro hall
      have := hnil.2 (by simpa [List.all_eq_true] using hall)
      cases this
    simp only [List.map_cons, hnot, if_false, Bool.false_eq_true]
    rw [collect_eq]
    rcases applySelection_shape fields sel (some r) with herr | ⟨cols, hok⟩
    · rw [herr, herr]
    · rw [hok, hok, ← List.map_cons, filter_flatten_rows, keepFn_eq_select, ← hsel sel.mode sel.predFn hm]
      rfl

/-- `get_array` of a stored layout without any time argument -/
theorem getArray_norange {fields : List String} {s : List Chunk} {a : TimeArgs} {sel : Sel}
    (hne : s ≠ []) (ha : toAbsolute s a = .ok none) :
    getArray fields s a sel = applySelection fields sel none (allRows s) := by
  unfold getArray loader
  rw [ha]
  cases s with
  | nil => exact absurd rfl hne
  | cons c cs =>
    simp only [List.isEmpty_cons, Bool.false_eq_true, if_false, List.map_cons]
    rw [collect_eq]
    congr 1

/-! ### Part 4: validity of the selection arguments, time arguments -/

/-- keep / drop lists are acceptable for these fields (not both, no unknown kept column) -/
def colsValidB (fields : List String) (sel : Sel) : Bool :=
  match projectCols fields sel.keep sel.drop with
  | .ok _ => true
  | .error _ => false

theorem projectCols_both {fields keep drop : List String} (h : (!drop.isEmpty && !keep.isEmpty) = true) :
    projectCols fields keep drop = .error .valueError := by
  unfold projectCols
  simp [h]

theorem applySelection_ok_of {fields : List String} {sel : Sel} (r : Option Range)
    (hc : colsValidB fields sel = true) (hm : sel.mode ≠ .unknown) :
    ∃ cols, projectCols fields sel.keep sel.drop = .ok cols ∧
      ∀ rows, applySelection fields sel r rows = .ok (rows.filter (keepFn sel r), cols) := by
  unfold colsValidB at hc
  split at hc
  · rename_i cols hcols
    refine ⟨cols, hcols, ?_⟩
    rcases applySelection_shape fields sel r with herr | ⟨cols', hok⟩
    · exfalso
      have hb : ¬ ((!sel.drop.isEmpty && !sel.keep.isEmpty) = true) := by
        intro hb
        rw [projectCols_both hb] at hcols
        cases hcols
      have := herr []
      unfold applySelection at this
      simp only [hb, hcols] at this
      cases r with
      | none => cases hp : sel.pred <;> simp [hp] at this
      | some r =>
        cases hmode : sel.mode
        case unknown => exact hm hmode
        all_goals (cases hp : sel.pred <;> simp [hp, hmode] at this)
    · intro rows
      have h1 := hok []
      unfold applySelection at h1
      have hb : ¬ ((!sel.drop.isEmpty && !sel.keep.isEmpty) = true) := by
        intro hb
        rw [projectCols_both hb] at hcols
        cases hcols
      simp only [hb, hcols] at h1
      have : cols' = cols := by
        cases r with
        | none => cases hp : sel.pred <;> simp [hp] at h1 <;> exact h1.symm
        | some r =>
          cases hmode : sel.mode
          case unknown => exact absurd hmode hm
          all_goals (cases hp : sel.pred <;> simp [hp, hmode] at h1 <;> exact h1.symm)
      rw [hok rows, this]
  · cases hc

theorem runStart_of_span {s : List Chunk} {S E : Int} (h : span s = some (S, E)) :
    runStart s = .ok ((S / nsPerS) * nsPerS) := by
  cases s with
  | nil => simp [span] at h
  | cons c rest =>
    rw [span_cons] at h
    injection h with h
    injection h with h1 h2
    subst h1
    rfl

theorem toAbsolute_congr {s1 s2 : List Chunk} {S E : Int} (a : TimeArgs) (h1 : span s1 = some (S, E))
    (h2 : span s2 = some (S, E)) : toAbsolute s1 a = toAbsolute s2 a := by
  unfold toAbsolute estimateRunStart
  rw [runStart_of_span h1, runStart_of_span h2]

theorem ne_nil_of_span {s : List Chunk} {S E : Int} (h : span s = some (S, E)) : s ≠ [] := by
  intro hs; subst hs; simp [span] at h

theorem getArray_error_toAbsolute {fields : List String} {s : List Chunk} {a : TimeArgs} {sel : Sel} {e : Err}
    (h : toAbsolute s a = .error e) : getArray fields s a sel = .error e := by
  unfold getArray
  rw [h]

end Strax.Selection
