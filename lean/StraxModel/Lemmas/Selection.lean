import StraxModel.Model.Selection
import StraxModel.Lemmas.ChunkAlg
/-
  Helper lemmas for property C10 (theory T10 Selection).  Core Lean only.

  Part 1: `mkChunk` / `Chunk.split` without the `do` sugar, and their behaviour on *plain* chunks
  (ordinary stored data: no sub-runs, one super-run entry carrying the run id).
  Part 2: `apply_time_range` on a law-abiding plain chunk: always succeeds, drops only rows that end
  at/before `t0` on the left and rows that start at/after `t1` on the right.
  Part 3: selections over chunk lists.
-/
namespace Strax.Selection
open Strax

/-- the data checks of `Chunk.__init__`: first row not before `start`, no end (of the last 500
rows) after `end` -/
def rowsOkB (rows : List Row) (start stop : Int) : Bool :=
  match rows with
  | [] => true
  | r0 :: _ => !decide (r0.time < start) && (match lastEndMax rows with
      | some e => !decide (e > stop)
      | none => true)

/-- `mkChunk` without the `do` sugar -/
def mkChunkSpec (dataType kind : String) (runId : Option String) (start stop : Int) (rows : List Row)
    (subruns : Option Runs) (superrun : Option Runs) (target : Nat) : Except Err Chunk :=
  let subOk : Bool := match subruns with
    | none => true
    | some s => !runsOverlap (sortRuns s)
  let rowsOk : Bool := rowsOkB rows start stop
  let sup : Option Runs := match superrun with
    | none => (match runId with
        | some rid => some [Run.mk rid start stop]
        | none => none)
    | some s => some s
  if !subOk || decide (start < 0) || decide (start > stop) || !rowsOk then .error .valueError
  else match sup with
    | none => .error .valueError
    | some sup =>
      if sup.isEmpty || (sup.length == 1 && runId.isNone) || runsOverlap (sortRuns sup) then .error .valueError
      else .ok { dataType, kind, runId, start, stop, rows, subruns := subruns.map sortRuns,
                 superrun := sortRuns sup, target }

set_option maxHeartbeats 1000000 in
theorem mkChunk_eq_spec (dt k : String) (rid : Option String) (s e : Int) (rows : List Row)
    (sub sup : Option Runs) (tg : Nat) :
    mkChunk dt k rid s e rows sub sup tg = mkChunkSpec dt k rid s e rows sub sup tg := by
  unfold mkChunk mkChunkSpec rowsOkB
  simp only [bind, Except.bind, pure, Except.pure, throw, throwThe, MonadExceptOf.throw]
  cases sub <;> cases sup <;> cases rid <;> cases rows <;> grind
def splitData (c : Chunk) (t : Int) (early : Bool) : Except Err (List Row × List Row × Int) :=
  if max (min t c.stop) c.start = c.stop then .ok (c.rows, [], max (min t c.stop) c.start)
  else if max (min t c.stop) c.start = c.start then .ok ([], c.rows, max (min t c.stop) c.start)
  else splitArray c.rows (max (min t c.stop) c.start) early

def singleRuns (s : Option Runs) : Bool :=
  match s with
  | none => true
  | some l => l.length == 1

def splitSpec (c : Chunk) (t : Int) (early : Bool) : Except Err (Chunk × Chunk) :=
  match splitData c t early with
  | .error e => .error e
  | .ok (d1, d2, t) =>
    let subs := if c.promisedContinuity then splitRuns c.subruns t else (c.subruns, c.subruns)
    let sups := splitRuns (some c.superrun) t
    let run1 := if singleRuns sups.1 then c.superrun.head?.map (·.id) else c.runId
    let run2 := if singleRuns sups.2 then c.superrun.getLast?.map (·.id) else c.runId
    match mkChunk c.dataType c.kind run1 c.start (max c.start t) d1 subs.1 sups.1 c.target with
    | .error e => .error e
    | .ok c1 =>
      match mkChunk c.dataType c.kind run2 (max c.start t) (max t c.stop) d2 subs.2 sups.2 c.target with
      | .error e => .error e
      | .ok c2 => .ok (c1, c2)

theorem split_eq_spec (c : Chunk) (t : Int) (early : Bool) : c.split t early = splitSpec c t early := by
  unfold Chunk.split splitSpec splitData singleRuns
  simp only [bind, Except.bind, pure, Except.pure]
  split <;> split <;> (try split) <;> simp_all <;> grind

def Plain (c : Chunk) : Prop :=
  c.subruns = none ∧ ∃ rid a b, c.runId = some rid ∧ c.superrun = [⟨rid, a, b⟩]

/-- an optional run list that is absent or a single entry of run `rid` -/
def SingleOf (rid : String) (s : Option Runs) : Prop := s = none ∨ ∃ x, s = some [x] ∧ x.id = rid

theorem lastEndMax_le {rows : List Row} {B e : Int} (h : ∀ x ∈ rows, x.endt ≤ B)
    (he : lastEndMax rows = some e) : e ≤ B := by
  unfold lastEndMax at he
  split at he
  · cases he
  · rename_i r rs hd
    injection he with he
    subst he
    have hsub : ∀ x ∈ r :: rs, x ∈ rows := by
      intro x hx
      rw [← hd] at hx
      exact List.mem_of_mem_drop hx
    apply maxEnd_le
    · exact h r (hsub r (by simp))
    · intro x hx
      exact h x (hsub x (by simp [hx]))

theorem sortRuns_single (x : Run) : sortRuns [x] = [x] := by
  simp [sortRuns]

theorem rowsOkB_of {rows : List Row} {s e : Int} (hrows : ∀ x ∈ rows, s ≤ x.time ∧ x.endt ≤ e) :
    rowsOkB rows s e = true := by
  unfold rowsOkB
  cases rows with
  | nil => rfl
  | cons r0 tl =>
    have h0 := (hrows r0 (by simp)).1
    simp only [Bool.and_eq_true, Bool.not_eq_true', decide_eq_false_iff_not]
    refine ⟨by omega, ?_⟩
    split
    · rename_i e' he'
      have := lastEndMax_le (fun x hx => (hrows x hx).2) he'
      simp; omega
    · rfl

theorem mkChunk_plain {dt k rid : String} {s e : Int} {rows : List Row} {sup : Option Runs} {tg : Nat}
    (hs : 0 ≤ s) (hse : s ≤ e) (hrows : ∀ x ∈ rows, s ≤ x.time ∧ x.endt ≤ e) (hsup : SingleOf rid sup) :
    ∃ c, mkChunk dt k (some rid) s e rows none sup tg = .ok c ∧ c.rows = rows ∧ c.start = s ∧ c.stop = e ∧
      c.dataType = dt ∧ c.kind = k ∧ c.target = tg ∧ Plain c := by
  rw [mkChunk_eq_spec]
  unfold mkChunkSpec
  have h1 : ¬ s < 0 := by omega
  have h2 : ¬ s > e := by omega
  rcases hsup with rfl | ⟨x, rfl, hx⟩
  · simp [rowsOkB_of hrows, sortRuns_single, runsOverlap, Plain, h1, h2]
  · simp [rowsOkB_of hrows, sortRuns_single, runsOverlap, Plain, ← hx, h1, h2]
    exact ⟨x.start, x.stop, rfl⟩

theorem popEmpty_single (rid : String) (l : Runs) (hl : l = [] ∨ ∃ x, l = [x] ∧ x.id = rid) :
    SingleOf rid (popEmpty l) := by
  unfold popEmpty SingleOf
  rcases hl with rfl | ⟨x, rfl, hx⟩
  · simp
  · by_cases h : (x.start != x.stop) = true
    · right; exact ⟨x, by simp [List.filter, h], hx⟩
    · left; simp [List.filter, h]

theorem splitRuns_single (rid : String) (a b t : Int) :
    SingleOf rid (splitRuns (some [⟨rid, a, b⟩]) t).1 ∧ SingleOf rid (splitRuns (some [⟨rid, a, b⟩]) t).2 := by
  simp only [splitRuns, splitRunsList]
  split <;> (try split) <;> exact ⟨popEmpty_single rid _ (by simp), popEmpty_single rid _ (by simp)⟩

theorem singleRuns_of {rid : String} {s : Option Runs} (h : SingleOf rid s) : singleRuns s = true := by
  rcases h with rfl | ⟨x, rfl, -⟩ <;> simp [singleRuns]

structure ChunkOK (c : Chunk) : Prop where
  start_nonneg : 0 ≤ c.start
  start_le : c.start ≤ c.stop
  rows_in : ∀ x ∈ c.rows, c.start ≤ x.time ∧ x.time < x.endt ∧ x.endt ≤ c.stop
  sorted : SortedByTime c.rows

/-- facts about the data split that `Chunk.split` is built on -/
theorem splitData_facts {c : Chunk} {t : Int} {early : Bool} {l r : List Row} {t' : Int} (hc : ChunkOK c)
    (h : splitData c t early = .ok (l, r, t')) :
    l ++ r = c.rows ∧ (∀ x ∈ l, x.endt ≤ t') ∧ (∀ x ∈ r, t' ≤ x.time) ∧ t' ≤ max (min t c.stop) c.start := by
  unfold splitData at h
  split at h
  · rename_i he
    injection h with h; injection h with h1 h; injection h with h2 h3
    subst h1 h2 h3
    refine ⟨by simp, ?_, by simp, by omega⟩
    intro x hx
    have := (hc.rows_in x hx).2.2
    omega
  · split at h
    · rename_i he
      injection h with h; injection h with h1 h; injection h with h2 h3
      subst h1 h2 h3
      refine ⟨by simp, by simp, ?_, by omega⟩
      intro x hx
      have := (hc.rows_in x hx).1
      omega
    · have hsep := splitArray_sep hc.sorted h
      exact ⟨splitArray_append h, hsep.1, hsep.2, splitArray_time_le h⟩

theorem promised_of_plain {c : Chunk} (hp : Plain c) : c.promisedContinuity = true := by
  unfold Chunk.promisedContinuity Chunk.isSuperrun
  simp [hp.1]

theorem split_plain {c : Chunk} {t : Int} {early : Bool} {l r : List Row} {t' : Int} (hc : ChunkOK c)
    (hp : Plain c) (h : splitData c t early = .ok (l, r, t')) :
    ∃ c1 c2, c.split t early = .ok (c1, c2) ∧ c1.rows = l ∧ c2.rows = r ∧ c1.start = c.start ∧
      c1.stop = max c.start t' ∧ c2.start = max c.start t' ∧ c2.stop = max t' c.stop ∧ Plain c1 ∧ Plain c2 := by
  obtain ⟨happ, hl, hr, ht⟩ := splitData_facts hc h
  have hprom := promised_of_plain hp
  obtain ⟨hsub, rid, a, b, hrid, hsup⟩ := hp
  have hsing := splitRuns_single rid a b t'
  have hrows1 : ∀ x ∈ l, c.start ≤ x.time ∧ x.endt ≤ max c.start t' := by
    intro x hx
    have h1 := hc.rows_in x (by rw [← happ]; simp [hx])
    have h2 := hl x hx
    omega
  have hrows2 : ∀ x ∈ r, max c.start t' ≤ x.time ∧ x.endt ≤ max t' c.stop := by
    intro x hx
    have h1 := hc.rows_in x (by rw [← happ]; simp [hx])
    have h2 := hr x hx
    omega
  have hs := hc.start_nonneg
  have hse := hc.start_le
  obtain ⟨c1, hc1, h1r, h1s, h1e, -, -, -, hp1⟩ := mkChunk_plain (dt := c.dataType) (k := c.kind) (rid := rid)
    (tg := c.target) hs (show c.start ≤ max c.start t' by omega) hrows1 hsing.1
  obtain ⟨c2, hc2, h2r, h2s, h2e, -, -, -, hp2⟩ := mkChunk_plain (dt := c.dataType) (k := c.kind) (rid := rid)
    (tg := c.target) (show 0 ≤ max c.start t' by omega) (show max c.start t' ≤ max t' c.stop by omega) hrows2 hsing.2
  refine ⟨c1, c2, ?_, h1r, h2r, h1s, h1e, h2s, h2e, hp1, hp2⟩
  rw [split_eq_spec]
  unfold splitSpec
  rw [h]
  simp only [hprom, if_true, hsub, hsup]
  have e1 : splitRuns none t' = (none, none) := rfl
  rw [e1]
  simp only [singleRuns_of hsing.1, singleRuns_of hsing.2, if_true, List.head?_cons, List.getLast?_singleton,
    Option.map_some]
  rw [hc1, hc2]

theorem split_error_of_data {c : Chunk} {t : Int} {early : Bool} {e : Err}
    (h : splitData c t early = .error e) : c.split t early = .error e := by
  rw [split_eq_spec]
  unfold splitSpec
  rw [h]

theorem splitData_early_ok (c : Chunk) (t : Int) : ∃ res, splitData c t true = .ok res := by
  unfold splitData
  split
  · exact ⟨_, rfl⟩
  · split
    · exact ⟨_, rfl⟩
    · exact splitArray_early_ok _ _

theorem splitData_strict {c : Chunk} {t : Int} :
    (∃ l r, splitData c t false = .ok (l, r, max (min t c.stop) c.start)) ∨
      splitData c t false = .error .cannotSplit := by
  unfold splitData
  split
  · left; exact ⟨_, _, rfl⟩
  · split
    · left; exact ⟨_, _, rfl⟩
    · cases hres : splitArray c.rows (max (min t c.stop) c.start) false with
      | error e =>
        right
        rw [splitArray_strict_error hres]
      | ok v =>
        obtain ⟨l, r, t'⟩ := v
        have := splitArray_strict hres
        subst this
        left; exact ⟨l, r, rfl⟩

theorem trimLeft_ok {c : Chunk} (r : Range) (hc : ChunkOK c) (hp : Plain c) :
    ∃ c', trimLeft c r = .ok c' ∧ ChunkOK c' ∧ Plain c' ∧
      ∃ d, c.rows = d ++ c'.rows ∧ ∀ x ∈ d, x.endt ≤ r.1 := by
  unfold trimLeft
  split
  · rename_i hlt
    obtain ⟨⟨l, r', t'⟩, hd⟩ := splitData_early_ok c r.1
    obtain ⟨happ, hl, hr, ht⟩ := splitData_facts hc hd
    obtain ⟨c1, c2, hsplit, -, h2r, -, -, h2s, h2e, -, hp2⟩ := split_plain hc hp hd
    rw [hsplit]
    refine ⟨c2, rfl, ?_, hp2, l, by rw [h2r, happ], ?_⟩
    · have hs := hc.start_nonneg
      have hse := hc.start_le
      refine ⟨by omega, by omega, ?_, ?_⟩
      · intro x hx
        rw [h2r] at hx
        have h1 := hc.rows_in x (by rw [← happ]; simp [hx])
        have h2 := hr x hx
        omega
      · rw [h2r]
        have := hc.sorted
        rw [← happ] at this
        exact this.append_right
    · intro x hx
      have := hl x hx
      omega
  · exact ⟨c, rfl, hc, hp, [], by simp, by simp⟩

theorem trimRight_ok {c : Chunk} (r : Range) (hc : ChunkOK c) (hp : Plain c) :
    ∃ c', trimRight c r = .ok c' ∧ ∃ d, c.rows = c'.rows ++ d ∧ ∀ x ∈ d, r.2 ≤ x.time := by
  unfold trimRight
  split
  · rename_i hgt
    rcases splitData_strict (c := c) (t := r.2) with ⟨l, r', hd⟩ | herr
    · obtain ⟨happ, hl, hr, ht⟩ := splitData_facts hc hd
      obtain ⟨c1, c2, hsplit, h1r, -, -, -, -, -, -, -⟩ := split_plain hc hp hd
      rw [hsplit]
      refine ⟨c1, rfl, r', by rw [h1r, happ], ?_⟩
      intro x hx
      have := hr x hx
      omega
    · rw [split_error_of_data herr]
      exact ⟨c, rfl, [], by simp, by simp⟩
  · exact ⟨c, rfl, [], by simp, by simp⟩

theorem applyTimeRange_ok {c : Chunk} (r : Range) (hc : ChunkOK c) (hp : Plain c) :
    ∃ c', applyTimeRange c r = .ok c' ∧ ∃ d1 d2, c.rows = d1 ++ c'.rows ++ d2 ∧
      (∀ x ∈ d1, x.endt ≤ r.1) ∧ (∀ x ∈ d2, r.2 ≤ x.time) := by
  obtain ⟨c1, h1, hc1, hp1, d1, hd1, hx1⟩ := trimLeft_ok r hc hp
  obtain ⟨c2, h2, d2, hd2, hx2⟩ := trimRight_ok r hc1 hp1
  unfold applyTimeRange
  rw [h1]
  simp only
  rw [h2]
  exact ⟨c2, rfl, d1, d2, by rw [hd1, hd2]; simp, hx1, hx2⟩
end Strax.Selection
