import StraxModel.Model.Net
/-
  Every execution of a net is finite: a measure on `NState` that strictly decreases with every step of
  Model/Net.lean's `step`, for EVERY net (no structural hypothesis at all).
-/
namespace Strax.Net
open Strax

/-- the longest exception handler a program can still install with `setEpi` -/
def progEpiBound : List Instr → Nat
  | [] => 0
  | .setEpi ms :: r => max ms.length (progEpiBound r)
  | _ :: r => progEpiBound r

theorem progEpiBound_tail (i : Instr) (r : List Instr) : progEpiBound r ≤ progEpiBound (i :: r) := by
  cases i <;> simp [progEpiBound]
  exact Nat.le_max_right _ _

/-- longest epilogue the thread may still jump to -/
def TSt.epiBound (ts : TSt) : Nat := max ts.epi.length (progEpiBound ts.prog)

/-- weight of a thread: two per remaining instruction, plus the epilogue it may still jump to -/
def TSt.weight (ts : TSt) : Nat := 2 * ts.prog.length + (if ts.inEpi then 0 else 2 * ts.epiBound + 2)

def ASub.weight (sb : ASub) : Nat := if sb.waiting.isNone then 1 else 0

def AMB.weight (a : AMB) : Nat := (a.subs.map ASub.weight).sum

def NState.measure (s : NState) : Nat := (s.thr.map TSt.weight).sum + (s.mbs.map AMB.weight).sum

theorem sum_map_set {α} (f : α → Nat) (l : List α) (i : Nat) (a x : α) (h : l[i]? = some a) :
    ((l.set i x).map f).sum + f a = (l.map f).sum + f x := by
  induction l generalizing i with
  | nil => simp at h
  | cons b r ih =>
    cases i with
    | zero => simp at h; subst h; simp; omega
    | succ j =>
      simp at h
      have := ih j h
      simp only [List.set_cons_succ, List.map_cons, List.sum_cons]
      omega

theorem modSub_weight (a : AMB) (i : Nat) (f : ASub → ASub) (sb : ASub) (h : a.subs[i]? = some sb) :
    (a.modSub i f).weight + sb.weight = a.weight + (f sb).weight := by
  simp only [AMB.modSub, h, AMB.weight]
  exact sum_map_set ASub.weight a.subs i sb (f sb) h

theorem measure_setThr (s : NState) (t : Nat) (ts ts' : TSt) (h : s.thr[t]? = some ts) :
    (s.setThr t ts').measure + ts.weight = s.measure + ts'.weight := by
  simp only [NState.measure, NState.setThr]
  have := sum_map_set TSt.weight s.thr t ts ts' h
  omega

theorem measure_modMB (s : NState) (m : Nat) (f : AMB → AMB) (a : AMB) (h : s.mbs[m]? = some a) :
    (s.modMB m f).measure + a.weight = s.measure + (f a).weight := by
  simp only [NState.measure, NState.modMB, h]
  have := sum_map_set AMB.weight s.mbs m a (f a) h
  omega

@[simp] theorem modMB_thr (s : NState) (m : Nat) (f : AMB → AMB) : (s.modMB m f).thr = s.thr := by
  unfold NState.modMB; split <;> rfl

theorem advance_weight (ts : TSt) (i : Instr) (r : List Instr) (h : ts.prog = i :: r) :
    ts.advance.weight + 2 ≤ ts.weight := by
  have := progEpiBound_tail i r
  simp only [TSt.weight, TSt.advance, TSt.epiBound, h, List.tail_cons, List.length_cons]
  split <;> omega

theorem raise_weight (ts : TSt) (own : Bool) (e : Exc) (i : Instr) (r : List Instr) (h : ts.prog = i :: r) :
    (ts.raise own e).weight + 2 ≤ ts.weight := by
  unfold TSt.raise
  by_cases hi : ts.inEpi = true
  · simp [TSt.weight, hi, h]; omega
  · simp only [hi, Bool.false_eq_true, if_false, TSt.weight, TSt.epiBound, h, List.length_cons, if_true]
    omega

theorem kill_weight (a : AMB) (r : Exc) : (a.kill r).weight = a.weight := by
  unfold AMB.kill; split <;> rfl

/-- thread `t` moves alone -/
theorem measure_thr_only {s : NState} {t : Nat} {ts ts' : TSt} (h : s.thr[t]? = some ts) (hw : ts'.weight < ts.weight) :
    (s.setThr t ts').measure < s.measure := by
  have := measure_setThr s t ts ts' h
  omega

/-- thread `t` moves and mailbox `m` is updated without gaining weight beyond what the thread loses -/
theorem measure_both {s : NState} {t m : Nat} {ts ts' : TSt} {a : AMB} {f : AMB → AMB}
    (h : s.thr[t]? = some ts) (hm : s.mbs[m]? = some a) (hw : ts'.weight + (f a).weight < ts.weight + a.weight) :
    ((s.modMB m f).setThr t ts').measure < s.measure := by
  have h1 := measure_modMB s m f a hm
  have h2 := measure_setThr (s.modMB m f) t ts ts' (by simpa using h)
  omega

theorem step_decreases (net : Net) (s s' : NState) (t : Nat) (h : step net s t = some s') : s'.measure < s.measure := by
  unfold step at h
  cases hts : s.thr[t]? with
  | none => simp [hts] at h
  | some ts =>
    simp only [hts] at h
    cases hp : ts.prog with
    | nil => simp [hp] at h
    | cons i r =>
      have hadv := advance_weight ts i r hp
      simp only [hp] at h
      cases i with
      | gate m =>
        simp only at h
        split at h
        · split at h
          · simp only [Option.some.injEq] at h; subst h; exact measure_thr_only hts (by omega)
          · simp at h
        · simp only [Option.some.injEq] at h; subst h; exact measure_thr_only hts (by omega)
      | read m i =>
        simp only at h
        cases hm : s.mbs[m]? with
        | none => simp only [hm, Option.some.injEq] at h; subst h; exact measure_thr_only hts (by omega)
        | some a =>
          simp only [hm] at h
          cases hs : a.subs[i]? with
          | none => simp only [hs, Option.some.injEq] at h; subst h; exact measure_thr_only hts (by omega)
          | some sb =>
            simp only [hs] at h
            split at h
            · simp only [Option.some.injEq] at h; subst h
              apply measure_both hts hm
              have := modSub_weight a i (fun sb => { sb with buffered := sb.buffered - 1 }) sb hs
              simp only [ASub.weight] at this ⊢; omega
            · split at h
              · simp only [Option.some.injEq] at h; subst h
                apply measure_both hts hm
                have := modSub_weight a i (fun sb => { sb with waiting := none }) sb hs
                have hr := raise_weight ts false (a.reason.getD .alreadyClosed) _ r hp
                simp only [ASub.weight] at this ⊢
                split at this <;> simp at this <;> omega
              · split at h
                · simp only [Option.some.injEq] at h; subst h
                  apply measure_both hts hm
                  have := modSub_weight a i (fun sb => { sb with buffered := a.nSent - sb.next - 1, next := a.nSent, waiting := none }) sb hs
                  simp only [ASub.weight] at this ⊢
                  split at this <;> simp at this <;> omega
                · split at h
                  · rename_i hw
                    simp only [Option.some.injEq] at h; subst h
                    have h1 := measure_modMB s m (fun a => a.modSub i fun sb => { sb with waiting := some sb.next }) a hm
                    have := modSub_weight a i (fun sb => { sb with waiting := some sb.next }) sb hs
                    simp only [ASub.weight, hw] at this
                    simp at this
                    omega
                  · simp at h
      | send m =>
        simp only at h
        split at h
        · rename_i sp a hsp hm
          split at h
          · simp only [Option.some.injEq] at h; subst h
            exact measure_thr_only hts (by have := raise_weight ts true .alreadyClosed _ r hp; omega)
          · split at h
            · simp only [Option.some.injEq] at h; subst h
              exact measure_thr_only hts (by have := raise_weight ts false (a.reason.getD .alreadyClosed) _ r hp; omega)
            · split at h
              · simp only [Option.some.injEq] at h; subst h
                apply measure_both hts hm
                simp only [AMB.weight]; omega
              · simp at h
        · simp only [Option.some.injEq] at h; subst h; exact measure_thr_only hts (by omega)
      | close m =>
        simp only at h
        split at h
        · rename_i sp a hsp hm
          split at h
          · simp only [Option.some.injEq] at h; subst h
            exact measure_thr_only hts (by have := raise_weight ts true .alreadyClosed _ r hp; omega)
          · split at h
            · simp only [Option.some.injEq] at h; subst h
              exact measure_thr_only hts (by have := raise_weight ts false (a.reason.getD .alreadyClosed) _ r hp; omega)
            · split at h
              · simp only [Option.some.injEq] at h; subst h
                apply measure_both hts hm
                simp only [AMB.weight]; omega
              · simp at h
        · simp only [Option.some.injEq] at h; subst h; exact measure_thr_only hts (by omega)
      | fail e =>
        simp only [Option.some.injEq] at h; subst h
        exact measure_thr_only hts (by have := raise_weight ts true (.inj e) _ r hp; omega)
      | die e =>
        simp only [Option.some.injEq] at h; subst h
        apply measure_thr_only hts
        simp only [TSt.weight, TSt.epiBound, hp, List.length_nil, List.length_cons, progEpiBound]
        split <;> omega
      | killIfExc m =>
        simp only at h
        split at h
        · simp only [Option.some.injEq] at h; subst h
          cases hm : s.mbs[m]? with
          | none =>
            have : ∀ f, s.modMB m f = s := by intro f; unfold NState.modMB; simp [hm]
            rw [this]; exact measure_thr_only hts (by omega)
          | some a =>
            apply measure_both hts hm
            rw [kill_weight]; omega
        · simp only [Option.some.injEq] at h; subst h; exact measure_thr_only hts (by omega)
      | killIfOwn m =>
        simp only at h
        split at h
        · simp only [Option.some.injEq] at h; subst h
          cases hm : s.mbs[m]? with
          | none =>
            have : ∀ f, s.modMB m f = s := by intro f; unfold NState.modMB; simp [hm]
            rw [this]; exact measure_thr_only hts (by omega)
          | some a =>
            apply measure_both hts hm
            rw [kill_weight]; omega
        · simp only [Option.some.injEq] at h; subst h; exact measure_thr_only hts (by omega)
      | join u =>
        simp only at h
        split at h
        · split at h
          · simp only [Option.some.injEq] at h; subst h; exact measure_thr_only hts (by omega)
          · simp at h
        · simp only [Option.some.injEq] at h; subst h; exact measure_thr_only hts (by omega)
      | finish sv =>
        simp only [Option.some.injEq] at h; subst h
        have : ∀ (o : Option Outcome), (({ s with outcome := o } : NState).setThr t ts.advance).measure =
            (s.setThr t ts.advance).measure := fun o => rfl
        rw [this]; exact measure_thr_only hts (by omega)
      | dropEpi =>
        simp only [Option.some.injEq] at h; subst h
        apply measure_thr_only hts
        have := progEpiBound_tail .dropEpi r
        simp only [TSt.weight, TSt.advance, TSt.epiBound, hp, List.tail_cons, List.length_cons, List.length_nil]
        split <;> omega
      | setEpi ms =>
        simp only [Option.some.injEq] at h; subst h
        apply measure_thr_only hts
        simp only [TSt.weight, TSt.advance, TSt.epiBound, hp, List.tail_cons, List.length_cons, List.length_map, progEpiBound]
        split <;> omega

/-- a schedule can never be longer than the measure of the state it starts in -/
theorem run_length_le (net : Net) : ∀ (sched : List Nat) (s s' : NState), run? net s sched = some s' →
    sched.length + s'.measure ≤ s.measure := by
  intro sched
  induction sched with
  | nil => intro s s' h; simp [run?] at h; subst h; simp
  | cons t ts ih =>
    intro s s' h
    simp only [run?] at h
    cases hs : step net s t with
    | none => simp [hs] at h
    | some s1 =>
      simp only [hs] at h
      have := ih s1 s' h
      have := step_decreases net s s1 t hs
      simp only [List.length_cons]; omega

end Strax.Net
