import StraxModel.Model.Chunk
import StraxModel.Generated.SplitRuns
/-
  C14, round 5: the loop of `_split_runs_in_chunk`, the `subruns` setter's ordering and `_sorted_subruns_check` written
  with the GENERATED scalar decisions of Generated/SplitRuns.lean (regenerated from /repo/strax/chunk.py on every run),
  and their equality with the hand-written model of Model/Chunk.lean.  A change of one of the three source functions
  changes the generated definition and breaks the corresponding equality below.
-/
namespace Strax.Superrun
open Strax

/-- one entry `(start, stop)` put under the run's id, or nothing -/
def consEntry (id : String) (e : Option (Int × Int)) (l : Runs) : Runs :=
  match e with
  | some (s, t) => ⟨id, s, t⟩ :: l
  | none => l

/-- the loop of `_split_runs_in_chunk` (dict insertion order = list order) with the generated if/elif chain -/
def splitRunsListGen (t : Int) : Runs → Runs × Runs
  | [] => ([], [])
  | r :: rest =>
    let ab := splitRunsListGen t rest
    let xy := Generated.splitRunCase t r.start r.stop
    (consEntry r.id xy.1 ab.1, consEntry r.id xy.2 ab.2)

/-- `_split_runs_in_chunk` with the generated chain -/
def splitRunsGen (runs : Option Runs) (t : Int) : Option Runs × Option Runs :=
  match runs with
  | none => (none, none)
  | some rs => (popEmpty (splitRunsListGen t rs).1, popEmpty (splitRunsListGen t rs).2)

/-- `_sorted_subruns_check` with the generated test -/
def runsOverlapGen : Runs → Bool
  | [] => false
  | [_] => false
  | a :: b :: rest => Generated.subrunsOverlap a.start a.stop b.start b.stop || runsOverlapGen (b :: rest)

/-- the `subruns` setter with the generated key and test: `None` if it raises -/
def setSubrunsGen (rs : Runs) : Option Runs :=
  if runsOverlapGen (rs.mergeSort (fun a b => Generated.subrunsKeyLe a.start a.stop b.start b.stop)) then none
  else some (rs.mergeSort (fun a b => Generated.subrunsKeyLe a.start a.stop b.start b.stop))

/-- the same from the model's pieces (`mkChunk` lines "subruns setter") -/
def setSubruns (rs : Runs) : Option Runs :=
  if runsOverlap (sortRuns rs) then none else some (sortRuns rs)

theorem splitRunsListGen_eq (t : Int) (rs : Runs) : splitRunsListGen t rs = splitRunsList t rs := by
  induction rs with
  | nil => rfl
  | cons r rest ih =>
    simp only [splitRunsListGen, splitRunsList, ih, Generated.splitRunCase]
    by_cases h1 : t ≤ r.start
    · simp [h1, consEntry]
    · by_cases h2 : t < r.stop
      · have h3 : r.start < t := by omega
        simp [h1, h2, h3, consEntry]
      · have h3 : r.stop ≤ t := by omega
        simp [h1, h2, h3, consEntry]

theorem splitRunsGen_eq (runs : Option Runs) (t : Int) : splitRunsGen runs t = splitRuns runs t := by
  cases runs with
  | none => rfl
  | some rs => simp only [splitRunsGen, splitRuns, splitRunsListGen_eq]

/-- no run falls through the chain: the implicit fourth branch (no entry in either half) is unreachable -/
theorem splitRunCase_total (t s e : Int) :
    (Generated.splitRunCase t s e).1 ≠ none ∨ (Generated.splitRunCase t s e).2 ≠ none := by
  unfold Generated.splitRunCase
  by_cases h1 : t ≤ s
  · simp [h1]
  · by_cases h2 : t < e
    · have h3 : s < t := by omega
      simp [h1, h2, h3]
    · have h3 : e ≤ t := by omega
      simp [h1, h2, h3]

theorem subrunsKeyLe_eq (a b : Run) : Generated.subrunsKeyLe a.start a.stop b.start b.stop = runLe a b := rfl

theorem runsOverlapGen_eq (rs : Runs) : runsOverlapGen rs = runsOverlap rs := by
  induction rs with
  | nil => rfl
  | cons a rest ih =>
    cases rest with
    | nil => rfl
    | cons b rest => simp only [runsOverlapGen, runsOverlap, ih, Generated.subrunsOverlap]

theorem setSubrunsGen_eq (rs : Runs) : setSubrunsGen rs = setSubruns rs := by
  have h : (fun a b : Run => Generated.subrunsKeyLe a.start a.stop b.start b.stop) = runLe := by
    funext a b; exact subrunsKeyLe_eq a b
  unfold setSubrunsGen setSubruns sortRuns
  rw [h, runsOverlapGen_eq]

/-! ### `_pop_out_empty_run_id` and `_mergable_check` with the generated tests -/

/-- `_pop_out_empty_run_id` + `{}` → `None` with the generated removal test -/
def popEmptyGen (rs : Runs) : Option Runs :=
  match rs.filter (fun r => !Generated.popEmptyTest r.start r.stop) with
  | [] => none
  | l => some l

theorem popEmptyGen_eq (rs : Runs) : popEmptyGen rs = popEmpty rs := by
  have h : (fun r : Run => !Generated.popEmptyTest r.start r.stop) = (fun r : Run => r.start != r.stop) := by
    funext r
    by_cases h : r.start = r.stop <;> simp [Generated.popEmptyTest, h]
  unfold popEmptyGen popEmpty
  rw [h]
  rfl

/-- the `merge=False` loop of `_mergable_check` with the generated mask -/
def contiguousSpansGen : List (Int × Int) → Bool
  | [] => true
  | [_] => true
  | a :: b :: rest => !Generated.mergeMaskConcat b.1 b.2 a.1 a.2 && contiguousSpansGen (b :: rest)

theorem contiguousSpansGen_eq (l : List (Int × Int)) : contiguousSpansGen l = contiguousSpans l := by
  induction l with
  | nil => rfl
  | cons a rest ih =>
    cases rest with
    | nil => rfl
    | cons b rest =>
      simp only [contiguousSpansGen, contiguousSpans, ih, Generated.mergeMaskConcat]
      by_cases h : b.1 = a.2 <;> simp [h]

/-- `_mergable_check` with both generated masks -/
def mergableCheckGen (merge : Bool) (m : List (String × List (Int × Int))) : Except Err Runs :=
  m.mapM fun (k, spans) =>
    let spans := spans.mergeSort (fun a b => decide (a.1 ≤ b.1))
    match spans with
    | [] => throw Err.other
    | s0 :: _ =>
      let ok := if merge then spans.all (fun s => !Generated.mergeMaskMerge s.1 s.2 s0.1 s0.2) else contiguousSpansGen spans
      if !ok then throw Err.valueError
      else pure (Run.mk k s0.1 ((spans.getLast?.getD s0).2))

theorem mergeMaskMerge_eq (s s0 : Int × Int) : (!Generated.mergeMaskMerge s.1 s.2 s0.1 s0.2) = (s.1 == s0.1 && s.2 == s0.2) := by
  by_cases h1 : s.1 = s0.1 <;> by_cases h2 : s.2 = s0.2 <;> simp [Generated.mergeMaskMerge, h1, h2]

theorem mergableCheckGen_eq (merge : Bool) (m : List (String × List (Int × Int))) :
    mergableCheckGen merge m = mergableCheck merge m := by
  unfold mergableCheckGen mergableCheck
  congr 1
  funext ks
  obtain ⟨k, spans⟩ := ks
  simp only [contiguousSpansGen_eq, mergeMaskMerge_eq]
  rfl

end Strax.Superrun
