import StraxModel.Lemmas.Storage
import StraxModel.Lemmas.ChunkAlgRechunk
/-
  Bridge between the C07 stream theory (`Strax.LawAbiding`, `Chunk.good`, the Prop form of the
  boundary rule in `Strax.C07.rechunk_stream_partial`) and the C03 predicates of Model/Storage.lean.
-/
namespace Strax.Storage
open Strax

/-- a C07-good chunk of a plain (non-super) run is storable -/
theorem storable_of_good {rid : String} {c : Chunk} (hg : c.good = true) (hr : c.runId = some rid)
    (hp : rid.startsWith "_" = false) : storableB rid c = true := by
  simp only [Chunk.good, Bool.and_eq_true] at hg
  obtain ⟨hwf, hs⟩ := hg
  rw [Chunk.wf_iff] at hwf
  rw [Chunk.simple_iff] at hs
  obtain ⟨h0, hle, _, hpos, hin⟩ := hwf
  have hri : rowsInside c.start c.stop c.rows = true := by
    rw [rowsInside_iff]
    intro r hr
    exact ⟨(hin r hr).1, hpos r hr, (hin r hr).2⟩
  simp [storableB, h0, hle, hri, hr, hs.1, restorableRuns, hp]

/-- in a C07-law-abiding stream every chunk is good and carries the run id of the first -/
theorem lawAbiding_all (a : Chunk) (l : List Chunk) (h : LawAbiding (a :: l) = true) :
    ∀ c ∈ a :: l, c.good = true ∧ c.runId = a.runId := by
  induction l generalizing a with
  | nil =>
    intro c hc
    simp only [List.mem_singleton] at hc
    subst hc
    exact ⟨by simpa [LawAbiding] using h, rfl⟩
  | cons b l ih =>
    rw [lawAbiding_cons] at h
    obtain ⟨hg, hlink, hrest⟩ := h
    have hb := hlink b (by simp)
    intro c hc
    simp only [List.mem_cons] at hc
    rcases hc with rfl | hc
    · exact ⟨hg, rfl⟩
    · have := ih b hrest c (by simpa using hc)
      exact ⟨this.1, by rw [this.2, hb.2.2]⟩

/-- every row of a C07-law-abiding stream starts at or after the start of its first chunk -/
theorem lawAbiding_rows_ge (a : Chunk) (l : List Chunk) (h : LawAbiding (a :: l) = true) :
    ∀ r ∈ (a :: l).flatMap (·.rows), a.start ≤ r.time := by
  induction l generalizing a with
  | nil =>
    intro r hr
    have hg : a.good = true := by simpa [LawAbiding] using h
    simp only [Chunk.good, Bool.and_eq_true] at hg
    have := (Chunk.wf_iff a).1 hg.1
    simp only [List.flatMap_cons, List.flatMap_nil, List.append_nil] at hr
    exact (this.2.2.2.2 r hr).1
  | cons b l ih =>
    rw [lawAbiding_cons] at h
    obtain ⟨hg, hlink, hrest⟩ := h
    have hb := hlink b (by simp)
    simp only [Chunk.good, Bool.and_eq_true] at hg
    have hwf := (Chunk.wf_iff a).1 hg.1
    intro r hr
    simp only [List.flatMap_cons, List.mem_append] at hr
    rcases hr with hr | hr
    · exact (hwf.2.2.2.2 r hr).1
    · have := ih b hrest r (by simpa [List.flatMap_cons] using hr)
      omega

/-- C07's `LawAbiding` implies the C03 reading of the laws of chunking -/
theorem lawAbidingB_of_LawAbiding (l : List Chunk) (h : LawAbiding l = true) : lawAbidingB l = true := by
  induction l with
  | nil => rfl
  | cons a l ih =>
    have hall := lawAbiding_all a l h
    rw [lawAbiding_cons] at h
    obtain ⟨hg, hlink, hrest⟩ := h
    have ih' := ih hrest
    simp only [lawAbidingB, Bool.and_eq_true, List.all_eq_true, decide_eq_true_eq] at ih' ⊢
    simp only [Chunk.good, Bool.and_eq_true] at hg
    have hwf := (Chunk.wf_iff a).1 hg.1
    obtain ⟨⟨hadj, hin⟩, hsorted⟩ := ih'
    refine ⟨⟨?_, ?_⟩, ?_⟩
    · cases l with
      | nil => rfl
      | cons b l' =>
        have := hlink b (by simp)
        simp only [adjacentB, Bool.and_eq_true, decide_eq_true_eq]
        exact ⟨this.1, hadj⟩
    · intro c hc
      simp only [List.mem_cons] at hc
      rcases hc with rfl | hc
      · refine ⟨hwf.2.1, ?_⟩
        rw [rowsInside_iff]
        intro r hr
        exact ⟨(hwf.2.2.2.2 r hr).1, hwf.2.2.2.1 r hr, (hwf.2.2.2.2 r hr).2⟩
      · exact hin c hc
    · rw [sortedByTimeB_iff, sortedByTime_iff_pairwise] at hsorted ⊢
      simp only [List.flatMap_cons]
      rw [List.pairwise_append]
      refine ⟨(sortedByTime_iff_pairwise _).1 hwf.2.2.1, hsorted, ?_⟩
      intro x hx y hy
      have hx' := hwf.2.2.2.2 x hx
      have hxp := hwf.2.2.2.1 x hx
      cases l with
      | nil => simp at hy
      | cons b l' =>
        have hb := hlink b (by simp)
        have := lawAbiding_rows_ge b l' hrest y hy
        omega

end Strax.Storage

namespace Strax.Storage
open Strax

theorem boundaries_eq (cs : List Chunk) :
    boundaries cs = cs.map (·.start) ++ (cs.getLast?.map (·.stop)).toList := by
  unfold boundaries
  cases cs.getLast? <;> rfl

/-- the Prop form of the boundary rule (as C07 states it) gives the decidable one -/
theorem boundaryRuleB_of_prop (old new : List Chunk)
    (h : ∀ t ∈ new.map (·.start) ++ (new.getLast?.map (·.stop)).toList,
      t ∈ old.map (·.start) ++ (old.getLast?.map (·.stop)).toList ∨
      ∀ r ∈ old.flatMap (·.rows), ¬ (r.time ≤ t ∧ t ≤ r.endt)) :
    boundaryRuleB old new = true := by
  unfold boundaryRuleB
  rw [List.all_eq_true]
  intro t ht
  rw [boundaries_eq] at ht
  rcases h t ht with h1 | h2
  · simp [boundaries_eq, h1]
  · have : inGap (old.flatMap (·.rows)) t = true := by
      unfold inGap
      rw [List.all_eq_true]
      intro r hr
      have := h2 r hr
      simp only [Bool.not_eq_true', Bool.and_eq_false_iff, decide_eq_false_iff_not]
      by_cases h1 : r.time ≤ t
      · right; intro h3; exact this ⟨h1, by omega⟩
      · left; exact h1
    simp [this]

end Strax.Storage
