import StraxModel.Lemmas.LineagePure
/-
  Helper lemmas for theory T8 (property C02), part 4: the plugin cache.  A cache is *good* for the
  current settings if every instance in it carries (up to `hashablize`) the lineage a cache-less
  context would compute, and if it contains the dependencies of everything it contains.
  `getPlugin` keeps a good cache good and, under a good cache, agrees with the pure `lineage`.
-/
namespace Strax.Lineage
open Strax

variable {K : Type} [DecidableEq K]
set_option linter.unusedSectionVars false

/-- every cached instance is what the registry and config `(r, c)` would produce now -/
def GoodMap (r : Registry) (c : Config) (m : CacheMap) : Prop :=
  ∀ d inst, m.lookup d = some inst →
    r.lookup d = some inst.cls ∧
    (∃ n L, lineage r c n d = .ok L ∧ LinEq inst.lineage L) ∧ NodupKeys inst.lineage ∧
    ∀ x ∈ inst.cls.dependsOn, (m.lookup x).isSome = true

/-- the cache is good as far as the hash `h` of the current settings can reach it -/
def GoodCache (r : Registry) (c : Config) (h : K) (cache : Cache K) : Prop :=
  ∀ m, cache = some (h, m) → GoodMap r c m

theorem cachedInst_some {cache : Cache K} {h : K} {d : String} {inst : PluginInst}
    (hc : cachedInst cache h d = some inst) : ∃ m, cache = some (h, m) ∧ m.lookup d = some inst := by
  unfold cachedInst at hc
  cases cache with
  | none => simp at hc
  | some p =>
    obtain ⟨h', m⟩ := p
    simp only at hc
    split at hc
    · rename_i e; subst e; exact ⟨m, rfl, hc⟩
    · simp at hc

theorem cachedInst_none_of {cache : Cache K} {h : K} {d : String} {m : CacheMap}
    (hc : cachedInst cache h d = none) (hm : cache = some (h, m)) : m.lookup d = none := by
  subst hm
  simpa [cachedInst] using hc

theorem toCache_spec (cache : Cache K) (h : K) (d : String) (inst : PluginInst) :
    (∃ m, cache = some (h, m) ∧ toCache cache h d inst = some (h, dictSet m d inst)) ∨
    ((∀ m, cache ≠ some (h, m)) ∧ toCache cache h d inst = some (h, [(d, inst)])) := by
  unfold toCache
  cases cache with
  | none => right; simp
  | some p =>
    obtain ⟨h', m⟩ := p
    by_cases e : h' = h
    · subst e; left; exact ⟨m, rfl, by simp⟩
    · right
      refine ⟨?_, by simp [e]⟩
      intro m' hm'
      simp at hm'
      exact e hm'.1

/-- `m[o] = inst` for every output `o` -/
def setAll (m : CacheMap) (inst : PluginInst) : List String → CacheMap
  | [] => m
  | o :: os => setAll (dictSet m o inst) inst os

theorem lookup_setAll (m : CacheMap) (inst : PluginInst) (outs : List String) (y : String) :
    (setAll m inst outs).lookup y = if y ∈ outs then some inst else m.lookup y := by
  induction outs generalizing m with
  | nil => simp [setAll]
  | cons o os ih =>
    simp only [setAll, ih, lookup_dictSet, List.mem_cons]
    by_cases h1 : y ∈ os
    · simp [h1]
    · by_cases h2 : y = o <;> simp [h1, h2]

theorem toCacheAll_some (h : K) (m : CacheMap) (inst : PluginInst) (outs : List String) :
    toCacheAll (some (h, m)) h inst outs = some (h, setAll m inst outs) := by
  induction outs generalizing m with
  | nil => rfl
  | cons o os ih => simp only [toCacheAll, toCache, if_true, setAll]; exact ih _

theorem toCacheAll_spec (cache : Cache K) (h : K) (inst : PluginInst) {outs : List String} (hne : outs ≠ []) :
    (∃ m, cache = some (h, m) ∧ toCacheAll cache h inst outs = some (h, setAll m inst outs)) ∨
    ((∀ m, cache ≠ some (h, m)) ∧ toCacheAll cache h inst outs = some (h, setAll [] inst outs)) := by
  cases outs with
  | nil => exact absurd rfl hne
  | cons o os =>
    rcases toCache_spec cache h o inst with ⟨m, hm, ht⟩ | ⟨hno, ht⟩
    · left; exact ⟨m, hm, by rw [hm]; exact toCacheAll_some h m inst (o :: os)⟩
    · right
      refine ⟨hno, ?_⟩
      simp only [toCacheAll, ht, setAll]
      exact toCacheAll_some h _ inst os

theorem outputs_ne_nil (cls : PluginClass) : cls.outputs ≠ [] := by
  unfold PluginClass.outputs; simp

/-- what one call of `getPlugin` / `foldDeps` guarantees about the cache it returns -/
structure CacheStep (r : Registry) (c : Config) (h : K) (cache cache' : Cache K) : Prop where
  good : GoodCache r c h cache'
  keep : ∀ m x, cache = some (h, m) → (m.lookup x).isSome = true →
    ∃ m', cache' = some (h, m') ∧ (m'.lookup x).isSome = true
  shape : cache' = cache ∨ ∃ m', cache' = some (h, m')

theorem CacheStep.refl {r : Registry} {c : Config} {h : K} {cache : Cache K} (hg : GoodCache r c h cache) :
    CacheStep r c h cache cache :=
  ⟨hg, fun m _ hm hs => ⟨m, hm, hs⟩, Or.inl rfl⟩

theorem CacheStep.trans {r : Registry} {c : Config} {h : K} {c1 c2 c3 : Cache K}
    (a : CacheStep r c h c1 c2) (b : CacheStep r c h c2 c3) : CacheStep r c h c1 c3 := by
  refine ⟨b.good, ?_, ?_⟩
  · intro m x hm hs
    obtain ⟨m', hm', hs'⟩ := a.keep m x hm hs
    exact b.keep m' x hm' hs'
  · rcases b.shape with e | e
    · rw [e]; exact a.shape
    · exact Or.inr e

/-- specification of `getPlugin` on a good cache -/
structure PluginSpec (r : Registry) (c : Config) (h : K) (n : Nat) (d : String) (cache : Cache K)
    (res : Except Err PluginInst) (cache' : Cache K) : Prop extends CacheStep r c h cache cache' where
  ok_mem : ∀ inst, res = .ok inst → ∃ m', cache' = some (h, m') ∧ m'.lookup d = some inst
  complete : ∀ L, lineage r c n d = .ok L → ∃ inst, res = .ok inst

/-- specification of `foldDeps` on a good cache -/
structure DepsSpec (r : Registry) (c : Config) (h : K) (n : Nat) (xs : List String) (cache : Cache K)
    (res : Except Err (List Lineage)) (cache' : Cache K) : Prop extends CacheStep r c h cache cache' where
  ok_mem : ∀ ls, res = .ok ls →
    (xs = [] ∨ ∃ m', cache' = some (h, m') ∧ ∀ x ∈ xs, (m'.lookup x).isSome = true) ∧
    ∃ pure, mapE (lineage r c (fuelOf r)) xs = .ok pure ∧ DepsEq ls pure ∧ ∀ l ∈ ls, NodupKeys l
  complete : ∀ ps, mapE (lineage r c n) xs = .ok ps → ∃ ls, res = .ok ls

theorem foldDeps_nil (f : String → Cache K → Except Err PluginInst × Cache K) (cache : Cache K) :
    foldDeps f [] cache = (.ok [], cache) := rfl

theorem foldDeps_cons (f : String → Cache K → Except Err PluginInst × Cache K) (x : String) (xs : List String)
    (cache : Cache K) :
    foldDeps f (x :: xs) cache =
      match f x cache with
      | (.error e, cache') => (.error e, cache')
      | (.ok i, cache') =>
        match foldDeps f xs cache' with
        | (.error e, cache'') => (.error e, cache'')
        | (.ok ls, cache'') => (.ok (i.lineage :: ls), cache'') := rfl

theorem foldDeps_spec {r : Registry} {c : Config} {h : K} {n : Nat}
    {f : String → Cache K → Except Err PluginInst × Cache K}
    (hf : ∀ d cache, GoodCache r c h cache → PluginSpec r c h n d cache (f d cache).1 (f d cache).2)
    (xs : List String) (cache : Cache K) (hg : GoodCache r c h cache) :
    DepsSpec r c h n xs cache (foldDeps f xs cache).1 (foldDeps f xs cache).2 := by
  induction xs generalizing cache with
  | nil =>
    rw [foldDeps_nil]
    refine ⟨CacheStep.refl hg, ?_, ?_⟩
    · intro ls hls
      simp at hls; subst hls
      exact ⟨Or.inl rfl, [], rfl, by simp [DepsEq], by simp⟩
    · intro ps _; exact ⟨[], rfl⟩
  | cons x xs ih =>
    rw [foldDeps_cons]
    have hx := hf x cache hg
    cases hfx : f x cache with
    | mk rx cx =>
      rw [hfx] at hx
      simp only at hx
      cases rx with
      | error e =>
        simp only
        refine ⟨hx.toCacheStep, ?_, ?_⟩
        · intro ls hls; simp at hls
        · intro ps hps
          obtain ⟨b, _, hb, _, _⟩ := mapE_cons_ok.mp hps
          obtain ⟨inst, hi⟩ := hx.complete b hb
          simp at hi
      | ok i =>
        simp only
        have hrest := ih cx hx.good
        cases hfr : foldDeps f xs cx with
        | mk rr cr =>
          rw [hfr] at hrest
          simp only at hrest
          obtain ⟨mi, hmi, hli⟩ := hx.ok_mem i rfl
          cases rr with
          | error e =>
            simp only
            refine ⟨hx.toCacheStep.trans hrest.toCacheStep, ?_, ?_⟩
            · intro ls hls; simp at hls
            · intro ps hps
              obtain ⟨_, bs', _, hbs, _⟩ := mapE_cons_ok.mp hps
              obtain ⟨ls, hl⟩ := hrest.complete bs' hbs
              simp at hl
          | ok ls =>
            simp only
            refine ⟨hx.toCacheStep.trans hrest.toCacheStep, ?_, ?_⟩
            · intro ls' hls'
              simp at hls'; subst hls'
              obtain ⟨hmem, pure, hp1, hp2, hp3⟩ := hrest.ok_mem ls rfl
              -- the instance of `x` is still in the final cache
              obtain ⟨mf, hmf, hxf⟩ := hrest.keep mi x hmi (by simp [hli])
              have hgood := hx.good mi hmi x i hli
              obtain ⟨_, ⟨nx, Lx, hLx, hlin⟩, hnod, _⟩ := hgood
              refine ⟨Or.inr ⟨mf, hmf, ?_⟩, Lx :: pure, ?_, ?_, ?_⟩
              · intro y hy
                rcases List.mem_cons.mp hy with e | e
                · subst e; exact hxf
                · rcases hmem with hnil | ⟨m', hm', hall⟩
                  · subst hnil; simp at e
                  · rw [hmf] at hm'; cases hm'; exact hall y e
              · exact mapE_cons_ok.mpr ⟨Lx, pure, lineage_fuel hLx, hp1, rfl⟩
              · simp only [DepsEq]
                exact ⟨⟨hlin, hnod, lineage_nodupKeys hLx⟩, hp2⟩
              · intro l hl
                rcases List.mem_cons.mp hl with e | e
                · subst e; exact hnod
                · exact hp3 l e
            · intro ps _; exact ⟨_, rfl⟩

theorem getPlugin_zero (r : Registry) (c : Config) (h : K) (d : String) (cache : Cache K) :
    getPlugin r c h 0 d cache = (.error .runtimeError, cache) := rfl

theorem getPlugin_succ (r : Registry) (c : Config) (h : K) (n : Nat) (d : String) (cache : Cache K) :
    getPlugin r c h (n + 1) d cache =
      match cachedInst cache h d with
      | some inst => (.ok inst, cache)
      | none =>
        match r.lookup d with
        | none => (.error .keyError, cache)
        | some cls =>
          if dupDeps cls.dependsOn then (.error .valueError, cache) else
          match pluginConfig cls c with
          | .error e => (.error e, cache)
          | .ok pc =>
            match foldDeps (getPlugin r c h n) cls.dependsOn cache with
            | (.error e, cache') => (.error e, cache')
            | (.ok ls, cache') =>
              (.ok ⟨cls, mergeLineage (ownEntry cls pc) ls⟩,
               toCacheAll cache' h ⟨cls, mergeLineage (ownEntry cls pc) ls⟩ cls.outputs) := rfl

theorem lookup_dictSet_isSome {m : CacheMap} {d x : String} {inst : PluginInst}
    (h : (m.lookup x).isSome = true) : ((dictSet m d inst).lookup x).isSome = true := by
  rw [lookup_dictSet]; split <;> simp [h]

/-- `getPlugin` on a good cache: the cache stays good, whatever was cached stays cached, a
returned instance is in the cache, and whenever the pure `lineage` is defined at this fuel so is
the result. -/
theorem getPlugin_spec {r : Registry} (hw : r.WF) {c : Config} (h : K) (n : Nat) (d : String)
    (cache : Cache K) (hg : GoodCache r c h cache) :
    PluginSpec r c h n d cache (getPlugin r c h n d cache).1 (getPlugin r c h n d cache).2 := by
  induction n generalizing d cache with
  | zero =>
    rw [getPlugin_zero]
    exact ⟨CacheStep.refl hg, by intro i hi; simp at hi, by intro L hL; simp [lineage_zero] at hL⟩
  | succ n ih =>
    rw [getPlugin_succ]
    cases hci : cachedInst cache h d with
    | some inst =>
      simp only
      obtain ⟨m, hm, hl⟩ := cachedInst_some hci
      exact ⟨CacheStep.refl hg, by intro i hi; simp at hi; subst hi; exact ⟨m, hm, hl⟩, fun _ _ => ⟨inst, rfl⟩⟩
    | none =>
      simp only
      cases h1 : r.lookup d with
      | none =>
        simp only
        refine ⟨CacheStep.refl hg, by intro i hi; simp at hi, ?_⟩
        intro L hL
        obtain ⟨cls, _, _, h1', _⟩ := lineage_succ_ok.mp hL
        rw [h1] at h1'; simp at h1'
      | some cls =>
        simp only
        by_cases h2 : dupDeps cls.dependsOn = true
        · simp only [h2, if_true]
          refine ⟨CacheStep.refl hg, by intro i hi; simp at hi, ?_⟩
          intro L hL
          obtain ⟨cls', _, _, h1', h2', _⟩ := lineage_succ_ok.mp hL
          rw [h1] at h1'; cases h1'; rw [h2] at h2'; simp at h2'
        · simp only [h2, Bool.false_eq_true, if_false]
          cases h3 : pluginConfig cls c with
          | error e =>
            simp only
            refine ⟨CacheStep.refl hg, by intro i hi; simp at hi, ?_⟩
            intro L hL
            obtain ⟨cls', _, _, h1', _, h3', _⟩ := lineage_succ_ok.mp hL
            rw [h1] at h1'; cases h1'; rw [h3] at h3'; simp at h3'
          | ok pc =>
            simp only
            have hd := foldDeps_spec (f := getPlugin r c h n) (fun d cache hg => ih d cache hg) cls.dependsOn cache hg
            cases hfd : foldDeps (getPlugin r c h n) cls.dependsOn cache with
            | mk rd cd =>
              rw [hfd] at hd
              simp only at hd
              cases rd with
              | error e =>
                simp only
                refine ⟨hd.toCacheStep, by intro i hi; simp at hi, ?_⟩
                intro L hL
                obtain ⟨cls', _, deps, h1', _, _, h4', _⟩ := lineage_succ_ok.mp hL
                rw [h1] at h1'; cases h1'
                obtain ⟨ls, hls⟩ := hd.complete deps h4'
                simp at hls
              | ok ls =>
                simp only
                obtain ⟨hmem, pure, hp1, hp2, hp3⟩ := hd.ok_mem ls rfl
                let inst : PluginInst := ⟨cls, mergeLineage (ownEntry cls pc) ls⟩
                have hd_out : d ∈ cls.outputs := (cls.makes_iff d).mp (Registry.lookup_mem h1).1
                -- the new instance is good for every output of the class
                have hpure : ∀ y ∈ cls.outputs, r.lookup y = some cls ∧
                    lineage r c (fuelOf r + 1) y = .ok (mergeLineage (ownEntry cls pc) pure) := by
                  intro y hy
                  have hl := Registry.lookup_output hw h1 ((cls.makes_iff y).mpr hy)
                  exact ⟨hl, lineage_succ_ok.mpr ⟨cls, pc, pure, hl, by simpa using h2, h3, hp1, rfl⟩⟩
                have hlin : LinEq inst.lineage (mergeLineage (ownEntry cls pc) pure) :=
                  mergeLineage_congr (LinEq.refl _) hp2
                have hnod : NodupKeys inst.lineage := mergeLineage_nodup (ownEntry_nodup cls pc) ls
                -- the map the new entries are added to
                have hbase : ∃ base, toCacheAll cd h inst cls.outputs = some (h, setAll base inst cls.outputs) ∧
                    GoodMap r c base ∧ (∀ x ∈ cls.dependsOn, (base.lookup x).isSome = true) ∧
                    (∀ m0 x, cache = some (h, m0) → (m0.lookup x).isSome = true → (base.lookup x).isSome = true) := by
                  rcases toCacheAll_spec cd h inst (outputs_ne_nil cls) with ⟨m, hm, ht⟩ | ⟨hno, ht⟩
                  · refine ⟨m, ht, hd.good m hm, ?_, ?_⟩
                    · intro x hx
                      rcases hmem with hnil | ⟨m', hm', hall⟩
                      · rw [hnil] at hx; simp at hx
                      · rw [hm] at hm'; cases hm'; exact hall x hx
                    · intro m0 x hm0 hs
                      obtain ⟨m', hm', hs'⟩ := hd.keep m0 x hm0 hs
                      rw [hm] at hm'; cases hm'; exact hs'
                  · refine ⟨[], ht, by intro y iy hy; simp at hy, ?_, ?_⟩
                    · intro x hx
                      rcases hmem with hnil | ⟨m', hm', _⟩
                      · rw [hnil] at hx; simp at hx
                      · exact absurd hm' (hno m')
                    · intro m0 x hm0 hs
                      obtain ⟨m', hm', _⟩ := hd.keep m0 x hm0 hs
                      exact absurd hm' (hno m')
                obtain ⟨base, ht, hgb, hdeps, hkeep⟩ := hbase
                have hsome : ∀ x, (base.lookup x).isSome = true → ((setAll base inst cls.outputs).lookup x).isSome = true := by
                  intro x hx; rw [lookup_setAll]; split <;> simp [hx]
                refine ⟨⟨?_, ?_, Or.inr ⟨_, ht⟩⟩, ?_, fun _ _ => ⟨inst, rfl⟩⟩
                · intro m' hm'
                  rw [ht] at hm'; cases hm'
                  intro y iy hy
                  rw [lookup_setAll] at hy
                  by_cases e : y ∈ cls.outputs
                  · simp [e] at hy; subst hy
                    obtain ⟨hl, hL⟩ := hpure y e
                    exact ⟨hl, ⟨_, _, hL, hlin⟩, hnod, fun x hx => hsome x (hdeps x hx)⟩
                  · simp [e] at hy
                    obtain ⟨a, b, c', dd⟩ := hgb y iy hy
                    exact ⟨a, b, c', fun x hx => hsome x (dd x hx)⟩
                · intro m0 x hm0 hs
                  exact ⟨_, ht, hsome x (hkeep m0 x hm0 hs)⟩
                · intro i hi
                  simp at hi; subst hi
                  exact ⟨_, ht, by rw [lookup_setAll]; simp [hd_out, inst]⟩

end Strax.Lineage
