import StraxModel.Lemmas.ChunkAlgRuns
/-
  Helper lemmas for property C07, part 6: partial correctness of the rechunker for arbitrary streams (any run
  annotations, either mode) and the chunk-level early-split law.
-/
namespace Strax

/-! ### partial correctness of the rechunker for ARBITRARY streams (any annotations, any mode) -/

theorem split_ok_ranges {c : Chunk} {t : Int} {early : Bool} {c1 c2 : Chunk}
    (h : c.split t early = .ok (c1, c2)) : c1.start ≤ c1.stop ∧ c2.start ≤ c2.stop := by
  obtain ⟨d1, d2, t', -, h1, h2⟩ := Chunk.split_ok_inv h
  have f1 := mkChunk_fields h1
  have f2 := mkChunk_fields h2
  refine ⟨?_, ?_⟩
  · rw [f1.2.2.2.1, f1.2.2.2.2.1]; exact f1.2.2.2.2.2.2.2.2.1
  · rw [f2.2.2.2.1, f2.2.2.2.2.1]; exact f2.2.2.2.2.2.2.2.2.1

theorem splitOff_rows : ∀ (ks : List Nat) (c : Chunk) (out : List Chunk) (rest : Chunk),
    c.start ≤ c.stop → splitOff c ks = .ok (out, rest) →
    (out ++ [rest]).flatMap (·.rows) = c.rows ∧ rest.start ≤ rest.stop := by
  intro ks
  induction ks with
  | nil =>
    intro c out rest hse h
    simp only [splitOff, pure, Except.pure, Except.ok.injEq, Prod.mk.injEq] at h
    obtain ⟨rfl, rfl⟩ := h
    exact ⟨by simp, hse⟩
  | cons k ks ih =>
    intro c out rest hse h
    unfold splitOff at h
    split at h
    · cases h
    · rename_i r hr
      obtain ⟨⟨a, b⟩, hsp, h⟩ := bind_eq_ok.1 h
      obtain ⟨⟨out', rest'⟩, hoff, h⟩ := bind_eq_ok.1 h
      simp only [pure, Except.pure, Except.ok.injEq, Prod.mk.injEq] at h
      obtain ⟨rfl, rfl⟩ := h
      have hc := split_conserves' hse hsp
      have hr := split_ok_ranges hsp
      obtain ⟨i1, i2⟩ := ih b out' rest' hr.2 hoff
      refine ⟨?_, i2⟩
      simp only [List.cons_append, List.flatMap_cons, i1]
      exact hc.1

theorem concatenate2_rows {k c c' : Chunk} {a : Bool} (h : concatenate [k, c] a = .ok c') :
    c'.rows = k.rows ++ c.rows ∧ c'.start ≤ c'.stop := by
  rw [concatenate_eq] at h
  split at h; · cases h
  split at h; · cases h
  obtain ⟨p, -, h⟩ := bind_eq_ok.1 h
  obtain ⟨s, -, h⟩ := bind_eq_ok.1 h
  split at h; · cases h
  have f := mkChunk_fields h
  refine ⟨by rw [f.2.2.2.2.2.1]; simp, ?_⟩
  rw [f.2.2.2.1, f.2.2.2.2.1]; exact f.2.2.2.2.2.2.2.2.1

theorem receive_true_eq (a0 : Int) (sup : Bool) (cache : Option Chunk) (c : Chunk) :
    Rechunker.receive a0 ⟨true, sup, cache⟩ c =
      (match cache with
        | some k => concatenate [k, c] sup
        | none => pure c) >>= fun c' =>
      getSplits a0 c'.rows c'.target DEFAULT_CHUNK_SPLIT_NS >>= fun splits =>
      splitOff c' (adjDiff splits) >>= fun x =>
      pure (⟨true, sup, some x.2⟩, x.1) := by
  cases cache <;> rfl

/-- whatever the annotations and the mode (`isSuperrun` flag): if the rechunker does not fail, the rows come out
unchanged and in order -/
theorem rechunk_rows_of_ok (a0 : Int) (sup : Bool) : ∀ (cs : List Chunk) (cache : Option Chunk) (out : List Chunk),
    (∀ c ∈ cache.toList ++ cs, c.start ≤ c.stop) → rechunkAll a0 ⟨true, sup, cache⟩ cs = .ok out →
    out.flatMap (·.rows) = (cache.toList ++ cs).flatMap (·.rows) := by
  intro cs
  induction cs with
  | nil =>
    intro cache out _ h
    simp only [rechunkAll, pure, Except.pure, Except.ok.injEq] at h
    subst h
    unfold Rechunker.flush
    cases cache <;> simp
  | cons c cs ih =>
    intro cache out hse h
    simp only [rechunkAll] at h
    obtain ⟨⟨r', o1⟩, hrec, h⟩ := bind_eq_ok.1 h
    obtain ⟨o2, hrest, h⟩ := bind_eq_ok.1 h
    simp only [pure, Except.pure, Except.ok.injEq] at h
    subst h
    rw [receive_true_eq] at hrec
    obtain ⟨c', hc', hrec⟩ := bind_eq_ok.1 hrec
    obtain ⟨s, -, hrec⟩ := bind_eq_ok.1 hrec
    obtain ⟨⟨o, rest⟩, hoff, hrec⟩ := bind_eq_ok.1 hrec
    simp only [pure, Except.pure, Except.ok.injEq, Prod.mk.injEq] at hrec
    obtain ⟨rfl, rfl⟩ := hrec
    have hc'f : c'.rows = (cache.toList ++ [c]).flatMap (·.rows) ∧ c'.start ≤ c'.stop := by
      cases cache with
      | none =>
        simp only [pure, Except.pure, Except.ok.injEq] at hc'
        rw [← hc']
        exact ⟨by simp, hse c (by simp)⟩
      | some k =>
        have := concatenate2_rows hc'
        exact ⟨by simp [this.1], this.2⟩
    obtain ⟨i1, i2⟩ := splitOff_rows _ c' o rest hc'f.2 hoff
    have := ih (some rest) o2 (by
      intro x hx
      simp only [Option.toList_some, List.cons_append, List.nil_append, List.mem_cons] at hx
      rcases hx with rfl | hx
      · exact i2
      · exact hse x (by simp [hx])) hrest
    rw [List.flatMap_append, this]
    simp only [Option.toList_some, List.cons_append, List.nil_append, List.flatMap_cons]
    rw [← List.append_assoc]
    have e : List.flatMap (fun x => x.rows) o ++ rest.rows = c'.rows := by rw [← i1]; simp
    rw [e, hc'f.1]
    simp

/-- chunk-level early split: the split time is the latest admissible time not after the clamped `t` -/
theorem split_early_latest' {c : Chunk} {t : Int} {c1 c2 : Chunk} (hwf : c.wf = true)
    (h : c.split t true = .ok (c1, c2)) :
    c1.stop ≤ max (min t c.stop) c.start ∧
    (∀ τ, c1.stop < τ → τ ≤ max (min t c.stop) c.start → ∃ r ∈ c.rows, r.straddles τ) ∧
    ¬ ∃ r ∈ c.rows, r.straddles c1.stop := by
  obtain ⟨h0, hse, hs, hpos, hin⟩ := (Chunk.wf_iff c).1 hwf
  have hnn : ∀ r ∈ c.rows, 0 ≤ r.time := by intro r hr; have := hin r hr; omega
  obtain ⟨d1, d2, t', hv, h1, -⟩ := Chunk.split_ok_inv h
  obtain ⟨ha, hst, hts, hl, hr⟩ := splitData_wf hwf hv
  have hstop : c1.stop = t' := by
    have f := mkChunk_fields h1
    rw [f.2.2.2.2.1]; omega
  rw [hstop]
  refine ⟨splitData_time_le hv, ?_, ?_⟩
  · intro τ h1 h2
    unfold splitData at hv
    split at hv
    · simp only [pure, Except.pure, Except.ok.injEq, Prod.mk.injEq] at hv; omega
    · split at hv
      · simp only [pure, Except.pure, Except.ok.injEq, Prod.mk.injEq] at hv; omega
      · exact splitArray_early_chain hpos hnn hv τ h1 h2
  · have := no_straddler_of_sep hl hr
    rwa [ha] at this

/-! ### a chunk made by `concatenate(allow_superrun=True)` that cannot be split again (open finding) -/

def exA : Chunk := ⟨"d", "k", some "_s", 0, 5, [⟨1,2,0⟩], some [⟨"a", 0, 5⟩], [⟨"_s", 0, 5⟩], 1000⟩
def exB : Chunk := ⟨"d", "k", some "_t", 5, 9, [⟨6,7,1⟩], some [⟨"b", 5, 9⟩], [⟨"_t", 5, 9⟩], 1000⟩
def exP : Chunk := ⟨"d", "k", none, 0, 9, [⟨1,2,0⟩, ⟨6,7,1⟩], some [⟨"a", 0, 5⟩, ⟨"b", 5, 9⟩], [⟨"_s", 0, 5⟩, ⟨"_t", 5, 9⟩], 1000⟩

theorem exP_is_product : concatenate [exA, exB] true = .ok exP := by
  have s1 : sortRuns [⟨"a", 0, 5⟩, ⟨"b", 5, 9⟩] = [⟨"a", 0, 5⟩, ⟨"b", 5, 9⟩] :=
    sortRuns_of_sortedLex (by decide) (by decide)
  have s2 : sortRuns [⟨"_s", 0, 5⟩, ⟨"_t", 5, 9⟩] = [⟨"_s", 0, 5⟩, ⟨"_t", 5, 9⟩] :=
    sortRuns_of_sortedLex (by decide) (by decide)
  have h1 : allEq ([exA, exB].map (·.dataType)) = true := by decide
  have h2 : allEq ([exA, exB].map (·.runId)) = false := by decide
  have h3 : concatRun [exA, exB] exA = .ok (none, some [⟨"_s", 0, 5⟩, ⟨"_t", 5, 9⟩]) := by decide +kernel
  have h4 : concatSub [exA, exB] = .ok (some [⟨"a", 0, 5⟩, ⟨"b", 5, 9⟩]) := by decide +kernel
  have h5 : outOfOrder 0 [exA, exB] = false := by decide
  have hmk : mkChunk "d" "k" none 0 9 [⟨1,2,0⟩, ⟨6,7,1⟩] (some [⟨"a", 0, 5⟩, ⟨"b", 5, 9⟩])
      (some [⟨"_s", 0, 5⟩, ⟨"_t", 5, 9⟩]) 1000 = .ok exP := by
    rw [mkChunk_eq]
    simp only [s1]
    have ho1 : runsOverlap [⟨"a", 0, 5⟩, ⟨"b", 5, 9⟩] = false := by decide
    have ho2 : runsOverlap [⟨"_s", 0, 5⟩, ⟨"_t", 5, 9⟩] = false := by decide
    have hl : lastEndMax [⟨1,2,0⟩, ⟨6,7,1⟩] = some 7 := by decide
    simp [ho1, ho2, hl, mkStage2, mkStage3, mkStage4, s2, exP]
  rw [concatenate_eq, h1, h2, h3, h4]
  simp only [bind, Except.bind, h5, Bool.not_true, Bool.not_false, Bool.false_eq_true, if_false, Bool.true_and]
  exact hmk

end Strax
