import StraxModel.Lemmas.Superrun
/-
  Property C14, part 2: rows through the rechunker, the savers / loaders, the concat loader and the whole
  `superGet`; the storage invariant behind "redefinition never serves stale data".  Core Lean only.
-/
namespace Strax.Superrun
open Strax

/-! ## 6. rows through the rechunker -/

theorem splitOff_rows : ∀ (ks : List Nat) (c : Chunk) (out : List Chunk) (rest : Chunk),
    splitOff c ks = .ok (out, rest) → rowsOf out ++ rest.rows = c.rows
  | [], c, out, rest, h => by
    simp only [splitOff, pure, Except.pure, Except.ok.injEq, Prod.mk.injEq] at h
    obtain ⟨rfl, rfl⟩ := h; simp
  | k :: ks, c, out, rest, h => by
    unfold splitOff at h
    split at h
    · cases h
    · obtain ⟨⟨a, b⟩, hs, h⟩ := bind_ok h
      obtain ⟨⟨o, r⟩, hr, h⟩ := bind_ok h
      simp only [pure, Except.pure, Except.ok.injEq, Prod.mk.injEq] at h
      obtain ⟨rfl, rfl⟩ := h
      have ih := splitOff_rows ks b o r hr
      have h1 := split_rows hs
      rw [rowsOf_cons, List.append_assoc, ih, h1]

theorem receive_rows {a : Int} {r r' : Rechunker} {c : Chunk} {out : List Chunk} (hr : r.rechunk = true)
    (h : r.receive a c = .ok (r', out)) : r'.rechunk = true ∧ rowsOf out ++ bufRows r'.cache = bufRows r.cache ++ c.rows := by
  unfold Rechunker.receive at h
  simp only [hr, Bool.not_true, Bool.false_eq_true, if_false] at h
  cases hk : r.cache with
  | none =>
    simp only [hk] at h
    obtain ⟨c', hc, h⟩ := bind_ok h
    obtain ⟨sp, _, h⟩ := bind_ok h
    obtain ⟨⟨o, rest⟩, hso, h⟩ := bind_ok h
    simp only [pure, Except.pure, Except.ok.injEq, Prod.mk.injEq] at h hc
    obtain ⟨rfl, rfl⟩ := h
    subst hc
    have h1 := splitOff_rows _ _ _ _ hso
    exact ⟨rfl, by simpa [bufRows] using h1⟩
  | some k =>
    simp only [hk] at h
    obtain ⟨c', hc, h⟩ := bind_ok h
    obtain ⟨sp, _, h⟩ := bind_ok h
    obtain ⟨⟨o, rest⟩, hso, h⟩ := bind_ok h
    simp only [pure, Except.pure, Except.ok.injEq, Prod.mk.injEq] at h
    obtain ⟨rfl, rfl⟩ := h
    have h1 := splitOff_rows _ _ _ _ hso
    have h2 := concatenate_rows hc
    exact ⟨rfl, by simpa [bufRows, h2] using h1⟩

theorem rechunkAll_rows (a : Int) : ∀ (cs : List Chunk) (r : Rechunker) (out : List Chunk), r.rechunk = true →
    rechunkAll a r cs = .ok out → rowsOf out = bufRows r.cache ++ rowsOf cs
  | [], r, out, _, h => by
    simp only [rechunkAll, pure, Except.pure, Except.ok.injEq] at h
    subst h
    unfold Rechunker.flush
    cases r.cache <;> simp [bufRows]
  | c :: cs, r, out, hr, h => by
    unfold rechunkAll at h
    obtain ⟨⟨r', o⟩, hrc, h⟩ := bind_ok h
    obtain ⟨rest, hrest, h⟩ := bind_ok h
    simp only [pure, Except.pure, Except.ok.injEq] at h
    subst h
    obtain ⟨hr', h1⟩ := receive_rows hr hrc
    have ih := rechunkAll_rows a cs r' rest hr' hrest
    rw [rowsOf_append, ih, ← List.append_assoc, h1, rowsOf_cons, List.append_assoc]

/-- saving (with or without rechunking across subrun borders) keeps the rows -/
theorem save_rows {a : Int} {lv : Level} {rid : String} {cs out : List Chunk} (h : save a lv rid cs = .ok out) :
    rowsOf out = rowsOf cs := by
  unfold save at h
  split at h
  · simpa [bufRows] using rechunkAll_rows a cs _ out rfl h
  · simp only [pure, Except.pure, Except.ok.injEq] at h; subst h; rfl

theorem reload_rows {c c' : Chunk} (h : reload c = .ok c') : c'.rows = c.rows := by
  unfold reload at h
  repeat' (split at h)
  all_goals (first | (cases h; done) | exact mkChunk_rows h)

theorem mapM_rows {α : Type} (f : α → Except Err Chunk) (g : α → List Row)
    (hf : ∀ a c, f a = .ok c → c.rows = g a) : ∀ (l : List α) (cs : List Chunk),
    l.mapM f = .ok cs → rowsOf cs = l.flatMap g
  | [], cs, h => by simp only [List.mapM_nil, pure, Except.pure, Except.ok.injEq] at h; subst h; rfl
  | a :: l, cs, h => by
    rw [List.mapM_cons] at h
    obtain ⟨c, hc, h⟩ := bind_ok h
    obtain ⟨rest, hr, h⟩ := bind_ok h
    simp only [pure, Except.pure, Except.ok.injEq] at h
    subst h
    rw [rowsOf_cons, hf a c hc, mapM_rows f g hf l rest hr]
    simp

theorem mapM_reload_rows {cs cs' : List Chunk} (h : cs.mapM reload = .ok cs') : rowsOf cs' = rowsOf cs :=
  mapM_rows reload (·.rows) (fun _ _ => reload_rows) cs cs' h

/-! ## 7. ordinary runs and the concat loader -/

/-- everything the source produces for run `rid`, in order -/
def srcRows (w : World) (rid : String) : List Row :=
  match w.src.lookup rid with
  | some raw => raw.flatMap (·.rows)
  | none => []

theorem foldlM_pluginRun_rows (rid : String) : ∀ (ls : List Level) (cs out : List Chunk),
    ls.foldlM (fun cs lv => pluginRun lv rid cs) cs = .ok out → rowsOf out = rowsOf cs
  | [], cs, out, h => by simp only [List.foldlM_nil, pure, Except.pure, Except.ok.injEq] at h; subst h; rfl
  | lv :: ls, cs, out, h => by
    rw [List.foldlM_cons] at h
    obtain ⟨mid, hm, h⟩ := bind_ok h
    rw [foldlM_pluginRun_rows rid ls mid out h, pluginRun_rows hm]

/-- the single-run result at any level holds exactly the source's rows -/
theorem subrunStored_rows {w : World} {rid : String} {j : Nat} {cs : List Chunk}
    (h : subrunStored w rid j = .ok cs) : rowsOf cs = srcRows w rid := by
  unfold subrunStored at h
  split at h
  · rename_i raw l0 ls hl _
    obtain ⟨c0, h0, h⟩ := bind_ok h
    split at h
    · cases h
    · obtain ⟨top, ht, h⟩ := bind_ok h
      obtain ⟨saved, hs, h⟩ := bind_ok h
      have e0 := mapM_rows _ (fun (c : RawC) => c.rows) (fun a c hc => mkChunk_rows hc) raw c0 h0
      rw [mapM_reload_rows h, save_rows hs, foldlM_pluginRun_rows rid ls c0 top ht, e0]
      simp [srcRows, hl]
  · cases h

theorem mapM_flatten_rows {α : Type} (f : α → Except Err (List Chunk)) (g : α → List Row)
    (hf : ∀ a cs, f a = .ok cs → rowsOf cs = g a) : ∀ (l : List α) (per : List (List Chunk)),
    l.mapM f = .ok per → rowsOf per.flatten = l.flatMap g
  | [], per, h => by simp only [List.mapM_nil, pure, Except.pure, Except.ok.injEq] at h; subst h; rfl
  | a :: l, per, h => by
    rw [List.mapM_cons] at h
    obtain ⟨c, hc, h⟩ := bind_ok h
    obtain ⟨rest, hr, h⟩ := bind_ok h
    simp only [pure, Except.pure, Except.ok.injEq] at h
    subst h
    rw [List.flatten_cons, rowsOf_append, hf a c hc, mapM_flatten_rows f g hf l rest hr]
    simp

theorem mapM_congr' {α β : Type} {f g : α → Except Err β} : ∀ (l : List α), (∀ a ∈ l, f a = g a) → l.mapM f = l.mapM g
  | [], _ => rfl
  | a :: l, h => by
    rw [List.mapM_cons, List.mapM_cons, h a (by simp), mapM_congr' l (fun x hx => h x (by simp [hx]))]

/-- "every listed subrun is taken whole" (`"all"`) -/
def AllSel (sel : Sel) (spec : List String) : Prop := ∀ r ∈ spec, sel.lookup r = none

/-- the concat loader yields the subruns' rows one subrun after the other, in `sub_run_spec` order -/
theorem concatLoader_rows {w : World} {spec : List String} {sel : Sel} {j : Nat} {cs : List Chunk}
    (hsel : AllSel sel spec) (h : concatLoader w spec sel j = .ok cs) : rowsOf cs = spec.flatMap (srcRows w) := by
  unfold concatLoader at h
  obtain ⟨per, hp, h⟩ := bind_ok h
  simp only [pure, Except.pure, Except.ok.injEq] at h
  subst h
  have hp' : spec.mapM (fun rid => subrunStored w rid j) = .ok per := by
    rw [← hp]
    apply mapM_congr'
    intro r hr
    simp [subrunLoaded, hsel r hr]
  exact mapM_flatten_rows _ _ (fun a cs hc => subrunStored_rows hc) spec per hp'

/-! ## 8. the storage invariant and `superGet` -/

/-- what stored superrun data must satisfy: whatever definition `(spec, combining)` a key stands for, the rows
stored under it are that definition's rows.  The key only depends on the SET of subruns (`hashablize` sorts the
dict), so `spec` ranges over a class `Canon` of orderings in which the set determines the order (e.g. "sorted by a
fixed strict order of run starts", or "sorted by id"). -/
def Good {κ : Type} (Canon : List String → Prop) (H : List (String × Option (Int × Int)) → Bool → κ) (w : World)
    (key : Key κ) (rows : List Row) : Prop :=
  ∀ (spec : List String) (c : Bool), Canon spec → key = superrunKey H w.superName spec [] c →
    rows = spec.flatMap (srcRows w)

def StoreInv {κ : Type} [DecidableEq κ] (Canon : List String → Prop) (H : List (String × Option (Int × Int)) → Bool → κ) (w : World)
    (st : Store κ) : Prop :=
  ∀ key dt cs, st.lookup (key, dt) = some cs → Good Canon H w key (rowsOf cs)

theorem storeInv_nil {κ : Type} [DecidableEq κ] (Canon : List String → Prop) (H : List (String × Option (Int × Int)) → Bool → κ)
    (w : World) :
    StoreInv Canon H w [] := by
  intro key dt cs h; simp at h

theorem perm_of_sortIds_eq' {a b : List String} (h : sortIds a = sortIds b) : a.Perm b :=
  (sortIds_perm a).symm.trans (h ▸ sortIds_perm b)

/-- a key of a definition with selections coincides with the key of an all-`"all"` definition only if it IS that
definition: same runs (hence same order, in a canonical class) and every listed run taken whole -/
theorem own_key_all {κ : Type} {Canon : List String → Prop} {H : List (String × Option (Int × Int)) → Bool → κ}
    (hH : ∀ a b c d, H a b = H c d → a = c ∧ b = d) (hcanon : ∀ a b, Canon a → Canon b → a.Perm b → a = b)
    {name : String} {spec spec' : List String} {sel : Sel} {c c' : Bool} (hs : Canon spec) (hs' : Canon spec')
    (hk : superrunKey H name spec sel c = superrunKey H name spec' [] c') : spec = spec' ∧ AllSel sel spec := by
  obtain ⟨h1, h2⟩ := tagged_eq (superrunKey_inj hH hk).1
  exact ⟨hcanon spec spec' hs hs' (perm_of_sortIds_eq' h1), fun r hr => by simpa using h2 r hr⟩

theorem storeInv_cons {κ : Type} [DecidableEq κ] {Canon : List String → Prop} {H : List (String × Option (Int × Int)) → Bool → κ} {w : World}
    {st : Store κ} {key : Key κ} {dt : String} {cs : List Chunk}
    (hi : StoreInv Canon H w st) (hg : Good Canon H w key (rowsOf cs)) : StoreInv Canon H w (((key, dt), cs) :: st) := by
  intro key' dt' cs' h
  rw [List.lookup_cons] at h
  split at h
  · rename_i he
    simp only [beq_iff_eq, Prod.mk.injEq] at he
    cases h
    rw [he.1]; exact hg
  · exact hi key' dt' cs' h

theorem descend_rows {κ : Type} [DecidableEq κ] {Canon : List String → Prop} {H : List (String × Option (Int × Int)) → Bool → κ}
    {w : World} {spec : List String} {sel : Sel} {comb : Bool} {store : Store κ}
    (hs : Canon spec) (hsel : AllSel sel spec) (hi : StoreInv Canon H w store) :
    ∀ (rev : List Level) (base : List Chunk) (above : List Level),
      descend w spec sel (superrunKey H w.superName spec sel comb) store comb rev = .ok (base, above) →
      rowsOf base = spec.flatMap (srcRows w)
  | [], base, above, h => by cases h
  | lv :: below, base, above, h => by
    unfold descend at h
    split at h
    · rename_i cs hl
      obtain ⟨cs', hc, h⟩ := bind_ok h
      simp only [pure, Except.pure, Except.ok.injEq, Prod.mk.injEq] at h
      obtain ⟨rfl, _⟩ := h
      rw [mapM_reload_rows hc]
      refine hi _ _ _ hl spec comb hs ?_
      unfold superrunKey
      rw [tagged_congr (l1 := sel) (l2 := []) (fun r hr => by simpa using hsel r hr)]
    · split at h
      · obtain ⟨cs', hc, h⟩ := bind_ok h
        simp only [pure, Except.pure, Except.ok.injEq, Prod.mk.injEq] at h
        obtain ⟨rfl, _⟩ := h
        exact concatLoader_rows hsel hc
      · obtain ⟨⟨b, ab⟩, hd, h⟩ := bind_ok h
        simp only [pure, Except.pure, Except.ok.injEq, Prod.mk.injEq] at h
        obtain ⟨rfl, _⟩ := h
        exact descend_rows hs hsel hi below b ab hd

theorem runLevels_rows (rid : String) : ∀ (ls : List Level) (cs : List Chunk) (outs : List (Level × List Chunk)),
    runLevels rid ls cs = .ok outs → ∀ p ∈ outs, rowsOf p.2 = rowsOf cs
  | [], cs, outs, h, p, hp => by
    simp only [runLevels, pure, Except.pure, Except.ok.injEq] at h; subst h; simp at hp
  | lv :: ls, cs, outs, h, p, hp => by
    unfold runLevels at h
    obtain ⟨out, ho, h⟩ := bind_ok h
    obtain ⟨more, hm, h⟩ := bind_ok h
    simp only [pure, Except.pure, Except.ok.injEq] at h
    subst h
    simp only [List.mem_cons] at hp
    rcases hp with rfl | hp
    · exact pluginRun_rows ho
    · rw [runLevels_rows rid ls out more hm p hp, pluginRun_rows ho]

theorem saveAll_inv {κ : Type} [DecidableEq κ] {Canon : List String → Prop} {H : List (String × Option (Int × Int)) → Bool → κ} {w : World}
    {key : Key κ} {rows : List Row}
    (hg : Good Canon H w key rows) (a : Int) (rid : String) :
    ∀ (outs : List (Level × List Chunk)) (st st' : Store κ), (∀ p ∈ outs, rowsOf p.2 = rows) → StoreInv Canon H w st →
      saveAll a key rid outs st = .ok st' → StoreInv Canon H w st'
  | [], st, st', _, hi, h => by
    simp only [saveAll, pure, Except.pure, Except.ok.injEq] at h; subst h; exact hi
  | (lv, out) :: rest, st, st', hr, hi, h => by
    unfold saveAll at h
    obtain ⟨s, hs, h⟩ := bind_ok h
    refine saveAll_inv hg a rid rest _ st' (fun p hp => hr p (by simp [hp])) ?_ h
    apply storeInv_cons hi
    rw [save_rows hs, hr (lv, out) (by simp)]
    exact hg

/-- **Rows of a superrun, and no stale data.**  For every world, every `spec` of a canonical class with any
per-subrun selections, every store satisfying the invariant, every target level, combining or not, writing or not:
if `get_iter` succeeds, the store still satisfies the invariant, and — when every listed subrun is taken whole —
the yielded rows are the subruns' rows concatenated in `spec` order. -/
theorem superGet_rows {κ : Type} [DecidableEq κ] {Canon : List String → Prop} {H : List (String × Option (Int × Int)) → Bool → κ}
    (hH : ∀ a b c d, H a b = H c d → a = c ∧ b = d) (hcanon : ∀ a b, Canon a → Canon b → a.Perm b → a = b)
    {w : World} {spec : List String} {sel : Sel} {store store' : Store κ} {n : Nat} {comb write : Bool} {y : List Chunk}
    (hs : Canon spec) (hi : StoreInv Canon H w store)
    (h : superGet H w spec sel store n comb write = .ok (y, store')) :
    StoreInv Canon H w store' ∧ (AllSel sel spec → rowsOf y = spec.flatMap (srcRows w)) := by
  unfold superGet at h
  split at h
  · cases h
  · split at h
    · cases h
    · obtain ⟨⟨base, above⟩, hd, h⟩ := bind_ok h
      obtain ⟨outs, ho, h⟩ := bind_ok h
      obtain ⟨_, _, h⟩ := bind_ok h
      obtain ⟨st2, hsv, h⟩ := bind_ok h
      simp only [pure, Except.pure, Except.ok.injEq, Prod.mk.injEq] at h
      obtain ⟨rfl, rfl⟩ := h
      have hb : AllSel sel spec → rowsOf base = spec.flatMap (srcRows w) :=
        fun hsel => descend_rows hs hsel hi _ base above hd
      have hall := runLevels_rows w.superName above base outs ho
      have hy : rowsOf (topOutput outs base) = rowsOf base := by
        unfold topOutput
        cases hl : outs.getLast? with
        | none => rfl
        | some p => exact hall p (List.mem_of_getLast? hl)
      refine ⟨?_, fun hsel => by rw [hy, hb hsel]⟩
      unfold storeAfter at hsv
      split at hsv
      · refine saveAll_inv (rows := rowsOf base) ?_ _ _ outs store _ hall hi hsv
        intro spec' c' hs' hk
        obtain ⟨rfl, hsel⟩ := own_key_all hH hcanon hs hs' hk
        exact hb hsel
      · simp only [pure, Except.pure, Except.ok.injEq] at hsv; subst hsv; exact hi

/-! ## 9. id order, keys of permuted specs, histories of gets -/

def leId (a b : String) : Bool := decide (a ≤ b)

theorem leId_trans (a b c : String) : leId a b → leId b c → leId a c := by
  simp only [leId, decide_eq_true_eq]; exact String.le_trans

theorem leId_total (a b : String) : (leId a b || leId b a) = true := by
  simp only [leId, Bool.or_eq_true, decide_eq_true_eq]; exact String.le_total a b

theorem sortIds_sorted (l : List String) : (sortIds l).Pairwise (fun a b => leId a b) :=
  List.pairwise_mergeSort leId_trans leId_total l

theorem sortIds_idem (l : List String) : sortIds (sortIds l) = sortIds l :=
  List.mergeSort_of_pairwise (sortIds_sorted l)

theorem sortIds_eq_of_perm {a b : List String} (h : a.Perm b) : sortIds a = sortIds b := by
  apply List.Perm.eq_of_pairwise (le := fun a b => leId a b = true) _ (sortIds_sorted a) (sortIds_sorted b)
  · exact (sortIds_perm a).trans (h.trans (sortIds_perm b).symm)
  · intro x y _ _ h1 h2
    simp only [leId, decide_eq_true_eq] at h1 h2
    exact String.le_antisymm h1 h2

theorem perm_of_sortIds_eq {a b : List String} (h : sortIds a = sortIds b) : a.Perm b := perm_of_sortIds_eq' h

/-- id-sorted specs form a canonical class -/
theorem canon_sortIds : ∀ a b : List String, sortIds a = a → sortIds b = b → a.Perm b → a = b := by
  intro a b ha hb h
  rw [← ha, ← hb]; exact sortIds_eq_of_perm h

/-- strictly sorted by run start according to the run documents -/
def StartSorted (docs : List (String × Int)) (spec : List String) : Prop :=
  spec.Pairwise (fun a b => ∃ sa sb, docs.lookup a = some sa ∧ docs.lookup b = some sb ∧ sa < sb)

/-- with distinct run starts the set of subruns determines the start order -/
theorem canon_startSorted (docs : List (String × Int)) :
    ∀ a b : List String, StartSorted docs a → StartSorted docs b → a.Perm b → a = b := by
  intro a b ha hb h
  refine List.Perm.eq_of_pairwise ?_ ha hb h
  intro x y _ _ h1 h2
  obtain ⟨sa, sb, e1, e2, hlt⟩ := h1
  obtain ⟨sb', sa', e3, e4, hlt'⟩ := h2
  rw [e1] at e4; rw [e2] at e3
  cases e3; cases e4
  omega

/-- `define_run` on runs with pairwise distinct starts yields a strictly start-sorted spec -/
theorem defineRun_startSorted {docs : List (String × Int)} {data spec : List String} (h : defineRun docs data = .ok spec)
    (hd : ∀ a b sa sb, a ∈ data → b ∈ data → a ≠ b → docs.lookup a = some sa → docs.lookup b = some sb → sa ≠ sb) :
    StartSorted docs spec := by
  have hs := defineRun_sorted h
  have hn := defineRun_nodup h
  have hp := defineRun_perm h
  have hmem : ∀ x ∈ spec, x ∈ data := fun x hx => mem_dedup.mp (hp.subset hx)
  unfold StartSorted
  have hboth := (List.Pairwise.and_mem.mp hs).and hn
  refine hboth.imp ?_
  intro a b hab
  obtain ⟨⟨ha, hb, sa, sb, e1, e2, hle⟩, hne⟩ := hab
  refine ⟨sa, sb, e1, e2, ?_⟩
  have := hd a b sa sb (hmem a ha) (hmem b hb) hne e1 e2
  omega

/-- one `get_iter` call of a history: under which definition, for which level, how -/
structure GetOp where
  spec : List String
  sel : Sel
  n : Nat
  combining : Bool
  write : Bool

/-- a history of `get_iter` calls on one context (storage persists, the superrun may be redefined between any two
calls); it ends at the first call that raises -/
def runOps {κ : Type} [DecidableEq κ] (H : List (String × Option (Int × Int)) → Bool → κ) (w : World) :
    Store κ → List GetOp → List (GetOp × List Chunk)
  | _, [] => []
  | st, op :: ops =>
    match superGet H w op.spec op.sel st op.n op.combining op.write with
    | .ok (y, st') => (op, y) :: runOps H w st' ops
    | .error _ => []

theorem runOps_rows {κ : Type} [DecidableEq κ] {Canon : List String → Prop} {H : List (String × Option (Int × Int)) → Bool → κ}
    (hH : ∀ a b c d, H a b = H c d → a = c ∧ b = d) (hcanon : ∀ a b, Canon a → Canon b → a.Perm b → a = b) (w : World) :
    ∀ (ops : List GetOp) (st : Store κ), StoreInv Canon H w st → (∀ op ∈ ops, Canon op.spec) →
      ∀ p ∈ runOps H w st ops, AllSel p.1.sel p.1.spec → rowsOf p.2 = p.1.spec.flatMap (srcRows w)
  | [], _, _, _, p, hp => by simp [runOps] at hp
  | op :: ops, st, hi, hs, p, hp => by
    unfold runOps at hp
    split at hp
    · rename_i y st' hg
      obtain ⟨hi', hy⟩ := superGet_rows hH hcanon (hs op (by simp)) hi hg
      simp only [List.mem_cons] at hp
      rcases hp with rfl | hp
      · exact hy
      · exact runOps_rows hH hcanon w ops st' hi' (fun o ho => hs o (by simp [ho])) p hp
    · simp at hp

end Strax.Superrun
