import StraxModel.Lemmas.ChunkAlgSplit
/-
  Helper lemmas for property C07, part 5: translation invariance of `split_array`.
  The model works on unbounded `Int`; for non-negative data a non-negative shift of every time
  commutes with `split_array` (the only absolute constant in the code, `latest_end_seen = -1`,
  stays below all times).  This is why small-grid exhaustive sweeps plus a few epoch-scale
  (shifted) runs of the harness cover the time axis.
-/
namespace Strax

def Row.shift (k : Int) (r : Row) : Row := ⟨r.time + k, r.endt + k, r.id⟩

def ScanRes.shift (k : Int) (s : ScanRes) : ScanRes := { s with latest := s.latest + k }

/-- pure translation of the loop, the initial `latest` translated too -/
theorem scan_shift (t k : Int) (rows : List Row) (i : Nat) (latest : Int) (splitI : Nat) :
    scan (t + k) (rows.map (Row.shift k)) i (latest + k) splitI
      = (scan t rows i latest splitI).shift k := by
  induction rows generalizing i latest splitI with
  | nil => simp [scan, ScanRes.shift]
  | cons d rest ih =>
    simp only [List.map_cons, scan, Row.shift]
    have e1 : (d.time + k ≥ latest + k) ↔ (d.time ≥ latest) := by omega
    have e2 : (d.time + k ≥ t + k) ↔ (d.time ≥ t) := by omega
    have e3 : max (latest + k) (d.endt + k) = max latest d.endt + k := by omega
    have e4 : (max latest d.endt + k > t + k) ↔ (max latest d.endt > t) := by omega
    simp only [e1, e2, e3, e4]
    by_cases h2 : d.time ≥ t
    · simp [h2, ScanRes.shift]
    · simp only [h2, if_false]
      by_cases h4 : max latest d.endt > t
      · simp [h4, ScanRes.shift]
      · simp only [h4, if_false]
        exact ih _ _ _

/-- the initial value of `latest_end_seen` is irrelevant once it lies below the first row -/
theorem scan_init_irrel (T : Int) (d : Row) (rest : List Row) (i : Nat) (L1 L2 : Int) (s : Nat)
    (hT : ¬ d.time ≥ T) (h1 : L1 ≤ d.time) (h2 : L2 ≤ d.time) (h3 : L1 ≤ d.endt) (h4 : L2 ≤ d.endt) :
    scan T (d :: rest) i L1 s = scan T (d :: rest) i L2 s := by
  simp only [scan]
  have a1 : d.time ≥ L1 := h1
  have a2 : d.time ≥ L2 := h2
  have m1 : max L1 d.endt = d.endt := by omega
  have m2 : max L2 d.endt = d.endt := by omega
  simp only [a1, a2, hT, if_true, if_false, m1, m2]

/-- `split_array` commutes with a non-negative shift of all times on non-negative data -/
theorem splitArray_shift' (data : List Row) (t k : Int) (early : Bool) (hk : 0 ≤ k)
    (hnn : ∀ r ∈ data, 0 ≤ r.time ∧ r.time ≤ r.endt) :
    splitArray (data.map (Row.shift k)) (t + k) early =
      match splitArray data t early with
      | .ok (l, r, t') => .ok (l.map (Row.shift k), r.map (Row.shift k), t' + k)
      | .error e => .error e := by
  cases data with
  | nil => simp [splitArray]
  | cons d0 tl =>
    have h0 := hnn d0 (by simp)
    rw [List.map_cons, splitArray_cons, splitArray_cons]
    have e0 : ((Row.shift k d0).time ≥ t + k) ↔ (d0.time ≥ t) := by simp only [Row.shift]; omega
    by_cases hb : d0.time ≥ t
    · simp [e0, hb]
    · have hb' : ¬ (Row.shift k d0).time ≥ t + k := by rw [e0]; exact hb
      simp only [hb, hb', if_false]
      have hscan : scan (t + k) (Row.shift k d0 :: tl.map (Row.shift k)) 0 (-1) 0
          = (scan t (d0 :: tl) 0 (-1) 0).shift k := by
        rw [scan_init_irrel (t + k) (Row.shift k d0) _ 0 (-1) (-1 + k) 0 hb'
          (by simp only [Row.shift]; omega) (by simp only [Row.shift]; omega)
          (by simp only [Row.shift]; omega) (by simp only [Row.shift]; omega)]
        have := scan_shift t k (d0 :: tl) 0 (-1) 0
        simpa using this
      rw [hscan]
      generalize scan t (d0 :: tl) 0 (-1) 0 = s
      have e5 : (s.latest + k ≤ t + k) ↔ (s.latest ≤ t) := by omega
      have e6 : (s.latest + k > t + k) ↔ (s.latest > t) := by omega
      simp only [ScanRes.shift, e5, e6]
      have hm : Row.shift k d0 :: tl.map (Row.shift k) = (d0 :: tl).map (Row.shift k) := rfl
      rw [hm]
      by_cases c1 : (!s.broke && decide (s.latest ≤ t)) = true
      · simp [c1]
      · simp only [c1]
        by_cases c2 : (s.beyond != some s.splitI || decide (s.latest > t)) = true
        · simp only [c2, if_true]
          cases early with
          | false => simp
          | true =>
            simp only [Bool.not_true, Bool.false_eq_true, if_false, List.getElem?_map]
            cases hg : (d0 :: tl)[s.splitI]? with
            | none => simp
            | some r =>
              simp only [Option.map_some, List.map_take, List.map_drop, Row.shift]
              congr 3
              omega
        · simp [c2, List.map_take, List.map_drop]

end Strax
