import StraxModel.Lemmas.MailboxTerm
import StraxModel.Model.Divider
/-
  `divide_outputs` feeding several mailboxes (Model/Divider.lean): the safety invariant `DInv` — every output
  mailbox satisfies the single-mailbox invariants `MBInv` / `RInv` in every reachable state.
-/
namespace Strax.Mailbox
open Strax

/-! ### reader steps at the (mailbox, readers) level — shared by the single mailbox and the divider -/

theorem RInv.read_waiting {mb mb' : MB} {sent} {readers : List Reader} {i : Nat} {r : Reader}
    (hmb : MBInv mb sent) (hrd : RInv mb.subs readers sent) (hr : readers[i]? = some r) (hpc : r.pc = .read)
    (hst : mb.readStep i = some (.waiting, mb')) : RInv mb'.subs readers sent := by
  obtain ⟨_, _, _, _, sub, s2, hi, hsubs, _, hpost⟩ := hmb.readStep hst
  simp only [ReadPost] at hpost
  refine ⟨by simp [hsubs, hrd.len], ?_, ?_⟩
  · intro j sj rj hsj hrj
    simp only [hsubs] at hsj
    rcases getElem?_set_cases hsj with ⟨rfl, rfl, _⟩ | ⟨_, hsj⟩
    · rw [hpost.1]; exact hrd.deliv j sub rj hi hrj
    · exact hrd.deliv j sj rj hsj hrj
  · intro j sj rj hsj hrj hf
    simp only [hsubs] at hsj
    rcases getElem?_set_cases hsj with ⟨rfl, rfl, _⟩ | ⟨_, hsj⟩
    · rw [hr] at hrj; cases hrj; exact hpc
    · exact hrd.flagPc j sj rj hsj hrj hf

theorem RInv.read_killed {mb mb' : MB} {sent} {readers : List Reader} {i : Nat} {r : Reader}
    (hmb : MBInv mb sent) (hrd : RInv mb.subs readers sent) (hr : readers[i]? = some r) (hpc : r.pc = .read)
    (hst : mb.readStep i = some (.killed, mb')) :
    RInv mb'.subs (readers.set i { r with pc := .dead .mailboxKilled }) sent := by
  obtain ⟨_, _, _, _, sub, s2, hi, hsubs, _, hpost⟩ := hmb.readStep hst
  simp only [ReadPost] at hpost
  refine ⟨by simp [hsubs, hrd.len], ?_, ?_⟩
  · intro j sj rj hsj hrj
    simp only [hsubs] at hsj
    rcases getElem?_set_cases hsj with ⟨rfl, rfl, _⟩ | ⟨hne, hsj⟩
    · rcases getElem?_set_cases hrj with ⟨_, rfl, _⟩ | ⟨hne, _⟩
      · have := hrd.deliv j sub r hi hr
        rw [hpc] at this
        simpa [tailOf, hpost.1] using this
      · exact absurd rfl hne
    · rcases getElem?_set_cases hrj with ⟨e, _, _⟩ | ⟨_, hrj⟩
      · exact absurd e hne
      · exact hrd.deliv j sj rj hsj hrj
  · intro j sj rj hsj hrj hf
    simp only [hsubs] at hsj
    rcases getElem?_set_cases hsj with ⟨rfl, rfl, _⟩ | ⟨hne, hsj⟩
    · exact absurd hpost.2 hf
    · rcases getElem?_set_cases hrj with ⟨e, _, _⟩ | ⟨_, hrj⟩
      · exact absurd e hne
      · exact hrd.flagPc j sj rj hsj hrj hf

theorem RInv.read_took {mb mb' : MB} {sent} {readers : List Reader} {i : Nat} {r : Reader} {msgs : List Msg}
    (hmb : MBInv mb sent) (hrd : RInv mb.subs readers sent) (hr : readers[i]? = some r) (hpc : r.pc = .read)
    (hst : mb.readStep i = some (.took msgs, mb')) (fd : List Nat) :
    RInv mb'.subs (readers.set i (deliver fd msgs r.got)) sent := by
  obtain ⟨_, _, _, _, sub, s2, hi, hsubs, _, hpost⟩ := hmb.readStep hst
  simp only [ReadPost] at hpost
  obtain ⟨hn2, hf2, _, hio⟩ := hpost
  refine ⟨by simp [hsubs, hrd.len], ?_, ?_⟩
  · intro j sj rj hsj hrj
    simp only [hsubs] at hsj
    rcases getElem?_set_cases hsj with ⟨rfl, rfl, _⟩ | ⟨hne, hsj⟩
    · rcases getElem?_set_cases hrj with ⟨_, rfl, _⟩ | ⟨hne, _⟩
      · have h0 := hrd.deliv j sub r hi hr
        rw [hpc] at h0
        simp only [tailOf, List.append_nil] at h0
        have hd := deliver_spec fd msgs r.got h0.1
        refine ⟨hd.1, ?_⟩
        rw [hd.2, hn2, hio, h0.2]
      · exact absurd rfl hne
    · rcases getElem?_set_cases hrj with ⟨e, _, _⟩ | ⟨_, hrj⟩
      · exact absurd e hne
      · exact hrd.deliv j sj rj hsj hrj
  · intro j sj rj hsj hrj hf
    simp only [hsubs] at hsj
    rcases getElem?_set_cases hsj with ⟨rfl, rfl, _⟩ | ⟨hne, hsj⟩
    · exact absurd hf2 hf
    · rcases getElem?_set_cases hrj with ⟨e, _, _⟩ | ⟨_, hrj⟩
      · exact absurd e hne
      · exact hrd.flagPc j sj rj hsj hrj hf

theorem RInv.fut_step {subs : List Sub} {sent} {readers : List Reader} {i : Nat} {r : Reader} {pend : List Msg}
    (hrd : RInv subs readers sent) (hr : readers[i]? = some r) (hpc : r.pc = .futW pend) (fd : List Nat) :
    RInv subs (readers.set i (deliver fd pend r.got)) sent := by
  refine ⟨by simp [hrd.len], ?_, ?_⟩
  · intro j sj rj hsj hrj
    rcases getElem?_set_cases hrj with ⟨rfl, rfl, _⟩ | ⟨_, hrj⟩
    · have h0 := hrd.deliv j sj r hsj hr
      rw [hpc] at h0
      simp only [tailOf] at h0
      have hd := deliver_spec fd pend r.got h0.1
      exact ⟨hd.1, by rw [hd.2, h0.2]⟩
    · exact hrd.deliv j sj rj hsj hrj
  · intro j sj rj hsj hrj hf
    rcases getElem?_set_cases hrj with ⟨rfl, rfl, _⟩ | ⟨_, hrj⟩
    · have := hrd.flagPc j sj r hsj hr hf
      rw [hpc] at this; cases this
    · exact hrd.flagPc j sj rj hsj hrj hf


/-! ### the divider: safety invariant -/

structure OutInv (s : DSys) (k : Nat) (o : Out) : Prop where
  mb : MBInv o.mb o.sent
  rd : RInv o.mb.subs o.readers o.sent
  fPc : o.mb.fetchFlag ≠ none → s.dpc = .gate k
  lazyEq : o.mb.lazy = s.lazy

structure DInv (s : DSys) : Prop where
  out : ∀ (k : Nat) (o : Out), s.outs[k]? = some o → OutInv s k o
  gateLazy : ∀ k, s.dpc = .gate k → s.lazy = true

theorem DInv.fetch_none {s : DSys} (h : DInv s) {j : Nat} {oj : Out} (hj : s.outs[j]? = some oj)
    (hne : s.dpc ≠ .gate j) : oj.mb.fetchFlag = none := by
  cases hf : oj.mb.fetchFlag with
  | none => rfl
  | some b => exact absurd ((h.out j oj hj).fPc (by simp [hf])) hne

theorem loopStart_gate {s : DSys} {j : Nat} (h : s.loopStart = .gate j) : s.lazy = true := by
  unfold DSys.loopStart at h
  cases hl : s.lazy with
  | true => rfl
  | false => simp [hl] at h

theorem endOf_ne_gate (e : Err) (j : Nat) : endOf e ≠ .gate j := by
  unfold endOf; split <;> simp

theorem fail_ne_gate (s : DSys) (e : Err) (j : Nat) : s.fail e ≠ .gate j := by
  unfold DSys.fail; split
  · exact endOf_ne_gate e j
  · simp

theorem afterClose_ne_gate (s : DSys) (k j : Nat) : s.afterClose k ≠ .gate j := by
  unfold DSys.afterClose; split <;> simp

theorem afterExc_ne_gate (s : DSys) (k : Nat) (e : Err) (j : Nat) : s.afterExc k e ≠ .gate j := by
  unfold DSys.afterExc; split
  · simp
  · exact endOf_ne_gate e j

theorem sendAt_ne_gate (s : DSys) (k : Nat) (msgs : List Msg) (j : Nat) : s.sendAt k msgs ≠ .gate j := by
  unfold DSys.sendAt; split
  · simp
  · exact fail_ne_gate s _ j

theorem afterSendAt_gate {s : DSys} {k j : Nat} {msgs : List Msg} (h : s.afterSendAt k msgs = .gate j) : s.lazy = true := by
  unfold DSys.afterSendAt at h
  split at h
  · exact absurd h (sendAt_ne_gate _ _ _ _)
  · exact loopStart_gate h

/-- replace output `k`; every other output keeps its invariant as long as the new pc does not claim to be at a
gate some other output never registered for -/
theorem DInv.set {s s' : DSys} {k : Nat} {o o' : Out} (h : DInv s) (hk : s.outs[k]? = some o)
    (houts : s'.outs = s.outs.set k o') (hlazy : s'.lazy = s.lazy)
    (hmb : MBInv o'.mb o'.sent) (hrd : RInv o'.mb.subs o'.readers o'.sent)
    (hf : o'.mb.fetchFlag ≠ none → s'.dpc = .gate k) (hl : o'.mb.lazy = s.lazy)
    (hothers : ∀ (j : Nat) (oj : Out), j ≠ k → s.outs[j]? = some oj → oj.mb.fetchFlag ≠ none → s'.dpc = .gate j)
    (hgl : ∀ j, s'.dpc = .gate j → s.lazy = true) : DInv s' := by
  refine ⟨?_, fun j hj => by rw [hlazy]; exact hgl j hj⟩
  intro j oj hj
  rw [houts] at hj
  rcases getElem?_set_cases hj with ⟨rfl, rfl, _⟩ | ⟨hne, hj⟩
  · exact ⟨hmb, hrd, hf, by rw [hlazy]; exact hl⟩
  · have := h.out j oj hj
    exact ⟨this.mb, this.rd, hothers j oj hne hj, by rw [hlazy]; exact this.lazyEq⟩

theorem DInv.init (c : DConfig) : DInv (dinit c) := by
  have hmbinit : ∀ (drive : List Bool),
      MBInv ({ cap := c.cap, lazy := c.lazy, gateRule := c.gateRule, heap := [],
               subs := drive.map fun d => { next := 0, waitingFor := none, canDrive := d, flag := none },
               nSent := 0, closed := false, killed := false, forceKilled := false,
               writeFlag := none, fetchFlag := none } : MB) [] ∧
      RInv (drive.map fun d => ({ next := 0, waitingFor := none, canDrive := d, flag := none } : Sub))
        (drive.map fun _ => ({ pc := .read, got := [] } : Reader)) [] := by
    intro drive
    have h := Inv.init ⟨c.cap, c.lazy, c.gateRule, drive, [], [], []⟩
    exact ⟨h.mb, h.rd⟩
  refine ⟨?_, ?_⟩
  · intro k o hk
    simp only [dinit, List.getElem?_map] at hk
    cases hc : c.outs[k]? with
    | none => simp [hc] at hk
    | some p =>
      simp [hc] at hk; subst hk
      obtain ⟨h1, h2⟩ := hmbinit p.1
      exact ⟨h1, h2, by simp, rfl⟩
  · intro k hk
    exact loopStart_gate hk


theorem DInv.stepDivider {s s' : DSys} (h : DInv s) (hs : stepDivider s = some s') : DInv s' := by
  unfold Mailbox.stepDivider at hs
  split at hs
  · -- gate k
    rename_i k hpc
    split at hs
    · simp at hs
    · rename_i o hk
      split at hs
      · simp at hs
      · rename_i ok mb hg
        simp only [Option.some.injEq] at hs; subst hs
        have ho := h.out k o hk
        have hlz : s.lazy = true := h.gateLazy k hpc
        obtain ⟨hmb, hl, hff, _, hsubs⟩ := ho.mb.gateStep (by rw [ho.lazyEq, hlz]) hg
        refine h.set hk rfl rfl hmb (by simpa [hsubs] using ho.rd) ?_ (by rw [hl, hlz]) ?_ (fun _ _ => hlz)
        · intro hf; simp only at hf ⊢; simp [hff hf]
        · intro j oj hne hj hf
          exact absurd (h.fetch_none hj (by rw [hpc]; simp; exact fun e => hne e.symm)) hf
  · -- fetch
    rename_i hpc
    have hnone : ∀ (j : Nat) (oj : Out), s.outs[j]? = some oj → oj.mb.fetchFlag = none :=
      fun j oj hj => h.fetch_none hj (by rw [hpc]; simp)
    have keep : ∀ (s1 : DSys), s1.outs = s.outs → s1.lazy = s.lazy → (∀ j, s1.dpc = .gate j → s.lazy = true) → DInv s1 := by
      intro s1 h1 h2 h3
      refine ⟨?_, fun j hj => by rw [h2]; exact h3 j hj⟩
      intro j oj hj
      rw [h1] at hj
      have := h.out j oj hj
      exact ⟨this.mb, this.rd, fun hf => absurd (hnone j oj hj) hf, by rw [h2]; exact this.lazyEq⟩
    split at hs
    · simp only [Option.some.injEq] at hs; subst hs
      exact keep _ rfl rfl (by intro j hj; simp only at hj; split at hj <;> cases hj)
    · simp only [Option.some.injEq] at hs; subst hs
      refine keep _ rfl rfl ?_
      intro j hj
      simp only at hj
      split at hj
      · exact loopStart_gate hj
      · exact absurd hj (sendAt_ne_gate _ _ _ _)
    · simp only [Option.some.injEq] at hs; subst hs
      exact keep _ rfl rfl (by intro j hj; exact absurd hj (fail_ne_gate _ _ _))
  · -- send k msgs
    rename_i k msgs hpc
    split at hs
    · rename_i o m hk hm
      have ho := h.out k o hk
      have hf0 : o.mb.fetchFlag = none := h.fetch_none hk (by rw [hpc]; simp)
      have hoth : ∀ (pc' : DPc) (j : Nat) (oj : Out), j ≠ k → s.outs[j]? = some oj → oj.mb.fetchFlag ≠ none → pc' = .gate j :=
        fun pc' j oj _ hj hf => absurd (h.fetch_none hj (by rw [hpc]; simp)) hf
      have hnext : ∀ j, s.afterSendAt k msgs = .gate j → s.lazy = true := fun j hj => afterSendAt_gate hj
      split at hs
      · simp at hs
      · rename_i n mb hst
        simp only [Option.some.injEq] at hs; subst hs
        obtain ⟨hmb, hl, hff, _, hsubs⟩ := ho.mb.sendStep hf0 hst
        exact h.set hk rfl rfl hmb (((ho.rd.append _ ho.mb.found).sim (SubsSim.of_or hsubs)))
          (fun hf => absurd hff hf) (by rw [hl]; exact ho.lazyEq) (hoth _) hnext
      · rename_i mb hst
        simp only [Option.some.injEq] at hs; subst hs
        obtain ⟨hmb, hl, hff, _, hsubs⟩ := ho.mb.sendStep hf0 hst
        exact h.set hk rfl rfl hmb (ho.rd.sim (SubsSim.of_or hsubs))
          (fun hf => absurd hff hf) (by rw [hl]; exact ho.lazyEq) (hoth _) hnext
      · rename_i n mb hst
        simp only [Option.some.injEq] at hs; subst hs
        obtain ⟨hmb, hl, hff, _, hsubs⟩ := ho.mb.sendStep hf0 hst
        exact h.set hk rfl rfl hmb (ho.rd.sim (SubsSim.of_or hsubs))
          (fun hf => absurd hff hf) (by rw [hl]; exact ho.lazyEq) (hoth _) (fun j hj => by simp [hpc] at hj)
      · rename_i e mb hst
        simp only [Option.some.injEq] at hs; subst hs
        obtain ⟨hmb, hl, hff, _, hsubs⟩ := ho.mb.sendStep hf0 hst
        exact h.set hk rfl rfl hmb (ho.rd.sim (SubsSim.of_or hsubs))
          (fun hf => absurd hff hf) (by rw [hl]; exact ho.lazyEq) (hoth _) (fun j hj => absurd hj (fail_ne_gate _ _ _))
    · simp at hs
  · -- close k
    rename_i k hpc
    split at hs
    · simp at hs
    · rename_i o hk
      have ho := h.out k o hk
      have hf0 : o.mb.fetchFlag = none := h.fetch_none hk (by rw [hpc]; simp)
      have hoth : ∀ (pc' : DPc) (j : Nat) (oj : Out), j ≠ k → s.outs[j]? = some oj → oj.mb.fetchFlag ≠ none → pc' = .gate j :=
        fun pc' j oj _ hj hf => absurd (h.fetch_none hj (by rw [hpc]; simp)) hf
      have hnext : ∀ j, s.afterClose k = .gate j → s.lazy = true := fun j hj => absurd hj (afterClose_ne_gate _ _ _)
      split at hs
      · simp at hs
      · rename_i n mb hst
        simp only [Option.some.injEq] at hs; subst hs
        obtain ⟨hmb, hl, hff, _, hsubs⟩ := ho.mb.sendStep hf0 hst
        exact h.set hk rfl rfl hmb.setClosed (((ho.rd.append _ ho.mb.found).sim (SubsSim.of_or hsubs)))
          (fun hf => absurd hff hf) (by simp only; rw [hl]; exact ho.lazyEq) (hoth _) hnext
      · rename_i mb hst
        simp only [Option.some.injEq] at hs; subst hs
        obtain ⟨hmb, hl, hff, _, hsubs⟩ := ho.mb.sendStep hf0 hst
        exact h.set hk rfl rfl hmb.setClosed (ho.rd.sim (SubsSim.of_or hsubs))
          (fun hf => absurd hff hf) (by simp only; rw [hl]; exact ho.lazyEq) (hoth _) hnext
      · rename_i n mb hst
        simp only [Option.some.injEq] at hs; subst hs
        obtain ⟨hmb, hl, hff, _, hsubs⟩ := ho.mb.sendStep hf0 hst
        exact h.set hk rfl rfl hmb (ho.rd.sim (SubsSim.of_or hsubs))
          (fun hf => absurd hff hf) (by rw [hl]; exact ho.lazyEq) (hoth _) (fun j hj => by simp [hpc] at hj)
      · rename_i e mb hst
        simp only [Option.some.injEq] at hs; subst hs
        obtain ⟨hmb, hl, hff, _, hsubs⟩ := ho.mb.sendStep hf0 hst
        exact h.set hk rfl rfl hmb (ho.rd.sim (SubsSim.of_or hsubs))
          (fun hf => absurd hff hf) (by rw [hl]; exact ho.lazyEq) (hoth _) (fun j hj => absurd hj (fail_ne_gate _ _ _))
  · -- exc k e
    rename_i k e hpc
    split at hs
    · simp at hs
    · rename_i o hk
      simp only [Option.some.injEq] at hs; subst hs
      have ho := h.out k o hk
      have hf0 : o.mb.fetchFlag = none := h.fetch_none hk (by rw [hpc]; simp)
      obtain ⟨hl, _, hfn, _, _, hsubs⟩ := kill_shape o.mb true
      refine h.set hk rfl rfl (ho.mb.kill true) (ho.rd.sim (SubsSim.of_or hsubs))
        (fun hf => absurd (hfn.mpr hf0) hf) (by rw [hl]; exact ho.lazyEq)
        (fun j oj _ hj hf => absurd (h.fetch_none hj (by rw [hpc]; simp)) hf) ?_
      intro j hj
      exact absurd hj (afterExc_ne_gate _ _ _ _)
  · simp at hs
  · simp at hs


/-- a step that replaces output `k` by one with the same flags' none-ness and keeps the pc -/
theorem DInv.set_same_pc {s s' : DSys} {k : Nat} {o o' : Out} (h : DInv s) (hk : s.outs[k]? = some o)
    (houts : s'.outs = s.outs.set k o') (hlazy : s'.lazy = s.lazy) (hpc : s'.dpc = s.dpc)
    (hmb : MBInv o'.mb o'.sent) (hrd : RInv o'.mb.subs o'.readers o'.sent)
    (hfn : o'.mb.fetchFlag = none ↔ o.mb.fetchFlag = none) (hl : o'.mb.lazy = o.mb.lazy) : DInv s' := by
  have ho := h.out k o hk
  refine h.set hk houts hlazy hmb hrd ?_ (by rw [hl]; exact ho.lazyEq) ?_ (fun j hj => h.gateLazy j (by rw [← hpc]; exact hj))
  · intro hf; rw [hpc]; exact ho.fPc (fun x => hf (hfn.mpr x))
  · intro j oj _ hj hf; rw [hpc]; exact (h.out j oj hj).fPc hf

theorem DInv.stepDReader {s s' : DSys} {k i : Nat} (h : DInv s) (hs : stepDReader s k i = some s') : DInv s' := by
  unfold Mailbox.stepDReader at hs
  split at hs
  · simp at hs
  · rename_i o hk
    have ho := h.out k o hk
    split at hs
    · simp at hs
    · rename_i r hr
      split at hs
      · rename_i hpc
        split at hs
        · simp at hs
        · rename_i mb hst
          simp only [Option.some.injEq] at hs; subst hs
          obtain ⟨hmb, hl, _, hfn, _⟩ := ho.mb.readStep hst
          exact h.set_same_pc hk rfl rfl rfl hmb (ho.rd.read_waiting ho.mb hr hpc hst) hfn hl
        · rename_i mb hst
          simp only [Option.some.injEq] at hs; subst hs
          obtain ⟨hmb, hl, _, hfn, _⟩ := ho.mb.readStep hst
          exact h.set_same_pc hk rfl rfl rfl hmb (ho.rd.read_killed ho.mb hr hpc hst) hfn hl
        · rename_i msgs mb hst
          simp only [Option.some.injEq] at hs; subst hs
          obtain ⟨hmb, hl, _, hfn, _⟩ := ho.mb.readStep hst
          exact h.set_same_pc hk rfl rfl rfl hmb (ho.rd.read_took ho.mb hr hpc hst s.futDone) hfn hl
      · rename_i pend hpc
        split at hs
        · split at hs
          · simp only [Option.some.injEq] at hs; subst hs
            exact h.set_same_pc hk rfl rfl rfl ho.mb (ho.rd.fut_step hr hpc s.futDone) Iff.rfl rfl
          · simp at hs
        · simp at hs
      · simp at hs
      · simp at hs

theorem DInv.step {s s' : DSys} {t : DThread} (h : DInv s) (hs : dstep s t = some s') : DInv s' := by
  cases t with
  | divider => exact h.stepDivider hs
  | reader k i => exact h.stepDReader hs
  | worker j =>
    simp only [dstep, stepDWorker] at hs
    split at hs
    · simp only [Option.some.injEq] at hs; subst hs
      exact ⟨fun k o hk => ⟨(h.out k o hk).mb, (h.out k o hk).rd, (h.out k o hk).fPc, (h.out k o hk).lazyEq⟩, h.gateLazy⟩
    · simp at hs
  | killer q =>
    simp only [dstep, stepDKiller] at hs
    split at hs
    · rename_i k up _
      split at hs
      · rename_i o hk
        simp only [Option.some.injEq] at hs; subst hs
        have ho := h.out k o hk
        obtain ⟨hl, _, hfn, _, _, hsubs⟩ := kill_shape o.mb up
        exact h.set_same_pc hk rfl rfl rfl (ho.mb.kill up) (ho.rd.sim (SubsSim.of_or hsubs)) hfn hl
      · simp at hs
    · simp at hs

theorem DInv.reachable {c : DConfig} {s : DSys} (h : DReachable c s) : DInv s := by
  induction h with
  | init => exact DInv.init c
  | step _ hs ih => exact ih.step hs

end Strax.Mailbox
