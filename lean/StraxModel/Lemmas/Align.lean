import StraxModel.Model.Align
/-
  Helper lemmas for theory T4 "Align" (Props/C08.lean).  Core Lean only.

  Part 1: what the chunk operations used by `Plugin.iter` guarantee whenever they succeed
          (private copies in this namespace; the chunk algebra proper is C07's).
  Part 2: `mapE` / `Zip.mapE`.
  Part 3: per-dependency steps (`fetchUntil`, `prepDep`, `trimDep`), the re-trim loop, merging by
          kind, the range check, one iteration (`iterBody`), the loop, the final checks.
-/
namespace Strax.Align
open Strax

/-! ## Part 1: chunk operations -/

theorem bind_ok {α β : Type} {x : Except Err α} {f : α → Except Err β} {b : β}
    (h : x.bind f = .ok b) : ∃ a, x = .ok a ∧ f a = .ok b := by
  cases x with
  | error e => cases h
  | ok a => exact ⟨a, rfl, h⟩

/-- `Chunk.__init__` stores what it is given and insists on `0 ≤ start ≤ end` -/
theorem mkChunk_ok {dt k : String} {rid : Option String} {s e : Int} {rows : List Row}
    {sub sup : Option Runs} {tg : Nat} {c : Chunk}
    (h : mkChunk dt k rid s e rows sub sup tg = .ok c) :
    c.dataType = dt ∧ c.kind = k ∧ c.start = s ∧ c.stop = e ∧ c.rows = rows ∧ 0 ≤ s ∧ s ≤ e := by
  simp only [mkChunk, bind, Except.bind, pure, Except.pure, throw, throwThe, MonadExceptOf.throw] at h
  repeat' (split at h)
  all_goals first | (cases h; done) | (injection h with h; subst h; simp; omega)

/-- the first row of a chunk does not start before the chunk (the part of the constructor's row
check that holds for arbitrarily long chunks; the end check only looks at the last 500 rows) -/
def headOK (c : Chunk) : Prop := ∀ r0, c.rows.head? = some r0 → c.start ≤ r0.time

theorem mkChunk_head {dt k : String} {rid : Option String} {s e : Int} {rows : List Row}
    {sub sup : Option Runs} {tg : Nat} {c : Chunk}
    (h : mkChunk dt k rid s e rows sub sup tg = .ok c) : headOK c := by
  simp only [mkChunk, bind, Except.bind, pure, Except.pure, throw, throwThe, MonadExceptOf.throw] at h
  repeat' (split at h)
  all_goals first | (cases h; done) | (injection h with h; subst h; simp [headOK]; try omega)

theorem splitArray_conserves {data : List Row} {t : Int} {early : Bool} {l r : List Row} {t' : Int}
    (h : splitArray data t early = .ok (l, r, t')) : l ++ r = data := by
  unfold splitArray at h
  grind [List.take_append_drop]

theorem split_tail {dt k dt' k' : String} {tg tg' : Nat} {a b : Chunk} {d1 d2 : List Row}
    {rid1 rid2 : Option String} {sub1 sub2 sup1 sup2 : Option Runs} {s0 s1 s2 : Int}
    (h : (mkChunk dt k rid1 s0 s1 d1 sub1 sup1 tg).bind (fun c1 =>
          (mkChunk dt' k' rid2 s1 s2 d2 sub2 sup2 tg').bind fun c2 => Except.ok (c1, c2))
        = Except.ok (a, b)) :
    a.rows = d1 ∧ b.rows = d2 ∧ a.start = s0 ∧ a.stop = s1 ∧ b.start = s1 ∧ b.stop = s2 ∧
      s0 ≤ s1 ∧ s1 ≤ s2 ∧ headOK a ∧ headOK b := by
  obtain ⟨c1, hc1, h⟩ := bind_ok h
  obtain ⟨c2, hc2, h⟩ := bind_ok h
  injection h with h; injection h with h1 h2; subst h1 h2
  have m1 := mkChunk_ok hc1
  have m2 := mkChunk_ok hc2
  have g1 := mkChunk_head hc1
  have g2 := mkChunk_head hc2
  simp [m1, m2, g1, g2]

/-- a successful `Chunk.split` is a successful `splitCore` (the `is_superrun`-raises branch never succeeds) -/
theorem splitCore_of_split_ok {c a b : Chunk} {t : Int} {early : Bool} (h : c.split t early = .ok (a, b)) :
    c.splitCore t early = .ok (a, b) := by
  unfold Chunk.split at h
  split at h
  · split at h <;> cases h
  · exact h

/-- what `Chunk.split` guarantees whenever it succeeds (any `t`, early split or not) -/
theorem split_ok {c a b : Chunk} {t : Int} {early : Bool} (h : c.split t early = .ok (a, b)) :
    a.rows ++ b.rows = c.rows ∧ a.start = c.start ∧ b.start = a.stop ∧ a.start ≤ a.stop ∧
      b.start ≤ b.stop ∧ headOK a ∧ headOK b := by
  have h := splitCore_of_split_ok h
  unfold Chunk.splitCore at h
  simp only [bind, pure, Except.pure] at h
  split at h
  · obtain ⟨x, hx, h⟩ := bind_ok h
    obtain ⟨r1, r2, s1, s2, s3, s4, l1, l2, g1, g2⟩ := split_tail h
    injection hx with hx; subst hx
    dsimp only at r1 r2 s2 s3 s4
    exact ⟨by simp [r1, r2], s1, by rw [s3, s2], by omega, by omega, g1, g2⟩
  · split at h
    · obtain ⟨x, hx, h⟩ := bind_ok h
      obtain ⟨r1, r2, s1, s2, s3, s4, l1, l2, g1, g2⟩ := split_tail h
      injection hx with hx; subst hx
      dsimp only at r1 r2 s2 s3 s4
      exact ⟨by simp [r1, r2], s1, by rw [s3, s2], by omega, by omega, g1, g2⟩
    · obtain ⟨⟨d1, d2, t'⟩, hx, h⟩ := bind_ok h
      obtain ⟨r1, r2, s1, s2, s3, s4, l1, l2, g1, g2⟩ := split_tail h
      have hc := splitArray_conserves hx
      dsimp only at r1 r2 s2 s3 s4
      exact ⟨by rw [r1, r2, hc], s1, by rw [s3, s2], by omega, by omega, g1, g2⟩

/-- `Chunk.concatenate([a, b])` whenever it succeeds -/
theorem concat2_ok {a b c : Chunk} {al : Bool} (h : concatenate [a, b] al = .ok c) :
    c.rows = a.rows ++ b.rows ∧ c.start = a.start ∧ c.stop = b.stop ∧ headOK c := by
  unfold concatenate at h
  simp only [bind, Except.bind, pure, Except.pure, throw, throwThe, MonadExceptOf.throw] at h
  repeat' split at h
  all_goals first | (cases h; done) | (have g := mkChunk_head h; have m := mkChunk_ok h; simp at m; simp [m, g])

theorem allEq_true {α : Type} [BEq α] [LawfulBEq α] {l : List α} (h : allEq l = true) :
    ∀ x ∈ l, ∀ y ∈ l, x = y := by
  cases l with
  | nil => simp
  | cons a rest =>
    simp only [allEq, List.all_eq_true, beq_iff_eq] at h
    intro x hx y hy
    have hx' : x = a := by
      rcases List.mem_cons.mp hx with h1 | h1
      · exact h1
      · exact h _ h1
    have hy' : y = a := by
      rcases List.mem_cons.mp hy with h1 | h1
      · exact h1
      · exact h _ h1
    rw [hx', hy']

/-- `Chunk.merge` whenever it succeeds: all inputs have the range of the result and equally many rows -/
theorem mergeChunks_ok {cs : List Chunk} {dt : String} {m : Chunk} (h : mergeChunks cs dt = .ok m) :
    cs ≠ [] ∧ (∀ c ∈ cs, c.start = m.start ∧ c.stop = m.stop) ∧
      (∀ c ∈ cs, ∀ c' ∈ cs, c.rows.length = c'.rows.length) := by
  unfold mergeChunks at h
  match cs, h with
  | [], h => cases h
  | [c], h =>
    simp only [pure, Except.pure] at h
    injection h with h; subst h; simp
  | c0 :: c1 :: rest, h =>
    simp only [bind, Except.bind, throw, throwThe, MonadExceptOf.throw] at h
    repeat' split at h
    all_goals first | (cases h; done) | skip
    rename_i h1 h2 h3 h4 _ _ _ _
    have m := mkChunk_ok h
    have hl : allEq (List.map (fun x => x.rows.length) (c0 :: c1 :: rest)) = true := by simpa using h1
    have hr : allEq (List.map (fun c => (c.start, c.stop)) (c0 :: c1 :: rest)) = true := by
      simpa using h2
    have L := allEq_true hl
    have R := allEq_true hr
    refine ⟨by simp, ?_, ?_⟩
    · intro c hc
      have := R (c.start, c.stop) (List.mem_map.mpr ⟨c, hc, rfl⟩) (c0.start, c0.stop)
        (List.mem_map.mpr ⟨c0, by simp, rfl⟩)
      simp only [Prod.mk.injEq] at this
      simp [m, this]
    · intro c hc c' hc'
      exact L _ (List.mem_map.mpr ⟨c, hc, rfl⟩) _ (List.mem_map.mpr ⟨c', hc', rfl⟩)

/-! ## Part 2: `mapE` -/

theorem mapE_cons_ok {α β : Type} {f : α → Except Err β} {a : α} {as : List α} {l' : List β}
    (h : mapE f (a :: as) = .ok l') : ∃ b bs, f a = .ok b ∧ mapE f as = .ok bs ∧ l' = b :: bs := by
  unfold mapE at h
  split at h
  · cases h
  · rename_i b hb
    split at h
    · cases h
    · rename_i bs hbs
      injection h with h
      exact ⟨b, bs, hb, hbs, h.symm⟩

theorem mapE_ok_map {α β γ : Type} {f : α → Except Err β} {g : β → γ} {k : α → γ} :
    ∀ {l : List α} {l' : List β}, (∀ a ∈ l, ∀ b, f a = .ok b → g b = k a) → mapE f l = .ok l' →
      l'.map g = l.map k
  | [], l', _, h => by
    unfold mapE at h; injection h with h; subst h; rfl
  | a :: as, l', H, h => by
    obtain ⟨b, bs, hb, hbs, rfl⟩ := mapE_cons_ok h
    have ih := mapE_ok_map (l := as) (fun a ha b hb => H a (List.mem_cons_of_mem _ ha) b hb) hbs
    simp [H a (by simp) b hb, ih]

theorem mapE_ok_forall {α β : Type} {f : α → Except Err β} {P : β → Prop} :
    ∀ {l : List α} {l' : List β}, (∀ a ∈ l, ∀ b, f a = .ok b → P b) → mapE f l = .ok l' →
      ∀ b ∈ l', P b
  | [], l', _, h => by
    unfold mapE at h; injection h with h; subst h; simp
  | a :: as, l', H, h => by
    obtain ⟨b, bs, hb, hbs, rfl⟩ := mapE_cons_ok h
    have ih := mapE_ok_forall (l := as) (fun a ha b hb => H a (List.mem_cons_of_mem _ ha) b hb) hbs
    intro x hx
    rcases List.mem_cons.mp hx with h1 | h1
    · subst h1; exact H a (by simp) x hb
    · exact ih x h1

/-- every element was processed successfully -/
theorem mapE_ok_each {α β : Type} {f : α → Except Err β} :
    ∀ {l : List α} {l' : List β}, mapE f l = .ok l' → ∀ a ∈ l, ∃ b ∈ l', f a = .ok b
  | [], _, _ => by simp
  | a :: as, l', h => by
    obtain ⟨b, bs, hb, hbs, rfl⟩ := mapE_cons_ok h
    have ih := mapE_ok_each hbs
    intro x hx
    rcases List.mem_cons.mp hx with h1 | h1
    · subst h1; exact ⟨b, by simp, hb⟩
    · obtain ⟨y, hy, hfy⟩ := ih x h1
      exact ⟨y, List.mem_cons_of_mem _ hy, hfy⟩

theorem Zip.mapE_ok {α β : Type} {f : Bool → α → Except Err β} {z : Zip α} {z' : Zip β}
    (h : z.mapE f = .ok z') :
    Align.mapE (f false) z.pre = .ok z'.pre ∧ f true z.pm = .ok z'.pm ∧
      Align.mapE (f false) z.post = .ok z'.post := by
  unfold Zip.mapE at h
  cases h1 : Align.mapE (f false) z.pre with
  | error e => rw [h1] at h; cases h
  | ok pre =>
    rw [h1] at h; dsimp only at h
    cases h2 : f true z.pm with
    | error e => rw [h2] at h; cases h
    | ok pm =>
      rw [h2] at h; dsimp only at h
      cases h3 : Align.mapE (f false) z.post with
      | error e => rw [h3] at h; cases h
      | ok post =>
        rw [h3] at h; dsimp only at h
        injection h with h; subst h; exact ⟨rfl, rfl, rfl⟩

theorem Zip.mem_toList {α : Type} {z : Zip α} {a : α} :
    a ∈ z.toList ↔ a ∈ z.pre ∨ a = z.pm ∨ a ∈ z.post := by
  simp [Zip.toList]

theorem Zip.mapE_ok_map {α β γ : Type} {f : Bool → α → Except Err β} {g : β → γ} {k : α → γ}
    {z : Zip α} {z' : Zip β} (H : ∀ fl, ∀ a ∈ z.toList, ∀ b, f fl a = .ok b → g b = k a)
    (h : z.mapE f = .ok z') : z'.toList.map g = z.toList.map k := by
  obtain ⟨h1, h2, h3⟩ := Zip.mapE_ok h
  have e1 := Align.mapE_ok_map (g := g) (k := k)
    (fun a ha b hb => H false a (Zip.mem_toList.mpr (Or.inl ha)) b hb) h1
  have e3 := Align.mapE_ok_map (g := g) (k := k)
    (fun a ha b hb => H false a (Zip.mem_toList.mpr (Or.inr (Or.inr ha))) b hb) h3
  have e2 := H true z.pm (Zip.mem_toList.mpr (Or.inr (Or.inl rfl))) _ h2
  simp [Zip.toList, e1, e2, e3]

theorem Zip.mapE_ok_forall {α β : Type} {f : Bool → α → Except Err β} {P : β → Prop}
    {z : Zip α} {z' : Zip β} (H : ∀ fl, ∀ a ∈ z.toList, ∀ b, f fl a = .ok b → P b)
    (h : z.mapE f = .ok z') : ∀ b ∈ z'.toList, P b := by
  obtain ⟨h1, h2, h3⟩ := Zip.mapE_ok h
  have e1 := Align.mapE_ok_forall (P := P)
    (fun a ha b hb => H false a (Zip.mem_toList.mpr (Or.inl ha)) b hb) h1
  have e3 := Align.mapE_ok_forall (P := P)
    (fun a ha b hb => H false a (Zip.mem_toList.mpr (Or.inr (Or.inr ha))) b hb) h3
  have e2 := H true z.pm (Zip.mem_toList.mpr (Or.inr (Or.inl rfl))) _ h2
  intro b hb
  rcases Zip.mem_toList.mp hb with h | h | h
  · exact e1 b h
  · subst h; exact e2
  · exact e3 b h

/-! ## Part 3: the steps of `Plugin.iter` -/

/-- rows of one dependency during an iteration: its input followed by what is still in flight -/
def pcontent (p : Chunk × DepState) : List Row := p.1.rows ++ content p.2

theorem fetchUntil_ok {t : Int} : ∀ {rem : List Chunk} {buf : Chunk} {rem' : List Chunk} {buf' : Chunk},
    fetchUntil t rem buf = .ok (rem', buf') →
      buf'.rows ++ allRows rem' = buf.rows ++ allRows rem ∧ buf'.start = buf.start
  | [], buf, rem', buf', h => by
    unfold fetchUntil at h
    split at h
    · cases h
    · injection h with h; injection h with h1 h2; subst h1 h2; simp
  | c :: rest, buf, rem', buf', h => by
    unfold fetchUntil at h
    split at h
    · split at h
      · cases h
      · rename_i b hb
        have ih := fetchUntil_ok h
        have cc := concat2_ok hb
        refine ⟨?_, by rw [ih.2, cc.2.1]⟩
        rw [ih.1, cc.1]
        simp [allRows]
    · injection h with h; injection h with h1 h2; subst h1 h2; simp

theorem prepDep_ok {t : Int} {fl : Bool} {s s' : DepState} {inp : Chunk}
    (h : prepDep t fl s = .ok (inp, s')) :
    inp.rows ++ content s' = content s ∧ inp.start = s.buf.start ∧ s'.buf.start = inp.stop ∧
      s'.dep = s.dep ∧ headOK s'.buf := by
  unfold prepDep at h
  split at h
  · cases h
  · rename_i rem buf hf
    split at h
    · cases h
    · rename_i a b hs
      injection h with h; injection h with h1 h2; subst h1 h2
      have sp := split_ok hs
      have hc : buf.rows ++ allRows rem = content s ∧ buf.start = s.buf.start := by
        cases fl with
        | true =>
          simp only [if_true] at hf
          injection hf with hf; injection hf with h1 h2; subst h1 h2
          exact ⟨rfl, rfl⟩
        | false =>
          simp only [Bool.false_eq_true, if_false] at hf
          exact fetchUntil_ok hf
      refine ⟨?_, by rw [sp.2.1, hc.2], sp.2.2.1, rfl, sp.2.2.2.2.2.2⟩
      simp only [content]
      rw [← List.append_assoc, sp.1, hc.1]
      rfl

theorem trimDep_ok {t : Int} {fl : Bool} {p p' : Chunk × DepState}
    (h : trimDep t fl p = .ok p') :
    pcontent p' = pcontent p ∧ p'.1.start = p.1.start ∧ p'.2.buf.start = p'.1.stop ∧
      p'.2.dep = p.2.dep ∧ headOK p'.2.buf := by
  unfold trimDep at h
  split at h
  · cases h
  · rename_i a b hs
    split at h
    · cases h
    · rename_i c hc
      injection h with h; subst h
      have sp := split_ok hs
      have cc := concat2_ok hc
      refine ⟨?_, sp.2.1, by simp [cc.2.1, sp.2.2.1], rfl, cc.2.2.2⟩
      simp only [pcontent, content]
      rw [cc.1, ← sp.1]
      simp

/-- the re-trim loop, when it does not run out of passes: nothing is lost or reordered, inputs keep
their start, all inputs end together, and every buffer starts where its input ends -/
theorem retrim_ok : ∀ {n : Nat} {t : Int} {z z' : Zip (Chunk × DepState)}, retrim n t z = .ok z' →
    z'.toList.map pcontent = z.toList.map pcontent ∧
    z'.toList.map (fun p => p.1.start) = z.toList.map (fun p => p.1.start) ∧
    z'.toList.map (fun p => p.2.dep) = z.toList.map (fun p => p.2.dep) ∧
    allEq (inputEnds z') = true ∧
    ((∀ p ∈ z.toList, p.2.buf.start = p.1.stop) → ∀ p ∈ z'.toList, p.2.buf.start = p.1.stop) ∧
    ((∀ p ∈ z.toList, headOK p.2.buf) → ∀ p ∈ z'.toList, headOK p.2.buf)
  | 0, _, _, _, h => by unfold retrim at h; cases h
  | n + 1, t, z, z', h => by
    unfold retrim at h
    dsimp only at h
    split at h
    · rename_i he
      injection h with h; subst h
      exact ⟨rfl, rfl, rfl, he, fun H => H, fun H => H⟩
    · split at h
      · cases h
      · rename_i z1 hz1
        obtain ⟨i1, i2, i3, i4, i5, i6⟩ := retrim_ok h
        have e1 := Zip.mapE_ok_map (g := pcontent) (k := pcontent)
          (fun _ _ _ _ hb => (trimDep_ok hb).1) hz1
        have e2 := Zip.mapE_ok_map (g := fun p => p.1.start) (k := fun p => p.1.start)
          (fun _ _ _ _ hb => (trimDep_ok hb).2.1) hz1
        have e3 := Zip.mapE_ok_map (g := fun p => p.2.dep) (k := fun p => p.2.dep)
          (fun _ _ _ _ hb => (trimDep_ok hb).2.2.2.1) hz1
        have e5 := Zip.mapE_ok_forall (P := fun p => headOK p.2.buf)
          (fun _ _ _ _ hb => (trimDep_ok hb).2.2.2.2) hz1
        have e4 := Zip.mapE_ok_forall (P := fun p => p.2.buf.start = p.1.stop)
          (fun _ _ _ _ hb => (trimDep_ok hb).2.2.1) hz1
        exact ⟨i1.trans e1, i2.trans e2, i3.trans e3, i4, fun _ => i5 e4, fun _ => i6 e5⟩

/-! ### merging by kind and the range check of `do_compute` -/

theorem kindsOf_sub : ∀ {seen l : List String} {k : String}, k ∈ kindsOf seen l → k ∈ l
  | _, [], _, h => by simp [kindsOf] at h
  | seen, k' :: rest, k, h => by
    unfold kindsOf at h
    split at h
    · exact List.mem_cons_of_mem _ (kindsOf_sub h)
    · rcases List.mem_cons.mp h with h1 | h1
      · subst h1; simp
      · exact List.mem_cons_of_mem _ (kindsOf_sub h1)

theorem kindsOf_complete : ∀ {seen l : List String} {k : String}, k ∈ l → k ∉ seen → k ∈ kindsOf seen l
  | _, [], _, h, _ => by simp at h
  | seen, k' :: rest, k, h, hs => by
    unfold kindsOf
    split
    · rename_i hc
      rcases List.mem_cons.mp h with h1 | h1
      · subst h1; exact absurd (List.contains_iff_mem.mp hc) hs
      · exact kindsOf_complete h1 hs
    · by_cases hk : k = k'
      · subst hk; simp
      · rcases List.mem_cons.mp h with h1 | h1
        · exact absurd h1 hk
        · exact List.mem_cons_of_mem _ (kindsOf_complete h1 (by simp [hk, hs]))

theorem mergeByKind_ok {inputs : List (Chunk × DepState)} {merged : List Chunk}
    (h : mergeByKind inputs = .ok merged) :
    (∀ m ∈ merged, ∃ p ∈ inputs, p.1.start = m.start ∧ p.1.stop = m.stop) ∧
    (∀ p ∈ inputs, ∀ q ∈ inputs, p.2.dep.kind = q.2.dep.kind → p.1.rows.length = q.1.rows.length) := by
  unfold mergeByKind at h
  constructor
  · refine mapE_ok_forall (P := fun m => ∃ p ∈ inputs, p.1.start = m.start ∧ p.1.stop = m.stop) ?_ h
    intro k _ m hm
    obtain ⟨hne, hr, _⟩ := mergeChunks_ok hm
    obtain ⟨c, hc⟩ := List.exists_mem_of_ne_nil _ hne
    obtain ⟨p, hp, rfl⟩ := List.mem_map.mp hc
    exact ⟨p, (List.mem_filter.mp hp).1, hr _ hc⟩
  · intro p hp q hq hk
    have hmem : p.2.dep.kind ∈ kindsOf [] (inputs.map (·.2.dep.kind)) :=
      kindsOf_complete (List.mem_map.mpr ⟨p, hp, rfl⟩) (by simp)
    obtain ⟨m, _, hm⟩ := mapE_ok_each h _ hmem
    obtain ⟨_, _, hl⟩ := mergeChunks_ok hm
    apply hl
    · exact List.mem_map.mpr ⟨p, List.mem_filter.mpr ⟨hp, by simp⟩, rfl⟩
    · exact List.mem_map.mpr ⟨q, List.mem_filter.mpr ⟨hq, by simp [hk]⟩, rfl⟩

theorem foldl_min_const : ∀ {l : List Int} {t : Int}, (∀ x ∈ l, x = t) → l.foldl min t = t
  | [], _, _ => rfl
  | a :: rest, t, H => by
    have ha : a = t := H a (by simp)
    subst ha
    simp only [List.foldl_cons, Int.min_self]
    exact foldl_min_const (fun x hx => H x (List.mem_cons_of_mem _ hx))

theorem foldl_max_const : ∀ {l : List Int} {t : Int}, (∀ x ∈ l, x = t) → l.foldl max t = t
  | [], _, _ => rfl
  | a :: rest, t, H => by
    have ha : a = t := H a (by simp)
    subst ha
    simp only [List.foldl_cons, Int.max_self]
    exact foldl_max_const (fun x hx => H x (List.mem_cons_of_mem _ hx))

/-- if all merged inputs cover `[T, E)`, that is the range handed to `compute` (either policy) -/
theorem computeRange_ok {strict : Bool} {merged : List Chunk} {s e T E : Int}
    (h : computeRange strict merged = .ok (s, e)) (H : ∀ m ∈ merged, m.start = T ∧ m.stop = E) :
    s = T ∧ e = E := by
  unfold computeRange at h
  match merged, h, H with
  | [], h, _ => cases h
  | m0 :: rest, h, H =>
    dsimp only at h
    have h0 := H m0 (by simp)
    repeat' split at h
    all_goals first | (cases h; done) | skip
    · injection h with h; injection h with h1 h2
      rw [← h1, ← h2]; exact h0
    · injection h with h; injection h with h1 h2
      rw [← h1, ← h2]
      simp only [minWith, maxWith]
      constructor
      · rw [h0.1]; apply foldl_min_const
        intro x hx; obtain ⟨m, hm, rfl⟩ := List.mem_map.mp hx; exact (H m hm).1
      · rw [h0.2]; apply foldl_max_const
        intro x hx; obtain ⟨m, hm, rfl⟩ := List.mem_map.mp hx; exact (H m hm).2

/-! ### one iteration -/

theorem prepDep_pm_rem {t : Int} {s s' : DepState} {inp : Chunk}
    (h : prepDep t true s = .ok (inp, s')) : s'.rem = s.rem := by
  unfold prepDep at h
  simp only [if_true] at h
  split at h
  · cases h
  · injection h with h; injection h with h1 h2; subst h2; rfl

theorem trimDep_rem {t : Int} {fl : Bool} {p p' : Chunk × DepState}
    (h : trimDep t fl p = .ok p') : p'.2.rem = p.2.rem := by
  unfold trimDep at h
  split at h
  · cases h
  · split at h
    · cases h
    · injection h with h; subst h; rfl

theorem retrim_pm_rem : ∀ {n : Nat} {t : Int} {z z' : Zip (Chunk × DepState)},
    retrim n t z = .ok z' → z'.pm.2.rem = z.pm.2.rem
  | 0, _, _, _, h => by unfold retrim at h; cases h
  | n + 1, t, z, z', h => by
    unfold retrim at h
    dsimp only at h
    split at h
    · injection h with h; subst h; rfl
    · split at h
      · cases h
      · rename_i z1 hz1
        rw [retrim_pm_rem h, trimDep_rem (Zip.mapE_ok hz1).2.1]

theorem zipWith_append_map {α : Type} (f g : α → List Row) :
    ∀ l : List α, List.zipWith (· ++ ·) (l.map f) (l.map g) = l.map (fun x => f x ++ g x)
  | [] => rfl
  | a :: l => by simp [zipWith_append_map f g l]

/-- everything the theorems need to know about one successful iteration: `L` lists, per
dependency in `depends_on` order, the input chunk handed over and the state afterwards -/
structure BodySpec (z z' : Zip DepState) (call : Call) (L : List (Chunk × DepState)) : Prop where
  rows : call.rows = L.map (fun p => p.1.rows)
  ranges : call.ranges = L.map (fun p => (p.1.start, p.1.stop))
  next : z'.toList = L.map (fun p => p.2)
  deps : L.map (fun p => p.2.dep) = z.toList.map (fun s => s.dep)
  cont : L.map pcontent = z.toList.map content
  starts : L.map (fun p => p.1.start) = z.toList.map (fun s => s.buf.start)
  ends : ∀ p ∈ L, ∀ q ∈ L, p.1.stop = q.1.stop
  bufs : ∀ p ∈ L, p.2.buf.start = p.1.stop
  bufHead : ∀ p ∈ L, headOK p.2.buf
  kinds : ∀ p ∈ L, ∀ q ∈ L, p.2.dep.kind = q.2.dep.kind → p.1.rows.length = q.1.rows.length
  range : ∀ T E, (∀ p ∈ L, p.1.start = T ∧ p.1.stop = E) → call.start = T ∧ call.stop = E
  pmrem : z'.pm.rem = z.pm.rem
  nonempty : L ≠ []

theorem iterBody_ok' {n : Nat} {strict : Bool} {z z' : Zip DepState} {call : Call}
    (h : iterBody n strict z = .ok (call, z')) :
    ∃ z0 zi, z.mapE (prepDep z.pm.buf.stop) = .ok z0 ∧ retrim n z.pm.buf.stop z0 = .ok zi ∧
      BodySpec z z' call zi.toList := by
  unfold iterBody at h
  dsimp only at h
  split at h
  · cases h
  · rename_i z0 hz0
    split at h
    · cases h
    · rename_i zi hzi
      split at h
      · cases h
      · rename_i merged hm
        split at h
        · cases h
        · rename_i s e hr
          injection h with h; injection h with h1 h2; subst h1 h2
          obtain ⟨r1, r2, r3, r4, r5, r6⟩ := retrim_ok hzi
          obtain ⟨m1, m2⟩ := mergeByKind_ok hm
          have c0 := Zip.mapE_ok_map (g := pcontent) (k := content)
            (fun _ _ _ b hb => (prepDep_ok (inp := b.1) (s' := b.2) hb).1) hz0
          have s0 := Zip.mapE_ok_map (g := fun p => p.1.start) (k := fun s => s.buf.start)
            (fun _ _ _ b hb => (prepDep_ok (inp := b.1) (s' := b.2) hb).2.1) hz0
          have d0 := Zip.mapE_ok_map (g := fun p => p.2.dep) (k := fun s => s.dep)
            (fun _ _ _ b hb => (prepDep_ok (inp := b.1) (s' := b.2) hb).2.2.2.1) hz0
          have g0 := Zip.mapE_ok_forall (P := fun p => headOK p.2.buf)
            (fun _ _ _ b hb => (prepDep_ok (inp := b.1) (s' := b.2) hb).2.2.2.2) hz0
          have b0 := Zip.mapE_ok_forall (P := fun p => p.2.buf.start = p.1.stop)
            (fun _ _ _ b hb => (prepDep_ok (inp := b.1) (s' := b.2) hb).2.2.1) hz0
          have hends : ∀ p ∈ zi.toList, ∀ q ∈ zi.toList, p.1.stop = q.1.stop := by
            intro p hp q hq
            exact allEq_true r4 _ (List.mem_map.mpr ⟨p, hp, rfl⟩) _ (List.mem_map.mpr ⟨q, hq, rfl⟩)
          refine ⟨z0, zi, hz0, hzi, rfl, rfl, by simp [Zip.toList], r3.trans d0, r1.trans c0, r2.trans s0,
            hends, r5 b0, r6 g0, m2, ?_, ?_, by simp [Zip.toList]⟩
          · intro T E H
            apply computeRange_ok hr
            intro m hm
            obtain ⟨p, hp, e1, e2⟩ := m1 m hm
            rw [← e1, ← e2]; exact H p hp
          · show zi.pm.2.rem = z.pm.rem
            rw [retrim_pm_rem hzi]
            exact prepDep_pm_rem (inp := z0.pm.1) (s' := z0.pm.2) (Zip.mapE_ok hz0).2.1

theorem iterBody_ok {n : Nat} {strict : Bool} {z z' : Zip DepState} {call : Call}
    (h : iterBody n strict z = .ok (call, z')) : ∃ L, BodySpec z z' call L := by
  obtain ⟨_, zi, _, _, b⟩ := iterBody_ok' h
  exact ⟨zi.toList, b⟩

theorem BodySpec.conserve {z z' : Zip DepState} {call : Call} {L : List (Chunk × DepState)}
    (b : BodySpec z z' call L) :
    List.zipWith (· ++ ·) call.rows (z'.toList.map content) = z.toList.map content := by
  rw [b.rows, b.next, List.map_map, ← b.cont]
  exact zipWith_append_map (fun p => p.1.rows) (content ∘ fun p => p.2) L

theorem BodySpec.deps' {z z' : Zip DepState} {call : Call} {L : List (Chunk × DepState)}
    (b : BodySpec z z' call L) : z'.toList.map (fun s => s.dep) = z.toList.map (fun s => s.dep) := by
  rw [b.next, List.map_map, ← b.deps]; rfl

theorem BodySpec.heads {z z' : Zip DepState} {call : Call} {L : List (Chunk × DepState)}
    (b : BodySpec z z' call L) : ∀ s ∈ z'.toList, headOK s.buf := by
  intro s hs
  rw [b.next] at hs
  obtain ⟨p, hp, rfl⟩ := List.mem_map.mp hs
  exact b.bufHead p hp

theorem BodySpec.adjacent {z z' : Zip DepState} {call : Call} {L : List (Chunk × DepState)}
    (b : BodySpec z z' call L) {T : Int} (H : ∀ s ∈ z.toList, s.buf.start = T) :
    call.start = T ∧ (∀ s ∈ z'.toList, s.buf.start = call.stop) ∧
      ∀ r ∈ call.ranges, r = (call.start, call.stop) := by
  have hs : ∀ p ∈ L, p.1.start = T := by
    intro p hp
    have : p.1.start ∈ L.map (fun p => p.1.start) := List.mem_map.mpr ⟨p, hp, rfl⟩
    rw [b.starts] at this
    obtain ⟨s, hs, e⟩ := List.mem_map.mp this
    rw [← e]; exact H s hs
  obtain ⟨p0, hp0⟩ := List.exists_mem_of_ne_nil _ b.nonempty
  have hr := b.range T p0.1.stop (fun p hp => ⟨hs p hp, b.ends p hp p0 hp0⟩)
  refine ⟨hr.1, ?_, ?_⟩
  · intro s hs'
    rw [b.next] at hs'
    obtain ⟨p, hp, rfl⟩ := List.mem_map.mp hs'
    rw [b.bufs p hp, hr.2]; exact b.ends p hp p0 hp0
  · intro r hr'
    rw [b.ranges] at hr'
    obtain ⟨p, hp, rfl⟩ := List.mem_map.mp hr'
    rw [hr.1, hr.2, hs p hp, b.ends p hp p0 hp0]

theorem BodySpec.aligned {z z' : Zip DepState} {call : Call} {L : List (Chunk × DepState)}
    (b : BodySpec z z' call L) {T : Int} (H : ∀ s ∈ z.toList, s.buf.start = T) :
    call.Aligned (z.toList.map (fun s => s.dep)) := by
  have hl : L.length = z.toList.length := by
    have := congrArg List.length b.deps
    simpa using this
  refine ⟨by rw [b.rows]; simpa using hl, by rw [b.ranges]; simpa using hl, (b.adjacent H).2.2, ?_⟩
  intro i j di dj hi hj hk
  rw [← b.deps] at hi hj
  simp only [List.getElem?_map, Option.map_eq_some_iff] at hi hj
  obtain ⟨p, hp, rfl⟩ := hi
  obtain ⟨q, hq, rfl⟩ := hj
  have e1 : call.rowsOf i = p.1.rows := by simp [Call.rowsOf, b.rows, hp]
  have e2 : call.rowsOf j = q.1.rows := by simp [Call.rowsOf, b.rows, hq]
  rw [e1, e2]
  exact b.kinds p (List.mem_of_getElem? hp) q (List.mem_of_getElem? hq) hk

/-! ### the loop -/

/-- what a successful run of the loop from states `sts` guarantees -/
structure LoopSpec (sts : List DepState) (calls : List Call) (fin : List DepState) : Prop where
  conserve : handedOver calls (fin.map content) = sts.map content
  deps : fin.map (fun s => s.dep) = sts.map (fun s => s.dep)
  timing : ∀ T, (∀ s ∈ sts, s.buf.start = T) →
    adjacentFrom T calls ∧ (∀ s ∈ fin, s.buf.start = lastStop T calls) ∧
      ∀ c ∈ calls, c.Aligned (sts.map (fun s => s.dep))
  heads : (∀ s ∈ sts, headOK s.buf) → ∀ s ∈ fin, headOK s.buf

theorem DepState.eta (s : DepState) : (⟨s.dep, s.rem, s.buf⟩ : DepState) = s := by cases s; rfl

/-- prepending one successful iteration to a successful rest of the loop -/
theorem LoopSpec.cons {z z' : Zip DepState} {call : Call} {L : List (Chunk × DepState)}
    {calls : List Call} {fin : List DepState}
    (b : BodySpec z z' call L) (ih : LoopSpec z'.toList calls fin) :
    LoopSpec z.toList (call :: calls) fin := by
  refine ⟨?_, ih.deps.trans b.deps', ?_, fun _ => ih.heads b.heads⟩
  · show List.zipWith (· ++ ·) call.rows (handedOver calls (fin.map content)) = _
    rw [ih.conserve]; exact b.conserve
  · intro T H
    obtain ⟨a1, a2, a3⟩ := b.adjacent H
    obtain ⟨i1, i2, i3⟩ := ih.timing call.stop a2
    refine ⟨⟨a1, i1⟩, i2, ?_⟩
    intro c hc
    rcases List.mem_cons.mp hc with h1 | h1
    · subst h1; exact b.aligned H
    · rw [← b.deps']; exact i3 c h1

theorem iterLoop_ok {n : Nat} {strict : Bool} :
    ∀ {rem : List Chunk} {pre : List DepState} {d : Dep} {buf : Chunk} {post : List DepState}
      {calls : List Call} {fin : List DepState},
      iterLoop n strict rem pre d buf post = .ok (calls, fin) →
        LoopSpec (pre ++ ⟨d, rem, buf⟩ :: post) calls fin
  | [], pre, d, buf, post, calls, fin, h => by
    unfold iterLoop at h
    injection h with h; injection h with h1 h2; subst h1 h2
    exact ⟨rfl, rfl, fun T H => ⟨trivial, H, by simp⟩, fun H => H⟩
  | c :: rest, pre, d, buf, post, calls, fin, h => by
    unfold iterLoop at h
    split at h
    · cases h
    · rename_i buf1 hb
      split at h
      · cases h
      · rename_i call z' hbody
        split at h
        · cases h
        · rename_i calls' fin' hrec
          injection h with h; injection h with h1 h2; subst h1 h2
          obtain ⟨L, b⟩ := iterBody_ok hbody
          have ih := iterLoop_ok hrec
          have hpm : (⟨z'.pm.dep, rest, z'.pm.buf⟩ : DepState) = z'.pm := by
            have := b.pmrem
            simp only at this
            rw [← this]
          rw [hpm] at ih
          have step := LoopSpec.cons b ih
          have cc := concat2_ok hb
          -- fetching the pacemaker's next chunk changes neither content, nor names, nor buffer starts
          refine ⟨?_, ?_, ?_, ?_⟩
          rotate_left 3
          · intro H
            apply step.heads
            intro s hs
            rcases Zip.mem_toList.mp hs with h1 | h1 | h1
            · exact H s (by simp [h1])
            · subst h1; exact cc.2.2.2
            · exact H s (by simp [h1])
          · rw [step.conserve]
            simp [Zip.toList, content, allRows, cc.1]
          · rw [step.deps]; simp [Zip.toList]
          · intro T H
            have H' : ∀ s ∈ (⟨pre, ⟨d, rest, buf1⟩, post⟩ : Zip DepState).toList, s.buf.start = T := by
              intro s hs
              rcases Zip.mem_toList.mp hs with h1 | h1 | h1
              · exact H s (by simp [h1])
              · subst h1; simp only; rw [cc.2.1]; exact H ⟨d, c :: rest, buf⟩ (by simp)
              · exact H s (by simp [h1])
            have := step.timing T H'
            simpa [Zip.toList] using this

/-! ### initial fetch, pacemaker choice, final checks, the whole run -/

theorem checkExhausted_ok : ∀ {sts : List DepState}, checkExhausted sts = .ok () → ∀ s ∈ sts, s.rem = []
  | [], _ => by simp
  | s :: rest, h => by
    unfold checkExhausted at h
    split at h
    · rename_i hr
      have ih := checkExhausted_ok h
      intro x hx
      rcases List.mem_cons.mp hx with h1 | h1
      · subst h1; exact hr
      · exact ih x h1
    · split at h <;> cases h

theorem finish_ok {strict : Bool} {fin : List DepState} {left : List (List Row)}
    (h : finish strict fin = .ok left) :
    left = fin.map content ∧ (∀ s ∈ fin, s.rem = []) ∧ (strict = true → ∀ l ∈ left, l = []) := by
  unfold finish at h
  split at h
  · cases h
  · rename_i hx
    have hrem := checkExhausted_ok hx
    split at h
    · cases h
    · rename_i hs
      injection h with h; subst h
      refine ⟨?_, hrem, ?_⟩
      · apply List.map_congr_left
        intro s hs'
        simp [content, allRows, hrem s hs']
      · intro hst l hl
        obtain ⟨s, hs', rfl⟩ := List.mem_map.mp hl
        subst hst
        simp only [Bool.true_and, List.any_eq_true, Bool.not_eq_true', not_exists, not_and,
          Bool.not_eq_false] at hs
        simpa using hs s hs'

theorem choosePm_ok : ∀ {l : List DepState} {acc : Option (Zip DepState)} {z : Zip DepState},
    choosePm acc l = some z →
      z.toList = (match acc with | none => [] | some a => a.toList) ++ l
  | [], acc, z, h => by
    unfold choosePm at h; subst h; simp
  | s :: rest, none, z, h => by
    unfold choosePm at h
    have := choosePm_ok h
    simpa [Zip.toList] using this
  | s :: rest, some a, z, h => by
    unfold choosePm at h
    split at h
    · have := choosePm_ok h
      simpa [Zip.toList] using this
    · have := choosePm_ok h
      simpa [Zip.toList] using this

theorem startAt_mem {T : Int} {chunks : List (List Chunk)} (h : StartAt T chunks) :
    ∀ cs ∈ chunks, ∃ c rest, cs = c :: rest ∧ c.start = T := by
  intro cs hcs
  unfold StartAt startAtB at h
  have := List.all_eq_true.mp h cs hcs
  cases cs with
  | nil => simp at this
  | cons c rest => exact ⟨c, rest, rfl, by simpa using this⟩

theorem initFetch_ok {l : List (Dep × List Chunk)} {sts : List DepState}
    (h : mapE initFetch l = .ok sts) :
    sts.map content = l.map (fun p => allRows p.2) ∧ sts.map (fun s => s.dep) = l.map (fun p => p.1) ∧
      ∀ T, (∀ p ∈ l, ∃ c rest, p.2 = c :: rest ∧ c.start = T) → ∀ s ∈ sts, s.buf.start = T := by
  refine ⟨mapE_ok_map ?_ h, mapE_ok_map ?_ h, ?_⟩
  · intro p _ s hs
    unfold initFetch at hs
    split at hs
    · cases hs
    · rename_i c rest hp
      injection hs with hs; subst hs
      simp [content, allRows, hp]
  · intro p _ s hs
    unfold initFetch at hs
    split at hs
    · cases hs
    · injection hs with hs; subst hs; rfl
  · intro T H s hs
    -- every state comes from some element of `l`
    have : ∀ {l : List (Dep × List Chunk)} {sts : List DepState}, mapE initFetch l = .ok sts →
        ∀ s ∈ sts, ∃ p ∈ l, initFetch p = .ok s := by
      intro l
      induction l with
      | nil => intro sts h; unfold mapE at h; injection h with h; subst h; simp
      | cons a as ih =>
        intro sts h
        obtain ⟨b, bs, hb, hbs, rfl⟩ := mapE_cons_ok h
        intro s hs
        rcases List.mem_cons.mp hs with h1 | h1
        · subst h1; exact ⟨a, by simp, hb⟩
        · obtain ⟨p, hp, e⟩ := ih hbs s h1
          exact ⟨p, List.mem_cons_of_mem _ hp, e⟩
    obtain ⟨p, hp, e⟩ := this h s hs
    obtain ⟨c, rest, hc, hT⟩ := H p hp
    unfold initFetch at e
    rw [hc] at e
    injection e with e; subst e; exact hT

/-- what a successful run guarantees -/
structure RunSpec (deps : List Dep) (chunks : List (List Chunk)) (strict : Bool) (r : Result) : Prop where
  conserve : handedOver r.calls r.leftover = chunks.map allRows
  strictLeft : strict = true → ∀ l ∈ r.leftover, l = []
  leftLen : r.leftover.length = deps.length
  nonempty : r.calls ≠ []
  timing : ∀ T, StartAt T chunks → adjacentFrom T r.calls ∧ ∀ c ∈ r.calls, c.Aligned deps
  after : ∀ T, StartAt T chunks → ∀ left ∈ r.leftover, ∀ r0, left.head? = some r0 →
    lastStop T r.calls ≤ r0.time

theorem iterRunP_ok {n : Nat} {deps : List Dep} {chunks : List (List Chunk)} {strict : Bool} {r : Result}
    (hlen : chunks.length = deps.length) (h : iterRunP n deps chunks strict = .ok r) :
    RunSpec deps chunks strict r := by
  unfold iterRunP at h
  split at h
  · cases h
  · rename_i sts hinit
    split at h
    · cases h
    · rename_i z hz
      unfold iterFrom at h
      split at h
      · cases h
      · rename_i call z' hbody
        split at h
        · cases h
        · rename_i calls fin hloop
          split at h
          · cases h
          · rename_i left hfin
            injection h with h; subst h
            obtain ⟨i1, i2, i3⟩ := initFetch_ok hinit
            have hzl : z.toList = sts := by simpa using choosePm_ok hz
            obtain ⟨L, b⟩ := iterBody_ok hbody
            have lp := iterLoop_ok hloop
            rw [DepState.eta] at lp
            have step := LoopSpec.cons b lp
            obtain ⟨f1, f2, f3⟩ := finish_ok hfin
            have hsnd : (deps.zip chunks).map (fun p => allRows p.2) = chunks.map allRows := by
              have : (deps.zip chunks).map Prod.snd = chunks := List.map_snd_zip (by omega)
              calc (deps.zip chunks).map (fun p => allRows p.2)
                  = ((deps.zip chunks).map Prod.snd).map allRows := by rw [List.map_map]; rfl
                _ = chunks.map allRows := by rw [this]
            have hfst : (deps.zip chunks).map (fun p => p.1) = deps := List.map_fst_zip (by omega)
            have hdeps : z.toList.map (fun s => s.dep) = deps := by rw [hzl, i2, hfst]
            have hstart : ∀ T, StartAt T chunks → ∀ s ∈ z.toList, s.buf.start = T := by
              intro T hT
              rw [hzl]
              apply i3 T
              intro p hp
              exact startAt_mem hT p.2 (List.of_mem_zip hp).2
            refine ⟨?_, f3, ?_, by simp, ?_, ?_⟩
            rotate_left 3
            · intro T hT left' hl r0 hr0
              rw [f1] at hl
              obtain ⟨s, hs, rfl⟩ := List.mem_map.mp hl
              obtain ⟨_, t2, _⟩ := step.timing T (hstart T hT)
              have hh := lp.heads b.heads s hs
              rw [← t2 s hs]
              apply hh
              simpa [content, allRows, f2 s hs] using hr0
            · show handedOver (call :: calls) left = _
              rw [f1, step.conserve, hzl, i1, hsnd]
            · have := congrArg List.length step.deps
              rw [hdeps] at this
              simpa [f1] using this
            · intro T hT
              obtain ⟨t1, _, t3⟩ := step.timing T (hstart T hT)
              rw [hdeps] at t3
              exact ⟨t1, t3⟩

/-! ### per-dependency reading of `handedOver` -/

theorem handedOver_index : ∀ {calls : List Call} {tail target : List (List Row)},
    handedOver calls tail = target → ∀ (i : Nat) (all : List Row), target[i]? = some all →
      ∃ left, tail[i]? = some left ∧ calls.flatMap (fun c => c.rowsOf i) ++ left = all
  | [], tail, target, h, i, all, hi => by
    simp only [handedOver, List.foldr_nil] at h
    subst h
    exact ⟨all, hi, by simp⟩
  | c :: cs, tail, target, h, i, all, hi => by
    have h' : List.zipWith (· ++ ·) c.rows (handedOver cs tail) = target := h
    subst h'
    obtain ⟨x, y, hx, hy, hxy⟩ := List.getElem?_zipWith_eq_some.mp hi
    obtain ⟨left, hl, e⟩ := handedOver_index (calls := cs) rfl i y hy
    refine ⟨left, hl, ?_⟩
    have : c.rowsOf i = x := by simp [Call.rowsOf, hx]
    simp only [List.flatMap_cons, this, List.append_assoc, e]
    exact hxy

/-! ### more passes never change a successful outcome -/

theorem retrim_mono : ∀ {n : Nat} {t : Int} {z z' : Zip (Chunk × DepState)} (k : Nat),
    retrim n t z = .ok z' → retrim (n + k) t z = .ok z'
  | 0, _, _, _, _, h => by unfold retrim at h; cases h
  | n + 1, t, z, z', k, h => by
    have e : n + 1 + k = (n + k) + 1 := by omega
    rw [e]
    unfold retrim at h ⊢
    dsimp only at h ⊢
    split at h
    · rename_i he; rw [if_pos he]; exact h
    · rename_i he
      rw [if_neg he]
      split at h
      · cases h
      · rename_i z1 hz1
        exact retrim_mono k h

theorem iterBody_mono {n : Nat} {strict : Bool} {z : Zip DepState} {r : Call × Zip DepState} (k : Nat)
    (h : iterBody n strict z = .ok r) : iterBody (n + k) strict z = .ok r := by
  unfold iterBody at h ⊢
  dsimp only at h ⊢
  split at h
  · cases h
  · rename_i z0 hz0
    split at h
    · cases h
    · rename_i zi hzi
      rw [retrim_mono k hzi]
      exact h

theorem iterLoop_mono {n : Nat} {strict : Bool} (k : Nat) :
    ∀ {rem : List Chunk} {pre : List DepState} {d : Dep} {buf : Chunk} {post : List DepState}
      {r : List Call × List DepState},
      iterLoop n strict rem pre d buf post = .ok r → iterLoop (n + k) strict rem pre d buf post = .ok r
  | [], _, _, _, _, _, h => by unfold iterLoop at h ⊢; exact h
  | c :: rest, pre, d, buf, post, r, h => by
    unfold iterLoop at h ⊢
    split at h
    · cases h
    · rename_i buf1 hb
      split at h
      · cases h
      · rename_i call z' hbody
        rw [iterBody_mono k hbody]
        dsimp only
        split at h
        · cases h
        · rename_i calls fin hrec
          rw [iterLoop_mono k hrec]
          exact h

theorem iterRunP_mono {n : Nat} {deps : List Dep} {chunks : List (List Chunk)} {strict : Bool}
    {r : Result} (k : Nat) (h : iterRunP n deps chunks strict = .ok r) :
    iterRunP (n + k) deps chunks strict = .ok r := by
  unfold iterRunP at h ⊢
  split at h
  · cases h
  · rename_i sts hinit
    split at h
    · cases h
    · rename_i z hz
      unfold iterFrom at h ⊢
      split at h
      · cases h
      · rename_i call z' hbody
        rw [iterBody_mono k hbody]
        dsimp only
        split at h
        · cases h
        · rename_i calls fin hloop
          rw [iterLoop_mono k hloop]
          exact h

/-! ### same-kind inputs are row-aligned -/

theorem flatMap_aligned {γ : Type} (f g : γ → List Row) :
    ∀ (cs : List γ) (la lb : List Row), (∀ c ∈ cs, (f c).length = (g c).length) →
      (cs.flatMap f ++ la).map iv = (cs.flatMap g ++ lb).map iv → ∀ c ∈ cs, (f c).map iv = (g c).map iv
  | [], _, _, _, _ => by simp
  | c :: rest, la, lb, hl, he => by
    simp only [List.flatMap_cons, List.append_assoc, List.map_append] at he
    have hlen : ((f c).map iv).length = ((g c).map iv).length := by simp [hl c (by simp)]
    obtain ⟨h1, h2⟩ := List.append_inj he hlen
    have ih := flatMap_aligned f g rest la lb (fun c hc => hl c (List.mem_cons_of_mem _ hc))
      (by simpa [List.map_append] using h2)
    intro x hx
    rcases List.mem_cons.mp hx with e | e
    · subst e; exact h1
    · exact ih x e

theorem kindAligned_get {deps : List Dep} {chunks : List (List Chunk)} (h : kindAlignedB deps chunks = true)
    {i j : Nat} {di dj : Dep} {ci cj : List Chunk} (hi : deps[i]? = some di) (hj : deps[j]? = some dj)
    (hci : chunks[i]? = some ci) (hcj : chunks[j]? = some cj) (hk : di.kind = dj.kind) :
    (allRows ci).map iv = (allRows cj).map iv := by
  have mi : (di, ci) ∈ deps.zip chunks :=
    List.mem_of_getElem? (List.getElem?_zip_eq_some.mpr ⟨hi, hci⟩)
  have mj : (dj, cj) ∈ deps.zip chunks :=
    List.mem_of_getElem? (List.getElem?_zip_eq_some.mpr ⟨hj, hcj⟩)
  unfold kindAlignedB at h
  have := List.all_eq_true.mp (List.all_eq_true.mp h _ mi) _ mj
  simpa [hk] using this

/-! ### sortedness of a suffix -/

theorem sortedB_tail : ∀ (x : Row) (l : List Row), sortedByTimeB (x :: l) = true → sortedByTimeB l = true
  | _, [], _ => rfl
  | x, b :: rest, h => by
    simp only [sortedByTimeB, Bool.and_eq_true] at h
    exact h.2

theorem sortedB_head_le : ∀ (x : Row) (l : List Row), sortedByTimeB (x :: l) = true →
    ∀ y ∈ l, x.time ≤ y.time
  | _, [], _, y, hy => by simp at hy
  | x, b :: rest, h, y, hy => by
    simp only [sortedByTimeB, Bool.and_eq_true, decide_eq_true_eq] at h
    rcases List.mem_cons.mp hy with e | e
    · subst e; exact h.1
    · exact Int.le_trans h.1 (sortedB_head_le b rest h.2 y e)

theorem sortedB_suffix : ∀ (a b : List Row), sortedByTimeB (a ++ b) = true → sortedByTimeB b = true
  | [], _, h => h
  | x :: a, b, h => sortedB_suffix a b (sortedB_tail x (a ++ b) h)

end Strax.Align
