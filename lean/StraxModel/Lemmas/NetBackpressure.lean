import StraxModel.Lemmas.NetStep
import StraxModel.Model.NetPath
/-
  C13 over the general networks of Model/Net.lean (c06's `wire` of ANY plugin graph: trees, diamonds, multi-output
  dividers with flow-freely outputs, savers, discarders; also with failures): the rest bound along a PATH of the
  wiring.

  A `Link` says: thread `t` reads subscriber `si` of mailbox `mi` and sends into mailbox `mo`, and (static, decidable,
  `linkOk`) at every point of its program it has read at most `lag` messages more than it has sent on (`lagR`: sent
  at most `lagR` more than read), nobody else reads that subscription, nobody else sends into `mo`.
  Invariants for every reachable state of every net (`Base`): every mailbox `nSent ≤ min next + cap`, every
  subscriber `buffered ≤ cap - 1`; for every ok link (`LinkInv`): `delivered(mi,si) ≤ nSent(mo) + lag` and
  `nSent(mo) ≤ delivered(mi,si) + lagR` where `delivered = next - buffered`.  Telescoping along a path gives
  `nSent(first mailbox) + 1 ≤ delivered(to the consumer) + Σ (2·cap + lag - 1)`.
-/
namespace Strax.NetBP
open Strax Strax.Net

/-! ### minNext -/

theorem minNext_le_of_mem {subs : List ASub} {sub : ASub} (h : sub ∈ subs) : minNext subs ≤ sub.next := by
  induction subs with
  | nil => cases h
  | cons a r ih =>
    cases r with
    | nil => simp at h; subst h; simp [minNext]
    | cons b r' =>
      simp only [minNext]
      rcases List.mem_cons.mp h with h | h
      · subst h; exact Nat.min_le_left _ _
      · exact Nat.le_trans (Nat.min_le_right _ _) (ih h)

theorem minNext_mem {subs : List ASub} (h : subs ≠ []) : ∃ sub ∈ subs, sub.next = minNext subs := by
  induction subs with
  | nil => exact absurd rfl h
  | cons a r ih =>
    cases r with
    | nil => exact ⟨a, by simp, by simp [minNext]⟩
    | cons b r' =>
      simp only [minNext]
      obtain ⟨s, hs, he⟩ := ih (by simp)
      by_cases hab : a.next ≤ minNext (b :: r')
      · exact ⟨a, by simp, by omega⟩
      · exact ⟨s, List.mem_cons_of_mem _ hs, by omega⟩

theorem minNext_set_mono {subs : List ASub} {i : Nat} {old new : ASub} (hi : subs[i]? = some old)
    (hle : old.next ≤ new.next) : minNext subs ≤ minNext (subs.set i new) := by
  have hlt : i < subs.length := (List.getElem?_eq_some_iff.mp hi).1
  have hne : subs.set i new ≠ [] := by
    intro h; have := congrArg List.length h; simp only [List.length_set, List.length_nil] at this; omega
  obtain ⟨s, hs, he⟩ := minNext_mem hne
  rw [← he]
  rcases List.mem_or_eq_of_mem_set hs with h | h
  · exact minNext_le_of_mem h
  · subst h
    exact Nat.le_trans (minNext_le_of_mem (List.mem_of_getElem? hi)) hle

/-! ### one mailbox -/

structure MbInv (sp : MBSpec) (a : AMB) : Prop where
  subsLen : a.subs.length = sp.drive.length
  back : a.nSent ≤ minNext a.subs + sp.cap
  sub : ∀ (i : Nat) (sb : ASub), a.subs[i]? = some sb → sb.next ≤ a.nSent ∧ sb.buffered ≤ sp.cap - 1 ∧
    ∀ x, sb.waiting = some x → x = sb.next ∧ sb.buffered = 0

theorem MbInv.backSub {sp : MBSpec} {a : AMB} (h : MbInv sp a) {i : Nat} {sb : ASub} (hs : a.subs[i]? = some sb) :
    a.nSent ≤ sb.next + sp.cap := by
  have := h.back; have := minNext_le_of_mem (List.mem_of_getElem? hs); omega

/-- a subscriber is replaced by one that has not gone backwards -/
theorem MbInv.modSub {sp : MBSpec} {a : AMB} (h : MbInv sp a) (k : Nat) (f : ASub → ASub)
    (hf : ∀ sb, a.subs[k]? = some sb → sb.next ≤ (f sb).next ∧ (f sb).next ≤ a.nSent ∧ (f sb).buffered ≤ sp.cap - 1 ∧
      ∀ x, (f sb).waiting = some x → x = (f sb).next ∧ (f sb).buffered = 0) :
    MbInv sp (a.modSub k f) := by
  unfold AMB.modSub
  split
  · rename_i sb hk
    obtain ⟨h1, h2, h3, h4⟩ := hf sb hk
    refine ⟨by simp [h.subsLen], Nat.le_trans h.back (Nat.add_le_add_right (minNext_set_mono hk h1) _), ?_⟩
    intro i x hx
    simp only [List.getElem?_set] at hx
    split at hx
    · split at hx
      · cases hx; exact ⟨h2, h3, h4⟩
      · cases hx
    · exact h.sub i x hx
  · exact h

theorem MbInv.sent {sp : MBSpec} {a : AMB} (h : MbInv sp a) (hl : a.heapLen < sp.cap) (c : Bool) :
    MbInv sp { a with nSent := a.nSent + 1, closed := c } := by
  refine ⟨h.subsLen, ?_, ?_⟩
  · have := h.back; simp only [AMB.heapLen] at hl; simp only; omega
  · intro i sb hs; have := h.sub i sb hs; exact ⟨by simp only; omega, this.2.1, this.2.2⟩

theorem MbInv.kill {sp : MBSpec} {a : AMB} (h : MbInv sp a) (r : Exc) : MbInv sp (a.kill r) := by
  unfold AMB.kill; split
  · exact h
  · exact ⟨h.subsLen, h.back, h.sub⟩

/-! ### counting instructions -/

theorem cntRead_cons (m i : Nat) (x : Instr) (r : List Instr) :
    cntRead m i (x :: r) = cntRead m i r + (if x = .read m i then 1 else 0) := by
  simp only [cntRead, List.count_cons, beq_iff_eq]

theorem cntOut_cons (m : Nat) (x : Instr) (r : List Instr) :
    cntOut m (x :: r) = cntOut m r + (if x = .send m ∨ x = .close m then 1 else 0) := by
  simp only [cntOut, List.count_cons, beq_iff_eq]
  by_cases h1 : x = .send m
  · subst h1; simp; omega
  · by_cases h2 : x = .close m
    · subst h2; simp; omega
    · simp [h1, h2]

theorem cntRead_suffix {m i : Nat} {pre p l : List Instr} (h : l = pre ++ p) : cntRead m i p ≤ cntRead m i l := by
  subst h; simp [cntRead, List.count_append]

theorem cntOut_suffix {m : Nat} {pre p l : List Instr} (h : l = pre ++ p) : cntOut m p ≤ cntOut m l := by
  subst h; simp only [cntOut, List.count_append]; omega

/-! ### links -/

theorem mem_tails_self {α} (l : List α) : l ∈ tails l := by cases l <;> simp [tails]

theorem mem_tails_of_append {α} (pre p : List α) : p ∈ tails (pre ++ p) := by
  induction pre with
  | nil => exact mem_tails_self p
  | cons x r ih => simp only [List.cons_append, tails, List.mem_cons]; exact Or.inr ih

theorem suf_tail {α} {l p : List α} (h : ∃ pre, l = pre ++ p) : ∃ pre, l = pre ++ p.tail := by
  obtain ⟨pre, hp⟩ := h
  cases p with
  | nil => exact ⟨pre, by simpa using hp⟩
  | cons i rest => exact ⟨pre ++ [i], by simp [hp]⟩

structure LinkOkP (net : Net) (L : Link) (th : Thread) : Prop where
  thr : net.threads[L.t]? = some th
  ne : L.mi ≠ L.mo
  exO : L.mo < net.mbs.length
  exI : ∃ sp, net.mbs[L.mi]? = some sp ∧ L.si < sp.drive.length
  noDie : ∀ i ∈ th.body, ∀ e, i ≠ .die e
  lag : ∀ pre p, th.body = pre ++ p →
    cntRead L.mi L.si th.body + cntOut L.mo p ≤ cntOut L.mo th.body + cntRead L.mi L.si p + L.lag ∧
    cntOut L.mo th.body + cntRead L.mi L.si p ≤ cntRead L.mi L.si th.body + cntOut L.mo p + L.lagR
  epiR : cntRead L.mi L.si th.epi = 0
  epiO : cntOut L.mo th.epi = 0
  other : ∀ u tu, u ≠ L.t → net.threads[u]? = some tu →
    cntRead L.mi L.si tu.body = 0 ∧ cntRead L.mi L.si tu.epi = 0 ∧ cntOut L.mo tu.body = 0 ∧ cntOut L.mo tu.epi = 0

theorem linkOk_spec {net : Net} {L : Link} (h : linkOk net L = true) : ∃ th, LinkOkP net L th := by
  unfold linkOk at h
  split at h
  · simp at h
  · rename_i th hth
    simp only [Bool.and_eq_true, decide_eq_true_eq, List.all_eq_true, Bool.or_eq_true, beq_iff_eq, List.mem_range] at h
    obtain ⟨⟨⟨⟨⟨⟨⟨hne, hexo⟩, hexi⟩, hnd⟩, hlag⟩, he1⟩, he2⟩, hoth⟩ := h
    refine ⟨th, hth, hne, hexo, ?_, ?_, ?_, he1, he2, ?_⟩
    · split at hexi
      · rename_i sp hsp; exact ⟨sp, hsp, by simpa using hexi⟩
      · simp at hexi
    · intro i hi e he
      have := hnd i hi
      subst he; simp at this
    · intro pre p hb
      have := hlag p (by rw [hb]; exact mem_tails_of_append pre p)
      exact this
    · intro u tu hu htu
      have hlt : u < net.threads.length := (List.getElem?_eq_some_iff.mp htu).1
      have := hoth u hlt
      rcases this with h0 | h0
      · exact absurd h0 hu
      · simp only [htu, Bool.and_eq_true, decide_eq_true_eq] at h0
        exact ⟨h0.1.1.1, h0.1.1.2, h0.1.2, h0.2⟩

/-! ### the invariants -/

/-- `l` reads no subscription and sends into no mailbox more often than `e0` does (suffixes of `e0`; the kill-only handlers
installed by `setEpi` / `dropEpi`) -/
def Within (l e0 : List Instr) : Prop := ∀ m i, cntRead m i l ≤ cntRead m i e0 ∧ cntOut m l ≤ cntOut m e0

theorem Within.refl (l : List Instr) : Within l l := fun _ _ => ⟨Nat.le_refl _, Nat.le_refl _⟩

theorem Within.tail {l e0 : List Instr} (h : Within l e0) : Within l.tail e0 := by
  intro m i
  cases l with
  | nil => exact h m i
  | cons x r =>
    have := h m i
    simp only [List.tail_cons]
    rw [cntRead_cons, cntOut_cons] at this
    constructor <;> omega

theorem Within.of_zero {l e0 : List Instr} (h : ∀ m i, cntRead m i l = 0 ∧ cntOut m l = 0) : Within l e0 := by
  intro m i; have := h m i; constructor <;> omega

theorem kill_counts (ms : List Nat) : ∀ m i, cntRead m i (ms.map Instr.killIfExc) = 0 ∧ cntOut m (ms.map Instr.killIfExc) = 0 := by
  intro m i
  induction ms with
  | nil => simp [cntRead, cntOut]
  | cons x r ih => simp only [List.map_cons, cntRead_cons, cntOut_cons]; simp [ih.1, ih.2]

structure Base (net : Net) (s : NState) : Prop where
  lenM : s.mbs.length = net.mbs.length
  lenT : s.thr.length = net.threads.length
  suf : ∀ (u : Nat) (th : Thread) (ts : TSt), net.threads[u]? = some th → s.thr[u]? = some ts →
    Within ts.epi th.epi ∧ (if ts.inEpi then Within ts.prog th.epi else ∃ pre, th.body = pre ++ ts.prog)
  mb : ∀ (m : Nat) (sp : MBSpec) (a : AMB), net.mbs[m]? = some sp → s.mbs[m]? = some a → MbInv sp a

def LinkInv (net : Net) (s : NState) (L : Link) : Prop :=
  ∀ (th : Thread) (ts : TSt) (a : AMB) (sb : ASub) (b : AMB), net.threads[L.t]? = some th → s.thr[L.t]? = some ts →
    s.mbs[L.mi]? = some a → a.subs[L.si]? = some sb → s.mbs[L.mo]? = some b →
    (ts.inEpi = false →
      sb.next + cntRead L.mi L.si ts.prog + cntOut L.mo th.body =
        b.nSent + cntOut L.mo ts.prog + cntRead L.mi L.si th.body + sb.buffered) ∧
    sb.next ≤ b.nSent + L.lag + sb.buffered ∧ b.nSent + sb.buffered ≤ sb.next + L.lagR

/-- shape of the state after a step: thread `t` gets a new state, at most one mailbox gets a new state -/
structure Frame (s s' : NState) (t : Nat) (ts' : Option TSt) (mb : Option (Nat × AMB × AMB)) : Prop where
  thr : ∀ u, s'.thr[u]? = (match ts' with
    | some x => if t = u then (if u < s.thr.length then some x else none) else s.thr[u]?
    | none => s.thr[u]?)
  mbs : ∀ k, s'.mbs[k]? = (match mb with
    | some (m, _, a') => if m = k then (if k < s.mbs.length then some a' else none) else s.mbs[k]?
    | none => s.mbs[k]?)
  old : ∀ m a a', mb = some (m, a, a') → s.mbs[m]? = some a
  lenT : s'.thr.length = s.thr.length
  lenM : s'.mbs.length = s.mbs.length

theorem frame_thr (s : NState) (t : Nat) (ts' : TSt) : Frame s (s.setThr t ts') t (some ts') none :=
  ⟨fun u => by simp [setThr_thr], fun k => by simp, (by intro m a a' h; cases h), (by simp), (by simp)⟩

theorem frame_both (s : NState) (t m : Nat) (ts' : TSt) (f : AMB → AMB) (a : AMB) (h : s.mbs[m]? = some a) :
    Frame s ((s.modMB m f).setThr t ts') t (some ts') (some (m, a, f a)) := by
  obtain ⟨hlt, he⟩ := List.getElem?_eq_some_iff.mp h
  refine ⟨fun u => by simp [setThr_thr], fun k => ?_, ?_, (by simp), (by simp)⟩
  · simp only [setThr_mbs, modMB_mbs]
    split
    · rename_i hk; subst hk; simp [hlt, he]
    · rfl
  · intro m' a0 a' he; simp only [Option.some.injEq, Prod.mk.injEq] at he; obtain ⟨rfl, rfl, _⟩ := he; exact h

theorem frame_mb (s : NState) (t m : Nat) (f : AMB → AMB) (a : AMB) (h : s.mbs[m]? = some a) :
    Frame s (s.modMB m f) t none (some (m, a, f a)) := by
  obtain ⟨hlt, he⟩ := List.getElem?_eq_some_iff.mp h
  refine ⟨fun u => by simp, fun k => ?_, ?_, (by simp), (by simp)⟩
  · simp only [modMB_mbs]
    split
    · rename_i hk; subst hk; simp [hlt, he]
    · rfl
  · intro m' a0 a' he; simp only [Option.some.injEq, Prod.mk.injEq] at he; obtain ⟨rfl, rfl, _⟩ := he; exact h

/-- how a thread state may change in one step (what `Base.suf` needs) -/
inductive TMove (ts : TSt) : TSt → Prop
  | adv (e : List Instr) : (e = ts.epi ∨ ∀ m i, cntRead m i e = 0 ∧ cntOut m e = 0) → TMove ts { ts.advance with epi := e }
  | raise (own : Bool) (x : Exc) : TMove ts (ts.raise own x)
  | die (x : Option (Bool × Exc)) : TMove ts { ts with prog := [], exc := x }

theorem Base.frame {net : Net} {s s' : NState} {t : Nat} {ots : Option TSt} {omb : Option (Nat × AMB × AMB)}
    (h : Base net s) (hf : Frame s s' t ots omb)
    (hthr : ∀ ts', ots = some ts' → ∀ ts, s.thr[t]? = some ts → TMove ts ts')
    (hmb : ∀ m a a', omb = some (m, a, a') → ∀ sp, net.mbs[m]? = some sp → MbInv sp a') : Base net s' := by
  refine ⟨by rw [hf.lenM, h.lenM], by rw [hf.lenT, h.lenT], ?_, ?_⟩
  · intro u th ts hth hts
    rw [hf.thr u] at hts
    cases ots with
    | none => exact h.suf u th ts hth hts
    | some ts' =>
      simp only at hts
      split at hts
      · rename_i htu; subst htu
        split at hts
        · rename_i hlt
          cases hts
          obtain ⟨ts0, hts0⟩ : ∃ ts0, s.thr[t]? = some ts0 := ⟨s.thr[t], List.getElem?_eq_getElem hlt⟩
          obtain ⟨hpe, hpp⟩ := h.suf t th ts0 hth hts0
          cases hthr ts rfl ts0 hts0 with
          | adv e he =>
            refine ⟨?_, ?_⟩
            · show Within e th.epi
              rcases he with rfl | he
              · exact hpe
              · exact Within.of_zero he
            · show if ts0.inEpi then Within ts0.prog.tail th.epi else ∃ pre, th.body = pre ++ ts0.prog.tail
              split
              · rename_i hin; rw [if_pos hin] at hpp; exact hpp.tail
              · rename_i hin; rw [if_neg hin] at hpp; exact suf_tail hpp
          | raise own x =>
            unfold TSt.raise
            split
            · rename_i hin
              refine ⟨hpe, ?_⟩
              rw [if_pos hin] at hpp
              have := hpp.tail
              simpa [hin] using this
            · refine ⟨hpe, ?_⟩
              show if true then Within ts0.epi th.epi else ∃ pre, th.body = pre ++ ts0.epi
              simpa using hpe
          | die x =>
            refine ⟨hpe, ?_⟩
            show if ts0.inEpi then Within [] th.epi else ∃ pre, th.body = pre ++ []
            split
            · exact Within.of_zero (fun m i => by simp [cntRead, cntOut])
            · exact ⟨_, (List.append_nil _).symm⟩
        · cases hts
      · exact h.suf u th ts hth hts
  · intro m sp a' hsp ha'
    rw [hf.mbs m] at ha'
    cases omb with
    | none => exact h.mb m sp a' hsp ha'
    | some x =>
      obtain ⟨m0, a0, a1⟩ := x
      simp only at ha'
      split at ha'
      · rename_i hm; subst hm
        split at ha'
        · cases ha'; exact hmb m0 a0 a' rfl sp hsp
        · cases ha'
      · exact h.mb m sp a' hsp ha'

theorem Base.bodySuf {net : Net} {s : NState} (hb : Base net s) {u : Nat} {th : Thread} {ts : TSt}
    (hth : net.threads[u]? = some th) (hts : s.thr[u]? = some ts) (hin : ts.inEpi = false) : ∃ pre, th.body = pre ++ ts.prog := by
  have := (hb.suf u th ts hth hts).2
  rw [if_neg (by simp [hin])] at this; exact this

/-- what a thread can still do is bounded by what its body and its epilogue contain -/
theorem Base.cnt {net : Net} {s : NState} (hb : Base net s) {u : Nat} {th : Thread} {ts : TSt}
    (hth : net.threads[u]? = some th) (hts : s.thr[u]? = some ts) (m i : Nat) :
    (ts.inEpi = true → cntRead m i ts.prog ≤ cntRead m i th.epi ∧ cntOut m ts.prog ≤ cntOut m th.epi) ∧
    cntRead m i ts.prog ≤ cntRead m i th.body + cntRead m i th.epi ∧ cntOut m ts.prog ≤ cntOut m th.body + cntOut m th.epi := by
  have h2 := (hb.suf u th ts hth hts).2
  cases hin : ts.inEpi with
  | true =>
    rw [if_pos hin] at h2
    have := h2 m i
    exact ⟨fun _ => this, by omega, by omega⟩
  | false =>
    rw [if_neg (by simp [hin])] at h2
    obtain ⟨pp, hpp⟩ := h2
    have h3 := cntRead_suffix (m := m) (i := i) hpp
    have h4 := cntOut_suffix (m := m) hpp
    exact ⟨fun h0 => by simp at h0, by omega, by omega⟩

theorem Frame.mbLookup {s s' : NState} {t : Nat} {ots : Option TSt} {omb : Option (Nat × AMB × AMB)} (hf : Frame s s' t ots omb)
    {k : Nat} {x : AMB} (h : s'.mbs[k]? = some x) :
    (∃ a, omb = some (k, a, x) ∧ s.mbs[k]? = some a) ∨ ((∀ a a', omb ≠ some (k, a, a')) ∧ s.mbs[k]? = some x) := by
  rw [hf.mbs k] at h
  cases omb with
  | none => exact Or.inr ⟨by simp, h⟩
  | some y =>
    obtain ⟨m0, a0, a1⟩ := y
    simp only at h
    split at h
    · rename_i hm; subst hm
      split at h
      · cases h; exact Or.inl ⟨a0, rfl, hf.old _ _ _ rfl⟩
      · cases h
    · rename_i hm
      refine Or.inr ⟨?_, h⟩
      intro a a' he; cases he; exact hm rfl

theorem Frame.thrLookup {s s' : NState} {t : Nat} {ots : Option TSt} {omb : Option (Nat × AMB × AMB)} (hf : Frame s s' t ots omb)
    {u : Nat} {x : TSt} (h : s'.thr[u]? = some x) :
    (ots = some x ∧ t = u ∧ ∃ ts, s.thr[u]? = some ts) ∨ ((ots = none ∨ t ≠ u) ∧ s.thr[u]? = some x) := by
  rw [hf.thr u] at h
  cases ots with
  | none => exact Or.inr ⟨Or.inl rfl, h⟩
  | some y =>
    simp only at h
    split at h
    · rename_i htu; subst htu
      split at h
      · rename_i hlt; cases h; exact Or.inl ⟨rfl, rfl, ⟨s.thr[t], List.getElem?_eq_getElem hlt⟩⟩
      · cases h
    · rename_i htu; exact Or.inr ⟨Or.inr htu, h⟩

/-- the link invariant is preserved by a step that delivers `dr` messages of subscription (mi, si) to its owner and puts
`ds` messages into `mo` -/
theorem LinkInv.frame {net : Net} {s s' : NState} {t : Nat} {ots : Option TSt} {omb : Option (Nat × AMB × AMB)}
    {L : Link} {th : Thread} (hb' : Base net s') (hl : LinkInv net s L) (hok : LinkOkP net L th)
    (hf : Frame s s' t ots omb) (dr ds : Nat)
    (hdr : dr = 0 ∨ ∃ a a', omb = some (L.mi, a, a'))
    (hds : ds = 0 ∨ ∃ a a', omb = some (L.mo, a, a'))
    (hsub : ∀ a a', omb = some (L.mi, a, a') → ∀ sb', a'.subs[L.si]? = some sb' →
      ∃ sb, a.subs[L.si]? = some sb ∧ sb'.next + sb.buffered = sb.next + sb'.buffered + dr)
    (hns : ∀ a a', omb = some (L.mo, a, a') → a'.nSent = a.nSent + ds)
    (hthr : ∀ ts', ots = some ts' → t = L.t → ∀ ts, s.thr[t]? = some ts →
      (ts'.inEpi = true ∧ dr = 0 ∧ ds = 0) ∨
      (ts.inEpi = false ∧ ts'.inEpi = false ∧ cntRead L.mi L.si ts'.prog + dr = cntRead L.mi L.si ts.prog ∧
        cntOut L.mo ts'.prog + ds = cntOut L.mo ts.prog))
    (hoth : (ots = none ∨ t ≠ L.t) → dr = 0 ∧ ds = 0) : LinkInv net s' L := by
  intro th' ts' a' sb' b' hth hts' ha' hsb' hbo'
  rw [hok.thr] at hth; cases hth
  -- old mailbox values
  obtain ⟨a, sb, ha, hsb, hdel'⟩ : ∃ a sb, s.mbs[L.mi]? = some a ∧ a.subs[L.si]? = some sb ∧
      sb'.next + sb.buffered = sb.next + sb'.buffered + dr := by
    rcases hf.mbLookup ha' with ⟨a, ho, ha⟩ | ⟨hno, ha⟩
    · obtain ⟨sb, hsb, he⟩ := hsub a a' ho sb' hsb'
      exact ⟨a, sb, ha, hsb, he⟩
    · refine ⟨a', sb', ha, hsb', ?_⟩
      rcases hdr with h0 | ⟨x, y, hxy⟩
      · rw [h0]; rfl
      · exact absurd hxy (hno x y)
  obtain ⟨b, hbo, hsent⟩ : ∃ b, s.mbs[L.mo]? = some b ∧ b'.nSent = b.nSent + ds := by
    rcases hf.mbLookup hbo' with ⟨b, ho, hbo⟩ | ⟨hno, hbo⟩
    · exact ⟨b, hbo, hns b b' ho⟩
    · refine ⟨b', hbo, ?_⟩
      rcases hds with h0 | ⟨x, y, hxy⟩
      · rw [h0]; rfl
      · exact absurd hxy (hno x y)
  rcases hf.thrLookup hts' with ⟨hots, htt, ts, hts⟩ | ⟨hno, hts⟩
  · -- the owner of the link moved
    obtain ⟨hJ, h3, h3r⟩ := hl th ts a sb b hok.thr hts ha hsb hbo
    subst htt
    rcases hthr ts' hots rfl ts hts with ⟨hin, hd0, hs0⟩ | ⟨hin0, hin1, hr, ho⟩
    · refine ⟨fun h0 => by simp [hin] at h0, ?_, ?_⟩ <;> omega
    · have hJ' := hJ hin0
      obtain ⟨pp, hpp⟩ := hb'.bodySuf hok.thr hts' hin1
      obtain ⟨hl1, hl2⟩ := hok.lag pp ts'.prog hpp
      refine ⟨fun _ => by omega, ?_, ?_⟩ <;> omega
  · obtain ⟨hJ, h3, h3r⟩ := hl th ts' a sb b hok.thr hts ha hsb hbo
    obtain ⟨hd0, hs0⟩ := hoth (by rcases hno with h | h; exact Or.inl h; exact Or.inr h)
    refine ⟨fun hin => by have := hJ hin; omega, ?_, ?_⟩ <;> omega

/-! ### every step preserves the invariants -/

theorem LinkOkP.exists {net : Net} {s : NState} {L : Link} {th : Thread} (hok : LinkOkP net L th) (hb : Base net s) :
    ∃ a sb b sp, s.mbs[L.mi]? = some a ∧ a.subs[L.si]? = some sb ∧ s.mbs[L.mo]? = some b ∧ net.mbs[L.mo]? = some sp := by
  obtain ⟨spi, hspi, hsi⟩ := hok.exI
  have hmi : L.mi < s.mbs.length := by rw [hb.lenM]; exact (List.getElem?_eq_some_iff.mp hspi).1
  have hmo : L.mo < s.mbs.length := by rw [hb.lenM]; exact hok.exO
  have ha : s.mbs[L.mi]? = some s.mbs[L.mi] := List.getElem?_eq_getElem hmi
  have hlen := (hb.mb L.mi spi _ hspi ha).subsLen
  refine ⟨s.mbs[L.mi], (s.mbs[L.mi]).subs[L.si]'(by omega), s.mbs[L.mo], net.mbs[L.mo]'hok.exO, ha,
    List.getElem?_eq_getElem _, List.getElem?_eq_getElem hmo, List.getElem?_eq_getElem _⟩

/-- a thread that is not the owner of the link (or the owner inside its epilogue) is not about to read the link's
subscription or to send into the link's output -/
theorem head_free {net : Net} {s : NState} {L : Link} {th : Thread} (hb : Base net s) (hok : LinkOkP net L th)
    {t : Nat} {ts : TSt} {i : Instr} {rest : List Instr} (hts : s.thr[t]? = some ts) (hp : ts.prog = i :: rest)
    (h : t ≠ L.t ∨ ts.inEpi = true) : i ≠ .read L.mi L.si ∧ i ≠ .send L.mo ∧ i ≠ .close L.mo := by
  have hlt : t < net.threads.length := by rw [← hb.lenT]; exact (List.getElem?_eq_some_iff.mp hts).1
  have htu : net.threads[t]? = some net.threads[t] := List.getElem?_eq_getElem hlt
  obtain ⟨cE, cR, cO⟩ := hb.cnt htu hts L.mi L.si
  have cO' := (hb.cnt htu hts L.mo 0).2.2
  have cE' := (hb.cnt htu hts L.mo 0).1
  have key : cntRead L.mi L.si ts.prog = 0 ∧ cntOut L.mo ts.prog = 0 := by
    by_cases htt : t = L.t
    · subst htt
      have hin : ts.inEpi = true := by rcases h with h | h; exact absurd rfl h; exact h
      rw [hok.thr] at htu; cases htu
      have := hok.epiR; have := hok.epiO
      have := (cE hin).1; have := (cE' hin).2
      omega
    · obtain ⟨o1, o2, o3, o4⟩ := hok.other t _ htt htu
      omega
  rw [hp, cntRead_cons, cntOut_cons] at key
  refine ⟨?_, ?_, ?_⟩
  · intro he; simp [he] at key
  · intro he; simp [he] at key
  · intro he; simp [he] at key

@[simp] theorem kill_nSent (a : AMB) (r : Exc) : (a.kill r).nSent = a.nSent := by unfold AMB.kill; split <;> rfl
@[simp] theorem kill_subs (a : AMB) (r : Exc) : (a.kill r).subs = a.subs := by unfold AMB.kill; split <;> rfl

theorem modMB_none (s : NState) (m : Nat) (f : AMB → AMB) (h : s.mbs[m]? = none) : s.modMB m f = s := by
  unfold NState.modMB; rw [h]

theorem tmove_adv (ts : TSt) : TMove ts ts.advance := TMove.adv ts.epi (Or.inl rfl)

theorem Base.step {net : Net} {s s' : NState} {t : Nat} (hb : Base net s) (h : step net s t = some s') : Base net s' := by
  obtain ⟨ts, i, rest, hts, hp, heff⟩ := step_cases h
  have thrOnly : ∀ ts', TMove ts ts' → Base net (s.setThr t ts') := by
    intro ts' hm
    refine hb.frame (frame_thr s t ts') ?_ (by intro m a a' he; cases he)
    intro x hx y hy; cases hx; rw [hts] at hy; cases hy; exact hm
  have both : ∀ ts' m a (f : AMB → AMB), TMove ts ts' → s.mbs[m]? = some a → (∀ sp, net.mbs[m]? = some sp → MbInv sp a → MbInv sp (f a)) →
      Base net ((s.modMB m f).setThr t ts') := by
    intro ts' m a f hm ha hf
    refine hb.frame (frame_both s t m ts' f a ha) ?_ ?_
    · intro x hx y hy; cases hx; rw [hts] at hy; cases hy; exact hm
    · intro m0 a0 a1 he sp hsp
      simp only [Option.some.injEq, Prod.mk.injEq] at he; obtain ⟨rfl, rfl, rfl⟩ := he
      exact hf sp hsp (hb.mb _ sp _ hsp ha)
  cases heff with
  | advance => exact thrOnly _ (tmove_adv ts)
  | readPop m k a sb ha hs hbuf =>
    refine both _ m a _ (tmove_adv ts) ha ?_
    intro sp _ hi
    apply hi.modSub
    intro x hx; rw [hs] at hx; cases hx
    have := hi.sub k sb hs
    refine ⟨Nat.le_refl _, this.1, by simp only; omega, ?_⟩
    intro x hx
    have := (this.2.2 x hx).2
    omega
  | readKilled m k a sb ha hs _ _ =>
    refine both _ m a _ (TMove.raise _ _) ha ?_
    intro sp _ hi
    apply hi.modSub
    intro x hx; rw [hs] at hx; cases hx
    have := hi.sub k sb hs
    exact ⟨Nat.le_refl _, this.1, this.2.1, by intro x hx; cases hx⟩
  | readTake m k a sb ha hs _ _ hlt =>
    refine both _ m a _ (tmove_adv ts) ha ?_
    intro sp _ hi
    apply hi.modSub
    intro x hx; rw [hs] at hx; cases hx
    have := hi.backSub hs
    exact ⟨by simp only; omega, Nat.le_refl _, by simp only; omega, by intro x hx; cases hx⟩
  | readWait m k a sb ha hs hb0 _ _ _ =>
    refine hb.frame (frame_mb s t m _ a ha) (by intro x hx; cases hx) ?_
    intro m0 a0 a1 he sp hsp
    simp only [Option.some.injEq, Prod.mk.injEq] at he; obtain ⟨rfl, rfl, rfl⟩ := he
    apply (hb.mb _ sp _ hsp ha).modSub
    intro x hx; rw [hs] at hx; cases hx
    have := (hb.mb _ sp _ hsp ha).sub k sb hs
    refine ⟨Nat.le_refl _, this.1, this.2.1, ?_⟩
    intro x hx
    simp only [Option.some.injEq] at hx
    exact ⟨hx.symm, hb0⟩
  | sendOk m sp a hsp ha _ _ hl =>
    refine both _ m a _ (tmove_adv ts) ha ?_
    intro sp' hsp' hi
    rw [hsp] at hsp'; cases hsp'
    exact hi.sent hl a.closed
  | closeOk m sp a hsp ha _ _ hl =>
    refine both _ m a _ (tmove_adv ts) ha ?_
    intro sp' hsp' hi
    rw [hsp] at hsp'; cases hsp'
    exact hi.sent hl true
  | outClosed => exact thrOnly _ (TMove.raise _ _)
  | outKilled => exact thrOnly _ (TMove.raise _ _)
  | fail => exact thrOnly _ (TMove.raise _ _)
  | die => exact thrOnly _ (TMove.die _)
  | kill i m own r _ _ =>
    cases ha : s.mbs[m]? with
    | none => rw [modMB_none s m _ ha]; exact thrOnly _ (tmove_adv ts)
    | some a => exact both _ m a _ (tmove_adv ts) ha (fun sp _ hi => hi.kill r)
  | finish sv out _ =>
    have F := frame_thr { s with outcome := some out } t ts.advance
    refine hb.frame (s' := ({ s with outcome := some out } : NState).setThr t ts.advance) (ots := some ts.advance) (omb := none)
      ⟨F.thr, F.mbs, (by intro m a a' he; cases he), F.lenT, F.lenM⟩ ?_ (by intro m a a' he; cases he)
    intro x hx y hy; cases hx; rw [hts] at hy; cases hy; exact tmove_adv ts
  | dropEpi => exact thrOnly _ (TMove.adv [] (Or.inr (fun m i => by simp [cntRead, cntOut])))
  | setEpi ms => exact thrOnly _ (TMove.adv _ (Or.inr (kill_counts ms)))

theorem adv_counts {ts : TSt} {i : Instr} {rest : List Instr} (hp : ts.prog = i :: rest) (L : Link) :
    cntRead L.mi L.si ts.prog.tail + (if i = .read L.mi L.si then 1 else 0) = cntRead L.mi L.si ts.prog ∧
    cntOut L.mo ts.prog.tail + (if i = .send L.mo ∨ i = .close L.mo then 1 else 0) = cntOut L.mo ts.prog := by
  rw [hp]; simp [cntRead_cons, cntOut_cons]

theorem raise_inEpi (ts : TSt) (o : Bool) (e : Exc) : (ts.raise o e).inEpi = true := by
  unfold TSt.raise; split
  · rename_i h; simpa using h
  · rfl

/-- the `hthr` obligation of `LinkInv.frame` for a thread that moves on by one instruction -/
theorem owner_adv {net : Net} {s : NState} {L : Link} {th : Thread} (hb : Base net s) (hok : LinkOkP net L th)
    {ts ts' : TSt} {i : Instr} {rest : List Instr} (hts : s.thr[L.t]? = some ts) (hp : ts.prog = i :: rest)
    (h1 : ts'.prog = ts.prog.tail) (h2 : ts'.inEpi = ts.inEpi) :
    (ts'.inEpi = true ∧ (if i = .read L.mi L.si then 1 else 0) = 0 ∧ (if i = .send L.mo ∨ i = .close L.mo then 1 else 0) = 0) ∨
    (ts.inEpi = false ∧ ts'.inEpi = false ∧
      cntRead L.mi L.si ts'.prog + (if i = .read L.mi L.si then 1 else 0) = cntRead L.mi L.si ts.prog ∧
      cntOut L.mo ts'.prog + (if i = .send L.mo ∨ i = .close L.mo then 1 else 0) = cntOut L.mo ts.prog) := by
  cases hin : ts.inEpi with
  | true =>
    obtain ⟨f1, f2, f3⟩ := head_free hb hok hts hp (Or.inr hin)
    exact Or.inl ⟨by rw [h2, hin], by simp [f1], by simp [f2, f3]⟩
  | false =>
    obtain ⟨c1, c2⟩ := adv_counts hp L
    exact Or.inr ⟨rfl, by rw [h2, hin], by rw [h1]; exact c1, by rw [h1]; exact c2⟩

theorem LinkInv.step {net : Net} {s s' : NState} {t : Nat} {L : Link} {th : Thread} (hb : Base net s)
    (hok : LinkOkP net L th) (hl : LinkInv net s L) (h : step net s t = some s') : LinkInv net s' L := by
  have hb' := hb.step h
  obtain ⟨ts, i, rest, hts, hp, heff⟩ := step_cases h
  obtain ⟨a0, sb0, b0, spo, ha0, hsb0, hb0, hspo⟩ := hok.exists hb
  -- a thread other than the owner is not at an instruction of the link
  have hfree : t ≠ L.t → i ≠ .read L.mi L.si ∧ i ≠ .send L.mo ∧ i ≠ .close L.mo :=
    fun hne => head_free hb hok hts hp (Or.inl hne)
  have simple : ∀ (s1 : NState) ts' (omb : Option (Nat × AMB × AMB)), Frame s s1 t (some ts') omb → Base net s1 →
      (∀ m a a', omb = some (m, a, a') → a'.nSent = a.nSent ∧ a'.subs = a.subs ∨
        (a'.nSent = a.nSent ∧ ∃ k g, a' = a.modSub k g ∧ (m = L.mi → k ≠ L.si))) →
      (t = L.t → ts'.inEpi = true ∨ (ts'.prog = ts.prog.tail ∧ ts'.inEpi = ts.inEpi ∧
        i ≠ .read L.mi L.si ∧ i ≠ .send L.mo ∧ i ≠ .close L.mo)) → LinkInv net s1 L := by
    intro s1 ts' omb hf hb1 hmb hmove
    refine LinkInv.frame hb1 hl hok hf 0 0 (Or.inl rfl) (Or.inl rfl) ?_ ?_ ?_ (fun _ => ⟨rfl, rfl⟩)
    · intro a a' he sb' hsb'
      rcases hmb _ a a' he with ⟨_, hsubs⟩ | ⟨_, k, g, rfl, hk⟩
      · exact ⟨sb', by rw [← hsubs]; exact hsb', by omega⟩
      · rw [modSub_subs, if_neg (hk rfl)] at hsb'
        exact ⟨sb', hsb', by omega⟩
    · intro a a' he
      rcases hmb _ a a' he with ⟨hn, _⟩ | ⟨hn, _⟩ <;> omega
    · intro x hx htt y hy
      cases hx; subst htt; rw [hts] at hy; cases hy
      rcases hmove rfl with hin | ⟨h1, h2, f1, f2, f3⟩
      · exact Or.inl ⟨hin, rfl, rfl⟩
      · have := owner_adv hb hok hts hp h1 h2
        simpa [f1, f2, f3] using this
  cases heff with
  | advance _ hr hs hk1 hk2 hj hn =>
    refine simple _ _ none (frame_thr s t _) hb' (by intro m a a' he; cases he) ?_
    intro htt
    refine Or.inr ⟨rfl, rfl, ?_, ?_, ?_⟩
    · intro he
      rcases hr _ _ he with h0 | ⟨a, ha, hs0⟩
      · rw [ha0] at h0; cases h0
      · rw [ha0] at ha; cases ha; rw [hsb0] at hs0; cases hs0
    · intro he
      rcases hs _ (Or.inl he) with h0 | h0
      · rw [hspo] at h0; cases h0
      · rw [hb0] at h0; cases h0
    · intro he
      rcases hs _ (Or.inr he) with h0 | h0
      · rw [hspo] at h0; cases h0
      · rw [hb0] at h0; cases h0
  | outClosed => exact simple _ _ none (frame_thr s t _) hb' (by intro m a a' he; cases he) (fun _ => Or.inl (raise_inEpi _ _ _))
  | outKilled => exact simple _ _ none (frame_thr s t _) hb' (by intro m a a' he; cases he) (fun _ => Or.inl (raise_inEpi _ _ _))
  | fail => exact simple _ _ none (frame_thr s t _) hb' (by intro m a a' he; cases he) (fun _ => Or.inl (raise_inEpi _ _ _))
  | die e =>
    refine simple _ _ none (frame_thr s t _) hb' (by intro m a a' he; cases he) ?_
    intro htt; subst htt
    cases hin : ts.inEpi with
    | true => exact Or.inl rfl
    | false =>
      exfalso
      obtain ⟨pp, hpp⟩ := hb.bodySuf hok.thr hts hin
      exact hok.noDie (.die e) (by rw [hpp, hp]; simp) e rfl
  | dropEpi =>
    exact simple _ _ none (frame_thr s t _) hb' (by intro m a a' he; cases he)
      (fun _ => Or.inr ⟨rfl, rfl, by simp, by simp, by simp⟩)
  | setEpi ms =>
    exact simple _ _ none (frame_thr s t _) hb' (by intro m a a' he; cases he)
      (fun _ => Or.inr ⟨rfl, rfl, by simp, by simp, by simp⟩)
  | finish sv out _ =>
    have F := frame_thr { s with outcome := some out } t ts.advance
    exact simple _ _ none ⟨F.thr, F.mbs, (by intro m a a' he; cases he), F.lenT, F.lenM⟩ hb' (by intro m a a' he; cases he)
      (fun _ => Or.inr ⟨rfl, rfl, by simp, by simp, by simp⟩)
  | kill _ m own r _ hi =>
    have hnot : i ≠ .read L.mi L.si ∧ i ≠ .send L.mo ∧ i ≠ .close L.mo := by
      rcases hi with rfl | ⟨rfl, _⟩ <;> simp
    cases ha : s.mbs[m]? with
    | none =>
      rw [modMB_none s m _ ha] at hb' ⊢
      exact simple _ _ none (frame_thr s t _) hb' (by intro m a a' he; cases he) (fun _ => Or.inr ⟨rfl, rfl, hnot⟩)
    | some a =>
      refine simple _ _ _ (frame_both s t m _ _ a ha) hb' ?_ (fun _ => Or.inr ⟨rfl, rfl, hnot⟩)
      intro m0 a1 a2 he
      simp only [Option.some.injEq, Prod.mk.injEq] at he; obtain ⟨rfl, rfl, rfl⟩ := he
      exact Or.inl ⟨by simp, by simp⟩
  | readKilled m k a sb ha hs _ _ =>
    refine LinkInv.frame hb' hl hok (frame_both s t m _ _ a ha) 0 0 (Or.inl rfl) (Or.inl rfl) ?_ ?_ ?_ (fun _ => ⟨rfl, rfl⟩)
    · intro a1 a2 he sb' hsb'
      simp only [Option.some.injEq, Prod.mk.injEq] at he; obtain ⟨rfl, rfl, rfl⟩ := he
      rw [modSub_subs] at hsb'
      split at hsb'
      · rename_i hk; subst hk
        rw [hs] at hsb'; cases hsb'
        exact ⟨sb, hs, by simp⟩
      · exact ⟨sb', hsb', by omega⟩
    · intro a1 a2 he
      simp only [Option.some.injEq, Prod.mk.injEq] at he; obtain ⟨rfl, rfl, rfl⟩ := he
      simp [(modSub_fields _ _ _).1]
    · intro x hx _ y _; cases hx
      exact Or.inl ⟨raise_inEpi _ _ _, rfl, rfl⟩
  | readWait m k a sb ha hs _ _ _ _ =>
    refine LinkInv.frame hb' hl hok (frame_mb s t m _ a ha) 0 0 (Or.inl rfl) (Or.inl rfl) ?_ ?_ (by intro x hx; cases hx)
      (fun _ => ⟨rfl, rfl⟩)
    · intro a1 a2 he sb' hsb'
      simp only [Option.some.injEq, Prod.mk.injEq] at he; obtain ⟨rfl, rfl, rfl⟩ := he
      rw [modSub_subs] at hsb'
      split at hsb'
      · rename_i hk; subst hk
        rw [hs] at hsb'; cases hsb'
        exact ⟨sb, hs, by simp⟩
      · exact ⟨sb', hsb', by omega⟩
    · intro a1 a2 he
      simp only [Option.some.injEq, Prod.mk.injEq] at he; obtain ⟨rfl, rfl, rfl⟩ := he
      simp [(modSub_fields _ _ _).1]
  | readPop m k a sb ha hs hbuf =>
    refine LinkInv.frame hb' hl hok (frame_both s t m _ _ a ha) (if Instr.read m k = .read L.mi L.si then 1 else 0) 0
      ?_ (Or.inl rfl) ?_ ?_ ?_ ?_
    · split
      · rename_i he; cases he; exact Or.inr ⟨_, _, rfl⟩
      · exact Or.inl rfl
    · intro a1 a2 he sb' hsb'
      simp only [Option.some.injEq, Prod.mk.injEq] at he; obtain ⟨rfl, rfl, rfl⟩ := he
      rw [modSub_subs] at hsb'
      split at hsb'
      · rename_i hk; subst hk
        rw [hs] at hsb'; cases hsb'
        exact ⟨sb, hs, by simp; omega⟩
      · rename_i hk
        have : Instr.read L.mi k ≠ .read L.mi L.si := by intro he; cases he; exact hk rfl
        exact ⟨sb', hsb', by simp [this]⟩
    · intro a1 a2 he
      simp only [Option.some.injEq, Prod.mk.injEq] at he; obtain ⟨rfl, rfl, rfl⟩ := he
      simp [(modSub_fields _ _ _).1]
    · intro x hx htt y hy
      cases hx; subst htt; rw [hts] at hy; cases hy
      have := owner_adv hb hok hts hp (ts' := ts.advance) rfl rfl
      simpa using this
    · intro hno
      rcases hno with h0 | h0
      · cases h0
      · exact ⟨by simp [(hfree h0).1], rfl⟩
  | readTake m k a sb ha hs hb0' _ hlt =>
    refine LinkInv.frame hb' hl hok (frame_both s t m _ _ a ha) (if Instr.read m k = .read L.mi L.si then 1 else 0) 0
      ?_ (Or.inl rfl) ?_ ?_ ?_ ?_
    · split
      · rename_i he; cases he; exact Or.inr ⟨_, _, rfl⟩
      · exact Or.inl rfl
    · intro a1 a2 he sb' hsb'
      simp only [Option.some.injEq, Prod.mk.injEq] at he; obtain ⟨rfl, rfl, rfl⟩ := he
      rw [modSub_subs] at hsb'
      split at hsb'
      · rename_i hk; subst hk
        rw [hs] at hsb'; cases hsb'
        exact ⟨sb, hs, by simp; omega⟩
      · rename_i hk
        have : Instr.read L.mi k ≠ .read L.mi L.si := by intro he; cases he; exact hk rfl
        exact ⟨sb', hsb', by simp [this]⟩
    · intro a1 a2 he
      simp only [Option.some.injEq, Prod.mk.injEq] at he; obtain ⟨rfl, rfl, rfl⟩ := he
      simp [(modSub_fields _ _ _).1]
    · intro x hx htt y hy
      cases hx; subst htt; rw [hts] at hy; cases hy
      have := owner_adv hb hok hts hp (ts' := ts.advance) rfl rfl
      simpa using this
    · intro hno
      rcases hno with h0 | h0
      · cases h0
      · exact ⟨by simp [(hfree h0).1], rfl⟩
  | sendOk m sp a hsp ha _ _ _ =>
    refine LinkInv.frame hb' hl hok (frame_both s t m _ _ a ha) 0 (if Instr.send m = .send L.mo ∨ Instr.send m = .close L.mo then 1 else 0)
      (Or.inl rfl) ?_ ?_ ?_ ?_ ?_
    · split
      · rename_i he; rcases he with he | he <;> cases he; exact Or.inr ⟨_, _, rfl⟩
      · exact Or.inl rfl
    · intro a1 a2 he sb' hsb'
      simp only [Option.some.injEq, Prod.mk.injEq] at he; obtain ⟨rfl, rfl, rfl⟩ := he
      exact ⟨sb', hsb', by omega⟩
    · intro a1 a2 he
      simp only [Option.some.injEq, Prod.mk.injEq] at he; obtain ⟨rfl, rfl, rfl⟩ := he
      simp
    · intro x hx htt y hy
      cases hx; subst htt; rw [hts] at hy; cases hy
      have := owner_adv hb hok hts hp (ts' := ts.advance) rfl rfl
      simpa using this
    · intro hno
      rcases hno with h0 | h0
      · cases h0
      · exact ⟨rfl, by simp [(hfree h0).2.1]⟩
  | closeOk m sp a hsp ha _ _ _ =>
    refine LinkInv.frame hb' hl hok (frame_both s t m _ _ a ha) 0 (if Instr.close m = .send L.mo ∨ Instr.close m = .close L.mo then 1 else 0)
      (Or.inl rfl) ?_ ?_ ?_ ?_ ?_
    · split
      · rename_i he; rcases he with he | he <;> cases he; exact Or.inr ⟨_, _, rfl⟩
      · exact Or.inl rfl
    · intro a1 a2 he sb' hsb'
      simp only [Option.some.injEq, Prod.mk.injEq] at he; obtain ⟨rfl, rfl, rfl⟩ := he
      exact ⟨sb', hsb', by omega⟩
    · intro a1 a2 he
      simp only [Option.some.injEq, Prod.mk.injEq] at he; obtain ⟨rfl, rfl, rfl⟩ := he
      simp
    · intro x hx htt y hy
      cases hx; subst htt; rw [hts] at hy; cases hy
      have := owner_adv hb hok hts hp (ts' := ts.advance) rfl rfl
      simpa using this
    · intro hno
      rcases hno with h0 | h0
      · cases h0
      · exact ⟨rfl, by simp [(hfree h0).2.2]⟩

/-! ### reachable states -/

theorem init_thr {net : Net} {u : Nat} {ts : TSt} (h : (init net).thr[u]? = some ts) :
    ∃ th, net.threads[u]? = some th ∧ ts = { prog := th.body, epi := th.epi } := by
  simp only [init, List.getElem?_map, Option.map_eq_some_iff] at h
  obtain ⟨th, hth, rfl⟩ := h
  exact ⟨th, hth, rfl⟩

theorem init_mbs {net : Net} {m : Nat} {a : AMB} (h : (init net).mbs[m]? = some a) :
    ∃ sp, net.mbs[m]? = some sp ∧ a = { subs := sp.drive.map fun _ => {} } := by
  simp only [init, List.getElem?_map, Option.map_eq_some_iff] at h
  obtain ⟨sp, hsp, rfl⟩ := h
  exact ⟨sp, hsp, rfl⟩

theorem Base.init (net : Net) : Base net (init net) := by
  refine ⟨by simp [Net.init], by simp [Net.init], ?_, ?_⟩
  · intro u th ts hth hts
    obtain ⟨th', hth', rfl⟩ := init_thr hts
    rw [hth] at hth'; cases hth'
    exact ⟨Within.refl _, ⟨[], rfl⟩⟩
  · intro m sp a hsp ha
    obtain ⟨sp', hsp', rfl⟩ := init_mbs ha
    rw [hsp] at hsp'; cases hsp'
    refine ⟨by simp, by simp, ?_⟩
    intro i sb hs
    simp only [List.getElem?_map, Option.map_eq_some_iff] at hs
    obtain ⟨_, _, rfl⟩ := hs
    simp

theorem LinkInv.init {net : Net} {L : Link} {th : Thread} (hok : LinkOkP net L th) : LinkInv net (Net.init net) L := by
  intro th' ts a sb b hth hts ha hsb hbo
  obtain ⟨th2, hth2, rfl⟩ := init_thr hts
  rw [hth] at hth2; cases hth2
  obtain ⟨_, _, rfl⟩ := init_mbs ha
  obtain ⟨_, _, rfl⟩ := init_mbs hbo
  simp only [List.getElem?_map, Option.map_eq_some_iff] at hsb
  obtain ⟨_, _, rfl⟩ := hsb
  refine ⟨fun _ => by simp; omega, by simp, by simp⟩

theorem reach_inv {net : Net} {s : NState} (h : Reachable net s) :
    Base net s ∧ ∀ L, linkOk net L = true → LinkInv net s L := by
  induction h with
  | init =>
    refine ⟨Base.init net, ?_⟩
    intro L hL
    obtain ⟨th, hok⟩ := linkOk_spec hL
    exact LinkInv.init hok
  | step _ hs ih =>
    refine ⟨ih.1.step hs, ?_⟩
    intro L hL
    obtain ⟨th, hok⟩ := linkOk_spec hL
    exact (ih.2 L hL).step ih.1 hok hs

/-! ### telescoping along a path -/

theorem path_ahead {net : Net} {s : NState} (hb : Base net s) (hl : ∀ L, linkOk net L = true → LinkInv net s L) :
    ∀ (links : List Link) (m mk sk : Nat), pathOk net m links mk sk = true →
      ∀ a0 ak sbk, s.mbs[m]? = some a0 → s.mbs[mk]? = some ak → ak.subs[sk]? = some sbk →
        a0.nSent + 1 + sbk.buffered ≤ sbk.next + pathBound net m links ∧
        sbk.next ≤ a0.nSent + sbk.buffered + pathLagR links := by
  intro links
  induction links with
  | nil =>
    intro m mk sk hp a0 ak sbk ha0 hak hsbk
    simp only [pathOk, Bool.and_eq_true, decide_eq_true_eq] at hp
    obtain ⟨⟨rfl, hcap⟩, hsp⟩ := hp
    rw [ha0] at hak; cases hak
    split at hsp
    · rename_i sp hspm
      have hi := hb.mb m sp a0 hspm ha0
      have h1 := hi.backSub hsbk
      have h2 := hi.sub sk sbk hsbk
      have : capOf net m = sp.cap := by simp [capOf, hspm]
      simp only [pathBound, pathLagR]
      omega
    · simp at hsp
  | cons L r ih =>
    intro m mk sk hp a0 ak sbk ha0 hak hsbk
    simp only [pathOk, Bool.and_eq_true, decide_eq_true_eq] at hp
    obtain ⟨⟨⟨rfl, hL⟩, hcap⟩, hrest⟩ := hp
    obtain ⟨th, hok⟩ := linkOk_spec hL
    obtain ⟨a, sb, b, spo, ha, hsb, hbo, _⟩ := hok.exists hb
    rw [ha0] at ha; cases ha
    obtain ⟨spi, hspi, _⟩ := hok.exI
    have hi := hb.mb L.mi spi a0 hspi ha0
    have h1 := hi.backSub hsb
    have h2 := hi.sub L.si sb hsb
    obtain ⟨ts, hts⟩ : ∃ ts, s.thr[L.t]? = some ts := by
      have : L.t < s.thr.length := by rw [hb.lenT]; exact (List.getElem?_eq_some_iff.mp hok.thr).1
      exact ⟨s.thr[L.t], List.getElem?_eq_getElem this⟩
    obtain ⟨_, h3, h3r⟩ := hl L hL th ts a0 sb b hok.thr hts ha0 hsb hbo
    obtain ⟨ih1, ih2⟩ := ih L.mo mk sk hrest b ak sbk hbo hak hsbk
    have : capOf net L.mi = spi.cap := by simp [capOf, hspi]
    simp only [pathBound, pathLagR]
    constructor <;> omega

/-! ### the consumer paused: its subscription does not move -/

theorem sub_frozen {net : Net} {s s' : NState} {c mk sk u : Nat} (hb : Base net s) (hs : soleReader net c mk sk = true)
    (hu : u ≠ c) (h : step net s u = some s') {ak' : AMB} {sb' : ASub} (hak' : s'.mbs[mk]? = some ak') (hsb' : ak'.subs[sk]? = some sb') :
    ∃ ak sb, s.mbs[mk]? = some ak ∧ ak.subs[sk]? = some sb ∧ sb.next = sb'.next ∧ sb.buffered = sb'.buffered := by
  obtain ⟨ts, i, rest, hts, hp, heff⟩ := step_cases h
  -- the head instruction is not a read of (mk, sk)
  have hhead : i ≠ .read mk sk := by
    have hlt : u < net.threads.length := by rw [← hb.lenT]; exact (List.getElem?_eq_some_iff.mp hts).1
    have htu : net.threads[u]? = some net.threads[u] := List.getElem?_eq_getElem hlt
    simp only [soleReader, List.all_eq_true, List.mem_range, Bool.or_eq_true, beq_iff_eq] at hs
    have := hs u hlt
    rcases this with h0 | h0
    · exact absurd h0 hu
    · simp only [htu, Bool.and_eq_true, decide_eq_true_eq] at h0
      have hz : cntRead mk sk ts.prog = 0 := by
        have := (hb.cnt htu hts mk sk).2.1; omega
      rw [hp, cntRead_cons] at hz
      intro he; simp [he] at hz
  -- whatever the step did to mailbox mk, subscriber sk kept `next` and `buffered`
  have same : ∀ (f : AMB → AMB) (m : Nat) (ts1 : Option TSt), (s' = (s.modMB m f) ∨ ∃ x, s' = (s.modMB m f).setThr u x) →
      (∀ a, (f a).subs[sk]? = a.subs[sk]? ∨ m ≠ mk ∨
        ∃ sb, a.subs[sk]? = some sb ∧ ∃ sb1, (f a).subs[sk]? = some sb1 ∧ sb1.next = sb.next ∧ sb1.buffered = sb.buffered) →
      ∃ ak sb, s.mbs[mk]? = some ak ∧ ak.subs[sk]? = some sb ∧ sb.next = sb'.next ∧ sb.buffered = sb'.buffered := by
    intro f m _ hshape hf
    have hmbs : s'.mbs[mk]? = (s.modMB m f).mbs[mk]? := by
      rcases hshape with rfl | ⟨x, rfl⟩ <;> simp
    rw [hmbs, modMB_mbs] at hak'
    split at hak'
    · rename_i hm; subst hm
      cases hold : s.mbs[m]? with
      | none => rw [hold] at hak'; simp at hak'
      | some a =>
        rw [hold] at hak'; simp at hak'; subst hak'
        rcases hf a with h0 | h0 | ⟨sb, hsb, sb1, hsb1, e1, e2⟩
        · exact ⟨a, sb', rfl, by rw [← h0]; exact hsb', rfl, rfl⟩
        · exact absurd rfl h0
        · rw [hsb'] at hsb1; cases hsb1
          exact ⟨a, sb, rfl, hsb, e1.symm, e2.symm⟩
    · exact ⟨ak', sb', hak', hsb', rfl, rfl⟩
  have thrOnly : ∀ x, s' = s.setThr u x → ∃ ak sb, s.mbs[mk]? = some ak ∧ ak.subs[sk]? = some sb ∧ sb.next = sb'.next ∧ sb.buffered = sb'.buffered := by
    intro x hx; subst hx
    exact ⟨ak', sb', by simpa using hak', hsb', rfl, rfl⟩
  have subCase : ∀ (m k : Nat) (g : AMB → ASub → ASub), (∀ a sb, (g a sb).next = sb.next ∧ (g a sb).buffered = sb.buffered) ∨ (m, k) ≠ (mk, sk) →
      ∀ a, ((fun a : AMB => a.modSub k (g a)) a).subs[sk]? = a.subs[sk]? ∨ m ≠ mk ∨
        ∃ sb, a.subs[sk]? = some sb ∧ ∃ sb1, ((fun a : AMB => a.modSub k (g a)) a).subs[sk]? = some sb1 ∧ sb1.next = sb.next ∧ sb1.buffered = sb.buffered := by
    intro m k g hg a
    simp only [modSub_subs]
    by_cases hk : k = sk
    · subst hk
      by_cases hm : m = mk
      · subst hm
        rcases hg with hg | hg
        · cases hsb : a.subs[k]? with
          | none => left; simp [hsb]
          | some sb => right; right; exact ⟨sb, rfl, g a sb, by simp, (hg a sb).1, (hg a sb).2⟩
        · exact absurd rfl hg
      · right; left; exact hm
    · left; simp [hk]
  cases heff with
  | advance => exact thrOnly _ rfl
  | outClosed => exact thrOnly _ rfl
  | outKilled => exact thrOnly _ rfl
  | fail => exact thrOnly _ rfl
  | die => exact thrOnly _ rfl
  | dropEpi => exact thrOnly _ rfl
  | setEpi => exact thrOnly _ rfl
  | finish sv out _ => exact ⟨ak', sb', by simpa using hak', hsb', rfl, rfl⟩
  | kill _ m own r _ _ => exact same _ m none (Or.inr ⟨_, rfl⟩) (fun a => Or.inl (by simp))
  | sendOk m sp a _ _ _ _ _ => exact same _ m none (Or.inr ⟨_, rfl⟩) (fun a => Or.inl rfl)
  | closeOk m sp a _ _ _ _ _ => exact same _ m none (Or.inr ⟨_, rfl⟩) (fun a => Or.inl rfl)
  | readPop m k a sb _ _ _ =>
    exact same _ m none (Or.inr ⟨_, rfl⟩) (subCase m k (fun _ sb => { sb with buffered := sb.buffered - 1 }) (Or.inr (by intro he; cases he; exact hhead rfl)))
  | readTake m k a sb _ _ _ _ _ =>
    exact same _ m none (Or.inr ⟨_, rfl⟩) (subCase m k (fun a sb => { sb with buffered := a.nSent - sb.next - 1, next := a.nSent, waiting := none })
      (Or.inr (by intro he; cases he; exact hhead rfl)))
  | readKilled m k a sb _ _ _ _ =>
    exact same _ m none (Or.inr ⟨_, rfl⟩) (subCase m k (fun _ sb => { sb with waiting := none }) (Or.inl (fun _ sb => ⟨rfl, rfl⟩)))
  | readWait m k a sb _ _ _ _ _ _ =>
    exact same _ m none (Or.inl rfl) (subCase m k (fun _ sb => { sb with waiting := some sb.next }) (Or.inl (fun _ sb => ⟨rfl, rfl⟩)))

theorem path_exists {net : Net} {s : NState} (hb : Base net s) :
    ∀ (links : List Link) (m mk sk : Nat), pathOk net m links mk sk = true →
      ∃ a0 ak sbk, s.mbs[m]? = some a0 ∧ s.mbs[mk]? = some ak ∧ ak.subs[sk]? = some sbk := by
  intro links
  induction links with
  | nil =>
    intro m mk sk hp
    simp only [pathOk, Bool.and_eq_true, decide_eq_true_eq] at hp
    obtain ⟨⟨rfl, _⟩, hsp⟩ := hp
    split at hsp
    · rename_i sp hspm
      have hm : m < s.mbs.length := by rw [hb.lenM]; exact (List.getElem?_eq_some_iff.mp hspm).1
      have ha : s.mbs[m]? = some s.mbs[m] := List.getElem?_eq_getElem hm
      have hlen := (hb.mb m sp _ hspm ha).subsLen
      have hsk : sk < (s.mbs[m]).subs.length := by rw [hlen]; simpa using hsp
      exact ⟨_, _, _, ha, ha, List.getElem?_eq_getElem hsk⟩
    · simp at hsp
  | cons L r ih =>
    intro m mk sk hp
    simp only [pathOk, Bool.and_eq_true, decide_eq_true_eq] at hp
    obtain ⟨⟨⟨rfl, hL⟩, _⟩, hrest⟩ := hp
    obtain ⟨th, hok⟩ := linkOk_spec hL
    obtain ⟨a, _, _, _, ha, _⟩ := hok.exists hb
    obtain ⟨_, ak, sbk, _, hak, hsbk⟩ := ih L.mo mk sk hrest
    exact ⟨a, ak, sbk, ha, hak, hsbk⟩

theorem reachable_run {net : Net} {s s' : NState} (h : Reachable net s) :
    ∀ (σ : List Nat), run? net s σ = some s' → Reachable net s' := by
  intro σ
  induction σ generalizing s with
  | nil => intro hr; simp [run?] at hr; subst hr; exact h
  | cons t ts ih =>
    intro hr
    simp only [run?] at hr
    cases hs : step net s t with
    | none => simp [hs] at hr
    | some s1 => simp only [hs] at hr; exact ih (h.step hs) hr

theorem delivered_frozen {net : Net} {c mk sk : Nat} (hs : soleReader net c mk sk = true) {s s' : NState} (h : Reachable net s) :
    ∀ (σ : List Nat), (∀ u ∈ σ, u ≠ c) → run? net s σ = some s' →
      (∃ ak sb, s.mbs[mk]? = some ak ∧ ak.subs[sk]? = some sb) → delivered s' mk sk = delivered s mk sk := by
  intro σ
  induction σ generalizing s with
  | nil => intro _ hr _; simp [run?] at hr; subst hr; rfl
  | cons t ts ih =>
    intro hσ hr hex
    simp only [run?] at hr
    cases hst : step net s t with
    | none => simp [hst] at hr
    | some s1 =>
      simp only [hst] at hr
      have hb := (reach_inv h).1
      have hb1 := hb.step hst
      -- the subscription exists in s1 as well
      obtain ⟨ak, sb, hak, hsb⟩ := hex
      have hlen1 : s1.mbs.length = s.mbs.length := by rw [hb1.lenM, hb.lenM]
      have hmk : mk < s1.mbs.length := by rw [hlen1]; exact (List.getElem?_eq_some_iff.mp hak).1
      have hak1 : s1.mbs[mk]? = some s1.mbs[mk] := List.getElem?_eq_getElem hmk
      have hspk : mk < net.mbs.length := by rw [← hb.lenM]; exact (List.getElem?_eq_some_iff.mp hak).1
      have hsp : net.mbs[mk]? = some net.mbs[mk] := List.getElem?_eq_getElem hspk
      have hl0 := (hb.mb mk _ ak hsp hak).subsLen
      have hl1 := (hb1.mb mk _ _ hsp hak1).subsLen
      have hsk : sk < (s1.mbs[mk]).subs.length := by rw [hl1, ← hl0]; exact (List.getElem?_eq_some_iff.mp hsb).1
      have hsb1 : (s1.mbs[mk]).subs[sk]? = some ((s1.mbs[mk]).subs[sk]) := List.getElem?_eq_getElem hsk
      obtain ⟨ak0, sb0, hak0, hsb0, e1, e2⟩ := sub_frozen hb hs (hσ t (by simp)) hst hak1 hsb1
      have step1 : delivered s1 mk sk = delivered s mk sk := by
        simp only [delivered, hak1, hsb1, hak0, hsb0, e1, e2]
      rw [ih (h.step hst) (fun u hu => hσ u (by simp [hu])) hr ⟨_, _, hak1, hsb1⟩, step1]

/-! ## the lazy fetch gate, any net -/

structure SenderOkP (net : Net) (t m : Nat) (th : Thread) : Prop where
  thr : net.threads[t]? = some th
  start : armed m th.body = false
  gate : ∀ pre r, th.body = pre ++ (.gate m :: r) → armed m r = true
  out : ∀ pre i r, th.body = pre ++ (i :: r) → (i = .send m ∨ i = .close m) → armed m r = false
  other : ∀ u tu, u ≠ t → net.threads[u]? = some tu → cntOut m tu.body = 0 ∧ cntOut m tu.epi = 0

theorem senderOk_spec {net : Net} {t m : Nat} (h : senderOk net t m = true) : ∃ th, SenderOkP net t m th := by
  unfold senderOk at h
  split at h
  · simp at h
  · rename_i th hth
    simp only [Bool.and_eq_true, Bool.not_eq_true', List.all_eq_true, Bool.or_eq_true, beq_iff_eq, List.mem_range,
      decide_eq_true_eq] at h
    obtain ⟨⟨hst, htl⟩, hoth⟩ := h
    refine ⟨th, hth, hst, ?_, ?_, ?_⟩
    · intro pre r hb
      have := htl (.gate m :: r) (by rw [hb]; exact mem_tails_of_append pre _)
      simp only [Bool.and_eq_true, Bool.or_eq_true, Bool.not_eq_true', beq_iff_eq] at this
      rcases this.1 with h0 | h0
      · simp at h0
      · exact h0
    · intro pre i r hb hi
      have := htl (i :: r) (by rw [hb]; exact mem_tails_of_append pre _)
      simp only [Bool.and_eq_true, Bool.or_eq_true, Bool.not_eq_true', beq_iff_eq, Bool.or_eq_false_iff] at this
      rcases this.2 with h0 | h0
      · rcases hi with rfl | rfl <;> simp at h0
      · exact h0
    · intro u tu hu htu
      have hlt : u < net.threads.length := (List.getElem?_eq_some_iff.mp htu).1
      rcases hoth u hlt with h0 | h0
      · exact absurd h0 hu
      · simpa [htu] using h0

/-- the gate invariant: an armed sender (past its gate, message not sent yet) of a mailbox that is not killed has a
driving subscriber that waits for exactly the message that comes next -/
def GateInv (net : Net) (s : NState) (t m : Nat) : Prop :=
  ∀ (ts : TSt) (sp : MBSpec) (a : AMB), s.thr[t]? = some ts → net.mbs[m]? = some sp → s.mbs[m]? = some a →
    ts.inEpi = false → armed m ts.prog = true → a.killed = false →
    ∃ (i : Nat) (sb : ASub), sp.drive[i]? = some true ∧ a.subs[i]? = some sb ∧ sb.waiting = some sb.next ∧ sb.next = a.nSent

theorem armed_cons (m : Nat) (i : Instr) (r : List Instr) :
    armed m (i :: r) = if outRel m i then (i == .send m || i == .close m) else armed m r := by
  by_cases h : outRel m i = true
  · simp only [armed, nextOut, h, if_true]
    simp only [outRel, Bool.or_eq_true, beq_iff_eq] at h
    rcases h with (rfl | rfl) | rfl <;> simp
  · simp only [armed, nextOut, h, if_false]; simp

/-- `canFetch` of a mailbox that is not killed: some driving subscriber waits at the top -/
theorem canFetch_top {sp : MBSpec} {a : AMB} (hi : MbInv sp a) (hk : a.killed = false) (hc : canFetch sp a = true) :
    ∃ (i : Nat) (sb : ASub), sp.drive[i]? = some true ∧ a.subs[i]? = some sb ∧ sb.waiting = some sb.next ∧ sb.next = a.nSent := by
  simp only [canFetch, hk, Bool.false_eq_true, if_false] at hc
  split at hc
  · simp at hc
  · rename_i hst
    simp only [List.any_eq_true, Bool.and_eq_true] at hc
    obtain ⟨⟨sb, d⟩, hmem, hd, hw⟩ := hc
    obtain ⟨i, hi1⟩ := List.mem_iff_getElem?.mp hmem
    rw [List.getElem?_zip_eq_some] at hi1
    obtain ⟨hsb, hdr⟩ := hi1
    simp only at hd
    subst hd
    obtain ⟨x, hx⟩ := Option.isSome_iff_exists.mp hw
    obtain ⟨h1, _, h3⟩ := hi.sub i sb hsb
    obtain ⟨hx1, _⟩ := h3 x hx
    subst hx1
    refine ⟨i, sb, hdr, hsb, hx, ?_⟩
    -- not stale: nobody waits for a number below nSent
    have hns : ¬ sb.next < a.nSent := by
      intro hlt
      apply hst
      simp only [List.any_eq_true]
      exact ⟨sb, List.mem_of_getElem? hsb, by rw [hx]; exact decide_eq_true hlt⟩
    omega

/-- a step after which an armed sender was armed before, that leaves `n_sent` of `m` alone and does not touch a
subscriber of `m` that waits at the top -/
theorem GateInv.keep {net : Net} {s s' : NState} {u t m : Nat} {ots : Option TSt} {omb : Option (Nat × AMB × AMB)}
    (hg : GateInv net s t m) (hf : Frame s s' u ots omb)
    (hT : ∀ ts', s'.thr[t]? = some ts' → ∃ ts, s.thr[t]? = some ts ∧
      (ts'.inEpi = false → armed m ts'.prog = true → ts.inEpi = false ∧ armed m ts.prog = true))
    (hM : ∀ a a', omb = some (m, a, a') → a'.killed = false → a.killed = false ∧ a'.nSent = a.nSent ∧
      ∀ (i : Nat) (sb : ASub), a.subs[i]? = some sb → sb.waiting = some sb.next → sb.next = a.nSent → a'.subs[i]? = some sb) :
    GateInv net s' t m := by
  intro ts' sp a' hts' hsp ha' hin harm hk
  obtain ⟨ts, hts, himp⟩ := hT ts' hts'
  obtain ⟨hin0, harm0⟩ := himp hin harm
  rcases hf.mbLookup ha' with ⟨a, ho, ha⟩ | ⟨_, ha⟩
  · obtain ⟨hk0, hns, hsub⟩ := hM a a' ho hk
    obtain ⟨i, sb, hd, hsb, hw, hn⟩ := hg ts sp a hts hsp ha hin0 harm0 hk0
    exact ⟨i, sb, hd, hsub i sb hsb hw hn, hw, by rw [hns]; exact hn⟩
  · exact hg ts sp a' hts hsp ha hin0 harm0 hk

theorem step_gate {net : Net} {s s' : NState} {u m : Nat} {ts : TSt} {rest : List Instr} {sp : MBSpec} {a : AMB}
    (hts : s.thr[u]? = some ts) (hp : ts.prog = .gate m :: rest) (hsp : net.mbs[m]? = some sp) (ha : s.mbs[m]? = some a)
    (h : step net s u = some s') : canFetch sp a = true ∧ s' = s.setThr u ts.advance := by
  unfold step at h
  simp only [hts, hp, hsp, ha] at h
  split at h
  · rename_i hc; simp only [Option.some.injEq] at h; exact ⟨hc, h.symm⟩
  · simp at h

theorem modSub_killed (a : AMB) (k : Nat) (f : ASub → ASub) : (a.modSub k f).killed = a.killed := (modSub_fields a k f).2.2.1
theorem modSub_nSent (a : AMB) (k : Nat) (f : ASub → ASub) : (a.modSub k f).nSent = a.nSent := (modSub_fields a k f).1
theorem kill_killed (a : AMB) (r : Exc) : (a.kill r).killed = true := by
  unfold AMB.kill; split
  · rename_i h; exact h
  · rfl

theorem GateInv.step {net : Net} {s s' : NState} {u t m : Nat} {th : Thread} (hb : Base net s) (hok : SenderOkP net t m th)
    (hg : GateInv net s t m) (h : step net s u = some s') : GateInv net s' t m := by
  obtain ⟨ts, i, rest, hts, hp, heff⟩ := step_cases h
  -- the thread that moves, as a thread of the net
  have hlt : u < net.threads.length := by rw [← hb.lenT]; exact (List.getElem?_eq_some_iff.mp hts).1
  have htu : net.threads[u]? = some net.threads[u] := List.getElem?_eq_getElem hlt
  -- only `t` sends into `m`
  have notOut : (i = .send m ∨ i = .close m) → u = t := by
    intro hi
    have hcnt : 1 ≤ cntOut m ts.prog := by rw [hp, cntOut_cons]; simp [hi]
    apply Classical.byContradiction
    intro hut
    obtain ⟨o1, o2⟩ := hok.other u _ hut htu
    have := (hb.cnt htu hts m 0).2.2
    omega
  -- thread t in the new state when another thread moved / when t itself moved to `ts'`
  have thrOther : u ≠ t → ∀ ts', s'.thr[t]? = some ts' → s'.thr.length = s.thr.length → (∀ v, v ≠ u → s'.thr[v]? = s.thr[v]?) →
      ∃ ts0, s.thr[t]? = some ts0 ∧ (ts'.inEpi = false → armed m ts'.prog = true → ts0.inEpi = false ∧ armed m ts0.prog = true) := by
    intro hut ts' hts' _ hsame
    rw [hsame t (Ne.symm hut)] at hts'
    exact ⟨ts', hts', fun a b => ⟨a, b⟩⟩
  -- generic finish: the moving thread's new state `ts1`, the mailbox update described by `hM`
  have gen : ∀ (ots : Option TSt) (omb : Option (Nat × AMB × AMB)), Frame s s' u ots omb →
      (∀ ts1, ots = some ts1 → u = t → ts1.inEpi = true ∨ armed m ts1.prog = false ∨
        (ts1.inEpi = ts.inEpi ∧ armed m ts1.prog = armed m ts.prog)) →
      (∀ a a', omb = some (m, a, a') → a'.killed = false → a.killed = false ∧ a'.nSent = a.nSent ∧
        ∀ (k : Nat) (sb : ASub), a.subs[k]? = some sb → sb.waiting = some sb.next → sb.next = a.nSent → a'.subs[k]? = some sb) →
      GateInv net s' t m := by
    intro ots omb hf hthr hM
    apply hg.keep hf _ hM
    intro ts' hts'
    rcases hf.thrLookup hts' with ⟨hots, hut, _⟩ | ⟨_, hold⟩
    · subst hut
      refine ⟨ts, hts, ?_⟩
      intro hin harm
      rcases hthr ts' hots rfl with h0 | h0 | ⟨h1, h2⟩
      · rw [h0] at hin; cases hin
      · rw [h0] at harm; cases harm
      · exact ⟨by rw [← h1]; exact hin, by rw [← h2]; exact harm⟩
    · exact ⟨ts', hold, fun a b => ⟨a, b⟩⟩
  -- a read of subscriber k of mailbox m0 with update g: what `hM` needs, given that the effect's side condition `hside`
  -- is incompatible with "waits at the top"
  have readM : ∀ (m0 k : Nat) (a : AMB) (sb : ASub) (g : AMB → ASub → ASub), s.mbs[m0]? = some a → a.subs[k]? = some sb →
      (sb.waiting = some sb.next → sb.next = a.nSent → False) →
      ∀ a1 a2, (some (m0, a, a.modSub k (g a)) : Option (Nat × AMB × AMB)) = some (m, a1, a2) → a2.killed = false →
        a1.killed = false ∧ a2.nSent = a1.nSent ∧
        ∀ (k' : Nat) (sb' : ASub), a1.subs[k']? = some sb' → sb'.waiting = some sb'.next → sb'.next = a1.nSent → a2.subs[k']? = some sb' := by
    intro m0 k a sb g ha hs hside a1 a2 he hk2
    simp only [Option.some.injEq, Prod.mk.injEq] at he
    obtain ⟨rfl, rfl, rfl⟩ := he
    refine ⟨by rw [← modSub_killed a k (g a)]; exact hk2, modSub_nSent _ _ _, ?_⟩
    intro k' sb' hsb' hw hn
    rw [modSub_subs]
    split
    · rename_i hk; subst hk
      rw [hs] at hsb'; cases hsb'
      exact absurd hn (fun h0 => hside hw h0)
    · exact hsb'
  by_cases hrel : outRel m i = true
  · -- the instruction concerns the output side of m
    simp only [outRel, Bool.or_eq_true, beq_iff_eq] at hrel
    intro ts' sp a' hts' hsp ha' hin harm hk
    by_cases hut : u = t
    · subst hut
      rcases hrel with (rfl | rfl) | rfl
      · -- the gate of m opens
        have hlenM : s'.mbs.length = s.mbs.length := by rw [(hb.step h).lenM, hb.lenM]
        obtain ⟨a, ha⟩ : ∃ a, s.mbs[m]? = some a := by
          have : m < s.mbs.length := by rw [← hlenM]; exact (List.getElem?_eq_some_iff.mp ha').1
          exact ⟨_, List.getElem?_eq_getElem this⟩
        obtain ⟨hc, rfl⟩ := step_gate hts hp hsp ha h
        simp only [setThr_mbs] at ha'
        rw [ha] at ha'; cases ha'
        exact canFetch_top (hb.mb m sp _ hsp ha) hk hc
      all_goals
        -- a send / close by the sender itself: afterwards it is not armed (or it is in its epilogue)
        exfalso
        have key : ts'.inEpi = true ∨ (ts'.inEpi = ts.inEpi ∧ ts'.prog = ts.prog.tail) := by
          cases heff
          all_goals first
            | (rw [setThr_thr_self s u _ ts hts] at hts'; cases hts'
               first
                 | exact Or.inr ⟨rfl, rfl⟩
                 | exact Or.inl (raise_inEpi _ _ _))
            | (rw [setThr_thr_self _ u _ ts (by simpa using hts)] at hts'; cases hts'; exact Or.inr ⟨rfl, rfl⟩)
            | (rename_i hi; rcases hi with h0 | ⟨h0, _⟩ <;> cases h0)
        rcases key with h0 | ⟨h1, h2⟩
        · rw [h0] at hin; cases hin
        · rw [h1] at hin
          rw [hok.thr] at htu; cases htu
          obtain ⟨pp, hpp⟩ := hb.bodySuf hok.thr hts hin
          rw [hp] at hpp
          have := hok.out pp _ rest hpp (by first | exact Or.inl rfl | exact Or.inr rfl)
          rw [h2, hp] at harm
          simp only [List.tail_cons] at harm
          rw [this] at harm; cases harm
    · -- another thread: it cannot send into m; a `gate m` in another thread changes nothing
      rcases hrel with (rfl | rfl) | rfl
      · cases heff with
        | advance =>
          rw [setThr_thr_ne s u t _ hut] at hts'
          simp only [setThr_mbs] at ha'
          exact hg ts' sp a' hts' hsp ha' hin harm hk
        | kill _ _ _ _ _ hi => rcases hi with h0 | ⟨h0, _⟩ <;> cases h0
        | outClosed _ _ _ hi => rcases hi with h0 | h0 <;> cases h0
        | outKilled _ _ _ hi => rcases hi with h0 | h0 <;> cases h0
      · exact absurd (notOut (Or.inl rfl)) hut
      · exact absurd (notOut (Or.inr rfl)) hut
  · -- an instruction that does not concern the output side of m
    have hrel' : outRel m i = false := by simpa using hrel
    have harmEq : armed m ts.prog.tail = armed m ts.prog := by rw [hp, List.tail_cons, armed_cons, hrel']; simp
    have advOK : ∀ e, ∀ ts1, some ({ ts.advance with epi := e } : TSt) = some ts1 → u = t → ts1.inEpi = true ∨ armed m ts1.prog = false ∨
        (ts1.inEpi = ts.inEpi ∧ armed m ts1.prog = armed m ts.prog) := by
      intro e ts1 h1 _; cases h1; exact Or.inr (Or.inr ⟨rfl, harmEq⟩)
    have raiseOK : ∀ o e, ∀ ts1, some (ts.raise o e) = some ts1 → u = t → ts1.inEpi = true ∨ armed m ts1.prog = false ∨
        (ts1.inEpi = ts.inEpi ∧ armed m ts1.prog = armed m ts.prog) := by
      intro o e ts1 h1 _; cases h1; exact Or.inl (raise_inEpi _ _ _)
    have noMb : ∀ a a', (none : Option (Nat × AMB × AMB)) = some (m, a, a') → a'.killed = false → a.killed = false ∧ a'.nSent = a.nSent ∧
        ∀ (k : Nat) (sb : ASub), a.subs[k]? = some sb → sb.waiting = some sb.next → sb.next = a.nSent → a'.subs[k]? = some sb := by
      intro a a' he; cases he
    cases heff with
    | advance => exact gen _ none (frame_thr s u _) (advOK ts.epi) noMb
    | outClosed => exact gen _ none (frame_thr s u _) (raiseOK _ _) noMb
    | outKilled => exact gen _ none (frame_thr s u _) (raiseOK _ _) noMb
    | fail => exact gen _ none (frame_thr s u _) (raiseOK _ _) noMb
    | die e =>
      refine gen _ none (frame_thr s u _) ?_ noMb
      intro ts1 h1 _; cases h1; exact Or.inr (Or.inl rfl)
    | dropEpi => exact gen _ none (frame_thr s u _) (advOK []) noMb
    | setEpi ms => exact gen _ none (frame_thr s u _) (advOK _) noMb
    | finish sv out _ =>
      have F := frame_thr { s with outcome := some out } u ts.advance
      exact gen (some ts.advance) none ⟨F.thr, F.mbs, (by intro m a a' he; cases he), F.lenT, F.lenM⟩ (advOK ts.epi) noMb
    | kill _ m0 own r _ _ =>
      cases ha : s.mbs[m0]? with
      | none =>
        have e := modMB_none s m0 (fun a => a.kill r) ha
        exact gen (some ts.advance) none (by rw [e]; exact frame_thr s u _) (advOK ts.epi) noMb
      | some a =>
        refine gen _ _ (frame_both s u m0 _ _ a ha) (advOK ts.epi) ?_
        intro a1 a2 he hk2
        simp only [Option.some.injEq, Prod.mk.injEq] at he; obtain ⟨rfl, rfl, rfl⟩ := he
        rw [kill_killed] at hk2; cases hk2
    | sendOk m0 sp0 a _ ha _ _ _ =>
      have hne : m0 ≠ m := by intro he; subst he; simp [outRel] at hrel'
      refine gen _ _ (frame_both s u m0 _ _ a ha) (advOK ts.epi) ?_
      intro a1 a2 he; simp only [Option.some.injEq, Prod.mk.injEq] at he; exact absurd he.1 hne
    | closeOk m0 sp0 a _ ha _ _ _ =>
      have hne : m0 ≠ m := by intro he; subst he; simp [outRel] at hrel'
      refine gen _ _ (frame_both s u m0 _ _ a ha) (advOK ts.epi) ?_
      intro a1 a2 he; simp only [Option.some.injEq, Prod.mk.injEq] at he; exact absurd he.1 hne
    | readPop m0 k a sb ha hs hbuf =>
      refine gen _ _ (frame_both s u m0 _ (fun a => a.modSub k fun sb => { sb with buffered := sb.buffered - 1 }) a ha) (advOK ts.epi) ?_
      have hW := fun sp hsp => ((hb.mb m0 sp a hsp ha).sub k sb hs).2.2
      refine readM m0 k a sb (fun _ sb => { sb with buffered := sb.buffered - 1 }) ha hs ?_
      intro hw _
      have hlt0 : m0 < net.mbs.length := by rw [← hb.lenM]; exact (List.getElem?_eq_some_iff.mp ha).1
      have := (hW _ (List.getElem?_eq_getElem hlt0) _ hw).2
      omega
    | readTake m0 k a sb ha hs _ _ hlt0 =>
      refine gen _ _ (frame_both s u m0 _ (fun a => a.modSub k fun sb =>
        { sb with buffered := a.nSent - sb.next - 1, next := a.nSent, waiting := none }) a ha) (advOK ts.epi) ?_
      refine readM m0 k a sb (fun a sb => { sb with buffered := a.nSent - sb.next - 1, next := a.nSent, waiting := none }) ha hs ?_
      intro _ hn; omega
    | readKilled m0 k a sb ha hs _ hkk =>
      refine gen _ _ (frame_both s u m0 _ (fun a => a.modSub k fun sb => { sb with waiting := none }) a ha) (raiseOK _ _) ?_
      intro a1 a2 he hk2
      simp only [Option.some.injEq, Prod.mk.injEq] at he; obtain ⟨rfl, rfl, rfl⟩ := he
      rw [modSub_killed, hkk] at hk2; cases hk2
    | readWait m0 k a sb ha hs _ _ _ hwn =>
      refine gen none _ (frame_mb s u m0 (fun a => a.modSub k fun sb => { sb with waiting := some sb.next }) a ha)
        (by intro ts1 h1; cases h1) ?_
      refine readM m0 k a sb (fun _ sb => { sb with waiting := some sb.next }) ha hs ?_
      intro hw _; rw [hwn] at hw; cases hw

theorem GateInv.init {net : Net} {t m : Nat} {th : Thread} (hok : SenderOkP net t m th) : GateInv net (Net.init net) t m := by
  intro ts sp a hts _ _ _ harm _
  obtain ⟨th', hth', rfl⟩ := init_thr hts
  rw [hok.thr] at hth'; cases hth'
  rw [hok.start] at harm; cases harm

theorem reach_gate {net : Net} {s : NState} (h : Reachable net s) {t m : Nat} (hok : senderOk net t m = true) :
    GateInv net s t m := by
  obtain ⟨th, hp⟩ := senderOk_spec hok
  induction h with
  | init => exact GateInv.init hp
  | step hr hs ih => exact ih.step (reach_inv hr).1 hp hs

end Strax.NetBP
