import StraxModel.Lemmas.SuperrunLevel
/-
  Property C14, part 4: `continuity_check` accepts the output of the first superrun level — across subrun borders,
  with or without a time gap between the subruns.
-/
namespace Strax.Superrun
open Strax

/-- state of `continuity_check` after a chunk that ended at `p` (`none`: before the first chunk) -/
def ContInv (sup : String) : Option Int → ContState → Prop
  | none, st => st.lastEnd = none ∧ st.lastRun = none ∧ st.lastSubrun = some none
  | some p, st => st.lastEnd = some p ∧ st.lastRun = some (some sup) ∧ ∃ r : Run, st.lastSubrun = some (some r) ∧ r.stop = p

theorem outChunk_isSuperrun {lv : Level} {sup rid : String} {p : Int} {c : Chunk} (hsupid : isSuperId sup = true) :
    (outChunk lv sup rid p c).isSuperrun = true := by
  simpa [outChunk, Chunk.isSuperrun, isSuperId] using hsupid

theorem contStep_super {o : Chunk} {sup : String} {f l : Run} {st : ContState} (hsr : o.isSuperrun = true)
    (hrun : o.runId = some sup) (hf : o.firstSubrun = some f) (hl : o.lastSubrun = some l)
    (hinv : (st.lastEnd = none ∧ st.lastRun = none ∧ st.lastSubrun = some none) ∨
      (st.lastEnd = some o.start ∧ st.lastRun = some (some sup) ∧ ∃ r : Run, st.lastSubrun = some (some r) ∧ r.stop = o.start)) :
    contStep st o = .ok { lastEnd := some o.stop, lastRun := some (some sup), lastSubrun := some (some l) } := by
  unfold contStep
  rw [Chunk.not_bad_of_runId hrun]
  simp only [Bool.false_eq_true, if_false]
  unfold contStepCore
  rcases hinv with ⟨h1, h2, h3⟩ | ⟨h1, h2, r, h3, h4⟩
  · simp [hsr, hrun, hf, hl, h1, h2, h3, bind, Except.bind, pure, Except.pure]
  · by_cases hid : f.id = r.id
    · simp [hsr, hrun, hf, hl, h1, h2, h3, h4, hid, bind, Except.bind, pure, Except.pure]
    · simp [hsr, hrun, hf, hl, h1, h2, h3, h4, hid, bind, Except.bind, pure, Except.pure]

theorem contStep_out {lv : Level} {sup rid : String} {c : Chunk} {prev : Option Int} {st : ContState}
    (hsupid : isSuperId sup = true) (hinv : ContInv sup prev st) :
    ∃ st', contStep st (outChunk lv sup rid (prev.getD c.start) c) = .ok st' ∧ ContInv sup (some c.stop) st' := by
  have hsr := outChunk_isSuperrun (lv := lv) (rid := rid) (p := prev.getD c.start) (c := c) hsupid
  have hfirst : (outChunk lv sup rid (prev.getD c.start) c).firstSubrun = some ⟨rid, c.start, c.stop⟩ := by
    simp [Chunk.firstSubrun, hsr]; simp [outChunk]
  have hlast : (outChunk lv sup rid (prev.getD c.start) c).lastSubrun = some ⟨rid, c.start, c.stop⟩ := by
    simp [Chunk.lastSubrun, hsr]; simp [outChunk]
  refine ⟨{ lastEnd := some c.stop, lastRun := some (some sup), lastSubrun := some (some ⟨rid, c.start, c.stop⟩) }, ?_,
    rfl, rfl, ⟨_, rfl, rfl⟩⟩
  refine contStep_super hsr rfl hfirst hlast ?_
  cases prev with
  | none => exact Or.inl hinv
  | some p => exact Or.inr hinv

theorem foldlM_contStep_expected {lv : Level} {sup : String} (hsupid : isSuperId sup = true) :
    ∀ (cs : List Chunk) (prev : Option Int) (st : ContState), ContInv sup prev st →
      ∃ st', (expected lv sup prev cs).foldlM contStep st = .ok st'
  | [], _, st, _ => ⟨st, rfl⟩
  | c :: cs, prev, st, hinv => by
    obtain ⟨st1, h1, hinv1⟩ := contStep_out (lv := lv) (rid := ridOf c) (c := c) hsupid hinv
    obtain ⟨st2, h2⟩ := foldlM_contStep_expected hsupid cs (some c.stop) st1 hinv1
    refine ⟨st2, ?_⟩
    simp only [expected, List.foldlM_cons, h1, bind, Except.bind]
    exact h2

/-- `continuity_check` accepts the output of the first superrun level, whatever the layouts of the subruns and
the gaps between them -/
theorem continuity_expected (lv : Level) (sup : String) (hsupid : isSuperId sup = true) (cs : List Chunk) :
    Superrun.continuityCheck (expected lv sup none cs) = .ok () := by
  obtain ⟨st', h⟩ := foldlM_contStep_expected (lv := lv) hsupid cs none {} ⟨rfl, rfl, rfl⟩
  unfold Superrun.continuityCheck
  rw [h]; rfl

/-! ## 13. witness of the gap defect (open finding C14a) -/

/-- the chunk the first superrun level makes at a subrun border with a time gap: the previous subrun ended at 20,
subrun `b` covers `[30, 40)` -/
def gapChunk : Chunk := ⟨"d", "k", some "_s", 20, 40, [], some [⟨"b", 30, 40⟩], [⟨"_s", 20, 40⟩], 1⟩

theorem gapChunk_eq : gapChunk = outChunk ⟨"d", true, false, 1⟩ "_s" "b" 20
    ⟨"s", "k", some "b", 30, 40, [], none, [⟨"b", 30, 40⟩], 1⟩ := rfl

theorem gapChunk_not_promised : gapChunk.promisedContinuity = false := by
  simp [gapChunk, Chunk.promisedContinuity, Chunk.isSuperrun]

theorem gapChunk_split :
    gapChunk.split 35 true = .ok
      (⟨"d", "k", some "_s", 20, 35, [], some [⟨"b", 30, 40⟩], [⟨"_s", 20, 35⟩], 1⟩,
       ⟨"d", "k", some "_s", 35, 40, [], some [⟨"b", 30, 40⟩], [⟨"_s", 35, 40⟩], 1⟩) := by
  rw [Chunk.split_eq (Chunk.not_bad_of_runId (rid := "_s") rfl)]
  have hv : splitData gapChunk 35 true = .ok ([], [], 35) := by
    have : max (min (35:Int) 40) 20 = 35 := by decide
    simp [splitData, gapChunk, splitArray, this]
  have hss : splitSub gapChunk 35 = (some [⟨"b", 30, 40⟩], some [⟨"b", 30, 40⟩]) := by
    unfold splitSub; rw [gapChunk_not_promised]; rfl
  have hsr : splitRuns (some gapChunk.superrun) 35 = (some [⟨"_s", 20, 35⟩], some [⟨"_s", 35, 40⟩]) := by
    simp [splitRuns, splitRunsList, popEmpty, gapChunk]
  have hr1 : splitRun1 gapChunk 35 = some "_s" := by
    unfold splitRun1; simp only [hsr]; simp [runSingle, gapChunk]
  have hr2 : splitRun2 gapChunk 35 = some "_s" := by
    unfold splitRun2; simp only [hsr]; simp [runSingle, gapChunk]
  simp only [hv, bind, Except.bind, hr1, hr2, hss, hsr]
  have e1 : gapChunk.dataType = "d" := rfl
  have e2 : gapChunk.kind = "k" := rfl
  have e3 : gapChunk.start = 20 := rfl
  have e4 : gapChunk.stop = 40 := rfl
  have e5 : gapChunk.target = 1 := rfl
  simp only [e1, e2, e3, e4, e5]
  have m1 : max (20:Int) 35 = 35 := by decide
  have m2 : max (35:Int) 40 = 40 := by decide
  simp only [m1, m2]
  rw [mkChunk_ok_gen (by decide) (by decide) (by intro x hx; simp at hx)
    (by intro y hy; cases hy; exact ⟨sortRuns_singleton _, by simp [runsOverlap]⟩)
    (by simp) (by simp) (sortRuns_singleton _) (by simp [runsOverlap])]
  simp only
  rw [mkChunk_ok_gen (by decide) (by decide) (by intro x hx; simp at hx)
    (by intro y hy; cases hy; exact ⟨sortRuns_singleton _, by simp [runsOverlap]⟩)
    (by simp) (by simp) (sortRuns_singleton _) (by simp [runsOverlap])]
  rfl

end Strax.Superrun
