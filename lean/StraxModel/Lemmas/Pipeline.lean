import StraxModel.Model.Pipeline
import StraxModel.Lemmas.ChunkAlgSplit
/-
  Helper lemmas for property C01 (theory T3 "Stream"), part 1: environments, `mapE`, and the
  composition theorem `exec_rel` (induction over the topological order).  Core Lean only.
-/
namespace Strax.Pipeline
open Strax

/-! ### `mapE`, `lookup` -/

theorem mapE_ok_cons {α β : Type} {f : α → Except Err β} {a : α} {as : List α} {r : List β}
    (h : mapE f (a :: as) = .ok r) : ∃ b bs, f a = .ok b ∧ mapE f as = .ok bs ∧ r = b :: bs := by
  unfold mapE at h
  cases hf : f a with
  | error e => rw [hf] at h; cases h
  | ok b =>
    rw [hf] at h
    cases hm : mapE f as with
    | error e => rw [hm] at h; cases h
    | ok bs =>
      rw [hm] at h
      cases h
      exact ⟨b, bs, rfl, rfl, rfl⟩

theorem mapE_length {α β : Type} {f : α → Except Err β} {as : List α} {r : List β}
    (h : mapE f as = .ok r) : r.length = as.length := by
  induction as generalizing r with
  | nil => unfold mapE at h; cases h; rfl
  | cons a as ih =>
    obtain ⟨b, bs, -, hm, rfl⟩ := mapE_ok_cons h
    simp [ih hm]

/-- two lists related pointwise (core has no `Forall₂`) -/
inductive All2 {α β : Type} (P : α → β → Prop) : List α → List β → Prop
  | nil : All2 P [] []
  | cons {a b as bs} : P a b → All2 P as bs → All2 P (a :: as) (b :: bs)

theorem All2.imp {α β : Type} {P Q : α → β → Prop} {l : List α} {l' : List β}
    (hpq : ∀ a b, P a b → Q a b) (h : All2 P l l') : All2 Q l l' := by
  induction h with
  | nil => exact .nil
  | cons hab _ ih => exact .cons (hpq _ _ hab) ih

/-- if `f` succeeds pointwise with a result related by `P`, so does `mapE` -/
theorem mapE_rel {α β γ : Type} {f : α → Except Err β} {g : α → Except Err γ} {P : β → γ → Prop}
    {as : List α} {r : List β}
    (hfg : ∀ a ∈ as, ∀ b, f a = .ok b → ∃ c, g a = .ok c ∧ P b c)
    (h : mapE f as = .ok r) : ∃ r', mapE g as = .ok r' ∧ All2 P r r' := by
  induction as generalizing r with
  | nil => unfold mapE at h; cases h; exact ⟨[], by simp [mapE], .nil⟩
  | cons a as ih =>
    obtain ⟨b, bs, hf, hm, rfl⟩ := mapE_ok_cons h
    obtain ⟨c, hg, hp⟩ := hfg a (by simp) b hf
    obtain ⟨r', hm', hall⟩ := ih (fun a ha => hfg a (by simp [ha])) hm
    refine ⟨c :: r', ?_, .cons hp hall⟩
    simp [mapE, hg, hm']

theorem mapE_total {α β : Type} {f : α → Except Err β} {as : List α}
    (hf : ∀ a ∈ as, ∃ b, f a = .ok b) : ∃ r, mapE f as = .ok r := by
  induction as with
  | nil => exact ⟨[], by simp [mapE]⟩
  | cons a as ih =>
    obtain ⟨b, hb⟩ := hf a (by simp)
    obtain ⟨r, hr⟩ := ih (fun a ha => hf a (by simp [ha]))
    exact ⟨b :: r, by simp [mapE, hb, hr]⟩

theorem lookup_append {β : Type} (d : String) (l1 l2 : List (String × β)) :
    lookup d (l1 ++ l2) = match lookup d l1 with
      | some v => some v
      | none => lookup d l2 := by
  induction l1 with
  | nil => simp [lookup]
  | cons p l ih =>
    obtain ⟨k, v⟩ := p
    simp only [List.cons_append, lookup]
    split <;> simp_all

theorem lookup_mem {β : Type} {d : String} {l : List (String × β)} {v : β}
    (h : lookup d l = some v) : (d, v) ∈ l := by
  induction l with
  | nil => simp [lookup] at h
  | cons p l ih =>
    obtain ⟨k, w⟩ := p
    simp only [lookup] at h
    split at h
    · cases h; subst_vars; simp
    · simp [ih h]

theorem lookup_map {β γ : Type} (f : β → γ) (d : String) (l : List (String × β)) :
    lookup d (l.map fun p => (p.1, f p.2)) = (lookup d l).map f := by
  induction l with
  | nil => simp [lookup]
  | cons p l ih =>
    obtain ⟨k, v⟩ := p
    simp only [List.map_cons, lookup]
    split <;> simp_all

theorem lookup_wenvOf (d : String) (env : Env) : lookup d (wenvOf env) = (lookup d env).map rows := by
  unfold wenvOf; exact lookup_map rows d env

theorem lookup_isSome_of_mem {β : Type} {d : String} {l : List (String × β)}
    (h : d ∈ l.map (·.1)) : ∃ v, lookup d l = some v := by
  induction l with
  | nil => simp at h
  | cons p l ih =>
    obtain ⟨k, w⟩ := p
    simp only [lookup]
    by_cases hk : k = d
    · exact ⟨w, by simp [hk]⟩
    · simp only [List.map_cons, List.mem_cons] at h
      rcases h with h | h
      · exact absurd h.symm hk
      · obtain ⟨v, hv⟩ := ih h
        exact ⟨v, by simp [hk, hv]⟩

/-! ### `Forall₂` helpers -/

theorem forall₂_eq_map {α β : Type} {f : α → β} {l : List α} {l' : List β}
    (h : All2 (fun a b => f a = b) l l') : l.map f = l' := by
  induction h with
  | nil => rfl
  | cons hab _ ih => simp [hab, ih]

/-! ### stored outputs -/

theorem override_rows {stored : List (String × List Chunk)} {R : Int × Int} :
    ∀ {ds : List String} {outs : List (List Chunk)} {wouts : List (List Row)},
      outs.length = ds.length → outs.map rows = wouts → StreamsOK R outs → StoredAt stored R ds wouts →
      (override stored ds outs).map rows = wouts ∧ StreamsOK R (override stored ds outs) ∧
        (override stored ds outs).length = ds.length
  | [], [], wouts, _, hr, _, _ => by
    simp at hr; subst hr; simp [override, StreamsOK]
  | [], _ :: _, _, hl, _, _, _ => by simp at hl
  | _ :: _, [], _, hl, _, _, _ => by simp at hl
  | d :: ds, o :: os, wouts, hl, hr, hok, hst => by
    cases wouts with
    | nil => simp at hr
    | cons r rs =>
      simp only [List.map_cons, List.cons.injEq] at hr
      obtain ⟨hr1, hr2⟩ := hr
      simp only [StoredAt] at hst
      obtain ⟨hs1, hs2⟩ := hst
      have hok1 : LawAbiding o ∧ span o = some R := hok o (by simp)
      have hok2 : StreamsOK R os := fun s hs => hok s (by simp [hs])
      have hl2 : os.length = ds.length := by simpa using hl
      obtain ⟨ih1, ih2, ih3⟩ := override_rows (stored := stored) hl2 hr2 hok2 hs2
      simp only [override]
      cases hlk : lookup d stored with
      | none =>
        refine ⟨by simp [hr1, ih1], ?_, by simp [ih3]⟩
        intro s hs
        simp only [List.mem_cons] at hs
        rcases hs with rfl | hs
        · exact hok1
        · exact ih2 s hs
      | some s0 =>
        obtain ⟨h1, h2, h3⟩ := hs1 s0 hlk
        refine ⟨by simp [h3, ih1], ?_, by simp [ih3]⟩
        intro s hs
        simp only [List.mem_cons] at hs
        rcases hs with rfl | hs
        · exact ⟨h1, h2⟩
        · exact ih2 s hs

/-! ### the invariant of `exec` -/

theorem wenvOf_append (e1 e2 : Env) : wenvOf (e1 ++ e2) = wenvOf e1 ++ wenvOf e2 := by
  simp [wenvOf]

theorem wenvOf_zip (ds : List String) (outs : List (List Chunk)) :
    wenvOf (ds.zip outs) = ds.zip (outs.map rows) := by
  induction ds generalizing outs with
  | nil => simp [wenvOf]
  | cons d ds ih =>
    cases outs with
    | nil => simp [wenvOf]
    | cons o os =>
      have := ih os
      simp only [wenvOf] at this ⊢
      simp [this]

theorem envOK_append {R : Int × Int} {e1 e2 : Env} (h1 : EnvOK R e1) (h2 : EnvOK R e2) : EnvOK R (e1 ++ e2) := by
  intro p hp
  simp only [List.mem_append] at hp
  rcases hp with hp | hp
  · exact h1 p hp
  · exact h2 p hp

theorem envOK_zip {R : Int × Int} {ds : List String} {outs : List (List Chunk)} (h : StreamsOK R outs) :
    EnvOK R (ds.zip outs) := by
  intro p hp
  exact h p.2 (List.of_mem_zip hp).2

theorem envOKB_iff (R : Int × Int) (env : Env) : envOKB R env = true ↔ EnvOK R env := by
  simp [envOKB, EnvOK, LawAbiding]

/-- the dependencies as fetched by the real run and as looked up by the whole-run computation -/
theorem fetch_rel {plan : Plan} {R : Int × Int} {env : Env} (henv : EnvOK R env) (consumer : String)
    {ds : List String} {ins : List (List Chunk)} (h : mapE (fetchDep plan consumer env) ds = .ok ins) :
    mapE (lookupW (wenvOf env)) ds = .ok (ins.map rows) ∧ StreamsOK R ins := by
  have key : ∃ r', mapE (lookupW (wenvOf env)) ds = .ok r' ∧
      All2 (fun (s : List Chunk) (r : List Row) => rows s = r ∧ LawAbiding s ∧ span s = some R) ins r' := by
    refine mapE_rel (fun d _ s hs => ?_) h
    unfold fetchDep at hs
    cases hl : lookup d env with
    | none => rw [hl] at hs; cases hs
    | some s0 =>
      rw [hl] at hs
      have hmem := lookup_mem hl
      obtain ⟨hlaw, hspan⟩ := henv (d, s0) hmem
      refine ⟨rows s0, ?_, ?_, (plan.edge consumer d).law hlaw hs, ?_⟩
      · simp [lookupW, lookup_wenvOf, hl]
      · exact (plan.edge consumer d).content hlaw hs
      · rw [(plan.edge consumer d).range hlaw hs]; exact hspan
  obtain ⟨r', hm, hall⟩ := key
  constructor
  · have : ins.map rows = r' := forall₂_eq_map (hall.imp fun _ _ h => h.1)
    rw [this]; exact hm
  · intro s hs
    clear hm h
    induction hall with
    | nil => simp at hs
    | cons hab _ ih =>
      simp only [List.mem_cons] at hs
      rcases hs with rfl | hs
      · exact hab.2
      · exact ih hs

/-- node level: the aligner's layer theorem composed with the kernel's homomorphism -/
theorem node_hom {n : Node} (hk : ChunkHom n.kernel) (hn : n.kernel.nIn = n.deps.length) (hd : n.deps ≠ [])
    {R : Int × Int} {ins outs : List (List Chunk)} (hl : ins.length = n.deps.length) (hin : StreamsOK R ins)
    (h : n.step ins = .ok outs) :
    outs.length = n.kernel.nOut ∧ StreamsOK R outs ∧ outs.map rows = n.kernel.whole (ins.map rows) := by
  unfold Node.step at h
  cases ha : n.aligner.run ins with
  | error e => rw [ha] at h; cases h
  | ok al =>
    rw [ha] at h
    have hne : ins ≠ [] := by
      intro h0; subst h0
      simp at hl
      exact hd (List.length_eq_zero_iff.mp hl.symm)
    obtain ⟨hal, hrows⟩ := n.aligner.spec hne hin ha
    have hlen : al.length = n.kernel.nIn := by
      have : (al.map rows).length = (ins.map rows).length := by rw [hrows]
      simp at this
      omega
    obtain ⟨h1, h2, h3⟩ := hk R al outs hlen hal h
    exact ⟨h1, h2, by rw [h3, hrows]⟩

/-- one step of `exec` keeps the invariant and follows `whole` -/
theorem execNode_rel {plan : Plan} {R : Int × Int} {n : Node} {env env' : Env}
    (hk : ChunkHom n.kernel) (hn : n.kernel.nIn = n.deps.length) (hd : n.deps ≠ [])
    (henv : EnvOK R env) (h : execNode plan n env = .ok env') :
    ∃ wouts, wholeNode n (wenvOf env) = .ok wouts ∧
      (StoredAt plan.stored R n.provides wouts →
        wenvOf env' = wenvOf env ++ n.provides.zip wouts ∧ EnvOK R env') := by
  unfold execNode at h
  cases hm : mapE (fetchDep plan n.name env) n.deps with
  | error e => rw [hm] at h; cases h
  | ok ins =>
    simp only [hm] at h
    cases hs : n.step ins with
    | error e => simp only [hs] at h; cases h
    | ok outs =>
      simp only [hs] at h
      split at h
      · rename_i hlen
        cases h
        obtain ⟨hw, hin⟩ := fetch_rel henv n.name hm
        have hl : ins.length = n.deps.length := mapE_length hm
        obtain ⟨h1, h2, h3⟩ := node_hom hk hn hd hl hin hs
        have hwl : (n.kernel.whole (ins.map rows)).length = n.provides.length := by
          rw [← h3]; simpa using hlen
        refine ⟨n.kernel.whole (ins.map rows), by simp [wholeNode, hw, hwl], fun hst => ?_⟩
        obtain ⟨o1, o2, -⟩ := override_rows hlen h3 h2 hst
        constructor
        · rw [wenvOf_append, wenvOf_zip, o1]
        · exact envOK_append henv (envOK_zip o2)
      · cases h

/-- **composition**: induction over the topological order -/
theorem exec_rel {plan : Plan} {R : Int × Int} :
    ∀ {g : Graph} {env env' : Env},
      (∀ n ∈ g, ChunkHom n.kernel ∧ n.kernel.nIn = n.deps.length ∧ n.deps ≠ []) →
      EnvOK R env → StoredOK plan.stored R g (wenvOf env) → exec plan g env = .ok env' →
      whole g (wenvOf env) = .ok (wenvOf env') ∧ EnvOK R env'
  | [], env, env', _, henv, _, h => by
    simp only [exec] at h
    cases h
    exact ⟨rfl, henv⟩
  | n :: g, env, env', hg, henv, hst, h => by
    simp only [exec] at h
    cases hn : execNode plan n env with
    | error e => rw [hn] at h; cases h
    | ok env1 =>
      rw [hn] at h
      obtain ⟨hk, hni, hd⟩ := hg n (by simp)
      obtain ⟨wouts, hw, hrel⟩ := execNode_rel hk hni hd henv hn
      simp only [StoredOK, hw] at hst
      obtain ⟨hw1, henv1⟩ := hrel hst.1
      have hst2 : StoredOK plan.stored R g (wenvOf env1) := by rw [hw1]; exact hst.2
      obtain ⟨ih1, ih2⟩ := exec_rel (fun m hm => hg m (by simp [hm])) henv1 hst2 h
      refine ⟨?_, ih2⟩
      simp only [whole, hw]
      rw [← hw1]; exact ih1

end Strax.Pipeline
