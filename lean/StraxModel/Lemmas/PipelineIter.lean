import StraxModel.Lemmas.PipelineVocab
import StraxModel.Props.C08
import StraxModel.Props.C09
/-
  Helper lemmas for property C01, part 7: `Plugin.iter` (the model `Align.iterRun` of C08) IS an aligner
  of the stream theory on the inputs C08's theorems speak about (`validInputsB`: plain law-abiding
  streams of one run; `StartAt T0`; `endAtB T1`: all end at `T1`, none with a trailing zero-duration
  chunk — that exclusion is D16).  Uses C08 `calls_tile_run` and `rows_inside_call_dep`.
  Core Lean only.
-/
namespace Strax.Pipeline
open Strax

/-- the domain of C08's theorems, as one decidable guard -/
def iterGuardB (rid : String) (T0 T1 : Int) (deps : List Align.Dep) (ins : List (List Chunk)) : Bool :=
  (ins.length == deps.length) && Align.validInputsB rid ins && Align.startAtB T0 ins && Align.endAtB T1 ins

/-- `Plugin.iter` on the inputs of run `rid` covering `[T0, T1)` -/
def iterAlignerG (rid : String) (T0 T1 : Int) (deps : List Align.Dep) (strict : Bool)
    (ins : List (List Chunk)) : Except Err (List (List Chunk)) :=
  if iterGuardB rid T0 T1 deps ins then iterAligner deps strict ins else .error .other

theorem endOf_eq_lastStop : ∀ (c : Chunk) (l : List Chunk), Align.endOf c l = lastStop c.stop l
  | _, [] => rfl
  | _, d :: l => by simp only [Align.endOf, lastStop]; exact endOf_eq_lastStop d l

theorem sorted_of_flatMap {α : Type} (f : α → List Row) :
    ∀ (l : List α), SortedByTime (l.flatMap f) → ∀ c ∈ l, SortedByTime (f c)
  | [], _, c, hc => by simp at hc
  | a :: l, h, c, hc => by
    rw [List.flatMap_cons] at h
    simp only [List.mem_cons] at hc
    rcases hc with rfl | hc
    · exact h.append_left
    · exact sorted_of_flatMap f l h.append_right c hc

theorem rows_callStream (deps : List Align.Dep) (rid' : String) (tgts : List Nat) (i : Nat) (calls : List Align.Call) :
    rows (calls.map (callChunk deps rid' tgts i)) = calls.flatMap fun c => c.rowsOf i := by
  induction calls with
  | nil => rfl
  | cons c cs ih => simp only [List.map_cons, rows_cons, List.flatMap_cons, ih]; rfl

theorem bounds_callStream (deps : List Align.Dep) (rid' : String) (tgts : List Nat) (i : Nat) (calls : List Align.Call) :
    bounds (calls.map (callChunk deps rid' tgts i)) = calls.map fun c => (c.start, c.stop) := by
  simp [bounds, callChunk]

theorem adjacent_callStream (deps : List Align.Dep) (rid' : String) (tgts : List Nat) (i : Nat) :
    ∀ (T : Int) (calls : List Align.Call), Align.adjacentFrom T calls →
      adjacentB (calls.map (callChunk deps rid' tgts i)) = true ∧
        lastStop T (calls.map (callChunk deps rid' tgts i)) = Align.lastStop T calls ∧
        ∀ c cs, calls = c :: cs → c.start = T
  | _, [], _ => ⟨rfl, rfl, fun _ _ h => by cases h⟩
  | T, [c], h => ⟨rfl, rfl, fun _ _ e => by cases e; exact h.1⟩
  | T, c :: d :: cs, h => by
    obtain ⟨h1, h2⟩ := h
    obtain ⟨i1, i2, i3⟩ := adjacent_callStream deps rid' tgts i c.stop (d :: cs) h2
    refine ⟨?_, ?_, fun _ _ e => by cases e; exact h1⟩
    · simp only [List.map_cons, adjacentB, Bool.and_eq_true, decide_eq_true_eq] at i1 ⊢
      exact ⟨by simp [callChunk, i3 d cs rfl], i1⟩
    · simp only [List.map_cons, lastStop, Align.lastStop] at i2 ⊢
      exact i2

/-- **`Plugin.iter` is an aligner** on C08's domain: for plain law-abiding inputs of one run that start
at `T0` and end at `T1` (no trailing zero-duration chunk), whatever `iterRun` returns is an aligned
law-abiding partition of the same rows. -/
theorem iterAlignerG_spec (rid : String) (T0 T1 : Int) (deps : List Align.Dep) (strict : Bool) :
    ∀ (R : Int × Int) (ins out : List (List Chunk)), ins ≠ [] → StreamsOK R ins →
      iterAlignerG rid T0 T1 deps strict ins = .ok out → Aligned R out ∧ out.map rows = ins.map rows := by
  intro R ins out hne hok h
  unfold iterAlignerG at h
  split at h
  · rename_i hg
    simp only [iterGuardB, Bool.and_eq_true, beq_iff_eq] at hg
    obtain ⟨⟨⟨hlen, hv⟩, hT⟩, he⟩ := hg
    unfold iterAligner at h
    cases hr : Align.iterRun deps ins strict with
    | error e => simp [hr] at h
    | ok r =>
      simp only [hr, Except.ok.injEq] at h
      subst h
      generalize ridOf ins = rid'
      generalize targetsOf ins = tgts
      obtain ⟨hcne, hadj, hse, hlast, hrows⟩ := C08.calls_tile_run hlen hv hT he hr
      have hins := C08.rows_inside_call_dep hv hT hr
      -- the run range
      have hR : R = (T0, T1) := by
        obtain ⟨s, rest, rfl⟩ := List.exists_cons_of_ne_nil hne
        obtain ⟨-, hsp⟩ := hok s (by simp)
        have hT' : Align.startAtB T0 (s :: rest) = true := hT
        simp only [Align.startAtB, Align.endAtB, List.all_cons, Bool.and_eq_true] at hT' he
        cases s with
        | nil => simp at hT'
        | cons c l =>
          simp only [decide_eq_true_eq, Bool.and_eq_true] at hT' he
          simp only [span, Option.some.injEq] at hsp
          rw [← hsp, hT'.1, ← endOf_eq_lastStop, he.1.1]
      subst hR
      -- every dependency's input stream is sorted
      have hsorted : ∀ (i : Nat) cs, ins[i]? = some cs → SortedByTime (r.calls.flatMap fun c => c.rowsOf i) := by
        intro i cs hi
        rw [hrows i cs hi]
        exact (hok cs (List.mem_of_getElem? hi)).1.rows_sorted
      -- one stream per dependency
      have hstream : ∀ i, i < deps.length →
          LawAbiding (r.calls.map (callChunk deps rid' tgts i)) ∧ span (r.calls.map (callChunk deps rid' tgts i)) = some (T0, T1) := by
        intro i hi
        have hi' : i < ins.length := by omega
        have hget : ins[i]? = some ins[i] := List.getElem?_eq_getElem hi'
        obtain ⟨a1, a2, a3⟩ := adjacent_callStream deps rid' tgts i T0 r.calls hadj
        constructor
        · apply lawAbiding_of _ a1
          intro ch hch
          simp only [List.mem_map] at hch
          obtain ⟨c, hc, rfl⟩ := hch
          refine (chunkOKB_iff _).2 ⟨hse c hc, fun row hrow => hins c hc i row hrow, ?_⟩
          exact sorted_of_flatMap (fun c => c.rowsOf i) r.calls (hsorted i _ hget) c hc
        · obtain ⟨c, cs, hcs⟩ := List.exists_cons_of_ne_nil hcne
          rw [hcs] at a2 a3 hlast ⊢
          simp only [List.map_cons, span, Option.some.injEq, Prod.mk.injEq]
          simp only [List.map_cons, lastStop, Align.lastStop] at a2 hlast
          exact ⟨by simp [callChunk, a3 c cs rfl], by simp only [callChunk] at a2 ⊢; rw [a2, hlast]⟩
      unfold streamsOfCalls
      refine ⟨⟨?_, ?_⟩, ?_⟩
      · intro s hs
        simp only [List.mem_map, List.mem_range] at hs
        obtain ⟨i, hi, rfl⟩ := hs
        exact hstream i hi
      · intro s hs t ht
        simp only [List.mem_map, List.mem_range] at hs ht
        obtain ⟨i, -, rfl⟩ := hs
        obtain ⟨j, -, rfl⟩ := ht
        rw [bounds_callStream, bounds_callStream]
      · apply List.ext_getElem
        · simp [hlen]
        · intro i h1 h2
          simp only [List.getElem_map, List.getElem_range]
          rw [rows_callStream]
          have hi' : i < ins.length := by simpa using h2
          exact hrows i ins[i] (List.getElem?_eq_getElem hi')
  · cases h

/-- `Plugin.iter` as an `Aligner` (C08) -/
def Aligner.iter (rid : String) (T0 T1 : Int) (deps : List Align.Dep) (strict : Bool) : Aligner :=
  Aligner.ofSpec (iterAlignerG rid T0 T1 deps strict) (iterAlignerG_spec rid T0 T1 deps strict)

/-! ### plain streams out of `Plugin.iter` and a row-wise kernel -/

/-- a uniformly annotated chunk: no sub-runs, default super-run entry of run `rid`, data type `dt`, target ≥ 1 -/
def uniformB (rid dt : String) (c : Chunk) : Bool :=
  c.subruns.isNone && (c.runId == some rid) && (c.superrun == [⟨rid, c.start, c.stop⟩]) && (c.dataType == dt) &&
    decide (1 ≤ c.target)

/-- a stream that obeys the laws of chunking here, starts at a non-negative time and is uniformly annotated is a
plain stream in C07's sense (the converse of `lawAbiding_of_c07`) -/
theorem c07_of_law {rid dt : String} : ∀ {s : List Chunk}, LawAbiding s → (∀ c ∈ s, 0 ≤ c.start) →
    (∀ c ∈ s, uniformB rid dt c = true) → Strax.LawAbiding s = true
  | [], _, _, _ => rfl
  | c :: rest, hl, h0, hu => by
    have hgood : c.good = true := by
      obtain ⟨h1, h2, h3⟩ := (chunkOKB_iff c).1 hl.head
      have hcu := hu c (by simp)
      simp only [uniformB, Bool.and_eq_true, beq_iff_eq, decide_eq_true_eq, Option.isNone_iff_eq_none] at hcu
      simp only [Chunk.good, Bool.and_eq_true]
      refine ⟨(Chunk.wf_iff c).2 ⟨h0 c (by simp), h1, h3, fun r hr => (h2 r hr).2.1, fun r hr => ⟨(h2 r hr).1, (h2 r hr).2.2⟩⟩, ?_⟩
      exact (Chunk.simple_iff c).2 ⟨hcu.1.1.1.1, rid, hcu.1.1.1.2, hcu.1.1.2⟩
    rw [Strax.lawAbiding_cons]
    refine ⟨hgood, ?_, c07_of_law hl.tail (fun x hx => h0 x (by simp [hx])) (fun x hx => hu x (by simp [hx]))⟩
    intro b hb
    cases rest with
    | nil => simp at hb
    | cons d rest' =>
      simp only [List.head?_cons, Option.some.injEq] at hb
      subst hb
      have hadj := ((lawAbiding_cons_cons c d rest').1 hl).2.1
      have hc := hu c (by simp)
      have hd := hu d (by simp)
      simp only [uniformB, Bool.and_eq_true, beq_iff_eq, decide_eq_true_eq] at hc hd
      exact ⟨hadj, by rw [hc.1.2, hd.1.2], by rw [hc.1.1.1.2, hd.1.1.1.2]⟩

theorem plain_of_law {rid dt : String} {s : List Chunk} (hl : LawAbiding s) (h0 : ∀ c ∈ s, 0 ≤ c.start)
    (hu : ∀ c ∈ s, uniformB rid dt c = true) : plainStreamB s = true := by
  simp only [plainStreamB, Bool.and_eq_true, List.all_eq_true, decide_eq_true_eq]
  refine ⟨c07_of_law hl h0 hu, ?_⟩
  intro c hc
  have := hu c hc
  simp only [uniformB, Bool.and_eq_true, decide_eq_true_eq] at this
  exact this.2

/-- all chunks of a law-abiding stream start at or after the start of the first -/
theorem LawAbiding.starts_ge : ∀ {s : List Chunk} {R : Int × Int}, LawAbiding s → span s = some R → ∀ c ∈ s, R.1 ≤ c.start
  | [], _, _, hs, _, _ => by simp [span] at hs
  | x :: rest, R, hl, hs, c, hc => by
    simp only [span, Option.some.injEq] at hs
    subst hs
    simp only [List.mem_cons] at hc
    rcases hc with rfl | hc
    · exact Int.le_refl _
    · have := hl.after.2.1 c hc
      have := ((chunkOKB_iff x).1 hl.head).1
      simp only; omega

/-- **totality of a two-dependency row-wise node behind `Plugin.iter`** (PARTIAL: dependencies of different kinds and
`passesSufficeB`, i.e. outside D9).  On plain inputs of run `rid` inside the guard, the node succeeds and its output
is again a plain stream (so that a rechunking edge or another `Plugin.iter` can follow). -/
theorem iter_first_step_total_partial (rid : String) (T0 T1 : Int) (deps : List Align.Dep) (strict : Bool)
    (g : Row → Option Row) (out : String) (hgi : IntervalPreserving g) (n : Node)
    (hna : n.aligner = Aligner.iter rid T0 T1 deps strict)
    (hnk : n.kernel = restamp [(out, none)] (firstKernel g out))
    (a b : List Chunk) (hg : iterGuardB rid T0 T1 deps [a, b] = true)
    (hpa : plainStreamB a = true) (hR : StreamsOK (T0, T1) [a, b])
    (hk : (deps.map (fun d => d.kind)).Nodup) (hp : Align.passesSufficeB deps [a, b] strict = true) :
    ∃ o, n.step [a, b] = .ok [o] ∧ plainStreamB o = true ∧ LawAbiding o ∧ span o = some (T0, T1) := by
  have hg' := hg
  simp only [iterGuardB, Bool.and_eq_true, beq_iff_eq] at hg'
  obtain ⟨⟨⟨hlen, hv⟩, hT⟩, he⟩ := hg'
  have hdeps : deps ≠ [] := by intro h0; subst h0; simp at hlen
  obtain ⟨r, hr, -⟩ := C08.converges_partial hlen hdeps hv hT he hk hp
  have hrun : (Aligner.iter rid T0 T1 deps strict).run [a, b] = .ok (streamsOfCalls deps (ridOf [a, b]) (targetsOf [a, b]) r.calls) := by
    simp [Aligner.iter, Aligner.ofSpec, iterAlignerG, hg, iterAligner, hr]
  obtain ⟨hal, -⟩ := (Aligner.iter rid T0 T1 deps strict).spec (by simp) hR hrun
  have hl2 : deps.length = 2 := by simpa using hlen.symm
  -- the aligned stream of the first dependency
  have hs0 : streamsOfCalls deps (ridOf [a, b]) (targetsOf [a, b]) r.calls =
      [r.calls.map (callChunk deps (ridOf [a, b]) (targetsOf [a, b]) 0),
       r.calls.map (callChunk deps (ridOf [a, b]) (targetsOf [a, b]) 1)] := by
    simp [streamsOfCalls, hl2, List.range_succ]
  rw [hs0] at hrun hal
  obtain ⟨hla, hsa⟩ := hal.1 (r.calls.map (callChunk deps (ridOf [a, b]) (targetsOf [a, b]) 0)) (by simp)
  -- run id and target of the first input
  obtain ⟨c0, rest0, rfl⟩ : ∃ c0 rest0, a = c0 :: rest0 := by
    cases a with
    | nil => simp [Align.validInputsB] at hv
    | cons c0 rest0 => exact ⟨c0, rest0, rfl⟩
  have hc0 : c0.runId = some rid ∧ 1 ≤ c0.target ∧ 0 ≤ c0.start ∧ c0.start = T0 := by
    simp only [Align.validInputsB, List.all_cons, Bool.and_eq_true, beq_iff_eq] at hv
    simp only [plainStreamB, Bool.and_eq_true, List.all_cons, decide_eq_true_eq] at hpa
    have hgood : c0.good = true := ((Strax.lawAbiding_cons c0 rest0).1 hpa.1).1
    simp only [Chunk.good, Bool.and_eq_true] at hgood
    have hT' : Align.startAtB T0 [c0 :: rest0, b] = true := hT
    simp only [Align.startAtB, List.all_cons, Bool.and_eq_true, decide_eq_true_eq] at hT'
    exact ⟨hv.1.2, hpa.2.1, ((Chunk.wf_iff c0).1 hgood.1).1, hT'.1⟩
  generalize hS0 : r.calls.map (callChunk deps (ridOf [c0 :: rest0, b]) (targetsOf [c0 :: rest0, b]) 0) = S0 at *
  generalize hS1 : r.calls.map (callChunk deps (ridOf [c0 :: rest0, b]) (targetsOf [c0 :: rest0, b]) 1) = S1 at *
  have hlo := lawAbiding_perChunk (f := List.filterMap g) (out := out) (fun c hc => chunkOK_filterMap hgi out c hc) hla
  have hsp : span (perChunk (List.filterMap g) out S0) = some (T0, T1) := by rw [span_perChunk]; exact hsa
  obtain ⟨-, q2, q3⟩ := restamp_stream out (kindOfIns [S0, S1]) (perChunk (List.filterMap g) out S0)
  have hlaw : LawAbiding ((perChunk (List.filterMap g) out S0).map (restampChunk out (kindOfIns [S0, S1]))) :=
    lawAbiding_of (q3 hlo.all_ok) (by rw [adjacentB_of_bounds q2]; exact hlo.adjacent)
  have hspan : span ((perChunk (List.filterMap g) out S0).map (restampChunk out (kindOfIns [S0, S1]))) = some (T0, T1) := by
    rw [span_of_bounds q2]; exact hsp
  refine ⟨(perChunk (List.filterMap g) out S0).map (restampChunk out (kindOfIns [S0, S1])), ?_, ?_, hlaw, hspan⟩
  · simp [Node.step, hna, hnk, hrun, firstKernel, restamp, stampAll]
  · apply plain_of_law (rid := rid) (dt := out) hlaw
    · intro c hc
      have := hlaw.starts_ge hspan c hc
      simp only at this
      omega
    · intro c hc
      subst hS0
      simp only [perChunk, List.map_map, List.mem_map] at hc
      obtain ⟨cl, -, rfl⟩ := hc
      simp [uniformB, restampChunk, setRows, callChunk, ridOf, targetsOf, hc0.1, hc0.2.1]

/-! ### the asymmetric overlap-window kind of the harness vocabulary is window-local (C09) -/

/-- counting the rows that start at most `wl` before and at most `wr` after a row is a window-local computation for
the window (look-back `wl`, look-ahead `wr`): such a row ends after `r.time − wl` (positive duration) and starts before
`r.endt + wr` -/
theorem overlap2_windowLocal (wl wr : Nat) : C09.WindowLocal (Vocab.overlapWhole2 wl wr) wl wr := by
  refine ⟨fun r ctx => Vocab.overlapId2 wl wr ctx r, fun _ _ => ⟨rfl, rfl⟩, ?_⟩
  intro rows hpos
  unfold Vocab.overlapWhole2
  apply List.map_congr_left
  intro r hr
  simp only [Vocab.overlapId2, Vocab.nearCount2, List.filter_filter]
  congr 4
  apply List.filter_congr
  intro x hx
  have hx' := hpos x hx
  have hr' := hpos r hr
  by_cases hc : r.time - (wl : Int) ≤ x.time ∧ x.time ≤ r.time + (wr : Int)
  · have : Overlap.near (↑wl) (↑wr) r x = true := by
      simp only [Overlap.near, Bool.and_eq_true, decide_eq_true_eq]
      omega
    simp [hc.1, hc.2, this]
  · have : (decide (r.time - (wl : Int) ≤ x.time) && decide (x.time ≤ r.time + (wr : Int))) = false := by
      simp only [Bool.and_eq_false_iff, decide_eq_false_iff_not]
      by_cases h1 : r.time - (wl : Int) ≤ x.time
      · exact Or.inr (fun h2 => hc ⟨h1, h2⟩)
      · exact Or.inl h1
    simp [this]

theorem overlap2_streamSpec (wl wr : Nat) :
    StreamSpec (Overlap.runOverlap (Vocab.overlapWhole2 wl wr) (wl, wr)) (Vocab.overlapWhole2 wl wr) :=
  C09.overlap_whole_for_pipeline_partial _ _ _ (overlap2_windowLocal wl wr)

end Strax.Pipeline
