import StraxModel.Lemmas.PipelineBridge
import StraxModel.Props.C08
/-
  Helper lemmas for property C01, part 7: `Plugin.iter` (the model `Align.iterRun` of C08) IS an aligner
  of the stream theory on the inputs C08's theorems speak about (`validInputsB`: plain law-abiding
  streams of one run; `StartAt T0`; `endAtB T1`: all end at `T1`, none with a trailing zero-duration
  chunk — that exclusion is D16).  Uses C08 `calls_tile_run` and `rows_inside_call_dep`.
  Core Lean only.
-/
namespace Strax.Pipeline
open Strax

/-- the chunk `Plugin.iter` hands to `compute` for dependency `i` in call `c` -/
def callChunk (deps : List Align.Dep) (i : Nat) (c : Align.Call) : Chunk :=
  { dataType := ((deps[i]?).map (·.name)).getD "", kind := ((deps[i]?).map (·.kind)).getD "",
    runId := some "0", start := c.start, stop := c.stop, rows := c.rowsOf i,
    subruns := none, superrun := [], target := 0 }

theorem streamsOfCalls_eq (deps : List Align.Dep) (calls : List Align.Call) :
    streamsOfCalls deps calls = (List.range deps.length).map fun i => calls.map (callChunk deps i) := rfl

/-- the domain of C08's theorems, as one decidable guard -/
def iterGuardB (rid : String) (T0 T1 : Int) (deps : List Align.Dep) (ins : List (List Chunk)) : Bool :=
  (ins.length == deps.length) && Align.validInputsB rid ins && Align.startAtB T0 ins && Align.endAtB T1 ins

/-- `Plugin.iter` on the inputs of run `rid` covering `[T0, T1)` -/
def iterAlignerG (rid : String) (T0 T1 : Int) (deps : List Align.Dep) (strict : Bool)
    (ins : List (List Chunk)) : Except Err (List (List Chunk)) :=
  if iterGuardB rid T0 T1 deps ins then iterAligner deps strict ins else .error .other

theorem endOf_eq_lastStop : ∀ (c : Chunk) (l : List Chunk), Align.endOf c l = lastStop c.stop l
  | _, [] => rfl
  | _, d :: l => by simp only [Align.endOf, lastStop]; exact endOf_eq_lastStop d l

theorem sorted_of_flatMap {α : Type} (f : α → List Row) :
    ∀ (l : List α), SortedByTime (l.flatMap f) → ∀ c ∈ l, SortedByTime (f c)
  | [], _, c, hc => by simp at hc
  | a :: l, h, c, hc => by
    rw [List.flatMap_cons] at h
    simp only [List.mem_cons] at hc
    rcases hc with rfl | hc
    · exact h.append_left
    · exact sorted_of_flatMap f l h.append_right c hc

theorem rows_callStream (deps : List Align.Dep) (i : Nat) (calls : List Align.Call) :
    rows (calls.map (callChunk deps i)) = calls.flatMap fun c => c.rowsOf i := by
  induction calls with
  | nil => rfl
  | cons c cs ih => simp only [List.map_cons, rows_cons, List.flatMap_cons, ih]; rfl

theorem bounds_callStream (deps : List Align.Dep) (i : Nat) (calls : List Align.Call) :
    bounds (calls.map (callChunk deps i)) = calls.map fun c => (c.start, c.stop) := by
  simp [bounds, callChunk]

theorem adjacent_callStream (deps : List Align.Dep) (i : Nat) :
    ∀ (T : Int) (calls : List Align.Call), Align.adjacentFrom T calls →
      adjacentB (calls.map (callChunk deps i)) = true ∧
        lastStop T (calls.map (callChunk deps i)) = Align.lastStop T calls ∧
        ∀ c cs, calls = c :: cs → c.start = T
  | _, [], _ => ⟨rfl, rfl, fun _ _ h => by cases h⟩
  | T, [c], h => ⟨rfl, rfl, fun _ _ e => by cases e; exact h.1⟩
  | T, c :: d :: cs, h => by
    obtain ⟨h1, h2⟩ := h
    obtain ⟨i1, i2, i3⟩ := adjacent_callStream deps i c.stop (d :: cs) h2
    refine ⟨?_, ?_, fun _ _ e => by cases e; exact h1⟩
    · simp only [List.map_cons, adjacentB, Bool.and_eq_true, decide_eq_true_eq] at i1 ⊢
      exact ⟨by simp [callChunk, i3 d cs rfl], i1⟩
    · simp only [List.map_cons, lastStop, Align.lastStop] at i2 ⊢
      exact i2

/-- **`Plugin.iter` is an aligner** on C08's domain: for plain law-abiding inputs of one run that start
at `T0` and end at `T1` (no trailing zero-duration chunk), whatever `iterRun` returns is an aligned
law-abiding partition of the same rows. -/
theorem iterAlignerG_spec (rid : String) (T0 T1 : Int) (deps : List Align.Dep) (strict : Bool) :
    ∀ (R : Int × Int) (ins out : List (List Chunk)), ins ≠ [] → StreamsOK R ins →
      iterAlignerG rid T0 T1 deps strict ins = .ok out → Aligned R out ∧ out.map rows = ins.map rows := by
  intro R ins out hne hok h
  unfold iterAlignerG at h
  split at h
  · rename_i hg
    simp only [iterGuardB, Bool.and_eq_true, beq_iff_eq] at hg
    obtain ⟨⟨⟨hlen, hv⟩, hT⟩, he⟩ := hg
    unfold iterAligner at h
    cases hr : Align.iterRun deps ins strict with
    | error e => simp [hr] at h
    | ok r =>
      simp only [hr, Except.ok.injEq] at h
      subst h
      obtain ⟨hcne, hadj, hse, hlast, hrows⟩ := C08.calls_tile_run hlen hv hT he hr
      have hins := C08.rows_inside_call_dep hv hT hr
      -- the run range
      have hR : R = (T0, T1) := by
        obtain ⟨s, rest, rfl⟩ := List.exists_cons_of_ne_nil hne
        obtain ⟨-, hsp⟩ := hok s (by simp)
        have hT' : Align.startAtB T0 (s :: rest) = true := hT
        simp only [Align.startAtB, Align.endAtB, List.all_cons, Bool.and_eq_true] at hT' he
        cases s with
        | nil => simp at hT'
        | cons c l =>
          simp only [decide_eq_true_eq, Bool.and_eq_true] at hT' he
          simp only [span, Option.some.injEq] at hsp
          rw [← hsp, hT'.1, ← endOf_eq_lastStop, he.1.1]
      subst hR
      -- every dependency's input stream is sorted
      have hsorted : ∀ (i : Nat) cs, ins[i]? = some cs → SortedByTime (r.calls.flatMap fun c => c.rowsOf i) := by
        intro i cs hi
        rw [hrows i cs hi]
        exact (hok cs (List.mem_of_getElem? hi)).1.rows_sorted
      -- one stream per dependency
      have hstream : ∀ i, i < deps.length →
          LawAbiding (r.calls.map (callChunk deps i)) ∧ span (r.calls.map (callChunk deps i)) = some (T0, T1) := by
        intro i hi
        have hi' : i < ins.length := by omega
        have hget : ins[i]? = some ins[i] := List.getElem?_eq_getElem hi'
        obtain ⟨a1, a2, a3⟩ := adjacent_callStream deps i T0 r.calls hadj
        constructor
        · apply lawAbiding_of _ a1
          intro ch hch
          simp only [List.mem_map] at hch
          obtain ⟨c, hc, rfl⟩ := hch
          refine (chunkOKB_iff _).2 ⟨hse c hc, fun row hrow => hins c hc i row hrow, ?_⟩
          exact sorted_of_flatMap (fun c => c.rowsOf i) r.calls (hsorted i _ hget) c hc
        · obtain ⟨c, cs, hcs⟩ := List.exists_cons_of_ne_nil hcne
          rw [hcs] at a2 a3 hlast ⊢
          simp only [List.map_cons, span, Option.some.injEq, Prod.mk.injEq]
          simp only [List.map_cons, lastStop, Align.lastStop] at a2 hlast
          exact ⟨by simp [callChunk, a3 c cs rfl], by simp only [callChunk] at a2 ⊢; rw [a2, hlast]⟩
      rw [streamsOfCalls_eq]
      refine ⟨⟨?_, ?_⟩, ?_⟩
      · intro s hs
        simp only [List.mem_map, List.mem_range] at hs
        obtain ⟨i, hi, rfl⟩ := hs
        exact hstream i hi
      · intro s hs t ht
        simp only [List.mem_map, List.mem_range] at hs ht
        obtain ⟨i, -, rfl⟩ := hs
        obtain ⟨j, -, rfl⟩ := ht
        rw [bounds_callStream, bounds_callStream]
      · apply List.ext_getElem
        · simp [hlen]
        · intro i h1 h2
          simp only [List.getElem_map, List.getElem_range]
          rw [rows_callStream]
          have hi' : i < ins.length := by simpa using h2
          exact hrows i ins[i] (List.getElem?_eq_getElem hi')
  · cases h

/-- `Plugin.iter` as an `Aligner` (C08) -/
def Aligner.iter (rid : String) (T0 T1 : Int) (deps : List Align.Dep) (strict : Bool) : Aligner :=
  Aligner.ofSpec (iterAlignerG rid T0 T1 deps strict) (iterAlignerG_spec rid T0 T1 deps strict)

end Strax.Pipeline
