import StraxModel.Lemmas.MailboxProg
/-
  Deadlock freedom of the mailbox transition system inside the domain of C05 with in-order numbering:
  extra invariants (`LiveInv`), what a non-enabled thread looks like, and `deadlock_free_core`.
-/
namespace Strax.Mailbox
open Strax

/-! ### liveness: additional invariants -/

/-- heap after a reader's critical section: either untouched (same minimum) or garbage-collected w.r.t. the new minimum -/
theorem readStep_heap {mb mb' : MB} {i : Nat} {out : ReadOut} (hs : mb.readStep i = some (out, mb')) :
    (mb'.heap = mb.heap ∧ minNext mb'.subs = minNext mb.subs) ∨
    (mb'.heap = mb.heap.filter (fun e => decide (minNext mb'.subs ≤ e.1))) := by
  simp only [MB.readStep] at hs
  split at hs
  · simp at hs
  · rename_i sub hi
    split at hs
    · simp at hs
    · split at hs
      · split at hs
        · simp only [Option.some.injEq, Prod.mk.injEq] at hs; obtain ⟨rfl, rfl⟩ := hs
          left
          constructor
          · simp [MB.readWaitEnter]
          · simp only [MB.readWaitEnter, nfic_subs]; exact minNext_set_same hi rfl
        · simp only [Option.some.injEq, Prod.mk.injEq] at hs; obtain ⟨rfl, rfl⟩ := hs
          left; exact ⟨rfl, minNext_set_same hi rfl⟩
      · split at hs
        · simp only [Option.some.injEq, Prod.mk.injEq] at hs; obtain ⟨rfl, rfl⟩ := hs
          left; exact ⟨rfl, minNext_set_same hi rfl⟩
        · simp only [Option.some.injEq, Prod.mk.injEq] at hs; obtain ⟨rfl, rfl⟩ := hs
          right
          simp only [MB.readTake, MB.notifyWrite, nfic_heap, nfic_subs, gc]

theorem kill_heap (mb : MB) (up : Bool) : (mb.kill up).heap = mb.heap ∧ minNext (mb.kill up).subs = minNext mb.subs := by
  obtain ⟨_, _, _, hh, _, hsubs⟩ := kill_shape mb up
  refine ⟨hh, ?_⟩
  rcases hsubs with h | h <;> rw [h]
  exact minNext_map_notify _

/-- future ids occurring in a program -/
def futIds : List SrcItem → List Nat
  | [] => []
  | .item _ (.fut id _) :: r => id :: futIds r
  | _ :: r => futIds r

/-- decidable liveness side conditions: at least one subscriber, capacity at least one, a driver in lazy
mode, every future is completed by some worker, and messages are sent in number order
(number = position; explicit numbers are allowed as long as they say the same) -/
def Config.live (c : Config) : Bool :=
  !c.drive.isEmpty && (c.cap != some 0) && (!c.lazy || c.drive.contains true) &&
  (futIds c.prog).all (fun id => c.workers.any (fun w => w.contains id)) &&
  ((numbered c.prog 0).map (·.1) == List.range c.prog.length)

/-- the part of the side conditions every liveness statement needs: a subscriber exists, futures get completed -/
def Config.basic (c : Config) : Bool :=
  !c.drive.isEmpty && (futIds c.prog).all (fun id => c.workers.any (fun w => w.contains id))

theorem Config.live_basic {c : Config} (h : c.live = true) : c.basic = true := by
  simp only [Config.live, Bool.and_eq_true] at h
  simp only [Config.basic, Bool.and_eq_true]
  exact ⟨h.1.1.1.1, h.1.2⟩

structure LiveInv (c : Config) (s : Sys) : Prop where
  heapSub : ∀ e ∈ s.mb.heap, e ∈ s.sent
  heapGe : ∀ e ∈ s.mb.heap, minNext s.mb.subs ≤ e.1
  futHead : ∀ r ∈ s.readers, ∀ p, r.pc = .futW p → ∃ id v rest, p = .fut id v :: rest
  futs : ∀ id, id ∈ futIds c.prog → id ∈ s.futDone ∨ ∃ w ∈ s.workers, id ∈ w

theorem deliver_futHead (fd : List Nat) (msgs g : List Msg) :
    ∀ p, (deliver fd msgs g).pc = .futW p → ∃ id v rest, p = .fut id v :: rest := by
  induction msgs generalizing g with
  | nil => intro p h; simp [deliver] at h
  | cons m r ih =>
    cases m with
    | stop => intro p h; simp [deliver] at h
    | plain v => simp only [deliver]; exact ih _
    | fut id v =>
      simp only [deliver]
      split
      · exact ih _
      · intro p h; simp at h; exact ⟨id, v, r, h.symm⟩

theorem LiveInv.init {c : Config} (hl : c.basic = true) : LiveInv c (init c) := by
  refine ⟨by intro e he; simp [Mailbox.init] at he, by intro e he; simp [Mailbox.init] at he, ?_, ?_⟩
  · intro r hr p hp
    simp only [Mailbox.init, List.mem_map] at hr
    obtain ⟨_, _, rfl⟩ := hr
    simp at hp
  · intro id hid
    right
    simp only [Config.basic, Bool.and_eq_true, List.all_eq_true, List.any_eq_true, List.contains_iff_mem] at hl
    obtain ⟨w, hw, hm⟩ := hl.2 id hid
    exact ⟨w, by simpa [Mailbox.init] using hw, by simpa using hm⟩

theorem LiveInv.step {c : Config} {s s' : Sys} {t : ThreadId} (hv : c.valid = true) (hinv : Inv s) (hp : ProgInv c s)
    (h : LiveInv c s) (hs : step s t = some s') : LiveInv c s' := by
  obtain ⟨hok, _, hnd, hlt⟩ := valid_parts hv
  cases t with
  | sender =>
    have hpc := hp.pc
    simp only [Mailbox.step, stepSender] at hs
    split at hs
    · -- gate
      split at hs
      · simp at hs
      · rename_i ok mb hg
        simp only [Option.some.injEq] at hs; subst hs
        simp only [MB.gateStep] at hg
        split at hg
        · simp at hg
        · split at hg <;>
            (simp only [Option.some.injEq, Prod.mk.injEq] at hg; obtain ⟨rfl, rfl⟩ := hg
             exact ⟨h.heapSub, h.heapGe, h.futHead, h.futs⟩)
    · split at hs <;> (simp only [Option.some.injEq] at hs; subst hs; exact ⟨h.heapSub, h.heapGe, h.futHead, h.futs⟩)
    · -- send
      rename_i num m hspc
      simp only [progPc, hspc] at hpc
      obtain ⟨hprog, hsent, hcl, hget⟩ := hpc
      have hres : resolveNum num s.mb.nSent = resolveNum num s.sent.length := by rw [hp.nsent]
      have hnot : ¬ resolveNum num s.sent.length < minNext s.mb.subs := by
        apply le_minNext_of_not_sent hinv.mb
        have := nodup_take_not_mem hnd hget
        rw [← hsent] at this
        exact this
      have key : ∀ (out : SendOut) (mb : MB), s.mb.sendStep num m = some (out, mb) →
          (∀ e ∈ mb.heap, e ∈ sentAfter s.sent m out) ∧ (∀ e ∈ mb.heap, minNext mb.subs ≤ e.1) := by
        intro out mb hst
        unfold MB.sendStep at hst; rw [hres] at hst
        rcases sendCore_alive hcl hp.fkilled hp.killed hnot hst with ⟨ho, hmb, _⟩ | ⟨ho, hmb, _⟩
        · subst ho; subst hmb
          simp only [sentAfter, MB.push, MB.notifyRead, minNext_map_notify, List.mem_append, List.mem_singleton]
          constructor
          · rintro e (he | he)
            · exact Or.inl (h.heapSub e he)
            · exact Or.inr he
          · rintro e (he | he)
            · exact h.heapGe e he
            · subst he; simp only; omega
        · subst ho; subst hmb
          exact ⟨h.heapSub, h.heapGe⟩
      split at hs
      · simp at hs
      all_goals
        rename_i hst
        simp only [Option.some.injEq] at hs; subst hs
        have := key _ _ hst
        exact ⟨by simpa [sentAfter] using this.1, this.2, h.futHead, h.futs⟩
    · -- close
      rename_i hspc
      simp only [progPc, hspc] at hpc
      obtain ⟨hprog, hsent, hcl⟩ := hpc
      have hlen := numbered_length c.prog 0 hok
      have hK : s.mb.nSent = c.prog.length := by rw [hp.nsent, hsent, hlen]
      have hnot : ¬ s.mb.nSent < minNext s.mb.subs := by
        apply le_minNext_of_not_sent hinv.mb
        intro hmem
        rw [hsent] at hmem
        have := hlt _ hmem
        omega
      have key : ∀ (out : SendOut) (mb : MB), s.mb.sendStep none .stop = some (out, mb) →
          (∀ e ∈ mb.heap, e ∈ sentAfter s.sent .stop out) ∧ (∀ e ∈ mb.heap, minNext mb.subs ≤ e.1) := by
        intro out mb hst
        simp only [MB.sendStep, resolveNum] at hst
        rcases sendCore_alive hcl hp.fkilled hp.killed hnot hst with ⟨ho, hmb, _⟩ | ⟨ho, hmb, _⟩
        · subst ho; subst hmb
          simp only [sentAfter, MB.push, MB.notifyRead, minNext_map_notify, List.mem_append, List.mem_singleton]
          constructor
          · rintro e (he | he)
            · exact Or.inl (h.heapSub e he)
            · exact Or.inr he
          · rintro e (he | he)
            · exact h.heapGe e he
            · subst he; simp only; omega
        · subst ho; subst hmb
          exact ⟨h.heapSub, h.heapGe⟩
      split at hs
      · simp at hs
      all_goals
        rename_i hst
        simp only [Option.some.injEq] at hs; subst hs
        have := key _ _ hst
        exact ⟨by simpa [sentAfter] using this.1, this.2, h.futHead, h.futs⟩
    · simp only [Option.some.injEq] at hs; subst hs
      obtain ⟨hh, hm⟩ := kill_heap s.mb true
      exact ⟨by simp only [hh]; exact h.heapSub, by simp only [hh, hm]; exact h.heapGe, h.futHead, h.futs⟩
    · simp at hs
    · simp at hs
  | reader i =>
    have hset : ∀ (r' : Reader), (∀ p, r'.pc = .futW p → ∃ id v rest, p = .fut id v :: rest) →
        ∀ r ∈ s.readers.set i r', ∀ p, r.pc = .futW p → ∃ id v rest, p = .fut id v :: rest := by
      intro r' hr' r hr
      rcases List.mem_or_eq_of_mem_set hr with hm | rfl
      · exact h.futHead r hm
      · exact hr'
    have hheap : ∀ (out : ReadOut) (mb : MB), s.mb.readStep i = some (out, mb) →
        (∀ e ∈ mb.heap, e ∈ s.sent) ∧ (∀ e ∈ mb.heap, minNext mb.subs ≤ e.1) := by
      intro out mb hst
      rcases readStep_heap hst with ⟨h1, h2⟩ | h1
      · rw [h1, h2]; exact ⟨h.heapSub, h.heapGe⟩
      · rw [h1]
        constructor
        · intro e he; exact h.heapSub e (List.mem_filter.mp he).1
        · intro e he; simpa using (List.mem_filter.mp he).2
    simp only [Mailbox.step, stepReader] at hs
    split at hs
    · simp at hs
    · rename_i r0 hr0
      split at hs
      · split at hs
        · simp at hs
        · rename_i mb hst
          simp only [Option.some.injEq] at hs; subst hs
          exact ⟨(hheap _ _ hst).1, (hheap _ _ hst).2, h.futHead, h.futs⟩
        · rename_i mb hst
          simp only [Option.some.injEq] at hs; subst hs
          exact ⟨(hheap _ _ hst).1, (hheap _ _ hst).2, hset _ (by intro p hp'; simp at hp'), h.futs⟩
        · rename_i msgs mb hst
          simp only [Option.some.injEq] at hs; subst hs
          exact ⟨(hheap _ _ hst).1, (hheap _ _ hst).2, hset _ (deliver_futHead _ _ _), h.futs⟩
      · split at hs
        · split at hs
          · simp only [Option.some.injEq] at hs; subst hs
            exact ⟨h.heapSub, h.heapGe, hset _ (deliver_futHead _ _ _), h.futs⟩
          · simp at hs
        · simp at hs
      · simp at hs
      · simp at hs
  | worker j =>
    simp only [Mailbox.step, stepWorker] at hs
    split at hs
    · rename_i id rest hw
      simp only [Option.some.injEq] at hs; subst hs
      refine ⟨h.heapSub, h.heapGe, h.futHead, ?_⟩
      intro fid hfid
      rcases h.futs fid hfid with hd | ⟨w, hw', hm⟩
      · left; simp [hd]
      · by_cases hfe : fid = id
        · left; simp [hfe]
        · right
          obtain ⟨k, hk1, hk2⟩ := List.getElem_of_mem hw'
          by_cases hkj : k = j
          · subst hkj
            have : s.workers[k]? = some w := by rw [List.getElem?_eq_getElem hk1, hk2]
            rw [hw] at this; cases this
            refine ⟨rest, ?_, ?_⟩
            · exact List.mem_iff_getElem?.mpr ⟨k, by simp [hk1]⟩
            · simpa [hfe] using hm
          · refine ⟨w, ?_, hm⟩
            exact List.mem_iff_getElem?.mpr ⟨k, by rw [List.getElem?_set]; simp [Ne.symm hkj, hk1, hk2]⟩
    · simp at hs
  | killer k =>
    simp only [Mailbox.step, stepKiller, hp.noKill] at hs
    simp at hs

theorem LiveInv.reachable {c : Config} {s : Sys} (hv : c.valid = true) (hl : c.basic = true) (h : Reachable c s) :
    LiveInv c s := by
  induction h with
  | init => exact LiveInv.init hl
  | step hr hs ih => exact ih.step hv (Inv.reachable hr) (ProgInv.reachable hv hr) hs


/-! ### who is not enabled -/

theorem worker_stuck {s : Sys} {j : Nat} {w : List Nat} (h : stepWorker s j = none) (hw : s.workers[j]? = some w) : w = [] := by
  cases w with
  | nil => rfl
  | cons id rest => simp [stepWorker, hw] at h

theorem readStep_isSome {mb : MB} {i : Nat} {sub : Sub} (hi : mb.subs[i]? = some sub) (hf : sub.flag ≠ some false) :
    (mb.readStep i).isSome := by
  cases hfl : sub.flag with
  | none =>
    simp only [MB.readStep, hi, hfl]
    split
    · rfl
    · split <;> rfl
  | some b =>
    cases b with
    | false => exact absurd hfl hf
    | true =>
      simp only [MB.readStep, hi, hfl]
      split
      · rfl
      · split <;> rfl

theorem reader_stuck {s : Sys} {i : Nat} {r : Reader} {sub : Sub} (h : stepReader s i = none)
    (hr : s.readers[i]? = some r) (hs : s.mb.subs[i]? = some sub) :
    (r.pc = .read → sub.flag = some false) ∧
    (∀ id v rest, r.pc = .futW (.fut id v :: rest) → s.futDone.contains id = false) := by
  constructor
  · intro hpc
    cases hf : sub.flag with
    | some b =>
      cases b with
      | false => rfl
      | true =>
        have := readStep_isSome hs (by rw [hf]; simp)
        simp only [stepReader, hr, hpc] at h
        cases hrs : s.mb.readStep i with
        | none => rw [hrs] at this; cases this
        | some p =>
          obtain ⟨out, mb⟩ := p
          rw [hrs] at h
          cases out <;> simp at h
    | none =>
      have := readStep_isSome hs (by rw [hf]; simp)
      simp only [stepReader, hr, hpc] at h
      cases hrs : s.mb.readStep i with
      | none => rw [hrs] at this; cases this
      | some p =>
        obtain ⟨out, mb⟩ := p
        rw [hrs] at h
        cases out <;> simp at h
  · intro id v rest hpc
    simp only [stepReader, hr, hpc] at h
    cases hc : s.futDone.contains id with
    | false => rfl
    | true => simp only [hc, if_true] at h; cases h

theorem sendCore_isSome {mb : MB} (n : Nat) (m : Msg) (hw : mb.writeFlag ≠ some false) : (mb.sendCore n m).isSome := by
  simp only [MB.sendCore]
  split
  · rename_i h; exact absurd h hw
  · repeat' split
    all_goals rfl
  · repeat' split
    all_goals rfl

theorem sendStep_isSome {mb : MB} (num : Option Nat) (m : Msg) (hw : mb.writeFlag ≠ some false) :
    (mb.sendStep num m).isSome := sendCore_isSome _ _ hw

theorem sender_stuck {s : Sys} (h : stepSender s = none) :
    match s.spc with
    | .gate => s.mb.fetchFlag = some false
    | .fetch => False
    | .send _ _ => s.mb.writeFlag = some false
    | .close => s.mb.writeFlag = some false
    | .exc _ => False
    | .done => True
    | .dead _ => True := by
  have hsend : ∀ num m, s.mb.writeFlag ≠ some false → ∃ out mb, s.mb.sendStep num m = some (out, mb) := by
    intro num m hw
    have := sendStep_isSome (mb := s.mb) num m hw
    cases hc : s.mb.sendStep num m with
    | none => rw [hc] at this; cases this
    | some p => exact ⟨p.1, p.2, rfl⟩
  cases hspc : s.spc with
  | gate =>
    simp only [Mailbox.stepSender, hspc] at h ⊢
    cases hf : s.mb.fetchFlag with
    | some b =>
      cases b with
      | false => rfl
      | true =>
        simp only [MB.gateStep, hf] at h
        split at h
        · rename_i heq; split at heq <;> cases heq
        · simp at h
    | none =>
      simp only [MB.gateStep, hf] at h
      split at h
      · rename_i heq; split at heq <;> cases heq
      · simp at h
  | fetch =>
    simp only [Mailbox.stepSender, hspc] at h ⊢
    split at h <;> simp at h
  | send num m =>
    simp only [Mailbox.stepSender, hspc] at h ⊢
    cases hf : s.mb.writeFlag with
    | some b =>
      cases b with
      | false => rfl
      | true =>
        obtain ⟨out, mb, hc⟩ := hsend num m (by rw [hf]; simp)
        rw [hc] at h; cases out <;> simp at h
    | none =>
      obtain ⟨out, mb, hc⟩ := hsend num m (by rw [hf]; simp)
      rw [hc] at h; cases out <;> simp at h
  | close =>
    simp only [Mailbox.stepSender, hspc] at h ⊢
    cases hf : s.mb.writeFlag with
    | some b =>
      cases b with
      | false => rfl
      | true =>
        obtain ⟨out, mb, hc⟩ := hsend none .stop (by rw [hf]; simp)
        rw [hc] at h; cases out <;> simp at h
    | none =>
      obtain ⟨out, mb, hc⟩ := hsend none .stop (by rw [hf]; simp)
      rw [hc] at h; cases out <;> simp at h
  | exc e => simp only [Mailbox.stepSender, hspc] at h; simp at h
  | done => trivial
  | dead e => trivial


/-! ### deadlock freedom -/

theorem mem_inOrder {l : List (Nat × Msg)} {n : Nat} {m : Msg} (h : m ∈ inOrder l n) : ∃ j, (j, m) ∈ l := by
  induction n with
  | zero => simp [inOrder] at h
  | succ k ih =>
    simp only [inOrder, List.mem_append] at h
    rcases h with h | h
    · exact ih h
    · cases hg : getMsg l k with
      | none => simp [hg] at h
      | some m' => simp [hg] at h; subst h; exact ⟨k, getMsg_mem hg⟩

theorem futIds_of_mem {prog : List SrcItem} {p j id v : Nat} (h : (j, Msg.fut id v) ∈ numbered prog p) : id ∈ futIds prog := by
  induction prog generalizing p with
  | nil => simp [numbered] at h
  | cons a r ih =>
    cases a with
    | raise => simp only [numbered] at h; simp only [futIds]; exact ih h
    | item num m =>
      cases num <;> simp only [numbered, List.mem_cons] at h <;> rcases h with h | h
      · cases m <;> simp at h
        obtain ⟨_, rfl, rfl⟩ := h; simp [futIds]
      · cases m <;> simp only [futIds] <;> first | exact ih h | exact List.mem_cons_of_mem _ (ih h)
      · cases m <;> simp at h
        obtain ⟨_, rfl, rfl⟩ := h; simp [futIds]
      · cases m <;> simp only [futIds] <;> first | exact ih h | exact List.mem_cons_of_mem _ (ih h)

/-- the log of a valid run only contains program messages and possibly the end marker -/
theorem sent_subset {c : Config} {s : Sys} (hp : ProgInv c s) : ∀ e ∈ s.sent, e ∈ numbered c.prog 0 ∨ e.2 = .stop := by
  intro e he
  have := hp.pc
  unfold progPc at this
  cases hspc : s.spc <;> simp only [hspc] at this
  · rw [this.2.1] at he; exact Or.inl (List.mem_of_mem_take he)
  · rw [this.2.1] at he; exact Or.inl (List.mem_of_mem_take he)
  · rw [this.2.1] at he; exact Or.inl (List.mem_of_mem_take he)
  · rw [this.2.1] at he; exact Or.inl he
  · rw [this] at he
    rcases List.mem_append.mp he with h | h
    · exact Or.inl h
    · simp at h; right; rw [h]

/-- before the sender is done, the end marker has not been sent -/
theorem no_stop_sent {c : Config} {s : Sys} (hv : c.valid = true) (hp : ProgInv c s) (hnd : s.spc ≠ .done) :
    ∀ e ∈ s.sent, e.2 ≠ .stop := by
  obtain ⟨hok, _, _, _⟩ := valid_parts hv
  intro e he
  have := hp.pc
  unfold progPc at this
  have hns := numbered_no_stop c.prog 0 hok
  cases hspc : s.spc <;> simp only [hspc] at this
  · rw [this.2.1] at he; exact hns e (List.mem_of_mem_take he)
  · rw [this.2.1] at he; exact hns e (List.mem_of_mem_take he)
  · rw [this.2.1] at he; exact hns e (List.mem_of_mem_take he)
  · rw [this.2.1] at he; exact hns e he
  · exact absurd hspc hnd

/-- with in-order numbering the numbers sent so far are `0 … k-1` -/
theorem sent_numbers_lt {c : Config} {s : Sys} (hv : c.valid = true) (hl : c.live = true) (hp : ProgInv c s)
    (hnd : s.spc ≠ .done) : (∀ e ∈ s.sent, e.1 < s.sent.length) ∧ (∀ j, j < s.sent.length → (getMsg s.sent j).isSome) := by
  obtain ⟨hok, _, _, _⟩ := valid_parts hv
  have hlen := numbered_length c.prog 0 hok
  have hid : (numbered c.prog 0).map (·.1) = List.range c.prog.length := by
    simp only [Config.live, Bool.and_eq_true, beq_iff_eq] at hl; exact hl.2
  have hpre : s.sent = (numbered c.prog 0).take s.sent.length := by
    have := hp.pc
    unfold progPc at this
    cases hspc : s.spc <;> simp only [hspc] at this
    · exact this.2.1
    · exact this.2.1
    · exact this.2.1
    · rw [this.2.1]; simp
    · exact absurd hspc hnd
  have hk : s.sent.length ≤ c.prog.length := by
    have := congrArg List.length hpre
    simp only [List.length_take, hlen] at this; omega
  have hnums : s.sent.map (·.1) = List.range s.sent.length := by
    have e1 : s.sent.map (·.1) = ((numbered c.prog 0).take s.sent.length).map (·.1) := by rw [← hpre]
    rw [e1, List.map_take, hid, List.take_range]
    congr 1; omega
  constructor
  · intro e he
    have : e.1 ∈ s.sent.map (·.1) := List.mem_map_of_mem he
    rw [hnums] at this; simpa using this
  · intro j hj
    apply mem_getMsg_isSome
    rw [hnums]; simpa using hj


/-- if every live subscriber is blocked on `_read_condition`, nothing is buffered (in-order numbering) -/
theorem heap_empty_of_all_blocked {c : Config} {s : Sys} (hv : c.valid = true) (hl : c.live = true)
    (hinv : Inv s) (hp : ProgInv c s) (hli : LiveInv c s) (hnd : s.spc ≠ .done) (hne : s.mb.subs ≠ [])
    (hblk : ∀ (i : Nat) (sub : Sub), s.mb.subs[i]? = some sub → sub.flag = some false) : s.mb.heap = [] := by
  cases hh : s.mb.heap with
  | nil => rfl
  | cons e t =>
    exfalso
    have he : e ∈ s.mb.heap := by rw [hh]; simp
    obtain ⟨hlt, hfound⟩ := sent_numbers_lt hv hl hp hnd
    have h1 := hli.heapGe e he
    have h2 := hlt e (hli.heapSub e he)
    obtain ⟨sub, hm, hmn⟩ := minNext_mem hne
    obtain ⟨i, hi1, hi2⟩ := List.getElem_of_mem hm
    have hi : s.mb.subs[i]? = some sub := by rw [List.getElem?_eq_getElem hi1, hi2]
    have hw := (hinv.mb.wakeR i sub hi (hblk i sub hi)).1
    have hsome : (getMsg s.sent sub.next).isSome := hfound _ (by omega)
    rw [← hinv.mb.heapEq sub.next (by omega), ← hasNum_iff_getMsg, hw] at hsome
    cases hsome

/-- sender blocked on `_write_condition` while every subscriber is blocked: impossible (in-order numbering, capacity ≥ 1) -/
theorem write_contra_inorder {c : Config} {s : Sys} (hv : c.valid = true) (hl : c.live = true) (h : Reachable c s)
    (hnd : s.spc ≠ .done) (hblk : ∀ (i : Nat) (sub : Sub), s.mb.subs[i]? = some sub → sub.flag = some false)
    (hwf : s.mb.writeFlag = some false) : False := by
  have hinv := Inv.reachable h
  have hp := ProgInv.reachable hv h
  have hli := LiveInv.reachable hv (Config.live_basic hl) h
  have hstat := Static.reachable h
  have hl' := hl
  simp only [Config.live, Bool.and_eq_true, Bool.not_eq_true', bne_iff_ne, ne_eq, Bool.or_eq_true, beq_iff_eq,
    List.isEmpty_eq_false_iff] at hl'
  obtain ⟨⟨⟨⟨hdrive, hcap⟩, _⟩, _⟩, _⟩ := hl'
  have e1 : s.mb.cap = c.cap := congrArg (fun x => x.1) hstat
  have e4 : s.mb.subs.map (fun x => x.canDrive) = c.drive := congrArg (fun x => x.2.2.2) hstat
  have hne : s.mb.subs ≠ [] := by
    intro hnil; rw [hnil] at e4; exact hdrive e4.symm
  have hheap := heap_empty_of_all_blocked hv hl hinv hp hli hnd hne hblk
  have hcw := hinv.mb.wakeW hwf
  simp only [MB.canWrite, hheap, hp.killed, Bool.or_false, List.length_nil] at hcw
  cases hc : s.mb.cap with
  | none => simp [hc] at hcw
  | some cp =>
    simp only [hc, decide_eq_false_iff_not, Nat.not_lt, Nat.le_zero_eq] at hcw
    subst hcw; rw [e1] at hc; exact hcap hc

/-- lazy sender blocked on `_fetch_new_condition` while every subscriber is blocked: impossible when a driver exists -/
theorem gate_contra_inorder {c : Config} {s : Sys} (hv : c.valid = true) (hl : c.live = true) (h : Reachable c s)
    (hspc : s.spc = .gate) (hblk : ∀ (i : Nat) (sub : Sub), s.mb.subs[i]? = some sub → sub.flag = some false)
    (hff : s.mb.fetchFlag = some false) : False := by
  have hinv := Inv.reachable h
  have hp := ProgInv.reachable hv h
  have hli := LiveInv.reachable hv (Config.live_basic hl) h
  have hstat := Static.reachable h
  have hl' := hl
  simp only [Config.live, Bool.and_eq_true, Bool.not_eq_true', bne_iff_ne, ne_eq, Bool.or_eq_true, beq_iff_eq,
    List.isEmpty_eq_false_iff] at hl'
  obtain ⟨⟨⟨⟨hdrive, _⟩, hdrv⟩, _⟩, _⟩ := hl'
  have e2 : s.mb.lazy = c.lazy := congrArg (fun x => x.2.1) hstat
  have e4 : s.mb.subs.map (fun x => x.canDrive) = c.drive := congrArg (fun x => x.2.2.2) hstat
  have hne : s.mb.subs ≠ [] := by
    intro hnil; rw [hnil] at e4; exact hdrive e4.symm
  have hnd : s.spc ≠ .done := by simp [hspc]
  have hheap := heap_empty_of_all_blocked hv hl hinv hp hli hnd hne hblk
  have hcf := hinv.mb.wakeF hff
  have hlazy : c.lazy = true := by rw [← e2]; exact hinv.gateLazy hspc
  have hdr : c.drive.contains true = true := by
    rcases hdrv with hx | hx
    · rw [hlazy] at hx; cases hx
    · exact hx
  have hdw : s.mb.driverWaits = true := by
    rw [← e4] at hdr
    simp only [List.contains_iff_mem, List.mem_map] at hdr
    obtain ⟨sub, hm, hcd⟩ := hdr
    obtain ⟨i, hi1, hi2⟩ := List.getElem_of_mem hm
    have hi : s.mb.subs[i]? = some sub := by rw [List.getElem?_eq_getElem hi1, hi2]
    have hw := hinv.mb.waitFor i sub hi
    rw [hblk i sub hi] at hw
    simp only [MB.driverWaits, List.any_eq_true, Bool.and_eq_true]
    exact ⟨sub, hm, hcd, by rw [hw]; simp⟩
  have hst : s.mb.staleWaiter = false := by
    simp only [MB.staleWaiter, hheap, List.any_eq_false]
    intro sub _
    cases sub.waitingFor with
    | none => simp [staleTest]
    | some x => cases s.mb.gateRule <;> simp [staleTest, hasNum]
  simp [MB.canFetch, hp.killed, hst, hdw] at hcf

/-- the skeleton of every deadlock-freedom proof: in a valid run, if the sender cannot be blocked for ever
on its two conditions while all subscribers are blocked (`hW`, `hG`), a state without enabled thread is final -/
theorem deadlock_free_gen {c : Config} {s : Sys} (hv : c.valid = true) (hb : c.basic = true) (h : Reachable c s)
    (hW : s.spc ≠ .done → (∀ (i : Nat) (sub : Sub), s.mb.subs[i]? = some sub → sub.flag = some false) →
      s.mb.writeFlag = some false → False)
    (hG : s.spc = .gate → (∀ (i : Nat) (sub : Sub), s.mb.subs[i]? = some sub → sub.flag = some false) →
      s.mb.fetchFlag = some false → False)
    (hstuck : ∀ t, step s t = none) : s.final = true := by
  have hinv := Inv.reachable h
  have hp := ProgInv.reachable hv h
  have hli := LiveInv.reachable hv hb h
  obtain ⟨hok, _, _, hltK⟩ := valid_parts hv
  -- workers have nothing left
  have hwork : ∀ w ∈ s.workers, w = [] := by
    intro w hw
    obtain ⟨j, hj1, hj2⟩ := List.getElem_of_mem hw
    exact worker_stuck (hstuck (.worker j)) (by rw [List.getElem?_eq_getElem hj1, hj2])
  -- readers: blocked in `_read` or finished
  have hreader : ∀ (i : Nat) (r : Reader) (sub : Sub), s.readers[i]? = some r → s.mb.subs[i]? = some sub →
      (r.pc = .read ∧ sub.flag = some false) ∨ (∃ rest, r.pc = .done rest) := by
    intro i r sub hr hs
    obtain ⟨h1, h2⟩ := reader_stuck (hstuck (.reader i)) hr hs
    have hrm : r ∈ s.readers := List.mem_of_getElem? hr
    cases hpc : r.pc with
    | read => exact Or.inl ⟨rfl, h1 hpc⟩
    | done rest => exact Or.inr ⟨rest, rfl⟩
    | dead e => exact absurd hpc (hp.noDead r hrm e)
    | futW p =>
      exfalso
      obtain ⟨id, v, rest, rfl⟩ := hli.futHead r hrm p hpc
      have hnd := h2 id v rest hpc
      obtain ⟨_, hd⟩ := hinv.rd.deliv i sub r hs hr
      rw [hpc] at hd
      simp only [tailOf] at hd
      have hmem : Msg.fut id v ∈ inOrder s.sent sub.next := by rw [← hd]; simp
      obtain ⟨j, hj⟩ := mem_inOrder hmem
      rcases sent_subset hp _ hj with hj' | hj'
      · rcases hli.futs id (futIds_of_mem hj') with hdn | ⟨w, hw, hin⟩
        · have : s.futDone.contains id = true := by simpa using hdn
          rw [this] at hnd; cases hnd
        · rw [hwork w hw] at hin; cases hin
      · cases hj'
  have hsender := sender_stuck (hstuck .sender)
  have hlenrs := hinv.rd.len
  have hsubOf : ∀ (i : Nat) (r : Reader), s.readers[i]? = some r → ∃ sub, s.mb.subs[i]? = some sub := by
    intro i r hr
    have : i < s.mb.subs.length := by rw [← hlenrs]; exact (List.getElem?_eq_some_iff.mp hr).1
    exact ⟨_, List.getElem?_eq_getElem this⟩
  have hreaderOf : ∀ (i : Nat) (sub : Sub), s.mb.subs[i]? = some sub → ∃ r, s.readers[i]? = some r := by
    intro i sub hs
    have : i < s.readers.length := by rw [hlenrs]; exact (List.getElem?_eq_some_iff.mp hs).1
    exact ⟨_, List.getElem?_eq_getElem this⟩
  -- as long as the sender is not done, nobody has seen the end marker: everybody is blocked
  have hallblk : s.spc ≠ .done → ∀ (i : Nat) (sub : Sub), s.mb.subs[i]? = some sub → sub.flag = some false := by
    intro hnd i sub hs
    obtain ⟨r, hr⟩ := hreaderOf i sub hs
    rcases hreader i r sub hr hs with ⟨_, hb⟩ | ⟨rest, hpc⟩
    · exact hb
    · exfalso
      obtain ⟨_, hd⟩ := hinv.rd.deliv i sub r hs hr
      rw [hpc] at hd
      simp only [tailOf] at hd
      have hmem : Msg.stop ∈ inOrder s.sent sub.next := by rw [← hd]; simp
      obtain ⟨j, hj⟩ := mem_inOrder hmem
      exact no_stop_sent hv hp hnd _ hj rfl
  simp only [Sys.final, Bool.and_eq_true, List.all_eq_true]
  cases hspc : s.spc with
  | fetch => rw [hspc] at hsender; exact absurd hsender id
  | exc e => rw [hspc] at hsender; exact absurd hsender id
  | send num m => rw [hspc] at hsender; exact absurd (hW (by simp [hspc]) (hallblk (by simp [hspc])) hsender) id
  | close => rw [hspc] at hsender; exact absurd (hW (by simp [hspc]) (hallblk (by simp [hspc])) hsender) id
  | dead e => have := hp.pc; simp [progPc, hspc] at this
  | gate => rw [hspc] at hsender; exact absurd (hG hspc (hallblk (by simp [hspc])) hsender) id
  | done =>
    refine ⟨⟨⟨by simp [SPc.finished], ?_⟩, ?_⟩, ?_⟩
    · intro r hrm
      obtain ⟨i, hi1, hi2⟩ := List.getElem_of_mem hrm
      have hr : s.readers[i]? = some r := by rw [List.getElem?_eq_getElem hi1, hi2]
      obtain ⟨sub, hs⟩ := hsubOf i r hr
      rcases hreader i r sub hr hs with ⟨hpc, hb⟩ | ⟨rest, hpc⟩
      · -- blocked although everything up to the end marker has been sent: impossible
        exfalso
        have hsent : s.sent = numbered c.prog 0 ++ [(c.prog.length, .stop)] := by
          have := hp.pc; simpa [progPc, hspc] using this
        have hw := (hinv.mb.wakeR i sub hs hb).1
        obtain ⟨hns, hd⟩ := hinv.rd.deliv i sub r hs hr
        rw [hpc] at hd
        simp only [tailOf, List.append_nil] at hd
        have hsurj := valid_surj hv
        have hall : ∀ j, j ≤ c.prog.length → (getMsg s.sent j).isSome := by
          intro j hj
          apply mem_getMsg_isSome
          rw [hsent]
          simp only [List.map_append, List.map_cons, List.map_nil, List.mem_append, List.mem_singleton]
          by_cases hjk : j = c.prog.length
          · exact Or.inr hjk
          · exact Or.inl (hsurj j (by omega))
        by_cases hnx : sub.next ≤ c.prog.length
        · have hsome := hall _ hnx
          have hge : minNext s.mb.subs ≤ sub.next := minNext_le_of_mem (List.mem_of_getElem? hs)
          rw [← hinv.mb.heapEq sub.next hge, ← hasNum_iff_getMsg, hw] at hsome
          cases hsome
        · -- the subscriber is beyond the end marker, so it has been handed the end marker: impossible
          have hKnot : c.prog.length ∉ (numbered c.prog 0).map (·.1) := fun hm => by have := hltK _ hm; omega
          have hstop : getMsg s.sent c.prog.length = some .stop := by
            rw [hsent, getMsg_append_right hKnot]; simp [getMsg]
          have : Msg.stop ∈ inOrder s.sent sub.next := by
            have hmono : ∀ n, c.prog.length < n → Msg.stop ∈ inOrder s.sent n := by
              intro n hn
              induction n with
              | zero => omega
              | succ k ih =>
                simp only [inOrder, List.mem_append]
                by_cases hk : k = c.prog.length
                · right; rw [hk, hstop]; simp
                · left; exact ih (by omega)
            exact hmono _ (by omega)
          rw [← hd] at this
          exact hns this
      · simp [hpc, RPc.finished]
    · intro w hw; simp [hwork w hw]
    · intro k hk; rw [hp.noKill] at hk; cases hk


theorem deadlock_free_core {c : Config} {s : Sys} (hv : c.valid = true) (hl : c.live = true) (h : Reachable c s)
    (hstuck : ∀ t, step s t = none) : s.final = true :=
  deadlock_free_gen hv (Config.live_basic hl) h (write_contra_inorder hv hl h) (gate_contra_inorder hv hl h) hstuck

end Strax.Mailbox
