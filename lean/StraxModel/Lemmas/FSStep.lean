import StraxModel.Lemmas.FSLate
/-
  Every step of the saver machine preserves the invariant; consequences for reachable configurations.
-/
namespace Strax.FS
open Strax

theorem rank_ge16_cases {x : Item} (h : 16 ≤ rank x) (h' : rank x ≤ 25) :
    (∃ ci, x = .append ci) ∨ (∃ i ops, x = .submit i ops) ∨ x = .markUnreg ∨ x = .join ∨ x = .poll ∨ x = .waitAll ∨
    x = .flushOpen .chunk ∨ x = .flushWrite .chunk ∨ x = .flushClose .chunk ∨ x = .waitQuiet ∨ x = .markClosed ∨
    x = .checkTemp ∨ x = .collect ∨ (∃ i, x = .readInfo i) ∨ (∃ i, x = .op (.unlink .temp (.cmeta i))) ∨
    x = .flushOpen .last ∨ x = .flushWrite .last ∨ x = .flushClose .last ∨ x = .op (.renameDir .temp .final) ∨
    x = .finish := by
  unfold rank at h h'
  split at h <;> simp_all

/-- the saver thread performs its next item, past `__init__` -/
theorem inv_sav_late {cs : List Chunk} {v : Variant} {c c' : Cfg} (hcs : cs ≠ []) (h : Inv cs v c) (hk : 16 ≤ hr c.prog)
    (hs : step c .sav = some c') : Inv cs v c' := by
  cases hp : c.prog with
  | nil => unfold step at hs; simp [hp] at hs
  | cons x rest =>
    have hk' := hk; rw [hp] at hk'; simp only [hr_cons] at hk'
    have hle := rank_head_le h hp
    rcases rank_ge16_cases hk' hle with ⟨ci, rfl⟩ | ⟨i, ops, rfl⟩ | rfl | rfl | rfl | rfl | rfl | rfl | rfl | rfl | rfl | rfl | rfl |
      ⟨i, rfl⟩ | ⟨i, rfl⟩ | rfl | rfl | rfl | rfl | rfl
    all_goals (unfold step at hs; simp only [hp] at hs)
    · injection hs with hs; subst hs; exact inv_append h hp
    · injection hs with hs; subst hs; exact inv_submit h hp
    · -- the write just submitted is not yet in `pending`
      injection hs with hs; subst hs
      have hb : true = true → v = .forked → c.handling = true := by
        intro _ hv
        cases hh : c.handling with
        | true => rfl
        | false =>
          have m := main_of_inv h hp (by simp [rank]) hh
          exact absurd (by rw [hp]; simp) (m.noApp hv).2
      have := inv_unreg (inv_pass (x := .markUnreg) h hp (Or.inr (Or.inr (Or.inr (Or.inr rfl)))) (by simp) (by simp)) true hb
      simpa using this
    · -- join
      split at hs
      · simp at hs
      · injection hs with hs; subst hs; exact inv_fail h (by rw [hp]; simp)
      · rename_i h1 h2
        injection hs with hs; subst hs
        exact inv_pass h hp (Or.inl rfl) (fun _ => ⟨h1, h2⟩) (by simp)
    · -- poll
      have hpoll : ∀ ws, (if anyFailed ws = true then some c.fail
          else some { c with prog := rest, unreg := false }) = some c' → Inv cs v c' := by
        intro ws hs
        split at hs
        · injection hs with hs; subst hs; exact inv_fail h (by rw [hp]; simp)
        · injection hs with hs; subst hs
          have := inv_unreg (inv_pass h hp (Or.inr (Or.inl rfl)) (by simp) (by simp)) false (by simp)
          simpa using this
      split at hs
      · exact hpoll _ hs
      · exact hpoll _ hs
    · -- waitAll
      split at hs
      · simp at hs
      · rename_i hrun
        split at hs
        · injection hs with hs; subst hs; exact inv_fail h (by rw [hp]; simp)
        · rename_i hfail
          injection hs with hs; subst hs
          exact inv_pass h hp (Or.inr (Or.inr (Or.inl rfl))) (by simp) (fun _ => ⟨by simpa using hrun, by simpa using hfail⟩)
    · injection hs with hs; subst hs
      exact inv_flush h hp (by simp [rank]) (Or.inl ⟨_, rfl, rfl⟩)
    · injection hs with hs; subst hs
      exact inv_flush h hp (by simp [rank]) (Or.inr (Or.inl ⟨_, rfl, rfl⟩))
    · injection hs with hs; subst hs
      exact inv_flush h hp (by simp [rank]) (Or.inr (Or.inr ⟨_, rfl, rfl⟩))
    · -- waitQuiet
      split at hs
      · simp at hs
      · rename_i hrun
        injection hs with hs; subst hs
        exact inv_waitQuiet h hp (by simpa using hrun)
    · injection hs with hs; subst hs; exact inv_markClosed h hp
    · -- checkTemp
      split at hs
      · injection hs with hs; subst hs
        exact inv_pass h hp (Or.inr (Or.inr (Or.inr (Or.inl rfl)))) (by simp) (by simp)
      · injection hs with hs; subst hs; exact inv_opFail h (by rw [hp]; simp)
    · injection hs with hs; subst hs; exact inv_collect h hp
    · -- readInfo
      split at hs
      · rename_i ci hr
        injection hs with hs; subst hs
        exact inv_readInfo h hp hr
      · injection hs with hs; subst hs; exact inv_opFail h (by rw [hp]; simp)
    · injection hs with hs; subst hs; exact inv_unlink h hp
    · injection hs with hs; subst hs
      exact inv_flush h hp (by simp [rank]) (Or.inl ⟨_, rfl, rfl⟩)
    · injection hs with hs; subst hs
      exact inv_flush h hp (by simp [rank]) (Or.inr (Or.inl ⟨_, rfl, rfl⟩))
    · injection hs with hs; subst hs
      exact inv_flush h hp (by simp [rank]) (Or.inr (Or.inr ⟨_, rfl, rfl⟩))
    · injection hs with hs; subst hs; exact inv_rename hcs h hp
    · injection hs with hs; subst hs; exact inv_finish h hp _


theorem inv_sav {cs : List Chunk} {v : Variant} {c c' : Cfg} (hcs : cs ≠ []) (h : Inv cs v c)
    (hs : step c .sav = some c') : Inv cs v c' := by
  by_cases h10 : hr c.prog ≤ 10
  · exact inv_sav_low h h10 hs
  · by_cases h14 : hr c.prog ≤ 14
    · exact inv_sav_mid h (by omega) h14 hs
    · by_cases h15 : hr c.prog = 15
      · exact inv_sav_armed h h15 hs
      · exact inv_sav_late hcs h (by omega) hs

/-- an entry is unlinked inside one of the rmtrees of `__init__` -/
theorem inv_rm {cs : List Chunk} {v : Variant} {c c' : Cfg} {n : Name} (h : Inv cs v c)
    (hs : step c (.rm n) = some c') : Inv cs v c' := by
  simp only [step] at hs
  split at hs
  · rename_i d t rest hp
    have hok := rank_le_of_ok (h.shape.ok (.unlinks d t) (by rw [hp]; simp))
    have hd : d = .temp := by
      cases d with
      | temp => rfl
      | final => cases t <;> simp [rank] at hok
    subst hd
    have hk : hr c.prog ≤ 10 := by rw [hp]; cases t <;> simp [rank]
    split at hs
    · rename_i dir hdir
      split at hs
      · injection hs with hs; subst hs
        have := inv_init_low (p' := c.prog) (fs' := c.fs.setDir .temp (some (dir.del n))) h (by omega) h.shape (by omega)
          (h.initProg (by omega)) (Or.inl rfl)
        simpa using this
      · simp at hs
    · simp at hs
  · simp at hs

theorem inv_step {cs : List Chunk} {v : Variant} {c c' : Cfg} (hcs : cs ≠ []) (h : Inv cs v c) {a : Act}
    (hs : step c a = some c') : Inv cs v c' := by
  cases a with
  | sav => exact inv_sav hcs h hs
  | savFail =>
    simp only [step] at hs
    split at hs
    · simp at hs
    · rename_i x rest hp
      split at hs
      · injection hs with hs; subst hs; exact inv_opFail h (by rw [hp]; simp)
      · simp at hs
  | abort =>
    simp only [step] at hs
    split at hs
    · simp at hs
    · rename_i x rest hp
      injection hs with hs; subst hs; exact inv_fail h (by rw [hp]; simp)
  | rm n => exact inv_rm h hs
  | rmFail n =>
    simp only [step] at hs
    split at hs
    · rename_i d t rest hp
      split at hs
      · split at hs
        · injection hs with hs; subst hs; exact inv_opFail h (by rw [hp]; simp)
        · simp at hs
      · simp at hs
    · simp at hs
  | wrk k =>
    simp only [step] at hs
    split at hs
    · rename_i w hk
      split at hs
      · rename_i o rest hst hops
        split at hs
        · rename_i fs' ha
          injection hs with hs; subst hs
          exact inv_wrk_ok h hk hst hops ha
        · injection hs with hs; subst hs
          exact inv_wrk_fail h hk hst
      · simp at hs
    · simp at hs
  | wrkFail k =>
    simp only [step] at hs
    split at hs
    · rename_i w hk
      split at hs
      · rename_i o rest hst hops
        injection hs with hs; subst hs
        exact inv_wrk_fail h hk hst
      · simp at hs
    · simp at hs
  | orph k => simp only [step] at hs; exact inv_orph h hs
  | orphFail k => simp only [step] at hs; exact inv_orph h hs

theorem inv_run {cs : List Chunk} {v : Variant} (hcs : cs ≠ []) : ∀ (acts : List Act) {c c' : Cfg}, Inv cs v c →
    run c acts = some c' → Inv cs v c' := by
  intro acts
  induction acts with
  | nil => intro c c' h hr; simp [run] at hr; subst hr; exact h
  | cons a rest ih =>
    intro c c' h hr
    simp only [run] at hr
    split at hr
    · rename_i c1 hs
      exact ih (inv_step hcs h hs) hr
    · simp at hr


/-! ## reachable file-system states are safe -/


/-- the invariant holds when a saver is created on a safe file system -/
theorem inv_init {cs : List Chunk} {fs : FS} (hsafe : SafeFS cs fs) (v : Variant) (hs : HandlerSpec)
    : Inv cs v (initCfg fs v {} cs hs) := by
  have hshape := shape_saverProg v cs
  have hk : hr (saverProg v {} cs) = 0 := by rw [saverProg_eq v]; rfl
  constructor
  · exact hshape
  · intro w hw; simp [initCfg] at hw
  · intro _; rfl
  · intro _; exact ⟨rfl, rfl, rfl⟩
  · intro _
    refine ⟨initItems, saverProg_eq v cs, ?_⟩
    intro x hx
    simp only [initItems, flushItems, List.cons_append, List.nil_append, List.mem_cons, List.mem_nil_iff, or_false] at hx
    rcases hx with rfl | rfl | rfl | rfl | rfl | rfl | rfl | rfl | rfl <;> simp [rank]
  · intro h12 _; simp only [initCfg] at h12; omega
  · intro h18 _; simp only [initCfg] at h18; omega
  · intro h19 _; simp only [initCfg] at h19; omega
  · intro h23 _; simp only [initCfg] at h23; omega
  · exact hsafe
  · intro hh; simp [initCfg] at hh
  · intro _ h16 _; simp only [initCfg] at h16; omega
  · intro h12 _; simp only [initCfg] at h12; omega
  · intro h19 _; simp only [initCfg] at h19; omega
  · intro h25; simp only [initCfg] at h25; omega
  · exact ⟨by intro _ _ w hw; simp [initCfg] at hw, by intro _ _; rfl, by intro w hw; simp [initCfg] at hw,
      by intro hh; simp [initCfg] at hh⟩

/-- file-system states reachable by any number of `make` attempts of the current protocol, each with any variant,
any handler behaviour, any schedule and any faults, stopped (process death) at any point -/
inductive Reach (cs : List Chunk) : FS → Prop where
  | empty : Reach cs FS.empty
  | attempt {fs : FS} {v : Variant} {hs : HandlerSpec} {acts : List Act} {c' : Cfg} :
      Reach cs fs → start fs = .save →
      run (initCfg fs v {} cs hs) acts = some c' → Reach cs c'.fs

theorem reach_safe {cs : List Chunk} (hcs : cs ≠ []) {fs : FS} (h : Reach cs fs) : SafeFS cs fs := by
  induction h with
  | empty => intro d hd; simp [FS.empty] at hd
  | attempt _ _ hrun ih => exact (inv_run hcs _ (inv_init ih _ _) hrun).safe

/-- what a safe file system looks like to a reader -/
theorem safe_visible {cs : List Chunk} {fs : FS} (h : SafeFS cs fs) :
    (find fs = .ok () ∧ loads fs = .ok cs) ∨ find fs = .error .dataNotAvailable := by
  cases hf : fs.final with
  | none => right; simp [find, hf]
  | some d =>
    have hd := h d hf
    unfold SafeDir at hd
    split at hd
    · rename_i m hm
      have hgm : getMetadata fs = .ok m := by simp [getMetadata, hf, hm]
      by_cases hg : m.good = true
      · left
        obtain ⟨hne, hl⟩ := hd hg
        simp only [Meta.good, Bool.and_eq_true, Bool.not_eq_true'] at hg
        have hfind : find fs = .ok () := by simp [find, hf, hgm, hg.1, hg.2]
        refine ⟨hfind, ?_⟩
        simp [loads, hfind, hgm, hne, hf, hl]
      · right
        simp only [Meta.good, Bool.and_eq_true, Bool.not_eq_true', not_and, Bool.not_eq_false] at hg
        simp only [find, hf, hgm]
        cases he : m.exc <;> cases hen : m.ended <;> simp_all
    · exact absurd hd id


/-! ## the caller's outcome -/


/-- how a step can change the bookkeeping that the caller's outcome depends on -/
inductive StepKind (c c' : Cfg) : Prop where
  /-- the saver thread makes progress: flags untouched, possibly one more (not failed) chunk write -/
  | progress (hne : c.prog ≠ []) (hf : c'.failed = c.failed) (hh : c'.handling = c.handling) (ho : c'.out = c.out)
      (hs : c'.spec = c.spec)
      (hw : c'.workers = c.workers ∨ ∃ w, w.st ≠ .failed ∧ c'.workers = c.workers ++ [w]) : StepKind c c'
  /-- the saver thread gets an exception (`f`: was it an operation of its own that raised?) -/
  | failure (hne : c.prog ≠ []) (f : Bool) (hf : f = true ∨ f = c.failed) (he : c' = { c with failed := f }.fail) : StepKind c c'
  /-- the saver is through -/
  | finish (rest : List Item) (hp : c.prog = .finish :: rest)
      (he : c' = { c with prog := rest, out := if c.handling || (c.spec.variant == .forked && anyFailed c.workers) then .raised else .success }) :
      StepKind c c'
  /-- a chunk writer moves on / fails -/
  | worker (k : Nat) (w w' : Worker) (hk : c.workers[k]? = some w) (hrun : w.st = .running)
      (hw : c'.workers = c.workers.set k w') (hp : c'.prog = c.prog) (hh : c'.handling = c.handling) (ho : c'.out = c.out)
      (hs : c'.spec = c.spec)
      (hf : (w'.st ≠ .failed ∧ c'.failed = c.failed) ∨ (w'.st = .failed ∧ c'.failed = true)) : StepKind c c'
  /-- a chunk write that the handler does not wait for moves on / fails -/
  | orphan (hk : c.orphans ≠ []) (hp : c'.prog = c.prog) (hw : c'.workers = c.workers) (hh : c'.handling = c.handling)
      (ho : c'.out = c.out) (hs : c'.spec = c.spec) : StepKind c c'

theorem doOp_kind (c : Cfg) (o : Op) (x : Item) (rest : List Item) (hp : c.prog = x :: rest) : StepKind c (c.doOp o rest) := by
  rcases doOp_eq c o rest with ⟨fs', _, he⟩ | he
  · rw [he]; exact .progress (by rw [hp]; simp) rfl rfl rfl rfl (Or.inl rfl)
  · rw [he]; exact .failure (by rw [hp]; simp) true (Or.inl rfl) rfl

theorem stepOrph_kind {c c' : Cfg} {k : Nat} {b : Bool} (hs : stepOrph c k b = some c') : StepKind c c' := by
  unfold stepOrph at hs
  split at hs
  · rename_i w hk
    have hne : c.orphans ≠ [] := by intro e; simp [e] at hk
    split at hs
    · split at hs
      · injection hs with hs; subst hs; exact .orphan hne rfl rfl rfl rfl rfl
      · split at hs <;> (injection hs with hs; subst hs; exact .orphan hne rfl rfl rfl rfl rfl)
    · simp at hs
  · simp at hs

theorem step_kind {c c' : Cfg} {a : Act} (hs : step c a = some c') : StepKind c c' := by
  cases a with
  | sav =>
    simp only [step] at hs
    split at hs
    · simp at hs
    · injection hs with hs; subst hs; exact doOp_kind c _ _ _ ‹_›
    · rename_i hp
      split at hs <;> (injection hs with hs; subst hs; exact .progress (by rw [hp]; simp) rfl rfl rfl rfl (Or.inl rfl))
    · rename_i hp
      split at hs <;> (injection hs with hs; subst hs; exact .progress (by rw [hp]; simp) rfl rfl rfl rfl (Or.inl rfl))
    · injection hs with hs; subst hs; exact doOp_kind c _ _ _ ‹_›
    · injection hs with hs; subst hs; exact doOp_kind c _ _ _ ‹_›
    · rename_i hp
      split at hs
      · simp at hs
      · injection hs with hs; subst hs; exact .progress (by rw [hp]; simp) rfl rfl rfl rfl (Or.inl rfl)
    · injection hs with hs; subst hs; exact doOp_kind c _ _ _ ‹_›
    · injection hs with hs; subst hs; exact doOp_kind c _ _ _ ‹_›
    · injection hs with hs; subst hs; exact doOp_kind c _ _ _ ‹_›
    · rename_i hp; injection hs with hs; subst hs; exact .progress (by rw [hp]; simp) rfl rfl rfl rfl (Or.inl rfl)
    · rename_i hp; injection hs with hs; subst hs; exact .progress (by rw [hp]; simp) rfl rfl rfl rfl (Or.inl rfl)
    · rename_i i ops hp
      injection hs with hs; subst hs
      refine .progress (by rw [hp]; simp) rfl rfl rfl rfl (Or.inr ⟨_, ?_, rfl⟩)
      simp only; split <;> simp
    · rename_i hp; injection hs with hs; subst hs; exact .progress (by rw [hp]; simp) rfl rfl rfl rfl (Or.inl rfl)
    · rename_i hp
      split at hs
      · simp at hs
      · injection hs with hs; subst hs; exact .failure (by rw [hp]; simp) c.failed (Or.inr rfl) (by simp)
      · injection hs with hs; subst hs; exact .progress (by rw [hp]; simp) rfl rfl rfl rfl (Or.inl rfl)
    · rename_i rest hp
      have hpoll : ∀ ws, (if anyFailed ws = true then some c.fail
          else some { c with prog := rest, unreg := false }) = some c' → StepKind c c' := by
        intro ws hs
        split at hs
        · injection hs with hs; subst hs; exact .failure (by rw [hp]; simp) c.failed (Or.inr rfl) (by simp)
        · injection hs with hs; subst hs; exact .progress (by rw [hp]; simp) rfl rfl rfl rfl (Or.inl rfl)
      split at hs
      · exact hpoll _ hs
      · exact hpoll _ hs
    · rename_i hp
      split at hs
      · simp at hs
      · split at hs
        · injection hs with hs; subst hs; exact .failure (by rw [hp]; simp) c.failed (Or.inr rfl) (by simp)
        · injection hs with hs; subst hs; exact .progress (by rw [hp]; simp) rfl rfl rfl rfl (Or.inl rfl)
    · rename_i hp
      split at hs
      · simp at hs
      · injection hs with hs; subst hs; exact .progress (by rw [hp]; simp) rfl rfl rfl rfl (Or.inl rfl)
    · rename_i hp; injection hs with hs; subst hs; exact .progress (by rw [hp]; simp) rfl rfl rfl rfl (Or.inl rfl)
    · rename_i hp
      split at hs
      · injection hs with hs; subst hs; exact .progress (by rw [hp]; simp) rfl rfl rfl rfl (Or.inl rfl)
      · injection hs with hs; subst hs; exact .failure (by rw [hp]; simp) true (Or.inl rfl) rfl
    · rename_i hp; injection hs with hs; subst hs; exact .progress (by rw [hp]; simp) rfl rfl rfl rfl (Or.inl rfl)
    · rename_i hp
      split at hs
      · injection hs with hs; subst hs; exact .progress (by rw [hp]; simp) rfl rfl rfl rfl (Or.inl rfl)
      · injection hs with hs; subst hs; exact .failure (by rw [hp]; simp) true (Or.inl rfl) rfl
    · rename_i rest hp; injection hs with hs; subst hs; exact .finish rest hp rfl
  | savFail =>
    simp only [step] at hs
    split at hs
    · simp at hs
    · rename_i hp
      split at hs
      · injection hs with hs; subst hs; exact .failure (by rw [hp]; simp) true (Or.inl rfl) rfl
      · simp at hs
  | abort =>
    simp only [step] at hs
    split at hs
    · simp at hs
    · rename_i hp
      injection hs with hs; subst hs; exact .failure (by rw [hp]; simp) c.failed (Or.inr rfl) (by simp)
  | rm n =>
    simp only [step] at hs
    split at hs
    · rename_i hp
      split at hs
      · split at hs
        · injection hs with hs; subst hs; exact .progress (by rw [hp]; simp) rfl rfl rfl rfl (Or.inl rfl)
        · simp at hs
      · simp at hs
    · simp at hs
  | rmFail n =>
    simp only [step] at hs
    split at hs
    · rename_i hp
      split at hs
      · split at hs
        · injection hs with hs; subst hs; exact .failure (by rw [hp]; simp) true (Or.inl rfl) rfl
        · simp at hs
      · simp at hs
    · simp at hs
  | wrk k =>
    simp only [step] at hs
    split at hs
    · rename_i w hk
      split at hs
      · rename_i o rest hst hops
        split at hs
        · injection hs with hs; subst hs
          refine .worker k w _ hk hst rfl rfl rfl rfl rfl (Or.inl ⟨?_, rfl⟩)
          simp only; split <;> simp
        · injection hs with hs; subst hs
          exact .worker k w _ hk hst rfl rfl rfl rfl rfl (Or.inr ⟨rfl, rfl⟩)
      · simp at hs
    · simp at hs
  | wrkFail k =>
    simp only [step] at hs
    split at hs
    · rename_i w hk
      split at hs
      · rename_i o rest hst hops
        injection hs with hs; subst hs
        exact .worker k w _ hk hst rfl rfl rfl rfl rfl (Or.inr ⟨rfl, rfl⟩)
      · simp at hs
    · simp at hs
  | orph k => simp only [step] at hs; exact stepOrph_kind hs
  | orphFail k => simp only [step] at hs; exact stepOrph_kind hs



theorem fail_spec (c : Cfg) : c.fail.spec = c.spec := by
  unfold Cfg.fail; split <;> (try split) <;> rfl

theorem StepKind.spec {c c' : Cfg} (h : StepKind c c') : c'.spec = c.spec := by
  cases h with
  | progress _ _ _ _ hs _ => exact hs
  | failure _ f _ he => rw [he, fail_spec]
  | finish rest _ he => rw [he]
  | worker _ _ _ _ _ _ _ _ _ hs _ => exact hs
  | orphan _ _ _ _ _ hs => exact hs

/-- bookkeeping of the caller's outcome (for processors that look at every exception of the saver) -/
structure Rep (c : Cfg) : Prop where
  running : c.prog ≠ [] → c.out = .running
  f1 : c.failed = true → c.handling = true ∨ c.out = .raised ∨ ∃ w ∈ c.workers, w.st = .failed
  f2 : c.out = .success → c.handling = false ∧ c.prog = [] ∧ ∀ w ∈ c.workers, w.st = .ok
  succ : c.out = .success → ∃ d m, c.fs.final = some d ∧ d.get .md = some (.json m) ∧ m.good = true

theorem rep_step {cs : List Chunk} {v : Variant} {c c' : Cfg} (hI : Inv cs v c) (hl : c.spec.lostClose = false)
    (hR : Rep c) (hk : StepKind c c') : Rep c' := by
  cases hk with
  | progress hne hf hh ho hs hw =>
    have hrun := hR.running hne
    refine ⟨fun _ => by rw [ho]; exact hrun, ?_, ?_, ?_⟩
    · intro hfl
      rw [hf] at hfl
      rcases hR.f1 hfl with h | h | ⟨w, hwm, hwf⟩
      · left; rw [hh]; exact h
      · right; left; rw [ho]; exact h
      · right; right
        rcases hw with hw | ⟨w0, _, hw⟩
        · exact ⟨w, by rw [hw]; exact hwm, hwf⟩
        · exact ⟨w, by rw [hw]; simp [hwm], hwf⟩
    · intro hsu; rw [ho, hrun] at hsu; cases hsu
    · intro hsu; rw [ho, hrun] at hsu; cases hsu
  | failure hne f hf he =>
    have hrun := hR.running hne
    subst he
    unfold Cfg.fail
    simp only [hl, Bool.false_and, Bool.false_eq_true, if_false]
    split
    · exact ⟨fun h => absurd rfl h, fun _ => Or.inr (Or.inl rfl), fun h => Outcome.noConfusion h, fun h => Outcome.noConfusion h⟩
    · split
      · refine ⟨fun _ => hrun, fun _ => Or.inl rfl, fun h => ?_, fun h => ?_⟩
        · simp only at h; rw [hrun] at h; cases h
        · simp only at h; rw [hrun] at h; cases h
      · refine ⟨fun _ => hrun, fun _ => Or.inl rfl, fun h => ?_, fun h => ?_⟩
        · simp only at h; rw [hrun] at h; cases h
        · simp only at h; rw [hrun] at h; cases h
  | finish rest hp he =>
    have hs : Shape (.finish :: rest) := hp ▸ hI.shape
    have hall0 : c.handling = false → ∀ w ∈ c.workers, w.st = .ok := by
      intro hh
      have m := hI.main hh (by rw [hp]; simp [rank]) (by rw [hp]; simp [rank])
      exact all_ok_late m hI.shape.sorted (by rw [hp]; simp [rank])
    -- inlined savers: a failed pool task makes the caller's outcome "raised" — but then the saver is inside the handler
    have hnf : (c.handling || (c.spec.variant == Variant.forked && anyFailed c.workers)) = c.handling := by
      cases hh : c.handling with
      | true => rfl
      | false =>
        have hnone : anyFailed c.workers = false := by
          simp only [anyFailed, List.any_eq_false, beq_iff_eq]
          intro w hw hf
          have := hall0 hh w hw; rw [hf] at this; cases this
        simp [hnone]
    rw [hnf] at he
    subst he
    have hrest : rest = [] := by
      cases rest with
      | nil => rfl
      | cons y q =>
        have h1 := hs.hr_rest_gt (by simp [rank]) (by simp [rank])
        have h2 := rank_le_of_ok (hs.ok y (by simp))
        have h25 : rank Item.finish = 25 := rfl
        simp only [hr_cons] at h1; omega
    subst hrest
    have hrun := hR.running (by rw [hp]; simp)
    have hall : c.handling = false → ∀ w ∈ c.workers, w.st = .ok := by
      intro hh
      have m := hI.main hh (by rw [hp]; simp [rank]) (by rw [hp]; simp [rank])
      exact all_ok_late m hI.shape.sorted (by rw [hp]; simp [rank])
    refine ⟨fun h => absurd rfl h, ?_, ?_, ?_⟩
    · intro hfl
      cases hh : c.handling with
      | true => left; rfl
      | false =>
        rcases hR.f1 hfl with h | h | ⟨w, hwm, hwf⟩
        · rw [hh] at h; cases h
        · rw [hrun] at h; cases h
        · have := hall hh w hwm; rw [hwf] at this; cases this
    · intro hsu
      cases hh : c.handling with
      | true => simp [hh] at hsu
      | false => exact ⟨rfl, rfl, hall hh⟩
    · intro hsu
      cases hh : c.handling with
      | true => simp [hh] at hsu
      | false =>
        obtain ⟨d, hd, hmd⟩ := hI.renamed (by rw [hp]; rfl)
        obtain ⟨hend, hexc⟩ := hI.closedMd (by rw [hp]; simp [rank]) (by rw [hp]; simp [rank])
        exact ⟨d, c.md, hd, hmd, by simp [Meta.good, hend, hexc, hh]⟩
  | worker k w w' hk hrun hw hp hh ho hs hf =>
    refine ⟨fun h => by rw [ho]; exact hR.running (by rw [← hp]; exact h), ?_, ?_, ?_⟩
    · intro hfl
      rcases hf with ⟨_, hfe⟩ | ⟨hwf, _⟩
      · rw [hfe] at hfl
        rcases hR.f1 hfl with h | h | ⟨w0, hwm, hw0⟩
        · left; rw [hh]; exact h
        · right; left; rw [ho]; exact h
        · right; right
          obtain ⟨p, hp0⟩ := List.mem_iff_getElem?.mp hwm
          have hpk : p ≠ k := by
            intro e; subst e; rw [hk] at hp0; injection hp0 with hp0; subst hp0; rw [hrun] at hw0; cases hw0
          refine ⟨w0, ?_, hw0⟩
          rw [hw]
          exact List.mem_iff_getElem?.mpr ⟨p, by rw [List.getElem?_set]; simp [Ne.symm hpk, hp0]⟩
      · right; right
        exact ⟨w', by rw [hw]; exact mem_set_self_of hk, hwf⟩
    · intro hsu
      rw [ho] at hsu
      have := (hR.f2 hsu).2.2 w (List.mem_of_getElem? hk)
      rw [hrun] at this; cases this
    · intro hsu
      rw [ho] at hsu
      have := (hR.f2 hsu).2.2 w (List.mem_of_getElem? hk)
      rw [hrun] at this; cases this

  | orphan hk hp hw hh ho hs =>
    have hhand := hI.side.orphMode hk
    refine ⟨fun h => by rw [ho]; exact hR.running (by rw [← hp]; exact h), fun _ => Or.inl (by rw [hh]; exact hhand), ?_, ?_⟩
    · intro hsu
      rw [ho] at hsu
      have := (hR.f2 hsu).1
      rw [hhand] at this; cases this
    · intro hsu
      rw [ho] at hsu
      have := (hR.f2 hsu).1
      rw [hhand] at this; cases this

theorem rep_init (fs : FS) (v : Variant) (cs : List Chunk) (hs : HandlerSpec) : Rep (initCfg fs v {} cs hs) :=
  ⟨fun _ => rfl, fun h => by simp [initCfg] at h, fun h => by simp [initCfg] at h, fun h => by simp [initCfg] at h⟩

theorem run_spec : ∀ (acts : List Act) {c c' : Cfg}, run c acts = some c' → c'.spec = c.spec := by
  intro acts
  induction acts with
  | nil => intro c c' h; simp [run] at h; subst h; rfl
  | cons a rest ih =>
    intro c c' h
    simp only [run] at h
    split at h
    · rename_i c1 hs
      rw [ih h, (step_kind hs).spec]
    · simp at h

theorem rep_run {cs : List Chunk} {v : Variant} (hcs : cs ≠ []) : ∀ (acts : List Act) {c c' : Cfg}, Inv cs v c →
    c.spec.lostClose = false → Rep c → run c acts = some c' → Rep c' := by
  intro acts
  induction acts with
  | nil => intro c c' _ _ hR h; simp [run] at h; subst h; exact hR
  | cons a rest ih =>
    intro c c' hI hl hR h
    simp only [run] at h
    split at h
    · rename_i c1 hs
      have hk := step_kind hs
      exact ih (inv_step hcs hI hs) (by rw [hk.spec]; exact hl) (rep_step hI hl hR hk) h
    · simp at h


/-! ## the driver's scheduler -/


/-- whatever the eager scheduler of the driver does (faults included) is a run of the machine -/
theorem runAuto_run (o : RmOrder) : ∀ (fuel : Nat) (ft : List Fault) (c : Cfg) (log : List Op),
    ∃ acts, run c acts = some (runAuto o ft fuel c log).cfg := by
  intro fuel
  induction fuel with
  | zero => intro ft c log; exact ⟨[], rfl⟩
  | succ n ih =>
    intro ft c log
    unfold runAuto
    split
    · split
      · rename_i c' hs
        obtain ⟨acts, ha⟩ := ih ft c' log
        exact ⟨.abort :: acts, by simp [run, hs, ha]⟩
      · exact ⟨[], rfl⟩
    · split
      · exact ⟨[], rfl⟩
      · rename_i a _
        simp only
        split
        · exact ⟨[], rfl⟩
        · split
          · rename_i c' hs
            obtain ⟨acts, ha⟩ := ih ft c' (match actOp c a with
              | some op => op :: log
              | none => log)
            exact ⟨failOf a :: acts, by simp only [run, hs]; exact ha⟩
          · exact ⟨[], rfl⟩
        · split
          · rename_i c' hs
            obtain ⟨acts, ha⟩ := ih (ft.erase ⟨log.length, .skip⟩) c' log
            exact ⟨failOf a :: acts, by simp only [run, hs]; exact ha⟩
          · exact ⟨[], rfl⟩
        · split
          · rename_i c' hs
            exact ⟨[a], by simp [run, hs]⟩
          · exact ⟨[], rfl⟩
        · split
          · rename_i c' hs
            obtain ⟨acts, ha⟩ := ih ft c' (match actOp c a with
              | some op => op :: log
              | none => log)
            exact ⟨a :: acts, by simp only [run, hs]; exact ha⟩
          · exact ⟨[], rfl⟩
        · split
          · rename_i c' hs
            obtain ⟨acts, ha⟩ := ih ft c' (match actOp c a with
              | some op => op :: log
              | none => log)
            exact ⟨a :: acts, by simp only [run, hs]; exact ha⟩
          · exact ⟨[], rfl⟩


/-- the states the driver's `attempt` produces (current protocol) are reachable in the sense of `Reach` -/
theorem attempt_reach {cs : List Chunk} {fs : FS} (h : Reach cs fs) (v : Variant) (hs : HandlerSpec) (o : RmOrder)
    (fts : List Fault) :
    Reach cs (attempt fs v {} cs hs o fts).1.cfg.fs := by
  unfold attempt
  split
  · exact h
  · exact h
  · rename_i hst
    obtain ⟨acts, ha⟩ := runAuto_run o (fuelFor (initCfg fs v {} cs hs)) fts (initCfg fs v {} cs hs) []
    exact Reach.attempt h hst ha

end Strax.FS
